// C35 correspondence harness: collision detection reports exactly the overlapping pairs.
//  closed-form pairs (model: SimbodyModel/C35.lean):
//    I col.hs_sph  <cls> X1(12) c(3) r            CollisionDetectionAlgorithm::HalfSpaceSphere::processObjects
//    I col.sph_sph <cls> c1(3) c2(3) r1 r2        ...::SphereSphere
//    I col.hs_ell  <cls> X1(12) X2(12) a(3)       ...::HalfSpaceEllipsoid
//    I col.detect  <cls> order kind XA(12) XB(12) params(4)   GeneralContactSubsystem in both add orders, canonical form
//    O <fn> 0 | 1 s1 s2 point(3) normal(3) depth rmin rmax
//  iterative pairs (contract predicates only):  I p.col.ell_sph / p.col.ell_ell / p.col.hs_mesh / p.col.sph_mesh ...
//  P lines: contact iff overlap (outside a tolerance band), depth/normal/point vs independent exact geometry, swapped
//  order (same physical contact, normal reversed with the roles), common rigid motion (contact moves with it).
//  Transforms travel as 12 numbers: rotation by rows, then translation.
#include "Simbody.h"
#include "hcommon.h"
#include "geom_mesh.h"
#include <algorithm>
#include <set>
using namespace SimTK;

static const double PI = 3.14159265358979323846;
static Rotation rndRot(vh::Rng& g) {
    double z = g.range(-1, 1), ph = g.range(0, 2*PI), s = std::sqrt(1 - z*z);
    return Rotation(g.range(-PI, PI), UnitVec3(Vec3(s*std::cos(ph), s*std::sin(ph), z)));
}
static Vec3 rndVec(vh::Rng& g, double lo, double hi) { return Vec3(g.signedMag(lo, hi), g.signedMag(lo, hi), g.signedMag(lo, hi)); }
static void pushX(std::vector<double>& v, const Transform& X) {
    for (int i = 0; i < 3; ++i) for (int j = 0; j < 3; ++j) v.push_back(X.R().asMat33()(i, j));
    for (int i = 0; i < 3; ++i) v.push_back(X.p()[i]);
}
static Transform readX(const std::vector<double>& v, int o) {
    Mat33 m; for (int i = 0; i < 3; ++i) for (int j = 0; j < 3; ++j) m(i, j) = v[o + 3*i + j];
    Rotation R; R.setRotationFromMat33TrustMe(m);
    return Transform(R, Vec3(v[o+9], v[o+10], v[o+11]));
}
static void push3(std::vector<double>& v, const Vec3& p) { for (int i = 0; i < 3; ++i) v.push_back(p[i]); }
static Vec3 V(const std::vector<double>& v, int i) { return Vec3(v[i], v[i+1], v[i+2]); }

struct PC { bool hit = false; int s1 = -1, s2 = -1; Vec3 point{NaN}, normal{NaN}; double depth = NaN, ra = NaN, rb = NaN; int count = 0; };
static PC fromContacts(const Array_<Contact>& cs) {
    PC c; c.count = (int)cs.size();
    if (cs.size() >= 1 && PointContact::isInstance(cs[0])) {
        const PointContact& p = static_cast<const PointContact&>(cs[0]);
        c.hit = true; c.s1 = p.getSurface1(); c.s2 = p.getSurface2(); c.point = p.getLocation(); c.normal = p.getNormal();
        c.depth = p.getDepth(); c.ra = std::min(p.getRadiusOfCurvature1(), p.getRadiusOfCurvature2());
        c.rb = std::max(p.getRadiusOfCurvature1(), p.getRadiusOfCurvature2());
    }
    return c;
}
static PC direct(const ContactGeometry& g1, const Transform& X1, const ContactGeometry& g2, const Transform& X2) {
    CollisionDetectionAlgorithm* alg = CollisionDetectionAlgorithm::getAlgorithm(g1.getTypeId(), g2.getTypeId());
    Array_<Contact> cs;
    if (alg) alg->processObjects(ContactSurfaceIndex(0), g1, X1, ContactSurfaceIndex(1), g2, X2, cs);
    PC c = fromContacts(cs); if (!alg) c.count = -1; return c;
}
// the real dispatch: GeneralContactSubsystem with the two surfaces fixed on Ground, added in the given order
static Array_<Contact> viaSubsystemRaw(const ContactGeometry& g0, const Transform& X0, const ContactGeometry& g1, const Transform& X1) {
    MultibodySystem system; SimbodyMatterSubsystem matter(system); GeneralContactSubsystem contacts(system);
    ContactSetIndex set = contacts.createContactSet();
    contacts.addBody(set, matter.updGround(), g0, X0);
    contacts.addBody(set, matter.updGround(), g1, X1);
    State s = system.realizeTopology();
    system.realize(s, Stage::Dynamics);
    return contacts.getContacts(s, set);
}
static PC viaSubsystem(const ContactGeometry& g0, const Transform& X0, const ContactGeometry& g1, const Transform& X1) {
    PC c = fromContacts(viaSubsystemRaw(g0, X0, g1, X1));
    if (c.hit && c.s1 != 0) { std::swap(c.s1, c.s2); c.normal = -c.normal; }   // canonical: oriented from surface 0 to surface 1
    return c;
}
static void emitPC(const std::string& fn, const PC& c) {
    vh::Line o = vh::O(fn);
    if (!c.hit) { o.i(0).emit(); return; }
    o.i(1).i(c.s1).i(c.s2).d(c.point[0]).d(c.point[1]).d(c.point[2]).d(c.normal[0]).d(c.normal[1]).d(c.normal[2]).d(c.depth).d(c.ra).d(c.rb);
    o.emit();
}
static double diffPC(const PC& a, const PC& b, double L) {   // max relative difference of two physical contacts
    if (a.hit != b.hit) return 1;
    if (!a.hit) return 0;
    return std::max(std::max((a.point - b.point).norm() / L, (a.normal - b.normal).norm()), std::abs(a.depth - b.depth) / L);
}

// ---- generic predicates for closed-form pairs: exact reference (refHit, refDepth, refNormal, refPoint) supplied by caller
static void exactPredicates(const std::string& K, const PC& c, double sep /* signed: >0 overlap amount */, const Vec3& n, const Vec3& pt, double L) {
    const double band = 1e-9 * L;
    if (std::abs(sep) > band)
        vh::P("contact_iff_overlap", K + ".contact_iff_overlap", (c.hit == (sep > 0)) ? 0 : 1, 0);
    if (c.hit && sep > band) {
        vh::P("depth_exact", K + ".depth", std::abs(c.depth - sep) / L, 1e-11);
        vh::P("normal_exact", K + ".normal", (c.normal - n).norm(), 1e-11);
        vh::P("point_exact", K + ".point", (c.point - pt).norm() / L, 1e-11);
        vh::P("one_contact", K + ".single_contact", std::abs(c.count - 1), 0);
    }
}
static void motionPredicates(const std::string& K, const PC& c, const PC& cg, const Transform& G, double L, double tolr) {
    PC moved = c;
    if (c.hit) { moved.point = G * c.point; moved.normal = G.R() * c.normal; }
    vh::P("rigid_motion_invariance", K + ".rigid_motion", diffPC(moved, cg, L), tolr);
}

// ================================================================================================ closed-form cases
static void caseHsSph(const std::string& cls, const std::vector<double>& v) {
    Transform X1 = readX(v, 0); Vec3 c = V(v, 12); double r = v[15];
    vh::Line in = vh::I("col.hs_sph"); in.s(cls); for (double x : v) in.d(x); in.emit();
    ContactGeometry::HalfSpace hs; ContactGeometry::Sphere sp(r);
    PC pc = direct(hs, X1, sp, Transform(c));
    emitPC("col.hs_sph", pc);
    vh::D("col.hs_sph." + cls + (pc.hit ? ".hit" : ".miss"));
    // independent exact geometry (long double)
    Vec3 xh = X1.R() * Vec3(1, 0, 0); long double cx = 0; for (int i = 0; i < 3; ++i) cx += (long double)xh[i] * ((long double)c[i] - X1.p()[i]);
    double sep = (double)(r + cx);
    Vec3 foot = c - (double)cx * xh;                 // projection of the centre onto the plane
    exactPredicates("HalfSpaceSphere." + cls, pc, sep, -xh, foot + (sep / 2) * xh, std::max(1.0, r));
    vh::Rng g(vh::Rng(0).s ^ (uint64_t)(v[12] * 1e6) ^ 3511);
    Transform G(rndRot(g), rndVec(g, 0.1, 3));
    motionPredicates("HalfSpaceSphere." + cls, pc, direct(hs, G * X1, sp, Transform(G * c)), G, std::max(1.0, r), 1e-10);
    // sphere given a rotated frame of its own: nothing may change
    vh::P("sphere_frame_irrelevant", "HalfSpaceSphere." + cls + ".sphere_orientation",
          diffPC(pc, direct(hs, X1, sp, Transform(rndRot(g), c)), std::max(1.0, r)), 1e-12);
}
static void caseSphSph(const std::string& cls, const std::vector<double>& v) {
    Vec3 c1 = V(v, 0), c2 = V(v, 3); double r1 = v[6], r2 = v[7];
    vh::Line in = vh::I("col.sph_sph"); in.s(cls); for (double x : v) in.d(x); in.emit();
    ContactGeometry::Sphere s1(r1), s2(r2);
    PC pc = direct(s1, Transform(c1), s2, Transform(c2));
    emitPC("col.sph_sph", pc);
    vh::D("col.sph_sph." + cls + (pc.hit ? ".hit" : ".miss"));
    double L = std::max(r1, r2);
    long double d2 = 0; for (int i = 0; i < 3; ++i) d2 += ((long double)c2[i] - c1[i]) * ((long double)c2[i] - c1[i]);
    double dist = (double)std::sqrt(d2), sep = r1 + r2 - dist;
    Vec3 n = (c2 - c1) / dist;
    if (dist > 0) {
        exactPredicates("SphereSphere." + cls, pc, sep, n, 0.5 * ((c1 + r1 * n) + (c2 - r2 * n)), L);
        if (pc.hit) vh::P("relative_radius", "SphereSphere." + cls + ".relative_radius", std::abs(pc.ra - r1 * r2 / (r1 + r2)) / L, 1e-12);
    } else {
        // concentric: every direction is equally right; the property only requires a report iff overlap
        vh::P("contact_iff_overlap", "SphereSphere." + cls + ".contact_iff_overlap", pc.hit ? 0 : 1, 0);
    }
    // swapped order: roles swapped, normal reversed, everything else identical
    PC sw = direct(s2, Transform(c2), s1, Transform(c1));
    PC swc = sw; if (sw.hit) swc.normal = -sw.normal;
    vh::P("swap_symmetry", "SphereSphere." + cls + ".swap", diffPC(pc, swc, L), 1e-12);
    vh::Rng g((uint64_t)(v[0] * 1e6) ^ 3517);
    Transform G(rndRot(g), rndVec(g, 0.1, 3));
    motionPredicates("SphereSphere." + cls, pc, direct(s1, Transform(G * c1), s2, Transform(G * c2)), G, L, 1e-10);
}
static void caseHsEll(const std::string& cls, const std::vector<double>& v) {
    Transform X1 = readX(v, 0), X2 = readX(v, 12); Vec3 a = V(v, 24);
    vh::Line in = vh::I("col.hs_ell"); in.s(cls); for (double x : v) in.d(x); in.emit();
    ContactGeometry::HalfSpace hs; ContactGeometry::Ellipsoid el(a);
    PC pc = direct(hs, X1, el, X2);
    emitPC("col.hs_ell", pc);
    vh::D("col.hs_ell." + cls + (pc.hit ? ".hit" : ".miss"));
    double L = std::max(a[0], std::max(a[1], a[2]));
    // exact: support function of the ellipsoid in direction x_H (ground), long double
    Vec3 xh = X1.R() * Vec3(1, 0, 0); Vec3 dE = ~X2.R() * xh;     // direction in the ellipsoid frame
    long double w = 0; for (int i = 0; i < 3; ++i) w += (long double)dE[i] * dE[i] * a[i] * a[i];
    w = std::sqrt(w);
    Vec3 supE(dE[0]*a[0]*a[0] / (double)w, dE[1]*a[1]*a[1] / (double)w, dE[2]*a[2]*a[2] / (double)w);
    Vec3 supG = X2 * supE;
    double sep = ~xh * (supG - X1.p());
    exactPredicates("HalfSpaceEllipsoid." + cls, pc, sep, -xh, supG - (sep / 2) * xh, L);
    if (pc.hit && sep > 1e-9 * L) {
        // OBSERVATION (not part of C35's statement, which speaks of depth, normal and point only): the reported relative
        // radii of curvature are the semi-axes 1/sqrt(lambda) of the central section, not the principal radii of
        // curvature 1/(d*lambda) of the ellipsoid at the contact point (radii (1,2,3), tip of x: reports 2,3; true 4,9).
        Vec2 k; Rotation Rk; el.calcCurvature(supE, k, Rk);
        if (std::max(std::abs(pc.ra - 1 / k[0]), std::abs(pc.rb - 1 / k[1])) / L > 1e-6) vh::D("observation.HalfSpaceEllipsoid.radii_not_curvature_radii");
    }
    vh::Rng g((uint64_t)(v[9] * 1e6) ^ 3527);
    Transform G(rndRot(g), rndVec(g, 0.1, 3));
    motionPredicates("HalfSpaceEllipsoid." + cls, pc, direct(hs, G * X1, el, G * X2), G, L, 1e-10);
}
// both add orders through the real subsystem; kind 0 hs/sph, 1 sph/sph, 2 hs/ell
static void caseDetect(const std::string& cls, const std::vector<double>& v) {
    int ord = (int)v[0], kind = (int)v[1]; Transform XA = readX(v, 2), XB = readX(v, 14);
    vh::Line in = vh::I("col.detect"); in.s(cls); for (double x : v) in.d(x); in.emit();
    std::unique_ptr<ContactGeometry> A, B;
    if (kind == 0) { A.reset(new ContactGeometry::HalfSpace()); B.reset(new ContactGeometry::Sphere(v[26])); }
    else if (kind == 1) { A.reset(new ContactGeometry::Sphere(v[26])); B.reset(new ContactGeometry::Sphere(v[27])); }
    else { A.reset(new ContactGeometry::HalfSpace()); B.reset(new ContactGeometry::Ellipsoid(Vec3(v[26], v[27], v[28]))); }
    PC ab = viaSubsystem(*A, XA, *B, XB), ba = viaSubsystem(*B, XB, *A, XA);
    emitPC("col.detect", ord == 0 ? ab : ba);
    vh::D(std::string("col.detect.kind") + std::to_string(kind) + (ab.hit ? ".hit" : ".miss"));
    // physical contact must be the same: orient both normals from A to B
    PC baA = ba; if (ba.hit) baA.normal = -ba.normal;      // in (B,A) order surface 0 is B
    static const char* nm[] = {"HalfSpaceSphere", "SphereSphere", "HalfSpaceEllipsoid"};
    vh::P("swap_symmetry", std::string(nm[kind]) + "." + cls + ".subsystem_swap", diffPC(ab, baA, 3.0), 1e-12);
}

// ================================================================================================ iterative pairs (contract)
struct EllRef {   // independent helpers for an ellipsoid with radii a placed at X
    Vec3 a; Transform X;
    double f(const Vec3& pG) const { Vec3 p = ~X * pG; return 1 - std::sqrt(p[0]*p[0]/(a[0]*a[0]) + p[1]*p[1]/(a[1]*a[1]) + p[2]*p[2]/(a[2]*a[2])); }   // >0 inside
    Vec3 outward(const Vec3& pG) const { Vec3 p = ~X * pG; return X.R() * Vec3(UnitVec3(Vec3(p[0]/(a[0]*a[0]), p[1]/(a[1]*a[1]), p[2]/(a[2]*a[2])))); }
    Vec3 sample(vh::Rng& g) const { double z = g.range(-1, 1), ph = g.range(0, 2*PI), s = std::sqrt(1 - z*z); return X * Vec3(a[0]*s*std::cos(ph), a[1]*s*std::sin(ph), a[2]*z); }
};
// Contract of a reported convex-convex contact.  Returns the measured penetration class: the deepest sampled penetration
// (implicit-function units: 0 = touching, 1 = through the centre) decides between ".shallow" and ".deep"; the class is a
// deterministic function of the input (the sampling generator is seeded from it) so that replays produce the same keys.
static std::string convexContract(const std::string& K0, const PC& c, const EllRef& e1, const EllRef& e2, vh::Rng& g, double L) {
    // sampled separation test: a surface sample of one body strictly inside the other proves overlap
    double deepest = -INFINITY;
    for (int i = 0; i < 3000; ++i) { deepest = std::max(deepest, e2.f(e1.sample(g))); deepest = std::max(deepest, e1.f(e2.sample(g))); }
    const std::string K = K0 + (deepest > 0.3 ? ".deep" : ".shallow");
    vh::D(K);
    if (!c.hit) { vh::P("miss_means_separated", K + ".contact_iff_overlap", deepest > 1e-6 ? 1 : 0, 0); return K; }
    vh::P("one_contact", K + ".single_contact", std::abs(c.count - 1), 0);
    Vec3 p1 = c.point + (c.depth / 2) * c.normal, p2 = c.point - (c.depth / 2) * c.normal;   // reported point pair
    // contract (one key): both points on their surfaces, unit normal = outward normal of surface 1 at p1 = minus outward
    // normal of surface 2 at p2, positive depth, and each point penetrates the other body
    double worst = 0;
    worst = std::max(worst, std::abs(e1.f(p1)) / 1e-8);
    worst = std::max(worst, std::abs(e2.f(p2)) / 1e-8);
    worst = std::max(worst, std::abs(c.normal.norm() - 1) / 1e-12);
    worst = std::max(worst, (c.normal - e1.outward(p1)).norm() / 1e-6);
    worst = std::max(worst, (c.normal + e2.outward(p2)).norm() / 1e-6);
    worst = std::max(worst, c.depth > 0 ? 0.0 : 2.0);
    worst = std::max(worst, -e2.f(p1) / 1e-8);
    worst = std::max(worst, -e1.f(p2) / 1e-8);
    vh::P("contact_contract", K + ".contact_contract", std::isfinite(worst) ? worst : NAN, 1);
    return K;
}
// exact signed distance from a point to an ellipsoid surface (centre frame coordinates, all nonzero): >0 outside
static double ellPointDistance(const Vec3& a, const Vec3& p, Vec3& nearest) {
    long double A[3] = {(long double)a[0]*a[0], (long double)a[1]*a[1], (long double)a[2]*a[2]}, m = std::min(A[0], std::min(A[1], A[2]));
    auto F = [&](long double t) { long double s = 0; for (int i = 0; i < 3; ++i) { long double q = A[i]*p[i]/(t + A[i]); s += q*q/A[i]; } return s - 1; };
    long double lo = -m, hi = 1; while (F(hi) > 0) hi = 2*hi + 1;
    for (int it = 0; it < 300; ++it) { long double mid = 0.5L*(lo + hi); if (F(mid) > 0) lo = mid; else hi = mid; }
    long double t = 0.5L*(lo + hi), d2 = 0;
    for (int i = 0; i < 3; ++i) { long double x = A[i]*p[i]/(t + A[i]); nearest[i] = (double)x; d2 += (p[i] - x)*(p[i] - x); }
    return (t > 0 ? 1 : -1) * (double)std::sqrt(d2);
}
static void caseEllSph(const std::string& cls, const std::vector<double>& v) {
    Transform X1 = readX(v, 0); Vec3 a = V(v, 12), c = V(v, 15); double r = v[18];
    vh::Line in = vh::I("p.col.ell_sph"); in.s(cls); for (double x : v) in.d(x); in.emit();
    std::puts("O p.col.ell_sph -");
    ContactGeometry::Ellipsoid el(a); ContactGeometry::Sphere sp(r);
    PC pc = direct(el, X1, sp, Transform(c));
    vh::D("p.col.ell_sph." + cls + (pc.hit ? ".hit" : ".miss"));
    double L = std::max(std::max(a[0], a[1]), std::max(a[2], r));
    EllRef e1{a, X1}, e2{Vec3(r), Transform(c)};
    vh::Rng g((uint64_t)(v[15] * 1e6) ^ 3533);
    const std::string K = convexContract("ConvexConvex.ellipsoid_sphere." + cls, pc, e1, e2, g, L);
    // exact geometry is available for this pair: distance from the sphere centre to the ellipsoid
    Vec3 cE = ~X1 * c, nearE;
    if (!(cE[0] != 0 && cE[1] != 0 && cE[2] != 0)) vh::D("p.col.ell_sph.exact_reference_skipped");
    if (cE[0] != 0 && cE[1] != 0 && cE[2] != 0) {
        double sd = ellPointDistance(a, cE, nearE), sep = r - sd;    // overlap amount
        if (std::abs(sep) > 1e-7 * L) vh::P("contact_iff_overlap_exact", K + ".contact_iff_overlap_exact", (pc.hit == (sep > 0)) ? 0 : 1, 0);
        // centre inside the ellipsoid: several point pairs satisfy the KKT contract (every critical point of the distance
        // from the centre); the property only asks for the contract there, so the unique-answer comparison is not applied
        if (pc.hit && sd <= 0) vh::D("p.col.ell_sph.centre_inside_contract_only");
        if (pc.hit && sep > 1e-7 * L && sd > 0) {
            Vec3 nG = X1.R() * Vec3(UnitVec3(Vec3(nearE[0]/(a[0]*a[0]), nearE[1]/(a[1]*a[1]), nearE[2]/(a[2]*a[2]))));
            Vec3 p1 = X1 * nearE, p2 = c - r * nG;
            vh::P("depth_exact", K + ".depth", std::abs(pc.depth - sep) / L, 1e-7);
            vh::P("normal_exact", K + ".normal", (pc.normal - nG).norm(), 1e-6);
            vh::P("point_exact", K + ".point", (pc.point - 0.5 * (p1 + p2)).norm() / L, 1e-7);
        }
    }
    // swapped order through the subsystem (Sphere,Ellipsoid is not registered: the dispatch swaps back)
    PC ab = viaSubsystem(el, X1, sp, Transform(c)), ba = viaSubsystem(sp, Transform(c), el, X1);
    PC baA = ba; if (ba.hit) baA.normal = -ba.normal;
    vh::P("swap_symmetry", K + ".subsystem_swap", diffPC(ab, baA, L), 1e-7);
    Transform G(rndRot(g), rndVec(g, 0.1, 3));
    motionPredicates(K, pc, direct(el, G * X1, sp, Transform(G * c)), G, L, 1e-7);
}
static void caseEllEll(const std::string& cls, const std::vector<double>& v) {
    Transform X1 = readX(v, 0), X2 = readX(v, 12); Vec3 a = V(v, 24), b = V(v, 27);
    vh::Line in = vh::I("p.col.ell_ell"); in.s(cls); for (double x : v) in.d(x); in.emit();
    std::puts("O p.col.ell_ell -");
    ContactGeometry::Ellipsoid e1g(a), e2g(b);
    PC pc = direct(e1g, X1, e2g, X2);
    vh::D("p.col.ell_ell." + cls + (pc.hit ? ".hit" : ".miss"));
    double L = std::max(std::max(a[0], a[1]), std::max(std::max(a[2], b[0]), std::max(b[1], b[2])));
    EllRef e1{a, X1}, e2{b, X2};
    vh::Rng g((uint64_t)(v[9] * 1e6) ^ 3539);
    const std::string K = convexContract("ConvexConvex.ellipsoid_ellipsoid." + cls, pc, e1, e2, g, L);
    // swapped order: same contact with reversed normal
    PC sw = direct(e2g, X2, e1g, X1); PC swc = sw; if (sw.hit) swc.normal = -sw.normal;
    vh::P("swap_symmetry", K + ".swap", diffPC(pc, swc, L), 1e-7);
    Transform G(rndRot(g), rndVec(g, 0.1, 3));
    motionPredicates(K, pc, direct(e1g, G * X1, e2g, G * X2), G, L, 1e-7);
}

// ---- mesh pairs: reported face sets vs brute force over all faces
static void caseMesh(const std::string& cls, const std::vector<double>& v) {
    // v: meshKind, meshSeed, subdiv, X1(12) [half space / sphere frame], XM(12), r (0 => half space)
    int kind = (int)v[0]; uint64_t mseed = (uint64_t)v[1]; int sub = (int)v[2];
    Transform X1 = readX(v, 3), XM = readX(v, 15); double r = v[27];
    vh::Line in = vh::I("p.col.mesh"); in.s(cls); for (double x : v) in.d(x); in.emit();
    std::puts("O p.col.mesh -");
    gm::Mesh m = gm::makeMesh(kind, mseed, sub);
    ContactGeometry::TriangleMesh mesh(m.vertices(), m.faceIndices(), false);
    std::set<int> ref, got; bool hit = false; int count = 0; std::string K;
    if (r == 0) {
        K = "HalfSpaceTriangleMesh." + cls;
        ContactGeometry::HalfSpace hs; Array_<Contact> cs;
        CollisionDetectionAlgorithm::getAlgorithm(hs.getTypeId(), mesh.getTypeId())->processObjects(ContactSurfaceIndex(0), hs, X1, ContactSurfaceIndex(1), mesh, XM, cs);
        count = cs.size();
        if (count == 1 && TriangleMeshContact::isInstance(cs[0])) { hit = true; got = static_cast<const TriangleMeshContact&>(cs[0]).getSurface2Faces(); }
        // brute force: a face is reported iff one of its vertices lies in x_H > 0 (band excluded)
        Transform XHM = ~X1 * XM; bool nearBand = false;
        for (int f = 0; f < (int)m.F.size(); ++f) { bool any = false; for (int k = 0; k < 3; ++k) { double x = (XHM * m.V[m.F[f][k]])[0]; if (std::abs(x) < 1e-9) nearBand = true; if (x > 0) any = true; } if (any) ref.insert(f); }
        if (nearBand) { vh::D("p.col.mesh.skipped_band"); return; }
    } else {
        K = "SphereTriangleMesh." + cls;
        ContactGeometry::Sphere sp(r); Array_<Contact> cs;
        CollisionDetectionAlgorithm::getAlgorithm(sp.getTypeId(), mesh.getTypeId())->processObjects(ContactSurfaceIndex(0), sp, X1, ContactSurfaceIndex(1), mesh, XM, cs);
        count = cs.size();
        if (count == 1 && TriangleMeshContact::isInstance(cs[0])) { hit = true; got = static_cast<const TriangleMeshContact&>(cs[0]).getSurface2Faces(); }
        Vec3 cM = ~XM * X1.p(); bool nearBand = false, region6 = false;
        for (int f = 0; f < (int)m.F.size(); ++f) { double d = std::sqrt(gm::pointTriDist2(cM, m.V[m.F[f][0]], m.V[m.F[f][1]], m.V[m.F[f][2]])); if (std::abs(d - r) < 1e-9) nearBand = true; if (d < r) ref.insert(f); }
        // the library orients the mesh itself, so classify with the vertex order it actually uses
        for (int f = 0; f < mesh.getNumFaces(); ++f)
            if (gm::eberlyRegion6Disagrees(cM, mesh.getVertexPosition(mesh.getFaceVertex(f, 0)), mesh.getVertexPosition(mesh.getFaceVertex(f, 1)), mesh.getVertexPosition(mesh.getFaceVertex(f, 2)))) region6 = true;
        if (region6) K += ".eberly_region6";
        if (nearBand) { vh::D("p.col.mesh.skipped_band"); return; }
    }
    vh::D("p.col.mesh." + cls + (hit ? ".hit" : ".miss"));
    std::vector<int> diff; std::set_symmetric_difference(ref.begin(), ref.end(), got.begin(), got.end(), std::back_inserter(diff));
    vh::P("faces_match_bruteforce", K + ".faces", (double)diff.size(), 0);
    vh::P("contact_iff_overlap", K + ".contact_iff_overlap", (hit == !ref.empty()) ? 0 : 1, 0);
    // the contact object: roles, relative transform ~X1*XM, no faces attributed to the non-mesh surface; common rigid
    // motion and the other add order (through the real subsystem) leave the face set unchanged
    {
        std::unique_ptr<ContactGeometry> g1; if (r == 0) g1.reset(new ContactGeometry::HalfSpace()); else g1.reset(new ContactGeometry::Sphere(r));
        Array_<Contact> cs; CollisionDetectionAlgorithm::getAlgorithm(g1->getTypeId(), mesh.getTypeId())->processObjects(ContactSurfaceIndex(0), *g1, X1, ContactSurfaceIndex(1), mesh, XM, cs);
        if (cs.size() == 1 && TriangleMeshContact::isInstance(cs[0])) {
            const TriangleMeshContact& tc = static_cast<const TriangleMeshContact&>(cs[0]); Transform T = ~X1 * XM;
            double et = std::max((tc.getTransform().p() - T.p()).norm(), (tc.getTransform().R().asMat33() - T.R().asMat33()).norm());
            vh::P("mesh_contact_object", K + ".contact_object", ((int)tc.getSurface1() == 0 && (int)tc.getSurface2() == 1 && tc.getSurface1Faces().empty()) ? et : 1, 1e-12);
        }
        vh::Rng gm2((uint64_t)v[1] ^ 977); Transform G(rndRot(gm2), rndVec(gm2, 0.1, 2)); Array_<Contact> cg;
        CollisionDetectionAlgorithm::getAlgorithm(g1->getTypeId(), mesh.getTypeId())->processObjects(ContactSurfaceIndex(0), *g1, G * X1, ContactSurfaceIndex(1), mesh, G * XM, cg);
        std::set<int> gotG; if (cg.size() == 1) gotG = static_cast<const TriangleMeshContact&>(cg[0]).getSurface2Faces();
        // faces within 1e-9 of the decision boundary may legitimately flip under a rigid motion: compare with the band-free reference
        vh::P("mesh_rigid_motion", K + ".rigid_motion", gotG == ref ? 0 : 1, 0);
        Array_<Contact> sw = viaSubsystemRaw(mesh, XM, *g1, X1); std::set<int> gotS; int meshIdx = -1;
        if (sw.size() == 1 && TriangleMeshContact::isInstance(sw[0])) { const TriangleMeshContact& tc = static_cast<const TriangleMeshContact&>(sw[0]); gotS = tc.getSurface2Faces(); meshIdx = tc.getSurface2(); }
        vh::P("mesh_subsystem_swap", K + ".subsystem_swap", (gotS == ref && (ref.empty() || meshIdx == 0)) ? 0 : 1, 0);
    }
}


// ================================================================================================ ContactTrackerSubsystem path
// (the path CompliantContactSubsystem uses): ContactTracker::{HalfSpaceSphere, SphereSphere, HalfSpaceEllipsoid, HalfSpaceBrick}
// through the real subsystem, surface A on Ground and surface B on a body welded to Ground, and in the other placement.
struct TC { bool hit = false; int s1 = -1, s2 = -1; double depth = NaN; Vec3 normalG{NaN}, originG{NaN}; int lowest = -1; int count = 0; std::string type; };
static TC viaTracker(const ContactGeometry& gGround, const Transform& XGround, const ContactGeometry& gBody, const Transform& XBody) {
    MultibodySystem system; SimbodyMatterSubsystem matter(system); ContactTrackerSubsystem tracker(system);
    ContactMaterial mat(1e6, 0.1, 0.5, 0.5, 0.1);
    matter.Ground().updBody().addContactSurface(XGround, ContactSurface(gGround, mat));
    Body::Rigid body(MassProperties(1.0, Vec3(0), Inertia(1)));
    body.addContactSurface(XBody, ContactSurface(gBody, mat));
    MobilizedBody::Weld w(matter.Ground(), Transform(), body, Transform());
    State st = system.realizeTopology();
    system.realize(st, Stage::Position);
    const ContactSnapshot& snap = tracker.getActiveContacts(st);
    TC c; c.count = snap.getNumContacts();
    if (c.count >= 1) {
        const Contact& k = snap.getContact(0);
        c.s1 = k.getSurface1(); c.s2 = k.getSurface2();
        const Transform XS1 = tracker.getMobilizedBody(ContactSurfaceIndex(c.s1)).getBodyTransform(st) * tracker.getContactSurfaceTransform(ContactSurfaceIndex(c.s1));
        if (CircularPointContact::isInstance(k)) { const CircularPointContact& p = CircularPointContact::getAs(k); c.hit = true; c.type = "circular"; c.depth = p.getDepth(); c.normalG = XS1.R() * Vec3(p.getNormal()); c.originG = XS1 * p.getOrigin(); }
        else if (EllipticalPointContact::isInstance(k)) { const EllipticalPointContact& p = EllipticalPointContact::getAs(k); c.hit = true; c.type = "elliptical"; c.depth = p.getDepth(); c.normalG = XS1.R() * Vec3(p.getContactFrame().z()); c.originG = XS1 * p.getContactFrame().p(); }
        else if (BrickHalfSpaceContact::isInstance(k)) { const BrickHalfSpaceContact& p = BrickHalfSpaceContact::getAs(k); c.hit = true; c.type = "brick"; c.depth = p.getDepth(); c.lowest = p.getLowestVertex(); c.normalG = XS1.R() * Vec3(-1, 0, 0); }
        else c.type = "other";
    }
    return c;
}
// kind 0 hs/sph, 1 sph/sph, 2 hs/ell, 3 hs/brick ; v: kind XA(12) XB(12) params(3) params2(1)
static void caseTracker(const std::string& cls, const std::vector<double>& v) {
    int kind = (int)v[0]; Transform XA = readX(v, 1), XB = readX(v, 13);
    vh::Line in = vh::I("p.col.tracker"); in.s(cls); for (double x : v) in.d(x); in.emit();
    std::puts("O p.col.tracker -");
    std::unique_ptr<ContactGeometry> A, B; double L = 1, sep = NaN; Vec3 nAB(NaN);
    Vec3 xh = XA.R() * Vec3(1, 0, 0);
    if (kind == 0) { A.reset(new ContactGeometry::HalfSpace()); B.reset(new ContactGeometry::Sphere(v[25])); L = v[25]; sep = v[25] + ~xh * (XB.p() - XA.p()); nAB = -xh; }
    else if (kind == 1) { A.reset(new ContactGeometry::Sphere(v[25])); B.reset(new ContactGeometry::Sphere(v[26])); L = std::max(v[25], v[26]); double d = (XB.p() - XA.p()).norm(); sep = v[25] + v[26] - d; nAB = (XB.p() - XA.p()) / d; }
    else if (kind == 2) { Vec3 a(v[25], v[26], v[27]); A.reset(new ContactGeometry::HalfSpace()); B.reset(new ContactGeometry::Ellipsoid(a)); L = std::max(a[0], std::max(a[1], a[2]));
        Vec3 dE = ~XB.R() * xh; double w = std::sqrt(dE[0]*dE[0]*a[0]*a[0] + dE[1]*dE[1]*a[1]*a[1] + dE[2]*dE[2]*a[2]*a[2]); sep = ~xh * (XB.p() - XA.p()) + w; nAB = -xh; }
    else { Vec3 h(v[25], v[26], v[27]); A.reset(new ContactGeometry::HalfSpace()); B.reset(new ContactGeometry::Brick(h)); L = std::max(h[0], std::max(h[1], h[2]));
        Vec3 dB = ~XB.R() * xh; sep = ~xh * (XB.p() - XA.p()) + std::abs(dB[0]) * h[0] + std::abs(dB[1]) * h[1] + std::abs(dB[2]) * h[2]; nAB = -xh; }
    static const char* nm[] = {"HalfSpaceSphere", "SphereSphere", "HalfSpaceEllipsoid", "HalfSpaceBrick"};
    const std::string K = std::string("ContactTracker.") + nm[kind] + "." + cls;
    TC ab = viaTracker(*A, XA, *B, XB), ba = viaTracker(*B, XB, *A, XA);
    vh::D(std::string("p.col.tracker.") + nm[kind] + (ab.hit ? ".hit" : ".miss"));
    const double band = 1e-9 * L;
    for (int ord = 0; ord < 2; ++ord) {
        const TC& c = ord ? ba : ab; const std::string Ko = K + (ord ? ".swapped_placement" : ".placement");
        if (std::abs(sep) > band) vh::P("contact_iff_overlap", Ko + ".contact_iff_overlap", (c.hit == (sep > 0)) ? 0 : 1, 0);
        if (!c.hit || !(sep > band)) continue;
        vh::P("single_contact", Ko + ".single_contact", std::abs(c.count - 1), 0);
        vh::P("depth_exact", Ko + ".depth", std::abs(c.depth - sep) / L, 1e-10);
        // the normal points from surface 1 to surface 2: orient it from A to B (A is surface 0 in placement, 1 in the swapped one)
        int idxA = ord ? 1 : 0; Vec3 nFromA = (c.s1 == idxA) ? c.normalG : Vec3(-c.normalG);
        vh::P("normal_exact", Ko + ".normal", (nFromA - nAB).norm(), 1e-10);
    }
    if (ab.hit && ba.hit && kind != 3) vh::P("origin_same_in_both_placements", K + ".origin_swap", (ab.originG - ba.originG).norm() / L, 1e-10);
    if (ab.hit && ba.hit && kind == 3) vh::P("lowest_vertex_same", K + ".lowest_vertex_swap", ab.lowest == ba.lowest ? 0 : 1, 0);
}
// broad phase: several spheres in one contact set; the subsystem must report exactly the overlapping pairs
static void caseMulti(const std::string& cls, const std::vector<double>& v) {
    int n = (int)v[0];
    vh::Line in = vh::I("p.col.multi"); in.s(cls); for (double x : v) in.d(x); in.emit();
    std::puts("O p.col.multi -");
    MultibodySystem system; SimbodyMatterSubsystem matter(system); GeneralContactSubsystem contacts(system);
    ContactSetIndex set = contacts.createContactSet();
    Body::Rigid body(MassProperties(1.0, Vec3(0), Inertia(1)));
    std::vector<Vec3> c(n); std::vector<double> r(n);
    for (int i = 0; i < n; ++i) { c[i] = V(v, 1 + 4*i); r[i] = v[4 + 4*i];
        // half of the spheres sit on welded bodies with a non-identity body frame, the others on Ground
        if (i % 2) { Transform XB(Rotation(0.3 * i, UnitVec3(Vec3(1, 2, 3))), Vec3(0.1 * i, -0.2, 0.05)); MobilizedBody::Weld w(matter.Ground(), XB, body, Transform()); contacts.addBody(set, w, ContactGeometry::Sphere(r[i]), Transform(~XB * c[i])); }
        else contacts.addBody(set, matter.updGround(), ContactGeometry::Sphere(r[i]), Transform(c[i])); }
    State st = system.realizeTopology(); system.realize(st, Stage::Dynamics);
    const Array_<Contact>& cs = contacts.getContacts(st, set);
    std::set<std::pair<int, int> > got, ref; bool band = false; int dup = 0;
    for (auto& k : cs) { auto pr = std::make_pair(std::min((int)k.getSurface1(), (int)k.getSurface2()), std::max((int)k.getSurface1(), (int)k.getSurface2())); if (!got.insert(pr).second) ++dup; }
    for (int i = 0; i < n; ++i) for (int j = i + 1; j < n; ++j) { double d = (c[i] - c[j]).norm(); if (std::abs(r[i] + r[j] - d) < 1e-9) band = true; if (d < r[i] + r[j] && d > 0) ref.insert({i, j}); }
    vh::D("p.col.multi." + cls + ".pairs" + std::to_string((int)ref.size()));
    if (band) return;
    std::vector<std::pair<int, int> > diff; std::set_symmetric_difference(ref.begin(), ref.end(), got.begin(), got.end(), std::back_inserter(diff));
    vh::P("exactly_the_overlapping_pairs", "GeneralContactSubsystem." + cls + ".pair_set", (double)diff.size(), 0);
    vh::P("no_duplicates", "GeneralContactSubsystem." + cls + ".duplicates", dup, 0);
}


// ---- surface placement (after a seeded bug in the broad phase went unseen: the bounding-sphere centre was moved into the body
// frame with the translation of X_BS only).  A mesh whose bounding-sphere centre is / is not at its own origin is attached to a
// welded body (random pose X_GB) through X_BS in {identity, translation, rotation, rotation+translation}; the other surface
// (sphere or a second mesh) is on Ground.  "Contact reported iff the shapes overlap" is judged in Ground by brute force over
// the faces (sphere) and, independently of how the placement is split between vertices and X_BS, by comparison with the same
// geometry with X_BS baked into the vertices.  Both GeneralContactSubsystem and ContactTrackerSubsystem.
// v: place(0..3) off(0/1) other(0 sphere,1 mesh) kind seed  X_GB(12) X_BS(12) shift(3) | sphere: c(3) r  /  mesh2: kind2 seed2 X2(12)
struct PlaceRes { bool ok = true; bool hit = false; std::set<int> faces; int count = 0; };
static PlaceRes placeGeneral(const ContactGeometry& mesh, const Transform& X_GB, const Transform& X_BS, const ContactGeometry& other, const Transform& X_GO) {
    PlaceRes r; MultibodySystem system; SimbodyMatterSubsystem matter(system); GeneralContactSubsystem contacts(system);
    Body::Rigid body(MassProperties(1.0, Vec3(0), Inertia(1)));
    MobilizedBody::Weld w(matter.Ground(), X_GB, body, Transform());
    ContactSetIndex set = contacts.createContactSet();
    contacts.addBody(set, w, mesh, X_BS); contacts.addBody(set, matter.updGround(), other, X_GO);
    State st = system.realizeTopology(); system.realize(st, Stage::Dynamics);
    const Array_<Contact>& cs = contacts.getContacts(st, set); r.count = cs.size();
    for (auto& c : cs) if (TriangleMeshContact::isInstance(c)) { r.hit = true; const TriangleMeshContact& t = static_cast<const TriangleMeshContact&>(c);
        const std::set<int>& f = (int)t.getSurface1() == 0 ? t.getSurface1Faces() : t.getSurface2Faces(); r.faces.insert(f.begin(), f.end()); }
    return r;
}
static PlaceRes placeTracker(const ContactGeometry& mesh, const Transform& X_GB, const Transform& X_BS, const ContactGeometry& other, const Transform& X_GO) {
    PlaceRes r;
    try {
        MultibodySystem system; SimbodyMatterSubsystem matter(system); ContactTrackerSubsystem tracker(system);
        ContactMaterial mat(1e6, 0.1, 0.5, 0.5, 0.1);
        Body::Rigid body(MassProperties(1.0, Vec3(0), Inertia(1)));
        body.addContactSurface(X_BS, ContactSurface(mesh, mat, 0.1));
        matter.Ground().updBody().addContactSurface(X_GO, ContactSurface(other, mat, 0.1));
        MobilizedBody::Weld w(matter.Ground(), X_GB, body, Transform());
        State st = system.realizeTopology(); system.realize(st, Stage::Position);
        const ContactSnapshot& snap = tracker.getActiveContacts(st); r.count = snap.getNumContacts();
        for (int i = 0; i < r.count; ++i) { const Contact& c = snap.getContact(i); if (TriangleMeshContact::isInstance(c)) { r.hit = true; const TriangleMeshContact& t = TriangleMeshContact::getAs(c);
            // the mesh on the body: whichever surface belongs to the welded body
            bool firstIsBody = tracker.getMobilizedBody(t.getSurface1()).getMobilizedBodyIndex() != matter.getGround().getMobilizedBodyIndex();
            const std::set<int>& f = firstIsBody ? t.getSurface1Faces() : t.getSurface2Faces(); r.faces.insert(f.begin(), f.end()); } }
    } catch (const std::exception&) { r.ok = false; }
    return r;
}
static void casePlace(const std::string&, const std::vector<double>& v) {
    static const char* pname[4] = {"identity", "translation_only", "rotation_only", "rotation_and_translation"};
    int place = (int)v[0], off = (int)v[1], other = (int)v[2], kind = (int)v[3]; uint64_t mseed = (uint64_t)v[4];
    Transform X_GB = readX(v, 5), X_BS = readX(v, 17); Vec3 shift = V(v, 29);
    const std::string cls = std::string(pname[place]) + (off ? ".off_centre" : ".centred") + (other ? ".mesh" : ".sphere");
    vh::Line in = vh::I("p.col.place"); in.s(cls); for (double x : v) in.d(x); in.emit();
    std::puts("O p.col.place -");
    gm::Mesh m = gm::makeMesh(kind, mseed, 1); for (auto& p : m.V) p += shift;
    gm::Mesh mb = m; for (auto& p : mb.V) p = X_BS * p;                       // X_BS baked into the vertices
    ContactGeometry::TriangleMesh mesh(m.vertices(), m.faceIndices(), false), baked(mb.vertices(), mb.faceIndices(), false);
    Vec3 bc; Real br; mesh.getBoundingSphere(bc, br);
    vh::D("p.col.place." + cls); if (bc.norm() > 0.2 * br) vh::D("p.col.place.bounding_sphere_centre_off_origin"); else vh::D("p.col.place.bounding_sphere_centre_near_origin");
    const Transform X_GM = X_GB * X_BS;
    std::unique_ptr<ContactGeometry> og; Transform X_GO; int refOverlap = -1; double L = br;
    if (other == 0) { Vec3 c = V(v, 32); double r = v[35]; og.reset(new ContactGeometry::Sphere(r)); X_GO = Transform(c);
        double dmin = INFINITY; for (auto& f : m.F) dmin = std::min(dmin, std::sqrt(gm::pointTriDist2(c, X_GM * m.V[f[0]], X_GM * m.V[f[1]], X_GM * m.V[f[2]])));
        if (std::abs(dmin - r) > 1e-7 * L) refOverlap = dmin < r ? 1 : 0; }
    else { gm::Mesh m2 = gm::makeMesh((int)v[32], (uint64_t)v[33], 1); og.reset(new ContactGeometry::TriangleMesh(m2.vertices(), m2.faceIndices(), false)); X_GO = readX(v, 34); }
    for (int path = 0; path < 2; ++path) {
        const std::string K = std::string(path ? "ContactTrackerSubsystem" : "GeneralContactSubsystem") + ".surface_placement." + cls;
        PlaceRes a = path ? placeTracker(mesh, X_GB, X_BS, *og, X_GO) : placeGeneral(mesh, X_GB, X_BS, *og, X_GO);
        PlaceRes b = path ? placeTracker(baked, X_GB, Transform(), *og, X_GO) : placeGeneral(baked, X_GB, Transform(), *og, X_GO);
        if (!a.ok || !b.ok) { vh::D("p.col.place.tracker_unavailable." + std::string(other ? "mesh" : "sphere")); continue; }
        vh::D(K + (a.hit ? ".hit" : ".miss"));
        if (refOverlap >= 0) vh::P("contact_iff_overlap", K + ".contact_iff_overlap", (a.hit == (refOverlap == 1)) ? 0 : 1, 0);
        std::vector<int> diff; std::set_symmetric_difference(a.faces.begin(), a.faces.end(), b.faces.begin(), b.faces.end(), std::back_inserter(diff));
        vh::P("placement_split_irrelevant", K + ".baked_agrees", (a.hit == b.hit ? 0 : 1) + (double)diff.size(), 0);
    }
}
// coverage floor of the placement stream: the 16 classes (4 placements x centred/off-centre x sphere/mesh) are cycled through
// deterministically, one every 12th iteration: all are hit iff n >= 12*15 + 3
static void casePlaceCoverage(const std::vector<double>& v) {
    long n = (long)v[0], cnt = 0; for (long it = 0; it < n; ++it) if (it % 12 == 2) ++cnt;
    vh::Line in = vh::I("p.col.place.coverage"); in.s("generic"); in.d(v[0]); in.emit(); std::puts("O p.col.place.coverage -");
    vh::D("p.col.place.coverage.classes_hit=" + std::to_string((int)std::min<long>(16, cnt)));
    vh::P("placement_stream_covers_all_classes", "GeneralContactSubsystem.surface_placement.coverage", (double)(16 - std::min<long>(16, cnt)), 0);
}
static void genPlace(vh::Rng& g, long counter) {
    int place = counter % 4, off = (counter / 4) % 2, other = (counter / 8) % 2, kind = g.below(3); double mseed = (double)(g.next() % 100000);
    Transform X_GB(rndRot(g), rndVec(g, 0.1, 2));
    Transform X_BS = place == 0 ? Transform() : place == 1 ? Transform(rndVec(g, 0.3, 2)) : place == 2 ? Transform(rndRot(g)) : Transform(rndRot(g), rndVec(g, 0.3, 2));
    Vec3 shift = off ? g.range(2.0, 4.0) * Vec3(UnitVec3(rndVec(g, 0.1, 1))) : Vec3(0);
    std::vector<double> v = {(double)place, (double)off, (double)other, (double)kind, mseed}; pushX(v, X_GB); pushX(v, X_BS); push3(v, shift);
    gm::Mesh m = gm::makeMesh(kind, (uint64_t)mseed, 1); const Transform X_GM = X_GB * X_BS;
    Vec3 cen(0); for (auto& p : m.V) cen += (p + shift) / (double)m.V.size(); Vec3 cG = X_GM * cen;
    const auto& f = m.F[g.below((int)m.F.size())]; Vec3 q = X_GM * ((m.V[f[0]] + m.V[f[1]] + m.V[f[2]]) / 3 + shift); Vec3 n = Vec3(UnitVec3(q - cG));
    if (other == 0) { double r = g.range(0.2, 0.8), over = g.range(-0.5, 0.5) * r; if (std::abs(over) < 0.02 * r) over = 0.05 * r; push3(v, q + (r - over) * n); v.push_back(r); }
    else { int k2 = g.below(3); double s2 = (double)(g.next() % 100000); Transform X2(rndRot(g), q + g.range(0.3, 1.6) * n); v.push_back(k2); v.push_back(s2); pushX(v, X2); }
    casePlace("", v);
}

static void replayLine(const std::string& line);
static const char* DEEP_WITNESS[2] = {
    "I p.col.ell_ell deep_witness 3fefd7d303a99a8b 3f9a4c0b6a74b205 bfb8744f31b38382 bf94c9d1a36190a1 3feff10d4ef5be5b 3fad1dc853fb4cc4 3fb8c89867b825e4 bfabfb0b66b5af2c 3fefcd386f4483a1 3fce94b83118f0f8 3ff7f53b644d7719 bfc9baca33445a44 3fe7e135f733021a bfd8584700a30dfa bfe17b2cf9c64621 bfe1076985aa3bdb bfeaaf71f062bbbe bfc2b8e842ab661a bfd99843bf889958 3fd9974e4961db37 bfea642d263eb786 3fe004ebeab69b3c bfb5508926334120 bfee3ca73f78a86b 3ffc9987ef154043 3ffc4ed994b4ccc1 3ff7904e5f960a1a 3ffe49ad1fd96397 3fe0b6391163193e 3ffcad52b218a638",
    "I p.col.ell_ell deep_witness 3feff424c7bb47d1 bfaa5158d46794ab 3f9033df2f16cb30 3faa551f10edaf1f 3feff52672d3005b bf573c10651a4f18 bf901b44f4403910 3f624459b6bb37e1 3feffef759780463 bfde0cbdc51d55f8 3fe1addd81a3fa61 3ff40b0b8199e47e bfd1968b82199c1e bfee679494bb6f2c 3fc2db713dce7894 3fe4f8eb0f6f3240 bfd305aa40f34a07 bfe6382922198be6 3fe68346bab059cd bfb821cbf317fbb4 3fe68a5eef6c09b8 bff9a08d9e410180 4001881088804977 3ffada41004525f6 3ff7d702a3183dca 3fff307404083b56 3fe07c71267e4f86 3ff654f974f6e1e4 3ff747f8b550477d 3fe3fcd65fe8aed0"};
static const char* REGION6_WITNESS =
    "I p.col.mesh region6_witness 3ff0000000000000 40ebb66000000000 3ff0000000000000 3fd6a867414ec880 3fb327ddccbc58f0 bfedd4e170eb6c21 bfc31c1f6f7f1b8d 3fefa2104c0bcae3 3f9731429f1f3094 3fed8b31705d49df 3fc0c9deba692144 3fd71cec325ae402 bffdf6b052f5c0e2 bff6ec364ceb9af4 c006552e1615c184 3feff642719451da 3f9a3003294844c1 bfa5400df4df31b0 bf9a43b5bc2cec15 3feffd4c58f7efd4 bf54f3dacc1b78fc 3fa539f9425e3336 3f632f3e1e402980 3feff8ef3808c33e bff594d8acf28b5f bff073b0a6a5e99f bffb6ea729595b65 3fe96542423a58f6";

// ================================================================================================= generators
static std::vector<double> mk(std::initializer_list<double> l) { return std::vector<double>(l); }
static void genHsSph(vh::Rng& g, const std::string& cls, double gapScale) {
    Transform X1(rndRot(g), rndVec(g, 0.1, 3)); double r = g.range(0.2, 2);
    // place the centre at signed height h above the plane (x_H = -h): overlap amount = r - h
    double over = cls == "generic" ? g.range(-1.5, 1.5) * r : gapScale;
    Vec3 cH(over - r, g.range(-3, 3), g.range(-3, 3));
    std::vector<double> v; pushX(v, X1); push3(v, X1 * cH); v.push_back(r); caseHsSph(cls, v);
}
static void genSphSph(vh::Rng& g, const std::string& cls, double gapScale) {
    double r1 = g.range(0.2, 2), r2 = g.range(0.2, 2); Vec3 c1 = rndVec(g, 0.1, 3);
    double z = g.range(-1, 1), ph = g.range(0, 2*PI), s = std::sqrt(1 - z*z); Vec3 u(s*std::cos(ph), s*std::sin(ph), z);
    // overlap amount from separated to almost concentric (one sphere containing the other's centre)
    double over = cls == "generic" ? (g.coin() ? g.range(-1, 1) * std::min(r1, r2) : g.range(0, 0.97) * (r1 + r2)) : gapScale;
    Vec3 c2 = c1 + (r1 + r2 - over) * u;
    std::vector<double> v; push3(v, c1); push3(v, c2); v.push_back(r1); v.push_back(r2); caseSphSph(cls, v);
}
static void genHsEll(vh::Rng& g, const std::string& cls, double gapScale) {
    Transform X1(rndRot(g), rndVec(g, 0.1, 3)); Vec3 a(g.range(0.3, 2), g.range(0.3, 2), g.range(0.3, 2)); Rotation R2 = rndRot(g);
    // choose the centre so that the support point has x_H = over
    Vec3 xh = X1.R() * Vec3(1, 0, 0), dE = ~R2 * xh; double w = std::sqrt(dE[0]*dE[0]*a[0]*a[0] + dE[1]*dE[1]*a[1]*a[1] + dE[2]*dE[2]*a[2]*a[2]);
    double over = cls == "generic" ? g.range(-1.5, 1.5) * w : gapScale;
    Vec3 cH(over - w, g.range(-3, 3), g.range(-3, 3));
    std::vector<double> v; pushX(v, X1); pushX(v, Transform(R2, X1 * cH)); push3(v, a); caseHsEll(cls, v);
}
static void genDetect(vh::Rng& g, const std::string& cls) {
    int kind = g.below(3);
    Transform XA(rndRot(g), rndVec(g, 0.1, 2)), XB(rndRot(g), rndVec(g, 0.1, 2));
    double p0 = g.range(0.3, 1.5), p1 = g.range(0.3, 1.5), p2 = g.range(0.3, 1.5);
    if (kind == 1) XB.updP() = XA.p() + (p0 + p1) * g.range(0.3, 1.3) * Vec3(UnitVec3(rndVec(g, 0.1, 1)));
    else { Vec3 cH(g.range(-1.5, 1.0), g.range(-2, 2), g.range(-2, 2)); XB.updP() = XA * cH; }
    for (int ord = 0; ord < 2; ++ord) {
        std::vector<double> v = {(double)ord, (double)kind}; pushX(v, XA); pushX(v, XB); v.push_back(p0); v.push_back(p1); v.push_back(p2); v.push_back(0);
        caseDetect(cls, v);
    }
}
static void genEllSph(vh::Rng& g, const std::string& cls) {
    Transform X1(rndRot(g), rndVec(g, 0.1, 2)); Vec3 a(g.range(0.5, 2), g.range(0.5, 2), g.range(0.5, 2)); double r = g.range(0.3, 1.5);
    // centre = surface point + outward normal * (r - over)
    double z = g.range(-1, 1), ph = g.range(0, 2*PI), s = std::sqrt(1 - z*z); Vec3 sE(a[0]*s*std::cos(ph), a[1]*s*std::sin(ph), a[2]*z);
    Vec3 nE = Vec3(UnitVec3(Vec3(sE[0]/(a[0]*a[0]), sE[1]/(a[1]*a[1]), sE[2]/(a[2]*a[2]))));
    // overlap from separated to sphere centre inside the ellipsoid (over > r)
    // (class "centre_inside": ConvexConvex's Newton refinement gives up for such deep overlaps -- kept apart from "generic")
    const bool centreInside = (cls == "generic" && g.below(3) == 0);
    double over = (centreInside ? g.range(1.0, 1.6) * r : g.range(-0.5, 0.5) * std::min(r, std::min(a[0], std::min(a[1], a[2]))));
    if (std::abs(over) < 1e-3) over = 0.05;
    std::vector<double> v; pushX(v, X1); push3(v, a); push3(v, X1 * (sE + (r - over) * nE)); v.push_back(r);
    caseEllSph(centreInside ? "centre_inside" : cls, v);
}
static void genEllEll(vh::Rng& g, const std::string& cls) {
    Transform X1(rndRot(g), rndVec(g, 0.1, 2)); Vec3 a(g.range(0.5, 2), g.range(0.5, 2), g.range(0.5, 2)), b(g.range(0.5, 2), g.range(0.5, 2), g.range(0.5, 2));
    Rotation R2 = rndRot(g);
    double z = g.range(-1, 1), ph = g.range(0, 2*PI), s = std::sqrt(1 - z*z); Vec3 u(s*std::cos(ph), s*std::sin(ph), z);
    Transform X2;
    if (cls == "generic") {
        // touching-to-moderate overlap: body 2's support point in direction -n is put at (surface point of body 1) - over*n,
        // n the outward normal of body 1 there (over = 0 is tangential contact; over < 0 separated)
        Vec3 sE(a[0]*u[0], a[1]*u[1], a[2]*u[2]); Vec3 nG = X1.R() * Vec3(UnitVec3(Vec3(sE[0]/(a[0]*a[0]), sE[1]/(a[1]*a[1]), sE[2]/(a[2]*a[2]))));
        Vec3 dE = ~R2 * (-nG); double w = std::sqrt(dE[0]*dE[0]*b[0]*b[0] + dE[1]*dE[1]*b[1]*b[1] + dE[2]*dE[2]*b[2]*b[2]);
        Vec3 sup2(dE[0]*b[0]*b[0]/w, dE[1]*b[1]*b[1]/w, dE[2]*b[2]*b[2]/w);
        double mn = std::min(std::min(a[0], a[1]), std::min(std::min(a[2], b[0]), std::min(b[1], b[2])));
        double over = g.range(-0.3, 0.3) * mn; if (std::abs(over) < 1e-3) over = 0.02;
        X2 = Transform(R2, X1 * sE - over * nG - R2 * sup2);
    } else {
        // arbitrary relative placement: includes deep interpenetration
        double reach = std::max(a[0], std::max(a[1], a[2])) + std::max(b[0], std::max(b[1], b[2]));
        X2 = Transform(R2, X1.p() + g.range(0.45, 1.05) * reach * u);
    }
    std::vector<double> v; pushX(v, X1); pushX(v, X2); push3(v, a); push3(v, b); caseEllEll(cls, v);
}
static void genMesh(vh::Rng& g, const std::string& cls) {
    int kind = g.below(4); double mseed = (double)(g.next() % 100000); int sub = 1 + g.below(2);
    Transform XM(rndRot(g), rndVec(g, 0.1, 2));
    bool sphere = g.coin(); double r = sphere ? g.range(0.2, 1.0) : 0.0;
    Transform X1(rndRot(g), XM.p() + g.range(0.2, 1.6) * Vec3(UnitVec3(rndVec(g, 0.1, 1))));
    std::vector<double> v = {(double)kind, mseed, (double)sub}; pushX(v, X1); pushX(v, XM); v.push_back(r); caseMesh(cls, v);
}

static void genTracker(vh::Rng& g, const std::string& cls) {
    int kind = g.below(4); Transform XA(rndRot(g), rndVec(g, 0.1, 2)), XB(rndRot(g), rndVec(g, 0.1, 2));
    double p0 = g.range(0.3, 1.5), p1 = g.range(0.3, 1.5), p2 = g.range(0.3, 1.5);
    if (kind == 1) XB.updP() = XA.p() + (p0 + p1) * g.range(0.3, 1.3) * Vec3(UnitVec3(rndVec(g, 0.1, 1)));
    else XB.updP() = XA * Vec3(g.range(-2.0, 0.8), g.range(-2, 2), g.range(-2, 2));
    std::vector<double> v = {(double)kind}; pushX(v, XA); pushX(v, XB); v.push_back(p0); v.push_back(p1); v.push_back(p2); caseTracker(cls, v);
}
static void genMulti(vh::Rng& g, const std::string& cls) {
    int n = 3 + g.below(5); std::vector<double> v = {(double)n};
    for (int i = 0; i < n; ++i) { push3(v, rndVec(g, 0.05, 1.6)); v.push_back(g.range(0.2, 0.9)); }
    caseMulti(cls, v);
}
static void generic(vh::Rng& g, long n) {
    casePlaceCoverage({(double)n});
    for (long it = 0; it < n; ++it) {
        if (it % 12 == 5) { genTracker(g, "generic"); continue; }
        if (it % 12 == 11) { genMulti(g, "generic"); continue; }
        if (it % 12 == 2) { genPlace(g, it / 12); continue; }      // cycles through 4 placements x centred/off-centre x sphere/mesh
        switch (g.below(10)) {
        case 0: case 1: genHsSph(g, "generic", 0); break;
        case 2: case 3: genSphSph(g, "generic", 0); break;
        case 4: case 5: genHsEll(g, "generic", 0); break;
        case 6: genDetect(g, "generic"); break;
        case 7: genEllSph(g, "generic"); break;
        case 8: genEllEll(g, "generic"); break;
        case 9: genMesh(g, "generic"); break;
        }
    }
}
// near-touching configurations just outside the tolerance band, on both sides, and special poses
static void degenerate(vh::Rng& g, long n) {
    long reps = std::max<long>(1, n / 100);
    for (long it = 0; it < reps; ++it) {
        for (double gap : {1e-6, -1e-6, 1e-8, -1e-8}) {
            genHsSph(g, gap > 0 ? "near_touching_overlap" : "near_touching_separated", gap);
            genSphSph(g, gap > 0 ? "near_touching_overlap" : "near_touching_separated", gap);
            genHsEll(g, gap > 0 ? "near_touching_overlap" : "near_touching_separated", gap);
        }
        // deeply penetrating: sphere centre beyond the plane; one sphere containing the other
        { Transform X1(rndRot(g), rndVec(g, 0.1, 3)); double r = g.range(0.2, 2); std::vector<double> v; pushX(v, X1); push3(v, X1 * Vec3(3 * r, 0.3, -0.2)); v.push_back(r); caseHsSph("deep", v); }
        { Vec3 c1 = rndVec(g, 0.1, 2); std::vector<double> v; push3(v, c1); push3(v, c1 + Vec3(0.1, 0.05, -0.02)); v.push_back(2); v.push_back(0.5); caseSphSph("contained", v); }
        { Vec3 c1 = rndVec(g, 0.1, 2); std::vector<double> v; push3(v, c1); push3(v, c1); v.push_back(1); v.push_back(0.5); caseSphSph("concentric", v); }
        // ellipsoid pairs in arbitrary relative placement (mostly deep interpenetration) and ellipsoid/sphere likewise
        for (int k = 0; k < 6; ++k) genEllEll(g, "random_placement");
        // sphere / mesh witness of the point-triangle region-6 defect (found by the generic stream at seed 1)
        if (it == 0) { replayLine(REGION6_WITNESS); replayLine(DEEP_WITNESS[0]); replayLine(DEEP_WITNESS[1]); }
        // ConvexConvex special branches: coincident centres (v0 == 0) and centres on a common axis with aligned frames (v1 % v0 == 0)
        { std::vector<double> v; pushX(v, Transform()); push3(v, Vec3(1.5, 1, 0.7)); push3(v, Vec3(0)); v.push_back(0.8); caseEllSph("coincident_centres", v); }
        { std::vector<double> v; pushX(v, Transform()); push3(v, Vec3(1.5, 1, 0.7)); push3(v, Vec3(1.9, 0, 0)); v.push_back(0.8); caseEllSph("axis_aligned", v); }
        { std::vector<double> v; pushX(v, Transform()); pushX(v, Transform(Vec3(2.0, 0, 0))); push3(v, Vec3(1.5, 1, 0.7)); push3(v, Vec3(0.9, 1.2, 0.6)); caseEllEll("axis_aligned", v); }
        genTracker(g, "random"); genMulti(g, "random");
        // identity frames
        { std::vector<double> v; pushX(v, Transform()); push3(v, Vec3(-0.5, 0, 0)); v.push_back(1); caseHsSph("identity_frame", v); }
        { std::vector<double> v; pushX(v, Transform()); pushX(v, Transform(Vec3(-0.5, 0, 0))); push3(v, Vec3(1, 2, 3)); caseHsEll("identity_frame", v); }
        { std::vector<double> v; pushX(v, Transform()); pushX(v, Transform(Vec3(-0.5, 0, 0))); push3(v, Vec3(1, 1, 1)); caseHsEll("sphere_radii", v); }
    }
}

static void replayLine(const std::string& line) {
    {
        std::istringstream is(line); std::string k, fn, cls; is >> k >> fn >> cls;
        if (k != "I") return;
        std::vector<double> v; std::string t; while (is >> t) v.push_back(vh::unhex(t));
        if (fn == "col.hs_sph") caseHsSph(cls, v); else if (fn == "col.sph_sph") caseSphSph(cls, v);
        else if (fn == "col.hs_ell") caseHsEll(cls, v); else if (fn == "col.detect") caseDetect(cls, v);
        else if (fn == "p.col.ell_sph") caseEllSph(cls, v); else if (fn == "p.col.ell_ell") caseEllEll(cls, v);
        else if (fn == "p.col.mesh") caseMesh(cls, v);
        else if (fn == "p.col.place.coverage") casePlaceCoverage(v);
        else if (fn == "p.col.place") casePlace(cls, v);
        else if (fn == "p.col.tracker") caseTracker(cls, v); else if (fn == "p.col.multi") caseMulti(cls, v);
    }
}
static void replay() {
    static char buf[1 << 16];
    while (std::fgets(buf, sizeof buf, stdin)) replayLine(buf);
}

int main(int argc, char** argv) {
    vh::Args args(argc, argv);
    if (args.mode == "replay") { replay(); return 0; }
    vh::Rng g(args.seed * 7919 + 35);
    if (args.mode == "degenerate") degenerate(g, args.n); else generic(g, args.n);
    return 0;
}
