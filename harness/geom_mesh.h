// Mesh generators and brute-force triangle primitives shared by harness/C35.cpp and harness/C36.cpp
// (independent of the library's mesh code: only SimTK::Vec3 arithmetic is used).
#ifndef VERIF_GEOM_MESH_H
#define VERIF_GEOM_MESH_H
#include "SimTKcommon.h"
#include "hcommon.h"
#include <algorithm>
#include <array>
#include <map>
#include <vector>
namespace gm {
using SimTK::Vec3; using SimTK::Real;

struct Mesh {
    std::vector<Vec3> V; std::vector<std::array<int, 3> > F;
    SimTK::Array_<Vec3> vertices() const { SimTK::Array_<Vec3> a; for (auto& v : V) a.push_back(v); return a; }
    SimTK::Array_<int> faceIndices() const { SimTK::Array_<int> a; for (auto& f : F) { a.push_back(f[0]); a.push_back(f[1]); a.push_back(f[2]); } return a; }
};

inline Mesh icosahedron() {
    Mesh m; const double t = (1 + std::sqrt(5.0)) / 2;
    double v[12][3] = {{-1,t,0},{1,t,0},{-1,-t,0},{1,-t,0},{0,-1,t},{0,1,t},{0,-1,-t},{0,1,-t},{t,0,-1},{t,0,1},{-t,0,-1},{-t,0,1}};
    int f[20][3] = {{0,11,5},{0,5,1},{0,1,7},{0,7,10},{0,10,11},{1,5,9},{5,11,4},{11,10,2},{10,7,6},{7,1,8},
                    {3,9,4},{3,4,2},{3,2,6},{3,6,8},{3,8,9},{4,9,5},{2,4,11},{6,2,10},{8,6,7},{9,8,1}};
    for (auto& p : v) m.V.push_back(Vec3(p[0], p[1], p[2]).normalize());
    for (auto& q : f) m.F.push_back({q[0], q[1], q[2]});
    return m;
}
inline Mesh subdivide(const Mesh& in) {
    Mesh m; m.V = in.V; std::map<std::pair<int, int>, int> mid;
    auto midpoint = [&](int a, int b) { auto k = std::make_pair(std::min(a, b), std::max(a, b)); auto it = mid.find(k); if (it != mid.end()) return it->second;
        m.V.push_back(((m.V[a] + m.V[b]) / 2).normalize()); return mid[k] = (int)m.V.size() - 1; };
    for (auto& f : in.F) { int a = midpoint(f[0], f[1]), b = midpoint(f[1], f[2]), c = midpoint(f[2], f[0]);
        m.F.push_back({f[0], a, c}); m.F.push_back({f[1], b, a}); m.F.push_back({f[2], c, b}); m.F.push_back({a, b, c}); }
    return m;
}
inline Mesh icosphere(int sub) { Mesh m = icosahedron(); for (int i = 0; i < sub; ++i) m = subdivide(m); return m; }
inline Mesh boxMesh(const Vec3& h) {
    Mesh m; for (int i = 0; i < 8; ++i) m.V.push_back(Vec3((i & 1) ? h[0] : -h[0], (i & 2) ? h[1] : -h[1], (i & 4) ? h[2] : -h[2]));
    int q[6][4] = {{0,2,3,1},{4,5,7,6},{0,1,5,4},{2,6,7,3},{0,4,6,2},{1,3,7,5}};   // outward counter-clockwise quads
    for (auto& f : q) { m.F.push_back({f[0], f[1], f[2]}); m.F.push_back({f[0], f[2], f[3]}); }
    return m;
}
inline Mesh torusMesh(double R, double r, int nu, int nv) {
    Mesh m; const double PI = 3.14159265358979323846;
    for (int i = 0; i < nu; ++i) for (int j = 0; j < nv; ++j) { double u = 2*PI*i/nu, v = 2*PI*j/nv; double rr = R + r*std::cos(v); m.V.push_back(Vec3(rr*std::cos(u), rr*std::sin(u), r*std::sin(v))); }
    auto id = [&](int i, int j) { return ((i + nu) % nu) * nv + (j + nv) % nv; };
    for (int i = 0; i < nu; ++i) for (int j = 0; j < nv; ++j) { m.F.push_back({id(i, j), id(i+1, j), id(i+1, j+1)}); m.F.push_back({id(i, j), id(i+1, j+1), id(i, j+1)}); }
    return m;
}
// kind 0: radially perturbed icosphere (star shaped, non convex); 1: anisotropically scaled + perturbed; 2: box with random
// half lengths (long thin triangles when the aspect ratio is large); 3: torus (genus 1); 4: sheared flattened icosphere
// (sliver / obtuse faces); 5: thin tetrahedron over a strongly obtuse base
inline Mesh makeMesh(int kind, uint64_t seed, int sub) {
    vh::Rng g(seed * 2654435761ull + 17);
    if (kind == 2) return boxMesh(Vec3(g.range(0.2, 1.5), g.range(0.2, 1.5), g.range(0.05, 1.5)));
    if (kind == 3) return torusMesh(g.range(0.8, 1.5), g.range(0.15, 0.5), 6 + 3 * sub, 5 + 2 * sub);
    if (kind == 5) {   // thin tetrahedron: a strongly obtuse / sliver base triangle and a low apex
        double w = g.range(0.02, 0.3), x = g.range(0.1, 0.9), h = g.range(0.01, 0.3);
        Mesh t; t.V = {Vec3(0, 0, 0), Vec3(1, 0, 0), Vec3(x, w, 0), Vec3(g.range(0.2, 0.8), 0.4 * w, -h)};
        t.F = {{0, 1, 2}, {0, 3, 1}, {1, 3, 2}, {2, 3, 0}};
        // cyclic relabelling so that the obtuse corner sits at each vertex position in turn
        int r = (int)(seed % 3); for (auto& f : t.F) std::rotate(f.begin(), f.begin() + r, f.end());
        return t; }
    if (kind == 4) {   // sheared, flattened icosphere: mostly sliver and obtuse faces
        Mesh m = icosphere(sub); double sx = g.range(0.6, 1.5), sy = g.range(0.03, 0.15), sz = g.range(0.2, 0.6), sh = g.range(-3, 3), sh2 = g.range(-2, 2);
        for (auto& v : m.V) { double k = 1 + g.range(-0.1, 0.1); Vec3 q(v[0]*sx*k, v[1]*sy*k, v[2]*sz*k); v = Vec3(q[0] + sh * q[1] + sh2 * q[2], q[1], q[2]); }
        return m; }
    Mesh m = icosphere(sub);
    Vec3 s = kind == 1 ? Vec3(g.range(0.4, 1.5), g.range(0.4, 1.5), g.range(0.4, 1.5)) : Vec3(1);
    for (auto& v : m.V) { double k = 1 + g.range(-0.2, 0.2); v = Vec3(v[0]*s[0]*k, v[1]*s[1]*k, v[2]*s[2]*k); }
    return m;
}

// closest point on triangle abc to p (Ericson, Real-Time Collision Detection 5.1.5)
inline Vec3 closestPointTri(const Vec3& p, const Vec3& a, const Vec3& b, const Vec3& c) {
    Vec3 ab = b - a, ac = c - a, ap = p - a;
    double d1 = dot(ab, ap), d2 = dot(ac, ap); if (d1 <= 0 && d2 <= 0) return a;
    Vec3 bp = p - b; double d3 = dot(ab, bp), d4 = dot(ac, bp); if (d3 >= 0 && d4 <= d3) return b;
    double vc = d1*d4 - d3*d2; if (vc <= 0 && d1 >= 0 && d3 <= 0) return a + (d1 / (d1 - d3)) * ab;
    Vec3 cp = p - c; double d5 = dot(ab, cp), d6 = dot(ac, cp); if (d6 >= 0 && d5 <= d6) return c;
    double vb = d5*d2 - d1*d6; if (vb <= 0 && d2 >= 0 && d6 <= 0) return a + (d2 / (d2 - d6)) * ac;
    double va = d3*d6 - d5*d4; if (va <= 0 && (d4 - d3) >= 0 && (d5 - d6) >= 0) return b + ((d4 - d3) / ((d4 - d3) + (d5 - d6))) * (c - b);
    double den = 1 / (va + vb + vc); return a + ab * (vb * den) + ac * (vc * den);
}
inline double pointTriDist2(const Vec3& p, const Vec3& a, const Vec3& b, const Vec3& c) { return (p - closestPointTri(p, a, b, c)).normSqr(); }
// Input class of the point-triangle query: Eberly's region 6 (beyond edge v1-v2 on the v2 side), inner branch, where the
// library's formula uses `e >= 0` in place of `d >= 0` and the two tests disagree (finding F12).  Pure function of the input.
inline bool eberlyRegion6Disagrees(const Vec3& p, const Vec3& v1, const Vec3& v2, const Vec3& v3) {
    Vec3 e0 = v2 - v1, e1 = v3 - v1, delta = v1 - p;
    double a = e0.normSqr(), b = dot(e0, e1), c = e1.normSqr(), d = dot(e0, delta), e = dot(e1, delta), det = a*c - b*b;
    double s = b*e - c*d, t = b*d - a*e;
    if (s + t <= det || s < 0 || !(t < 0)) return false;
    double temp0 = b + e, temp1 = a + d;
    if (temp1 > temp0 || temp1 <= 0) return false;
    return (e >= 0) != (d >= 0);
}
// Moeller-Trumbore: ray o + t d (t >= 0) against triangle; returns t or -1
inline double rayTri(const Vec3& o, const Vec3& d, const Vec3& a, const Vec3& b, const Vec3& c) {
    Vec3 e1 = b - a, e2 = c - a, pv = d % e2; double det = dot(e1, pv); if (std::abs(det) < 1e-14) return -1;
    double inv = 1 / det; Vec3 tv = o - a; double u = dot(tv, pv) * inv; if (u < 0 || u > 1) return -1;
    Vec3 qv = tv % e1; double v = dot(d, qv) * inv; if (v < 0 || u + v > 1) return -1;
    double t = dot(e2, qv) * inv; return t >= 0 ? t : -1;
}
// smallest margin by which the ray misses/hits an edge of the triangle (to skip ambiguous cases): min |barycentric coordinate|
inline double rayTriMargin(const Vec3& o, const Vec3& d, const Vec3& a, const Vec3& b, const Vec3& c) {
    Vec3 e1 = b - a, e2 = c - a, pv = d % e2; double det = dot(e1, pv); if (std::abs(det) < 1e-14) return 0;
    double inv = 1 / det; Vec3 tv = o - a; double u = dot(tv, pv) * inv; Vec3 qv = tv % e1; double v = dot(d, qv) * inv;
    return std::min(std::abs(u), std::min(std::abs(v), std::abs(1 - u - v)));
}
} // namespace gm
#endif
