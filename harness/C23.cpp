// C23 correspondence harness: built-in Measures on integrator trajectories + Measure_Delay_Buffer operations.
// All tokens are hex doubles.
//   I buf nops (code x y z)*          -> O sizes.. / O caps.. / O vals.. / O final..     (Measure_Delay_Buffer<Real> pair)
//   I ext op N t0 v0 (t v)*N          -> O val.. / O time..          (Extreme measure at every completed step)
//   I delay d N t0 v0 (t v)*N         -> O val..
//   I diff N t0 v0 (t v)*N            -> O val..                     (Differentiate with approximation forced)
//   I arith a w p t c k               -> O arith s0 s1 s2 s3 plus minus scale
// A simulation = MultibodySystem (one pendulum) + measures on the force subsystem, integrated with a fixed-step or an
// error-controlled integrator returning after every internal step; the operand's value is logged at every step.
#include "Simbody.h"
#include "hcommon.h"
#include <set>
#include <algorithm>
using namespace SimTK;

// ------------------------------------------------------------------ buffer operations
static void bufCase(vh::Rng& g, int nops) {
    Measure_Delay_Buffer<Real> A, B; Measure_Delay_Buffer<Real>* cur = &A; Measure_Delay_Buffer<Real>* other = &B;
    vh::Line in = vh::I("buf"); in.d(nops);
    std::vector<double> sizes, caps, vals;
    double tNow = g.range(-1, 1); double delay = g.range(0.05, 3);
    double hTyp = g.range(0.01, 0.5);
    for (int k = 0; k < nops; ++k) {
        int r = g.below(20); int code; double x = 0, y = 0, z = 0;
        if (r <= 8) { code = 1; tNow += (g.below(12) == 0 ? -g.range(0, 2 * hTyp) : g.range(0.2, 1.8) * hTyp); x = tNow - delay; y = tNow; z = g.signedMag(0.1, 5); }
        else if (r <= 12) { code = 3; tNow += (g.below(12) == 0 ? -g.range(0, 2 * hTyp) : g.range(0.2, 1.8) * hTyp); x = tNow - delay; y = tNow; z = g.signedMag(0.1, 5); }
        else if (r == 13) { code = 2; if (cur->size() > 0) x = cur->getEntryTime(0) - g.range(0.01, 1); else x = tNow - g.range(0.5, 2); y = g.signedMag(0.1, 5); }
        else if (r == 14 && g.below(4) == 0) { code = 5; }
        else if (r == 15) { delay = g.range(0.05, 3) * (g.coin() ? 1 : 0.1); code = 4; x = tNow - delay; }
        else { code = 4; int q = g.below(6);
               x = q == 0 ? tNow - delay : q == 1 && cur->size() > 0 ? cur->getEntryTime(g.below(cur->size())) : q == 2 ? tNow + g.range(0, 1) : tNow - g.range(0, 1.5) * delay; }
        in.d(code).d(x).d(y).d(z);
        if (code == 1) cur->append(x, y, z);
        else if (code == 2) cur->prepend(x, y);
        else if (code == 3) { other->copyInAndUpdate(*cur, x, y, z); std::swap(cur, other); }
        else if (code == 4) { Real v; cur->calcValueAtTimeLinearOnly(x, v); vals.push_back(v); }
        else cur->clear();
        sizes.push_back(cur->size()); caps.push_back(cur->capacity());
    }
    in.emit();
    vh::Line os = vh::O("sizes"); for (double s : sizes) os.d(s); os.emit();
    vh::Line ov = vh::O("vals"); for (double s : vals) ov.d(s); ov.emit();
    vh::Line of = vh::O("final"); for (int i = 0; i < cur->size(); ++i) of.d(cur->getEntryTime(i)).d(cur->getEntryValue(i)); of.emit();
    vh::D("buf");
    // ring-buffer invariant on the real object: size <= capacity, times strictly increasing
    double bad = 0; for (int i = 0; i + 1 < cur->size(); ++i) if (!(cur->getEntryTime(i) < cur->getEntryTime(i + 1))) bad = 1;
    if (cur->size() > cur->capacity()) bad = 1;
    vh::P("buffer_invariant", "buf.invariant", bad, 0);
}

// ------------------------------------------------------------------ simulation
// One observation of every measure: flag 0 = completed integrator step (advanced state), 1 = report state (interpolated, or
// the initial StartOfContinuousInterval return): observed only, never fed to the auto-update variables.
struct Ob {
    int flag; size_t avail;      // avail = number of completed steps (incl. the initial one) whose data the auto-update variables hold
    double t, v, extV[4], extT[4], del, difA, z, zdot, sv, svd, extSd, extDel; Vec3 lin, evec;
};

static int g_simsJudged = 0;
static bool newExt(int op, double nv, double old) { return op == 0 ? std::fabs(nv) > std::fabs(old) : op == 1 ? nv > old : op == 2 ? std::fabs(nv) < std::fabs(old) : nv < old; }

static void simCase(vh::Rng& g, bool big, int forceKind) {
    MultibodySystem system; SimbodyMatterSubsystem matter(system); GeneralForceSubsystem forces(system);
    Force::UniformGravity gravity(forces, matter, Vec3(0, -9.8, 0));
    Body::Rigid body(MassProperties(1.0, Vec3(0), Inertia(1)));
    MobilizedBody::Pin pend(matter.updGround(), Transform(Vec3(0)), body, Transform(Vec3(0, 1, 0)));
    Subsystem& sub = forces;
    const double a = g.signedMag(0.3, 3), w = g.range(0.5, 2.5), p = g.range(-3, 3), c = g.signedMag(0.2, 3), k0 = g.signedMag(0.1, 2) * (g.coin() ? 1 : 0);
    const bool useMinus = g.coin();
    Measure::Time tm(sub);
    Measure::Sinusoid sn(sub, a, w, p);
    Measure::Scale sc(sub, c, sn);
    Measure::Constant kc(sub, k0);
    Measure::Plus plusM(sub, sc, kc); Measure::Minus minusM(sub, sc, kc);
    Measure operand = useMinus ? (Measure)minusM : (Measure)plusM;
    Measure::Extreme ext[4] = { Measure::Extreme(sub, operand, Measure::Extreme::MaxAbs), Measure::Extreme(sub, operand, Measure::Extreme::Maximum),
                                Measure::Extreme(sub, operand, Measure::Extreme::MinAbs), Measure::Extreme(sub, operand, Measure::Extreme::Minimum) };
    const int opS = g.below(4), opD = g.below(4), opV = g.below(4);
    Measure::Extreme extS(sub, sn, (Measure::Extreme::Operation)opS);          // operand with derivatives: getValue(s,1)
    const int delayKind = g.below(8);                                          // 0: zero delay; 1-3: shorter than a step; else long
    const double hFix = g.range(0.01, 0.04);
    const double delay = delayKind == 0 ? 0.0 : delayKind <= 3 ? g.range(0.2, 0.9) * hFix : g.range(0.1, 2.0);
    Measure::Delay del(sub, operand, delay);
    if (g.coin()) del.setUseLinearInterpolationOnly(true);
    const bool canUseCurrent = g.below(4) == 0; if (canUseCurrent) del.setCanUseCurrentValue(true);
    Measure::Extreme extDel(sub, del, (Measure::Extreme::Operation)opD);       // nested auto-update measures
    const double ic = g.signedMag(0.1, 2);
    Measure::Constant icm(sub, ic);
    Measure::Integrate integral(sub, operand, icm);
    Measure::Differentiate difA(sub, operand); difA.setForceUseApproximation(true);
    const Vec3 rate(g.signedMag(0.2, 2), g.signedMag(0.2, 2), g.signedMag(0.2, 2)), icv(g.signedMag(0.1, 1), g.signedMag(0.1, 1), g.signedMag(0.1, 1));
    Measure_<Vec3>::Constant rateM(sub, rate), icvM(sub, icv);
    Measure_<Vec3>::Integrate lin(sub, rateM, icvM);                             // icv + rate*(t-t0): elements cross zero at different times
    Measure_<Vec3>::Extreme evec(sub, lin, (Measure_<Vec3>::Extreme::Operation)opV);
    State state = system.realizeTopology();
    const double t0 = g.coin() ? 0.0 : g.signedMag(0.1, 2);
    state.setTime(t0);
    pend.setAngle(state, g.range(-1, 1));
    const int which = forceKind >= 0 ? forceKind % 4 : g.below(4);
    const bool grid = forceKind >= 0 ? forceKind >= 4 : g.coin();             // report grid with interpolated report states
    const double h = hFix;
    const double acc = which == 3 ? 1e-6 : 1e-3;
    Integrator* integ = which == 0 ? (Integrator*)new RungeKutta3Integrator(system) : which == 1 ? (Integrator*)new ExplicitEulerIntegrator(system)
                      : which == 2 ? (Integrator*)new RungeKuttaMersonIntegrator(system) : (Integrator*)new RungeKuttaFeldbergIntegrator(system);
    const char* iname = which == 0 ? "rk3fixed" : which == 1 ? "eulerfixed" : which == 2 ? "merson" : "rkf";
    if (which <= 1) integ->setFixedStepSize(h); else integ->setAccuracy(acc);
    integ->setAllowInterpolation(grid);
    integ->setReturnEveryInternalStep(true);
    const int maxSteps = big ? 300 : 50;
    const double tEnd = t0 + (which <= 1 ? h * (10 + g.below(maxSteps - 10)) : g.range(1, big ? 8 : 3));
    const double dtRep = (which <= 1 ? h : 0.1) * g.range(0.3, 2.5);
    integ->setFinalTime(tEnd);
    integ->initialize(state);
    std::vector<Ob> L;
    size_t stepCount = 0;
    auto observe = [&](const State& s, int flag) -> Ob {
        system.realize(s, Stage::Acceleration);
        Ob o; o.flag = flag; o.avail = std::max<size_t>(stepCount, 1); o.t = s.getTime(); o.v = operand.getValue(s);
        for (int e = 0; e < 4; ++e) { o.extV[e] = ext[e].getValue(s); o.extT[e] = ext[e].getTimeOfExtremeValue(s); }
        o.del = del.getValue(s); o.difA = difA.getValue(s); o.z = integral.getValue(s); o.zdot = integral.getValue(s, 1);
        o.sv = sn.getValue(s); o.svd = sn.getValue(s, 1); o.extSd = extS.getValue(s, 1); o.extDel = extDel.getValue(s);
        o.lin = lin.getValue(s); o.evec = evec.getValue(s);
        if ((L.size() + (size_t)flag) % 9 == 1) {      // arithmetic measures: every column comes from a real measure
            vh::I("arith").d(a).d(w).d(p).d(s.getTime()).d(c).d(k0).emit();
            vh::O("arith").d(sn.getValue(s)).d(sn.getValue(s, 1)).d(sn.getValue(s, 2)).d(sn.getValue(s, 3)).d(plusM.getValue(s)).d(minusM.getValue(s)).d(sc.getValue(s)).emit();
            vh::D("arith");
            vh::P("arithmetic_exact", "sim.arith.exact", std::fabs(kc.getValue(s) - k0) + std::fabs(tm.getValue(s) - s.getTime()), 0);
        }
        return o;
    };
    // The log is chronological.  While the advanced state sits at the end of step k, the auto-update variables hold the data of
    // steps 0..k-1; report states inside step k (earlier times) therefore come BEFORE the entry of step k, which is appended when
    // the integrator moves on.
    L.push_back(observe(integ->getAdvancedState(), 0));      // step 0: the initialized state
    stepCount = 1;
    bool havePending = false; Ob pending;
    double lastAdv = t0, nextRep = t0 + dtRep; int guard = 0;
    while (integ->getAdvancedTime() < tEnd && guard++ < 5000) {
        Integrator::SuccessfulStepStatus st = integ->stepTo(grid ? std::min(nextRep, tEnd) : tEnd);
        const State& adv = integ->getAdvancedState();
        if (adv.getTime() > lastAdv) {
            if (havePending) { L.push_back(pending); ++stepCount; }
            pending = observe(adv, 0); pending.avail = std::max<size_t>(stepCount, 1); havePending = true; lastAdv = adv.getTime();
        }
        const State& cur = integ->getState();
        if (st == Integrator::StartOfContinuousInterval || (st == Integrator::ReachedReportTime && cur.getTime() != adv.getTime())) L.push_back(observe(cur, 1));
        if (st == Integrator::ReachedReportTime) nextRep += dtRep;
        if (st == Integrator::EndOfSimulation) break;
    }
    if (havePending) { L.push_back(pending); ++stepCount; }
    delete integ;
    const size_t N = L.size() - 1;
    if (stepCount < 3) return;
    const std::string key = std::string("sim.") + iname + (grid ? ".grid" : ".steps");
    vh::D(key); ++g_simsJudged;
    const double amp = std::fabs(c * a), M1 = amp * w, M2 = amp * w * w, M3 = M2 * w;
    auto f = [&](double t) { return c * a * std::sin(w * t + p) + (useMinus ? -k0 : k0); };
    std::vector<size_t> S; for (size_t k = 0; k <= N; ++k) if (L[k].flag == 0) S.push_back(k);     // indices of the completed steps
    size_t nRep = N + 1 - S.size();
    if (nRep > 1) vh::D("sim.reportstates");
    // ---- Extreme (4 operations on the operand, one on the delayed operand)
    for (int e = 0; e < 5; ++e) {
        const int op = e < 4 ? e : opD;
        auto val = [&](const Ob& o) { return e < 4 ? o.v : o.del; };
        vh::Line in = vh::I("ext"); in.d(op).d(N).d(L[0].t).d(val(L[0])); for (size_t k = 1; k <= N; ++k) in.d(L[k].flag).d(L[k].t).d(val(L[k])); in.emit();
        vh::Line ov = vh::O("val"); for (size_t k = 1; k <= N; ++k) ov.d(e < 4 ? L[k].extV[e] : L[k].extDel); ov.emit();
        if (e < 4) { vh::Line ot = vh::O("time"); for (size_t k = 1; k <= N; ++k) ot.d(L[k].extT[e]); ot.emit(); }
        else { vh::Line ot = vh::O("time"); /* not observed for the nested one: echo the model-independent definition */
               double E = val(L[0]), T = L[0].t; for (size_t k = 1; k <= N; ++k) { bool nw = newExt(op, val(L[k]), E); ot.d(nw ? L[k].t : T); if (nw && L[k].flag == 0) { E = val(L[k]); T = L[k].t; } } ot.emit(); }
        vh::D(e < 4 ? key + ".extreme" : std::string("sim.extreme_of_delay"));
        if (e < 4) {
            // running extreme over the completed steps; a report state sees extremeOf(its value, extreme of the completed steps)
            double badV = 0, badT = 0, E = L[0].v, T = L[0].t;
            for (size_t k = 0; k <= N; ++k) {
                bool nw = k > 0 && newExt(op, L[k].v, E);
                double ev = nw ? L[k].v : E, et = nw ? L[k].t : T;
                if (L[k].extV[e] != ev) badV = 1; if (L[k].extT[e] != et) badT = 1;
                if (nw && L[k].flag == 0) { E = L[k].v; T = L[k].t; }
            }
            vh::P("extreme_is_running_extreme", key + ".extreme.value", badV, 0);
            vh::P("extreme_time_is_first_occurrence", key + ".extreme.time", badT, 0);
        }
    }
    // ---- derivative of an Extreme (operand with derivatives)
    {
        vh::Line in = vh::I("extd"); in.d(opS).d(N).d(L[0].t).d(L[0].sv); for (size_t k = 1; k <= N; ++k) in.d(L[k].flag).d(L[k].t).d(L[k].sv).d(L[k].svd); in.emit();
        vh::Line ov = vh::O("val"); for (size_t k = 1; k <= N; ++k) ov.d(L[k].extSd); ov.emit();
        vh::D("sim.extreme_derivative");
    }
    // ---- Extreme of a Vec3 measure
    {
        vh::Line in = vh::I("extvec"); in.d(opV).d(N).d(L[0].lin[0]).d(L[0].lin[1]).d(L[0].lin[2]); for (size_t k = 1; k <= N; ++k) in.d(L[k].flag).d(L[k].lin[0]).d(L[k].lin[1]).d(L[k].lin[2]); in.emit();
        vh::Line ov = vh::O("val"); for (size_t k = 1; k <= N; ++k) ov.d(L[k].evec[0]).d(L[k].evec[1]).d(L[k].evec[2]); ov.emit();
        vh::D("sim.extreme_vec3");
        // the Vec3 operand is an exactly integrable linear function: Integrate<Vec3> must reproduce icv + rate*(t-t0)
        double worst = 0; for (size_t k = 0; k <= N; ++k) for (int i = 0; i < 3; ++i) worst = std::max(worst, std::fabs(L[k].lin[i] - (icv[i] + rate[i] * (L[k].t - t0))));
        vh::P("integrate_vec3_linear", key + ".integrate.vec3", worst, 1e-12 * (1 + std::fabs(tEnd - t0)) * 4);
    }
    // ---- Delay
    {
        vh::Line in = vh::I("delay"); in.d(delay).d(N).d(L[0].t).d(L[0].v); for (size_t k = 1; k <= N; ++k) in.d(L[k].flag).d(L[k].t).d(L[k].v); in.emit();
        vh::Line ov = vh::O("val"); for (size_t k = 1; k <= N; ++k) ov.d(L[k].del); ov.emit();
        vh::D(std::string("sim.delay.") + (delay == 0 ? "zero" : delay < h ? "short" : "long") + (canUseCurrent ? ".canUseCurrent" : ""));
        double worst = -1;
        for (size_t k = 1; k <= N; ++k) {
            double tau = L[k].t - delay, expect, bound;
            std::vector<size_t> E(S.begin(), S.begin() + std::min(L[k].avail, S.size()));     // completed steps held by the buffer
            size_t j = 0; bool found = false; for (; j < E.size(); ++j) if (L[E[j]].t >= tau) { found = true; break; }
            if (found && j == 0) { expect = L[0].v; bound = 0; }                                   // before the start: constant at the initial value
            else if (found) { expect = f(tau); double dt = L[E[j]].t - L[E[j - 1]].t; bound = M2 * dt * dt / 8; }
            else if (E.size() == 1) { expect = f(tau); bound = M1 * std::fabs(tau - L[0].t); }     // one entry: flat
            else { expect = f(tau); bound = M2 * std::fabs(tau - L[E[E.size() - 2]].t) * std::fabs(tau - L[E.back()].t) / 2; }   // extrapolation
            worst = std::max(worst, std::fabs(L[k].del - expect) - 1.01 * bound);
        }
        vh::P("delay_is_operand_at_t_minus_delay", key + ".delay.value", worst, 1e-10 * std::max(1.0, amp));
        vh::P("delay_initial", key + ".delay.initial", std::fabs(L[0].del - L[0].v), 0);
    }
    // ---- Differentiate with approximation
    {
        vh::Line in = vh::I("diff"); in.d(N).d(L[0].t).d(L[0].v); for (size_t k = 1; k <= N; ++k) in.d(L[k].flag).d(L[k].t).d(L[k].v); in.emit();
        vh::Line ov = vh::O("val"); for (size_t k = 1; k <= N; ++k) ov.d(L[k].difA); ov.emit();
        vh::D(key + ".diffapprox");
        double worst = 0, hmax = 0; for (size_t q = 1; q < S.size(); ++q) hmax = std::max(hmax, L[S[q]].t - L[S[q - 1]].t);
        for (size_t q = 1; q < S.size(); ++q) { double e = std::fabs(L[S[q]].difA - c * a * w * std::cos(w * L[S[q]].t + p)); worst = std::max(worst, e); }
        // the estimate is first order at the first step (|err| <= M2 h/2); the "second order" recurrence fdot = 2*slope - fdot_prev
        // then carries that error along undamped with alternating sign (theorem diff_quadratic_error_flips)
        const double bound = 0.75 * M2 * hmax + 3 * M3 * hmax * hmax + 1e-9;
        if (bound <= 0.25 * M1) vh::P("differentiate_tracks_derivative", key + ".diffapprox.error", worst, bound);
        else vh::D("sim.diffapprox.coarse_steps_not_judged");
    }
    // ---- Integrate: zdot is the operand, z(t0) = ic; z under explicit Euler is predicted exactly; accuracy vs the analytic integral
    {
        vh::Line in = vh::I("integ"); in.d(which == 1 ? 1 : 0).d(S.size() - 1).d(ic).d(L[0].t).d(L[0].v); for (size_t q = 1; q < S.size(); ++q) in.d(L[S[q]].t).d(L[S[q]].v); in.emit();
        vh::Line oz = vh::O("zdot"); for (size_t q = 0; q < S.size(); ++q) oz.d(L[S[q]].zdot); oz.emit();
        vh::Line ov = vh::O("z"); if (which == 1) for (size_t q = 0; q < S.size(); ++q) ov.d(L[S[q]].z); else ov.d(L[0].z); ov.emit();
        vh::D(key + ".integrate");
        double worst = 0;
        for (size_t k = 0; k <= N; ++k) {
            double t = L[k].t;
            double exact = ic + c * a * (std::cos(w * L[0].t + p) - std::cos(w * t + p)) / w + (useMinus ? -k0 : k0) * (t - L[0].t);
            worst = std::max(worst, std::fabs(L[k].z - exact));
        }
        double T = L[N].t - L[0].t;
        double bound = which == 0 ? 2 * M3 * h * h * h * T + 1e-12 : which == 1 ? 2 * M1 * h * T + 1e-12 : 30 * acc * std::max(1.0, amp * T);
        vh::P("integrate_is_time_integral", key + ".integrate.error", worst, bound);
    }
}


// ------------------------------------------------------------------ history stream with a CHANGING Variable source (round 2c)
// One State, one run: every measure is read at every step; at a few steps a Measure::Variable the operand is built from is
// changed (setValue on the advanced state) between two reads at the same time, then the run continues.  The records give the
// Lean definitions the operand's TRUE history (computed here from the current inputs: the Variable's value, the time), so a
// measure that keeps answering from a stale cache shows both as a predicate failure and as a model mismatch.
static int g_varStreams = 0;
static void variableStreamCase(vh::Rng& g, int srcKind, int which) {
    static const char* kindName[] = {"variable", "scale_variable", "variable_plus_constant", "variable_minus_scaled_variable", "variable_plus_time", "scaled_variable_plus_sinusoid"};
    MultibodySystem system; SimbodyMatterSubsystem matter(system); GeneralForceSubsystem forces(system);
    Body::Rigid body(MassProperties(1.0, Vec3(0), Inertia(1)));
    MobilizedBody::Pin pend(matter.updGround(), Transform(Vec3(0)), body, Transform(Vec3(0, 1, 0)));
    Subsystem& sub = forces;
    const double c = g.signedMag(0.3, 3), c2 = g.signedMag(0.2, 0.8), k0 = g.signedMag(0.1, 2), a = g.signedMag(0.3, 2), w = g.range(0.5, 2.5), ph = g.range(-3, 3);
    double vcur = g.signedMag(0.2, 3); Vec3 v3cur(g.signedMag(0.2, 3), g.signedMag(0.2, 3), g.signedMag(0.2, 3));
    Measure::Variable var(sub, Stage::Time, vcur);
    Measure_<Vec3>::Variable var3(sub, Stage::Time, v3cur);
    Measure::Time tm(sub); Measure::Constant kc(sub, k0); Measure::Sinusoid sn(sub, a, w, ph);
    Measure::Scale scv(sub, c, var), sc2v(sub, c2, var);
    Measure::Plus pvk(sub, var, kc), pvt(sub, var, tm), pss(sub, scv, sn); Measure::Minus mvs(sub, var, sc2v);
    Measure operand = srcKind == 0 ? (Measure)var : srcKind == 1 ? (Measure)scv : srcKind == 2 ? (Measure)pvk : srcKind == 3 ? (Measure)mvs : srcKind == 4 ? (Measure)pvt : (Measure)pss;
    const double h = g.range(0.01, 0.04);
    const bool longDelay = g.coin(); const double delay = longDelay ? h * g.range(1.2, 4.5) : h * g.range(0.2, 0.9);
    const int op = g.below(4);
    Measure::Delay del(sub, operand, delay);
    Measure::Extreme ext(sub, operand, (Measure::Extreme::Operation)op);
    // (Differentiate is always taken of Variable+Time: Differentiate of an operand whose depends-on stage is Model - a pure
    //  Variable/Constant tree - makes Integrator::initialize throw on the clean tree; demonstrated separately in diffVariableChild)
    Measure::Differentiate dif(sub, pvt); dif.setForceUseApproximation(true);
    const double ic = g.signedMag(0.1, 2); Measure::Constant icm(sub, ic);
    Measure::Integrate integral(sub, operand, icm);
    const bool scale3 = g.coin(); const double c3 = g.signedMag(0.3, 3);
    Measure_<Vec3>::Scale sc3(sub, c3, var3);
    Measure_<Vec3> operand3 = scale3 ? (Measure_<Vec3>)sc3 : (Measure_<Vec3>)var3;
    Measure_<Vec3>::Delay del3(sub, operand3, delay);
    State state = system.realizeTopology();
    if (std::getenv("C23_DEBUG")) std::fprintf(stderr, "stage after realizeTopology: %s\n", state.getSystemStage().getName().c_str());
    const double t0 = g.coin() ? 0.0 : g.signedMag(0.1, 2); state.setTime(t0); pend.setAngle(state, g.range(-1, 1));
    if (std::getenv("C23_DEBUG")) { std::fprintf(stderr, "stage after set: %s\n", state.getSystemStage().getName().c_str()); State s2 = state; std::fprintf(stderr, "copy stage: %s\n", s2.getSystemStage().getName().c_str()); try { system.realize(state, Stage::Acceleration); std::fprintf(stderr, "direct realize ok\n"); } catch (const std::exception& e) { std::fprintf(stderr, "direct realize: %s\n", e.what()); } }
    Integrator* integ = which == 0 ? (Integrator*)new RungeKutta3Integrator(system) : (Integrator*)new ExplicitEulerIntegrator(system);
    integ->setFixedStepSize(h); integ->setAllowInterpolation(false); integ->setReturnEveryInternalStep(true);
    const int nSteps = 12 + g.below(14);
    integ->setFinalTime(t0 + h * (nSteps + 2)); integ->initialize(state);
    struct E { int flag; double t, srcD, src, opv, del, extV, extT, dif, z, zdot; Vec3 src3, op3, d3; };
    std::vector<E> L;
    auto truth = [&](const State& s) { double t = s.getTime(); return srcKind == 0 ? vcur : srcKind == 1 ? c * vcur : srcKind == 2 ? vcur + k0 : srcKind == 3 ? vcur - c2 * vcur : srcKind == 4 ? vcur + t : c * vcur + sn.getValue(s); };
    auto observe = [&](const State& s, int flag) {
        system.realize(s, Stage::Acceleration);
        E e; e.flag = flag; e.t = s.getTime(); e.srcD = vcur + s.getTime(); e.src = truth(s); e.opv = operand.getValue(s); e.del = del.getValue(s); e.extV = ext.getValue(s); e.extT = ext.getTimeOfExtremeValue(s);
        e.dif = dif.getValue(s); e.z = integral.getValue(s); e.zdot = integral.getValue(s, 1);
        e.src3 = scale3 ? Vec3(c3 * v3cur) : v3cur; e.op3 = operand3.getValue(s); e.d3 = del3.getValue(s);
        L.push_back(e);
    };
    std::set<int> changeAt; for (int r = 0; r < 3; ++r) changeAt.insert(3 + g.below(nSteps - 4));
    observe(integ->getAdvancedState(), 0);
    int nChanges = 0;
    for (int k = 1; k <= nSteps; ++k) {
        integ->stepTo(t0 + h * (nSteps + 2));
        if (changeAt.count(k)) {
            observe(integ->getAdvancedState(), 1);                    // read ...
            State& adv = integ->updAdvancedState();
            vcur = g.signedMag(0.2, 3); v3cur = Vec3(g.signedMag(0.2, 3), g.signedMag(0.2, 3), g.signedMag(0.2, 3));
            var.setValue(adv, vcur); var3.setValue(adv, v3cur); ++nChanges;        // ... change ...
        }
        observe(integ->getAdvancedState(), 0);                        // ... read (and this is the sample the step commits)
    }
    delete integ;
    const size_t N = L.size() - 1;
    const std::string kind = kindName[srcKind], tag = std::string("varstream.") + kind + (which == 0 ? ".rk3" : ".euler");
    vh::D(tag); ++g_varStreams;
    // One predicate-only record (the Lean history models are tied in simCase; here a read / change / read at the SAME time is part
    // of the stream, for which the step-log conventions of those records are not defined).
    vh::I("buf").d(0).emit(); std::puts("O sizes"); std::puts("O vals"); std::puts("O final");
    // (1) the operand itself (arithmetic tree over the Variable) must reflect the current inputs at every read.  Finding on the clean
    //     tree: Scale/Plus/Minus (Real and Vec3) cache their value with depends-on stage = max of the operands' = Model for a
    //     Variable (Variable declares depends-on Model although setValue can change it any time), so after setValue they keep
    //     returning the old value: one key for that root cause.  Kinds without such a node (the Variable itself, Variable+Time)
    //     keep their own keys.
    const bool staleProne = srcKind == 1 || srcKind == 2 || srcKind == 3 || srcKind == 5;
    const std::string staleKey = "measure.arithmetic_of_variable.stale_after_setValue";
    double stale = 0, stale3 = 0, sc = 1, zbad = 0;
    for (auto& e : L) { stale = std::max(stale, std::fabs(e.opv - e.src)); sc = std::max(sc, std::fabs(e.src)); zbad = std::max(zbad, std::fabs(e.zdot - e.src)); for (int i = 0; i < 3; ++i) stale3 = std::max(stale3, std::fabs(e.op3[i] - e.src3[i])); }
    vh::P("operand_reflects_current_inputs", staleProne ? staleKey : "varstream.operand." + kind + ".current", stale / sc, 8 * 2.2e-16);
    vh::P("operand_reflects_current_inputs", scale3 ? staleKey : std::string("varstream.operand.vec3_variable.current"), stale3, 8 * 2.2e-16 * 10);
    // (2) Integrate's derivative is the operand now
    vh::P("integrand_reflects_current_inputs", staleProne ? staleKey : "varstream.integrate." + kind + ".zdot", zbad / sc, 8 * 2.2e-16);
    // (3) Delay: once the source has not changed for delay + 3 steps, the delayed value is the source's value at t - delay computed
    //     from the CURRENT Variable value (piecewise-constant kinds: that value itself; Variable+Time: value + (t - delay); both are
    //     reproduced exactly by the buffer interpolation).  A Delay that keeps a value cached from before the change fails here.
    std::vector<double> changeTimes; for (size_t k = 1; k <= N; ++k) if (L[k].flag == 1) changeTimes.push_back(L[k].t);
    double dbad = 0, dbad3 = 0; int judged = 0;
    for (size_t k = 1; k <= N; ++k) {
        if (L[k].flag != 0) continue;
        bool quiet = L[k].t - delay - 3 * h > L[0].t; for (double tc : changeTimes) if (tc <= L[k].t && tc >= L[k].t - delay - 3.001 * h) quiet = false;
        if (!quiet) continue;
        ++judged;
        if (srcKind <= 4) { double expect = srcKind == 4 ? L[k].src - delay : L[k].src; dbad = std::max(dbad, std::fabs(L[k].del - expect) / sc); }
        for (int i = 0; i < 3; ++i) dbad3 = std::max(dbad3, std::fabs(L[k].d3[i] - L[k].src3[i]));
    }
    if (judged) {
        vh::D("varstream.delay_judged_after_change");
        if (srcKind <= 4) vh::P("delay_follows_changed_variable", (srcKind >= 1 && srcKind <= 3) ? staleKey : "varstream.delay." + kind + ".after_change", dbad, 1e-9);
        vh::P("delay_follows_changed_variable", scale3 ? staleKey : std::string("varstream.delay.vec3_variable.after_change"), dbad3, 1e-9);
    }
}

// Differentiate of an operand that supplies its own derivative (no approximation): finding F-C23a - realize(Acceleration)
// calls ensureDerivativeIsRealized() with an invalid variable index and crashes.  Run in a child process.
#include <unistd.h>
#include <sys/wait.h>
static void diffExactCase() {
    std::fflush(stdout);
    pid_t pid = fork(); int status = 0; bool crashed = false, bad = false;
    if (pid == 0) {
        try {
            MultibodySystem system; SimbodyMatterSubsystem matter(system); GeneralForceSubsystem forces(system);
            Body::Rigid body(MassProperties(1.0, Vec3(0), Inertia(1)));
            MobilizedBody::Pin pend(matter.updGround(), Transform(Vec3(0)), body, Transform(Vec3(0, 1, 0)));
            Measure::Sinusoid sn(forces, 2.0, 5.0, 0.3);
            Measure::Differentiate dif(forces, sn);
            State state = system.realizeTopology(); state.setTime(0.25);
            system.realize(state, Stage::Acceleration);
            double v = dif.getValue(state), truth = 2.0 * 5.0 * std::cos(5.0 * 0.25 + 0.3);
            _exit(std::fabs(v - truth) < 1e-12 ? 0 : 3);
        } catch (...) { _exit(4); }
    } else if (pid > 0) { waitpid(pid, &status, 0); crashed = WIFSIGNALED(status); bad = !crashed && WEXITSTATUS(status) != 0; }
    vh::I("arith").d(1).d(0).d(0).d(0).d(1).d(0).emit();
    vh::O("arith").d(0).d(0).d(-0.0).d(-0.0).d(0).d(0).d(0).emit();
    vh::D(std::string("diffexact.") + (crashed ? "crash" : bad ? "wrong" : "ok"));
    vh::P("differentiate_exact_operand", "measure.differentiate.exact_operand.crash", (crashed || bad) ? 1 : 0, 0);
}


// Differentiate of an operand that depends on no stage later than Model (a Measure::Variable, or arithmetic of Variables and
// Constants): its auto-update variable is allocated with invalidates = operand.getDependsOnStage(0) = Model
// (MeasureImplementation.h:1382), so Integrator::initialize() - which swaps in the auto-update values - drops the state below
// Model and throws "Expected stage to be at least Model".  Forked child; value 1 = initialize failed.
static void diffVariableChild() {
    std::fflush(stdout);
    pid_t pid = fork(); int status = 0; double bad = 1; std::string how = "fork_failed";
    if (pid == 0) {
        std::fclose(stdout); alarm(10);
        try {
            MultibodySystem system; SimbodyMatterSubsystem matter(system); GeneralForceSubsystem forces(system);
            Body::Rigid body(MassProperties(1.0, Vec3(0), Inertia(1)));
            MobilizedBody::Pin pend(matter.updGround(), Transform(Vec3(0)), body, Transform(Vec3(0, 1, 0)));
            Measure::Variable var(forces, Stage::Time, 1.5);
            Measure::Differentiate dif(forces, var); dif.setForceUseApproximation(true);
            State state = system.realizeTopology();
            RungeKutta3Integrator integ(system); integ.setFixedStepSize(0.01); integ.initialize(state);
            integ.stepTo(0.05); system.realize(integ.getAdvancedState(), Stage::Acceleration);
            _exit(dif.getValue(integ.getAdvancedState()) == 0 ? 0 : 3);      // derivative of a constant-so-far variable is 0
        } catch (const std::exception&) { _exit(2); }
    } else if (pid > 0) {
        waitpid(pid, &status, 0);
        if (WIFSIGNALED(status)) how = "crashed"; else if (WEXITSTATUS(status) == 0) { how = "ok"; bad = 0; } else how = WEXITSTATUS(status) == 2 ? "threw" : "wrong_value";
    }
    vh::I("buf").d(0).emit(); std::puts("O sizes"); std::puts("O vals"); std::puts("O final");
    vh::D("diffvariable." + how);
    vh::P("differentiate_of_variable_usable", "measure.differentiate.variable_operand.integrator_init_fails", bad, 0);
}

static void replay() {
    static char buf[1 << 22];
    while (std::fgets(buf, sizeof buf, stdin)) {
        std::istringstream is(buf); std::string k, fn; is >> k >> fn;
        if (k != "I" || fn != "buf") continue;
        std::vector<double> v; std::string t; while (is >> t) v.push_back(vh::unhex(t));
        Measure_Delay_Buffer<Real> A, B; Measure_Delay_Buffer<Real>* cur = &A; Measure_Delay_Buffer<Real>* other = &B;
        vh::Line in = vh::I("buf"); for (double x : v) in.d(x); in.emit();
        std::vector<double> sizes, caps, vals;
        for (size_t q = 1; q + 3 < v.size() + 0 && q + 3 <= v.size(); q += 4) {
            int code = (int)v[q]; double x = v[q + 1], y = v[q + 2], z = v[q + 3];
            if (code == 1) cur->append(x, y, z);
            else if (code == 2) { if (cur->size() == 0 || x < cur->getEntryTime(0)) cur->prepend(x, y); }
            else if (code == 3) { other->copyInAndUpdate(*cur, x, y, z); std::swap(cur, other); }
            else if (code == 4) { Real r; cur->calcValueAtTimeLinearOnly(x, r); vals.push_back(r); }
            else cur->clear();
            sizes.push_back(cur->size()); caps.push_back(cur->capacity());
        }
        vh::Line os = vh::O("sizes"); for (double s : sizes) os.d(s); os.emit();
            vh::Line ov = vh::O("vals"); for (double s : vals) ov.d(s); ov.emit();
        vh::Line of = vh::O("final"); for (int i = 0; i < cur->size(); ++i) of.d(cur->getEntryTime(i)).d(cur->getEntryValue(i)); of.emit();
    }
}

int main(int argc, char** argv) {
    vh::Args args(argc, argv);
    if (args.mode == "replay") { replay(); return 0; }
    vh::Rng g(args.seed * 7919 + 23);
    bool big = args.n > 200;
    diffExactCase();
    diffVariableChild();
    g_simsJudged = 0;
    g_simsJudged = 0;
    for (int fk = 0; fk < 8; ++fk) simCase(g, big, fk);      // guaranteed: every integrator x {every-step, report grid}
    if (const char* e = std::getenv("C23_KIND")) { variableStreamCase(g, std::atoi(e), 1); return 0; }
    for (int sk = 0; sk < 6; ++sk) { variableStreamCase(g, sk, 1); variableStreamCase(g, sk, 0); }   // guaranteed: every source kind x {Euler, RK3}
    for (long k = 0; k < args.n; ++k) {
        int r = g.below(12);
        if (r == 0) variableStreamCase(g, g.below(6), g.below(2)); else if (r <= 4) simCase(g, big, -1); else bufCase(g, 5 + g.below(big ? 200 : 60));
    }
    // floor: a minimum number of simulations must have reached the result predicates (an always-throwing or never-stepping
    // regression must not pass vacuously)
    vh::I("buf").d(0).emit(); std::puts("O sizes"); std::puts("O vals"); std::puts("O final");
    vh::D("floor");
    vh::P("coverage_floor", "c23.floor.simulations_judged", 8 - std::min(g_simsJudged, 8), 0);
    vh::P("coverage_floor", "c23.floor.variable_streams_judged", 12 - std::min(g_varStreams, 12), 0);
    return 0;
}
