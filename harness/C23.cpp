// C23 correspondence harness: built-in Measures on integrator trajectories + Measure_Delay_Buffer operations.
// All tokens are hex doubles.
//   I buf nops (code x y z)*          -> O sizes.. / O caps.. / O vals.. / O final..     (Measure_Delay_Buffer<Real> pair)
//   I ext op N t0 v0 (t v)*N          -> O val.. / O time..          (Extreme measure at every completed step)
//   I delay d N t0 v0 (t v)*N         -> O val..
//   I diff N t0 v0 (t v)*N            -> O val..                     (Differentiate with approximation forced)
//   I arith a w p t c k               -> O arith s0 s1 s2 s3 plus minus scale
// A simulation = MultibodySystem (one pendulum) + measures on the force subsystem, integrated with a fixed-step or an
// error-controlled integrator returning after every internal step; the operand's value is logged at every step.
#include "Simbody.h"
#include "hcommon.h"
#include <algorithm>
using namespace SimTK;

// ------------------------------------------------------------------ buffer operations
static void bufCase(vh::Rng& g, int nops) {
    Measure_Delay_Buffer<Real> A, B; Measure_Delay_Buffer<Real>* cur = &A; Measure_Delay_Buffer<Real>* other = &B;
    vh::Line in = vh::I("buf"); in.d(nops);
    std::vector<double> sizes, caps, vals;
    double tNow = g.range(-1, 1); double delay = g.range(0.05, 3);
    double hTyp = g.range(0.01, 0.5);
    for (int k = 0; k < nops; ++k) {
        int r = g.below(20); int code; double x = 0, y = 0, z = 0;
        if (r <= 8) { code = 1; tNow += (g.below(12) == 0 ? -g.range(0, 2 * hTyp) : g.range(0.2, 1.8) * hTyp); x = tNow - delay; y = tNow; z = g.signedMag(0.1, 5); }
        else if (r <= 12) { code = 3; tNow += (g.below(12) == 0 ? -g.range(0, 2 * hTyp) : g.range(0.2, 1.8) * hTyp); x = tNow - delay; y = tNow; z = g.signedMag(0.1, 5); }
        else if (r == 13) { code = 2; if (cur->size() > 0) x = cur->getEntryTime(0) - g.range(0.01, 1); else x = tNow - g.range(0.5, 2); y = g.signedMag(0.1, 5); }
        else if (r == 14 && g.below(4) == 0) { code = 5; }
        else if (r == 15) { delay = g.range(0.05, 3) * (g.coin() ? 1 : 0.1); code = 4; x = tNow - delay; }
        else { code = 4; int q = g.below(6);
               x = q == 0 ? tNow - delay : q == 1 && cur->size() > 0 ? cur->getEntryTime(g.below(cur->size())) : q == 2 ? tNow + g.range(0, 1) : tNow - g.range(0, 1.5) * delay; }
        in.d(code).d(x).d(y).d(z);
        if (code == 1) cur->append(x, y, z);
        else if (code == 2) cur->prepend(x, y);
        else if (code == 3) { other->copyInAndUpdate(*cur, x, y, z); std::swap(cur, other); }
        else if (code == 4) { Real v; cur->calcValueAtTimeLinearOnly(x, v); vals.push_back(v); }
        else cur->clear();
        sizes.push_back(cur->size()); caps.push_back(cur->capacity());
    }
    in.emit();
    vh::Line os = vh::O("sizes"); for (double s : sizes) os.d(s); os.emit();
    vh::Line ov = vh::O("vals"); for (double s : vals) ov.d(s); ov.emit();
    vh::Line of = vh::O("final"); for (int i = 0; i < cur->size(); ++i) of.d(cur->getEntryTime(i)).d(cur->getEntryValue(i)); of.emit();
    vh::D("buf");
    // ring-buffer invariant on the real object: size <= capacity, times strictly increasing
    double bad = 0; for (int i = 0; i + 1 < cur->size(); ++i) if (!(cur->getEntryTime(i) < cur->getEntryTime(i + 1))) bad = 1;
    if (cur->size() > cur->capacity()) bad = 1;
    vh::P("buffer_invariant", "buf.invariant", bad, 0);
}

// ------------------------------------------------------------------ simulation
struct Log { std::vector<double> t, v; };

static double runningExtreme(int op, const std::vector<double>& v, size_t k, size_t& idx) {
    double e = v[0]; idx = 0;
    for (size_t i = 1; i <= k; ++i) {
        bool nw = op == 0 ? std::fabs(v[i]) > std::fabs(e) : op == 1 ? v[i] > e : op == 2 ? std::fabs(v[i]) < std::fabs(e) : v[i] < e;
        if (nw) { e = v[i]; idx = i; }
    }
    return e;
}

static void simCase(vh::Rng& g, bool big) {
    MultibodySystem system; SimbodyMatterSubsystem matter(system); GeneralForceSubsystem forces(system);
    Force::UniformGravity gravity(forces, matter, Vec3(0, -9.8, 0));
    Body::Rigid body(MassProperties(1.0, Vec3(0), Inertia(1)));
    MobilizedBody::Pin pend(matter.updGround(), Transform(Vec3(0)), body, Transform(Vec3(0, 1, 0)));
    Subsystem& sub = forces;
    const double a = g.signedMag(0.3, 3), w = g.range(0.5, 6), p = g.range(-3, 3), c = g.signedMag(0.2, 3), k0 = g.signedMag(0.1, 2) * (g.coin() ? 1 : 0);
    const bool useMinus = g.coin();
    Measure::Time tm(sub);
    Measure::Sinusoid sn(sub, a, w, p);
    Measure::Scale sc(sub, c, sn);
    Measure::Constant kc(sub, k0);
    Measure operand = useMinus ? (Measure)Measure::Minus(sub, sc, kc) : (Measure)Measure::Plus(sub, sc, kc);
    Measure::Extreme ext[4] = { Measure::Extreme(sub, operand, Measure::Extreme::MaxAbs), Measure::Extreme(sub, operand, Measure::Extreme::Maximum),
                                Measure::Extreme(sub, operand, Measure::Extreme::MinAbs), Measure::Extreme(sub, operand, Measure::Extreme::Minimum) };
    const double delay = g.coin() ? g.range(0.02, 0.5) : g.range(0.5, 2.0);
    Measure::Delay del(sub, operand, delay);
    const double ic = g.signedMag(0.1, 2);
    Measure::Constant icm(sub, ic);
    Measure::Integrate integral(sub, operand, icm);
    Measure::Differentiate difA(sub, operand); difA.setForceUseApproximation(true);
    State state = system.realizeTopology();
    const double t0 = g.coin() ? 0.0 : g.signedMag(0.1, 2);
    state.setTime(t0);
    pend.setAngle(state, g.range(-1, 1));
    const int which = g.below(4);
    const double h = g.range(0.01, 0.1);
    const double acc = which == 3 ? 1e-6 : 1e-3;
    Integrator* integ = which == 0 ? (Integrator*)new RungeKutta3Integrator(system) : which == 1 ? (Integrator*)new ExplicitEulerIntegrator(system)
                      : which == 2 ? (Integrator*)new RungeKuttaMersonIntegrator(system) : (Integrator*)new RungeKuttaFeldbergIntegrator(system);
    const char* iname = which == 0 ? "rk3fixed" : which == 1 ? "eulerfixed" : which == 2 ? "merson" : "rkf";
    if (which <= 1) integ->setFixedStepSize(h); else integ->setAccuracy(acc);
    integ->setAllowInterpolation(false);
    integ->setReturnEveryInternalStep(true);
    const int maxSteps = big ? 400 : 60;
    const double tEnd = t0 + (which <= 1 ? h * (10 + g.below(maxSteps - 10)) : g.range(1, big ? 12 : 4));
    integ->setFinalTime(tEnd);
    integ->initialize(state);
    Log L; std::vector<double> extV[4], extT[4], delV, intV, difAV, tmV;
    auto record = [&](const State& s) {
        system.realize(s, Stage::Acceleration);
        L.t.push_back(s.getTime()); L.v.push_back(operand.getValue(s));
        for (int e = 0; e < 4; ++e) { extV[e].push_back(ext[e].getValue(s)); extT[e].push_back(ext[e].getTimeOfExtremeValue(s)); }
        delV.push_back(del.getValue(s)); intV.push_back(integral.getValue(s)); difAV.push_back(difA.getValue(s));
        tmV.push_back(tm.getValue(s));
        // arithmetic measures are exact compositions
        double s0 = sn.getValue(s), s1 = sn.getValue(s, 1), s2 = sn.getValue(s, 2), s3 = sn.getValue(s, 3);
        if (L.t.size() % 7 == 1) {
            vh::I("arith").d(a).d(w).d(p).d(s.getTime()).d(c).d(k0).emit();
            vh::O("arith").d(s0).d(s1).d(s2).d(s3).d(useMinus ? sc.getValue(s) + k0 : operand.getValue(s)).d(useMinus ? operand.getValue(s) : sc.getValue(s) - k0).d(sc.getValue(s)).emit();
            vh::D("arith");
            vh::P("arithmetic_exact", "sim.arith.exact", std::fabs(sc.getValue(s) - c * s0) + std::fabs(operand.getValue(s) - (useMinus ? c * s0 - k0 : c * s0 + k0)) + std::fabs(kc.getValue(s) - k0) + std::fabs(tm.getValue(s) - s.getTime()), 0);
        }
    };
    record(integ->getState());
    int guard = 0;
    while (integ->getTime() < tEnd && guard++ < 5000) {
        Integrator::SuccessfulStepStatus st = integ->stepTo(tEnd);
        record(integ->getState());
        if (st == Integrator::EndOfSimulation) break;
    }
    delete integ;
    const size_t N = L.t.size() - 1;
    if (N < 1) return;
    // the first stepTo() returns at the initial time (StartOfContinuousInterval): the log then holds t0 twice.  D = indices of
    // the distinct times (what the auto-update variables have seen)
    std::vector<size_t> D; for (size_t k = 0; k <= N; ++k) if (k == 0 || L.t[k] != L.t[k - 1]) D.push_back(k);
    const std::string key = std::string("sim.") + iname;
    const double amp = std::fabs(c * a), M1 = amp * w, M2 = amp * w * w, M3 = M2 * w;
    auto f = [&](double t) { return c * a * std::sin(w * t + p) + (useMinus ? -k0 : k0); };
    // ---- Extreme (4 operations)
    for (int e = 0; e < 4; ++e) {
        vh::Line in = vh::I("ext"); in.d(e).d(N).d(L.t[0]).d(L.v[0]); for (size_t k = 1; k <= N; ++k) in.d(L.t[k]).d(L.v[k]); in.emit();
        vh::Line ov = vh::O("val"); for (size_t k = 1; k <= N; ++k) ov.d(extV[e][k]); ov.emit();
        vh::Line ot = vh::O("time"); for (size_t k = 1; k <= N; ++k) ot.d(extT[e][k]); ot.emit();
        vh::D(key + ".extreme");
        double badV = 0, badT = 0;
        for (size_t k = 0; k <= N; ++k) { size_t idx; double ex = runningExtreme(e, L.v, k, idx); if (extV[e][k] != ex) badV = 1; if (extT[e][k] != L.t[idx]) badT = 1; }
        vh::P("extreme_is_running_extreme", key + ".extreme.value", badV, 0);
        vh::P("extreme_time_is_first_occurrence", key + ".extreme.time", badT, 0);
    }
    // ---- Delay
    {
        vh::Line in = vh::I("delay"); in.d(delay).d(N).d(L.t[0]).d(L.v[0]); for (size_t k = 1; k <= N; ++k) in.d(L.t[k]).d(L.v[k]); in.emit();
        vh::Line ov = vh::O("val"); for (size_t k = 1; k <= N; ++k) ov.d(delV[k]); ov.emit();
        vh::D(key + (delay < h ? ".delay.short" : ".delay.long"));
        double worst = -1;
        for (size_t k = 1; k <= N; ++k) {
            double tau = L.t[k] - delay, expect, bound;
            // entries available: the distinct completed steps strictly before t_k
            std::vector<size_t> E; for (size_t q : D) if (L.t[q] < L.t[k]) E.push_back(q);
            if (E.empty()) E.push_back(0);
            size_t j = 0; bool found = false; for (; j < E.size(); ++j) if (L.t[E[j]] >= tau) { found = true; break; }
            if (found && j == 0) { expect = L.v[0]; bound = 0; }                                   // before the start: constant at the initial value
            else if (found) { expect = f(tau); double dt = L.t[E[j]] - L.t[E[j - 1]]; bound = M2 * dt * dt / 8; }
            else if (E.size() == 1) { expect = f(tau); bound = M1 * std::fabs(tau - L.t[0]); }     // one entry: flat
            else { expect = f(tau); bound = M2 * std::fabs(tau - L.t[E[E.size() - 2]]) * std::fabs(tau - L.t[E.back()]) / 2; }   // extrapolation
            worst = std::max(worst, std::fabs(delV[k] - expect) - 1.01 * bound);
        }
        vh::P("delay_is_operand_at_t_minus_delay", key + ".delay.value", worst, 1e-10 * std::max(1.0, amp));
        vh::P("delay_initial", key + ".delay.initial", std::fabs(delV[0] - L.v[0]), 0);
    }
    // ---- Differentiate with approximation
    {
        vh::Line in = vh::I("diff"); in.d(N).d(L.t[0]).d(L.v[0]); for (size_t k = 1; k <= N; ++k) in.d(L.t[k]).d(L.v[k]); in.emit();
        vh::Line ov = vh::O("val"); for (size_t k = 1; k <= N; ++k) ov.d(difAV[k]); ov.emit();
        vh::D(key + ".diffapprox");
        double worst = 0, hmax = 0; for (size_t k = 1; k <= N; ++k) hmax = std::max(hmax, L.t[k] - L.t[k - 1]);
        for (size_t k = 1; k <= N; ++k) { if (L.t[k] == L.t[0]) continue;   // no estimate exists at the initial time (reports 0)
            worst = std::max(worst, std::fabs(difAV[k] - c * a * w * std::cos(w * L.t[k] + p)));
            if (std::getenv("C23_DEBUG")) std::printf("# k=%zu t=%.6f h=%.6f approx=%g true=%g M2=%g\n", k, L.t[k], L.t[k]-L.t[k-1], difAV[k], c * a * w * std::cos(w * L.t[k] + p), M2); }
        // first step is first order (error <= M2 h/2), later ones second order but the recursion fdot = 2*slope - fdot_prev carries the
        // first error along undamped: |err_k| <= M2*h/2 + O(M3 h^2); measured margin in notes
        vh::P("differentiate_tracks_derivative", key + ".diffapprox.error", worst, 1.5 * M2 * hmax + 5 * M3 * hmax * hmax + 1e-9);
    }
    // ---- Integrate vs the analytic integral, to integrator accuracy
    {
        double worst = 0;
        for (size_t k = 0; k <= N; ++k) {
            double t = L.t[k];
            double exact = ic + c * a * (std::cos(w * L.t[0] + p) - std::cos(w * t + p)) / w + (useMinus ? -k0 : k0) * (t - L.t[0]);
            worst = std::max(worst, std::fabs(intV[k] - exact));
        }
        double T = L.t[N] - L.t[0];
        double bound = which == 0 ? 2 * M3 * h * h * h * T + 1e-12 : which == 1 ? 2 * M1 * h * T + 1e-12 : 100 * acc * std::max(1.0, amp * T);
        vh::P("integrate_is_time_integral", key + ".integrate.error", worst, bound);
        vh::P("integrate_initial", key + ".integrate.initial", std::fabs(intV[0] - ic), 0);
    }
}

// replay: buffer-operation records are re-run on a real buffer pair; trajectory records (ext/delay/diff/arith) carry logged
// data of a simulation that cannot be reconstructed from the record and are skipped
// Differentiate of an operand that supplies its own derivative (no approximation): finding F-C23a - realize(Acceleration)
// calls ensureDerivativeIsRealized() with an invalid variable index and crashes.  Run in a child process.
#include <unistd.h>
#include <sys/wait.h>
static void diffExactCase() {
    std::fflush(stdout);
    pid_t pid = fork(); int status = 0; bool crashed = false, bad = false;
    if (pid == 0) {
        try {
            MultibodySystem system; SimbodyMatterSubsystem matter(system); GeneralForceSubsystem forces(system);
            Body::Rigid body(MassProperties(1.0, Vec3(0), Inertia(1)));
            MobilizedBody::Pin pend(matter.updGround(), Transform(Vec3(0)), body, Transform(Vec3(0, 1, 0)));
            Measure::Sinusoid sn(forces, 2.0, 5.0, 0.3);
            Measure::Differentiate dif(forces, sn);
            State state = system.realizeTopology(); state.setTime(0.25);
            system.realize(state, Stage::Acceleration);
            double v = dif.getValue(state), truth = 2.0 * 5.0 * std::cos(5.0 * 0.25 + 0.3);
            _exit(std::fabs(v - truth) < 1e-12 ? 0 : 3);
        } catch (...) { _exit(4); }
    } else if (pid > 0) { waitpid(pid, &status, 0); crashed = WIFSIGNALED(status); bad = !crashed && WEXITSTATUS(status) != 0; }
    vh::I("arith").d(1).d(0).d(0).d(0).d(1).d(0).emit();
    vh::O("arith").d(0).d(0).d(-0.0).d(-0.0).d(0).d(0).d(0).emit();
    vh::D(std::string("diffexact.") + (crashed ? "crash" : bad ? "wrong" : "ok"));
    vh::P("differentiate_exact_operand", "measure.differentiate.exact_operand.crash", (crashed || bad) ? 1 : 0, 0);
}

static void replay() {
    static char buf[1 << 22];
    while (std::fgets(buf, sizeof buf, stdin)) {
        std::istringstream is(buf); std::string k, fn; is >> k >> fn;
        if (k != "I" || fn != "buf") continue;
        std::vector<double> v; std::string t; while (is >> t) v.push_back(vh::unhex(t));
        Measure_Delay_Buffer<Real> A, B; Measure_Delay_Buffer<Real>* cur = &A; Measure_Delay_Buffer<Real>* other = &B;
        vh::Line in = vh::I("buf"); for (double x : v) in.d(x); in.emit();
        std::vector<double> sizes, caps, vals;
        for (size_t q = 1; q + 3 < v.size() + 0 && q + 3 <= v.size(); q += 4) {
            int code = (int)v[q]; double x = v[q + 1], y = v[q + 2], z = v[q + 3];
            if (code == 1) cur->append(x, y, z);
            else if (code == 2) { if (cur->size() == 0 || x < cur->getEntryTime(0)) cur->prepend(x, y); }
            else if (code == 3) { other->copyInAndUpdate(*cur, x, y, z); std::swap(cur, other); }
            else if (code == 4) { Real r; cur->calcValueAtTimeLinearOnly(x, r); vals.push_back(r); }
            else cur->clear();
            sizes.push_back(cur->size()); caps.push_back(cur->capacity());
        }
        vh::Line os = vh::O("sizes"); for (double s : sizes) os.d(s); os.emit();
            vh::Line ov = vh::O("vals"); for (double s : vals) ov.d(s); ov.emit();
        vh::Line of = vh::O("final"); for (int i = 0; i < cur->size(); ++i) of.d(cur->getEntryTime(i)).d(cur->getEntryValue(i)); of.emit();
    }
}

int main(int argc, char** argv) {
    vh::Args args(argc, argv);
    if (args.mode == "replay") { replay(); return 0; }
    vh::Rng g(args.seed * 7919 + 23);
    bool big = args.n > 200;
    diffExactCase();
    for (long k = 0; k < args.n; ++k) {
        if (g.below(3) == 0) simCase(g, big); else bufCase(g, 5 + g.below(big ? 200 : 60));
    }
    return 0;
}
