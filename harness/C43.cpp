// C43 harness: Assembler (assemble / track, Markers, OrientationSensors, locks, bounds, prescribed motion, loop constraints),
// ObservedPointFitter, LocalEnergyMinimizer on random chains / trees with reachable targets.
//
//  I asm mode useRMS nRep nq tol initErr initGoal postErr postGoal threw ret finalErr finalGoal [kind lo hi qStart qEnd]*nq
//        mode 0 assemble / 1 track; kind 0 free, 1 locked-or-prescribed (must keep its value), 2 free with range [lo,hi]
//     -> O asm <ok 0/1> <returned goal> 1        model: the decision logic of Assembler::assemble()/track() (Assembler.cpp)
//        applied to the observed error/goal values must predict success/failure and the returned value bit-exactly, and the
//        exact-rational contract on the returned state (error <= tol, locked q unchanged, ranges respected, goal not worse
//        from a feasible start) must accept
//  I goal gw nM [w px py pz ox oy oz]*nM  -> O goal <gw * Markers goal>          (AssemblyCondition_Markers.cpp calcGoal)
//  I osgoal gw nS [w angle]*nS            -> O osgoal <gw * OrientationSensors goal>
//  I freeq nq nLocked [q]*nLocked nRanges [q lo hi]*   -> O freeq nFree [q lo hi]*nFree     (reinitializeWithExtraQsLocked)
//  I opf n [w px py pz tx ty tz]*n        -> O opf <returned weighted RMS>       (ObservedPointFitter::findBestFit)
#include "Simbody.h"
#include "hcommon.h"
#include <memory>
using namespace SimTK;

static Vec3 rvec(vh::Rng& g, double m) { return Vec3(g.range(-m, m), g.range(-m, m), g.range(-m, m)); }
static Rotation rrot(vh::Rng& g, double maxAngle) {
    Vec3 ax = rvec(g, 1); if (ax.norm() < 1e-3) ax = Vec3(0, 0, 1);
    return Rotation(g.range(-maxAngle, maxAngle), UnitVec3(ax));
}
static void putV(vh::Line& l, const Vec3& v) { l.d(v[0]).d(v[1]).d(v[2]); }
// identity of the case being generated: goes into every I record so that --mode replay rebuilds and RE-RUNS it
static long long gSeed = 1, gCase = 0;
static int gReached = 0;       // set when the case got as far as its result predicates (reported to the parent through the exit code)
static vh::Line Irec(const char* fn) { vh::Line l = vh::I(fn); l.i(gSeed).i(gCase); return l; }

struct Model {
    MultibodySystem system; SimbodyMatterSubsystem matter; GeneralForceSubsystem forces;
    std::vector<MobilizedBody> mob;          // mob[0] = ground
    std::vector<int> mtype;                  // 0 pin 1 slider 2 universal 3 ball 4 free
    Model() : matter(system), forces(system) {}
};

static void buildTree(vh::Rng& g, Model& M, int nb) {
    Body::Rigid body(MassProperties(1.0, Vec3(0.3, 0, 0), UnitInertia(0.3, 0.3, 0.3).shiftFromCentroid(Vec3(0.3, 0, 0))));
    M.mob.push_back(M.matter.Ground()); M.mtype.push_back(-1);
    for (int b = 0; b < nb; ++b) {
        int parent = (b == 0 || g.below(10) < 7) ? (int)M.mob.size() - 1 : g.below((int)M.mob.size());
        Transform X_PF(rrot(g, 0.6), parent == 0 ? rvec(g, 0.3) : Vec3(1, 0, 0) + rvec(g, 0.2));
        Transform X_BM(rrot(g, 0.3), Vec3(0));
        int t = g.below(10);
        int type = t < 4 ? 0 : t < 5 ? 1 : t < 7 ? 2 : t < 9 ? 3 : (b == 0 ? 4 : 0);
        MobilizedBody mb;
        switch (type) {
            case 0: mb = MobilizedBody::Pin(M.mob[parent], X_PF, body, X_BM); break;
            case 1: mb = MobilizedBody::Slider(M.mob[parent], X_PF, body, X_BM); break;
            case 2: mb = MobilizedBody::Universal(M.mob[parent], X_PF, body, X_BM); break;
            case 3: mb = MobilizedBody::Ball(M.mob[parent], X_PF, body, X_BM); break;
            default: mb = MobilizedBody::Free(M.mob[parent], X_PF, body, X_BM); break;
        }
        M.mob.push_back(mb); M.mtype.push_back(type);
    }
}

// A goal whose analytic gradient has the wrong sign: the line search of the optimizer then ends on a worse point (or throws
// after moving the parameters); assemble() started within tolerance must notice and revert to the initial solution.
struct HostileGoal : public AssemblyCondition {
    Vector c;
    explicit HostileGoal(const Vector& target) : AssemblyCondition("hostile"), c(target) {}
    int calcGoal(const State& s, Real& goal) const override {
        goal = 0; for (Assembler::FreeQIndex fx(0); fx < getNumFreeQs(); ++fx) { QIndex qx = getQIndexOfFreeQ(fx); goal += square(s.getQ()[qx] - c[qx]); }
        return 0; }
    int calcGoalGradient(const State& s, Vector& grad) const override {
        grad.resize(getNumFreeQs());
        for (Assembler::FreeQIndex fx(0); fx < getNumFreeQs(); ++fx) { QIndex qx = getQIndexOfFreeQ(fx); grad[fx] = -2 * (s.getQ()[qx] - c[qx]); }   // wrong sign
        return 0; }
};

struct Rep : public EventReporter {
    const Assembler* a = nullptr; mutable std::vector<std::pair<double, double> > seen;
    void handleEvent(const State&) const override { seen.push_back({a->calcCurrentErrorNorm(), a->calcCurrentGoal()}); }
};

static void freeqRecord(const Assembler& asmb, const State& s, const std::vector<int>& lockedList, const std::vector<std::array<double, 3> >& ranges) {
    int nq = s.getNQ();
    vh::Line in = Irec("freeq"); in.i(nq).i((long)lockedList.size());
    for (int q : lockedList) in.i(q);
    in.i((long)ranges.size());
    for (auto& r : ranges) { in.i((long)r[0]); in.d(r[1]).d(r[2]); }
    in.emit();
    vh::Line out = vh::O("freeq"); out.i(asmb.getNumFreeQs());
    for (Assembler::FreeQIndex fx(0); fx < asmb.getNumFreeQs(); ++fx) { Vec2 b = asmb.getFreeQBounds(fx); out.i((int)asmb.getQIndexOfFreeQ(fx)); out.d(b[0]).d(b[1]); }
    out.emit();
    // inverse map consistent
    int bad = 0;
    for (QIndex qx(0); qx < nq; ++qx) { Assembler::FreeQIndex fx = asmb.getFreeQIndexOfQ(qx); if (fx.isValid() && asmb.getQIndexOfFreeQ(fx) != qx) ++bad; }
    vh::P("freeq_maps_inverse", "freeq.inverse", bad, 0);
    vh::D("freeq");
}

static int asmCase(vh::Rng& g, bool thorough) {
    Model M; int nb = 2 + g.below(thorough ? 5 : 4);
    buildTree(g, M, nb);
    // prescribed motion on a pin/slider (sinusoid in position)
    int presBody = -1; double presA = 0, presPhi = 0;
    // dedicated class (review C43-M1): loop constraint satisfied at a state whose prescribed q is OFF its prescribed value, start =
    // that state (feasible), goal with a wrong-sign gradient so that the optimizer tends to return a worse goal -> revert branch
    // after prescribeQ has already moved the prescribed q
    const bool revertPres = g.below(12) == 0;
    if (revertPres || g.below(6) == 0) for (int b = 1; b <= nb; ++b) if (M.mtype[b] <= 1) { presBody = b; break; }
    const double presOffVal = g.signedMag(0.1, 0.4);
    if (presBody > 0) { presA = g.range(0.2, 0.6); presPhi = g.range(-1, 1); Motion::Sinusoid(M.mob[presBody], Motion::Position, presA, 1.3, presPhi); }
    M.system.realizeTopology();
    State ref = M.system.getDefaultState();
    M.matter.setUseEulerAngles(ref, true); M.system.realizeModel(ref);
    const int nq = ref.getNQ();
    for (int i = 0; i < nq; ++i) ref.updQ()[i] = g.range(-0.7, 0.7);
    const bool special = revertPres && presBody > 0;
    if (presBody > 0) ref.updQ()[(int)M.mob[presBody].getFirstQIndex(ref)] = presA * std::sin(presPhi) + (special ? presOffVal : 0.0);
    M.system.realize(ref, Stage::Position);
    // loop constraint satisfied at the reference configuration
    bool loop = nb >= 2 && (special || g.below(10) < 4); std::string tag;
    if (loop) {
        int b = nb; Vec3 st = rvec(g, 0.4); Vec3 pG = M.mob[b].findStationLocationInGround(ref, st);
        int other = g.below(3) == 0 && nb >= 3 ? 1 : 0;
        if (g.coin()) { Vec3 stO = M.mob[other].findStationAtGroundPoint(ref, pG); Constraint::Ball(M.mob[other], stO, M.mob[b], st); tag += "ball"; }
        else { Vec3 stO = M.mob[other].findStationAtGroundPoint(ref, pG + Vec3(0.3, 0.4, 0)); Constraint::Rod(M.mob[other], stO, M.mob[b], st, 0.5); tag += "rod"; }
        M.system.realizeTopology();
        State ref2 = M.system.getDefaultState(); M.matter.setUseEulerAngles(ref2, true); M.system.realizeModel(ref2);
        ref2.updQ() = ref.getQ(); ref = ref2; M.system.realize(ref, Stage::Position);
    } else tag += "tree";
    // conditions
    Assembler asmb(M.system);
    double tol = (g.below(3) == 0) ? 1e-4 : (g.coin() ? 1e-6 : 1e-8);
    asmb.setErrorTolerance(tol);
    bool tightAcc = g.coin();
    if (g.below(5) == 0) asmb.setUseRMSErrorNorm(true);
    bool exact = true;
    const bool hostile = special || g.below(8) == 0;
    Markers* markers = nullptr; OrientationSensors* osens = nullptr; double gwM = 1, gwO = 1;
    std::vector<std::tuple<int, Vec3, double> > mk; Array_<Vec3> obs;
    if (!hostile && g.below(10) < 8) {
        markers = new Markers();
        bool noisy = g.below(4) == 0; if (noisy) exact = false;
        for (int b = 1; b <= nb; ++b) if (g.below(10) < 7) { int k = 1 + g.below(3);
            for (int j = 0; j < k; ++j) { Vec3 st = rvec(g, 0.5); double w = g.below(10) == 0 ? 0.0 : (g.coin() ? 1.0 : g.range(0.2, 3));
                markers->addMarker(M.mob[b].getMobilizedBodyIndex(), st, w); mk.push_back({b, st, w});
                Vec3 o = M.mob[b].findStationLocationInGround(ref, st); if (noisy) o += rvec(g, 0.05);
                if (g.below(25) == 0) o = Vec3(NaN);      // an observation that is to be ignored
                obs.push_back(o); } }
        if (mk.empty()) { delete markers; markers = nullptr; }
        else { gwM = g.coin() ? 1.0 : g.range(0.5, 4); asmb.adoptAssemblyGoal(markers, gwM); tag += ".markers"; }
    }
    std::vector<std::tuple<int, Rotation, double> > os; Array_<Rotation> oobs;
    if (!hostile && g.below(10) < 3) {
        osens = new OrientationSensors();
        for (int b = 1; b <= nb; ++b) if (g.coin()) { Rotation R_BS = rrot(g, 2.0); double w = g.coin() ? 1.0 : g.range(0.2, 3);
            osens->addOSensor(M.mob[b].getMobilizedBodyIndex(), R_BS, w); os.push_back({b, R_BS, w});
            oobs.push_back(M.mob[b].getBodyRotation(ref) * R_BS); }
        if (os.empty()) { delete osens; osens = nullptr; }
        else { gwO = g.coin() ? 1.0 : g.range(0.5, 4); asmb.adoptAssemblyGoal(osens, gwO); tag += ".osensors"; }
    }
    Vector hostileTarget = ref.getQ(); if (hostile) for (int i = 0; i < nq; ++i) hostileTarget[i] += g.range(-0.3, 0.3);
    if (hostile) { asmb.adoptAssemblyGoal(new HostileGoal(hostileTarget), 1.0); tag += ".hostileGradient"; exact = false; }
    // start state
    State start = ref; double pert = (g.below(5) == 0 || (hostile && loop)) ? 0.0 : g.range(0.02, 0.35);
    for (int i = 0; i < nq; ++i) start.updQ()[i] = ref.getQ()[i] + g.range(-pert, pert);
    // the incoming state need not have the prescribed q at its prescribed value: assemble() must put it there (prescribeQ)
    const bool presOff = presBody > 0 && (special || g.coin());
    if (presBody > 0) start.updQ()[(int)M.mob[presBody].getFirstQIndex(ref)] = presA * std::sin(presPhi) + (presOff ? presOffVal : 0.0);
    if (special) tag += ".revertPrescribedClass";
    std::vector<double> expectQ(nq, NaN);       // value a locked / prescribed q must have afterwards
    // locks and ranges
    std::vector<int> kind(nq, 0); std::vector<double> lo(nq, -Infinity), hi(nq, Infinity);
    std::vector<int> lockedList; std::vector<std::array<double, 3> > ranges;
    if (presBody > 0) { int q0 = (int)M.mob[presBody].getFirstQIndex(ref); kind[q0] = 1; lockedList.push_back(q0); tag += presOff ? ".prescribedOff" : ".prescribed"; expectQ[q0] = presA * std::sin(presPhi); }
    if (!special && g.below(10) < 3) { int b = 1 + g.below(nb); bool keepRef = g.coin();
        asmb.lockMobilizer(M.mob[b].getMobilizedBodyIndex());
        int q0 = (int)M.mob[b].getFirstQIndex(ref), n = M.mob[b].getNumQ(ref);
        for (int i = 0; i < n; ++i) { if (kind[q0 + i] != 1) lockedList.push_back(q0 + i); kind[q0 + i] = 1; if (keepRef) start.updQ()[q0 + i] = ref.getQ()[q0 + i]; else if (pert > 0) exact = false; }
        tag += ".lockMobod"; }
    if (g.below(10) < 2) { int b = 1 + g.below(nb); int n = M.mob[b].getNumQ(ref); int qi = g.below(n); int q0 = (int)M.mob[b].getFirstQIndex(ref);
        asmb.lockQ(M.mob[b].getMobilizedBodyIndex(), MobilizerQIndex(qi));
        if (kind[q0 + qi] != 1) lockedList.push_back(q0 + qi);
        kind[q0 + qi] = 1; start.updQ()[q0 + qi] = ref.getQ()[q0 + qi]; tag += ".lockQ"; }
    if (g.below(10) < 3) { int b = 1 + g.below(nb); int n = M.mob[b].getNumQ(ref); int qi = g.below(n); int q = (int)M.mob[b].getFirstQIndex(ref) + qi;
        double a = std::min(ref.getQ()[q], start.getQ()[q]), c = std::max(ref.getQ()[q], start.getQ()[q]);
        bool excl = g.below(3) == 0 && c - a > 0.02;       // range that excludes the reference value: the goal cannot reach zero
        double l = excl ? (start.getQ()[q] < ref.getQ()[q] ? a - 0.2 : (a + c) / 2) : a - 0.1, h = excl ? (start.getQ()[q] < ref.getQ()[q] ? (a + c) / 2 : c + 0.2) : c + 0.1;
        asmb.restrictQ(M.mob[b].getMobilizedBodyIndex(), MobilizerQIndex(qi), l, h);
        ranges.push_back({(double)q, l, h});
        if (kind[q] == 0) { kind[q] = 2; lo[q] = l; hi[q] = h; if (excl) exact = false; }
        tag += excl ? ".rangeExcl" : ".range"; }
    std::sort(lockedList.begin(), lockedList.end());
    if (exact) tightAcc = true;      // the exact-goal claim is always made at accuracy 1e-6 (1e-7 on the goal), never at the loose default
    if (tightAcc) asmb.setAccuracy(1e-6);
    int mode = (hostile || presOff || g.below(10) < 7) ? 0 : 1;
    Rep rep; rep.a = &asmb; asmb.addReporter(rep);
    try {
        asmb.setInternalState(start);
        if (markers) markers->moveAllObservations(obs);          // (needs the default observation order: set after initialize)
    } catch (const std::exception&) {}
    double initErr = NaN, initGoal = NaN, ret = NaN, finalErr = NaN, finalGoal = NaN; bool threw = false;
    State out = start;
    try {
        asmb.initialize();
        if (markers) markers->moveAllObservations(obs);
        if (osens) osens->moveAllObservations(oobs);
        initErr = asmb.calcCurrentErrorNorm(); initGoal = asmb.calcCurrentGoal();
        freeqRecord(asmb, start, lockedList, ranges);
        rep.seen.clear();
        try { ret = mode == 0 ? asmb.assemble() : asmb.track(); } catch (const std::exception&) { threw = true; }
        std::vector<std::pair<double, double> > seen = rep.seen;
        finalErr = asmb.calcCurrentErrorNorm(); finalGoal = asmb.calcCurrentGoal();
        asmb.updateFromInternalState(out);
        // what the decision logic saw after the optimizer: the last report (made right after the optimizer's result was put
        // into the internal state, before any revert), or, when an exception left early, the state left in the Assembler
        std::pair<double, double> post = (threw || seen.empty()) ? std::make_pair(finalErr, finalGoal) : seen.back();
        vh::Line in = Irec("asm"); in.i(mode).i(asmb.isUsingRMSErrorNorm()).i((long)seen.size()).i(nq).d(tol).d(initErr).d(initGoal);
        in.d(post.first).d(post.second);
        in.i(threw).d(threw ? 0.0 : ret).d(finalErr).d(finalGoal);
        for (int i = 0; i < nq; ++i) in.i(kind[i]).d(lo[i]).d(hi[i]).d(kind[i] == 1 && !std::isnan(expectQ[i]) ? expectQ[i] : start.getQ()[i]).d(out.getQ()[i]);
        in.emit();
        std::printf("T 0 0\n");       // the decision logic is exact: the returned goal must agree to the bit
        vh::Line o = vh::O("asm"); o.i(threw ? 0 : 1).d(threw ? 0.0 : ret).i(1); o.emit();
        const std::string key = std::string(mode == 0 ? "assemble" : "track");
        const bool reverted = !threw && mode == 0 && seen.size() > 1 && initErr <= tol && post.second > initGoal;
        if (reverted) vh::D("assemble.REVERTED");
        vh::D(key + "." + tag + (threw ? ".FAILED" : ".ok") + (exact ? ".exact" : ".inexact"));
        if (!threw) gReached = 1;
        if (!threw) {
            // --- the property's predicates on the returned state, recomputed independently of the Assembler
            M.system.realize(out, Stage::Position);
            double qerr = 0; for (int i = 0; i < out.getNQErr(); ++i) qerr = std::max(qerr, std::fabs(out.getQErr()[i]));
            if (asmb.isUsingRMSErrorNorm() && out.getNQErr() > 0) { double s2 = 0; for (int i = 0; i < out.getNQErr(); ++i) s2 += square(out.getQErr()[i]); qerr = std::sqrt(s2 / out.getNQErr()); }
            vh::P("constraints_within_tolerance", (reverted && presOff) ? std::string("assemble.revert.prescribed.qerr") : key + ".qerr", qerr, tol * (1 + 1e-9));
            double lockDev = 0, rangeDev = 0;
            for (int i = 0; i < nq; ++i) { if (kind[i] == 1) lockDev = std::max(lockDev, std::fabs(out.getQ()[i] - (std::isnan(expectQ[i]) ? start.getQ()[i] : expectQ[i])));
                                           if (kind[i] == 2) rangeDev = std::max(rangeDev, std::max(lo[i] - out.getQ()[i], out.getQ()[i] - hi[i])); }
            // a short circuit returns before prescribeQ: with the incoming prescribed q off its value, success is reported with the
            // prescribed motion unsatisfied (own key)
            const bool shortCircuit = seen.size() == 1 && mode == 0;
            vh::P("locked_and_prescribed_q_unchanged", (presOff && shortCircuit) ? std::string("assemble.shortcircuit.prescribed") : key + ".locked", lockDev, 0);
            vh::P("q_ranges_respected", key + ".range", rangeDev, 1.0000001e-8);     // IPOPT / L-BFGS-B keep iterates within the (1e-8 relaxed) limits
            vh::P("returned_goal_is_goal_of_state", key + ".goaltruth", std::fabs(ret - finalGoal), 0);
            if (initErr <= tol) vh::P("goal_not_worse_than_start", key + ".notworse", ret - initGoal, mode == 0 ? 0.0 : 1e-12 * (1 + initGoal));
            // a local optimizer reaches the exactly achievable goal only from a nearby start (measured: from perturbations up to
            // 0.35 rad 4 of 379 runs end in another local minimum / closure branch); the claim is made for starts within 0.12
            if (exact && (markers || osens)) { if (pert <= 0.12) vh::P("exact_goal_reaches_zero", key + (loop ? ".loop" : ".tree") + ".exactgoal", ret, tightAcc ? 1e-7 : 1e-4);
                                               else vh::D(key + ".exactgoal.farStart.reached=" + (ret <= 1e-4 ? "yes" : "no")); }
            // goal algebra records at the returned state
            if (markers) { vh::Line gi = Irec("goal"); gi.d(gwM); int n = 0; for (size_t i = 0; i < mk.size(); ++i) if (std::get<2>(mk[i]) > 0) ++n; gi.i(n);
                for (size_t i = 0; i < mk.size(); ++i) { if (!(std::get<2>(mk[i]) > 0)) continue; gi.d(std::get<2>(mk[i])); putV(gi, M.mob[std::get<0>(mk[i])].findStationLocationInGround(out, std::get<1>(mk[i]))); putV(gi, obs[(int)i]); }
                gi.emit(); Real gv; markers->calcGoal(asmb.getInternalState(), gv); vh::O("goal").d(gwM * gv).emit(); vh::D("goal.markers");
                vh::P("markers_goal_nonnegative", "goal.nonneg", -gv, 0); }
            if (osens) { vh::Line gi = Irec("osgoal"); gi.d(gwO).i((long)os.size());
                for (size_t i = 0; i < os.size(); ++i) { Rotation R_GS = M.mob[std::get<0>(os[i])].getBodyRotation(out) * std::get<1>(os[i]); Rotation R_SO = ~R_GS * oobs[(int)i];
                    gi.d(std::get<2>(os[i])).d(R_SO.convertRotationToAngleAxis()[0]); }
                gi.emit(); Real gv; osens->calcGoal(asmb.getInternalState(), gv); vh::O("osgoal").d(gwO * gv).emit(); vh::D("goal.osensors"); }
        }
    } catch (const std::exception& e) { vh::D(std::string("asm.setupEXC")); std::string w = e.what(); for (auto& c : w) if (c == '\n') c = ' '; std::printf("# setupEXC %s\n", w.substr(0, 300).c_str()); }
    return 0;
}

// ---------------------------------------------------------------------------------------------------------------------
// Coordinate-bounds classes (restrictQ on 0, 1, 2, 3+ different mobilized bodies x {all free, a bounded q locked, a bounded
// mobilizer fully locked, a bound added then removed with unrestrictQ} x marker target {inside all boxes, outside the box of
// the lowest-index / a middle / the highest-index restricted mobilizer}).  Markers come from a reachable configuration that
// lies OUTSIDE the chosen box, so that bound is active at the solution.  assemble(), then track() after moving the target.
static int boundsCase(vh::Rng& g, int nRclass, int whichReq, int variant) {
    Model M; const int nb = 4 + g.below(2);
    buildTree(g, M, nb);
    M.system.realizeTopology();
    State start = M.system.getDefaultState(); M.matter.setUseEulerAngles(start, true); M.system.realizeModel(start);
    const int nq = start.getNQ();
    for (int i = 0; i < nq; ++i) start.updQ()[i] = g.range(-0.4, 0.4);
    M.system.realize(start, Stage::Position);
    // restricted mobilizers: nRclass 0,1,2,3 (3 = three or more)
    int nR = nRclass < 3 ? nRclass : std::min(nb, 3 + g.below(2));
    std::vector<int> bodies; for (int b = 1; b <= nb; ++b) bodies.push_back(b);
    for (int i = (int)bodies.size() - 1; i > 0; --i) std::swap(bodies[i], bodies[g.below(i + 1)]);
    std::vector<int> rb(bodies.begin(), bodies.begin() + nR); std::sort(rb.begin(), rb.end());     // ascending mobilized body index
    Assembler asmb(M.system); const double tol = 1e-6; asmb.setErrorTolerance(tol); asmb.setAccuracy(1e-6);
    std::vector<int> kind(nq, 0); std::vector<double> lo(nq, -Infinity), hi(nq, Infinity);
    std::vector<int> lockedList; std::vector<std::array<double, 3> > ranges;
    std::vector<std::vector<int> > boundedQ(nR);
    for (int r = 0; r < nR; ++r) { const MobilizedBody& mb = M.mob[rb[r]]; int n = mb.getNumQ(start), q0 = (int)mb.getFirstQIndex(start);
        int cnt = 1 + (n > 1 && g.coin() ? 1 : 0);
        for (int c = 0; c < cnt; ++c) { int qi = c == 0 ? g.below(n) : (boundedQ[r][0] - q0 + 1) % n; int q = q0 + qi;
            double l = start.getQ()[q] - g.range(0.05, 0.2), h = start.getQ()[q] + g.range(0.05, 0.2);
            asmb.restrictQ(mb.getMobilizedBodyIndex(), MobilizerQIndex(qi), l, h);
            kind[q] = 2; lo[q] = l; hi[q] = h; boundedQ[r].push_back(q); } }
    static const char* vname[] = {"allFree", "boundedQLocked", "boundedMobodLocked", "unrestricted"};
    if (nR == 0 && (variant == 1 || variant == 2)) variant = 0;
    if (variant == 1) { int r = g.below(nR); int q = boundedQ[r][0]; const MobilizedBody& mb = M.mob[rb[r]];
        asmb.lockQ(mb.getMobilizedBodyIndex(), MobilizerQIndex(q - (int)mb.getFirstQIndex(start))); kind[q] = 1; lockedList.push_back(q); }
    if (variant == 2) { int r = g.below(nR); const MobilizedBody& mb = M.mob[rb[r]]; asmb.lockMobilizer(mb.getMobilizedBodyIndex());
        int q0 = (int)mb.getFirstQIndex(start); for (int i = 0; i < mb.getNumQ(start); ++i) { kind[q0 + i] = 1; lockedList.push_back(q0 + i); } }
    if (variant == 3) {   // a bound on one more q, then removed again
        int b = bodies[nR % (int)bodies.size()]; const MobilizedBody& mb = M.mob[b]; int qi = g.below(mb.getNumQ(start));
        int q = (int)mb.getFirstQIndex(start) + qi;
        if (kind[q] == 0) { asmb.restrictQ(mb.getMobilizedBodyIndex(), MobilizerQIndex(qi), start.getQ()[q] - 0.01, start.getQ()[q] + 0.01);
                            asmb.unrestrictQ(mb.getMobilizedBodyIndex(), MobilizerQIndex(qi)); } }
    for (int q = 0; q < nq; ++q) if (kind[q] == 2 || (lo[q] > -Infinity)) ranges.push_back({(double)q, lo[q], hi[q]});
    std::sort(lockedList.begin(), lockedList.end());
    // which restricted mobilizer the target leaves the box of
    int which = nR == 0 ? 0 : whichReq; if (which == 2 && nR < 3) which = 1;
    static const char* wname[] = {"inside", "lowest", "middle", "highest"};
    int rOut = which == 0 ? -1 : which == 1 ? 0 : which == 3 ? nR - 1 : 1 + g.below(nR - 2);
    auto makeTarget = [&](double push) { State t = start;
        for (int q = 0; q < nq; ++q) { if (kind[q] == 1) continue;
            if (lo[q] > -Infinity) t.updQ()[q] = lo[q] + (hi[q] - lo[q]) * g.range(0.2, 0.8); else t.updQ()[q] = start.getQ()[q] + g.range(-0.15, 0.15); }
        if (rOut >= 0) for (int q : boundedQ[rOut]) if (kind[q] == 2) t.updQ()[q] = g.coin() ? hi[q] + push : lo[q] - push;
        M.system.realize(t, Stage::Position); return t; };
    Markers* markers = new Markers(); std::vector<std::pair<int, Vec3> > mk;
    for (int b = 1; b <= nb; ++b) for (int j = 0; j < 3; ++j) { Vec3 st = rvec(g, 0.5); markers->addMarker(M.mob[b].getMobilizedBodyIndex(), st, 1.0); mk.push_back({b, st}); }
    asmb.adoptAssemblyGoal(markers);
    const std::string cls = std::string("bounds.") + (nRclass < 3 ? std::to_string(nRclass) : std::string("3plus")) + "." + wname[which];
    Rep rep; rep.a = &asmb; asmb.addReporter(rep);
    try {
        asmb.setInternalState(start); asmb.initialize();
        freeqRecord(asmb, start, lockedList, ranges);
        State cur = start;
        for (int mode = 0; mode < 2; ++mode) {             // assemble(), then track() towards a moved target
            State target = makeTarget(mode == 0 ? g.range(0.2, 0.4) : g.range(0.1, 0.3));
            Array_<Vec3> obs; for (auto& m : mk) obs.push_back(M.mob[m.first].findStationLocationInGround(target, m.second));
            markers->moveAllObservations(obs);
            double initErr = asmb.calcCurrentErrorNorm(), initGoal = asmb.calcCurrentGoal(), ret = NaN; bool threw = false;
            rep.seen.clear();
            try { ret = mode == 0 ? asmb.assemble() : asmb.track(); } catch (const std::exception&) { threw = true; }
            std::vector<std::pair<double, double> > seen = rep.seen;
            double finalErr = asmb.calcCurrentErrorNorm(), finalGoal = asmb.calcCurrentGoal();
            State out = cur; asmb.updateFromInternalState(out);
            std::pair<double, double> post = (threw || seen.empty()) ? std::make_pair(finalErr, finalGoal) : seen.back();
            vh::Line in = Irec("asm"); in.i(mode).i(0).i((long)seen.size()).i(nq).d(tol).d(initErr).d(initGoal).d(post.first).d(post.second);
            in.i(threw).d(threw ? 0.0 : ret).d(finalErr).d(finalGoal);
            for (int i = 0; i < nq; ++i) in.i(kind[i]).d(lo[i]).d(hi[i]).d(cur.getQ()[i]).d(out.getQ()[i]);
            in.emit(); std::printf("T 0 0\n");
            vh::Line o = vh::O("asm"); o.i(threw ? 0 : 1).d(threw ? 0.0 : ret).i(1); o.emit();
            const std::string key = std::string(mode == 0 ? "assemble." : "track.") + cls;
            vh::D(key + "." + vname[variant] + (threw ? ".FAILED" : ".ok"));
            if (threw) break;
            if (mode == 0) gReached = 1;
            double rangeDev = 0, lockDev = 0; bool active = false;
            for (int i = 0; i < nq; ++i) { if (kind[i] == 2) { rangeDev = std::max(rangeDev, std::max(lo[i] - out.getQ()[i], out.getQ()[i] - hi[i]));
                                                               if (std::min(out.getQ()[i] - lo[i], hi[i] - out.getQ()[i]) < 1e-5) active = true; }
                                           if (kind[i] == 1) lockDev = std::max(lockDev, std::fabs(out.getQ()[i] - start.getQ()[i])); }
            if (which > 0) vh::D(key + (active ? ".boundActive" : ".boundNotActive"));
            vh::P("restricted_q_within_bounds", key + ".respected", rangeDev, 1.0000001e-8);
            vh::P("locked_q_unchanged", key + ".locked", lockDev, 0);
            vh::P("returned_goal_is_goal_of_state", key + ".goaltruth", std::fabs(ret - finalGoal), 0);
            vh::P("goal_not_worse_than_start", key + ".notworse", ret - initGoal, mode == 0 ? 0.0 : 1e-12 * (1 + initGoal));
            if (which == 0 && variant != 1 && variant != 2) vh::P("exact_goal_reaches_zero", key + ".exactgoal", ret, 1e-7);
            cur = out;
        }
    } catch (const std::exception& e) { vh::D("bounds.setupEXC"); }
    return 0;
}

// loop constraint (ball or rod) satisfied at `ref`; returns the re-realized reference state of the changed system
static State addLoop(vh::Rng& g, Model& M, int nb, const State& ref, std::string& tag) {
    int b = nb; Vec3 st = rvec(g, 0.4); Vec3 pG = M.mob[b].findStationLocationInGround(ref, st);
    if (g.coin()) { Constraint::Ball(M.mob[0], pG, M.mob[b], st); tag += ".ball"; }
    else { Constraint::Rod(M.mob[0], pG + Vec3(0.3, 0.4, 0), M.mob[b], st, 0.5); tag += ".rod"; }
    M.system.realizeTopology();
    State r2 = M.system.getDefaultState(); M.matter.setUseEulerAngles(r2, true); M.system.realizeModel(r2);
    r2.updQ() = ref.getQ(); M.system.realize(r2, Stage::Position);
    return r2;
}
static double qerrInf(const Model& M, State& s) { M.system.realize(s, Stage::Position); double e = 0; for (int i = 0; i < s.getNQErr(); ++i) e = std::max(e, std::fabs(s.getQErr()[i])); return e; }

static int opfCase(vh::Rng& g) {
    Model M; int nb = 2 + g.below(3); buildTree(g, M, nb);
    M.system.realizeTopology();
    State tmp = M.system.getDefaultState(); M.matter.setUseEulerAngles(tmp, true); M.system.realizeModel(tmp);
    for (int i = 0; i < tmp.getNQ(); ++i) tmp.updQ()[i] = g.range(-0.6, 0.6);
    M.system.realize(tmp, Stage::Position);
    std::string tag = "opf";
    const bool loop = g.below(10) < 4; if (loop) tmp = addLoop(g, M, nb, tmp, tag);
    Array_<MobilizedBodyIndex> ix; Array_<Array_<Vec3> > st, tg; Array_<Array_<Real> > wt;
    bool noisy = g.below(3) == 0;
    for (int b = 1; b <= nb; ++b) { ix.push_back(M.mob[b].getMobilizedBodyIndex()); Array_<Vec3> s, t; Array_<Real> w; int k = 3 + g.below(2);
        for (int j = 0; j < k; ++j) { Vec3 p = rvec(g, 0.5); s.push_back(p); Vec3 o = M.mob[b].findStationLocationInGround(tmp, p); if (noisy) o += rvec(g, 0.03); t.push_back(o); w.push_back(g.coin() ? 1.0 : g.range(0.3, 2)); }
        st.push_back(s); tg.push_back(t); wt.push_back(w); }
    // start near the reference for loop systems (the fitter is a local method), at the default configuration for trees
    State s = tmp; if (!loop) { s = M.system.getDefaultState(); M.matter.setUseEulerAngles(s, true); M.system.realizeModel(s); }
    else for (int i = 0; i < s.getNQ(); ++i) s.updQ()[i] += g.range(-0.05, 0.05);
    // a mobilizer locked in the state (Motion lock): "locked coordinates keep their values"
    int lockB = g.below(10) < 3 ? 1 + g.below(nb) : -1; Vector qLocked;
    if (lockB > 0) { s.updQ()(M.mob[lockB].getFirstQIndex(s), M.mob[lockB].getNumQ(s)) = tmp.getQ()(M.mob[lockB].getFirstQIndex(s), M.mob[lockB].getNumQ(s));
                     M.mob[lockB].lock(s); qLocked = M.mob[lockB].getQAsVector(s); tag += ".lockedMobod"; }
    try {
        double tolr = 1e-6;
        double r = ObservedPointFitter::findBestFit(M.system, s, ix, st, tg, wt, tolr);
        M.system.realize(s, Stage::Position);
        vh::Line in = Irec("opf"); int n = 0; for (auto& a : st) n += a.size(); in.i(n);
        double sw = 0, swd = 0;
        for (int i = 0; i < (int)ix.size(); ++i) for (int j = 0; j < (int)st[i].size(); ++j) { Vec3 p = M.matter.getMobilizedBody(ix[i]).findStationLocationInGround(s, st[i][j]);
            in.d(wt[i][j]); putV(in, p); putV(in, tg[i][j]); sw += wt[i][j]; swd += wt[i][j] * (p - tg[i][j]).normSqr(); }
        in.emit();
        std::printf("T 1e-6 2e-7\n");       // the implementation returns sqrt((x+1)-1): absolute accuracy ~ sqrt(eps)
        vh::O("opf").d(r).emit();
        vh::D(tag + (noisy ? ".noisy" : ".exact")); gReached = 1;
        vh::P("returned_error_is_rms_of_state", "opf.truth", std::fabs(r - std::sqrt(swd / sw)), 2e-7);
        if (!noisy && lockB < 0) vh::P("exact_targets_fit", loop ? "opf.loop.exact" : "opf.exact", r, 1e-3);
        if (loop) vh::P("constraints_within_tolerance", "opf.qerr", qerrInf(M, s), 1.000001e-4);     // Optimizer default constraint tolerance
        if (lockB > 0) { Vector q1 = M.mob[lockB].getQAsVector(s); double dev = 0; for (int i = 0; i < q1.size(); ++i) dev = std::max(dev, std::fabs(q1[i] - qLocked[i]));
                         vh::P("locked_q_unchanged", "opf.locked", dev, 0); }
    } catch (const std::exception&) { vh::D(tag + ".EXC"); }
    return 0;
}

static int lemCase(vh::Rng& g) {
    Model M; int nb = 2 + g.below(3); buildTree(g, M, nb);
    Force::UniformGravity(M.forces, M.matter, Vec3(0, -9.8, 0));
    for (int b = 1; b <= nb; ++b) { Force::TwoPointLinearSpring(M.forces, M.mob[0], rvec(g, 1), M.mob[b], rvec(g, 0.3), g.range(20, 100), g.range(0, 0.5)); }
    M.system.realizeTopology();
    State s = M.system.getDefaultState();
    M.matter.setUseEulerAngles(s, true); M.system.realizeModel(s);
    for (int i = 0; i < s.getNQ(); ++i) s.updQ()[i] = g.range(-0.5, 0.5);
    M.system.realize(s, Stage::Position);
    std::string tag = "lem";
    const bool loop = g.below(10) < 4; if (loop) s = addLoop(g, M, nb, s, tag);      // the start satisfies the loop constraint
    int lockB = g.below(10) < 3 ? 1 + g.below(nb) : -1; Vector qLocked;
    if (lockB > 0) { M.mob[lockB].lock(s); qLocked = M.mob[lockB].getQAsVector(s); tag += ".lockedMobod"; }
    M.system.realize(s, Stage::Dynamics);
    double pe0 = M.system.calcPotentialEnergy(s);
    try {
        LocalEnergyMinimizer::minimizeEnergy(M.system, s, 1e-4);
        M.system.realize(s, Stage::Dynamics);
        double pe1 = M.system.calcPotentialEnergy(s);
        Irec("lem").i(loop).d(pe0).d(pe1).emit(); vh::O("lem").i(1).emit();
        vh::D(tag + ".ok"); gReached = 1;
        vh::P("energy_not_increased", loop ? "lem.loop.pe" : "lem.pe", pe1 - pe0, (loop ? 1e-6 : 1e-12) * (1 + std::fabs(pe0)));
        if (loop) vh::P("constraints_within_tolerance", "lem.qerr", qerrInf(M, s), 1.000001e-4);
        if (lockB > 0) { Vector q1 = M.mob[lockB].getQAsVector(s); double dev = 0; for (int i = 0; i < q1.size(); ++i) dev = std::max(dev, std::fabs(q1[i] - qLocked[i]));
                         vh::P("locked_q_unchanged", "lem.locked", dev, 0); }
    } catch (const std::exception&) { vh::D(tag + ".EXC"); }
    return 0;
}

// Markers whose every observation is NaN ("ignored"): documented as skipped; calcGoal then divides 0 by 0
static int nanCase() {
    Model M; vh::Rng g(7); buildTree(g, M, 2); M.system.realizeTopology();
    State s = M.system.getDefaultState(); M.system.realizeModel(s);
    Assembler asmb(M.system); Markers* mk = new Markers(); mk->addMarker(M.mob[1].getMobilizedBodyIndex(), Vec3(0.1, 0, 0), 1.0);
    asmb.adoptAssemblyGoal(mk); asmb.setInternalState(s); asmb.initialize();
    Array_<Vec3> obs; obs.push_back(Vec3(NaN)); mk->moveAllObservations(obs);
    double bad = 0; try { double gv = asmb.calcCurrentGoal(); if (!(gv >= 0)) bad = 1; } catch (const std::exception&) { bad = 1; }
    Irec("lem").i(0).d(0.0).d(0.0).emit(); vh::O("lem").i(1).emit(); vh::D("markers.allNaN"); gReached = 1;
    vh::P("all_observations_ignored_goal_is_finite", "markers.allNaN.goal", bad, 0);
    return 0;
}

// every case runs in a forked child with a time limit: an Assembler run that sends IPOPT through its 3000 iterations
// (about a minute) is not a property violation, it just may not eat the quick tier's budget.  The child's exit code tells
// the parent whether the case reached its result predicates (floors, X1).
#include <sys/wait.h>
#include <unistd.h>
#include <signal.h>
static long gTot[6] = {0, 0, 0, 0, 0, 0}, gGot[6] = {0, 0, 0, 0, 0, 0}, gTimeLimit = 0;
template <class F> static void guarded(double limitSec, int cls, const char* what, F f) {
    std::fflush(stdout);
    gTot[cls]++;
    pid_t pid = fork();
    if (pid == 0) { gReached = 0; f(); std::fflush(stdout); _exit(gReached ? 0 : 3); }
    if (pid < 0) { f(); return; }
    double waited = 0; int status = 0;
    while (waitpid(pid, &status, WNOHANG) == 0) {
        usleep(2000); waited += 0.002;
        if (waited > limitSec) { kill(pid, SIGKILL); waitpid(pid, &status, 0); std::printf("D %s.timeLimit\n", what); gTimeLimit++; return; }
    }
    if (WIFEXITED(status) && WEXITSTATUS(status) == 0) gGot[cls]++;
    else if (!(WIFEXITED(status) && WEXITSTATUS(status) == 3)) std::printf("P case_does_not_crash %s.crash 1 0\n", what);
}
static void oneCase(long long seed, long long k, bool thorough) {
    gSeed = seed; gCase = k;
    if (k < 0) { guarded(20, 3, "nan", [&]() { nanCase(); }); return; }
    vh::Rng g((uint64_t)(seed * 7919 + 43) * 1000003ull + (uint64_t)k);      // independent stream per case: a case is (seed, k)
    if (k % 5 == 4) {      // every fifth case is a coordinate-bounds case; its class is a function of (seed, k): all classes are guaranteed
        long long idx = k / 5 + 3 * seed; int nRclass = (int)(idx % 4), which = (int)((idx / 4) % 4), variant = g.below(4);
        if (nRclass >= 2 && which == 0 && g.coin()) which = 1 + g.below(3);      // more weight on active bounds with several mobilizers
        guarded(thorough ? 20 : 8, nRclass >= 2 ? 4 : 5, "bounds", [&]() { boundsCase(g, nRclass, which, variant); });
        return;
    }
    int stream = g.below(10);
    if (stream < 7) guarded(thorough ? 20 : 6, 0, "asm", [&]() { asmCase(g, thorough); });
    else if (stream < 8) guarded(20, 1, "opf", [&]() { opfCase(g); });
    else guarded(20, 2, "lem", [&]() { lemCase(g); });
}
// replay RE-RUNS the implementation: every I record carries (seed, case index)
static void replay() {
    static char buf[1 << 20]; std::vector<std::pair<long long, long long> > done;
    while (std::fgets(buf, sizeof buf, stdin)) {
        std::istringstream is(buf); std::string kind, fn; long long seed, k; is >> kind >> fn >> seed >> k;
        if (kind != "I" || !is || fn == "floor") continue;
        if (std::find(done.begin(), done.end(), std::make_pair(seed, k)) != done.end()) continue;
        done.push_back({seed, k});
        oneCase(seed, k, false);
    }
}
static void floorP(const char* what, long got, long total, double minShare, long minTotal = 8) {
    if (total < minTotal) { if (minTotal < 8) std::printf("P guaranteed_class_generated floor.%s.count %ld 0\n", what, minTotal - total); return; }
    vh::I("floor").s(what).i(total).i(got).emit(); std::printf("O floor 1\n");
    vh::P("share_of_cases_reaching_result_predicates", std::string("floor.") + what, minShare - (double)got / total, 0.0);
}

int main(int argc, char** argv) {
    vh::Args args(argc, argv);
    if (args.mode == "replay") { replay(); return 0; }
    bool thorough = args.n > 300;
    oneCase((long long)args.seed, -1, thorough);            // the all-NaN-observations case, once per run
    for (long k = 0; k < args.n; ++k) oneCase((long long)args.seed, k, thorough);
    // floors: measured shares on the clean tree are in notes/C43.md; required is roughly 3/4 of the measured share
    floorP("asm.reportsSuccess", gGot[0], gTot[0], 0.70);
    floorP("opf.returns", gGot[1], gTot[1], 0.70);
    floorP("lem.returns", gGot[2], gTot[2], 0.50);
    floorP("bounds.twoOrMoreMobilizers.reportsSuccess", gGot[4], gTot[4], 0.70, 3);
    floorP("bounds.zeroOrOneMobilizer.reportsSuccess", gGot[5], gTot[5], 0.70, 3);
    return 0;
}
