// C02 correspondence harness: forward and inverse dynamics of random trees are exact inverses (public API only).
//   I fwdinv <caseSeed> <maxBodies> <zeroU> <tree export> a[6 nb] b[6 nb] F[6 (nb+1)] f[nu] udotK[nu]
//        a = getMobilizerCoriolisAcceleration, b = getGyroscopicForce (per body 1..nb; velocity-dependent bias terms are
//        taken from the implementation: their computation from (q,u) belongs to C03), F = applied body forces for
//        bodies 0..nb (Ground included), f = applied mobility forces, udotK = a given acceleration vector
//   O fwd     udot = calcAccelerationIgnoringConstraints(f, F)
//   O fwdA    A_GB of bodies 1..nb from the same call
//   O inv     calcResidualForceIgnoringConstraints(f, F, udotK)
//   O realize getUDot after realize(Acceleration) with the same forces applied through Force::DiscreteForces
//   O jt      multiplyBySystemJacobianTranspose(F)
//   O argconv 8 x nu: calcResidualForceIgnoringConstraints with every combination of {zero-length, full-length} for
//             (appliedMobilityForces, appliedBodyForces, knownUdot) -- zero length is documented to mean all-zero;
//             combination k: bit0 = f zero-length, bit1 = F zero-length, bit2 = udot zero-length
//   O accUdot A_GB (bodies 1..nb) of calcBodyAccelerationFromUDot(udotK), then of calcBodyAccelerationFromUDot(zero-length)
//   O treeEquiv calcTreeEquivalentMobilityForces(F)  (= J'F - C)
// P lines: the property's predicates on the implementation's own outputs.
#include "treedyn_gen.h"
static_assert(TREEDYN_GEN_VERSION == 12, "bump the version here when treedyn_gen.h changes");
using namespace SimTK;
using td::TreeCase;

static double svmax(const Vector_<SpatialVec>& v) {
    double m = 0; for (int i = 0; i < v.size(); ++i) for (int k = 0; k < 2; ++k) for (int j = 0; j < 3; ++j) m = std::max(m, std::fabs(v[i][k][j])); return m;
}

static long nArgconvNonzeroU = 0, nCasesRun = 0;
static void runCase(uint64_t caseSeed, int code) {
    td::Options opt; td::applyGenCode(code, opt); opt.zeroUProb = 0.25;
    std::unique_ptr<TreeCase> pc = td::buildCase(caseSeed, opt);
    TreeCase& c = *pc; State& s = c.state; const SimbodyMatterSubsystem& matter = *c.matter;
    const int nu = c.nu, nb = c.nb;
    vh::Rng& g = c.g;
    const Vector f = td::rvector(g, nu) * 3.0, udotK = td::rvector(g, nu) * 2.0;
    Vector_<SpatialVec> F(nb + 1);
    const int fmode = g.below(4);            // 0: all bodies, 1: none, 2: sparse, 3: all incl. large Ground force
    for (int i = 0; i <= nb; ++i) {
        const bool on = fmode == 0 || fmode == 3 || (fmode == 2 && g.below(3) == 0);
        F[i] = on ? SpatialVec(td::rvec(g, 2.0), td::rvec(g, 2.0)) : SpatialVec(Vec3(0), Vec3(0));
    }
    if (fmode == 3) F[0] = SpatialVec(td::rvec(g, 50.0), td::rvec(g, 50.0));
    c.discrete.setAllMobilityForces(s, f);
    c.discrete.setAllBodyForces(s, F);
    c.sys->realize(s, Stage::Acceleration);

    vh::Line in = vh::I("fwdinv"); in.s(std::to_string(caseSeed)).i(code).i(c.zeroU ? 1 : 0);
    td::exportTree(c, in);
    for (int i = 1; i <= nb; ++i) { const SpatialVec& a = matter.getMobilizerCoriolisAcceleration(s, MobilizedBodyIndex(i)); in.v(a[0], 3).v(a[1], 3); }
    for (int i = 1; i <= nb; ++i) { const SpatialVec& b = matter.getGyroscopicForce(s, MobilizedBodyIndex(i)); in.v(b[0], 3).v(b[1], 3); }
    for (int i = 0; i <= nb; ++i) in.v(F[i][0], 3).v(F[i][1], 3);
    in.v(f, nu).v(udotK, nu); in.emit();

    Vector udot, resid, JtF; Vector_<SpatialVec> A;
    matter.calcAccelerationIgnoringConstraints(s, f, F, udot, A);
    matter.calcResidualForceIgnoringConstraints(s, f, F, udotK, resid);
    matter.multiplyBySystemJacobianTranspose(s, F, JtF);
    const Vector udotR = s.getUDot();
    vh::O("fwd").v(udot, nu).emit();
    { vh::Line o = vh::O("fwdA"); for (int i = 1; i <= nb; ++i) o.v(A[i][0], 3).v(A[i][1], 3); o.emit(); }
    vh::O("inv").v(resid, nu).emit();
    vh::O("realize").v(udotR, nu).emit();
    vh::O("jt").v(JtF, nu).emit();
    ++nCasesRun;
    // ---- documented argument conventions of the public operators: zero-length == all-zero
    struct Conv { double worstID = 0, worstRF = 0; };
    std::vector<Conv> conv(8);
    {
        const Vector e0; const Vector_<SpatialVec> E0;
        const Vector z0(nu, 0.0); Vector_<SpatialVec> Z0(nb + 1); Z0 = SpatialVec(Vec3(0), Vec3(0));
        vh::Line o = vh::O("argconv");
        for (int k = 0; k < 8; ++k) {
            const bool fz = k & 1, Fz = (k & 2) != 0, uz = (k & 4) != 0;
            Vector r1, r2, re;
            matter.calcResidualForceIgnoringConstraints(s, fz ? e0 : f, Fz ? E0 : F, uz ? e0 : udotK, r1);
            matter.calcResidualForce(s, fz ? e0 : f, Fz ? E0 : F, uz ? e0 : udotK, e0, r2);      // empty knownLambda
            matter.calcResidualForceIgnoringConstraints(s, fz ? z0 : f, Fz ? Z0 : F, uz ? z0 : udotK, re);   // explicit zeros
            const double sc = std::max(1.0, td::vmaxabs(re));
            if (r1.size() != nu || r2.size() != nu) { conv[k].worstID = conv[k].worstRF = INFINITY; for (int i = 0; i < nu; ++i) o.d(NAN); continue; }
            conv[k].worstID = nu ? td::vmaxabs(r1 - re) / sc : 0; conv[k].worstRF = nu ? td::vmaxabs(r2 - re) / sc : 0;
            o.v(r1, nu);
        }
        o.emit();
    }
    double accConv = 0;
    {
        Vector_<SpatialVec> A1, A0, Az; const Vector e0; const Vector z0(nu, 0.0);
        matter.calcBodyAccelerationFromUDot(s, udotK, A1); matter.calcBodyAccelerationFromUDot(s, e0, A0); matter.calcBodyAccelerationFromUDot(s, z0, Az);
        vh::Line o = vh::O("accUdot");
        for (int i = 1; i <= nb; ++i) o.v(A1[i][0], 3).v(A1[i][1], 3);
        for (int i = 1; i <= nb; ++i) o.v(A0[i][0], 3).v(A0[i][1], 3);
        o.emit();
        for (int i = 0; i <= nb; ++i) for (int r = 0; r < 2; ++r) for (int q = 0; q < 3; ++q) accConv = std::max(accConv, std::fabs(A0[i][r][q] - Az[i][r][q]));
    }
    { Vector te; matter.calcTreeEquivalentMobilityForces(s, F, te); vh::O("treeEquiv").v(te, nu).emit(); }
    if (!c.zeroU) { ++nArgconvNonzeroU; vh::D("argconv.u_nonzero"); } else vh::D("argconv.u_zero");
    td::emitTags(c);
    vh::D(std::string("u.") + (c.zeroU ? "zero" : "nonzero"));
    vh::D("bodyforces." + std::to_string(fmode));

    {   // every zero-length call equals the call with explicit all-zero arrays (one key per operator x combination)
        static const char* nm[8] = {"fN_FN_udotN", "f0_FN_udotN", "fN_F0_udotN", "f0_F0_udotN", "fN_FN_udot0", "f0_FN_udot0", "fN_F0_udot0", "f0_F0_udot0"};
        for (int k = 0; k < 8; ++k) {
            vh::P("zero_length_means_all_zero", std::string("argconv.calcResidualForceIgnoringConstraints.") + nm[k] + ".equals_explicit", conv[k].worstID, 1e-13);
            vh::P("zero_length_means_all_zero", std::string("argconv.calcResidualForce.") + nm[k] + "_lambda0.equals_explicit", conv[k].worstRF, 1e-13);
        }
        vh::P("zero_length_means_all_zero", "argconv.calcBodyAccelerationFromUDot.udot0.equals_explicit", accConv, 1e-13);
    }
    if (nu == 0) return;
    const std::string key = td::anyLoneParticle(c) ? "C02.loneparticle" : "C02.tree";
    {   // the gyroscopic force used by both recursions IS b = (w x (I w), m w x (w x p)), recomputed from body-frame public data
        double worst = 0;
        for (int i = 1; i <= nb; ++i) {
            const MobilizedBody& mb = c.mobods[i];
            const MassProperties& bp = mb.getBodyMassProperties(s);
            const Rotation& R = mb.getBodyRotation(s);
            const Vec3 w = mb.getBodyAngularVelocity(s);
            const Vec3 p = R * bp.getMassCenter();
            const Mat33 IB = bp.getMass() * Mat33(bp.getUnitInertia().toMat33());
            const Mat33 IG = R.asMat33() * IB * ~R.asMat33();
            const SpatialVec bexp(w % (IG * w), bp.getMass() * (w % (w % p)));
            const SpatialVec& b = matter.getGyroscopicForce(s, MobilizedBodyIndex(i));
            double sc = 1; for (int r = 0; r < 2; ++r) for (int q = 0; q < 3; ++q) sc = std::max(sc, std::fabs(bexp[r][q]));
            for (int r = 0; r < 2; ++r) for (int q = 0; q < 3; ++q) worst = std::max(worst, std::fabs(b[r][q] - bexp[r][q]) / sc);
        }
        vh::P("gyroscopic_force_from_body_data", key + ".b_from_q", worst, 1e-12);
    }
    if (td::hasReversedLineQuat(c)) vh::D("fd.skipped.reversedLine.quaternion");
    else {   // the Coriolis accelerations used by both recursions ARE d/dt(J) u: central difference of getBodyVelocity along qdot, u held fixed
        const Real h = 1e-5;
        State sp = s, sm = s;
        sp.updQ() = s.getQ() + h * s.getQDot(); sm.updQ() = s.getQ() - h * s.getQDot();
        c.sys->realize(sp, Stage::Velocity); c.sys->realize(sm, Stage::Velocity);
        double worstTot = 0, worstMob = 0;
        for (int i = 1; i <= nb; ++i) {
            const MobilizedBody& mb = c.mobods[i];
            const SpatialVec Afd = (mb.getBodyVelocity(sp) - mb.getBodyVelocity(sm)) / (2 * h);
            const SpatialVec& Atot = matter.getTotalCoriolisAcceleration(s, MobilizedBodyIndex(i));
            double sc = 1; for (int r = 0; r < 2; ++r) for (int q = 0; q < 3; ++q) sc = std::max(sc, std::fabs(Atot[r][q]));
            for (int r = 0; r < 2; ++r) for (int q = 0; q < 3; ++q) worstTot = std::max(worstTot, std::fabs(Atot[r][q] - Afd[r][q]) / sc);
            // incremental (mobilizer) Coriolis acceleration = total - parent's total shifted outward
            const int pi = c.parentOf[i];
            SpatialVec AP(Vec3(0), Vec3(0));
            if (pi > 0) AP = matter.getTotalCoriolisAcceleration(s, MobilizedBodyIndex(pi));
            const Vec3 l = mb.getBodyOriginLocation(s) - mb.getParentMobilizedBody().getBodyOriginLocation(s);
            const SpatialVec aexp(Atot[0] - AP[0], Atot[1] - (AP[1] + AP[0] % l));
            const SpatialVec& a = matter.getMobilizerCoriolisAcceleration(s, MobilizedBodyIndex(i));
            for (int r = 0; r < 2; ++r) for (int q = 0; q < 3; ++q) worstMob = std::max(worstMob, std::fabs(a[r][q] - aexp[r][q]) / sc);
        }
        vh::P("coriolis_acceleration_is_dJdt_u_central_difference", key + ".a_from_q", worstTot, 2e-6);
        vh::P("mobilizer_coriolis_is_total_minus_shifted_parent", key + ".a_incremental", worstMob, 1e-11);
    }
    const Vector zero(nu, 0.0); Vector_<SpatialVec> noF(nb + 1); noF = SpatialVec(Vec3(0), Vec3(0));
    Vector C; matter.calcResidualForceIgnoringConstraints(s, zero, noF, zero, C);      // velocity-dependent bias C(q,u)
    const double fscale = std::max(1.0, std::max(std::max(td::vmaxabs(f), td::vmaxabs(JtF)), td::vmaxabs(C)));
    {   // inverse dynamics of the forward-dynamics result leaves no residual
        Vector r; matter.calcResidualForceIgnoringConstraints(s, f, F, udot, r);
        vh::P("residual_of_forward_zero", key + ".rnea_aba", td::vmaxabs(r) / fscale, 1e-7);
    }
    {   // forward dynamics of (residual + applied) reproduces the given accelerations
        Vector u2; Vector_<SpatialVec> A2; matter.calcAccelerationIgnoringConstraints(s, f + resid, F, u2, A2);
        vh::P("forward_of_residual", key + ".aba_rnea", td::vmaxabs(u2 - udotK) / std::max(1.0, td::vmaxabs(udotK)), 1e-6);
    }
    {   // body forces enter exactly as J' F
        Vector u3; Vector_<SpatialVec> A3; matter.calcAccelerationIgnoringConstraints(s, f + JtF, noF, u3, A3);
        vh::P("bodyforce_as_JtF_forward", key + ".JtF_fwd", td::vmaxabs(u3 - udot) / std::max(1.0, td::vmaxabs(udot)), 1e-6);
        Vector r3; matter.calcResidualForceIgnoringConstraints(s, f + JtF, noF, udotK, r3);
        vh::P("bodyforce_as_JtF_inverse", key + ".JtF_inv", td::vmaxabs(r3 - resid) / fscale, 1e-9);
        // a force on Ground changes nothing
        Vector_<SpatialVec> F0 = F; F0[0] = SpatialVec(Vec3(0), Vec3(0));
        Vector u4; Vector_<SpatialVec> A4; matter.calcAccelerationIgnoringConstraints(s, f, F0, u4, A4);
        vh::P("ground_force_irrelevant", key + ".ground", td::vmaxabs(u4 - udot) / std::max(1.0, td::vmaxabs(udot)), 1e-9);
    }
    {   // realize(Acceleration) -> getUDot is the operator's result
        vh::P("realize_equals_operator", key + ".realize", td::vmaxabs(udotR - udot) / std::max(1.0, td::vmaxabs(udot)), 1e-10);
    }
    {   // the velocity-dependent terms are the same in both directions: M*fwd(0,0) + C = 0, and residual is affine in udot
        Vector u0, Mu0; Vector_<SpatialVec> A0; matter.calcAccelerationIgnoringConstraints(s, zero, noF, u0, A0);
        matter.multiplyByM(s, u0, Mu0);
        vh::P("bias_shared", key + ".bias", td::vmaxabs(Mu0 + C) / std::max(1.0, td::vmaxabs(C)), 1e-7);
        Vector MudK; matter.multiplyByM(s, udotK, MudK);
        vh::P("residual_is_Mudot_plus_C_minus_f", key + ".affine", td::vmaxabs(resid - (MudK + C - f - JtF)) / std::max(fscale, td::vmaxabs(MudK)), 1e-9);
        if (c.zeroU) vh::P("zero_velocity_no_bias", key + ".zeroU", td::vmaxabs(C), 1e-12);
    }
    (void)svmax;
}

int main(int argc, char** argv) {
    vh::Args args(argc, argv);
    if (args.mode == "replay") {
        static char buf[1 << 24];
        while (std::fgets(buf, sizeof buf, stdin)) {
            if (std::strncmp(buf, "I summary ", 10) == 0) { std::fputs(buf, stdout); std::printf("O summary 1\n"); continue; }
            if (std::strncmp(buf, "I fwdinv ", 9) != 0) continue;
            unsigned long long cs; int code;
            if (std::sscanf(buf + 9, "%llu %d", &cs, &code) == 2) runCase(cs, code);
        }
        return 0;
    }
    vh::Rng master(args.seed * 1000003ull + 202);
    const bool thorough = args.n > 2000;
    for (long k = 0; k < args.n; ++k) {
        const uint64_t cs = master.next() >> 1;
        int maxB = 12;
        if (thorough && master.below(5) == 0) maxB = 40;
        runCase(cs, td::genCode(maxB, td::flagsForCase(k)));
    }
    // floor of the guaranteed class: at least half of the cases exercised every argument convention at u != 0
    std::printf("I summary %ld %ld\nO summary 1\n", nCasesRun, nArgconvNonzeroU);
    vh::P("argconv_class_floor", "argconv.floor", nCasesRun ? 0.5 - (double)nArgconvNonzeroU / nCasesRun : 0, 0);
    return 0;
}
