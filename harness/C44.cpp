// C44 correspondence harness: PGSImpulseSolver (modelled) and PLUSImpulseSolver (contract).
// Problem encoding (all tokens hex doubles), shared by `pgs`, `pgsbil`, `plus`:
//   m p nExp nUncond nUni nBnd nState nCons hasApplied tol maxIters sor0
//   A[m*m] row major, D[m], participating[p], expanding[nExp], piExpand[m], verrStart[m], verrApplied[m if hasApplied]
//   uncond (size rows..)*, uni (Nk sign nF Fk.. type mu)*, bounded (ix lb ub)*, state (nF Fk.. knownN mu)*, cons (nF Fk.. nN Nk.. mu)*
//   I pgs <problem>     -> O conv c / O pi .. / O verr .. / O cond ..
//   I pgsbil <problem>  -> O conv c / O pi ..
//   I plus <problem> checkLinear tol scale pi[m] -> O plus 1        (the Lean driver evaluates the exact-rational contract)
#include "Simbody.h"
#include "hcommon.h"
#include <algorithm>
#include <unistd.h>
#include <sys/wait.h>
using namespace SimTK;

struct UniC { int Nk; double sign; std::vector<int> Fk; int type; double mu; };
struct Bnd { int ix; double lb, ub; };
struct StL { std::vector<int> Fk; double knownN, mu; };
struct CoL { std::vector<int> Fk, Nk; double mu; };
struct Prob {
    int m = 0; std::vector<double> A, D, piE, verr, vapp; std::vector<int> part, expd;
    std::vector<std::vector<int> > uncond; std::vector<UniC> uni; std::vector<Bnd> bnd; std::vector<StL> stl; std::vector<CoL> col;
    double tol = 1e-6; int maxIters = 100; double sor0 = 1.2;
    double a(int r, int c) const { return A[r * m + c]; }
};

static void encode(vh::Line& L, const Prob& P) {
    L.d(P.m).d(P.part.size()).d(P.expd.size()).d(P.uncond.size()).d(P.uni.size()).d(P.bnd.size()).d(P.stl.size()).d(P.col.size())
     .d(P.vapp.empty() ? 0 : 1).d(P.tol).d(P.maxIters).d(P.sor0);
    for (double x : P.A) L.d(x); for (double x : P.D) L.d(x);
    for (int i : P.part) L.d(i); for (int i : P.expd) L.d(i);
    for (double x : P.piE) L.d(x); for (double x : P.verr) L.d(x); for (double x : P.vapp) L.d(x);
    for (auto& g : P.uncond) { L.d(g.size()); for (int i : g) L.d(i); }
    for (auto& c : P.uni) { L.d(c.Nk).d(c.sign).d(c.Fk.size()); for (int i : c.Fk) L.d(i); L.d(c.type).d(c.mu); }
    for (auto& b : P.bnd) L.d(b.ix).d(b.lb).d(b.ub);
    for (auto& s : P.stl) { L.d(s.Fk.size()); for (int i : s.Fk) L.d(i); L.d(s.knownN).d(s.mu); }
    for (auto& c : P.col) { L.d(c.Fk.size()); for (int i : c.Fk) L.d(i); L.d(c.Nk.size()); for (int i : c.Nk) L.d(i); L.d(c.mu); }
}
static bool decode(const std::vector<double>& v, size_t& q, Prob& P) {
    auto nx = [&]() -> double { return q < v.size() ? v[q++] : NAN; };
    P.m = (int)nx(); int p = (int)nx(), nExp = (int)nx(), nU = (int)nx(), nUni = (int)nx(), nB = (int)nx(), nS = (int)nx(), nC = (int)nx();
    int hasApp = (int)nx(); P.tol = nx(); P.maxIters = (int)nx(); P.sor0 = nx();
    int m = P.m; if (m < 0 || m > 1000) return false;
    P.A.resize(m * m); for (auto& x : P.A) x = nx(); P.D.resize(m); for (auto& x : P.D) x = nx();
    P.part.resize(p); for (auto& x : P.part) x = (int)nx(); P.expd.resize(nExp); for (auto& x : P.expd) x = (int)nx();
    P.piE.resize(m); for (auto& x : P.piE) x = nx(); P.verr.resize(m); for (auto& x : P.verr) x = nx();
    if (hasApp) { P.vapp.resize(m); for (auto& x : P.vapp) x = nx(); }
    P.uncond.resize(nU); for (auto& g : P.uncond) { g.resize((int)nx()); for (auto& x : g) x = (int)nx(); }
    P.uni.resize(nUni); for (auto& c : P.uni) { c.Nk = (int)nx(); c.sign = nx(); c.Fk.resize((int)nx()); for (auto& x : c.Fk) x = (int)nx(); c.type = (int)nx(); c.mu = nx(); }
    P.bnd.resize(nB); for (auto& b : P.bnd) { b.ix = (int)nx(); b.lb = nx(); b.ub = nx(); }
    P.stl.resize(nS); for (auto& s : P.stl) { s.Fk.resize((int)nx()); for (auto& x : s.Fk) x = (int)nx(); s.knownN = nx(); s.mu = nx(); }
    P.col.resize(nC); for (auto& c : P.col) { c.Fk.resize((int)nx()); for (auto& x : c.Fk) x = (int)nx(); c.Nk.resize((int)nx()); for (auto& x : c.Nk) x = (int)nx(); c.mu = nx(); }
    return q <= v.size();
}

// ------------------------------------------------------------------ running the real solvers
struct Run {
    bool conv = false; std::string exc; std::vector<double> pi, verrOut, vappOut;
    std::vector<int> uniCond, fricCond, bndCond, stCond, coCond;
    std::vector<double> slipX, slipY;      // reported slip velocity per uni contact (PLUS)
};
static Array_<MultiplierIndex> mx(const std::vector<int>& v) { Array_<MultiplierIndex> a; for (int i : v) a.push_back(MultiplierIndex(i)); return a; }
static int code(int c) { return c < 0 ? 9 : c; }

static Run runSolve(const ImpulseSolver& solver, const Prob& P) {
    int m = P.m;
    Matrix A(m, m); Vector D(m), piE(m), verr(m), vapp((int)P.vapp.size()), pi;
    for (int r = 0; r < m; ++r) { for (int c = 0; c < m; ++c) A(r, c) = P.a(r, c); D[r] = P.D[r]; piE[r] = P.piE[r]; verr[r] = P.verr[r]; }
    for (int r = 0; r < (int)P.vapp.size(); ++r) vapp[r] = P.vapp[r];
    Array_<ImpulseSolver::UncondRT> unc; Array_<ImpulseSolver::UniContactRT> uni; Array_<ImpulseSolver::UniSpeedRT> usp;
    Array_<ImpulseSolver::BoundedRT> bnd; Array_<ImpulseSolver::ConstraintLtdFrictionRT> col; Array_<ImpulseSolver::StateLtdFrictionRT> stl;
    for (auto& g : P.uncond) { ImpulseSolver::UncondRT rt; rt.m_mults = mx(g); unc.push_back(rt); }
    for (auto& c : P.uni) { ImpulseSolver::UniContactRT rt; rt.m_Nk = MultiplierIndex(c.Nk); rt.m_sign = c.sign; rt.m_Fk = mx(c.Fk);
        rt.m_type = (ImpulseSolver::ContactType)c.type; rt.m_effMu = c.mu; rt.m_effCOR = 0; uni.push_back(rt); }
    for (auto& b : P.bnd) bnd.push_back(ImpulseSolver::BoundedRT(MultiplierIndex(b.ix), b.lb, b.ub));
    for (auto& s : P.stl) stl.push_back(ImpulseSolver::StateLtdFrictionRT(mx(s.Fk), s.knownN, s.mu));
    for (auto& c : P.col) col.push_back(ImpulseSolver::ConstraintLtdFrictionRT(mx(c.Fk), mx(c.Nk), c.mu));
    Run R;
    try {
        R.conv = solver.solve(0, mx(P.part), A, D, mx(P.expd), piE, verr, vapp, pi, unc, uni, usp, bnd, col, stl);
    } catch (const std::exception& e) { R.exc = e.what(); return R; }
    for (int r = 0; r < m; ++r) { R.pi.push_back(r < pi.size() ? pi[r] : NAN); R.verrOut.push_back(verr[r]); }
    for (int r = 0; r < vapp.size(); ++r) R.vappOut.push_back(vapp[r]);
    for (auto& rt : uni) { R.uniCond.push_back(code(rt.m_contactCond)); R.fricCond.push_back(code(rt.m_frictionCond));
                           R.slipX.push_back(rt.m_slipVel[0]); R.slipY.push_back(rt.m_slipVel[1]); }
    for (auto& rt : bnd) R.bndCond.push_back(code(rt.m_boundedCond));
    for (auto& rt : stl) R.stCond.push_back(code(rt.m_frictionCond));
    for (auto& rt : col) R.coCond.push_back(code(rt.m_frictionCond));
    return R;
}

// rhs = verrStart + verrApplied - [A+D] piExpand (piExpand is non-zero only on `expanding`)
static std::vector<double> rhsOf(const Prob& P) {
    std::vector<double> rhs(P.m);
    for (int r = 0; r < P.m; ++r) {
        long double s = P.verr[r] + (P.vapp.empty() ? 0.0 : P.vapp[r]);
        for (int c : P.expd) s -= (long double)P.a(r, c) * P.piE[c];
        if (!P.expd.empty()) s -= (long double)P.D[r] * P.piE[r];
        rhs[r] = (double)s;
    }
    return rhs;
}
static double normOf(const std::vector<double>& pi, const std::vector<int>& ix) { long double s = 0; for (int i : ix) s += (long double)pi[i] * pi[i]; return std::sqrt((double)s); }

// the inequalities of the property, evaluated on the returned impulses; `tolRel` = 0 for PGS (projections are exact up to
// one rounding of the scale factor), small for PLUS
static void inequalityPredicates(const std::string& key, const Prob& P, const Run& R, double tolRel, double tolAbs, bool skipCone = false) {
    double pull = 0, cone = 0, bndv = 0, stv = 0, cov = 0, nonpart = 0;
    std::vector<bool> isPart(P.m, false); for (int i : P.part) isPart[i] = true;
    for (int r = 0; r < P.m; ++r) if (!isPart[r]) nonpart = std::max(nonpart, std::fabs(R.pi[r]));
    for (auto& c : P.uni) {
        if (c.type == 2) pull = std::max(pull, c.sign * R.pi[c.Nk]);
        if (c.type != 0 && !c.Fk.empty()) {
            double N = std::fabs(R.pi[c.Nk] + P.piE[c.Nk]);
            cone = std::max(cone, normOf(R.pi, c.Fk) - c.mu * N * (1 + tolRel));
        }
    }
    for (auto& b : P.bnd) bndv = std::max(bndv, std::max(b.lb - R.pi[b.ix], R.pi[b.ix] - b.ub));
    for (auto& s : P.stl) stv = std::max(stv, normOf(R.pi, s.Fk) - s.mu * s.knownN * (1 + tolRel));
    for (auto& c : P.col) cov = std::max(cov, normOf(R.pi, c.Fk) - c.mu * normOf(R.pi, c.Nk) * (1 + tolRel));
    vh::P("unilateral_never_pulls", key + ".pull", pull, tolAbs);
    if (!skipCone) vh::P("friction_in_cone", key + ".cone", cone, tolAbs);
    vh::P("bounded_within_bounds", key + ".bounded", bndv, tolAbs);
    vh::P("state_limited_friction", key + ".statelimited", stv, tolAbs);
    vh::P("constraint_limited_friction", key + ".conslimited", cov, tolAbs);
    vh::P("nonparticipating_zero", key + ".nonparticipating", nonpart, 0);
}

// ------------------------------------------------------------------ problem generator
// rows are dealt to constraints; A = B B^T + 0.2 I (SPD, like G M^-1 G^T), D >= 0
static Prob genProblem(vh::Rng& g, bool forPlus, bool uncondOnly, bool withD, int maxM) {
    Prob P;
    int next = 0;
    auto take = [&](int k) { std::vector<int> v; for (int i = 0; i < k; ++i) v.push_back(next++); return v; };
    int nU = uncondOnly ? 1 + g.below(4) : g.below(3);
    for (int k = 0; k < nU && next < maxM; ++k) P.uncond.push_back(take(1 + g.below(3)));
    if (!uncondOnly) {
        int nUni = g.below(4);
        for (int k = 0; k < nUni && next < maxM; ++k) {
            UniC c; c.Nk = take(1)[0]; c.sign = g.coin() ? 1 : -1; c.mu = g.range(0.1, 1.0);
            if (g.below(3) != 0) c.Fk = take(2);
            int t = g.below(6); c.type = t == 0 ? 0 : t == 1 ? 1 : 2;
            P.uni.push_back(c);
        }
        if (!forPlus) {
            int nB = g.below(3); for (int k = 0; k < nB && next < maxM; ++k) { Bnd b; b.ix = take(1)[0]; b.lb = -g.range(0, 2); b.ub = g.range(0, 2); P.bnd.push_back(b); }
            int nS = g.below(3); for (int k = 0; k < nS && next < maxM; ++k) { StL s; s.Fk = take(1 + g.below(3)); s.knownN = g.range(0, 3); s.mu = g.range(0.1, 1.0); P.stl.push_back(s); }
            if (!P.uncond.empty()) { int nC = g.below(3); for (int k = 0; k < nC && next < maxM; ++k) { CoL c; c.Fk = take(1 + g.below(2)); c.Nk = P.uncond[g.below((int)P.uncond.size())]; c.mu = g.range(0.1, 1.0); P.col.push_back(c); } }
        }
    }
    int extra = g.below(3);        // rows that belong to no constraint (never participate)
    next += extra;
    int m = P.m = next;
    // participating rows
    for (auto& grp : P.uncond) for (int i : grp) P.part.push_back(i);
    for (auto& c : P.uni) { if (c.type == 2) P.part.push_back(c.Nk); if (c.type != 0) for (int i : c.Fk) P.part.push_back(i); }
    for (auto& b : P.bnd) P.part.push_back(b.ix);
    for (auto& s : P.stl) for (int i : s.Fk) P.part.push_back(i);
    for (auto& c : P.col) for (int i : c.Fk) P.part.push_back(i);
    std::sort(P.part.begin(), P.part.end());
    // matrix
    int w = m + 2; std::vector<double> B(m * w);
    for (auto& x : B) x = g.range(-1, 1);
    P.A.assign(m * m, 0);
    for (int r = 0; r < m; ++r) for (int c = 0; c <= r; ++c) { double s = 0; for (int k = 0; k < w; ++k) s += B[r * w + k] * B[c * w + k]; if (r == c) s += 0.2; P.A[r * m + c] = P.A[c * m + r] = s; }
    P.D.assign(m, 0); if (withD) for (auto& x : P.D) x = g.below(3) == 0 ? 0.0 : g.range(0, 0.5);
    P.piE.assign(m, 0); P.verr.resize(m); for (auto& x : P.verr) x = g.signedMag(0.05, 2);
    if (g.coin()) { P.vapp.resize(m); for (auto& x : P.vapp) x = g.signedMag(0.01, 0.5); }
    // expansion impulses: Known contacts always, Participating ones sometimes; sign*piE <= 0
    for (auto& c : P.uni) if (c.type == 1 || (c.type == 2 && g.below(4) == 0)) { P.expd.push_back(c.Nk); P.piE[c.Nk] = -c.sign * g.range(0.05, 1.5); }
    std::sort(P.expd.begin(), P.expd.end());
    return P;
}

static int g_plusJudged = 0, g_pgsJudged = 0, g_compJudged = 0, g_records = 0;
static void emitConds(const Run& R) {
    std::ostringstream os; os << "O cond";
    for (int c : R.uniCond) os << ' ' << c; os << " |";
    for (int c : R.fricCond) os << ' ' << c; os << " |";
    for (int c : R.bndCond) os << ' ' << c; os << " |";
    for (int c : R.stCond) os << ' ' << c; os << " |";
    for (int c : R.coCond) os << ' ' << c;
    std::puts(os.str().c_str());
}

static void pgsRecord(const Prob& P, const std::string& tag) {
    PGSImpulseSolver pgs(1e-3); pgs.setConvergenceTol(P.tol); pgs.setMaxIterations(P.maxIters);
    Run R = runSolve(pgs, P);
    vh::Line in = vh::I("pgs"); encode(in, P); in.emit(); ++g_records;
    if (!R.exc.empty()) { std::puts("O conv EXC"); vh::P("no_exception", "pgs." + tag + ".exception", 1, 0); return; }
    std::printf("O conv %d\n", R.conv ? 1 : 0);
    vh::Line op = vh::O("pi"); for (double x : R.pi) op.d(x); op.emit();
    vh::Line ov = vh::O("verr"); for (double x : R.verrOut) ov.d(x); ov.emit();
    emitConds(R);
    vh::D("pgs." + tag + (R.conv ? ".converged" : ".notconverged")); ++g_pgsJudged;
    std::string key = "pgs." + tag;
    inequalityPredicates(key, P, R, 4e-16, 1e-14);
    // reported conditions are consistent with the impulses
    double condBad = 0;
    for (size_t k = 0; k < P.uni.size(); ++k) {
        const UniC& c = P.uni[k];
        if (c.type == 2) { if (R.uniCond[k] == 0 && R.pi[c.Nk] != 0) condBad = 1; if (R.uniCond[k] != 0 && R.uniCond[k] != 1) condBad = 1; }
        if (c.type != 0 && !c.Fk.empty()) {
            double N = std::fabs(R.pi[c.Nk] + P.piE[c.Nk]), F = normOf(R.pi, c.Fk);
            if (R.fricCond[k] == 1) condBad = std::max(condBad, std::fabs(F - c.mu * N) / std::max(c.mu * N, 1e-300) > 1e-12 ? 1.0 : 0.0);  // Sliding: on the cone
            else if (R.fricCond[k] != 3) condBad = 1;
        }
    }
    for (size_t k = 0; k < P.bnd.size(); ++k) {
        double v = R.pi[P.bnd[k].ix];
        if (R.bndCond[k] == 4 && v != P.bnd[k].ub) condBad = 1;
        if (R.bndCond[k] == 0 && v != P.bnd[k].lb) condBad = 1;
    }
    vh::P("conditions_consistent", key + ".conditions", condBad, 0);
    // verr out = rhs - (A+D) pi
    std::vector<double> rhs = rhsOf(P); double worst = 0, sc = 1e-300;
    for (int r = 0; r < P.m; ++r) {
        long double s = rhs[r]; long double mag = std::fabs(rhs[r]);
        for (int c = 0; c < P.m; ++c) { s -= (long double)P.a(r, c) * R.pi[c]; mag += std::fabs(P.a(r, c) * R.pi[c]); }
        s -= (long double)P.D[r] * R.pi[r];
        worst = std::max(worst, std::fabs((double)s - R.verrOut[r])); sc = std::max(sc, (double)mag);
    }
    vh::P("verr_consistent", key + ".verr", worst / sc, 1e-13);
    // complementarity (converged runs): the resulting constraint-space velocity verrOut = rhs - (A+D) pi is consistent with the
    // condition each contact reports.  The convergence test bounds the RMS over p rows of the residuals measured before each
    // row's last update (|er| <= tol*sqrt(p)); the last sweep moves them by a modest factor (as for bilateral_solves).
    if (R.conv && !P.part.empty() && P.tol <= 1e-6) {
        const double lim = P.tol * std::sqrt((double)P.part.size());
        double act = 0, off = 0, roll = 0, slide = 0;
        for (size_t k = 0; k < P.uni.size(); ++k) {
            const UniC& c = P.uni[k];
            if (c.type == 2) {
                if (R.uniCond[k] == 1) act = std::max(act, std::fabs(R.verrOut[c.Nk]) / lim);                 // UniActive: verr_N = 0
                if (R.uniCond[k] == 0) off = std::max(off, -c.sign * R.verrOut[c.Nk] / lim);                  // UniOff: separating, sign*verr_N >= 0
            }
            if (c.type != 0 && !c.Fk.empty()) {
                if (R.fricCond[k] == 3) roll = std::max(roll, normOf(R.verrOut, c.Fk) / lim);                 // Rolling: verr_F = 0
                if (R.fricCond[k] == 1) { double d = 0; for (int i : c.Fk) d += R.pi[i] * R.verrOut[i];      // Sliding: friction multiplier along the slip
                    slide = std::max(slide, -d / (lim * std::max(normOf(R.pi, c.Fk), 1e-300))); }
            }
        }
        for (size_t k = 0; k < P.bnd.size(); ++k) {
            double v = R.verrOut[P.bnd[k].ix];
            if (R.bndCond[k] == 2) act = std::max(act, std::fabs(v) / lim);            // Engaged: equation enforced
            if (R.bndCond[k] == 4) off = std::max(off, -v / lim);                      // SlipHigh: wanted to go higher (residual >= 0)
            if (R.bndCond[k] == 0) off = std::max(off, v / lim);                       // SlipLow
        }
        for (size_t k = 0; k < P.stl.size(); ++k) if (R.stCond[k] == 3) roll = std::max(roll, normOf(R.verrOut, P.stl[k].Fk) / lim);
        for (size_t k = 0; k < P.col.size(); ++k) if (R.coCond[k] == 3) roll = std::max(roll, normOf(R.verrOut, P.col[k].Fk) / lim);
        int nEnf = 0; for (auto& grp : P.uncond) nEnf += (int)grp.size();
        for (size_t k = 0; k < P.uni.size(); ++k) { if (P.uni[k].type == 2 && R.uniCond[k] == 1) ++nEnf; if (P.uni[k].type != 0 && !P.uni[k].Fk.empty() && R.fricCond[k] == 3) ++nEnf; }
        for (size_t k = 0; k < P.bnd.size(); ++k) if (R.bndCond[k] == 2) ++nEnf;
        for (size_t k = 0; k < P.stl.size(); ++k) if (R.stCond[k] == 3) ++nEnf;
        for (size_t k = 0; k < P.col.size(); ++k) if (R.coCond[k] == 3) ++nEnf;
        if (std::getenv("C44_DEBUG")) std::printf("# comp nEnf=%d maxIt=%d tol=%g act=%g off=%g roll=%g slide=%g\n", nEnf, P.maxIters, P.tol, act, off, roll, slide);
        // `active`/`rolling`: no theorem gives the factor - rows that are clamped (Sliding blocks still rotating on the cone) are
        // outside the convergence test and move the enforced rows' residuals after their last update; measured max 15.6 in 16.6k.
        vh::P("active_rows_enforced", key + ".complementarity.active", act, 50.0);
        vh::P("rolling_rows_enforced", key + ".complementarity.rolling", roll, 50.0);
        // PGS's convergence test looks at the *enforced* rows only (sum2enf).  When a sweep leaves no row enforced the norm is 0
        // and it reports "converged" at once, whatever the clamped rows' residuals are: keyed separately.
        const std::string rk = nEnf == 0 ? std::string("pgs.converged_no_enforced_rows.complementarity") : key + ".complementarity";
        vh::P("released_rows_separate", rk + (nEnf == 0 ? "" : ".released"), off, 5.0);
        vh::P("sliding_friction_along_slip", rk + (nEnf == 0 ? "" : ".sliding"), slide, 5.0);
        if (nEnf == 0) vh::D("pgs.converged_no_enforced_rows");
        vh::D("pgs.complementarity_judged"); ++g_compJudged;
    }
    // only unconditional rows + converged  =>  [A+D] pi = rhs on the participating rows, to the convergence tolerance
    bool onlyUncond = P.bnd.empty() && P.stl.empty() && P.col.empty();
    for (auto& c : P.uni) if (c.type == 2 || !c.Fk.empty()) onlyUncond = false;   // Known/Observing frictionless contacts take no part
    if (onlyUncond && R.conv && !P.part.empty()) {
        long double s2 = 0; for (int r : P.part) s2 += (long double)R.verrOut[r] * R.verrOut[r];
        vh::P("bilateral_solves", key + ".bilateral", std::sqrt((double)s2 / P.part.size()) / P.tol, 5.0);   // theorem: the PRE-update residuals have RMS < tol; the final sweep moves them by at most a modest factor (measured max 1.34)
    }
}

static void pgsBilateralRecord(const Prob& P0, const std::string& tag = "pgsbil") {
    // solveBilateral: every participating row is its own unconditional constraint
    Prob P = P0; P.uncond.clear(); for (int i : P.part) P.uncond.push_back({i});
    P.vapp.clear(); P.expd.clear(); std::fill(P.piE.begin(), P.piE.end(), 0.0);
    PGSImpulseSolver pgs(1e-3); pgs.setConvergenceTol(P.tol); pgs.setMaxIterations(P.maxIters);
    int m = P.m; Matrix A(m, m); Vector D(m), rhs(m), pi;
    for (int r = 0; r < m; ++r) { for (int c = 0; c < m; ++c) A(r, c) = P.a(r, c); D[r] = P.D[r]; rhs[r] = P.verr[r]; }
    bool conv = pgs.solveBilateral(mx(P.part), A, D, rhs, pi);
    vh::Line in = vh::I("pgsbil"); encode(in, P); in.emit(); ++g_records;
    std::printf("O conv %d\n", conv ? 1 : 0);
    vh::Line op = vh::O("pi"); for (int r = 0; r < m; ++r) op.d(pi[r]); op.emit();
    vh::D(std::string("pgsbil") + (conv ? ".converged" : ".notconverged"));
    if (conv && !P.part.empty()) {
        long double s2 = 0;
        for (int r : P.part) { long double s = rhs[r]; for (int c : P.part) s -= (long double)P.a(r, c) * pi[c]; s -= (long double)P.D[r] * pi[r]; s2 += s * s; }
        vh::P("bilateral_solves", tag + ".bilateral", std::sqrt((double)s2 / P.part.size()) / P.tol, 5.0);
    }
}

static void plusRecord(const Prob& P, const std::string& tag) {
    PLUSImpulseSolver plus(1e-3);
    Run R = runSolve(plus, P);
    bool onlyUncond = true; for (auto& c : P.uni) if (c.type == 2 || !c.Fk.empty()) onlyUncond = false;
    std::vector<double> rhs = rhsOf(P);
    double scale = 1; for (double x : rhs) scale = std::max(scale, std::fabs(x));
    const double ctol = 4e-6;      // the exact contract is evaluated at a tolerance above every PLUS predicate bound, so a rejection
                                    // by the contract is always accompanied by a keyed predicate failure
    vh::Line in = vh::I("plus"); encode(in, P); in.d(onlyUncond ? 1 : 0).d(ctol).d(scale);
    if (R.exc.empty()) for (double x : R.pi) in.d(x); else for (int r = 0; r < P.m; ++r) in.d(NAN);
    in.emit(); ++g_records;
    std::puts("O plus 1");
    vh::D("plus." + tag + (R.exc.empty() ? "" : ".exception"));
    std::string key = "plus." + tag;
    vh::P("no_exception", key + ".exception", R.exc.empty() ? 0 : 1, 0);
    if (!R.exc.empty()) return;
    for (double& x : R.pi) scale = std::max(scale, std::fabs(x));
    inequalityPredicates(key, P, R, 1e-7, 1e-8 * scale, true);
    // friction cone, keyed by the friction condition PLUS reports for the contact (Sliding=1, Impending=2, Rolling=3, Off=0)
    {
        static const char* names[] = {"off", "sliding", "impending", "rolling"};
        double worst[4] = {0, 0, 0, 0};
        for (size_t k = 0; k < P.uni.size(); ++k) {
            const UniC& c = P.uni[k];
            if (c.type == 0 || c.Fk.empty()) continue;
            int fc = R.fricCond[k]; if (fc < 0 || fc > 3) fc = 0;
            double N = std::fabs(R.pi[c.Nk] + P.piE[c.Nk]);
            worst[fc] = std::max(worst[fc], (normOf(R.pi, c.Fk) - c.mu * N * (1 + 1e-7)) / scale);
        }
        for (int fc = 0; fc < 4; ++fc) vh::P("friction_in_cone", std::string("plus.cone.") + names[fc], worst[fc], 1e-6);
    }
    if (onlyUncond && !P.part.empty()) {
        double worst = 0;
        for (int r : P.part) { long double s = rhs[r]; for (int c : P.part) s -= (long double)P.a(r, c) * R.pi[c]; s -= (long double)P.D[r] * R.pi[r]; worst = std::max(worst, std::fabs((double)s)); }
        // PLUS::solve builds its Newton matrix from A alone ("TODO: D" in the source): with a non-zero D on a participating row the
        // unconditional rows are not solved - own key
        bool dOnPart = false; for (int r : P.part) if (P.D[r] != 0) dOnPart = true;
        vh::P("bilateral_solves", dOnPart ? std::string("plus.solve.nonzero_D_ignored") : key + ".bilateral", worst / scale, 1e-8);
    }
    // friction opposes sliding.  PLUS accumulates the impulse over several "sliding intervals" whose slip directions differ,
    // so the statement is checked where it is unambiguous: a contact reported Sliding whose reported slip velocity is still
    // the *initial* constraint-space velocity (i.e. the solve took a single interval).  There the sliding law of the header
    // holds for the returned impulse: pi_F = mu*|pi_N+piE_N| * v/|v|  (multipliers have the sign opposite to forces, so
    // "along +v" is "force opposes sliding"), i.e. on the cone boundary and opposing.
    double oppose = 0;
    for (size_t k = 0; k < P.uni.size(); ++k) {
        const UniC& c = P.uni[k];
        if (c.type == 0 || c.Fk.empty() || R.fricCond[k] != 1) continue;
        double vx = P.verr[c.Fk[0]], vy = P.verr[c.Fk[1]], vm = std::sqrt(vx * vx + vy * vy);
        if (!(R.slipX[k] == vx && R.slipY[k] == vy) || vm <= 1e-3) continue;
        double N = std::fabs(R.pi[c.Nk] + P.piE[c.Nk]);
        double ex = R.pi[c.Fk[0]] - c.mu * N * vx / vm, ey = R.pi[c.Fk[1]] - c.mu * N * vy / vm;
        // (a Participating contact whose normal was released - UniOff - gets no friction even if it carries an expansion
        //  impulse; the property only asks for "inside the cone and not along the sliding direction", which 0 satisfies)
        if (R.uniCond[k] == 1 || R.uniCond[k] == 2) oppose = std::max(oppose, std::sqrt(ex * ex + ey * ey) / scale);
        else oppose = std::max(oppose, -(R.pi[c.Fk[0]] * vx + R.pi[c.Fk[1]] * vy) / (vm * scale));
        if (std::getenv("C44_DEBUG")) std::printf("# k=%d type=%d uniCond=%d piF=(%g,%g) muN=%g N=%g piN=%g piE=%g v=(%g,%g) sign=%g\n", (int)k, c.type, R.uniCond[k], R.pi[c.Fk[0]], R.pi[c.Fk[1]], c.mu*N, N, R.pi[c.Nk], P.piE[c.Nk], vx, vy, c.sign);
        vh::D("plus.sliding_single_interval");
    }
    vh::P("friction_opposes_sliding", "plus.oppose.sliding_single_interval", oppose, 1e-5);
    // (PLUS's Boolean return value is never assigned - `bool converged=false; ... return converged;` - so it is false even
    //  for exact solutions.  Outside the C44 statement: recorded in notes/C44.md under "observed outside the property".)
    if (onlyUncond && !P.part.empty() && !R.conv) vh::D("plus.returns_false_for_exact_solution");
    ++g_plusJudged;
}

// PLUS and a *bounded* row.  ImpulseSolver::solve takes Array_<BoundedRT>; PLUS puts a participating bounded row into its active
// set, measures the bound violation (worstBoundedValue) and then has "//TODO: bounded": with a violated bound it falls through to
// "release the worst friction" and indexes uniContact[worstFric=0] - out of range when there are no contacts.  Run in a forked
// child (undefined behaviour must not take the harness down): one unconditional row, one bounded row whose unconstrained
// solution lies outside its bounds.  value 1 = child crashed / hung / returned an impulse outside the bounds.
static void plusBoundedChild(vh::Rng& g) {
    Prob P; P.m = 2; P.uncond.push_back({0}); Bnd b; b.ix = 1; b.lb = -0.1; b.ub = 0.1; P.bnd.push_back(b); P.part = {0, 1};
    double c = g.range(-0.3, 0.3);
    P.A = {1.0, c, c, 1.0}; P.D = {0, 0}; P.piE = {0, 0}; P.verr = {g.range(-1, 1), g.coin() ? g.range(1, 2) : -g.range(1, 2)};   // unconstrained pi[1] ~ +-1..2
    int fd[2]; if (pipe(fd) != 0) return;
    std::fflush(stdout);
    pid_t pid = fork(); double bad = 1; std::string how = "fork_failed";
    if (pid == 0) {
        close(fd[0]); alarm(5);
        std::fclose(stdout);                                        // the child prints nothing into the record stream
        PLUSImpulseSolver plus(1e-3); Run R = runSolve(plus, P);
        double out[3] = {R.exc.empty() ? 0.0 : 1.0, R.exc.empty() ? R.pi[1] : 0.0, R.exc.empty() ? R.pi[0] : 0.0};
        ssize_t w = write(fd[1], out, sizeof out); (void)w; _exit(0);
    } else if (pid > 0) {
        close(fd[1]); double out[3] = {0, 0, 0}; ssize_t n = read(fd[0], out, sizeof out); close(fd[0]);
        int status = 0; waitpid(pid, &status, 0);
        if (WIFSIGNALED(status)) how = WTERMSIG(status) == SIGALRM ? "hung" : "crashed";
        else if (n != (ssize_t)sizeof out) how = "no_result";
        else if (out[0] != 0) { how = "threw"; bad = 0; }           // a clean "not implemented" exception would be acceptable
        else if (out[1] < b.lb - 1e-8 || out[1] > b.ub + 1e-8) how = "outside_bounds";
        else { how = "ok"; bad = 0; }
    }
    vh::D("plus.boundedchild." + how);
    vh::P("plus_bounded_row_honoured", "plus.bounded.violated_row_unimplemented", bad, 0);
}


// ------------------------------------------------------------------ bilateral classes (round 2c)
// PLUSImpulseSolver::solveBilateral: pi = pinv(P (A+D) ~P) P rhs, zero elsewhere.  Judged by the exact-rational contract (`plus`
// record with every participating row an unconditional constraint) and the residual predicate.
static void plusBilateralRecord(const Prob& P0, const std::string& tag) {
    Prob P = P0; P.uncond.clear(); for (int i : P.part) P.uncond.push_back({i});
    P.uni.clear(); P.vapp.clear(); P.expd.clear(); std::fill(P.piE.begin(), P.piE.end(), 0.0);
    PLUSImpulseSolver plus(1e-3);
    int m = P.m; Matrix A(m, m); Vector D(m), rhs(m), pi;
    for (int r = 0; r < m; ++r) { for (int c = 0; c < m; ++c) A(r, c) = P.a(r, c); D[r] = P.D[r]; rhs[r] = P.verr[r]; }
    plus.solveBilateral(mx(P.part), A, D, rhs, pi);
    double scale = 1; for (int r = 0; r < m; ++r) scale = std::max(scale, std::max(std::fabs(P.verr[r]), std::fabs(pi[r])));
    vh::Line in = vh::I("plus"); encode(in, P); in.d(1).d(4e-6).d(scale); for (int r = 0; r < m; ++r) in.d(pi[r]); in.emit(); ++g_records;
    std::puts("O plus 1");
    vh::D(tag);
    double worst = 0, nonpart = 0; std::vector<bool> isPart(m, false); for (int i : P.part) isPart[i] = true;
    for (int r = 0; r < m; ++r) if (!isPart[r]) nonpart = std::max(nonpart, std::fabs(pi[r]));
    for (int r : P.part) { long double s = P.verr[r]; for (int c : P.part) s -= (long double)P.a(r, c) * pi[c]; s -= (long double)P.D[r] * pi[r]; worst = std::max(worst, std::fabs((double)s)); }
    vh::P("bilateral_solves", tag + ".bilateral", worst / scale, 1e-8);
    vh::P("nonparticipating_zero", tag + ".nonparticipating", nonpart, 0);
    ++g_plusJudged;
}
// One problem of the class (D class, participating-set class, with/without a Known frictionless contact carrying an expansion
// impulse on a non-participating row); only unconditional rows participate.
static int g_bilClasses = 0;
static Prob genBilateral(vh::Rng& g, int dcls, int pcls, bool withExp) {
    Prob P; int m = P.m = 6 + g.below(4);
    std::vector<int> part;
    if (pcls == 0) for (int i = 0; i < (withExp ? m - 1 : m); ++i) part.push_back(i);                 // all (but the Known row)
    else if (pcls == 1) for (int i = 0; i < 2 + g.below(m - 3); ++i) part.push_back(i);              // leading prefix
    else if (pcls == 2) { part = {1, 3, 4}; if (m > 7 && g.coin()) part.push_back(6); }              // scattered, not a prefix
    else if (pcls == 3) part = {1 + g.below(m - 2)};                                                  // single (not row 0)
    P.part = part;
    for (size_t i = 0; i < part.size();) { int k = 1 + g.below(3); std::vector<int> grp; for (int j = 0; j < k && i < part.size(); ++j) grp.push_back(part[i++]); P.uncond.push_back(grp); }
    int w = m + 2; std::vector<double> B(m * w); for (auto& x : B) x = g.range(-1, 1);
    P.A.assign(m * m, 0);
    for (int r = 0; r < m; ++r) for (int c = 0; c <= r; ++c) { double s = 0; for (int k = 0; k < w; ++k) s += B[r * w + k] * B[c * w + k]; if (r == c) s += 0.2; P.A[r * m + c] = P.A[c * m + r] = s; }
    P.D.assign(m, 0); double u = g.range(0.1, 0.5);
    for (int r = 0; r < m; ++r) P.D[r] = dcls == 0 ? 0.0 : dcls == 1 ? u : 0.1 + 0.35 * r + g.range(0, 0.1);      // non-uniform: strictly increasing
    P.piE.assign(m, 0); P.verr.resize(m); for (auto& x : P.verr) x = g.signedMag(0.05, 2);
    if (withExp) {       // a Known frictionless contact on the last row (never participating) with an expansion impulse
        UniC c; c.Nk = m - 1; c.sign = g.coin() ? 1 : -1; c.mu = 0.5; c.type = 1; P.uni.push_back(c);
        P.expd.push_back(c.Nk); P.piE[c.Nk] = -c.sign * g.range(0.05, 1.5);
    }
    P.tol = 1e-10; P.maxIters = 1000;
    return P;
}
static void bilateralClasses(vh::Rng& g) {
    static const char* dn[] = {"Dzero", "Duniform", "Dnonuniform"}; static const char* pn[] = {"all", "prefix", "scattered", "single", "empty"};
    for (int dcls = 0; dcls < 3; ++dcls) for (int pcls = 0; pcls < 5; ++pcls) {
        std::string cls = std::string(dn[dcls]) + "." + pn[pcls];
        for (int e = 0; e < 2; ++e) {
            Prob P = genBilateral(g, dcls, pcls, e == 1);
            pgsRecord(P, "bil.solve." + cls + (e ? ".exp" : "")); plusRecord(P, "bil.solve." + cls + (e ? ".exp" : "")); g_bilClasses += 2;
        }
        Prob P = genBilateral(g, dcls, pcls, false);
        pgsBilateralRecord(P, "pgsbil.cls." + cls); plusBilateralRecord(P, "plusbil.cls." + cls); g_bilClasses += 2;
    }
}

static void replay() {
    static char buf[1 << 22];
    while (std::fgets(buf, sizeof buf, stdin)) {
        std::istringstream is(buf); std::string k, fn; is >> k >> fn;
        if (k != "I") continue;
        std::vector<double> v; std::string t; while (is >> t) v.push_back(vh::unhex(t));
        Prob P; size_t q = 0;
        if (!decode(v, q, P)) continue;
        if (fn == "pgs") pgsRecord(P, "replay");
        else if (fn == "pgsbil") pgsBilateralRecord(P);
        else if (fn == "plus") plusRecord(P, "replay");
    }
}

int main(int argc, char** argv) {
    vh::Args args(argc, argv);
    if (args.mode == "replay") { replay(); return 0; }
    vh::Rng g(args.seed * 7919 + 44);
    bool big = args.n > 1000;
    for (long k = 0; k < args.n; ++k) {
        int stream = g.below(10);
        static const double tols[] = {1e-6, 1e-6, 1e-10, 1e-3};
        static const int its[] = {100, 100, 1000, 3, 1};
        if (stream <= 4) {
            bool uo = stream == 0;
            Prob P = genProblem(g, false, uo, g.coin(), big ? 40 : 16);
            P.tol = tols[g.below(4)]; P.maxIters = its[g.below(5)];
            pgsRecord(P, uo ? "uncond" : "mixed");
        } else if (stream == 5) {
            Prob P = genProblem(g, false, true, g.coin(), big ? 30 : 12);
            P.tol = tols[g.below(4)]; P.maxIters = its[g.below(3)];
            pgsBilateralRecord(P);
        } else if (stream == 6) {
            Prob P = genProblem(g, true, true, false, 12);
            plusRecord(P, "uncond");
        } else {
            Prob P = genProblem(g, true, false, false, 14);
            plusRecord(P, "mixed");
        }
    }
    // summary record: the driver counts the records it evaluated itself and must agree; the P lines are the floor (an
    // always-throwing / never-converging regression cannot pass vacuously) and the forked PLUS bounded-row demonstration
    {   // fixed two-row demonstration of "converged with no enforced rows": A=[[1,1],[1,2]], rhs=(1.05,10), both rows bounded to
        // [-1,1].  The first sweep clamps both at +1 (SlipHigh), no row is enforced, PGS returns converged with pi=(1,1); row 0's
        // residual is 1.05-1-1 = -0.95 < 0, i.e. the row reported SlipHigh wants to come *off* its bound (the solution is (0.05,1)).
        Prob P; P.m = 2; P.A = {1, 1, 1, 2}; P.D = {0, 0}; P.piE = {0, 0}; P.verr = {1.05, 10}; P.part = {0, 1};
        Bnd b0; b0.ix = 0; b0.lb = -1; b0.ub = 1; Bnd b1 = b0; b1.ix = 1; P.bnd = {b0, b1}; P.tol = 1e-6; P.maxIters = 100;
        pgsRecord(P, "fixed");
    }
    bilateralClasses(g);
    vh::I("summary").emit();
    std::printf("O summary %d\n", g_records);
    double n = (double)args.n;
    vh::P("coverage_floor", "c44.floor.pgs_judged", std::max(0.0, 0.35 * n - g_pgsJudged), 0);
    vh::P("coverage_floor", "c44.floor.pgs_complementarity_judged", std::max(0.0, 0.08 * n - g_compJudged), 0);
    vh::P("coverage_floor", "c44.floor.plus_judged", std::max(0.0, 0.25 * n - g_plusJudged), 0);
    vh::P("coverage_floor", "c44.floor.bilateral_classes", std::max(0, 90 - g_bilClasses), 0);
    plusBoundedChild(g);
    return 0;
}
