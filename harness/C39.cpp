// C39 harness: Optimizer (LBFGS, LBFGSB, InteriorPoint, CMAES, BestAvailable selection) on generated problems.
//
//   I select req nEq nIneq hasLim                         -> O select <algorithm actually constructed | EXC>
//   I opt <20 ints> <doubles...> <log>                    -> O opt <algorithm actually constructed> 1
//        (kind K: the Lean driver re-evaluates the whole contract in exact rationals on the doubles returned and must
//         answer `O opt <model's selection> 1`)
//
// Problems (all data small integers / dyadics, so the model can recompute everything exactly):
//   ptype 0  f = 1/2 x'Ax - b'x, A = L L' + I (L small-integer lower triangular), optional box, optional linear
//            equality rows C x = d and inequality rows C x >= d; the optimum x* is *designed*: x*, multipliers and
//            bound multipliers are drawn first and b := A x* - C'mult - zlo + zhi (KKT certificate travels in the record)
//   ptype 1  Rosenbrock-like  f = sum_i cR (x_{i+1} - x_i^2)^2 + (1 - x_i)^2  (+ (1-x_{n-1})^2), optional box
// P lines (the property's predicates on the implementation's own outputs): see predicates() below.
#include "SimTKmath.h"
#include "hcommon.h"
#include <algorithm>
#include <limits>
#include <sys/stat.h>
#include <unistd.h>
using namespace SimTK;
using vh::hex;

static const double INF = std::numeric_limits<double>::infinity();
static long LOGCAP = 400;

struct Prob : public OptimizerSystem {
    int n = 0, ptype = 0, nEq = 0, nIneq = 0;
    bool hasLim = false;
    double cR = 1;
    double gradSign = 1;      // -1: the analytic gradient handed to the optimizer has the wrong sign (forces a line-search failure)
    std::vector<double> L, A, b, lo, hi, C, d;                 // C is (nEq+nIneq) x n row major
    bool haveStar = false;
    std::vector<double> xstar, mult, zlo, zhi;
    // log of everything the optimizer asked us to evaluate
    struct Ev { int kind; std::vector<double> x; };
    mutable std::vector<Ev> log;
    mutable long cnt[4] = {0, 0, 0, 0};
    mutable std::vector<double> envLo, envHi;
    void resetLog() const {
        log.clear(); cnt[0] = cnt[1] = cnt[2] = cnt[3] = 0;
        envLo.assign(n, INF); envHi.assign(n, -INF);
    }
    void note(int kind, const Vector& x) const {
        cnt[kind]++;
        for (int i = 0; i < n; ++i) { envLo[i] = std::min(envLo[i], x[i]); envHi[i] = std::max(envHi[i], x[i]);
                                      if (std::isnan(x[i])) envLo[i] = envHi[i] = NAN; }
        if ((long)log.size() < LOGCAP) { Ev e; e.kind = kind; e.x.assign(&x[0], &x[0] + n); log.push_back(e); }
    }
    double fAt(const double* x) const {
        double f = 0;
        if (ptype == 0) {
            for (int i = 0; i < n; ++i) {
                double s = 0;
                for (int j = 0; j < n; ++j) s += A[i * n + j] * x[j];
                f += x[i] * (0.5 * s - b[i]);
            }
        } else {
            for (int i = 0; i + 1 < n; ++i) {
                double t = x[i + 1] - x[i] * x[i], u = 1 - x[i];
                f += cR * t * t + u * u;
            }
            double u = 1 - x[n - 1]; f += u * u;
        }
        return f;
    }
    int objectiveFunc(const Vector& x, bool, Real& f) const override { note(0, x); f = fAt(&x[0]); return 0; }
    int gradientFunc(const Vector& x, bool, Vector& g) const override {
        note(1, x);
        if (ptype == 0) {
            for (int i = 0; i < n; ++i) { double s = 0; for (int j = 0; j < n; ++j) s += A[i * n + j] * x[j]; g[i] = gradSign * (s - b[i]); }
        } else {
            for (int i = 0; i < n; ++i) g[i] = 0;
            for (int i = 0; i + 1 < n; ++i) {
                double t = x[i + 1] - x[i] * x[i];
                g[i] += -4 * cR * t * x[i] - 2 * (1 - x[i]);
                g[i + 1] += 2 * cR * t;
            }
            g[n - 1] += -2 * (1 - x[n - 1]);
            for (int i = 0; i < n; ++i) g[i] *= gradSign;
        }
        return 0;
    }
    int constraintFunc(const Vector& x, bool, Vector& c) const override {
        note(2, x);
        for (int r = 0; r < nEq + nIneq; ++r) { double s = 0; for (int j = 0; j < n; ++j) s += C[r * n + j] * x[j]; c[r] = s - d[r]; }
        return 0;
    }
    int constraintJacobian(const Vector& x, bool, Matrix& J) const override {
        note(3, x);
        for (int r = 0; r < nEq + nIneq; ++r) for (int j = 0; j < n; ++j) J(r, j) = C[r * n + j];
        return 0;
    }
    void finish() {   // call after filling fields
        setNumParameters(n);
        setNumEqualityConstraints(nEq); setNumInequalityConstraints(nIneq);
        if (hasLim) { Vector l(n), u(n); for (int i = 0; i < n; ++i) { l[i] = lo[i]; u[i] = hi[i]; } setParameterLimits(l, u); }
        resetLog();
    }
};

struct Run {
    int req = 0, numGrad = 0, numJac = 0, method = 1;   // method: 0 forward, 1 central
    double tol = 1e-6, ctol = 1e-6;
    std::vector<double> x0;
    int seed = 7;
    int forceFail = 0;        // 1: setMaxIterations(2) (IPOPT gives up), 2: wrong-sign gradient (line search fails), 3: CMA-ES budget capped at 40 iterations
};

static const char* algName(int a) {
    static const char* nm[] = {"BestAvailable", "InteriorPoint", "LBFGS", "LBFGSB", "CFSQP", "CMAES", "Unknown", "UserSupplied"};
    return (a >= 0 && a < 8) ? nm[a] : "?";
}

// distance bound used for "returned point is the unique minimiser within the convergence tolerance"
// (per-algorithm meaning of the tolerance; constants measured on the clean tree, see notes/C39.md)
static double nearBound(int alg, const Run& r, int n, double fret, double fstar, bool hasLim) {
    // error of the numerical gradient (central differences are exact on quadratics up to rounding; forward
    // differences carry the truncation term h*A_ii/2 with h ~ 1.4e-7 |x|)
    double graderr = r.numGrad ? (r.method == 1 ? 1e-7 : 1e-4) * (1 + std::fabs(fret)) : 0;
    switch (alg) {
        // simbody's own termination test in lbfgs.cpp: max_i |g_i| max(1,|x_i|) / max(0.1,|f|) <= tol, and lambda_min(A) >= 1
        // => ||x - x*||_2 <= ||g||_2 <= sqrt(n) tol max(0.1,|f|)        (theorem lbfgs_stop_distance)
        case LBFGS:         return std::sqrt((double)n) * (r.tol * std::max(0.1, std::fabs(fret)) * 1.001 + graderr);
        // L-BFGS-B stops on max|proj g_i| <= tol or on a relative f reduction <= factr*eps = 2.2e-9: what that bounds is the
        // objective gap (measured <= 8e-7 max(1,|f*|)); quadratic growth f(x)-f(x*) >= 1/2 ||x-x*||^2 (theorem kkt_optimal)
        // turns the gap bound into a distance bound
        case LBFGSB:        return std::sqrt(2 * (2.2e-7 + 50.0 * n * (r.tol + graderr) * (r.tol + graderr)) * std::max(1.0, std::fabs(fstar)));
        case InteriorPoint: return 20 * (r.tol + r.ctol + graderr) + 1e-5;      // measured <= 5% of this
        // CMA-ES stops on the spread of recent function values (stopTolFun); without limits the measured distance is <= 1e-4
        // for tol <= 1e-6; with limits active at the optimum its resampling scheme converges only roughly (measured <= 0.016)
        case CMAES:         return hasLim ? 0.05 : 10 * std::sqrt(r.tol) + 1e-4;
    }
    return 1;
}

static void emitRecord(const Prob& P, const Run& R, int alg, int status, double fret, const std::vector<double>& xret, double acc = SignificantReal) {
    int n = P.n, nc = P.nEq + P.nIneq;
    vh::Line in = vh::I("opt");
    long nEval = P.cnt[0] + P.cnt[1] + P.cnt[2] + P.cnt[3];
    in.i(R.req).i(alg).i(n).i(P.nEq).i(P.nIneq).i(P.hasLim).i(R.numGrad).i(R.numJac).i(R.method).i(P.ptype).i(status)
      .i(nEval).i(P.cnt[0]).i(P.cnt[1]).i(P.cnt[2]).i(P.cnt[3]).i((long)P.log.size()).i(P.haveStar).i(R.seed).i(R.forceFail);
    in.d(R.tol).d(R.ctol).d(P.cR).d(acc);
    for (double v : P.L) in.d(v);
    for (double v : P.b) in.d(v);
    for (int i = 0; i < n; ++i) in.d(P.hasLim ? P.lo[i] : -INF);
    for (int i = 0; i < n; ++i) in.d(P.hasLim ? P.hi[i] : INF);
    for (double v : P.C) in.d(v);
    for (double v : P.d) in.d(v);
    for (int i = 0; i < n; ++i) in.d(P.haveStar ? P.xstar[i] : 0.0);
    for (int i = 0; i < nc; ++i) in.d(P.haveStar ? P.mult[i] : 0.0);
    for (int i = 0; i < n; ++i) in.d(P.haveStar ? P.zlo[i] : 0.0);
    for (int i = 0; i < n; ++i) in.d(P.haveStar ? P.zhi[i] : 0.0);
    for (double v : R.x0) in.d(v);
    in.d(fret);
    for (double v : xret) in.d(v);
    for (int i = 0; i < n; ++i) in.d(P.envLo[i]);
    for (int i = 0; i < n; ++i) in.d(P.envHi[i]);
    for (auto& e : P.log) { in.i(e.kind); for (double v : e.x) in.d(v); }
    in.emit();
    std::printf("O opt %d 1\n", alg);
}

// the property's predicates, evaluated in double on the implementation's outputs
static void predicates(const Prob& P, const Run& R, int alg, double fret, const std::vector<double>& xret, const std::string& key) {
    int n = P.n;
    // (1) returned f is f at the returned x
    double frec = P.fAt(xret.data());
    double fscale = 1 + std::fabs(frec);
    double ftol = (alg == InteriorPoint) ? 1e-6 : 0.0;   // IPOPT scales/unscales the objective internally
    vh::P("returned_f_is_f_at_x", key + ".ftruth", std::fabs(fret - frec) / fscale, ftol);
    // (2) descent methods never return a point worse than the start (LBFGSB starts from the projection of x0 onto the box)
    if (alg == LBFGS || alg == LBFGSB) {
        std::vector<double> s = R.x0;
        if (P.hasLim && alg == LBFGSB) for (int i = 0; i < n; ++i) s[i] = std::min(std::max(s[i], P.lo[i]), P.hi[i]);
        double f0 = P.fAt(s.data());
        vh::P("not_worse_than_start", key + ".descent", fret - f0, 0.0);
    }
    // (3) limits honoured by every evaluation and by the result
    if (P.hasLim && (alg == LBFGSB || alg == InteriorPoint || alg == CMAES)) {
        bool numdiff = alg != CMAES && (R.numGrad || (R.numJac && P.nEq + P.nIneq > 0));
        bool startInside = true;
        for (int i = 0; i < n; ++i) startInside = startInside && P.lo[i] <= R.x0[i] && R.x0[i] <= P.hi[i];
        double worst = 0, worstRet = 0, worstBase = 0;
        const double accFac = R.method == 1 ? std::cbrt(SignificantReal) : std::sqrt(SignificantReal);
        for (int i = 0; i < n; ++i) {
            double relax = (alg == InteriorPoint) ? 1.0000001e-8 : 0.0;     // IPOPT's documented bounds_relax_factor
            double rl = std::isinf(P.lo[i]) ? 0 : relax * std::max(1.0, std::fabs(P.lo[i]));
            double rh = std::isinf(P.hi[i]) ? 0 : relax * std::max(1.0, std::fabs(P.hi[i]));
            double h = 1.001 * accFac * std::max(0.1, std::max(std::fabs(P.envLo[i]), std::fabs(P.envHi[i])));
            worst = std::max(worst, std::max((P.lo[i] - rl) - P.envLo[i], P.envHi[i] - (P.hi[i] + rh)));
            worstBase = std::max(worstBase, std::max((P.lo[i] - rl - h) - P.envLo[i], P.envHi[i] - (P.hi[i] + rh + h)));
            worstRet = std::max(worstRet, std::max(P.lo[i] - xret[i], xret[i] - P.hi[i]));
            if (std::isnan(P.envLo[i]) || std::isnan(xret[i])) worst = worstBase = NAN;
        }
        if (alg == InteriorPoint && !startInside) vh::D("InteriorPoint.infeasibleStart.evalbox.notclaimed");  // IPOPT evaluates the user's start point for its scaling
        else if (!numdiff) {
            // an overshoot of a few ulps (L-BFGS-B's x + stp*d landing one rounding error beyond an active bound) is still
            // an evaluation outside the limits, but it is reported under ONE key of its own so that the listed finding
            // (cap 1e-13) can never stand in for a real excursion, which keeps the per-problem key
            double bscale = 1; for (int i = 0; i < n; ++i) { if (!std::isinf(P.lo[i])) bscale = std::max(bscale, std::fabs(P.lo[i])); if (!std::isinf(P.hi[i])) bscale = std::max(bscale, std::fabs(P.hi[i])); }
            if (alg == LBFGSB && worst > 0 && worst <= 8 * 2.220446049250313e-16 * bscale)
                vh::P("evaluations_within_limits", "LBFGSB.evalbox.roundoff_overshoot", worst, 0.0);
            else vh::P("evaluations_within_limits", key + ".evalbox", worst, 0.0);
        }
        else {
            // numerical derivatives: simbody's wrapper hands the Differentiator a base point inside the limits, but the
            // difference stencil x_i +/- h_i is evaluated without regard to the limits
            vh::P("evaluations_within_limits_numdiff_stencil", "opt.numdiff.stencil_outside_limits", worst, 0.0);
            vh::P("base_points_within_limits", key + ".basebox", worstBase, 0.0);
        }
        vh::P("result_within_limits", key + ".retbox", worstRet, 0.0);
    }
    // (4) interior point: constraints within the constraint tolerance
    if (alg == InteriorPoint && P.nEq + P.nIneq > 0) {
        double worst = 0;
        for (int r = 0; r < P.nEq + P.nIneq; ++r) {
            long double s = 0; for (int j = 0; j < n; ++j) s += (long double)P.C[r * n + j] * xret[j];
            double c = (double)(s - P.d[r]);
            worst = std::max(worst, r < P.nEq ? std::fabs(c) : -c);
        }
        vh::P("constraints_within_tolerance", key + ".feasible", worst, R.ctol * 1.000001);
    }
    // (5) strictly convex problems: the returned point is the (designed, KKT-certified) unique minimiser within tolerance
    if (P.haveStar && R.forceFail != 2 && R.forceFail != 3) {   // 3: CMA-ES run with a capped budget (limits lattice): convergence not claimed
             // (a user-supplied wrong gradient voids the optimality claim, not the others)
        double e2 = 0; for (int i = 0; i < n; ++i) e2 += (xret[i] - P.xstar[i]) * (xret[i] - P.xstar[i]);
        vh::P("unique_minimiser_within_tol", key + ".nearopt", std::sqrt(e2), nearBound(alg, R, n, fret, P.fAt(P.xstar.data()), P.hasLim));
    }
}

static long gTotal[8] = {0}, gOk[8] = {0};
static int runCase(Prob& P, const Run& R, const std::string& tag) {
    int n = P.n;
    int alg = -1, status = 0;
    double fret = 0, acc = SignificantReal;
    std::vector<double> xret(n, 0.0);
    try {
        Optimizer opt(P, (OptimizerAlgorithm)R.req);
        alg = (int)opt.getAlgorithm();
        opt.setConvergenceTolerance(R.tol);
        opt.setConstraintTolerance(R.ctol);
        opt.setMaxIterations(R.forceFail == 1 ? 2 : R.forceFail == 3 ? 40 : (alg == CMAES ? 3000 : 1000));
        opt.setLimitedMemoryHistory(20);
        opt.setDiagnosticsLevel(0);
        if (alg != CMAES) {
            opt.setDifferentiatorMethod(R.method == 1 ? Differentiator::CentralDifference : Differentiator::ForwardDifference);
            if (R.numGrad) opt.useNumericalGradient(true);
            if (R.numJac && P.nEq + P.nIneq > 0) opt.useNumericalJacobian(true);
        } else {
            opt.setAdvancedIntOption("seed", R.seed);
            opt.setAdvancedRealOption("init_stepsize", 0.5);
            opt.setAdvancedRealOption("maxTimeFractionForEigendecomposition", 1);   // documented requirement for reproducibility
        }
        acc = opt.getEstimatedAccuracyOfObjective();
        Vector x(n); for (int i = 0; i < n; ++i) x[i] = R.x0[i];
        P.resetLog();
        try {
            fret = opt.optimize(x);
        } catch (const std::exception&) { status = 1; }
        for (int i = 0; i < n; ++i) xret[i] = x[i];
        if (status == 0 && alg == CMAES) {
            // reproducibility with a fixed seed: a second optimizer on the same system must return identical bits
            std::vector<Prob::Ev> keepLog = P.log; long c0 = P.cnt[0]; std::vector<double> eL = P.envLo, eH = P.envHi;
            Optimizer opt2(P, CMAES);
            opt2.setConvergenceTolerance(R.tol); opt2.setMaxIterations(R.forceFail == 3 ? 40 : 3000); opt2.setDiagnosticsLevel(0);
            opt2.setAdvancedIntOption("seed", R.seed); opt2.setAdvancedRealOption("init_stepsize", 0.5);
            opt2.setAdvancedRealOption("maxTimeFractionForEigendecomposition", 1);
            Vector y(n); for (int i = 0; i < n; ++i) y[i] = R.x0[i];
            double f2 = NAN; bool same = true;
            try { f2 = opt2.optimize(y); } catch (const std::exception&) { same = false; }
            same = same && std::memcmp(&f2, &fret, 8) == 0 && c0 * 2 == P.cnt[0];
            for (int i = 0; i < n && same; ++i) same = std::memcmp(&y[i], &xret[i], 8) == 0;
            // restore the first run's log
            P.log = keepLog; P.cnt[0] = c0; for (int i = 0; i < n; ++i) { P.envLo[i] = std::min(eL[i], P.envLo[i]); P.envHi[i] = std::max(eH[i], P.envHi[i]); }
            emitRecord(P, R, alg, status, fret, xret, acc);
            vh::P("cmaes_reproducible", tag + ".repro", same ? 0 : 1, 0);
        } else {
            emitRecord(P, R, alg, status, fret, xret, acc);
        }
    } catch (const std::exception& e) {
        // construction failed (e.g. CMAES with n<2): nothing returned, nothing to check
        P.resetLog();
        emitRecord(P, R, alg < 0 ? 6 : alg, 2, 0.0, xret);
        vh::D(tag + ".ctorEXC");
        return 2;
    }
    vh::D(std::string(algName(alg)) + "." + tag + (status ? ".EXC" : ".ok"));
    if ((R.forceFail == 0 || R.forceFail == 3) && alg >= 0 && alg < 8) { gTotal[alg]++; if (status == 0) gOk[alg]++; }
    vh::D("req." + std::string(algName(R.req)) + "->" + algName(alg));
    // wrapper logic: which user virtuals may be called
    if (alg != CMAES) {
        if (R.numGrad) vh::P("numgrad_never_calls_user_gradient", tag + ".numgrad.usergrad", (double)P.cnt[1], 0);
        else           vh::P("analytic_gradient_used", tag + ".anagrad", P.cnt[1] > 0 ? 0 : 1, 0);
        if (R.numJac && P.nEq + P.nIneq > 0) vh::P("numjac_never_calls_user_jacobian", tag + ".numjac.userjac", (double)P.cnt[3], 0);
    } else {
        vh::P("cmaes_is_derivative_free", tag + ".cmaes.nograd", (double)(P.cnt[1] + P.cnt[3]), 0);
    }
    const std::string akey = std::string(algName(alg)) + "." + tag;
    if (status == 0) predicates(P, R, alg, fret, xret, akey);
    else {
        // The optimizer left by an exception.  Nothing is "returned", but the caller's vector was written and the objective
        // was evaluated: limits must still have been honoured, and a descent method must not leave a worse point behind.
        const bool numdiff = alg != CMAES && (R.numGrad || (R.numJac && P.nEq + P.nIneq > 0));
        bool startInside = true; for (int i = 0; i < n; ++i) startInside = startInside && (!P.hasLim || (P.lo[i] <= R.x0[i] && R.x0[i] <= P.hi[i]));
        if (P.hasLim && !numdiff && (alg == LBFGSB || alg == CMAES || (alg == InteriorPoint && startInside))) {
            double worst = 0, worstLeft = 0;
            for (int i = 0; i < n; ++i) {
                double relax = (alg == InteriorPoint) ? 1.0000001e-8 : 0.0;
                double rl = std::isinf(P.lo[i]) ? 0 : relax * std::max(1.0, std::fabs(P.lo[i])), rh = std::isinf(P.hi[i]) ? 0 : relax * std::max(1.0, std::fabs(P.hi[i]));
                worst = std::max(worst, std::max((P.lo[i] - rl) - P.envLo[i], P.envHi[i] - (P.hi[i] + rh)));
                worstLeft = std::max(worstLeft, std::max((P.lo[i] - rl) - xret[i], xret[i] - (P.hi[i] + rh))); }
            vh::P("evaluations_within_limits", akey + ".exc.evalbox", P.cnt[0] + P.cnt[1] ? worst : 0.0, 0.0);
            if (alg != CMAES) vh::P("vector_left_within_limits", akey + ".exc.leftbox", worstLeft, 0.0);
        }
        if (alg == LBFGS || alg == LBFGSB) {
            std::vector<double> s0 = R.x0;
            if (P.hasLim && alg == LBFGSB) for (int i = 0; i < n; ++i) s0[i] = std::min(std::max(s0[i], P.lo[i]), P.hi[i]);
            { double f0 = P.fAt(s0.data()); vh::P("vector_left_not_worse_than_start", akey + ".exc.descent", P.fAt(xret.data()) - f0, 1e-12 * (1 + std::fabs(f0))); }   // the restored vector is x0 + a*d - a*d: rounding
        }
    }
    return status;
}

// ---------------------------------------------------------------- generators
static double pick3(vh::Rng& g, double a, double b, double c) { int k = g.below(3); return k == 0 ? a : k == 1 ? b : c; }
static double quarter(vh::Rng& g, int lo4, int hi4) { return g.smallInt(lo4, hi4) / 4.0; }

static void genQuad(vh::Rng& g, Prob& P, int n, bool box, int nEq, int nIneq) {
    P.n = n; P.ptype = 0; P.nEq = nEq; P.nIneq = nIneq; P.hasLim = box; P.cR = 1;
    P.L.assign(n * n, 0.0); P.A.assign(n * n, 0.0); P.b.assign(n, 0.0);
    for (int i = 0; i < n; ++i) for (int j = 0; j <= i; ++j) P.L[i * n + j] = (g.below(3) == 0) ? 0.0 : g.smallInt(-2, 2);
    for (int i = 0; i < n; ++i) for (int j = 0; j < n; ++j) {
        double s = (i == j) ? 1.0 : 0.0;
        for (int k = 0; k < n; ++k) s += P.L[i * n + k] * P.L[j * n + k];
        P.A[i * n + j] = s;
    }
    P.haveStar = true;
    P.xstar.assign(n, 0.0); for (auto& v : P.xstar) v = quarter(g, -8, 8);
    P.lo.assign(n, -INF); P.hi.assign(n, INF); P.zlo.assign(n, 0.0); P.zhi.assign(n, 0.0);
    if (box) for (int i = 0; i < n; ++i) {
        int kind = g.below(8);          // 0 unbounded, 1 lower only, 2 upper only, 3.. both
        bool hasLo = kind == 1 || kind >= 3, hasHi = kind == 2 || kind >= 3;
        int act = g.below(4);           // 0 lower active, 1 upper active, else inactive
        if (hasLo) { if (act == 0) { P.lo[i] = P.xstar[i]; P.zlo[i] = g.smallInt(1, 6) / 2.0; } else P.lo[i] = P.xstar[i] - g.smallInt(1, 6) / 2.0; }
        if (hasHi) { if (act == 1 && !(hasLo && act == 0)) { P.hi[i] = P.xstar[i]; P.zhi[i] = g.smallInt(1, 6) / 2.0; } else P.hi[i] = P.xstar[i] + g.smallInt(1, 6) / 2.0; }
    }
    int nc = nEq + nIneq;
    P.C.assign(nc * n, 0.0); P.d.assign(nc, 0.0); P.mult.assign(nc, 0.0);
    for (int r = 0; r < nc; ++r) {
        bool nz = false;
        while (!nz) for (int j = 0; j < n; ++j) { P.C[r * n + j] = g.smallInt(-2, 2); nz = nz || P.C[r * n + j] != 0; }
        double cx = 0; for (int j = 0; j < n; ++j) cx += P.C[r * n + j] * P.xstar[j];
        if (r < nEq) { P.d[r] = cx; P.mult[r] = g.smallInt(-4, 4) / 2.0; }
        else if (g.coin()) { P.d[r] = cx; P.mult[r] = g.smallInt(1, 6) / 2.0; }     // active
        else { P.d[r] = cx - g.smallInt(1, 6) / 2.0; P.mult[r] = 0; }              // inactive
    }
    for (int i = 0; i < n; ++i) {
        double s = 0; for (int j = 0; j < n; ++j) s += P.A[i * n + j] * P.xstar[j];
        for (int r = 0; r < nc; ++r) s -= P.C[r * n + i] * P.mult[r];
        P.b[i] = s - P.zlo[i] + P.zhi[i];
    }
    P.finish();
}
static void genRosen(vh::Rng& g, Prob& P, int n, bool box) {
    P.n = n; P.ptype = 1; P.nEq = P.nIneq = 0; P.hasLim = box; P.cR = g.smallInt(1, 10);
    P.L.assign(n * n, 0.0); P.A.assign(n * n, 0.0); P.b.assign(n, 0.0); P.C.clear(); P.d.clear(); P.mult.clear();
    P.haveStar = false; P.xstar.assign(n, 0.0); P.zlo.assign(n, 0.0); P.zhi.assign(n, 0.0);
    P.lo.assign(n, -INF); P.hi.assign(n, INF);
    if (box) for (int i = 0; i < n; ++i) {
        int kind = g.below(6);
        if (kind == 1 || kind >= 3) P.lo[i] = quarter(g, -8, 2);
        if (kind == 2 || kind >= 3) P.hi[i] = (std::isinf(P.lo[i]) ? 0.0 : P.lo[i]) + g.smallInt(2, 10) / 4.0 + 0.5;
    }
    P.finish();
}
// ---- limits lattice: convex SEPARABLE objective f = 1/2|x|^2 - b'x (A = I) with a designed constrained minimiser
// limKind 0 two-sided, 1 lower-only, 2 upper-only, 3 mixed, 4 some infinite;  optBoundary: about half the bounded coordinates active
static void genLattice(vh::Rng& g, Prob& P, int n, int limKind, bool optBoundary) {
    P.n = n; P.ptype = 0; P.nEq = P.nIneq = 0; P.hasLim = true; P.cR = 1;
    P.L.assign(n * n, 0.0); P.A.assign(n * n, 0.0); for (int i = 0; i < n; ++i) P.A[i * n + i] = 1.0;
    P.C.clear(); P.d.clear(); P.mult.clear();
    P.haveStar = true; P.xstar.assign(n, 0.0); for (auto& v : P.xstar) v = quarter(g, -8, 8);
    P.lo.assign(n, -INF); P.hi.assign(n, INF); P.zlo.assign(n, 0.0); P.zhi.assign(n, 0.0); P.b.assign(n, 0.0);
    bool any = false;
    for (int i = 0; i < n; ++i) {
        bool hasLo, hasHi;
        switch (limKind) {
            case 0: hasLo = hasHi = true; break;
            case 1: hasLo = true; hasHi = false; break;
            case 2: hasLo = false; hasHi = true; break;
            case 3: { int k = g.below(3); hasLo = k != 2; hasHi = k != 1; break; }
            default: { int k = g.below(4); hasLo = k == 1 || k == 3; hasHi = k == 2 || k == 3; if (i == n - 1 && !any) hasLo = true; break; }
        }
        any = any || hasLo || hasHi;
        int act = optBoundary ? g.below(3) : 2;          // 0 lower active, 1 upper active, 2 inactive
        if (hasLo) { if (act == 0) { P.lo[i] = P.xstar[i]; P.zlo[i] = g.smallInt(1, 6) / 2.0; } else P.lo[i] = P.xstar[i] - g.smallInt(1, 6) / 2.0; }
        if (hasHi) { if (act == 1 || (act == 0 && !hasLo)) { P.hi[i] = P.xstar[i]; P.zhi[i] = g.smallInt(1, 6) / 2.0; } else P.hi[i] = P.xstar[i] + g.smallInt(1, 6) / 2.0; }
        P.b[i] = P.xstar[i] - P.zlo[i] + P.zhi[i];
    }
    P.finish();
}
// startKind 0 interior, 1 on one face, 2 on an edge (two bounds), 3 on a corner (every bounded coordinate on one of its bounds)
static void genLatticeStart(vh::Rng& g, const Prob& P, Run& R, int startKind) {
    int n = P.n; R.x0.assign(n, 0.0);
    std::vector<int> bounded;
    for (int i = 0; i < n; ++i) {
        bool fl = !std::isinf(P.lo[i]), fh = !std::isinf(P.hi[i]);
        if (fl && fh) R.x0[i] = P.lo[i] + (P.hi[i] - P.lo[i]) * (1 + g.below(7)) / 8.0;
        else if (fl) R.x0[i] = P.lo[i] + (1 + g.below(8)) / 4.0;
        else if (fh) R.x0[i] = P.hi[i] - (1 + g.below(8)) / 4.0;
        else R.x0[i] = P.xstar[i] + g.smallInt(-8, 8) / 8.0;
        if (fl || fh) bounded.push_back(i);
    }
    int onBound = startKind == 0 ? 0 : startKind == 1 ? 1 : startKind == 2 ? 2 : (int)bounded.size();
    for (int i = (int)bounded.size() - 1; i > 0; --i) std::swap(bounded[i], bounded[g.below(i + 1)]);
    for (int k = 0; k < onBound && k < (int)bounded.size(); ++k) { int i = bounded[k];
        bool fl = !std::isinf(P.lo[i]), fh = !std::isinf(P.hi[i]);
        R.x0[i] = (fl && fh) ? (g.coin() ? P.lo[i] : P.hi[i]) : fl ? P.lo[i] : P.hi[i]; }
}

static void genStart(vh::Rng& g, const Prob& P, Run& R, bool forceFeasible) {
    R.x0.assign(P.n, 0.0);
    for (int i = 0; i < P.n; ++i) {
        double base = P.haveStar ? P.xstar[i] : 0.0;
        R.x0[i] = base + g.smallInt(-16, 16) / 8.0;
        if (P.hasLim && forceFeasible) {
            if (R.x0[i] < P.lo[i]) R.x0[i] = P.lo[i] + (std::isinf(P.hi[i]) ? 0.25 : (P.hi[i] - P.lo[i]) / 4);
            if (R.x0[i] > P.hi[i]) R.x0[i] = P.hi[i] - (std::isinf(P.lo[i]) ? 0.25 : (P.hi[i] - P.lo[i]) / 4);
        }
    }
}

static void selectCase(int req, int nEq, int nIneq, bool lim) {
    Prob P; P.n = 2; P.ptype = 1; P.nEq = nEq; P.nIneq = nIneq; P.hasLim = lim;
    P.lo.assign(2, -1.0); P.hi.assign(2, 1.0); P.C.assign((nEq + nIneq) * 2, 1.0); P.d.assign(nEq + nIneq, 0.0);
    P.finish();
    vh::I("select").i(req).i(nEq).i(nIneq).i(lim).emit();
    try {
        Optimizer opt(P, (OptimizerAlgorithm)req);
        std::printf("O select %d\n", (int)opt.getAlgorithm());
        // setOptimizerSystem takes the same route
        Optimizer o2; o2.setOptimizerSystem(P, (OptimizerAlgorithm)req);
        vh::P("setOptimizerSystem_same_selection", "select.setsys", std::abs((int)o2.getAlgorithm() - (int)opt.getAlgorithm()), 0);
        if (req == 0) { Optimizer o3(P); vh::P("default_ctor_is_BestAvailable", "select.default", std::abs((int)o3.getAlgorithm() - (int)opt.getAlgorithm()), 0); }
    } catch (const std::exception&) { std::printf("O select EXC\n"); }
    vh::D("select");
}

static void replayOpt(std::istringstream& is) {
    long iv[20]; for (auto& v : iv) is >> v;
    auto rd = [&]() { std::string t; is >> t; return vh::unhex(t); };
    Prob P; Run R;
    R.req = (int)iv[0]; int n = P.n = (int)iv[2]; P.nEq = (int)iv[3]; P.nIneq = (int)iv[4]; P.hasLim = iv[5] != 0;
    R.numGrad = (int)iv[6]; R.numJac = (int)iv[7]; R.method = (int)iv[8]; P.ptype = (int)iv[9]; P.haveStar = iv[17] != 0; R.seed = (int)iv[18]; R.forceFail = (int)iv[19]; P.gradSign = R.forceFail == 2 ? -1 : 1;
    R.tol = rd(); R.ctol = rd(); P.cR = rd(); (void)rd();
    int nc = P.nEq + P.nIneq;
    P.L.resize(n * n); for (auto& v : P.L) v = rd();
    P.b.resize(n); for (auto& v : P.b) v = rd();
    P.lo.resize(n); for (auto& v : P.lo) v = rd();
    P.hi.resize(n); for (auto& v : P.hi) v = rd();
    P.C.resize(nc * n); for (auto& v : P.C) v = rd();
    P.d.resize(nc); for (auto& v : P.d) v = rd();
    P.xstar.resize(n); for (auto& v : P.xstar) v = rd();
    P.mult.resize(nc); for (auto& v : P.mult) v = rd();
    P.zlo.resize(n); for (auto& v : P.zlo) v = rd();
    P.zhi.resize(n); for (auto& v : P.zhi) v = rd();
    R.x0.resize(n); for (auto& v : R.x0) v = rd();
    P.A.assign(n * n, 0.0);
    for (int i = 0; i < n; ++i) for (int j = 0; j < n; ++j) {
        double s = (i == j) ? 1.0 : 0.0;
        for (int k = 0; k < n; ++k) s += P.L[i * n + k] * P.L[j * n + k];
        P.A[i * n + j] = s;
    }
    P.finish();
    runCase(P, R, "replay");
}
static void replay() {
    static char buf[1 << 24];
    while (std::fgets(buf, sizeof buf, stdin)) {
        std::istringstream is(buf); std::string k, fn; is >> k >> fn;
        if (k != "I") continue;
        if (fn == "select") { int a, b, c, d; is >> a >> b >> c >> d; selectCase(a, b, c, d != 0); }
        else if (fn == "opt") replayOpt(is);
    }
}

int main(int argc, char** argv) {
    vh::Args args(argc, argv);
    // c-cmaes writes "actparcmaes.par" into the current directory: keep that out of the repository
    { const char* d = "/tmp/agent-C39"; mkdir(d, 0755); if (chdir(d) != 0) { /* stay where we are */ } }
    if (args.mode == "replay") { replay(); return 0; }
    bool thorough = args.n > 1000;
    LOGCAP = 400;
    int maxN = thorough ? 20 : 8;
    // exhaustive selection table
    for (int req = 0; req <= 7; ++req) for (int ne = 0; ne <= 1; ++ne) for (int ni = 0; ni <= 1; ++ni) for (int lim = 0; lim <= 1; ++lim)
        selectCase(req, ne, ni, lim != 0);
    vh::Rng g(args.seed * 7919 + 39);
    const bool haveIP = Optimizer::isAlgorithmAvailable(InteriorPoint), haveL = Optimizer::isAlgorithmAvailable(LBFGS),
               haveLB = Optimizer::isAlgorithmAvailable(LBFGSB), haveCM = Optimizer::isAlgorithmAvailable(CMAES);
    long latticeSeen[4][3][4] = {{{0}}};
    static const int latAlg[4] = {LBFGSB, InteriorPoint, CMAES, BestAvailable};
    static const char* dimName[3] = {"n2", "n5", "n9to16"}; static const char* startName[4] = {"interior", "face", "edge", "corner"};
    static const char* limName[5] = {"twoSided", "lowerOnly", "upperOnly", "mixed", "someInfinite"};
    for (long k = 0; k < args.n; ++k) {
        if (k % 4 == 3) {
            // limits lattice: optimizer x dimension class x start class are a function of (seed, k): every cell is guaranteed
            long idx = k / 4 + 5 * (long)args.seed; int ai = (int)(idx % 4), di = (int)((idx / 4) % 3), si = (int)((idx / 12) % 4);
            int alg = latAlg[ai]; if (!Optimizer::isAlgorithmAvailable((OptimizerAlgorithm)(alg == BestAvailable ? LBFGSB : alg))) continue;
            int n = di == 0 ? 2 : di == 1 ? 5 : 9 + g.below(8);
            int limKind = g.below(5); bool optB = g.coin();
            Prob P; Run R; genLattice(g, P, n, limKind, optB); genLatticeStart(g, P, R, si);
            R.req = alg; R.tol = alg == CMAES ? 1e-8 : pick3(g, 1e-4, 1e-6, 1e-8); R.ctol = 1e-6; R.seed = 1 + g.below(1000);
            R.numGrad = (alg != CMAES && g.below(4) == 0); R.method = 1; if (R.numGrad) R.tol = std::max(R.tol, 1e-6);
            if (alg == CMAES) R.forceFail = 3;          // capped budget: the limits predicates do not need convergence
            std::string tag = std::string("lattice.") + dimName[di] + "." + startName[si] + "." + limName[limKind] + (optB ? ".optBoundary" : ".optInterior");
            if (R.numGrad) tag += ".numC";
            vh::D(std::string("lattice.") + algName(alg) + "." + dimName[di] + "." + startName[si]);
            int st = runCase(P, R, tag);
            if (st == 0) latticeSeen[ai][di][si]++;
            continue;
        }
        int n = 1 + g.below(maxN);
        if (g.below(4) == 0) n = 1 + g.below(3);
        int stream = g.below(20);
        Prob P; Run R;
        R.tol = pick3(g, 1e-4, 1e-6, 1e-8);
        R.ctol = (g.coin() ? 1e-4 : 1e-6);
        R.numGrad = g.below(3) == 0; R.numJac = g.below(3) == 0; R.method = g.below(3) == 0 ? 0 : 1;
        if (R.numGrad) R.tol = std::max(R.tol, R.method == 1 ? 1e-6 : 1e-4);
        R.seed = 1 + g.below(1000);
        std::string tag;
        if (stream <= 2 && haveL) {            // unconstrained quadratic, LBFGS (explicit or via BestAvailable)
            genQuad(g, P, n, false, 0, 0); R.req = g.below(3) == 0 ? BestAvailable : LBFGS; genStart(g, P, R, false); tag = "quad";
        } else if (stream <= 4 && haveLB) {    // unconstrained quadratic through LBFGSB (no limits)
            genQuad(g, P, n, false, 0, 0); R.req = LBFGSB; genStart(g, P, R, false); tag = "quad";
        } else if (stream <= 8 && haveLB) {    // box quadratic, LBFGSB (explicit or via BestAvailable); sometimes infeasible start
            genQuad(g, P, n, true, 0, 0); R.req = g.below(3) == 0 ? BestAvailable : LBFGSB; genStart(g, P, R, g.coin()); tag = "quadbox";
        } else if (stream <= 10 && haveIP) {   // box quadratic, IPOPT
            genQuad(g, P, n, g.coin(), 0, 0); R.req = InteriorPoint; genStart(g, P, R, g.coin()); tag = P.hasLim ? "quadbox" : "quad";
        } else if (stream <= 13 && haveIP) {   // linear equality / inequality constraints (+ box), IPOPT (explicit or BestAvailable)
            int ne = g.below(std::max(1, std::min(n, 3))), ni = g.below(3);
            if (ne + ni == 0) ni = 1;
            genQuad(g, P, n, g.coin(), ne, ni); R.req = g.below(3) == 0 ? BestAvailable : InteriorPoint; genStart(g, P, R, g.coin()); tag = "quadlin";
        } else if (stream <= 15 && haveCM) {   // CMAES (n >= 2; n = 1 is a constructor error)
            int nn = g.below(12) == 0 ? 1 : 2 + g.below(thorough ? 5 : 3);
            bool box = g.coin();
            genQuad(g, P, nn, box, 0, 0); R.req = CMAES; genStart(g, P, R, g.below(8) != 0); tag = box ? "quadbox" : "quad";
            R.tol = pick3(g, 1e-6, 1e-8, 1e-10);
        } else if (stream <= 17) {             // Rosenbrock-like, descent methods
            bool box = g.coin();
            genRosen(g, P, n, box); R.req = box ? (g.coin() ? LBFGSB : BestAvailable) : (g.coin() ? LBFGS : LBFGSB);
            genStart(g, P, R, true); tag = box ? "rosenbox" : "rosen";
        } else if (stream == 18 && haveCM) {   // Rosenbrock-like, CMAES with limits
            genRosen(g, P, 2 + g.below(2), true); R.req = CMAES; genStart(g, P, R, true); tag = "rosenbox";
            for (int i = 0; i < P.n; ++i) { if (std::isinf(P.lo[i]) && R.x0[i] < -2) R.x0[i] = 0; }
            R.tol = 1e-8;
        } else {                               // requested CFSQP (not available in this build): falls back to BestAvailable's choice
            bool box = g.coin();
            genQuad(g, P, n, box, 0, 0); R.req = CFSQP; genStart(g, P, R, true); tag = box ? "quadbox" : "quad";
        }
        if (P.n == 0) continue;
        if (R.req == CMAES) R.numGrad = R.numJac = 0;
        // a guaranteed share of runs that must end in an exception (the exception path has predicates of its own)
        if (R.req != CMAES && R.req != CFSQP && g.below(12) == 0) {
            bool ip = R.req == InteriorPoint || (R.req == BestAvailable && P.nEq + P.nIneq > 0);
            if (ip) { R.forceFail = 1; tag += ".maxIter2"; }
            else if (!R.numGrad) { R.forceFail = 2; P.gradSign = -1; tag += ".wrongGradSign"; }
        }
        if (R.numGrad) tag += R.method == 1 ? ".numC" : ".numF";
        runCase(P, R, tag);
    }
    // floors: the result predicates are only evaluated when the optimizer returns; a regression that makes an algorithm throw
    // on (nearly) every problem must not pass silently.  Measured share of returning runs on the clean tree: 100 % for all four.
    // every optimizer that supports limits must have reached the result predicates in the hardest cell (dimension 9..16, start on a
    // corner) and in at least 10 of the 12 dimension x start cells
    if (args.n >= 200) for (int ai = 0; ai < 4; ++ai) {
        int cells = 0; for (int di = 0; di < 3; ++di) for (int si = 0; si < 4; ++si) if (latticeSeen[ai][di][si] > 0) ++cells;
        vh::I("floor").i(100 + ai).i(12).i(cells).emit(); std::printf("O floor 1\n");
        vh::P("guaranteed_class_reached_result_predicates", std::string("floor.lattice.") + algName(latAlg[ai]) + ".n9to16.corner", latticeSeen[ai][2][3] > 0 ? 0 : 1, 0);
        vh::P("guaranteed_classes_reached_result_predicates", std::string("floor.lattice.") + algName(latAlg[ai]) + ".cells", 10 - cells, 0);
    }
    for (int a : {(int)InteriorPoint, (int)LBFGS, (int)LBFGSB, (int)CMAES}) {
        if (gTotal[a] < 5) continue;
        vh::I("floor").i(a).i(gTotal[a]).i(gOk[a]).emit(); std::printf("O floor 1\n");
        vh::P("share_of_runs_reaching_result_predicates", std::string("floor.") + algName(a), 0.9 - (double)gOk[a] / gTotal[a], 0.0);
    }
    return 0;
}
