// C09 correspondence harness (uses harness/ceq_tree.h, CEQ_TREE_VERSION 6).
// Property C09: "Successful projection lands on the constraint manifold minimally".
//
// Every I line starts with  <fn> <seed> <case#> <rec#>  so that one record identifies the generated case; `--mode replay`
// regenerates exactly the cases named by the I lines on stdin.
//
// Streams (case k, k mod 16):
//   general  random tree (2-6 bodies, 13 mobilizer types, Euler/quaternion) + 1-4 random constraints, optional
//            Motion::Sinusoid, optional lock (position or velocity), optional random weights (Wu, Tp, Tpv);
//            assembled with System::project from a random state (discarded when that throws), then 3 rounds of
//            perturbation (q and u, 0 or 1e-8..1e-1, unnormalised quaternions) + System::projectQ/projectU with random
//            ProjectOptions.
//   linear   qdot==u mobilizers, constraints LINEAR in q (ConstantCoordinate, CoordinateCoupler with a linear function)
//            (+ ConstantSpeed rows for projectU), random weights, optional lock: the correction is compared with the
//            weighted minimum-norm solution.
//   degenerate  (a) a quaternion of length zero; (b) Slider + Rod in the configuration where the Rod's Jacobian
//            vanishes (or is tiny) and the Rod cannot be met.
//
// Model-compared records (answered by lean/Drivers/C09.lean running SimbodyModel/C09.lean at Float):
//   I projQ  s k r flags acc overshoot limit sig mHolo mQuats qerr0[mHolo+mQuats] Tp[mHolo]
//                  status its anyChange limitExceeded threw restored normIn normOut quatErrAfter[mQuats]
//   O projQ  normIn worstIndex status its anyChange limitExceeded threw restored normOut      (restored: q bitwise as passed in)
//       the model recomputes normIn / worst index from qerr0 and the weights; when the skeleton takes an early exit
//       (projection limit, nothing to do, quaternions only) it predicts every field; on the Newton path the observed
//       fields must be ACCEPTED by the kind-K contract `acceptsQ` (else the driver answers REJECT).
//   I projU / O projU   the same for projectU (uerr0, Tpv).
//   I normq  s k r w x y z           / O normq  4 doubles      SimbodyMatterSubsystem::normalizeQuaternions on one Ball
//   I packQ|packU s k r n nf free… all[n] packedIn[nf] base[n] / O … packed[nf] unpacked[n]   packFreeQ/unpackFreeQ (U)
//   I minnorm s k r which m n nf free… A[m*n] tp[m] Wu[n] u0[n] b[m]  / T 1e-8 1e-10 / O minnorm x[n]
//       x = correction actually applied (q_before - q_after, resp. u); model: E (Tp A E)^+ Tp b on free columns with the
//       column scale E computed BY THE MODEL: 1/Wu (position), uRelScale(u0,Wu) (velocity)
//   I minnormN s k r m nq nu nf free… Pq[m*nq] N[nq*nu] NInv[nu*nq] Tp[m] Wu[nu] perr[m] / T 1e-8 1e-10 / O minnormN dq[nq]
//       the same for mobilizers with N != identity (stream linearN): model  S = N Wu^-1 N^+,  dq = S (Tp Pq S)_r^+ Tp perr
//   I dispatch s k r accuracy threwQ threwU / O dispatch effAcc overshoot limit flags threw same
//       System::project(state, accuracy) against the documented call sequence with the options the model states
//   I normqP s k r free1 free2 q1(4) q2(4) / O normqP 8 doubles   normalizeQuaternions skips a prescribed (locked) quaternion
//   I errq s k r quat(4) errEst(4) / O errq quat'(4) errEst'(4)   projectQ on a free Ball with a q error estimate
//   I projQt s k r flags acc overshoot limit sig mHolo mQuats Tp[mHolo] nEv {event iter n vals[n]}…  / O projQt <as projQ>
//   I projUt s k r flags acc overshoot limit sig m Tpv[m] nEv {event iter n vals[n]}…               / O projUt <as projU>
//       ONLY when the library exports the per-iteration hook `SimTK_verif_projectTrace` (notes/C09_hook.patch; looked
//       up with dlsym at start-up, absent on the current tree): the error vectors seen by every decision of
//       projectQ/projectU are replayed through the FULL skeleton `runQ`/`runU`, which must predict every result field.
// Implementation-only records  I chk <what> s k r / O chk 1  carry P lines only.
//
// Predicates (P lines; the property's own clauses evaluated on the implementation's outputs):
//   success_finite  <site>.nonfinite.success_sound   success reported but q/u/errors are NaN/Inf
//   perr_le_acc     recomputed weighted perr norm (RMS or max, as requested) <= accuracy
//   quat_le_acc     recomputed quaternion-length error norm <= accuracy        (state left untouched)
//   quat_unit       every quaternion in use has unit length to 1e-14           (state was changed)
//   uerr_le_acc     recomputed weighted velocity-error norm <= accuracy
//   prescribed_kept prescribed q's bitwise equal to what prescribeQ put there (and to the lock value)
//   q_untouched     projectU leaves every q bitwise unchanged
//   unchanged       entry norms <= accuracy and not forced: q (u) bitwise unchanged and anyChangeMade == false
//   forced_iterates ForceProjection and a nonzero error norm on entry: at least one iteration is made (anyChangeMade)
//   minnorm_kkt     Wu*dq lies in the row space of (Pq Wu^-1) restricted to free columns (KKT of the weighted min-norm)
//   minnorm_solves  Pq dq == perr0 (the correction removes the whole linear error)
#include "ceq_tree.h"
#include <set>
#include <map>
#include <dlfcn.h>
using namespace SimTK;
using namespace ceq;
using vh::hex;

namespace {

const double kNaN = std::numeric_limits<double>::quiet_NaN();

struct Ctx {
    uint64_t seed; long k; int rec = 0;
    vh::Line I(const std::string& fn) { vh::Line L = vh::I(fn); L.i((long long)seed).i(k).i(rec++); return L; }
};

bool finiteV(const Vector& v) { for (int i = 0; i < v.size(); ++i) if (!std::isfinite(v[i])) return false; return true; }

// NaN-propagating norms of e[off..off+n) (optionally weighted) -- the harness's own recomputation
double normOf(const Vector& e, int off, int n, const Vector* w, bool useInf) {
    if (n == 0) return 0;
    double s = 0, mx = 0;
    for (int i = 0; i < n; ++i) {
        double v = e[off + i] * (w ? (*w)[off + i] : 1.0);
        if (std::isnan(v)) return kNaN;
        s += v * v; if (std::abs(v) > mx) mx = std::abs(v);
    }
    return useInf ? mx : std::sqrt(s / n);
}

struct Outcome { int status = -1, its = 0, worst = -1; bool anyChange = false, limEx = false, threw = false, restored = false; double normIn = kNaN, normOut = kNaN; };

int flagsOf(const ProjectOptions& o) {
    return (o.isOptionSet(ProjectOptions::LocalOnly) ? 1 : 0) | (o.isOptionSet(ProjectOptions::DontThrow) ? 2 : 0) |
           (o.isOptionSet(ProjectOptions::UseInfinityNorm) ? 4 : 0) | (o.isOptionSet(ProjectOptions::ForceProjection) ? 8 : 0) |
           (o.isOptionSet(ProjectOptions::ForceFullNewton) ? 16 : 0);
}

Outcome fill(const ProjectResults& r, bool threw) {
    Outcome o; o.threw = threw; o.status = (int)r.getExitStatus();
    if (r.isValid()) {
        o.its = r.getNumIterations(); o.worst = r.getWorstErrorOnEntrance(); o.anyChange = r.getAnyChangeMade();
        o.limEx = r.getProjectionLimitExceeded(); o.normIn = r.getNormOnEntrance(); o.normOut = r.getNormOnExit();
    }
    return o;
}
// optional per-iteration hook (notes/C09_hook.patch): `extern "C" void (*SimTK_verif_projectTrace)(which,event,iter,errs,n)`
typedef void (*TraceFn)(int, int, int, const double*, int);
TraceFn* g_traceVar = nullptr;
struct TraceEv { int which, event, iter; std::vector<double> v; };
std::vector<TraceEv> g_trace;
void collectTrace(int which, int event, int iter, const double* e, int n) { g_trace.push_back({which, event, iter, std::vector<double>(e, e + n)}); }

Outcome callQ(const MultibodySystem& sys, State& s, const ProjectOptions& o, Vector& errEst) {
    ProjectResults r; bool threw = false;
    g_trace.clear(); if (g_traceVar) *g_traceVar = collectTrace;
    try { sys.projectQ(s, errEst, o, r); } catch (const std::exception& e) { threw = true; if (std::getenv("C09_DEBUG")) std::fprintf(stderr, "projectQ threw: %s\n", e.what()); }
    if (g_traceVar) *g_traceVar = nullptr;
    return fill(r, threw);
}
Outcome callU(const MultibodySystem& sys, State& s, const ProjectOptions& o, Vector& errEst) {
    ProjectResults r; bool threw = false;
    g_trace.clear(); if (g_traceVar) *g_traceVar = collectTrace;
    try { sys.projectU(s, errEst, o, r); } catch (const std::exception& e) { threw = true; if (std::getenv("C09_DEBUG")) std::fprintf(stderr, "projectU threw: %s\n", e.what()); }
    if (g_traceVar) *g_traceVar = nullptr;
    return fill(r, threw);
}

ProjectOptions randomOptions(vh::Rng& g, bool alwaysDontThrow = false) {
    ProjectOptions o;
    if (g.below(16) == 0) o.setRequiredAccuracy(g.coin() ? 0.0 : -g.range(1e-9, 1.0));   // non-positive request -> default 1e-4
    else o.setRequiredAccuracy(std::pow(10.0, -(3 + g.below(8))) * g.range(1.0, 3.0));  // 1e-3 .. 1e-10
    if (g.below(3) == 0) o.setOption(ProjectOptions::ForceProjection);
    if (g.coin()) o.setOption(ProjectOptions::UseInfinityNorm);
    if (g.below(3) == 0) o.setOption(ProjectOptions::LocalOnly);
    if (alwaysDontThrow || g.below(3) != 0) o.setOption(ProjectOptions::DontThrow);
    if (g.below(4) == 0) o.setOption(ProjectOptions::ForceFullNewton);
    if (g.below(4) == 0) o.setOvershootFactor(g.coin() ? 1.0 : g.range(0.01, 1.0));
    if (g.below(6) == 0) o.setProjectionLimit(std::pow(10.0, -(double)g.below(6)) * g.range(1.0, 3.0));
    return o;
}

void putOpts(vh::Line& L, const ProjectOptions& o) {
    L.i(flagsOf(o)).d(o.getRequiredAccuracy()).d(o.getOvershootFactor()).d(o.getProjectionLimit()).d(SignificantReal);
}
void putOutcome(vh::Line& L, const Outcome& r, bool withNormIn) {
    if (withNormIn) L.d(r.normIn).i(r.worst);
    L.i(r.status).i(r.its).i(r.anyChange).i(r.limEx).i(r.threw).i(r.restored);
}

struct Ctx;
void traceRecord(Ctx& c, const char* fn, int which, const ProjectOptions& o, const std::vector<int>& dims, const Vector& w, int nw, const Outcome& r);

struct QuatInfo { std::vector<int> firstQ; };   // first q index of every mobilizer currently using a quaternion
QuatInfo quatsOf(const Model& M, const State& s) {
    QuatInfo qi;
    for (int b = 1; b < M.nb(); ++b)
        if (M.matter.isUsingQuaternion(s, M.bodies[b].getMobilizedBodyIndex())) qi.firstQ.push_back((int)M.bodies[b].getFirstQIndex(s));
    return qi;
}
double maxQuatDeviation(const QuatInfo& qi, const Vector& q) {
    double w = 0;
    for (int f : qi.firstQ) {
        double n2 = 0; for (int i = 0; i < 4; ++i) n2 += q[f + i] * q[f + i];
        double d = std::abs(std::sqrt(n2) - 1.0); if (std::isnan(d)) return kNaN; if (d > w) w = d;
    }
    return w;
}
std::vector<int> complementOf(const std::vector<int>& free, int n) {
    std::set<int> f(free.begin(), free.end()); std::vector<int> c;
    for (int i = 0; i < n; ++i) if (!f.count(i)) c.push_back(i);
    return c;
}
std::vector<int> freeQ(const Model& M, const State& s) { std::vector<int> f; for (QIndex i : M.matter.getFreeQIndex(s)) f.push_back((int)i); return f; }
std::vector<int> freeU(const Model& M, const State& s) { std::vector<int> f; for (UIndex i : M.matter.getFreeUIndex(s)) f.push_back((int)i); return f; }
int bitDiffs(const Vector& a, const Vector& b) {
    if (a.size() != b.size()) return 1 << 20;
    int n = 0; for (int i = 0; i < a.size(); ++i) if (hex(a[i]) != hex(b[i])) ++n;
    return n;
}

void traceRecord(Ctx& c, const char* fn, int which, const ProjectOptions& o, const std::vector<int>& dims, const Vector& w, int nw, const Outcome& r) {
    if (!g_traceVar) return;
    vh::Line L = c.I(fn); putOpts(L, o); for (int d : dims) L.i(d);
    for (int i = 0; i < nw; ++i) L.d(w[i]);
    int nEv = 0; for (auto& e : g_trace) if (e.which == which) ++nEv;
    L.i(nEv);
    for (auto& e : g_trace) if (e.which == which) { L.i(e.event).i(e.iter).i((long long)e.v.size()); for (double x : e.v) L.d(x); }
    L.emit();
    // the model's `restored` is "saved/entry state held AND normalizeQuaternions not run" (whether normalising an already
    // normalised quaternion changes bits is not modelled): report the observed flag in the same sense
    Outcome rt = r; for (auto& e : g_trace) if (e.which == which && (e.event == 3 || e.event == 4)) rt.restored = false;
    vh::Line O = vh::O(fn); putOutcome(O, rt, true); O.d(rt.normOut); O.emit();
    vh::D(std::string(fn) + ".traced");
}

// --------------------------------------------------------------------------- projectQ record
// s: realized to Position with prescribeQ applied.  Returns the outcome; s holds the result.
Outcome doProjectQ(Ctx& c, Model& M, State& s, const ProjectOptions& o, const std::string& cls,
                   const std::vector<std::pair<int, double>>& lockedQ, std::string* pathTag = nullptr, vh::Rng* gErr = nullptr) {
    const MultibodySystem& sys = M.system;
    const int nqerr = s.getNQErr(), mQuats = M.matter.getNumQuaternionsInUse(s), mHolo = nqerr - mQuats;
    const bool useInf = o.isOptionSet(ProjectOptions::UseInfinityNorm), force = o.isOptionSet(ProjectOptions::ForceProjection);
    const double acc = o.getRequiredAccuracy();
    const Vector q0 = s.getQ(), qerr0 = s.getQErr(), Tp = s.getQErrWeights();
    const QuatInfo qi = quatsOf(M, s);
    const std::vector<int> pres = complementOf(freeQ(M, s), s.getNQ());
    const double perrIn = normOf(qerr0, 0, mHolo, &Tp, useInf), quatIn = normOf(qerr0, mHolo, mQuats, nullptr, useInf);

    Vector errEst;                      // the integrator's q error estimate: empty, or (1 case in 3) a random vector
    if (gErr && gErr->below(3) == 0) errEst = rvector(*gErr, s.getNQ(), 1e-3);
    const Vector errEst0 = errEst;
    Outcome r = callQ(sys, s, o, errEst);
    bool realized = true;
    try { sys.realize(s, Stage::Position); } catch (const std::exception&) { realized = false; }
    const Vector q1 = s.getQ();
    r.restored = bitDiffs(q0, q1) == 0;
    Vector qerr1(nqerr, kNaN); if (realized) qerr1 = s.getQErr();

    if (r.threw && r.status == -1) {
        // an exception that is NOT projectQ's own failure report (ProjectResults never filled in), e.g. FactorQTZ's "Can't factor a
        // matrix that has a zero dimension -- got m X 0" when every q is prescribed and a holonomic constraint is violated (thrown
        // even with DontThrow).  No success is reported, so no clause of the property applies; observed only.
        vh::Line L = c.I("chk"); L.s("projQ.foreignException"); L.emit(); vh::O("chk").i(1).emit();
        vh::D(std::string("obs.projQ.foreignException.") + (freeQ(M, s).empty() ? "noFreeQ" : "other") + (o.isOptionSet(ProjectOptions::DontThrow) ? ".despiteDontThrow" : ""));
        return r;
    }
    vh::Line L = c.I("projQ"); putOpts(L, o); L.i(mHolo).i(mQuats);
    for (int i = 0; i < nqerr; ++i) L.d(qerr0[i]);
    for (int i = 0; i < mHolo; ++i) L.d(Tp[i]);
    putOutcome(L, r, false); L.d(r.normIn).d(r.normOut);
    for (int i = 0; i < mQuats; ++i) L.d(qerr1[mHolo + i]);
    L.emit();
    vh::Line O = vh::O("projQ"); putOutcome(O, r, true); O.d(r.normOut); O.emit();
    const std::string path = r.limEx ? "limit" : r.its > 0 ? "newton" : r.anyChange || r.status != 0 ? "quatOnly" : "nothing";
    static const char* sn[] = {"Invalid", "Succeeded", "FailedToAchieveAccuracy", "FailedToConverge"};
    vh::D("projQ." + cls + "." + path + "." + sn[r.status + 1] + (r.threw ? ".threw" : ""));
    if (o.isOptionSet(ProjectOptions::LocalOnly) && r.status == 2 && !r.limEx) vh::D("projQ.localOnly.diverged");
    if (r.its > 0 && r.status != 0) vh::D(r.restored ? "projQ.newtonFailure.restored" : "projQ.newtonFailure.improved");
    vh::D(std::string("projQ.opts.") + (useInf ? "inf" : "rms") + (force ? ".force" : "") + (o.isOptionSet(ProjectOptions::LocalOnly) ? ".local" : ""));
    if (pathTag) *pathTag = path;
    {   // decisions within 1e-12 (relative) of their threshold are not predicted by the driver
        const double lim = o.getProjectionLimit();
        auto near = [](double a, double b) { return std::abs(a - b) <= 1e-12 * std::abs(b); };
        if (near(perrIn, acc) || near(quatIn, acc) || (std::isfinite(lim) && near(std::max(perrIn, quatIn), lim))) vh::D("projQ.boundary.notPredicted");
    }
    if (errEst0.size()) {
        // error-estimate blocks of projectQ (:4385-4410) and of normalizeQuaternions: exercised; observed, not predicates
        vh::D(std::string("projQ.errEst.passed.") + path);
        if (!finiteV(errEst) && finiteV(q1)) vh::D("obs.projQ.errEst_nonfinite");
        if (r.status == 0 && !r.threw && finiteV(q1) && finiteV(errEst) && r.anyChange) {
            double w = 0; for (int f : qi.firstQ) { bool free = true; for (int pi : pres) if (pi == f) free = false; if (!free) continue;
                double d = 0; for (int i = 0; i < 4; ++i) d += errEst[f + i] * q1[f + i]; w = std::max(w, std::abs(d)); }
            if (w > 1e-12 * std::max(1.0, ceq::maxAbs(errEst))) vh::D("obs.projQ.errEst_not_orthogonal_to_quaternion");
        }
    }

    const std::string K = "projectQ." + cls;
    const bool success = (r.status == (int)ProjectResults::Succeeded) && !r.threw;
    if (success) {
        const double perrOut = normOf(qerr1, 0, mHolo, &Tp, useInf), quatOut = normOf(qerr1, mHolo, mQuats, nullptr, useInf);
        const bool nonfinite = !realized || !finiteV(q1) || !finiteV(qerr1) || std::isnan(perrOut) || std::isnan(quatOut);
        vh::P("success_finite", "projectQ.nonfinite.success_sound", nonfinite ? 1 : 0, 0);
        if (!nonfinite) {
            vh::P("perr_le_acc", K + ".perr_le_acc", perrOut, acc * (1 + 1e-12) + 1e-15);
            const bool changed = bitDiffs(q0, q1) != 0;
            if (changed) vh::P("quat_unit", K + ".quat_unit", maxQuatDeviation(qi, q1), 1e-14);
            else vh::P("quat_le_acc", K + ".quat_le_acc", quatOut, acc * (1 + 1e-12) + 1e-15);
        }
    }
    // prescribed coordinates keep their values whatever the outcome says (checked when success is reported)
    if (success && finiteV(q1)) {
        int bad = 0; for (int i : pres) if (hex(q0[i]) != hex(q1[i])) ++bad;
        for (auto& lv : lockedQ) if (hex(q1[lv.first]) != hex(lv.second)) ++bad;
        if (!pres.empty() || !lockedQ.empty()) { vh::P("prescribed_kept", K + ".prescribed_kept", bad, 0); vh::D("projQ.hasPrescribedQ"); }
    }
    // already satisfied and not forced -> untouched
    {
        const double lo = acc * (1 - 1e-9);
        if (!force && !std::isnan(perrIn) && !std::isnan(quatIn) && perrIn <= lo && quatIn <= lo && !r.limEx) {
            vh::P("unchanged", K + ".unchanged", bitDiffs(q0, q1) + (r.anyChange ? 1 : 0) + (r.status != 0 ? 1 : 0), 0);
            vh::D("projQ.satisfiedUnforced");
        }
        // the complement: ForceProjection "forces it to make at least one iteration" whenever there is a position error at all
        if (force && !r.limEx && mHolo > 0 && !std::isnan(perrIn) && perrIn > 0) {
            vh::P("forced_iterates", K + ".forced_iterates", (r.its >= 1 && r.anyChange) ? 0 : 1, 0);
            vh::D(perrIn <= lo ? "projQ.forced.satisfied" : "projQ.forced.violated");
        }
    }
    traceRecord(c, "projQt", 0, o, {mHolo, mQuats}, Tp, mHolo, r);
    return r;
}

// --------------------------------------------------------------------------- projectU record
Outcome doProjectU(Ctx& c, Model& M, State& s, const ProjectOptions& o, const std::string& cls, vh::Rng* gErr = nullptr) {
    const MultibodySystem& sys = M.system;
    const int m = s.getNUErr();
    const bool useInf = o.isOptionSet(ProjectOptions::UseInfinityNorm), force = o.isOptionSet(ProjectOptions::ForceProjection);
    const double acc = o.getRequiredAccuracy();
    const Vector q0 = s.getQ(), u0 = s.getU(), uerr0 = s.getUErr(), Tpv = s.getUErrWeights();
    const std::vector<int> pres = complementOf(freeU(M, s), s.getNU());
    const double verrIn = normOf(uerr0, 0, m, &Tpv, useInf);

    Vector errEst;
    if (gErr && gErr->below(3) == 0) errEst = rvector(*gErr, s.getNU(), 1e-3);
    const bool hadErrEst = errEst.size() > 0;
    Outcome r = callU(sys, s, o, errEst);
    bool realized = true;
    try { sys.realize(s, Stage::Velocity); } catch (const std::exception&) { realized = false; }
    const Vector q1 = s.getQ(), u1 = s.getU();
    r.restored = bitDiffs(u0, u1) == 0;
    Vector uerr1(m, kNaN); if (realized) uerr1 = s.getUErr();

    if (r.threw && r.status == -1) {
        vh::Line L = c.I("chk"); L.s("projU.foreignException"); L.emit(); vh::O("chk").i(1).emit();
        vh::D(std::string("obs.projU.foreignException.") + (freeU(M, s).empty() ? "noFreeU" : "other") + (o.isOptionSet(ProjectOptions::DontThrow) ? ".despiteDontThrow" : ""));
        return r;
    }
    vh::Line L = c.I("projU"); putOpts(L, o); L.i(m);
    for (int i = 0; i < m; ++i) L.d(uerr0[i]);
    for (int i = 0; i < m; ++i) L.d(Tpv[i]);
    putOutcome(L, r, false); L.d(r.normIn).d(r.normOut);
    L.emit();
    vh::Line O = vh::O("projU"); putOutcome(O, r, true); O.d(r.normOut); O.emit();
    const std::string path = r.limEx ? "limit" : r.its > 0 ? "newton" : "nothing";
    static const char* sn[] = {"Invalid", "Succeeded", "FailedToAchieveAccuracy", "FailedToConverge"};
    vh::D("projU." + cls + "." + path + "." + sn[r.status + 1] + (r.threw ? ".threw" : ""));
    if (o.isOptionSet(ProjectOptions::LocalOnly) && r.status == 2 && !r.limEx) vh::D("projU.localOnly.diverged");
    {
        const double lim = o.getProjectionLimit();
        auto near = [](double a, double b) { return std::abs(a - b) <= 1e-12 * std::abs(b); };
        if (near(verrIn, acc) || (std::isfinite(lim) && near(verrIn, lim))) vh::D("projU.boundary.notPredicted");
    }
    if (hadErrEst) { vh::D("projU.errEst.passed." + path); if (!finiteV(errEst) && finiteV(u1)) vh::D("obs.projU.errEst_nonfinite"); }

    const std::string K = "projectU." + cls;
    const bool success = (r.status == (int)ProjectResults::Succeeded) && !r.threw;
    if (success) {
        const double verrOut = normOf(uerr1, 0, m, &Tpv, useInf);
        const bool nonfinite = !realized || !finiteV(u1) || !finiteV(uerr1) || std::isnan(verrOut);
        vh::P("success_finite", "projectU.nonfinite.success_sound", nonfinite ? 1 : 0, 0);
        if (!nonfinite) vh::P("uerr_le_acc", K + ".uerr_le_acc", verrOut, acc * (1 + 1e-12) + 1e-15);
        vh::P("q_untouched", K + ".q_untouched", bitDiffs(q0, q1), 0);
        int bad = 0; for (int i : pres) if (hex(u0[i]) != hex(u1[i])) ++bad;
        if (bad) vh::D("obs.projU.prescribedU_changed");      // prescribed SPEEDS are not in the property text
    }
    {
        const double lo = acc * (1 - 1e-9);
        if (!force && !std::isnan(verrIn) && verrIn <= lo && !r.limEx) {
            vh::P("unchanged", K + ".unchanged", bitDiffs(u0, u1) + bitDiffs(q0, q1) + (r.anyChange ? 1 : 0) + (r.status != 0 ? 1 : 0), 0);
            vh::D("projU.satisfiedUnforced");
        }
        if (force && !r.limEx && !std::isnan(verrIn) && verrIn > 0) {
            vh::P("forced_iterates", K + ".forced_iterates", (r.its >= 1 && r.anyChange) ? 0 : 1, 0);
            vh::D(verrIn <= lo ? "projU.forced.satisfied" : "projU.forced.violated");
        }
    }
    traceRecord(c, "projUt", 1, o, {m}, Tpv, m, r);
    return r;
}

// --------------------------------------------------------------------------- small dense helpers (harness-own)
typedef std::vector<std::vector<double>> Mat;
// solves M x = b by Gaussian elimination with partial pivoting; returns min|pivot|/max|pivot| (0 if singular)
double gaussSolve(Mat M, std::vector<double> b, std::vector<double>& x) {
    const int n = (int)M.size(); x.assign(n, 0.0); if (n == 0) return 1;
    double pmin = INFINITY, pmax = 0;
    for (int k = 0; k < n; ++k) {
        int p = k; for (int i = k + 1; i < n; ++i) if (std::abs(M[i][k]) > std::abs(M[p][k])) p = i;
        std::swap(M[p], M[k]); std::swap(b[p], b[k]);
        double a = M[k][k]; if (!(std::abs(a) > 0)) return 0;
        pmin = std::min(pmin, std::abs(a)); pmax = std::max(pmax, std::abs(a));
        for (int i = k + 1; i < n; ++i) { double f = M[i][k] / a; for (int j = k; j < n; ++j) M[i][j] -= f * M[k][j]; b[i] -= f * b[k]; }
    }
    for (int k = n - 1; k >= 0; --k) { double sres = b[k]; for (int j = k + 1; j < n; ++j) sres -= M[k][j] * x[j]; x[k] = sres / M[k][k]; }
    return pmin / pmax;
}

// min-norm record + predicates.  A: m x n, x: correction applied (n), winv: 1/weight per column, tp: row weights, b: rhs (m)
// The driver gets Wu and u0 and computes the column scale itself (position: 1/Wu; velocity: the model's uRelScale); `winv` is
// the harness's own reading of the documented scale, used only by the predicates below.
void minnormRecord(Ctx& c, const std::string& which, const std::string& K, const Matrix& A, const std::vector<int>& free,
                   const Vector& tp, const Vector& winv, const Vector& Wu, const Vector& u0, const Vector& b, const Vector& x) {
    const int m = A.nrow(), n = A.ncol(), nf = (int)free.size();
    if (m == 0 || nf == 0) return;
    // A' = A(:,free) diag(winv_free);  M = A' A'^T
    Mat Ap(m, std::vector<double>(nf)); for (int i = 0; i < m; ++i) for (int j = 0; j < nf; ++j) Ap[i][j] = A(i, free[j]) * winv[free[j]];
    Mat G(m, std::vector<double>(m, 0.0)); for (int i = 0; i < m; ++i) for (int j = 0; j < m; ++j) for (int k = 0; k < nf; ++k) G[i][j] += Ap[i][k] * Ap[j][k];
    std::vector<double> z(nf), Az(m, 0.0), lam;
    for (int j = 0; j < nf; ++j) z[j] = x[free[j]] / winv[free[j]];
    for (int i = 0; i < m; ++i) for (int k = 0; k < nf; ++k) Az[i] += Ap[i][k] * z[k];
    const double cond = gaussSolve(G, Az, lam);
    if (!(cond > 1e-6)) { vh::D("minnorm." + which + ".skipped.illConditioned"); return; }
    double res = 0, zs = 1e-300, solv = 0, bs = 1e-300;
    for (int k = 0; k < nf; ++k) { double t = 0; for (int i = 0; i < m; ++i) t += Ap[i][k] * lam[i]; double d = std::abs(z[k] - t); if (std::isnan(d)) res = kNaN; else if (!(std::isnan(res)) && d > res) res = d; zs = std::max(zs, std::abs(z[k])); }
    for (int i = 0; i < m; ++i) { double t = 0; for (int j = 0; j < n; ++j) t += A(i, j) * x[j]; double d = std::abs(t - b[i]); if (std::isnan(d)) solv = kNaN; else if (!std::isnan(solv) && d > solv) solv = d; bs = std::max(bs, std::abs(b[i])); }
    vh::Line L = c.I("minnorm"); L.s(which).i(m).i(n).i(nf); for (int f : free) L.i(f);
    for (int i = 0; i < m; ++i) for (int j = 0; j < n; ++j) L.d(A(i, j));
    for (int i = 0; i < m; ++i) L.d(tp[i]);
    for (int j = 0; j < n; ++j) L.d(Wu[j]);
    for (int j = 0; j < n; ++j) L.d(u0[j]);
    for (int i = 0; i < m; ++i) L.d(b[i]);
    L.emit();
    std::printf("T 1e-8 1e-10\n");
    vh::Line O = vh::O("minnorm"); for (int j = 0; j < n; ++j) O.d(x[j]); O.emit();
    vh::D("minnorm." + which + ".m" + std::to_string(m) + (nf != n ? ".prescribed" : ""));
    vh::P("minnorm_kkt", K + ".minnorm_kkt", res / zs, 1e-8);
    vh::P("minnorm_solves", K + ".minnorm_solves", solv / std::max(bs, 1e-3), 1e-8);
}

// --------------------------------------------------------------------------- pack / unpack records
void packRecords(Ctx& c, Model& M, const State& s, vh::Rng& g) {
    for (int which = 0; which < 2; ++which) {
        const std::vector<int> fr = which == 0 ? freeQ(M, s) : freeU(M, s);
        const int n = which == 0 ? s.getNQ() : s.getNU(), nf = (int)fr.size();
        Vector all = rvector(g, n), packedIn = rvector(g, nf), base = rvector(g, n), packed(nf), unpacked = base;
        if (which == 0) { M.matter.packFreeQ(s, all, packed); M.matter.unpackFreeQ(s, packedIn, unpacked); }
        else { M.matter.packFreeU(s, all, packed); M.matter.unpackFreeU(s, packedIn, unpacked); }
        vh::Line L = c.I(which == 0 ? "packQ" : "packU"); L.i(n).i(nf); for (int f : fr) L.i(f);
        for (int i = 0; i < n; ++i) L.d(all[i]);
        for (int i = 0; i < nf; ++i) L.d(packedIn[i]);
        for (int i = 0; i < n; ++i) L.d(base[i]);
        L.emit();
        vh::Line O = vh::O(which == 0 ? "packQ" : "packU"); for (int i = 0; i < nf; ++i) O.d(packed[i]); for (int i = 0; i < n; ++i) O.d(unpacked[i]); O.emit();
        vh::D(std::string("pack.") + (nf == n ? "allFree" : nf == 0 ? "noneFree" : "some"));
    }
}

// --------------------------------------------------------------------------- normalizeQuaternions on one mobilizer
void normqRecord(Ctx& c, vh::Rng& g) {
    // one single-body system per quaternion-carrying mobilizer type (the quaternion is q[0..3] in all of them)
    static MultibodySystem* sys[5] = {nullptr}; static SimbodyMatterSubsystem* matter[5]; static State st[5];
    static const char* nm[5] = {"Ball", "Free", "Ellipsoid", "LineOrientation", "FreeLine"};
    if (!sys[0]) for (int t = 0; t < 5; ++t) {
        sys[t] = new MultibodySystem; matter[t] = new SimbodyMatterSubsystem(*sys[t]);
        Body::Rigid body(MassProperties(1, Vec3(0), UnitInertia(1)));
        MobilizedBody& G = matter[t]->Ground();
        if (t == 0) MobilizedBody::Ball(G, Transform(), body, Transform());
        else if (t == 1) MobilizedBody::Free(G, Transform(), body, Transform());
        else if (t == 2) MobilizedBody::Ellipsoid(G, Transform(), body, Transform());
        else if (t == 3) MobilizedBody::LineOrientation(G, Transform(), body, Transform());
        else MobilizedBody::FreeLine(G, Transform(), body, Transform());
        st[t] = sys[t]->realizeTopology(); sys[t]->realizeModel(st[t]);
    }
    const int t = g.below(5);
    Vec4 v;
    const int kind = g.below(12);
    const double mag = kind == 0 ? 1e-170 : kind == 1 ? 1e170 : kind == 2 ? 0.0 : std::pow(10.0, g.range(-3.0, 3.0));
    for (int i = 0; i < 4; ++i) v[i] = mag * g.range(-1.0, 1.0);
    if (kind == 3) { v = Vec4(0); v[g.below(4)] = g.signedMag(0.1, 3.0); }
    State s = st[t]; Vector q = s.getQ(); const Vector qBefore = [&] { Vector x = q; for (int i = 0; i < 4; ++i) x[i] = v[i]; return x; }();
    s.updQ() = qBefore;
    sys[t]->realize(s, Stage::Position);
    matter[t]->normalizeQuaternions(s);
    vh::Line L = c.I("normq"); for (int i = 0; i < 4; ++i) L.d(v[i]); L.emit();
    vh::Line O = vh::O("normq"); for (int i = 0; i < 4; ++i) O.d(s.getQ()[i]); O.emit();
    vh::D(std::string(kind <= 3 ? "normq.degenerate." : "normq.generic.") + nm[t]);
}

// --------------------------------------------------------------------------- random weights
void randomWeights(Model& M, vh::Rng& g, State& s) {
    // State::updUWeights / updQErrWeights / updUErrWeights are the public way to set Wu, Tp, Tpv
    Vector& wu = s.updUWeights(); for (int i = 0; i < wu.size(); ++i) wu[i] = std::exp(g.range(-1.6, 1.6));
    const int mQuats = M.matter.getNumQuaternionsInUse(s), mHolo = s.getNQErr() - mQuats;
    Vector& tp = s.updQErrWeights(); for (int i = 0; i < mHolo; ++i) tp[i] = std::exp(g.range(-1.6, 1.6));   // quaternion entries stay 1 (unused by projectQ)
    Vector& tpv = s.updUErrWeights(); for (int i = 0; i < tpv.size(); ++i) tpv[i] = std::exp(g.range(-1.6, 1.6));
}

double pickMagnitude(vh::Rng& g) {   // 0 (already satisfied) or 1e-8 .. 1e-1
    const int r = g.below(10);
    if (r < 2) return 0.0;
    return std::pow(10.0, -(1 + g.below(8))) * g.range(1.0, 3.0);
}

// perturbs q (all entries; prescribeQ restores the prescribed ones), optionally rescales quaternions
void perturbQ(Model& M, vh::Rng& g, State& s, double mag, bool scaleQuats) {
    Vector q = s.getQ();
    for (int i = 0; i < q.size(); ++i) q[i] += mag * g.range(-1.0, 1.0);
    if (scaleQuats) { QuatInfo qi = quatsOf(M, s); for (int f : qi.firstQ) { double k = g.range(0.5, 2.0); for (int i = 0; i < 4; ++i) q[f + i] *= k; } }
    s.updQ() = q;
}

const int kGeneralCons[] = {cRod, cBall, cWeld, cPointInPlane, cPointOnLine, cConstantAngle, cConstantOrientation, cNoSlip1D,
                            cConstantCoordinate, cConstantSpeed, cCoordinateCoupler, cSpeedCoupler, cPrescribedMotion,
                            cPointOnPlaneContact, cSphereOnPlaneContact, cSphereOnSphereContact, cLineOnLineContact, cCustom};

// --------------------------------------------------------------------------- stream: general
void generalCase(Ctx& c, vh::Rng& g) {
    Model M;
    buildTree(M, g, 2 + g.below(5), fullPalette());
    std::string motionTag;
    if (g.below(5) == 0) {     // a Motion prescribing q(t) of a one-coordinate mobilizer
        std::vector<int> cand; for (int i = 1; i < M.nb(); ++i) if (M.mtype[i] == mPin || M.mtype[i] == mSlider) cand.push_back(i);
        if (!cand.empty()) { int b = cand[g.below((int)cand.size())]; Motion::Sinusoid(M.bodies[b], Motion::Position, g.range(0.2, 1.0), g.range(0.5, 2.0), g.range(0.0, 3.0)); motionTag = ".sinusoid"; }
    }
    const int nC = 1 + g.below(4);
    std::vector<ConsInfo> cons; std::string ctag;
    for (int i = 0; i < nC; ++i) {
        ConsInfo ci; const int type = kGeneralCons[g.below((int)(sizeof kGeneralCons / sizeof kGeneralCons[0]))];
        if (addConstraint(M, g, type, g.below(4), ci)) { cons.push_back(ci); }
    }
    finishTopology(M, g);
    randomState(M, g);
    State& s = M.state;
    s.updTime() = g.range(0.0, 2.0);
    // optional lock (Instance-stage change)
    std::vector<std::pair<int, double>> lockedQ; std::string lockTag;
    if (g.below(3) == 0) {
        std::vector<int> cand; for (int i = 1; i < M.nb(); ++i) if (M.mtype[i] != mWeld) cand.push_back(i);
        if (!cand.empty()) {
            const int b = cand[g.below((int)cand.size())];
            if (g.below(3) != 0) {
                const Vector qv = M.bodies[b].getQAsVector(s);       // current (normalised) values
                M.bodies[b].lockAt(s, qv, Motion::Position);
                M.system.realizeModel(s);
                const int f = (int)M.bodies[b].getFirstQIndex(s);
                for (int i = 0; i < qv.size(); ++i) lockedQ.push_back({f + i, qv[i]});
                lockTag = ".lockQ";
            } else { M.bodies[b].lock(s, Motion::Velocity); lockTag = ".lockU"; }
        }
    }
    // optionally DISABLE one constraint (Instance-stage change): projection must ignore it
    int disabledIx = -1;
    if (cons.size() >= 2 && g.below(4) == 0) { disabledIx = g.below((int)cons.size()); cons[disabledIx].c.disable(s); }
    M.system.realize(s, Stage::Instance);
    const bool weighted = g.coin();
    if (weighted) randomWeights(M, g, s);
    packRecords(c, M, s, g);
    // input class "rawQuatCoord": some holonomic constraint reads a quaternion COMPONENT as a coordinate
    // (ConstantCoordinate / CoordinateCoupler / PrescribedMotion / Custom::getOneQ on a Ball, Free or Ellipsoid q)
    bool rawQuat = false;
    for (size_t cx = 0; cx < cons.size(); ++cx) {
        const ConsInfo& ci = cons[cx];
        if ((int)cx == disabledIx) continue;
        if (!(ci.type == cConstantCoordinate || ci.type == cCoordinateCoupler || ci.type == cPrescribedMotion || ci.type == cCustom)) continue;
        for (size_t i = 0; i < ci.cmobs.size(); ++i) {
            const int k = ci.type == cCustom ? 0 : (i < ci.cq.size() ? ci.cq[i] : 99);
            if (k < 4 && M.matter.isUsingQuaternion(s, M.bodies[ci.cmobs[i]].getMobilizedBodyIndex())) rawQuat = true;
        }
    }

    // ---- assemble with the simple System::project(state, accuracy): no exception == success reported
    // (1 request in 8 is non-positive: ProjectOptions::setRequiredAccuracy then falls back to 1e-4)
    const double accReq = g.below(8) == 0 ? (g.coin() ? 0.0 : -1e-6) : std::pow(10.0, -(6 + g.below(5)));
    const double accA = ProjectOptions(accReq).getRequiredAccuracy();
    const State sPre = s;
    bool threw = false;
    try { M.system.project(s, accReq); } catch (const std::exception&) { threw = true; }
    {
        // dispatch record: System::project must equal the documented sequence
        //   realize(Time); prescribeQ; realize(Position); projectQ(opts); prescribeU; realize(Velocity); projectU(opts)
        // with opts = {accuracy (default 1e-4 if non-positive), overshoot 0.1, no projection limit, no option set}
        State t = sPre; bool tq = false, tu = false;
        ProjectOptions om; om.clearOption(ProjectOptions::LocalOnly).clearOption(ProjectOptions::DontThrow).clearOption(ProjectOptions::UseInfinityNorm)
            .clearOption(ProjectOptions::ForceProjection).clearOption(ProjectOptions::ForceFullNewton);
        om.setRequiredAccuracy(accReq > 0 ? accReq : 1e-4); om.setOvershootFactor(0.1); om.setProjectionLimit(Infinity);
        ProjectResults rq, ru; Vector none;
        try {
            M.system.realize(t, Stage::Time); M.system.prescribeQ(t); M.system.realize(t, Stage::Position);
            try { M.system.projectQ(t, none, om, rq); } catch (const std::exception&) { tq = true; }
            if (!tq) { M.system.prescribeU(t); M.system.realize(t, Stage::Velocity);
                       try { M.system.projectU(t, none, om, ru); } catch (const std::exception&) { tu = true; } }
        } catch (const std::exception&) { tq = true; }
        const ProjectOptions od(accReq);
        vh::Line L = c.I("dispatch"); L.d(accReq).i(tq).i(tu); L.emit();
        vh::Line O = vh::O("dispatch"); O.d(od.getRequiredAccuracy()).d(od.getOvershootFactor()).d(od.getProjectionLimit()).i(flagsOf(od)).i(threw);
        O.i((threw || (bitDiffs(s.getQ(), t.getQ()) == 0 && bitDiffs(s.getU(), t.getU()) == 0)) ? 1 : 0); O.emit();
        vh::D(accReq > 0 ? "dispatch.positiveAccuracy" : "dispatch.nonPositiveAccuracy");
    }
    {
        vh::Line L = c.I("chk"); L.s("project"); L.emit(); vh::O("chk").i(1).emit();
        vh::D(std::string("project.random.") + (threw ? "threw" : "returned") + motionTag + lockTag + (weighted ? ".weighted" : ""));
        vh::D(threw ? "assemble.discarded" : "assemble.kept");
        if (disabledIx >= 0) vh::D(std::string("cons.disabled.") + consName(cons[disabledIx].type));
        for (auto& ci : cons) vh::D(std::string("cons.") + consName(ci.type));
        tagBodies(M);
        vh::D(M.matter.getUseEulerAngles(s) ? "model.euler" : "model.quaternion");
    }
    if (threw) return;                                   // could not be assembled: discarded
    bool realized = true;
    try { M.system.realize(s, Stage::Velocity); } catch (const std::exception&) { realized = false; }
    {
        const int mQuats = M.matter.getNumQuaternionsInUse(s), mHolo = s.getNQErr() - mQuats;
        Vector qerr(s.getNQErr(), kNaN), uerr(s.getNUErr(), kNaN);
        if (realized) { qerr = s.getQErr(); uerr = s.getUErr(); }
        const Vector Tp = s.getQErrWeights(), Tpv = s.getUErrWeights();
        const double pn = normOf(qerr, 0, mHolo, &Tp, false), qn = normOf(qerr, mHolo, mQuats, nullptr, false), vn = normOf(uerr, 0, uerr.size(), &Tpv, false);
        const bool nonfinite = !realized || !finiteV(s.getQ()) || !finiteV(s.getU()) || std::isnan(pn) || std::isnan(qn) || std::isnan(vn);
        vh::P("success_finite", "project.nonfinite.success_sound", nonfinite ? 1 : 0, 0);
        if (nonfinite) return;
        vh::P("perr_le_acc", std::string("project.") + (rawQuat ? "rawQuatCoord" : "random") + ".perr_le_acc", pn, accA * (1 + 1e-12) + 1e-15);
        vh::P("quat_unit", "project.random.quat_unit", maxQuatDeviation(quatsOf(M, s), s.getQ()), 1e-14);
        vh::P("uerr_le_acc", "project.random.uerr_le_acc", vn, accA * (1 + 1e-12) + 1e-15);
        int bad = 0; for (auto& lv : lockedQ) if (hex(s.getQ()[lv.first]) != hex(lv.second)) ++bad;
        if (!lockedQ.empty()) vh::P("prescribed_kept", "project.random.prescribed_kept", bad, 0);
        if (pn > 1e3 || vn > 1e3 || ceq::maxAbs(s.getQ()) > 1e3 || ceq::maxAbs(s.getU()) > 1e3) return;   // absurd assembly: stop here
    }
    const State assembled = s;

    // ---- perturbation rounds
    for (int round = 0; round < 4; ++round) {
        State w = assembled;
        // round 3 starts FAR from the manifold (0.3 .. 3): Newton failures, LocalOnly divergence, revert-if-worse
        const bool far = round == 3;
        const double mq = far ? g.range(0.3, 3.0) : pickMagnitude(g), mu = far ? g.range(0.3, 3.0) : pickMagnitude(g);
        const bool scaleQuats = g.below(4) == 0;
        perturbQ(M, g, w, mq, scaleQuats);
        M.system.realize(w, Stage::Time); M.system.prescribeQ(w); M.system.realize(w, Stage::Position);
        const std::string cls = rawQuat ? "rawQuatCoord" : (mq == 0 && !scaleQuats) ? "satisfied" : far ? "far" : "perturbed";
        ProjectOptions oq = randomOptions(g);
        if (far && g.coin()) oq.setOption(ProjectOptions::LocalOnly);
        Outcome rq = doProjectQ(c, M, w, oq, cls, lockedQ, nullptr, &g);
        if (!finiteV(w.getQ())) continue;
        // velocity level
        { Vector u = w.getU(); for (int i = 0; i < u.size(); ++i) u[i] += mu * g.range(-1.0, 1.0); w.updU() = u; }
        M.system.realize(w, Stage::Position); M.system.prescribeU(w);
        try { M.system.realize(w, Stage::Velocity); } catch (const std::exception&) { continue; }
        ProjectOptions ou = randomOptions(g);
        if (far && g.coin()) ou.setOption(ProjectOptions::LocalOnly);
        doProjectU(c, M, w, ou, mu == 0 ? "satisfied" : far ? "far" : "perturbed", &g);
        (void)rq;
    }
}

// --------------------------------------------------------------------------- stream: linear
void linearCase(Ctx& c, vh::Rng& g) {
    Model M;
    buildTree(M, g, 1 + g.below(5), qdotIsUPalette());
    const int nC = 1 + g.below(3);
    int made = 0;
    for (int i = 0; i < nC; ++i) {
        const int kind = g.below(5);
        if (kind < 2) { ConsInfo ci; if (addConstraint(M, g, cConstantCoordinate, 3, ci, true)) ++made; }
        else if (kind < 4) {
            const int n = 1 + g.below(3); Array_<MobilizedBodyIndex> mb; Array_<MobilizerQIndex> qi;
            for (int a = 0; a < n; ++a) { int m = pickMobilizer(M, g, true); int k = g.below(nuOfType(M.mtype[m])); mb.push_back(M.bodies[m].getMobilizedBodyIndex()); qi.push_back(MobilizerQIndex(k)); }
            Constraint::CoordinateCoupler(M.matter, new QuadFunction(g, n, true), mb, qi); ++made;
        } else { ConsInfo ci; if (addConstraint(M, g, cConstantSpeed, 3, ci)) ++made; }
    }
    if (!made) return;
    finishTopology(M, g, false);
    randomState(M, g, 1.0, g.coin() ? 1.0 : 4.0);     // larger speeds make projectU's relative scale |u| (instead of 1/Wu) active
    State& s = M.state;
    std::vector<std::pair<int, double>> lockedQ;
    if (g.below(3) == 0 && M.nb() > 2) {
        const int b = 1 + g.below(M.nb() - 1);
        const Vector qv = M.bodies[b].getQAsVector(s);
        M.bodies[b].lockAt(s, qv, Motion::Position); M.system.realizeModel(s);
        const int f = (int)M.bodies[b].getFirstQIndex(s);
        for (int i = 0; i < qv.size(); ++i) lockedQ.push_back({f + i, qv[i]});
    }
    M.system.realize(s, Stage::Instance);
    randomWeights(M, g, s);
    M.system.realize(s, Stage::Time); M.system.prescribeQ(s); M.system.realize(s, Stage::Position);
    const int mHolo = s.getNQErr();   // no quaternions in this palette
    ProjectOptions o(1e-10); o.setOption(ProjectOptions::DontThrow);
    if (g.coin()) o.setOption(ProjectOptions::UseInfinityNorm);
    if (g.below(3) == 0) o.setOption(ProjectOptions::ForceProjection);
    if (mHolo > 0) {
        Matrix Pq; M.matter.calcPq(s, Pq);
        const Vector q0 = s.getQ(), perr0 = s.getQErr(), Tp = s.getQErrWeights(), Wu = s.getUWeights();
        const std::vector<int> fr = freeQ(M, s);
        std::string path;
        Outcome r = doProjectQ(c, M, s, o, "linear", lockedQ, &path);
        if (r.status == 0 && path == "newton" && finiteV(s.getQ())) {
            Vector winv(Wu.size()); for (int i = 0; i < Wu.size(); ++i) winv[i] = 1 / Wu[i];
            minnormRecord(c, "q", "projectQ.linear", Pq, fr, Tp, winv, Wu, Vector(Wu.size(), 0.0), perr0, Vector(q0 - s.getQ()));
            vh::D("minnorm.q.its" + std::to_string(r.its));
        }
        if (!finiteV(s.getQ())) return;
    }
    // velocity level: PV = first (mp+mv) rows of G; column scaling is the code's relative scale max(1/Wu_i, |u_i|)
    M.system.prescribeU(s); M.system.realize(s, Stage::Velocity);
    const int mpv = s.getNUErr();
    if (mpv > 0) {
        Matrix G; M.matter.calcG(s, G);
        Matrix PV = G(0, 0, mpv, s.getNU());
        const Vector u0 = s.getU(), uerr0 = s.getUErr(), Tpv = s.getUErrWeights(), Wu = s.getUWeights();
        Vector scaleU(u0.size()); for (int i = 0; i < u0.size(); ++i) scaleU[i] = std::abs(u0[i]) * Wu[i] > 1 ? std::abs(u0[i]) : 1 / Wu[i];
        const std::vector<int> fr = freeU(M, s);
        ProjectOptions ou(1e-10); ou.setOption(ProjectOptions::DontThrow); if (g.coin()) ou.setOption(ProjectOptions::UseInfinityNorm);
        Outcome r = doProjectU(c, M, s, ou, "linear");
        if (r.status == 0 && r.its > 0 && finiteV(s.getU())) {
            minnormRecord(c, "u", "projectU.linear", PV, fr, Tpv, scaleU, Wu, u0, uerr0, Vector(u0 - s.getU()));
            vh::D("minnorm.u.its" + std::to_string(r.its));
        }
    }
}

// --------------------------------------------------------------------------- stream: linearN (N != identity)
// Constraints LINEAR in q on mobilizers whose kinematic coupling qdot = N(q) u is not the identity (Gimbal, Bushing,
// Ball/Free/Ellipsoid in Euler-angle mode, SphericalCoords, …; in quaternion mode only non-quaternion coordinates are
// constrained).  One Newton step is exact:  dq = S (Tp Pq S)_r^+ Tp perr  with  S = Wq^+ = N Wu^-1 N^+  (nq x nq), the
// documented step.  Exported: Pq (calcPq), N and N^+ column by column (multiplyByN / multiplyByNInv), Wu, Tp, perr.
// Predicate minnorm_kkt (harness-own):  dq lies in range(S_r S_r^T Pq^T)  (KKT of  min |z|  s.t.  Pq S_r z = perr, dq = S z)
// and minnorm_solves: Pq dq = perr.
void minnormNRecord(Ctx& c, Model& M, const State& s0, const Matrix& Pq, const std::vector<int>& free, const Vector& Tp,
                    const Vector& Wu, const Vector& perr0, const Vector& dq) {
    const int m = Pq.nrow(), nq = s0.getNQ(), nu = s0.getNU(), nf = (int)free.size();
    if (m == 0 || nf == 0) return;
    Matrix N(nq, nu), NInv(nu, nq);
    for (int j = 0; j < nu; ++j) { Vector e(nu, 0.0), col; e[j] = 1; M.matter.multiplyByN(s0, false, e, col); for (int i = 0; i < nq; ++i) N(i, j) = col[i]; }
    for (int j = 0; j < nq; ++j) { Vector e(nq, 0.0), col; e[j] = 1; M.matter.multiplyByNInv(s0, false, e, col); for (int i = 0; i < nu; ++i) NInv(i, j) = col[i]; }
    // S = N Wu^-1 N^+ ;  S_r = S(:, free)
    Mat S(nq, std::vector<double>(nq, 0.0));
    for (int i = 0; i < nq; ++i) for (int j = 0; j < nq; ++j) { double t = 0; for (int k = 0; k < nu; ++k) t += N(i, k) / Wu[k] * NInv(k, j); S[i][j] = t; }
    // G = S_r S_r^T Pq^T   (nq x m)
    Mat SrSrT(nq, std::vector<double>(nq, 0.0));
    for (int i = 0; i < nq; ++i) for (int j = 0; j < nq; ++j) { double t = 0; for (int f : free) t += S[i][f] * S[j][f]; SrSrT[i][j] = t; }
    Mat G(nq, std::vector<double>(m, 0.0));
    for (int i = 0; i < nq; ++i) for (int k = 0; k < m; ++k) { double t = 0; for (int j = 0; j < nq; ++j) t += SrSrT[i][j] * Pq(k, j); G[i][k] = t; }
    // least squares fit dq ~ G lam (normal equations, m x m)
    Mat GtG(m, std::vector<double>(m, 0.0)); std::vector<double> Gtd(m, 0.0), lam;
    for (int a = 0; a < m; ++a) { for (int b = 0; b < m; ++b) for (int i = 0; i < nq; ++i) GtG[a][b] += G[i][a] * G[i][b]; for (int i = 0; i < nq; ++i) Gtd[a] += G[i][a] * dq[i]; }
    // conditioning of the constraint set in the weighted space: (Pq S_r)(Pq S_r)^T
    Mat PS(m, std::vector<double>(nf, 0.0)); for (int k = 0; k < m; ++k) for (int a = 0; a < nf; ++a) { double t = 0; for (int j = 0; j < nq; ++j) t += Pq(k, j) * S[j][free[a]]; PS[k][a] = t; }
    Mat PP(m, std::vector<double>(m, 0.0)); for (int a = 0; a < m; ++a) for (int b = 0; b < m; ++b) for (int k = 0; k < nf; ++k) PP[a][b] += PS[a][k] * PS[b][k];
    std::vector<double> dummy; const double cond = gaussSolve(PP, std::vector<double>(m, 1.0), dummy);
    if (!(cond > 1e-6)) { vh::D("minnormN.skipped.illConditioned"); return; }
    if (!(gaussSolve(GtG, Gtd, lam) > 0)) { vh::D("minnormN.skipped.illConditioned"); return; }
    double res = 0, ds = 1e-300, solv = 0, bs = 1e-300;
    for (int i = 0; i < nq; ++i) { double t = 0; for (int k = 0; k < m; ++k) t += G[i][k] * lam[k]; double d = std::abs(dq[i] - t); if (std::isnan(d)) res = kNaN; else if (!std::isnan(res) && d > res) res = d; ds = std::max(ds, std::abs(dq[i])); }
    for (int k = 0; k < m; ++k) { double t = 0; for (int j = 0; j < nq; ++j) t += Pq(k, j) * dq[j]; double d = std::abs(t - perr0[k]); if (std::isnan(d)) solv = kNaN; else if (!std::isnan(solv) && d > solv) solv = d; bs = std::max(bs, std::abs(perr0[k])); }
    vh::Line L = c.I("minnormN"); L.i(m).i(nq).i(nu).i(nf); for (int f : free) L.i(f);
    for (int i = 0; i < m; ++i) for (int j = 0; j < nq; ++j) L.d(Pq(i, j));
    for (int i = 0; i < nq; ++i) for (int j = 0; j < nu; ++j) L.d(N(i, j));
    for (int i = 0; i < nu; ++i) for (int j = 0; j < nq; ++j) L.d(NInv(i, j));
    for (int i = 0; i < m; ++i) L.d(Tp[i]);
    for (int j = 0; j < nu; ++j) L.d(Wu[j]);
    for (int i = 0; i < m; ++i) L.d(perr0[i]);
    L.emit();
    std::printf("T 1e-8 1e-10\n");
    vh::Line O = vh::O("minnormN"); for (int j = 0; j < nq; ++j) O.d(dq[j]); O.emit();
    vh::D("minnormN.m" + std::to_string(m) + (nf != nq ? ".someQNotFree" : ".allQFree") + (nq != nu ? ".nqNeNu" : ".nqEqNu"));
    vh::P("minnorm_kkt", "projectQ.linearN.minnorm_kkt", res / ds, 1e-8);
    vh::P("minnorm_solves", "projectQ.linearN.minnorm_solves", solv / std::max(bs, 1e-3), 1e-8);
}

void linearNCase(Ctx& c, vh::Rng& g) {
    Model M;
    // at least one mobilizer with N != identity
    const std::vector<int> nonId = {mGimbal, mBushing, mBall, mFree, mEllipsoid, mSphericalCoords};
    std::vector<int> pal = fullPalette();
    buildTree(M, g, 1 + g.below(4), pal);
    addRandomBody(M, g, g.below(M.nb()), nonId[g.below((int)nonId.size())]);
    M.state = M.system.realizeTopology();
    const bool euler = g.below(3) != 0;
    if (euler) M.matter.setUseEulerAngles(M.state, true);
    M.system.realizeModel(M.state);
    // coordinates that may be constrained: everything except quaternion components (and LineOrientation/FreeLine quaternions)
    struct QC { int body, k; };
    std::vector<QC> cand;
    for (int b = 1; b < M.nb(); ++b) {
        const int nqb = M.bodies[b].getNumQ(M.state);
        const bool quat = M.matter.isUsingQuaternion(M.state, M.bodies[b].getMobilizedBodyIndex());
        for (int k = quat ? 4 : 0; k < nqb; ++k) cand.push_back({b, k});
    }
    if (cand.empty()) return;
    // (the candidates were computed on a first realizeTopology; the constraints are added now and the topology realized again)
    const int nC = 1 + g.below(3);
    for (int i = 0; i < nC; ++i) {
        if (g.coin()) { QC q = cand[g.below((int)cand.size())]; Constraint::ConstantCoordinate(M.bodies[q.body], MobilizerQIndex(q.k), g.range(-0.5, 0.5)); }
        else {
            const int n = 1 + g.below(3); Array_<MobilizedBodyIndex> mb; Array_<MobilizerQIndex> qi;
            for (int a = 0; a < n; ++a) { QC q = cand[g.below((int)cand.size())]; mb.push_back(M.bodies[q.body].getMobilizedBodyIndex()); qi.push_back(MobilizerQIndex(q.k)); }
            Constraint::CoordinateCoupler(M.matter, new QuadFunction(g, n, true), mb, qi);
        }
    }
    M.state = M.system.realizeTopology();
    if (euler) M.matter.setUseEulerAngles(M.state, true);
    M.system.realizeModel(M.state);
    randomState(M, g);
    State& s = M.state;
    std::vector<std::pair<int, double>> lockedQ;
    if (g.below(3) == 0 && M.nb() > 2) {
        const int b = 1 + g.below(M.nb() - 1);
        if (M.mtype[b] != mWeld) {
            const Vector qv = M.bodies[b].getQAsVector(s);
            M.bodies[b].lockAt(s, qv, Motion::Position); M.system.realizeModel(s);
            const int f = (int)M.bodies[b].getFirstQIndex(s);
            for (int i = 0; i < qv.size(); ++i) lockedQ.push_back({f + i, qv[i]});
        }
    }
    M.system.realize(s, Stage::Instance);
    randomWeights(M, g, s);
    M.system.realize(s, Stage::Time); M.system.prescribeQ(s); M.system.realize(s, Stage::Position);
    const int mQuats = M.matter.getNumQuaternionsInUse(s), mHolo = s.getNQErr() - mQuats;
    if (mHolo == 0) return;
    ProjectOptions o(1e-10); o.setOption(ProjectOptions::DontThrow);
    if (g.coin()) o.setOption(ProjectOptions::UseInfinityNorm);
    if (g.below(3) == 0) o.setOption(ProjectOptions::ForceProjection);
    Matrix Pq; M.matter.calcPq(s, Pq);
    const State s0 = s;
    const Vector q0 = s.getQ(), perr0 = Vector(s.getQErr()(0, mHolo)), Tp = s.getQErrWeights(), Wu = s.getUWeights();
    const std::vector<int> fr = freeQ(M, s);
    std::string path;
    tagBodies(M);
    Outcome r = doProjectQ(c, M, s, o, "linearN", lockedQ, &path);
    if (r.status == 0 && path == "newton" && finiteV(s.getQ())) {
        minnormNRecord(c, M, s0, Pq, fr, Tp, Wu, perr0, Vector(q0 - s.getQ()));
        vh::D("minnormN.its" + std::to_string(r.its));
    }
}

// --------------------------------------------------------------------------- quaternion records on small fixed systems
// normqP: two Balls, the second one optionally LOCKED at an unnormalised quaternion (prescribed q): normalizeQuaternions
//         must skip it.   errq: projectQ on an unconstrained Ball with an error estimate: the quaternion is normalised and
//         the estimate loses its component along it (the early-exit "quaternions only" block).
void quatRecords(Ctx& c, vh::Rng& g) {
    static MultibodySystem* sys = nullptr; static SimbodyMatterSubsystem* matter = nullptr; static State st; static MobilizedBody b1, b2;
    if (!sys) {
        sys = new MultibodySystem; matter = new SimbodyMatterSubsystem(*sys);
        Body::Rigid body(MassProperties(1, Vec3(0), UnitInertia(1)));
        b1 = MobilizedBody::Ball(matter->Ground(), Transform(), body, Transform());
        b2 = MobilizedBody::Ball(b1, Transform(Vec3(1, 0, 0)), body, Transform());
        st = sys->realizeTopology(); sys->realizeModel(st);
    }
    {
        State s = st;
        Vector v1 = rvector(g, 4, 2.0), v2 = rvector(g, 4, 2.0);
        const bool lock2 = g.coin();
        if (lock2) { b2.lockAt(s, v2, Motion::Position); sys->realizeModel(s); }
        Vector q(8); for (int i = 0; i < 4; ++i) { q[i] = v1[i]; q[4 + i] = v2[i]; }
        s.updQ() = q;
        sys->realize(s, Stage::Position);
        matter->normalizeQuaternions(s);
        vh::Line L = c.I("normqP"); L.i(1).i(lock2 ? 0 : 1); for (int i = 0; i < 8; ++i) L.d(q[i]); L.emit();
        vh::Line O = vh::O("normqP"); for (int i = 0; i < 8; ++i) O.d(s.getQ()[i]); O.emit();
        vh::D(lock2 ? "normqP.secondPrescribed" : "normqP.bothFree");
    }
    {
        static MultibodySystem* sys1 = nullptr; static SimbodyMatterSubsystem* m1 = nullptr; static State st1;
        if (!sys1) { sys1 = new MultibodySystem; m1 = new SimbodyMatterSubsystem(*sys1);
            MobilizedBody::Ball b(m1->Ground(), Transform(), Body::Rigid(MassProperties(1, Vec3(0), UnitInertia(1))), Transform());
            st1 = sys1->realizeTopology(); sys1->realizeModel(st1); }
        State s = st1;
        Vector v = rvector(g, 4, 2.0); if (std::abs(v.norm() - 1) < 1e-3) v *= 1.5;
        Vector e = rvector(g, 4, 1.0), e0 = e;
        s.updQ() = v; sys1->realize(s, Stage::Position);
        ProjectOptions o(1e-10); o.setOption(ProjectOptions::DontThrow); ProjectResults r;
        sys1->projectQ(s, e, o, r);
        vh::Line L = c.I("errq"); for (int i = 0; i < 4; ++i) L.d(v[i]); for (int i = 0; i < 4; ++i) L.d(e0[i]); L.emit();
        vh::Line O = vh::O("errq"); for (int i = 0; i < 4; ++i) O.d(s.getQ()[i]); for (int i = 0; i < 4; ++i) O.d(e[i]); O.emit();
        vh::D("errq");
    }
}

// --------------------------------------------------------------------------- stream: degenerate
// (a) a quaternion of length ZERO (the boundary of "unnormalised quaternions"): normalisation yields 0/0;
// (b) Slider + Rod where the Rod's Jacobian q/|p| is 0 or tiny and the Rod cannot be met at all;
// (c) a velocity constraint without any real solution (quadratic SpeedCoupler).
void degenerateCase(Ctx& c, vh::Rng& g) {
    Model M;
    M.bodies.push_back(M.matter.Ground()); M.parent.push_back(0); M.mtype.push_back(-1); M.reversed.push_back(false);
    Body::Rigid body(MassProperties(1, Vec3(0), UnitInertia(1)));
    const int variant = g.below(3);
    if (variant == 2) {
        // (c) Pin + SpeedCoupler f(u) = c + b u^2/2 with c,b > 0: no real root; projectU's fixed-Jacobian Newton iteration
        //     started at a small u overshoots and then grows super-exponentially (finite input, 7 iterations)
        MobilizedBody::Pin b1(M.matter.Ground(), Transform(), body, Transform());
        M.bodies.push_back(b1); M.parent.push_back(0); M.mtype.push_back(mPin); M.reversed.push_back(false);
        QuadFunction* f = new QuadFunction(g, 1, true); f->c = g.range(0.5, 2.0); f->a[0] = 0; f->b[0] = g.range(0.5, 2.0);
        Array_<MobilizedBodyIndex> mb, qb; Array_<MobilizerUIndex> ui; Array_<MobilizerQIndex> qi;
        mb.push_back(b1.getMobilizedBodyIndex()); ui.push_back(MobilizerUIndex(0));
        Constraint::SpeedCoupler(M.matter, f, mb, ui, qb, qi);
        M.state = M.system.realizeTopology(); M.system.realizeModel(M.state);
        State& s = M.state;
        s.updU()[0] = g.signedMag(1.0, 9.0) * 1e-7;
        M.system.realize(s, Stage::Position); M.system.prescribeU(s); M.system.realize(s, Stage::Velocity);
        doProjectU(c, M, s, randomOptions(g), "noRoot");
        return;
    }
    if (variant == 1) {
        const bool free = g.coin();
        MobilizedBody b1 = free ? (MobilizedBody)MobilizedBody::Free(M.matter.Ground(), Transform(), body, Transform())
                                : (MobilizedBody)MobilizedBody::Ball(M.matter.Ground(), Transform(), body, Transform());
        M.bodies.push_back(b1); M.parent.push_back(0); M.mtype.push_back(free ? mFree : mBall); M.reversed.push_back(false);
        const bool withCons = g.coin();
        if (withCons) Constraint::Rod(M.matter.Ground(), Vec3(0, 1, 0), b1, Vec3(0.5, 0, 0), g.range(0.8, 1.2));   // takes the Newton path
        M.state = M.system.realizeTopology(); M.system.realizeModel(M.state);
        State& s = M.state;
        Vector q = s.getQ(); for (int i = 0; i < 4; ++i) q[i] = 0.0; s.updQ() = q;           // zero-length quaternion
        M.system.realize(s, Stage::Time); M.system.prescribeQ(s); M.system.realize(s, Stage::Position);
        doProjectQ(c, M, s, randomOptions(g), "zeroQuat", {});
        return;
    }
    MobilizedBody::Slider b1(M.matter.Ground(), Transform(), body, Transform());          // slides along x
    M.bodies.push_back(b1); M.parent.push_back(0); M.mtype.push_back(mSlider); M.reversed.push_back(false);
    const double h = g.range(2.0, 6.0), d = g.range(0.05, 1.0);                            // rod shorter than the distance to the line
    Constraint::Rod(M.matter.Ground(), Vec3(0, h, 0), b1, Vec3(0), d);
    M.state = M.system.realizeTopology(); M.system.realizeModel(M.state);
    State& s = M.state;                                                                    // q ~ 0: p = (q,-h,0) is perpendicular to the slider axis
    s.updQ()[0] = g.below(4) == 0 ? 0.0 : g.signedMag(1.0, 9.0) * std::pow(10.0, -(10 + g.below(21)));   // Jacobian q/|p| is 0 or tiny
    M.system.realize(s, Stage::Time); M.system.prescribeQ(s); M.system.realize(s, Stage::Position);
    doProjectQ(c, M, s, randomOptions(g), "singular", {});
}

void oneCase(uint64_t seed, long k) {
    vh::Rng g(seed * 1000003ull + (uint64_t)k * 7919ull + 29);
    Ctx c{seed, k};
    const int stream = (int)(k % 16);
    try {
        normqRecord(c, g);
        if (k % 4 == 0) quatRecords(c, g);
        if (stream == 7) degenerateCase(c, g);
        else if (stream % 4 == 1) linearCase(c, g);
        else if (stream % 4 == 3) linearNCase(c, g);
        else generalCase(c, g);
    } catch (const std::exception& e) {
        vh::Line L = c.I("chk"); L.s("exception"); L.emit();
        std::string w = e.what(); for (auto& ch : w) if (ch == ' ' || ch == '\n') ch = '_';
        std::printf("O chk EXC:%s\n", w.substr(0, 200).c_str());
        vh::P("no_exception", "harness.exception", 1, 0);
    }
}

} // namespace

int main(int argc, char** argv) {
    vh::Args a(argc, argv);
    g_traceVar = (TraceFn*)dlsym(RTLD_DEFAULT, "SimTK_verif_projectTrace");   // null on a tree without the hook
    if (a.mode == "replay") {
        std::set<std::pair<unsigned long long, long>> cases; char buf[1 << 16];
        while (std::fgets(buf, sizeof buf, stdin)) {
            if (buf[0] != 'I') continue;
            char fn[64]; unsigned long long sd; long k;
            if (std::sscanf(buf + 1, " %63s %llu %ld", fn, &sd, &k) == 3) cases.insert({sd, k});
            else if (std::sscanf(buf + 1, " chk %*s %llu %ld", &sd, &k) == 2) cases.insert({sd, k});
        }
        for (auto& ck : cases) oneCase(ck.first, ck.second);
        return 0;
    }
    for (long k = 0; k < a.n; ++k) oneCase(a.seed, k);
    return 0;
}
