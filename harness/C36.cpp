// C36 correspondence harness: mesh queries match brute force; bounding volumes contain.
//  modelled records (Drivers/C36.lean):
//    I obb.q  <cls> X(12) size(3) p(3) o(3) d(3)          OrientedBoundingBox::containsPoint/findNearestPoint/intersectsRay
//    I mesh.q <cls> kind seed sub nq (p o d)* nV V.. nF F.. <tree>   TriangleMesh::findNearestPoint / intersectsRay through the
//                                                          exported OBB tree (pre-order: 1 box c1 c2 | 0 box k faces)
//    I sph2 / sph3 <cls> points                            Geo::Point::calcBoundingSphere (2, 3 points)
//    I topo <cls> nV nF nE fv fe ev ef                     adjacency tables (model decides consistency)
//  predicate-only records: p.obb.points (box/sphere/AABB from point clouds), p.mesh.file (OBJ/VTP/STL round trips)
//  P lines: queries = brute force over all faces (gm::closestPointTri / gm::rayTri), inside flag = ray parity,
//  reported point lies on the reported face, every tree node contains the vertices of all triangles below it, the leaves
//  partition the faces, bounding volumes contain their points, adjacency accessors mutually consistent, file round trips.
#include "SimTKmath.h"
#include "hcommon.h"
#include "geom_mesh.h"
#include <algorithm>
#include <fstream>
#include <set>
#include <sys/stat.h>
using namespace SimTK;

static const double PI = 3.14159265358979323846;
static const char* SCRATCH = "/tmp/agent-C36";
static Rotation rndRot(vh::Rng& g) {
    double z = g.range(-1, 1), ph = g.range(0, 2*PI), s = std::sqrt(1 - z*z);
    return Rotation(g.range(-PI, PI), UnitVec3(Vec3(s*std::cos(ph), s*std::sin(ph), z)));
}
static Vec3 rndVec(vh::Rng& g, double lo, double hi) { return Vec3(g.signedMag(lo, hi), g.signedMag(lo, hi), g.signedMag(lo, hi)); }
static Vec3 rndUnit(vh::Rng& g) { double z = g.range(-1, 1), ph = g.range(0, 2*PI), s = std::sqrt(1 - z*z); return Vec3(s*std::cos(ph), s*std::sin(ph), z); }
static void pushX(std::vector<double>& v, const Transform& X) {
    for (int i = 0; i < 3; ++i) for (int j = 0; j < 3; ++j) v.push_back(X.R().asMat33()(i, j));
    for (int i = 0; i < 3; ++i) v.push_back(X.p()[i]);
}
static Transform readX(const std::vector<double>& v, int o) {
    Mat33 m; for (int i = 0; i < 3; ++i) for (int j = 0; j < 3; ++j) m(i, j) = v[o + 3*i + j];
    Rotation R; R.setRotationFromMat33TrustMe(m); return Transform(R, Vec3(v[o+9], v[o+10], v[o+11]));
}
static void push3(std::vector<double>& v, const Vec3& p) { for (int i = 0; i < 3; ++i) v.push_back(p[i]); }
static Vec3 V(const std::vector<double>& v, int i) { return Vec3(v[i], v[i+1], v[i+2]); }
static void emitI(const char* fn, const std::string& cls, const std::vector<double>& v) { vh::Line in = vh::I(fn); in.s(cls); for (double x : v) in.d(x); in.emit(); }

// ================================================================================================ OBB queries
static void caseObb(const std::string& cls, const std::vector<double>& v) {
    Transform X = readX(v, 0); Vec3 size = V(v, 12), p = V(v, 15), o = V(v, 18); UnitVec3 d(V(v, 21), true);
    emitI("obb.q", cls, v);
    OrientedBoundingBox box(X, size);
    bool in = box.containsPoint(p); Vec3 np = box.findNearestPoint(p); Real dist = NaN; bool hit = box.intersectsRay(o, d, dist);
    vh::Line out = vh::O("obb.q"); out.i(in).d(np[0]).d(np[1]).d(np[2]).d((np - p).normSqr()).i(hit); if (hit) out.d(dist); out.emit();
    vh::D(std::string("obb.q.") + cls + (in ? ".inside" : ".outside") + (hit ? ".rayhit" : ".raymiss"));
    const double L = std::max(size[0], std::max(size[1], size[2]));
    // independent reference in box coordinates
    Vec3 q = ~X * p; bool refIn = true; Vec3 c = q;
    for (int i = 0; i < 3; ++i) { if (q[i] < 0 || q[i] > size[i]) refIn = false; c[i] = std::min(std::max(q[i], 0.0), size[i]); }
    double margin = INFINITY; for (int i = 0; i < 3; ++i) margin = std::min(margin, std::min(std::abs(q[i]), std::abs(q[i] - size[i])));
    if (margin > 1e-9 * L) vh::P("contains_exact", "OrientedBoundingBox.containsPoint." + cls + ".exact", in == refIn ? 0 : 1, 0);
    vh::P("nearest_exact", "OrientedBoundingBox.findNearestPoint." + cls + ".exact", (np - X * c).norm() / L, 1e-12);
    // ray: slab reference
    Vec3 oo = ~X * o, dd = ~X.R() * Vec3(d); double tmin = -INFINITY, tmax = INFINITY; bool refHit = true;
    for (int i = 0; i < 3; ++i) { if (dd[i] == 0) { if (oo[i] < 0 || oo[i] > size[i]) refHit = false; } else { double t1 = -oo[i] / dd[i], t2 = (size[i] - oo[i]) / dd[i]; tmin = std::max(tmin, std::min(t1, t2)); tmax = std::min(tmax, std::max(t1, t2)); } }
    if (tmin > tmax || tmax < 0) refHit = false;
    if (std::abs(tmax - tmin) > 1e-9 * L && std::abs(tmax) > 1e-9 * L) {
        vh::P("ray_hit_exact", "OrientedBoundingBox.intersectsRay." + cls + ".hit", hit == refHit ? 0 : 1, 0);
        if (hit && refHit) vh::P("ray_distance_exact", "OrientedBoundingBox.intersectsRay." + cls + ".distance", std::abs(dist - std::max(tmin, 0.0)) / L, 1e-12);
    }
}

// ================================================================================================ point clouds
static void casePoints(const std::string& cls, const std::vector<double>& v) {
    int n = (int)v[0]; emitI("p.obb.points", cls, v); std::puts("O p.obb.points -"); vh::D("p.obb.points." + cls);
    Vector_<Vec3> pts(n); Array_<Vec3> arr; double L = 0;
    for (int i = 0; i < n; ++i) { pts[i] = V(v, 1 + 3*i); arr.push_back(pts[i]); L = std::max(L, pts[i].norm()); }
    L = std::max(L, 1e-3);
    // OrientedBoundingBox(points)
    OrientedBoundingBox box(pts); int outside = 0; for (int i = 0; i < n; ++i) if (!box.containsPoint(pts[i])) ++outside;
    vh::P("obb_contains_points", "OrientedBoundingBox.fromPoints." + cls + ".contains", outside, 0);
    // Geo::Point oriented / axis-aligned boxes and bounding spheres
    Geo::OrientedBox ob = Geo::Point::calcOrientedBoundingBox(arr); outside = 0; for (int i = 0; i < n; ++i) if (!ob.containsPoint(pts[i])) ++outside;
    vh::P("geo_obb_contains", "Geo.calcOrientedBoundingBox." + cls + ".contains", outside, 0);
    Geo::AlignedBox ab = Geo::Point::calcAxisAlignedBoundingBox(arr); outside = 0; for (int i = 0; i < n; ++i) if (!ab.containsPoint(pts[i])) ++outside;
    vh::P("geo_aabb_contains", "Geo.calcAxisAlignedBoundingBox." + cls + ".contains", outside, 0);
    Geo::Sphere bs = Geo::Point::calcBoundingSphere(arr); outside = 0; for (int i = 0; i < n; ++i) if (bs.isPointOutside(pts[i])) ++outside;
    vh::P("geo_sphere_contains", "Geo.calcBoundingSphere." + cls + ".contains", outside, 0);
    Geo::Sphere as = Geo::Point::calcApproxBoundingSphere(arr); outside = 0; for (int i = 0; i < n; ++i) if (as.isPointOutside(pts[i])) ++outside;
    vh::P("geo_approx_sphere_contains", "Geo.calcApproxBoundingSphere." + cls + ".contains", outside, 0);
    // (minimality of the "minimal" sphere is not part of the property; it is larger than the approximate one for some
    //  coplanar clouds: recorded as an observation only)
    if ((bs.getRadius() - as.getRadius()) / L > 1e-9) vh::D("observation.Geo.calcBoundingSphere.larger_than_approx." + cls);
    if (n >= 4) { Geo::Sphere s4 = Geo::Point::calcBoundingSphere(pts[0], pts[1], pts[2], pts[3]); outside = 0; for (int i = 0; i < 4; ++i) if (s4.isPointOutside(pts[i])) ++outside;
        vh::P("geo_sphere4_contains", "Geo.calcBoundingSphere4." + cls + ".contains", outside, 0); }
}
static void caseSph(int k, const std::string& cls, const std::vector<double>& v) {
    const char* fn = k == 2 ? "sph2" : "sph3"; emitI(fn, cls, v);
    Geo::Sphere s = k == 2 ? Geo::Point::calcBoundingSphere(V(v, 0), V(v, 3)) : Geo::Point::calcBoundingSphere(V(v, 0), V(v, 3), V(v, 6));
    vh::O(fn).d(s.getCenter()[0]).d(s.getCenter()[1]).d(s.getCenter()[2]).d(s.getRadius()).emit();
    vh::D(std::string(fn) + "." + cls);
    int outside = 0; double worst = 0, L = 1e-3; for (int i = 0; i < k; ++i) { if (s.isPointOutside(V(v, 3*i))) ++outside; L = std::max(L, V(v, 3*i).norm()); }
    vh::P("sphere_contains", std::string("Geo.calcBoundingSphere") + (k == 2 ? "2." : "3.") + cls + ".contains", outside, 0);
    (void)worst;
}

// ================================================================================================ meshes
typedef ContactGeometry::TriangleMesh TM;
static void exportTree(const TM::OBBTreeNode& node, std::vector<double>& v) {
    const OrientedBoundingBox& b = node.getBounds();
    v.push_back(node.isLeafNode() ? 0 : 1); pushX(v, b.getTransform()); push3(v, b.getSize());
    if (node.isLeafNode()) { const Array_<int>& t = node.getTriangles(); v.push_back(t.size()); for (int f : t) v.push_back(f); }
    else { exportTree(node.getFirstChildNode(), v); exportTree(node.getSecondChildNode(), v); }
}
// every node contains the vertices of all the triangles below it; returns the faces below
static void checkTree(const TM& mesh, const TM::OBBTreeNode& node, std::vector<int>& below, int& notContained, int& countMismatch, double slack) {
    std::vector<int> mine;
    if (node.isLeafNode()) { for (int f : node.getTriangles()) mine.push_back(f); }
    else { checkTree(mesh, node.getFirstChildNode(), mine, notContained, countMismatch, slack); checkTree(mesh, node.getSecondChildNode(), mine, notContained, countMismatch, slack); }
    if ((int)mine.size() != node.getNumTriangles()) ++countMismatch;
    const OrientedBoundingBox& b = node.getBounds();
    for (int f : mine) for (int k = 0; k < 3; ++k) {
        Vec3 q = ~b.getTransform() * mesh.getVertexPosition(mesh.getFaceVertex(f, k));
        for (int i = 0; i < 3; ++i) if (q[i] < -slack || q[i] > b.getSize()[i] + slack) { ++notContained; break; }
    }
    below.insert(below.end(), mine.begin(), mine.end());
}
static bool bruteInside(const gm::Mesh& m, const Vec3& p, bool& ambiguous) {
    // parity of crossings along three fixed generic directions; ambiguous if they disagree or a crossing is near an edge
    static const Vec3 dirs[3] = {Vec3(0.5377, 0.6411, 0.5475).normalize(), Vec3(-0.3034, 0.8622, -0.4058).normalize(), Vec3(0.7254, -0.0631, -0.6854).normalize()};
    int votes = 0; ambiguous = false;
    for (auto& d : dirs) { int cnt = 0; for (auto& f : m.F) { double t = gm::rayTri(p, d, m.V[f[0]], m.V[f[1]], m.V[f[2]]); if (t >= 0) { ++cnt; if (gm::rayTriMargin(p, d, m.V[f[0]], m.V[f[1]], m.V[f[2]]) < 1e-7 || t < 1e-9) ambiguous = true; } } votes += cnt & 1; }
    if (votes != 0 && votes != 3) ambiguous = true;
    return votes == 3;
}
static void caseMesh(const std::string& cls, const std::vector<double>& vin) {
    int kind = (int)vin[0]; uint64_t mseed = (uint64_t)vin[1]; int sub = (int)vin[2] % 10, nq = (int)vin[3];
    const bool smooth = ((int)vin[2] / 10) == 1;            // third parameter = subdivision + 10*smooth
    gm::Mesh m0 = gm::makeMesh(kind, mseed, sub);
    TM mesh(m0.vertices(), m0.faceIndices(), smooth);
    // the library may re-orient the faces: work with its own vertex order
    gm::Mesh m; for (int i = 0; i < mesh.getNumVertices(); ++i) m.V.push_back(mesh.getVertexPosition(i));
    for (int f = 0; f < mesh.getNumFaces(); ++f) m.F.push_back({mesh.getFaceVertex(f, 0), mesh.getFaceVertex(f, 1), mesh.getFaceVertex(f, 2)});
    std::vector<double> v(vin.begin(), vin.begin() + 4 + 9*nq);
    v.push_back(m.V.size()); for (auto& p : m.V) push3(v, p);
    v.push_back(m.F.size()); for (auto& f : m.F) { v.push_back(f[0]); v.push_back(f[1]); v.push_back(f[2]); }
    exportTree(mesh.getOBBTreeNode(), v);
    emitI("mesh.q", cls, v);
    double L = 0; for (auto& p : m.V) L = std::max(L, p.norm());
    struct Q { Vec3 np; bool inside; int face; Vec2 uv; double d2; bool hit; double dist; int rface; Vec2 ruv; };
    std::vector<Q> res(nq);
    for (int q = 0; q < nq; ++q) {
        Vec3 p = V(v, 4 + 9*q), o = V(v, 7 + 9*q); UnitVec3 d(V(v, 10 + 9*q), true);
        Q& r = res[q]; r.face = -1; r.rface = -1; r.dist = NaN; Vec2& ruv = r.ruv; ruv = Vec2(NaN);
        r.np = mesh.findNearestPoint(p, r.inside, r.face, r.uv); r.d2 = (r.np - p).normSqr();
        r.hit = mesh.intersectsRay(o, d, r.dist, r.rface, ruv);
        vh::O("mesh.nearest").d(r.d2).d(r.np[0]).d(r.np[1]).d(r.np[2]).emit();
        vh::Line lr = vh::O("mesh.ray"); lr.i(r.hit); if (r.hit) lr.d(r.dist); lr.emit();
    }
    vh::D(std::string("mesh.q.") + cls + ".kind" + std::to_string(kind) + ".faces" + std::to_string((int)m.F.size()));
    static const char* KN = "TriangleMesh";
    vh::D(std::string("mesh.q.") + cls + (smooth ? ".smooth" : ".flat"));
    // reference for findNormalAtPoint: flat = face normal; smooth = "normal vectors smoothly interpolated between vertices"
    // (ContactGeometry.h): one normal per vertex (read back through the corners uv = (1,0), (0,1), (0,0), which must agree
    // between the faces sharing the vertex) interpolated with the same weights as findPoint(face, uv).  How a vertex normal
    // is weighted from the incident faces is not documented and is not part of the predicate.
    std::vector<Vec3> fN(m.F.size()), vN(m.V.size(), Vec3(NaN)), wInt(m.V.size(), Vec3(0)), wExt(m.V.size(), Vec3(0)); double vIncons = 0;
    for (size_t f = 0; f < m.F.size(); ++f) { Vec3 c = (m.V[m.F[f][1]] - m.V[m.F[f][0]]) % (m.V[m.F[f][2]] - m.V[m.F[f][0]]); fN[f] = c / c.norm();
        static const Vec2 corner[3] = {Vec2(1, 0), Vec2(0, 1), Vec2(0, 0)};
        for (int j = 0; j < 3; ++j) { Vec3 nj = Vec3(mesh.findNormalAtPoint((int)f, corner[j])); Vec3& slot = vN[m.F[f][j]];
            if (slot[0] == slot[0]) vIncons = std::max(vIncons, (slot - nj).norm()); else slot = nj;
            Vec3 a = m.V[m.F[f][(j+1)%3]] - m.V[m.F[f][j]], b = m.V[m.F[f][(j+2)%3]] - m.V[m.F[f][j]]; double th = std::atan2((a % b).norm(), ~a * b);
            wInt[m.F[f][j]] += fN[f] * th; wExt[m.F[f][j]] += fN[f] * (PI - th); } }
    if (smooth) { vh::P("vertex_normal_one_per_vertex", std::string(KN) + ".findNormalAtPoint." + cls + ".corner_normals_agree_across_faces", vIncons, 1e-12);
        double dInt = 0, dExt = 0; for (size_t i = 0; i < m.V.size(); ++i) { dInt = std::max(dInt, (vN[i] - wInt[i] / wInt[i].norm()).norm()); dExt = std::max(dExt, (vN[i] - wExt[i] / wExt[i].norm()).norm()); }
        if (dExt < 1e-10 && dInt > 1e-6) vh::D("observation.TriangleMesh.vertex_normals_weighted_by_exterior_angle"); }
    auto refNormal = [&](int f, const Vec2& uv) { if (!smooth) return fN[f];
        Vec3 n = uv[0] * vN[m.F[f][0]] + uv[1] * vN[m.F[f][1]] + (1 - uv[0] - uv[1]) * vN[m.F[f][2]]; return Vec3(n / n.norm()); };
    const std::string sm = smooth ? ".smooth" : ".flat";
    for (int q = 0; q < nq; ++q) {
        Vec3 p = V(v, 4 + 9*q), o = V(v, 7 + 9*q), d = V(v, 10 + 9*q); const Q& r = res[q];
        // input class: does any face fall into the region-6 class for this query?
        bool r6 = false; for (auto& f : m.F) if (gm::eberlyRegion6Disagrees(p, m.V[f[0]], m.V[f[1]], m.V[f[2]])) r6 = true;
        std::string kc = cls + (r6 ? ".eberly_region6" : "");
        // nearest point = brute force over all faces
        double best = INFINITY; for (auto& f : m.F) best = std::min(best, gm::pointTriDist2(p, m.V[f[0]], m.V[f[1]], m.V[f[2]]));
        vh::P("nearest_eq_bruteforce", std::string(KN) + ".findNearestPoint." + kc + ".bruteforce", std::abs(std::sqrt(r.d2) - std::sqrt(best)) / L, 1e-10);
        // reported point lies on the reported face
        bool faceOk = r.face >= 0 && r.face < mesh.getNumFaces();
        vh::P("nearest_on_face", std::string(KN) + ".findNearestPoint." + kc + ".on_reported_face",
              faceOk ? std::sqrt(gm::pointTriDist2(r.np, m.V[m.F[r.face][0]], m.V[m.F[r.face][1]], m.V[m.F[r.face][2]])) / L : NAN, 1e-12);
        if (faceOk) vh::P("uv_consistent", std::string(KN) + ".findNearestPoint." + kc + ".uv", (mesh.findPoint(r.face, r.uv) - r.np).norm() / L, 1e-12);
        // inside flag = ray parity (skipped when the parity test is ambiguous or the point is within 1e-6 of the surface)
        bool amb; bool refIn = bruteInside(m, p, amb);
        // on the thin / sliver meshes the key also names the nearest feature: at a vertex or edge with an acute dihedral angle the
        // flag is taken from one adjacent face's normal (see notes)
        std::string kin = kc;
        if (cls == "thin_tetrahedron" || cls == "sliver_mesh") { bool onEdge = false;
            for (auto& f : m.F) { Vec3 q = gm::closestPointTri(p, m.V[f[0]], m.V[f[1]], m.V[f[2]]); if ((p - q).normSqr() <= best * (1 + 1e-9) + 1e-300) {
                Vec3 e0 = m.V[f[1]] - m.V[f[0]], e1 = m.V[f[2]] - m.V[f[0]], dq = q - m.V[f[0]]; double aa = ~e0*e0, bb = ~e0*e1, cc = ~e1*e1, dd = ~e0*dq, ee = ~e1*dq, det = aa*cc - bb*bb;
                double ss = (cc*dd - bb*ee) / det, tt = (aa*ee - bb*dd) / det; if (std::min(ss, std::min(tt, 1 - ss - tt)) < 1e-9) onEdge = true; } }
            kin = cls; kin += onEdge ? ".nearest_on_vertex_or_edge" : ".nearest_in_face_interior"; }
        if (!amb && best > 1e-12 * L * L) vh::P("inside_eq_parity", std::string(KN) + ".findNearestPoint." + kin + ".inside", r.inside == refIn ? 0 : 1, 0);
        vh::D(std::string("mesh.q.inside_parity.") + (best <= 1e-12 * L * L ? "skipped_on_surface" : amb ? "skipped_ambiguous" : refIn ? "checked_inside" : "checked_outside"));
        // the (inside, normal) overloads: same point / flag / distance as the (face, uv) overloads, normal = findNormalAtPoint
        { bool in2 = !r.inside; UnitVec3 n2; Vec3 np2 = mesh.findNearestPoint(p, in2, n2);
          vh::P("normal_overload_same_point", std::string(KN) + ".findNearestPoint." + kc + ".normal_overload_point", (np2 - r.np).norm() / L + (in2 == r.inside ? 0 : 1), 0);
          if (faceOk) { vh::P("normal_at_point", std::string(KN) + ".findNormalAtPoint." + cls + sm, (Vec3(mesh.findNormalAtPoint(r.face, r.uv)) - refNormal(r.face, r.uv)).norm(), 1e-12);
                        vh::P("nearest_normal", std::string(KN) + ".findNearestPoint." + kc + ".normal" + sm, (Vec3(n2) - refNormal(r.face, r.uv)).norm(), 1e-12); } }
        // ray = brute force
        double tb = INFINITY, margin = INFINITY; int nh = 0;
        for (auto& f : m.F) { double t = gm::rayTri(o, d, m.V[f[0]], m.V[f[1]], m.V[f[2]]); double mg = gm::rayTriMargin(o, d, m.V[f[0]], m.V[f[1]], m.V[f[2]]); margin = std::min(margin, mg); if (t >= 0) { ++nh; tb = std::min(tb, t); } }
        if (margin > 1e-7) {
            vh::P("ray_hit_eq_bruteforce", std::string(KN) + ".intersectsRay." + cls + ".hit", r.hit == (nh > 0) ? 0 : 1, 0);
            if (r.hit && nh > 0) vh::P("ray_dist_eq_bruteforce", std::string(KN) + ".intersectsRay." + cls + ".distance", std::abs(r.dist - tb) / L, 1e-10);
        }
        else vh::D("mesh.q.ray.skipped_near_edge");
        { Real d2 = NaN; UnitVec3 n2; bool hit2 = mesh.intersectsRay(o, UnitVec3(d, true), d2, n2);
          vh::P("ray_normal_overload_same_hit", std::string(KN) + ".intersectsRay." + cls + ".normal_overload_hit", (hit2 == r.hit ? 0 : 1) + (hit2 && r.hit ? std::abs(d2 - r.dist) / L : 0), 0);
          if (hit2 && r.hit && r.rface >= 0 && r.rface < mesh.getNumFaces()) vh::P("ray_normal", std::string(KN) + ".intersectsRay." + cls + ".normal" + sm, (Vec3(n2) - refNormal(r.rface, res[q].ruv)).norm(), 1e-12); }
    }
    // tree invariants
    std::vector<int> all; int notContained = 0, countMismatch = 0; checkTree(mesh, mesh.getOBBTreeNode(), all, notContained, countMismatch, 1e-12 * L);
    vh::P("node_contains_triangles", std::string(KN) + ".OBBTree." + cls + ".node_contains_triangles", notContained, 0);
    vh::P("node_counts", std::string(KN) + ".OBBTree." + cls + ".num_triangles", countMismatch, 0);
    std::sort(all.begin(), all.end()); bool part = (int)all.size() == mesh.getNumFaces(); for (int i = 0; part && i < (int)all.size(); ++i) if (all[i] != i) part = false;
    vh::P("leaves_partition_faces", std::string(KN) + ".OBBTree." + cls + ".leaves_partition_faces", part ? 0 : 1, 0);
    // bounding sphere of the mesh contains its vertices
    Vec3 ctr; Real rad; mesh.getBoundingSphere(ctr, rad); double wo = -INFINITY; for (auto& p : m.V) wo = std::max(wo, (p - ctr).norm() - rad);
    vh::P("mesh_sphere_contains", std::string(KN) + ".getBoundingSphere." + cls + ".contains", wo / L, 1e-12);
    // face normals and areas
    double en = 0, ea = 0; for (int f = 0; f < mesh.getNumFaces(); ++f) { Vec3 c = (m.V[m.F[f][1]] - m.V[m.F[f][0]]) % (m.V[m.F[f][2]] - m.V[m.F[f][0]]); en = std::max(en, (Vec3(mesh.getFaceNormal(f)) - c / c.norm()).norm()); ea = std::max(ea, std::abs(mesh.getFaceArea(f) - c.norm() / 2)); }
    vh::P("face_normal", std::string(KN) + ".getFaceNormal." + cls + ".exact", en, 1e-12);
    vh::P("face_area", std::string(KN) + ".getFaceArea." + cls + ".exact", ea / (L * L), 1e-12);
    // outward orientation: signed volume positive
    double vol = 0; for (auto& f : m.F) vol += ~m.V[f[0]] * (m.V[f[1]] % m.V[f[2]]) / 6;
    vh::P("outward_orientation", std::string(KN) + ".orientation." + cls + ".outward", vol > 0 ? 0 : 1, 0);
}


// ---- directed per-face stream (after a seeded bug in one region of findNearestPointToFace went unseen): designed triangles
// (obtuse / sliver / right at each vertex position, needle opposite each vertex, equilateral) as the base of a tetrahedron,
// query points in each of the seven regions of the face's plane (sign pattern of the barycentric coordinates), near the
// triangle and far out in the wedges, at several heights.  Class = shape of the face *in the library's vertex order* x
// region x near/far.  Record: tetra A B C D(12) face(1) p(3) + the face's vertices in library order (9, for the model).
static std::string faceShape(const Vec3& v0, const Vec3& v1, const Vec3& v2) {
    const Vec3 V[3] = {v0, v1, v2}; double ang[3], len[3];
    for (int k = 0; k < 3; ++k) { Vec3 a = V[(k+1)%3] - V[k], b = V[(k+2)%3] - V[k]; ang[k] = std::atan2((a % b).norm(), ~a * b) * 180 / PI; len[k] = (V[(k+1)%3] - V[(k+2)%3]).norm(); }   // len[k] = edge opposite vertex k
    int km = 0; for (int k = 1; k < 3; ++k) if (ang[k] > ang[km]) km = k;
    int ks = 0; for (int k = 1; k < 3; ++k) if (len[k] < len[ks]) ks = k;
    double lmax = std::max(len[0], std::max(len[1], len[2]));
    if (ang[km] > 172) return "sliver_at_" + std::to_string(km);
    if (ang[km] > 100) return "obtuse_at_" + std::to_string(km);
    if (len[ks] / lmax < 0.08) return "needle_" + std::to_string(ks);
    if (std::abs(ang[km] - 90) < 0.5) return "right_at_" + std::to_string(km);
    if (std::abs(ang[0] - 60) < 1 && std::abs(ang[1] - 60) < 1) return "equilateral";
    return "acute";
}
static int planeRegion(const Vec3& v0, const Vec3& v1, const Vec3& v2, const Vec3& p, double& far) {
    Vec3 e0 = v1 - v0, e1 = v2 - v0, dl = p - v0; long double a = ~e0*e0, b = ~e0*e1, c = ~e1*e1, d = ~e0*dl, e = ~e1*dl, det = a*c - b*b;
    long double s = (c*d - b*e) / det, t = (a*e - b*d) / det;
    far = (double)std::max(std::max(-s, -t), s + t - 1);      // how far outside, in barycentric units
    if (s + t <= 1) { if (s < 0) return t < 0 ? 4 : 3; return t < 0 ? 5 : 0; }
    if (s < 0) return 2; if (t < 0) return 6; return 1;
}
static void caseTri(const std::vector<double>& vin, std::set<std::string>* cover) {
    gm::Mesh m; for (int i = 0; i < 4; ++i) m.V.push_back(V(vin, 3*i)); m.F = {{0, 1, 2}, {0, 3, 1}, {1, 3, 2}, {2, 3, 0}};
    int face = (int)vin[12]; Vec3 p = V(vin, 13);
    TM mesh(m.vertices(), m.faceIndices(), false);
    Vec3 L0 = mesh.getVertexPosition(mesh.getFaceVertex(face, 0)), L1 = mesh.getVertexPosition(mesh.getFaceVertex(face, 1)), L2 = mesh.getVertexPosition(mesh.getFaceVertex(face, 2));
    double far; int reg = planeRegion(L0, L1, L2, p, far);
    const std::string cls = faceShape(L0, L1, L2) + ".region" + std::to_string(reg) + (far > 0.75 ? ".far" : ".near");
    if (cover) cover->insert(cls);
    std::vector<double> v(vin.begin(), vin.begin() + 16); push3(v, L0); push3(v, L1); push3(v, L2);
    emitI("tri.q", cls, v);
    Vec2 uv(NaN); Vec3 np = mesh.findNearestPointToFace(p, face, uv);
    vh::O("tri.q").d(np[0]).d(np[1]).d(np[2]).d(uv[0]).d(uv[1]).emit();
    vh::D("tri.q." + cls);
    const double Ls = std::max((L1 - L0).norm(), std::max((L2 - L0).norm(), (L2 - L1).norm()));
    const std::string K = "TriangleMesh.findNearestPointToFace." + cls;
    Vec3 ref = gm::closestPointTri(p, L0, L1, L2); double dref = (p - ref).norm(), dimp = (p - np).norm();
    vh::P("nearest_on_face_exact", K + ".exact_distance", std::abs(dimp - dref) / std::max(Ls, dref), 1e-10);
    vh::P("uv_in_triangle", K + ".uv_in_range", std::max(0.0, std::max(-uv[0], std::max(-uv[1], uv[0] + uv[1] - 1))), 1e-14);
    vh::P("uv_reproduces_point", K + ".uv_point", (mesh.findPoint(face, uv) - np).norm() / Ls, 1e-13);
    vh::P("point_in_face", K + ".point_on_face", std::sqrt(gm::pointTriDist2(np, L0, L1, L2)) / Ls, 1e-12);
}
static void directedTriangles(uint64_t seed, bool emit) {
    vh::Rng g(seed * 6364136223846793005ull + 36); std::set<std::string> cover;
    // designed triangles in the plane z = 0, (P0,P1,P2) with the special corner at P0; rot = cyclic shift of the labels
    struct Tri { Vec3 a, b, c; };
    auto designs = [&]() { std::vector<Tri> ts;
        for (int rot = 0; rot < 3; ++rot) {
            auto put = [&](Vec3 P0, Vec3 P1, Vec3 P2) { Vec3 Q[3] = {P0, P1, P2}; ts.push_back({Q[(3 - rot) % 3], Q[(4 - rot) % 3], Q[(5 - rot) % 3]}); };
            double th = g.range(110, 165) * PI / 180; put(Vec3(0), Vec3(g.range(0.5, 1.5), 0, 0), g.range(0.5, 1.5) * Vec3(std::cos(th), std::sin(th), 0));            // obtuse at P0
            th = g.range(174, 178.5) * PI / 180; put(Vec3(0), Vec3(g.range(0.5, 1.5), 0, 0), g.range(0.5, 1.5) * Vec3(std::cos(th), std::sin(th), 0));             // sliver at P0
            put(Vec3(0), Vec3(g.range(0.5, 1.5), 0, 0), Vec3(0, g.range(0.5, 1.5), 0));                                                                              // right angle at P0
            put(Vec3(g.range(0.8, 1.5), g.range(-0.01, 0.01), 0), Vec3(0, -0.025, 0), Vec3(0, 0.025, 0));                                // needle: short edge opposite P0
        }
        double L = g.range(0.5, 1.5); ts.push_back({Vec3(0), Vec3(L, 0, 0), Vec3(L / 2, L * std::sqrt(3.0) / 2, 0)});
        return ts; }();
    // (s,t) samples of the seven regions, near and far
    for (size_t ti = 0; ti < designs.size(); ++ti) {
        Tri T = designs[ti]; Rotation R(g.range(0, 2*PI), UnitVec3(rndUnit(g))); Vec3 off = rndVec(g, 0.1, 1);
        Vec3 n(0, 0, 1); double Ls = std::max((T.b - T.a).norm(), std::max((T.c - T.a).norm(), (T.c - T.b).norm()));
        Vec3 D = (T.a + T.b + T.c) / 3 - g.range(0.05, 0.4) * Ls * n;          // apex on the inner side of (a,b,c)
        Vec3 A = R * T.a + off, B = R * T.b + off, C = R * T.c + off, Dd = R * D + off, nn = R * n;
        for (int reg = 0; reg < 7; ++reg) for (int farI = 0; farI < 3; ++farI) for (int hI = 0; hI < 4; ++hI) {
            // m = how far outside the triangle (barycentric units): near 0.05..0.5, far 2..8 and 20..60
            double mm = farI == 0 ? g.range(0.05, 0.5) : farI == 1 ? g.range(2, 8) : g.range(20, 60), u = g.range(0.1, 0.9), r2 = g.range(0.1, 1.0), s = 0, t = 0;
            switch (reg) {
            case 0: s = g.range(0.05, 0.6); t = g.range(0.05, 0.9 - s); break;
            case 1: s = u * (1 + mm); t = (1 - u) * (1 + mm); break;
            case 2: s = -mm; t = 1 + mm + mm * r2; break;
            case 3: s = -mm; t = u; break;
            case 4: s = -mm; t = -mm * r2; break;
            case 5: s = u; t = -mm; break;
            case 6: t = -mm; s = 1 + mm + mm * r2; break; }
            static const double hs[4] = {0, 1e-3, 0.4, 5};
            Vec3 p = A + s * (B - A) + t * (C - A) + (hI % 2 ? -1 : 1) * hs[hI] * Ls * nn;
            std::vector<double> v; push3(v, A); push3(v, B); push3(v, C); push3(v, Dd); v.push_back(0); push3(v, p);
            if (emit) caseTri(v, &cover);
            else { gm::Mesh m; m.V = {A, B, C, Dd}; m.F = {{0, 1, 2}, {0, 3, 1}, {1, 3, 2}, {2, 3, 0}}; TM mesh(m.vertices(), m.faceIndices(), false);
                   Vec3 L0 = mesh.getVertexPosition(mesh.getFaceVertex(0, 0)), L1 = mesh.getVertexPosition(mesh.getFaceVertex(0, 1)), L2 = mesh.getVertexPosition(mesh.getFaceVertex(0, 2));
                   double far; int rg = planeRegion(L0, L1, L2, p, far); cover.insert(faceShape(L0, L1, L2) + ".region" + std::to_string(rg) + (far > 0.75 ? ".far" : ".near")); }
        }
    }
    // coverage floor: every shape class x region (x near/far outside the triangle) must have been hit
    int missing = 0; std::string firstMissing;
    std::vector<std::string> shapes = {"equilateral"}; for (const char* b : {"obtuse_at_", "sliver_at_", "right_at_", "needle_"}) for (int k = 0; k < 3; ++k) shapes.push_back(std::string(b) + std::to_string(k));
    for (auto& sh : shapes) for (int reg = 0; reg < 7; ++reg) for (const char* nf : {".near", ".far"}) {
        if (reg == 0 && std::string(nf) == ".far") continue;
        std::string c = sh + ".region" + std::to_string(reg) + nf; if (!cover.count(c)) { ++missing; if (firstMissing.empty()) firstMissing = c; } }
    emitI("p.tri.coverage", "directed", {(double)seed}); std::puts("O p.tri.coverage -");
    vh::D("p.tri.coverage.classes_hit=" + std::to_string((int)cover.size()) + (missing ? ".first_missing=" + firstMissing : ""));
    vh::P("directed_stream_covers_all_classes", "TriangleMesh.findNearestPointToFace.directed.coverage", missing, 0);
}

// ---- adjacency tables
static void caseTopo(const std::string& cls, const std::vector<double>& vin) {
    int kind = (int)vin[0]; uint64_t mseed = (uint64_t)vin[1]; int sub = (int)vin[2];
    gm::Mesh m0 = gm::makeMesh(kind, mseed, sub);
    TM mesh(m0.vertices(), m0.faceIndices(), false);
    int nV = mesh.getNumVertices(), nF = mesh.getNumFaces(), nE = mesh.getNumEdges();
    // the record carries the generator parameters (for replay) followed by the tables (for the model); the driver reads
    // the tables from offset 0, so the parameters are kept in a separate leading record
    std::vector<double> v = {(double)nV, (double)nF, (double)nE};
    for (int f = 0; f < nF; ++f) for (int k = 0; k < 3; ++k) v.push_back(mesh.getFaceVertex(f, k));
    for (int f = 0; f < nF; ++f) for (int k = 0; k < 3; ++k) v.push_back(mesh.getFaceEdge(f, k));
    for (int e = 0; e < nE; ++e) for (int k = 0; k < 2; ++k) v.push_back(mesh.getEdgeVertex(e, k));
    for (int e = 0; e < nE; ++e) for (int k = 0; k < 2; ++k) v.push_back(mesh.getEdgeFace(e, k));
    emitI("p.topo.params", cls, vin); std::puts("O p.topo.params -");
    emitI("topo", cls, v); std::puts("O topo 1");
    vh::D("topo." + cls + ".kind" + std::to_string(kind));
    // independent checks of the accessors
    int bad = 0;
    for (int f = 0; f < nF; ++f) for (int k = 0; k < 3; ++k) {
        int e = mesh.getFaceEdge(f, k), a = mesh.getFaceVertex(f, k), b = mesh.getFaceVertex(f, (k + 1) % 3);
        if (e < 0 || e >= nE) { ++bad; continue; }
        int ea = mesh.getEdgeVertex(e, 0), eb = mesh.getEdgeVertex(e, 1);
        if (!((ea == a && eb == b) || (ea == b && eb == a))) ++bad;
        if (mesh.getEdgeFace(e, 0) != f && mesh.getEdgeFace(e, 1) != f) ++bad;
    }
    for (int e = 0; e < nE; ++e) { if (mesh.getEdgeFace(e, 0) == mesh.getEdgeFace(e, 1)) ++bad; }
    vh::P("adjacency_consistent", "TriangleMesh.adjacency." + cls + ".face_edge_vertex", bad, 0);
    vh::P("euler", "TriangleMesh.adjacency." + cls + ".two_E_equals_three_F", std::abs(2 * nE - 3 * nF), 0);
    // findVertexEdges returns exactly the incident edges, each once
    int badv = 0;
    for (int vtx = 0; vtx < nV; ++vtx) { Array_<int> es; mesh.findVertexEdges(vtx, es); std::set<int> got(es.begin(), es.end()), ref;
        for (int e = 0; e < nE; ++e) if (mesh.getEdgeVertex(e, 0) == vtx || mesh.getEdgeVertex(e, 1) == vtx) ref.insert(e);
        if (got != ref || got.size() != es.size()) ++badv; }
    vh::P("vertex_edges", "TriangleMesh.findVertexEdges." + cls + ".exact", badv, 0);
    // vertices and faces are those given (up to the orientation flip of all faces)
    int badf = 0; bool flipped = mesh.getFaceVertex(0, 0) != m0.F[0][0] || mesh.getFaceVertex(0, 1) != m0.F[0][1];
    for (int f = 0; f < nF; ++f) { int a = mesh.getFaceVertex(f, 0), b = mesh.getFaceVertex(f, 1), c = mesh.getFaceVertex(f, 2);
        if (!flipped ? !(a == m0.F[f][0] && b == m0.F[f][1] && c == m0.F[f][2]) : !(a == m0.F[f][1] && b == m0.F[f][0] && c == m0.F[f][2])) ++badf; }
    double dv = 0; for (int i = 0; i < nV; ++i) dv = std::max(dv, (mesh.getVertexPosition(i) - m0.V[i]).norm());
    vh::P("faces_preserved", "TriangleMesh.construction." + cls + ".faces", badf, 0);
    vh::P("vertices_preserved", "TriangleMesh.construction." + cls + ".vertices", dv, 0);
}


// ---- syntax variants of the three file formats (review E M3): each variant is a fixed way of writing the same mesh; the
// loaded mesh must have the vertices and faces written.  Keys PolygonalMesh.load<Fmt>.<cls>.<variant>.{...}
static void caseFileVariants(const std::string& cls, int kind, uint64_t mseed, int sub) {
    gm::Mesh m = gm::makeMesh(kind, mseed, sub);
    std::vector<Vec3> Vs = m.V; std::vector<std::vector<int> > Fs; for (auto& f : m.F) Fs.push_back({f[0], f[1], f[2]});
    // a closed pentagonal prism: 2 pentagons (fan with a centre vertex in TriangleMesh) + 5 quads
    std::vector<Vec3> Pv; std::vector<std::vector<int> > Pf; vh::Rng g(mseed + 7);
    const double h = g.range(0.5, 1.5), rr = g.range(0.5, 1.5);
    for (int i = 0; i < 5; ++i) Pv.push_back(Vec3(rr * std::cos(2*PI*i/5), rr * std::sin(2*PI*i/5), 0));
    for (int i = 0; i < 5; ++i) Pv.push_back(Vec3(rr * std::cos(2*PI*i/5), rr * std::sin(2*PI*i/5), h));
    Pf.push_back({4, 3, 2, 1, 0}); Pf.push_back({5, 6, 7, 8, 9});
    for (int i = 0; i < 5; ++i) Pf.push_back({i, (i + 1) % 5, 5 + (i + 1) % 5, 5 + i});
    mkdir(SCRATCH, 0755);
    const std::string base = std::string(SCRATCH) + "/v" + std::to_string((unsigned long long)mseed) + "_" + std::to_string(kind);
    auto check = [&](const std::string& fmt, const std::string& var, const std::string& path, const std::vector<Vec3>& V0, const std::vector<std::vector<int> >& F0, double tolv, bool indexed) {
        const std::string K = "PolygonalMesh.load" + fmt + "." + cls + "." + var;
        vh::D("p.mesh.file." + cls + "." + fmt + "." + var);
        try {
            PolygonalMesh pm; pm.loadFile(path);
            vh::P("no_exception", K + ".exception", 0, 0);
            vh::P("num_faces", K + ".num_faces", std::abs(pm.getNumFaces() - (int)F0.size()), 0);
            if (indexed) vh::P("num_vertices", K + ".num_vertices", std::abs(pm.getNumVertices() - (int)V0.size()), 0);
            double worst = 0; int badTopo = 0;
            if (pm.getNumFaces() == (int)F0.size())
                for (int f = 0; f < pm.getNumFaces(); ++f) {
                    if (pm.getNumVerticesForFace(f) != (int)F0[f].size()) { ++badTopo; continue; }
                    for (int k = 0; k < (int)F0[f].size(); ++k) { int vi = pm.getFaceVertex(f, k);
                        if (vi < 0 || vi >= pm.getNumVertices()) { ++badTopo; continue; }
                        if (indexed && vi != F0[f][k]) ++badTopo; worst = std::max(worst, (pm.getVertexPosition(vi) - V0[F0[f][k]]).norm()); }
                }
            vh::P("faces_preserved", K + ".faces", badTopo, 0);
            vh::P("vertices_preserved", K + ".vertices", worst, tolv);
        } catch (const std::exception& e) {
            vh::P("no_exception", K + ".exception", 1, 0);
        }
        std::remove(path.c_str());
    };
    auto vline = [](std::ostream& o, const Vec3& p) { o << "v " << p[0] << " " << p[1] << " " << p[2] << "\n"; };
    // ---- OBJ
    { std::string f = base + "_a.obj"; { std::ofstream o(f); o.precision(17);          // f i/j/k with vt and vn records
        for (auto& p : Vs) vline(o, p); for (auto& p : Vs) o << "vt " << 0.5 + 0.1 * p[0] << " " << 0.5 + 0.1 * p[1] << "\n";
        for (auto& p : Vs) { Vec3 n = p / p.norm(); o << "vn " << n[0] << " " << n[1] << " " << n[2] << "\n"; }
        for (auto& fc : Fs) { o << "f"; for (int i : fc) o << " " << i + 1 << "/" << i + 1 << "/" << i + 1; o << "\n"; } }
      check("Obj", "v_vt_vn", f, Vs, Fs, 1e-15, true); }
    { std::string f = base + "_b.obj"; { std::ofstream o(f); o.precision(17);          // f i//k (no texture index)
        for (auto& p : Vs) vline(o, p); for (auto& p : Vs) { Vec3 n = p / p.norm(); o << "vn " << n[0] << " " << n[1] << " " << n[2] << "\n"; }
        for (auto& fc : Fs) { o << "f"; for (int i : fc) o << " " << i + 1 << "//" << i + 1; o << "\n"; } }
      check("Obj", "v_slash_slash_vn", f, Vs, Fs, 1e-15, true); }
    { std::string f = base + "_c.obj"; { std::ofstream o(f); o.precision(17);          // f i/j (texture only)
        for (auto& p : Vs) vline(o, p); for (auto& p : Vs) o << "vt " << 0.5 + 0.1 * p[0] << " " << 0.5 + 0.1 * p[1] << "\n";
        for (auto& fc : Fs) { o << "f"; for (int i : fc) o << " " << i + 1 << "/" << i + 1; o << "\n"; } }
      check("Obj", "v_vt", f, Vs, Fs, 1e-15, true); }
    { std::string f = base + "_d.obj"; { std::ofstream o(f); o.precision(17);          // negative (relative) indices
        for (auto& p : Vs) vline(o, p);
        for (auto& fc : Fs) { o << "f"; for (int i : fc) o << " " << i - (int)Vs.size(); o << "\n"; } }
      check("Obj", "negative_indices", f, Vs, Fs, 1e-15, true); }
    { std::string f = base + "_e.obj"; { std::ofstream o(f); o.precision(17);          // comments, blank lines, groups, leading blanks, continuation
        o << "# a comment\n\nmtllib none.mtl\no body\n"; int c = 0;
        for (auto& p : Vs) { if (++c % 3 == 0) o << "\n# c" << c << "\n"; o << (c % 2 ? "  " : "\t"); vline(o, p); }
        o << "g part1\nusemtl m\ns off\n";
        for (auto& fc : Fs) { if (++c % 4 == 0) o << "   \n"; o << "f " << fc[0] + 1 << " \\\n" << fc[1] + 1 << " " << fc[2] + 1 << "\n"; } o << "# end"; }
      check("Obj", "comments_blank_continuation", f, Vs, Fs, 1e-15, true); }
    { std::string f = base + "_f.obj"; { std::ofstream o(f); o.precision(17);          // polygons with more than four vertices
        for (auto& p : Pv) vline(o, p); for (auto& fc : Pf) { o << "f"; for (int i : fc) o << " " << i + 1; o << "\n"; } }
      // the contact mesh made from it: pentagon -> 5 triangles round a new centre vertex, quad -> 2 triangles
      try { PolygonalMesh pm; pm.loadFile(f); TM t(pm);
            const std::string K = "TriangleMesh.fromPolygonalMesh." + cls + ".pentagonal_prism";
            vh::P("triangulation_faces", K + ".num_faces", std::abs(t.getNumFaces() - 20), 0);
            vh::P("triangulation_vertices", K + ".num_vertices", std::abs(t.getNumVertices() - 12), 0);
            double area = 0, vol = 0; for (int i = 0; i < t.getNumFaces(); ++i) { area += t.getFaceArea(i);
                vol += ~t.getVertexPosition(t.getFaceVertex(i, 0)) * (t.getVertexPosition(t.getFaceVertex(i, 1)) % t.getVertexPosition(t.getFaceVertex(i, 2))) / 6; }
            const double pent = 2.5 * rr * rr * std::sin(2*PI/5), side = 2 * rr * std::sin(PI/5);
            vh::P("triangulation_area", K + ".area", std::abs(area - (2 * pent + 5 * side * h)) / (2 * pent + 5 * side * h), 1e-13);
            vh::P("triangulation_volume", K + ".volume", std::abs(vol - pent * h) / (pent * h), 1e-13);
      } catch (const std::exception& e) { vh::P("no_exception", "TriangleMesh.fromPolygonalMesh." + cls + ".pentagonal_prism.exception", 1, 0); }
      check("Obj", "pentagons", f, Pv, Pf, 1e-15, true); }
    // ---- VTP
    auto vtp = [&](const std::string& path, const char* ftype, const char* itype, bool offsetsFirst, bool pointData, const std::vector<Vec3>& V0, const std::vector<std::vector<int> >& F0) {
        std::ofstream o(path); o.precision(ftype[5] == '3' ? 9 : 17);
        o << "<?xml version=\"1.0\"?>\n<!-- variant -->\n<VTKFile type=\"PolyData\" version=\"0.1\" byte_order=\"LittleEndian\">\n  <PolyData>\n    <Piece NumberOfPoints=\"" << V0.size() << "\" NumberOfVerts=\"0\" NumberOfLines=\"0\" NumberOfStrips=\"0\" NumberOfPolys=\"" << F0.size() << "\">\n";
        if (pointData) { o << "<PointData Scalars=\"T\">\n<DataArray type=\"Float32\" Name=\"T\" format=\"ascii\">\n"; for (size_t i = 0; i < V0.size(); ++i) o << (i % 7) << " "; o << "\n</DataArray>\n</PointData>\n<CellData>\n</CellData>\n"; }
        o << "<Points>\n<DataArray type=\"" << ftype << "\" NumberOfComponents=\"3\" format=\"ascii\">\n"; int c = 0; for (auto& p : V0) o << (float)0 * 0 + p[0] << " " << p[1] << "\t" << p[2] << ((++c % 2) ? "   " : "\n"); o << "\n</DataArray>\n</Points>\n";
        o << "<Verts>\n</Verts>\n<Polys>\n";
        auto conn = [&]() { o << "<DataArray type=\"" << itype << "\" Name=\"connectivity\" format=\"ascii\">\n"; for (auto& f : F0) { for (int i : f) o << i << " "; } o << "\n</DataArray>\n"; };
        auto offs = [&]() { o << "<DataArray type=\"" << itype << "\" Name=\"offsets\" format=\"ascii\">\n"; int off = 0; for (auto& f : F0) { off += (int)f.size(); o << off << "\n"; } o << "</DataArray>\n"; };
        if (offsetsFirst) { offs(); conn(); } else { conn(); offs(); }
        o << "</Polys>\n</Piece>\n</PolyData>\n</VTKFile>\n"; };
    { std::string f = base + "_a.vtp"; std::vector<Vec3> Vf; for (auto& p : Vs) Vf.push_back(Vec3((float)p[0], (float)p[1], (float)p[2]));
      vtp(f, "Float32", "Int64", false, false, Vf, Fs); check("Vtp", "float32_int64", f, Vf, Fs, 1e-8, true); /* 9 significant digits written */ }
    { std::string f = base + "_b.vtp"; vtp(f, "Float64", "Int32", true, true, Pv, Pf); check("Vtp", "offsets_first_pointdata_polygons", f, Pv, Pf, 1e-15, true); }
    // ---- STL (ascii)
    auto stl = [&](const std::string& path, int style) {
        std::ofstream o(path); o.precision(9);
        o << (style == 1 ? "SOLID  a name with   spaces and facet words\n\n# comment\n! comment\n" : style == 2 ? "solid\n" : "solid first\n");
        for (auto& f : Fs) { o << (style == 1 ? "FACET NORMAL 0 0 1\n\tOUTER LOOP\n" : style == 2 ? "facetnormal 0 0 1\nouterloop\n" : " facet normal 1 0 0\n  outer loop\n");
            for (int i : f) o << (style == 1 ? "\t\tVERTEX " : "   vertex ") << Vs[i][0] << " " << Vs[i][1] << "  " << Vs[i][2] << "\n";
            o << (style == 1 ? "\tENDLOOP\nENDFACET\n\n" : "  endloop\n endfacet\n"); }
        o << (style == 1 ? "ENDSOLID  a name with   spaces and facet words\n" : style == 2 ? "endsolid\n" : "endsolid first\n");
        if (style == 3) o << "solid second\n facet normal 0 0 1\n  outer loop\n   vertex 0 0 0\n   vertex 1 0 0\n   vertex 0 1 0\n  endloop\n endfacet\nendsolid second\n"; };
    { std::string f = base + "_a.stl"; stl(f, 1); check("StlAscii", "uppercase_name_with_spaces", f, Vs, Fs, 1e-7, false); }
    { std::string f = base + "_b.stla"; stl(f, 2); check("StlAscii", "joined_keywords_no_name_stla", f, Vs, Fs, 1e-7, false); }
    { std::string f = base + "_c.stl"; stl(f, 3); check("StlAscii", "two_solids_first_only", f, Vs, Fs, 1e-7, false); }
}

// ---- file round trips: the harness writes, PolygonalMesh::loadFile reads
static void caseFile(const std::string& cls, const std::vector<double>& vin) {
    int kind = (int)vin[0]; uint64_t mseed = (uint64_t)vin[1]; int sub = (int)vin[2], shape = (int)vin[3];
    emitI("p.mesh.file", cls, vin); std::puts("O p.mesh.file -");
    // shape 0: closed triangle mesh; 1: open strip of quads (polygons, OBJ/VTP only)
    std::vector<Vec3> Vs; std::vector<std::vector<int> > Fs;
    if (shape == 0) { gm::Mesh m = gm::makeMesh(kind, mseed, sub); Vs = m.V; for (auto& f : m.F) Fs.push_back({f[0], f[1], f[2]}); }
    else { vh::Rng g(mseed + 99); int n = 3 + sub * 2; for (int i = 0; i <= n; ++i) { Vs.push_back(Vec3(i * 0.5, 0, g.range(-0.2, 0.2))); Vs.push_back(Vec3(i * 0.5, 1 + g.range(0, 0.3), g.range(-0.2, 0.2))); }
           for (int i = 0; i < n; ++i) Fs.push_back({2*i, 2*i + 2, 2*i + 3, 2*i + 1}); }
    if (shape == 2) { caseFileVariants(cls, kind, mseed, sub); return; }
    vh::D("p.mesh.file." + cls + (shape ? ".open_quads" : ".closed_tris"));
    mkdir(SCRATCH, 0755);
    std::string base = std::string(SCRATCH) + "/m" + std::to_string((unsigned long long)mseed) + "_" + std::to_string(kind) + "_" + std::to_string(shape);
    auto compare = [&](const PolygonalMesh& pm, const std::string& fmt, double tolv, bool indexed) {
        const std::string K = "PolygonalMesh.load" + fmt + "." + cls;
        vh::P("num_faces", K + ".num_faces", std::abs(pm.getNumFaces() - (int)Fs.size()), 0);
        if (indexed) vh::P("num_vertices", K + ".num_vertices", std::abs(pm.getNumVertices() - (int)Vs.size()), 0);
        double worst = 0; int badTopo = 0;
        if (pm.getNumFaces() == (int)Fs.size())
            for (int f = 0; f < pm.getNumFaces(); ++f) {
                if (pm.getNumVerticesForFace(f) != (int)Fs[f].size()) { ++badTopo; continue; }
                for (int k = 0; k < (int)Fs[f].size(); ++k) { int vi = pm.getFaceVertex(f, k); if (indexed && vi != Fs[f][k]) ++badTopo; worst = std::max(worst, (pm.getVertexPosition(vi) - Vs[Fs[f][k]]).norm()); }
            }
        vh::P("faces_preserved", K + ".faces", badTopo, 0);
        vh::P("vertices_preserved", K + ".vertices", worst, tolv);
    };
    try {
        { std::ofstream o(base + ".obj"); o.precision(17); o << "# verif\n"; for (auto& p : Vs) o << "v " << p[0] << " " << p[1] << " " << p[2] << "\n"; for (auto& f : Fs) { o << "f"; for (int i : f) o << " " << (i + 1); o << "\n"; } }
        PolygonalMesh pm; pm.loadFile(base + ".obj"); compare(pm, "Obj", 1e-15, true);
        { std::ofstream o(base + ".vtp"); o.precision(17);
          o << "<?xml version=\"1.0\"?>\n<VTKFile type=\"PolyData\" version=\"0.1\" byte_order=\"LittleEndian\">\n<PolyData>\n<Piece NumberOfPoints=\"" << Vs.size() << "\" NumberOfVerts=\"0\" NumberOfLines=\"0\" NumberOfStrips=\"0\" NumberOfPolys=\"" << Fs.size() << "\">\n";
          o << "<Points>\n<DataArray type=\"Float64\" NumberOfComponents=\"3\" format=\"ascii\">\n"; for (auto& p : Vs) o << p[0] << " " << p[1] << " " << p[2] << "\n"; o << "</DataArray>\n</Points>\n";
          o << "<Polys>\n<DataArray type=\"Int32\" Name=\"connectivity\" format=\"ascii\">\n"; for (auto& f : Fs) { for (int i : f) o << i << " "; o << "\n"; } o << "</DataArray>\n";
          o << "<DataArray type=\"Int32\" Name=\"offsets\" format=\"ascii\">\n"; int off = 0; for (auto& f : Fs) { off += (int)f.size(); o << off << " "; } o << "\n</DataArray>\n</Polys>\n</Piece>\n</PolyData>\n</VTKFile>\n"; }
        PolygonalMesh pv; pv.loadFile(base + ".vtp"); compare(pv, "Vtp", 1e-15, true);
        if (shape == 0) {
            { std::ofstream o(base + ".stl"); o.precision(9); o << "solid verif\n";
              for (auto& f : Fs) { o << " facet normal 0 0 0\n  outer loop\n"; for (int i : f) o << "   vertex " << Vs[i][0] << " " << Vs[i][1] << " " << Vs[i][2] << "\n"; o << "  endloop\n endfacet\n"; } o << "endsolid verif\n"; }
            PolygonalMesh ps; ps.loadFile(base + ".stl"); compare(ps, "StlAscii", 1e-7, false);
            vh::P("stl_vertices_merged", "PolygonalMesh.loadStlAscii." + cls + ".vertices_merged", std::abs(ps.getNumVertices() - (int)Vs.size()), 0);
            { std::ofstream o(base + "_b.stl", std::ios::binary); char hdr[80] = "binary stl written by the verif harness"; o.write(hdr, 80); uint32_t nt = (uint32_t)Fs.size(); o.write((char*)&nt, 4);
              for (auto& f : Fs) { float z[3] = {0, 0, 0}; o.write((char*)z, 12); for (int i : f) { float q[3] = {(float)Vs[i][0], (float)Vs[i][1], (float)Vs[i][2]}; o.write((char*)q, 12); } uint16_t a = 0; o.write((char*)&a, 2); } }
            PolygonalMesh pb; pb.loadFile(base + "_b.stl"); compare(pb, "StlBinary", 1e-6, false);
            // a closed triangle mesh loaded from a file gives the same contact mesh
            TM t1(pm); vh::P("contact_mesh_from_file", "TriangleMesh.fromPolygonalMesh." + cls + ".num_faces", std::abs(t1.getNumFaces() - (int)Fs.size()), 0);
        }
        vh::P("no_exception", "PolygonalMesh.loadFile." + cls + ".exception", 0, 0);
    } catch (const std::exception& e) {
        vh::P("no_exception", "PolygonalMesh.loadFile." + cls + ".exception", 1, 0);
    }
    std::remove((base + ".obj").c_str()); std::remove((base + ".vtp").c_str()); std::remove((base + ".stl").c_str()); std::remove((base + "_b.stl").c_str());
}

// ================================================================================================= generators
static void genObb(vh::Rng& g, const std::string& cls) {
    Transform X(rndRot(g), rndVec(g, 0.1, 2)); Vec3 size(g.range(0.2, 3), g.range(0.2, 3), g.range(0.2, 3));
    Vec3 p = X * Vec3(g.range(-0.6, 1.6) * size[0], g.range(-0.6, 1.6) * size[1], g.range(-0.6, 1.6) * size[2]);
    Vec3 o = X * (size / 2) + 3 * rndUnit(g); Vec3 d = g.coin() ? Vec3(UnitVec3(X * Vec3(g.range(0, 1) * size[0], g.range(0, 1) * size[1], g.range(0, 1) * size[2]) - o)) : rndUnit(g);
    if (g.below(5) == 0) o = X * Vec3(g.range(0.1, 0.9) * size[0], g.range(0.1, 0.9) * size[1], g.range(0.1, 0.9) * size[2]);   // origin inside
    std::vector<double> v; pushX(v, X); push3(v, size); push3(v, p); push3(v, o); push3(v, d); caseObb(cls, v);
}
static void genPoints(vh::Rng& g, const std::string& cls, int shape) {
    int n = 4 + g.below(40); std::vector<double> v = {(double)n}; Rotation R = rndRot(g); Vec3 c = rndVec(g, 0.1, 3), s(g.range(0.1, 2), g.range(0.1, 2), g.range(0.1, 2));
    for (int i = 0; i < n; ++i) { Vec3 q(g.range(-1, 1) * s[0], g.range(-1, 1) * s[1], g.range(-1, 1) * s[2]);
        if (shape == 1) q[2] = 0;                       // coplanar
        if (shape == 2) { q[1] = 0; q[2] = 0; }         // collinear
        if (shape == 3) q = s[0] * rndUnit(g);          // cospherical
        push3(v, c + R * q); }
    casePoints(cls, v);
}
static std::vector<double> meshRecord(vh::Rng& g, int kind, int sub, int nq) {
    double mseed = (double)(g.next() % 100000); gm::Mesh m = gm::makeMesh(kind, (uint64_t)mseed, sub);
    double L = 0; for (auto& p : m.V) L = std::max(L, p.norm());
    std::vector<double> v = {(double)kind, mseed, (double)sub, (double)nq};
    for (int q = 0; q < nq; ++q) {
        Vec3 p = g.range(0.05, 1.8) * L * rndUnit(g);
        Vec3 o = g.range(0.0, 2.5) * L * rndUnit(g);
        Vec3 d = g.coin() ? Vec3(UnitVec3(m.V[g.below((int)m.V.size())] * g.range(0.2, 0.9) + 0.05 * L * rndUnit(g) - o)) : rndUnit(g);
        push3(v, p); push3(v, o); push3(v, d);
    }
    return v;
}

static void generic(vh::Rng& g, long n) {
    for (long it = 0; it < n; ++it) {
        switch (g.below(10)) {
        case 0: case 1: case 2: genObb(g, "generic"); break;
        case 3: genPoints(g, "generic", 0); break;
        case 4: { std::vector<double> v; push3(v, rndVec(g, 0.1, 3)); push3(v, rndVec(g, 0.1, 3)); caseSph(2, "generic", v); break; }
        case 5: { std::vector<double> v; Vec3 a = rndVec(g, 0.1, 3); push3(v, a); push3(v, a + rndVec(g, 0.1, 2)); push3(v, a + rndVec(g, 0.1, 2)); caseSph(3, "generic", v); break; }
        case 6: case 7: { std::vector<double> r = meshRecord(g, g.below(4), 1 + g.below(2), 6); if (g.coin()) r[2] += 10; caseMesh("generic", r); break; }   // +10: smooth = true
        case 8: caseTopo("generic", {(double)g.below(4), (double)(g.next() % 100000), (double)(1 + g.below(2))}); break;
        case 9: caseFile("generic", {(double)g.below(4), (double)(g.next() % 100000), (double)(1 + g.below(2)), (double)g.below(2)}); break;
        }
    }
}
static void degenerate(vh::Rng& g, long n) {
    long reps = std::max<long>(1, n / 100);
    for (long it = 0; it < reps; ++it) {
        genPoints(g, "coplanar", 1); genPoints(g, "collinear", 2); genPoints(g, "cospherical", 3);
        { std::vector<double> v = {4}; Vec3 p = rndVec(g, 0.1, 2); for (int i = 0; i < 4; ++i) push3(v, p); casePoints("coincident", v); }
        { Vec3 a = rndVec(g, 0.1, 3); std::vector<double> v; push3(v, a); push3(v, a); caseSph(2, "coincident", v); }
        { Vec3 a = rndVec(g, 0.1, 3), u = rndUnit(g); std::vector<double> v; push3(v, a); push3(v, a + u); push3(v, a + 2.5 * u); caseSph(3, "collinear", v); }
        { Vec3 a = rndVec(g, 0.1, 3), u = rndUnit(g), w = Vec3(UnitVec3(u % rndUnit(g))); std::vector<double> v; push3(v, a); push3(v, a + 2 * u); push3(v, a + u + 0.1 * w); caseSph(3, "obtuse", v); }
        // box mesh with extreme aspect ratio (sliver triangles), query points on faces / at vertices / at the centre
        { std::vector<double> v = {2, (double)(g.next() % 100000), 1, 4};
          gm::Mesh m = gm::makeMesh(2, (uint64_t)v[1], 1);
          push3(v, Vec3(0)); push3(v, Vec3(0)); push3(v, Vec3(UnitVec3(Vec3(0.3, 0.5, 0.8))));
          push3(v, m.V[7]); push3(v, 3 * m.V[7]); push3(v, Vec3(UnitVec3(-m.V[7])));
          push3(v, 0.5 * (m.V[0] + m.V[3])); push3(v, Vec3(5, 0.01, 0.02)); push3(v, Vec3(-1, 0, 0));
          push3(v, 2 * m.V[1]); push3(v, Vec3(0, 0, 9)); push3(v, Vec3(0, 0, -1));
          caseMesh("box_special_points", v); }
        // thin / sliver meshes: mesh-level queries vs brute force (kinds 4: sheared flattened icosphere, 5: thin tetrahedron)
        caseMesh("sliver_mesh", meshRecord(g, 4, 1, 8)); caseMesh("thin_tetrahedron", meshRecord(g, 5, 1, 8));
        if (it == 0) directedTriangles(g.next() % 1000000, true);
        // file syntax variants (shape 2)
        caseFile("syntax_variants", {(double)g.below(4), (double)(g.next() % 100000), 1, 2});
    }
    // regression witness of finding F12 (point-triangle region 6; fixed in /repo by b3f19b8d): deterministic search over
    // a fixed family of meshes for the first query that falls into the input class, which is then replayed
    { vh::Rng h(12345); bool done = false;
      for (int ms = 1; ms <= 400 && !done; ++ms) {
          int kind = ms & 1; gm::Mesh m = gm::makeMesh(kind, ms, 1); double L = 0; for (auto& p : m.V) L = std::max(L, p.norm());
          TM mesh(m.vertices(), m.faceIndices(), false);
          for (int tries = 0; tries < 200 && !done; ++tries) {
              Vec3 p = h.range(0.3, 1.6) * L * rndUnit(h);
              for (int f = 0; f < mesh.getNumFaces() && !done; ++f)
                  if (gm::eberlyRegion6Disagrees(p, mesh.getVertexPosition(mesh.getFaceVertex(f, 0)), mesh.getVertexPosition(mesh.getFaceVertex(f, 1)), mesh.getVertexPosition(mesh.getFaceVertex(f, 2)))) {
                      std::vector<double> v = {(double)kind, (double)ms, 1, 1}; push3(v, p); push3(v, Vec3(0)); push3(v, Vec3(1, 0, 0));
                      caseMesh("region6_witness", v); done = true; }
          } } }
}

static void replay() {
    static char buf[1 << 20];
    while (std::fgets(buf, sizeof buf, stdin)) {
        std::istringstream is(buf); std::string k, fn, cls; is >> k >> fn >> cls;
        if (k != "I") continue;
        std::vector<double> v; std::string t; while (is >> t) v.push_back(vh::unhex(t));
        if (fn == "obb.q") caseObb(cls, v); else if (fn == "p.obb.points") casePoints(cls, v);
        else if (fn == "sph2") caseSph(2, cls, v); else if (fn == "sph3") caseSph(3, cls, v);
        else if (fn == "mesh.q") caseMesh(cls, v); else if (fn == "p.topo.params") caseTopo(cls, v);
        else if (fn == "p.mesh.file") caseFile(cls, v);
        else if (fn == "tri.q") caseTri(v, nullptr);
        else if (fn == "p.tri.coverage") directedTriangles((uint64_t)v[0], false);
    }
}

int main(int argc, char** argv) {
    vh::Args args(argc, argv);
    if (args.mode == "replay") { replay(); return 0; }
    vh::Rng g(args.seed * 7919 + 36);
    if (args.mode == "degenerate") degenerate(g, args.n); else generic(g, args.n);
    return 0;
}
