// C40 correspondence harness: SimTK::Differentiator (forward / central differences; scalar, gradient, Jacobian functions).
// The user functions log every call; per differentiated column the harness emits
//   I diffcol order acc y0i nf ypObs ymObs fy0[nf] fplus[nf] fminus[nf]
//   O pts ypObs ymObs           (perturbed coordinate values the implementation used; ymObs = y0i for order 1)
//   O col d[nf]                 (the derivative column the implementation returned)
//   I method m dflt  ->  O method order      (order actually used, observed from the number of calls per column)
// P lines: error against the analytic derivative within the method-order bound + rounding term, step properties,
// call-count / single-coordinate perturbation.
#include "SimTKcommon.h"
#include "SimTKmath.h"
#include "hcommon.h"
#include <algorithm>
using namespace SimTK;

static const double EPS = 2.220446049250313e-16;

// ---------------------------------------------------------------- catalogue of smooth functions R^n -> R^nf
struct FnSpec {
    int kind;          // 0 polynomial (affine/quadratic/cubic + cross terms), 1 sum of sinusoids, 2 exponential of a linear form
    int n, nf;
    std::vector<double> A, B, C, E, c0;    // [nf*n] (c0: [nf])
    double a(int k, int i) const { return A[k * n + i]; }
    double b(int k, int i) const { return B[k * n + i]; }
    double c(int k, int i) const { return C[k * n + i]; }
    double e(int k, int i) const { return E[k * n + i]; }
    double eval(const double* y, int k) const {
        if (kind == 0) {
            double v = c0[k];
            for (int i = 0; i < n; ++i) v += a(k, i) * y[i] + b(k, i) * y[i] * y[i] + c(k, i) * y[i] * y[i] * y[i];
            for (int j = 0; j < n; ++j) v += e(k, j) * y[j] * y[(j + 1) % n];
            return v;
        } else if (kind == 1) {
            double v = c0[k];
            for (int i = 0; i < n; ++i) v += a(k, i) * std::sin(b(k, i) * y[i] + c(k, i));
            return v;
        } else {
            double s = 0; for (int i = 0; i < n; ++i) s += a(k, i) * y[i];
            return c0[k] * std::exp(s);
        }
    }
    // analytic first derivative d f_k / d y_i
    double d1(const double* y, int k, int i) const {
        if (kind == 0) {
            double v = a(k, i) + 2 * b(k, i) * y[i] + 3 * c(k, i) * y[i] * y[i];
            for (int j = 0; j < n; ++j) { if (j == i) v += e(k, j) * y[(j + 1) % n]; if ((j + 1) % n == i) v += e(k, j) * y[j]; }
            return v;
        } else if (kind == 1) return a(k, i) * b(k, i) * std::cos(b(k, i) * y[i] + c(k, i));
        else return a(k, i) * eval(y, k);
    }
    // upper bounds of |d^2 f_k/dy_i^2| and |d^3 f_k/dy_i^3| on [y_i-h, y_i+h]
    double m2(const double* y, int k, int i, double h) const {
        if (kind == 0) return std::fabs(2 * b(k, i)) + 6 * std::fabs(c(k, i)) * (std::fabs(y[i]) + h) + (n == 1 ? 2 * std::fabs(e(k, 0)) : 0);
        if (kind == 1) return std::fabs(a(k, i)) * b(k, i) * b(k, i);
        return a(k, i) * a(k, i) * std::fabs(eval(y, k)) * std::exp(std::fabs(a(k, i)) * h);
    }
    double m3(const double* y, int k, int i, double h) const {
        if (kind == 0) return 6 * std::fabs(c(k, i));
        if (kind == 1) return std::fabs(a(k, i) * b(k, i) * b(k, i) * b(k, i));
        return std::fabs(a(k, i) * a(k, i) * a(k, i) * eval(y, k)) * std::exp(std::fabs(a(k, i)) * h);
    }
    // magnitude of the terms summed when evaluating f_k near y (rounding error of f is a few eps times this)
    double fabsSum(const double* y, int k, double h) const {
        if (kind == 0) {
            double v = std::fabs(c0[k]);
            for (int i = 0; i < n; ++i) { double t = std::fabs(y[i]) + h; v += std::fabs(a(k, i)) * t + std::fabs(b(k, i)) * t * t + std::fabs(c(k, i)) * t * t * t; }
            for (int j = 0; j < n; ++j) v += std::fabs(e(k, j)) * (std::fabs(y[j]) + h) * (std::fabs(y[(j + 1) % n]) + h);
            return v;
        } else if (kind == 1) {
            // sin(b y + c): argument rounding eps*|b y| moves the value by |a| * eps * (|b y|+|c|)
            double v = std::fabs(c0[k]);
            for (int i = 0; i < n; ++i) v += std::fabs(a(k, i)) * (1 + std::fabs(b(k, i)) * (std::fabs(y[i]) + h) + std::fabs(c(k, i)));
            return v;
        } else {
            double s = 0; for (int i = 0; i < n; ++i) s += std::fabs(a(k, i)) * (std::fabs(y[i]) + h);
            return std::fabs(eval(y, k)) * (2 + s) * std::exp(std::fabs(a(k, 0)) * h);
        }
    }
};

struct Call { std::vector<double> y, f; };
static std::vector<Call> g_log;

struct SFn : public Differentiator::ScalarFunction {
    const FnSpec& s;
    SFn(const FnSpec& s, Real acc) : Differentiator::ScalarFunction(acc), s(s) {}
    int f(Real x, Real& fx) const override { double y = x; fx = s.eval(&y, 0); g_log.push_back({{x}, {fx}}); return 0; }
};
struct GFn : public Differentiator::GradientFunction {
    const FnSpec& s;
    GFn(const FnSpec& s, Real acc) : Differentiator::GradientFunction(s.n, acc), s(s) {}
    int f(const Vector& y, Real& fy) const override {
        std::vector<double> yy(s.n); for (int i = 0; i < s.n; ++i) yy[i] = y[i];
        fy = s.eval(yy.data(), 0); g_log.push_back({yy, {fy}}); return 0; }
};
struct JFn : public Differentiator::JacobianFunction {
    const FnSpec& s;
    JFn(const FnSpec& s, Real acc) : Differentiator::JacobianFunction(s.nf, s.n, acc), s(s) {}
    int f(const Vector& y, Vector& fy) const override {
        std::vector<double> yy(s.n), ff(s.nf); for (int i = 0; i < s.n; ++i) yy[i] = y[i];
        for (int k = 0; k < s.nf; ++k) { ff[k] = s.eval(yy.data(), k); fy[k] = ff[k]; }
        g_log.push_back({yy, ff}); return 0; }
};

static FnSpec makeSpec(vh::Rng& g, int kind, int n, int nf, int polyDeg, bool ints) {
    FnSpec s; s.kind = kind; s.n = n; s.nf = nf;
    s.A.assign(nf * n, 0); s.B.assign(nf * n, 0); s.C.assign(nf * n, 0); s.E.assign(nf * n, 0); s.c0.assign(nf, 0);
    for (int k = 0; k < nf; ++k) {
        s.c0[k] = ints ? g.smallInt(-9, 9) : g.signedMag(0.1, 10);
        if (kind == 2) s.c0[k] = g.signedMag(0.1, 3);
        for (int i = 0; i < n; ++i) {
            int q = k * n + i;
            if (kind == 0) {
                s.A[q] = ints ? g.smallInt(-9, 9) : g.signedMag(0.1, 10);
                if (polyDeg >= 2) { s.B[q] = ints ? g.smallInt(-5, 5) : g.signedMag(0.1, 5); s.E[q] = ints ? g.smallInt(-3, 3) : g.signedMag(0.1, 3); }
                if (polyDeg >= 3) s.C[q] = ints ? g.smallInt(-3, 3) : g.signedMag(0.1, 3);
            } else if (kind == 1) { s.A[q] = g.signedMag(0.1, 5); s.B[q] = g.signedMag(0.2, 3); s.C[q] = g.range(-3, 3); }
            else s.A[q] = g.signedMag(0.05, 1.0) / n;
        }
    }
    return s;
}

static double pickY(vh::Rng& g, int kind, bool ints) {
    int r = g.below(10);
    if (ints) return g.smallInt(-4, 4);
    if (r == 0) return 0.0;                                   // zero: the YMin branch
    if (r == 1) return g.signedMag(1e-3, 0.1);               // below YMin
    if (r == 2) return g.signedMag(1e2, 1e4);                // large values (exponential family: diffCase rescales the exponent)
    return g.signedMag(0.1, 5);
}

static void emitMethod(int m, int dflt, int order) {
    vh::I("method").d(m).d(dflt).emit();
    vh::O("method").d(order).emit();
    vh::D("method");
}

// shape rule of the three entry points: calcDerivative needs 1x1, calcGradient needs nf==1, calcJacobian always works.
// Emits the observation (ok / EXC) for a Gradient/JacobianFunction (affine, small integers) of the given shape; the model
// answers from the documented rule.  A documented-valid call must deliver an estimate of the derivative.
static void apiRouteRun(int shape, int route, int nf, int n, uint64_t fseed) {
    vh::Rng g(fseed);
    FnSpec s = makeSpec(g, 0, n, nf, 1, true);
    for (auto& a : s.A) if (a == 0) a = 3;
    JFn jf(s, -1); GFn gf(s, -1);
    const Differentiator::Function& fn = shape == 1 ? (const Differentiator::Function&)gf : (const Differentiator::Function&)jf;
    Differentiator diff(fn);
    Vector Y0(n); std::vector<double> y0(n); for (int i = 0; i < n; ++i) Y0[i] = y0[i] = g.smallInt(-3, 3);
    std::vector<double> fy0(nf); Vector FY0(nf); for (int k = 0; k < nf; ++k) FY0[k] = fy0[k] = s.eval(y0.data(), k);
    std::string res = "ok", what;
    Matrix J(nf, n); J = -777;          // sentinel: a route that does not write its result leaves it in place
    try {
        if (route == 0) { Real d = -777; diff.calcDerivative(y0[0], fy0[0], d); J(0, 0) = d; }
        else if (route == 1) { Vector grad(n, -777.0); diff.calcGradient(Y0, fy0[0], grad); for (int i = 0; i < n && i < grad.size(); ++i) J(0, i) = grad[i]; }
        else diff.calcJacobian(Y0, FY0, J);
    } catch (const std::exception& e) { res = "EXC"; what = e.what(); }
    vh::I("apiroute").d(shape).d(route).d(nf).d(n).d((double)fseed).emit();
    std::printf("O apiroute %s\n", res.c_str());
    std::string rname = route == 0 ? "calcDerivative" : route == 1 ? "calcGradient" : "calcJacobian";
    std::string sname = shape == 1 ? "gradfn" : "jacfn";
    vh::D("apiroute." + sname + "." + rname + "." + res);
    bool allowed = route == 0 ? (nf == 1 && n == 1) : route == 1 ? nf == 1 : true;
    if (allowed) {
        // findings (notes/C40.md; fixed in /repo 3b01da75): JacobianFunction + calcGradient with >= 2 parameters threw;
        // calcDerivative on a Gradient/JacobianFunction never wrote its result.  Specific keys; anything else has the generic key.
        std::string key = (shape == 2 && route == 1 && n >= 2) ? "diff.jacfn.calcGradient.nparam_ge2.throws" : "diff.apiroute.valid_call_throws";
        vh::P("valid_route_delivers", key, res == "ok" ? 0 : 1, 0);
        if (res == "ok") {
            double worst = 0;
            int rows = route == 2 ? nf : 1;
            for (int k = 0; k < rows; ++k) for (int i = 0; i < n; ++i)
                worst = std::max(worst, std::fabs(J(k, i) - s.a(k, i)) / std::max(std::fabs(s.a(k, i)), 1.0));
            std::string key2 = route == 0 ? "diff." + sname + ".calcDerivative.result_not_written" : "diff.apiroute.valid_call_wrong_result";
            vh::P("valid_route_result", key2, worst, 1e-5);
        }
    } else {
        bool shapeExc = what.find("requires a") != std::string::npos;
        vh::P("invalid_shape_rejected", "diff.apiroute.invalid_shape_not_rejected", (res == "EXC" && shapeExc) ? 0 : 1, 0);
    }
}
static void apiRouteCase(vh::Rng& g) {
    int shape = 1 + g.below(2);
    int nf = shape == 1 ? 1 : 1 + g.below(3), n = 1 + g.below(4), route = g.below(3);
    apiRouteRun(shape, route, nf, n, g.next() >> 12);
}

static int g_colsJudged = 0, g_defaultCentralOmitted = 0;
// force*: guaranteed classes (main): function shape, API route, default method of the Differentiator, method argument omitted
static void diffCase(vh::Rng& g, int fShape = -1, int fRoute = -1, int fDflt = -1, bool fOmit = false) {
    int shape = fShape >= 0 ? fShape : g.below(3);                      // 0 scalar fn, 1 gradient fn, 2 jacobian fn
    int kind = g.below(3);
    bool ints = (kind == 0) && g.below(3) == 0;
    int polyDeg = 1 + g.below(3);
    int n = (shape == 0) ? 1 : 1 + g.below(g.below(4) == 0 ? 20 : 6);
    int nf = (shape == 2) ? 1 + g.below(g.below(4) == 0 ? 10 : 4) : 1;
    if (fRoute == 0) { n = 1; nf = 1; } else if (fRoute == 1) nf = 1;
    FnSpec s = makeSpec(g, kind, n, nf, polyDeg, ints);
    static const double accs[] = {-1, -1, 1e-10, 1e-6, 1e-3};
    double accIn = accs[g.below(5)];
    std::vector<double> y0(n); for (int i = 0; i < n; ++i) y0[i] = pickY(g, kind, ints);
    // exponential of a linear form at a large evaluation point: keep the exponent moderate (a_i <- a_i/|y_i|)
    if (kind == 2) for (int i = 0; i < n; ++i) if (std::fabs(y0[i]) > 50) for (int k = 0; k < nf; ++k) s.A[k * n + i] /= std::fabs(y0[i]);
    int dflt = fDflt >= 0 ? fDflt : g.below(3), m = fOmit ? 0 : g.below(3);
    // m == 0 is UnspecifiedMethod: the Differentiator's default method applies.  Half of those calls (and all forced ones) leave the
    // method argument out altogether (the declared default argument), the others pass UnspecifiedMethod explicitly.
    bool omit = fOmit || (m == 0 && g.coin());
    bool slow = g.coin();
    SFn sf(s, accIn); GFn gf(s, accIn); JFn jf(s, accIn);
    const Differentiator::Function& fn = shape == 0 ? (const Differentiator::Function&)sf : shape == 1 ? (const Differentiator::Function&)gf : (const Differentiator::Function&)jf;
    double acc = fn.getEstimatedAccuracy();
    Differentiator diff(fn, (Differentiator::Method)dflt);
    // unperturbed value (computed outside the log)
    std::vector<double> fy0(nf); for (int k = 0; k < nf; ++k) fy0[k] = s.eval(y0.data(), k);
    Vector Y0(n), FY0(nf); for (int i = 0; i < n; ++i) Y0[i] = y0[i]; for (int k = 0; k < nf; ++k) FY0[k] = fy0[k];
    Matrix J(nf, n);
    g_log.clear();
    // choose an API route valid for this shape
    std::string route;
    int r = fRoute >= 0 ? fRoute : g.below(3);
    auto M = (Differentiator::Method)m;
    if (omit) {
        if (n == 1 && nf == 1 && r == 0) {
            route = "derivative";
            if (slow) J(0, 0) = diff.calcDerivative(y0[0]); else { Real d; diff.calcDerivative(y0[0], fy0[0], d); J(0, 0) = d; }
        } else if (nf == 1 && r <= 1) {
            route = "gradient";
            Vector grad;
            if (slow) grad = diff.calcGradient(Y0); else diff.calcGradient(Y0, fy0[0], grad);
            for (int i = 0; i < n; ++i) J(0, i) = grad[i];
        } else {
            route = "jacobian";
            if (slow) J = diff.calcJacobian(Y0); else diff.calcJacobian(Y0, FY0, J);
        }
    } else if (n == 1 && nf == 1 && r == 0) {        // every function shape (Gradient/JacobianFunction routes were finding F-C40a, fixed 3b01da75)
        route = "derivative";
        if (slow) J(0, 0) = diff.calcDerivative(y0[0], M); else { Real d; diff.calcDerivative(y0[0], fy0[0], d, M); J(0, 0) = d; }
    } else if (nf == 1 && r <= 1) {           // incl. JacobianFunction + calcGradient with n >= 2 (finding F-C40b, fixed 3b01da75)
        route = "gradient";
        Vector grad;
        if (slow) grad = diff.calcGradient(Y0, M); else diff.calcGradient(Y0, fy0[0], grad, M);
        for (int i = 0; i < n; ++i) J(0, i) = grad[i];
    } else {
        route = "jacobian";
        if (slow) J = diff.calcJacobian(Y0, M); else diff.calcJacobian(Y0, FY0, J, M);
    }
    std::string tag = std::string(shape == 0 ? "scalar" : shape == 1 ? "gradfn" : "jacfn") + "." + route + (slow ? ".slow" : ".fast");
    // strip the initial unperturbed call of the slow versions
    size_t first = 0;
    int initialCalls = 0;
    if (slow) { first = 1; initialCalls = 1; }
    int ncalls = (int)g_log.size() - (int)first;
    int order = (n > 0 && ncalls == 2 * n) ? 2 : 1;
    std::string key = "diff." + std::string(kind == 0 ? (polyDeg == 1 ? "affine" : polyDeg == 2 ? "quadratic" : "cubic") : kind == 1 ? "sin" : "exp") +
                      (order == 1 ? ".forward" : ".central");
    emitMethod(m, dflt, order);
    {   // documented: an explicit method wins, otherwise the Differentiator's default, otherwise ForwardDifference
        int expect = m == 2 ? 2 : m == 1 ? 1 : dflt == 2 ? 2 : 1;
        vh::P("method_as_documented", std::string("diff.method.") + (m != 0 ? "explicit" : omit ? "omitted" : "unspecified") + ".default" + std::to_string(dflt) + "." + route, std::abs(order - expect), 0);
    }
    vh::D(std::string("method.") + (omit ? "omitted" : m == 0 ? "unspecified" : "explicit") + ".default" + std::to_string(dflt) + "." + route);
    if (omit && dflt == 2) ++g_defaultCentralOmitted;
    vh::P("call_count", key + ".calls", std::abs(ncalls - order * n) + std::abs(diff.getNumCallsToUserFunction() - (int)g_log.size()), 0);
    if (slow) {
        double dd = 0; for (int i = 0; i < n; ++i) dd += std::fabs(g_log[0].y[i] - y0[i]);
        vh::P("initial_call_at_y0", key + ".initial", dd, 0);
    }
    if (ncalls != order * n) return;
    double accFac = order == 1 ? std::sqrt(acc) : std::pow(acc, 1.0 / 3.0);
    for (int i = 0; i < n; ++i) {
        const Call& cp = g_log[first + order * i];
        const Call* cm = order == 2 ? &g_log[first + order * i + 1] : nullptr;
        double yp = cp.y[i], ym = cm ? cm->y[i] : y0[i];
        vh::Line in = vh::I("diffcol"); in.d(order).d(acc).d(y0[i]).d(nf).d(yp).d(ym);
        for (int k = 0; k < nf; ++k) in.d(fy0[k]);
        for (int k = 0; k < nf; ++k) in.d(cp.f[k]);
        for (int k = 0; k < nf; ++k) in.d(cm ? cm->f[k] : 0.0);
        in.emit();
        vh::O("pts").d(yp).d(ym).emit();
        vh::Line oc = vh::O("col"); for (int k = 0; k < nf; ++k) oc.d(J(k, i)); oc.emit();
        vh::D(tag + (order == 1 ? ".forward" : ".central") + (y0[i] == 0 ? ".y0" : std::fabs(y0[i]) < 0.1 ? ".small" : std::fabs(y0[i]) > 50 ? ".large" : ".generic"));
        // only coordinate i perturbed
        double other = 0;
        for (int j = 0; j < n; ++j) if (j != i) other += std::fabs(cp.y[j] - y0[j]) + (cm ? std::fabs(cm->y[j] - y0[j]) : 0);
        vh::P("single_coordinate", key + ".single", other, 0);
        // step: nonzero, representable (y0+h != y0), scaled by max(|y0|,0.1)*accFac
        double h = yp - y0[i];
        double hExpect = accFac * std::max(std::fabs(y0[i]), 0.1);
        vh::P("step_nonzero", key + ".hnonzero", (h > 0 && yp != y0[i]) ? 0 : 1, 0);
        vh::P("step_scaled", key + ".hscale", std::fabs(h / hExpect - 1), 1e-6 + 4 * EPS * std::max(std::fabs(y0[i]), 0.1) / hExpect);
        if (cm) vh::P("step_symmetric", key + ".hsym", std::fabs((y0[i] - ym) - h), 2 * EPS * std::fabs(y0[i]));   // y0-h may round; y0+h is exact by cleanUpH
        // error against the analytic derivative
        for (int k = 0; k < nf; ++k) {
            double truth = s.d1(y0.data(), k, i);
            double trunc = order == 1 ? h * s.m2(y0.data(), k, i, h) / 2 : h * h * s.m3(y0.data(), k, i, h) / 6;
            double F = s.fabsSum(y0.data(), k, h);
            double round = (order == 1 ? 2 : 1) * 8 * EPS * F / h + 8 * EPS * std::fabs(truth);
            double err = std::fabs(J(k, i) - truth);
            // (factor 1.01 on the truncation term: the bound is attained to 0.990 on cubics/central, so a refactoring that changes h
            //  by 1 % would alarm - deliberate)
            vh::P("derivative_error", key + ".err", err / (1.01 * trunc + round + 1e-300), 1.0);
            // the documented a-priori bound (theorems forward_total_error / central_total_error): order-p truncation +
            // (stated accuracy)*|f|/h, i.e. delta = acc*F in forward_error_bound / central_error_bound.  Weaker than the line
            // above whenever the stated accuracy is not below the true rounding of f (always, for the accuracies generated).
            vh::P("derivative_apriori_bound", key + ".apriori", err / (1.01 * trunc + (order == 1 ? 2 : 1) * acc * F / h + 8 * EPS * std::fabs(truth) + 1e-300), 1.0);
            ++g_colsJudged;
        }
    }
}

static void replay() {
    static char buf[1 << 20];
    while (std::fgets(buf, sizeof buf, stdin)) {
        std::istringstream is(buf); std::string k, fn; is >> k >> fn;
        if (k != "I") continue;
        std::vector<double> v; std::string t; while (is >> t) v.push_back(vh::unhex(t));
        if (fn == "diffcol" && v.size() >= 6) {
            // re-run the scalar differentiator on a function interpolating the logged values:
            // f(t) = logged value at the observed points (affine interpolation elsewhere is never needed)
            int order = (int)v[0]; double acc = v[1], y0 = v[2]; int nf = (int)v[3]; double yp = v[4], ym = v[5];
            if ((int)v.size() != 6 + 3 * nf) continue;
            struct L : public Differentiator::ScalarFunction {
                double yp, ym, fp, fm;
                L(double acc) : Differentiator::ScalarFunction(acc) {}
                mutable double seenP = NAN, seenM = NAN;
                int f(Real x, Real& fx) const override { if (x == yp) { fx = fp; seenP = x; } else if (x == ym) { fx = fm; seenM = x; } else { fx = NAN; if (std::isnan(seenP)) seenP = x; else seenM = x; } return 0; }
            };
            vh::Line in = vh::I("diffcol"); in.v(v, (int)v.size()); in.emit();
            std::vector<double> col(nf); double sp = NAN, sm = y0;
            for (int kk = 0; kk < nf; ++kk) {
                L f(acc); f.yp = yp; f.ym = ym; f.fp = v[6 + nf + kk]; f.fm = v[6 + 2 * nf + kk];
                Differentiator d(f);
                Real out; d.calcDerivative(y0, v[6 + kk], out, order == 2 ? Differentiator::CentralDifference : Differentiator::ForwardDifference);
                col[kk] = out; sp = f.seenP; if (order == 2) sm = f.seenM;
            }
            vh::O("pts").d(sp).d(sm).emit();
            vh::Line oc = vh::O("col"); for (int kk = 0; kk < nf; ++kk) oc.d(col[kk]); oc.emit();
        } else if (fn == "apiroute" && v.size() == 5) {
            apiRouteRun((int)v[0], (int)v[1], (int)v[2], (int)v[3], (uint64_t)v[4]);
        } else if (fn == "method" && v.size() == 2) {
            struct Q : public Differentiator::ScalarFunction { mutable int n = 0; int f(Real x, Real& fx) const override { ++n; fx = x; return 0; } } q;
            Differentiator d(q, (Differentiator::Method)(int)v[1]);
            Real out; d.calcDerivative(1.0, 1.0, out, (Differentiator::Method)(int)v[0]);
            vh::I("method").d(v[0]).d(v[1]).emit(); vh::O("method").d(q.n == 2 ? 2 : 1).emit();
        }
    }
}

int main(int argc, char** argv) {
    vh::Args args(argc, argv);
    if (args.mode == "replay") { replay(); return 0; }
    vh::Rng g(args.seed * 7919 + 40);
    for (long k = 0; k < args.n; ++k) { if (g.below(12) == 0) apiRouteCase(g); else diffCase(g); }
    // guaranteed classes: default method CentralDifference with the method argument omitted, for every function shape and every
    // API route valid for it (the forced route fixes the shape of the function: derivative 1x1, gradient nf = 1)
    for (int shape = 0; shape < 3; ++shape) for (int route = 0; route < 3; ++route) for (int rep = 0; rep < 2; ++rep) diffCase(g, shape, route, 2, true);
    for (int shape = 0; shape < 3; ++shape) diffCase(g, shape, 2, 1, true);      // and default Forward
    // coverage floor (X1)
    emitMethod(0, 2, 2);
    vh::P("coverage_floor", "c40.floor.columns_judged", std::max(0.0, 20 + 0.8 * (double)args.n - g_colsJudged), 0);
    vh::P("coverage_floor", "c40.floor.default_central_method_omitted", std::max(0.0, 18.0 - g_defaultCentralOmitted), 0);
    return 0;
}
