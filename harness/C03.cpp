// C03 correspondence harness: velocity kinematics is the time derivative of position kinematics; N / NInv / NDot.
//   I mob <type> <rev> <euler> <axisX> par[8] X_PF[12] X_BM[12] q[7] u[6] station[3] udot[6] vq[7] vu[6]
//     O X_FM V_FM H_FM H X_GB V_GB vS qdot qdotdot Nvu NTvq NInvvq NInvTvu NDotvu NDotTvq cor   (public API getters)
//   I tree <n> { <parent> <type> <rev> <euler> <axisX> par[8] X_PF[12] X_BM[12] q[7] u[6] } x n   station[3]
//     O X_GB.i V_GB.i cor.i (every body), vS (station on the last body)
// P lines (implementation only; h = 1e-5 central differences along qdot = N(q) u, error O(h^2)+eps/h ~ 1e-9):
//   fd_X_FM, fd_X_GB, fd_station : d/dt pose  == reported velocity      (bound 1e-6 relative)
//   fd_cor                       : d/dt V_GB at fixed u == Coriolis acceleration (ground-parent bodies: total)
//   fd_NDot, qdotdot_split       : NDot == d/dt N ;  qdotdot == N udot + NDot u
//   N_NInv, NT_adjoint, NInvT_adjoint, NDotT_adjoint
// D tag: type x frame classes x direction x option   (trees: tree.n<k>)
#include "mobilizer_common.h"
#include <map>
#include <array>
using namespace SimTK;
using namespace mob;

static const double H_FD = 1e-5, TOL_FD = 1e-6;

static double vecDiff(const Vector& a, const Vector& b) {
    double m = 0, s = 1; for (int i = 0; i < a.size(); ++i) { m = std::max(m, std::abs(a[i] - b[i])); s = std::max(s, std::max(std::abs(a[i]), std::abs(b[i]))); }
    return m / s;
}
static double dotV(const Vector& a, const Vector& b) { double s = 0; for (int i = 0; i < a.size(); ++i) s += a[i] * b[i]; return s; }
static double absDotScale(const Vector& a, const Vector& b) { double s = 0; for (int i = 0; i < a.size(); ++i) s += std::abs(a[i] * b[i]); return std::max(s, 1e-300); }

// state with q moved along qdot by +-h (u unchanged), realized to `stage`
static State shifted(const Sys& S, const State& s0, double h, Stage stage) {
    State s = s0;
    s.updQ() = s0.getQ() + h * s0.getQDot();
    S.system.realize(s, stage);
    return s;
}

// per-body keys: velKey[i] for "velocity is the derivative of the pose" / Coriolis of body i (a body is in the narrow
// class iff it or one of its ancestors is a reversed LineOrientation/FreeLine in quaternion mode)
static void fdPredicates(const Sys& S, const std::vector<std::string>& velKey, const std::vector<Case>& cs, const Vec3& station) {
    const State& s0 = S.state;
    State sp = shifted(S, s0, H_FD, Stage::Velocity), sm = shifted(S, s0, -H_FD, Stage::Velocity);
    std::map<std::string, std::array<double, 4> > worst;
    for (size_t i = 0; i < cs.size(); ++i) {
        const MobilizedBody& m = S.mobods[i];
        std::array<double, 4>& w = worst.insert(std::make_pair(velKey[i], std::array<double, 4>{{0, 0, 0, 0}})).first->second;
        w[0] = std::max(w[0], svDiff(fdVelocity(m.getMobilizerTransform(sm), m.getMobilizerTransform(sp), H_FD), m.getMobilizerVelocity(s0)));
        w[1] = std::max(w[1], svDiff(fdVelocity(m.getBodyTransform(sm), m.getBodyTransform(sp), H_FD), m.getBodyVelocity(s0)));
        const Vec3 pp = m.findStationLocationInGround(sp, station), pm = m.findStationLocationInGround(sm, station);
        const Vec3 vS = m.findStationVelocityInGround(s0, station);
        w[2] = std::max(w[2], maxAbs((pp - pm) / (2 * H_FD) - vS) / std::max(1.0, maxAbs(vS)));
        // d/dt V_GB with u held fixed is the total Coriolis acceleration Jdot*u
        const SpatialVec Vd = (m.getBodyVelocity(sp) - m.getBodyVelocity(sm)) / (2 * H_FD);
        w[3] = std::max(w[3], svDiff(Vd, S.matter.getTotalCoriolisAcceleration(s0, m.getMobilizedBodyIndex())));
    }
    for (const auto& kv : worst) {
        // one key for "reported velocity is the derivative of the reported pose" (mobilizer, body, station)
        vh::P("fd_X_FM", kv.first + ".fd_velocity", kv.second[0], TOL_FD);
        vh::P("fd_X_GB", kv.first + ".fd_velocity", kv.second[1], TOL_FD);
        vh::P("fd_station", kv.first + ".fd_velocity", kv.second[2], TOL_FD);
        vh::P("fd_cor", kv.first + ".fd_cor", kv.second[3], TOL_FD);
    }
}

static void nPredicates(const Sys& S, const std::string& key, const std::vector<std::string>& ndotKey, const Vector& vu, const Vector& vq, const Vector& udot, bool unitQuats) {
    const State& s0 = S.state; const SimbodyMatterSubsystem& M = S.matter;
    const int nq = s0.getNQ(), nu = s0.getNU();
    Vector Nvu(nq), NTvq(nu), NInvvq(nu), NInvTvu(nq), NDotvu(nq), NDotTvq(nu), back(nu);
    M.multiplyByN(s0, false, vu, Nvu); M.multiplyByN(s0, true, vq, NTvq);
    M.multiplyByNInv(s0, false, vq, NInvvq); M.multiplyByNInv(s0, true, vu, NInvTvu);
    M.multiplyByNDot(s0, false, vu, NDotvu); M.multiplyByNDot(s0, true, vq, NDotTvq);
    // N followed by NInv is the identity on velocity space (for normalised quaternions; the code documents
    // NInv*N = |q|^2 I otherwise)
    if (unitQuats) { M.multiplyByNInv(s0, false, Nvu, back); vh::P("N_NInv", key + ".N_NInv", vecDiff(back, vu), 1e-12); }
    // transposes are adjoints:  <vq, N vu> = <N^T vq, vu>
    vh::P("NT_adjoint", key + ".NT_adjoint", std::abs(dotV(vq, Nvu) - dotV(NTvq, vu)) / absDotScale(vq, Nvu), 1e-12);
    vh::P("NInvT_adjoint", key + ".NInvT_adjoint", std::abs(dotV(vu, NInvvq) - dotV(NInvTvu, vq)) / absDotScale(vu, NInvvq), 1e-12);
    vh::P("NDotT_adjoint", key + ".NDotT_adjoint", std::abs(dotV(vq, NDotvu) - dotV(NDotTvq, vu)) / std::max(1.0, absDotScale(vq, NDotvu)), 1e-12);
    // NDot is the time derivative of N along qdot = N u
    State sp = shifted(S, s0, H_FD, Stage::Position), sm = shifted(S, s0, -H_FD, Stage::Position);
    Vector Np(nq), Nm(nq); M.multiplyByN(sp, false, vu, Np); M.multiplyByN(sm, false, vu, Nm);
    Vector fd = (Np - Nm) / (2 * H_FD);
    {   // N is block diagonal: one predicate per key class, over the q-blocks of the bodies of that class
        std::map<std::string, double> worst;
        for (size_t b = 0; b < S.mobods.size(); ++b) {
            const int q0 = S.mobods[b].getFirstQIndex(s0), n = S.mobods[b].getNumQ(s0);
            double m = 0, sc = 1;
            for (int k = 0; k < n; ++k) { m = std::max(m, std::abs(fd[q0 + k] - NDotvu[q0 + k])); sc = std::max(sc, std::max(std::abs(fd[q0 + k]), std::abs(NDotvu[q0 + k]))); }
            double& w = worst.insert(std::make_pair(ndotKey[b], 0.0)).first->second; w = std::max(w, m / sc);
        }
        for (const auto& kv : worst) vh::P("fd_NDot", kv.first + ".fd_NDot", kv.second, TOL_FD);
    }
    // qdotdot = N udot + NDot u
    Vector qdd(nq), Nud(nq), NDu(nq);
    M.calcQDotDot(s0, udot, qdd); M.multiplyByN(s0, false, udot, Nud); M.multiplyByNDot(s0, false, s0.getU(), NDu);
    vh::P("qdotdot_split", key + ".qdotdot_split", vecDiff(qdd, Nud + NDu), 1e-12);
    // calcQDot agrees with multiplyByN
    Vector qd(nq); M.calcQDot(s0, vu, qd);
    vh::P("qdot_is_N", key + ".qdot_is_N", vecDiff(qd, Nvu), 1e-13);
}

// everything observable about one body on Ground at the state's CURRENT (q,u) (already realized to Velocity), as one
// record `fn` = "mob" (built-in) or "mobfb" (MobilizedBody::FunctionBased mirror; the model is the built-in type)
static void observe(std::unique_ptr<Sys>& S, const Case& c, const std::string& fn, const std::string& extraTag) {
    std::vector<Case> cs(1, c);
    const State& s = S->state; const MobilizedBody& m = S->mobods[0]; const SimbodyMatterSubsystem& M = S->matter;
    const int nq = c.nq(), nu = c.nu();
    putCase(fn, c);
    outX("X_FM", m.getMobilizerTransform(s)); outSV("V_FM", m.getMobilizerVelocity(s));
    { vh::Line l = vh::O("H_FM"); for (int j = 0; j < nu; ++j) { SpatialVec h = m.getH_FMCol(s, MobilizerUIndex(j)); l.v(h[0], 3).v(h[1], 3); } l.emit(); }
    { vh::Line l = vh::O("H"); for (int j = 0; j < nu; ++j) { SpatialVec h = m.getHCol(s, MobilizerUIndex(j)); l.v(h[0], 3).v(h[1], 3); } l.emit(); }
    outX("X_GB", m.getBodyTransform(s)); outSV("V_GB", m.getBodyVelocity(s));
    { Vec3 v = m.findStationVelocityInGround(s, c.station); vh::O("vS").v(v, 3).emit(); }
    // the State allocates the maximum number of q's per mobilizer (unused slots stay zero)
    const int NQ = s.getNQ();
    Vector vu(nu), vq(NQ, 0.0), udot(nu);
    for (int i = 0; i < nu; ++i) { vu[i] = c.vu[i]; udot[i] = c.udot[i]; }
    for (int i = 0; i < nq; ++i) vq[i] = c.vq[i];
    Vector qd(NQ), qdd(NQ), Nvu(NQ), NTvq(nu), NInvvq(nu), NInvTvu(NQ), NDotvu(NQ), NDotTvq(nu);
    M.calcQDot(s, s.getU(), qd); M.calcQDotDot(s, udot, qdd);
    M.multiplyByN(s, false, vu, Nvu); M.multiplyByN(s, true, vq, NTvq);
    M.multiplyByNInv(s, false, vq, NInvvq); M.multiplyByNInv(s, true, vu, NInvTvu);
    M.multiplyByNDot(s, false, vu, NDotvu); M.multiplyByNDot(s, true, vq, NDotTvq);
    outVec("qdot", qd, 0, nq); outVec("qdotdot", qdd, 0, nq);
    outVec("Nvu", Nvu, 0, nq); outVec("NTvq", NTvq, 0, nu); outVec("NInvvq", NInvvq, 0, nu); outVec("NInvTvu", NInvTvu, 0, nq);
    outVec("NDotvu", NDotvu, 0, nq); outVec("NDotTvq", NDotTvq, 0, nu);
    // the Coriolis acceleration shares a record with V_GB so that an exactly-zero term is compared at velocity scale
    { const SpatialVec V = m.getBodyVelocity(s), A = M.getMobilizerCoriolisAcceleration(s, m.getMobilizedBodyIndex());
      vh::O("Vcor").v(V[0], 3).v(V[1], 3).v(A[0], 3).v(A[1], 3).emit(); }
    vh::D(c.tag());
    if (!c.optTag().empty()) vh::D(c.optTag());
    if (!extraTag.empty()) vh::D(extraTag);
    // key = call site . input class.  LineOrientation / FreeLine in quaternion mode form their own classes
    // (reversedLine.quaternion: velocity vs pose;  line.quaternion: NDot), everything else is keyed by type.
    const bool line = (c.type == LINEORIENTATION || c.type == FREELINE) && !c.euler;
    const std::string key = line ? std::string(c.rev ? "C03.reversedLine.quaternion" : "C03.forwardLine.quaternion")
        : std::string("C03.") + typeName[c.type] + (c.rev ? ".rev" : ".fwd") + (c.euler ? ".euler" : ".quat");
    if (nq > 0) {
        fdPredicates(*S, std::vector<std::string>(1, key), cs, c.station);
        nPredicates(*S, key, std::vector<std::string>(1, key), vu, vq, udot, c.unitQuat || !usesQuat(c.type) || c.euler);
    }
}

static std::unique_ptr<Sys> buildOne(const Case& c, bool fb) {
    std::vector<Case> cs(1, c);
    BuildOpts o; o.gravity = true; o.g = Vec3(0.3, -9.8, 1.1);      // a force subsystem so that Acceleration can be realized
    if (fb) o.functionBased.push_back(true);
    return buildEx(cs, c.euler, o);
}
// fresh State per sample
static void runCase(const Case& c, bool fb = false) {
    std::unique_ptr<Sys> S = buildOne(c, fb);
    std::vector<Case> cs(1, c);
    setQU(*S, cs);
    S->system.realize(S->state, Stage::Velocity);
    observe(S, c, fb ? "mobfb" : "mob", fb ? std::string("fresh.functionBased.") + typeName[c.type] : "");
}

// ---- state-reuse stream: ONE State object is driven through a sequence of {change q, change u, realize to a stage}
// and observed at the end; the model is evaluated at the CURRENT (q,u), so any cached quantity that survives a change
// of q or u (stale H, HDot, X_FM, qdot, ...) shows up as a mismatch and in the finite-difference predicates.
static void writeQ(Sys& S, const Case& c, int how) {      // three public ways of changing q
    const MobilizedBody& m = S.mobods[0];
    const int nq = m.getNumQ(S.state), q0 = m.getFirstQIndex(S.state);
    if (how == 0) for (int k = 0; k < nq; ++k) m.setOneQ(S.state, k, c.q[k]);
    else if (how == 1) { Vector& q = S.state.updQ(); for (int k = 0; k < nq; ++k) q[q0 + k] = c.q[k]; }
    else { Vector q = S.state.getQ(); for (int k = 0; k < nq; ++k) q[q0 + k] = c.q[k]; S.state.setQ(q); }
}
static void writeU(Sys& S, const Case& c, int how) {
    const MobilizedBody& m = S.mobods[0];
    const int nu = m.getNumU(S.state), u0 = m.getFirstUIndex(S.state);
    if (how == 0) for (int k = 0; k < nu; ++k) m.setOneU(S.state, k, c.u[k]);
    else if (how == 1) { Vector& u = S.state.updU(); for (int k = 0; k < nu; ++k) u[u0 + k] = c.u[k]; }
    else { Vector u = S.state.getU(); for (int k = 0; k < nu; ++k) u[u0 + k] = c.u[k]; S.state.setU(u); }
}
static const char* const orderName[5] = {"P_q_P_V", "V_u_V", "V_q_V", "A_q_P_A", "random"};
static void runReuse(vh::Rng& g, const Case& c0, bool fb, int order) {
    std::unique_ptr<Sys> S = buildOne(c0, fb);
    Case c1 = c0;                                   // first configuration / speeds
    std::vector<Case> cs(1, c1);
    setQU(*S, cs);
    Case c = c0; randomState(g, c);                 // second configuration / speeds (same type, options, frames)
    c.station = c0.station;
    const int how = g.below(3);
    const System& sys = S->system;
    switch (order) {
      case 0: sys.realize(S->state, Stage::Position); writeQ(*S, c, how); writeU(*S, c, how);
              sys.realize(S->state, Stage::Position); break;
      case 1: sys.realize(S->state, Stage::Velocity); writeU(*S, c, how);
              for (int k = 0; k < 7; ++k) c.q[k] = c1.q[k]; c.unitQuat = c1.unitQuat; break;          // q unchanged
      case 2: sys.realize(S->state, Stage::Velocity); writeQ(*S, c, how);
              for (int k = 0; k < 6; ++k) c.u[k] = c1.u[k]; break;                                    // u unchanged
      case 3: sys.realize(S->state, Stage::Acceleration); writeQ(*S, c, how); writeU(*S, c, how);
              sys.realize(S->state, Stage::Position); sys.realize(S->state, Stage::Acceleration); break;
      default: {
          sys.realize(S->state, Stage::Velocity);
          Case cur = c1;
          for (int step = 0; step < 6; ++step) {
              int op = g.below(5);
              if (op == 0) { Case t = c0; randomState(g, t); for (int k = 0; k < 7; ++k) cur.q[k] = t.q[k]; cur.unitQuat = t.unitQuat; writeQ(*S, cur, g.below(3)); }
              else if (op == 1) { Case t = c0; randomState(g, t); for (int k = 0; k < 6; ++k) cur.u[k] = t.u[k]; writeU(*S, cur, g.below(3)); }
              else sys.realize(S->state, op == 2 ? Stage::Position : op == 3 ? Stage::Velocity : Stage::Acceleration);
          }
          for (int k = 0; k < 7; ++k) c.q[k] = cur.q[k];
          for (int k = 0; k < 6; ++k) c.u[k] = cur.u[k];
          c.unitQuat = cur.unitQuat;
      }
    }
    sys.realize(S->state, Stage::Velocity);
    observe(S, c, fb ? "mobfb" : "mob", std::string("reuse.") + (fb ? "functionBased." : "") + typeName[c.type] + "." + orderName[order]);
}

static void runTree(const std::vector<Case>& cs, bool euler, const Vec3& station) {
    std::unique_ptr<Sys> S = build(cs, euler);
    setQU(*S, cs);
    S->system.realize(S->state, Stage::Velocity);
    const State& s = S->state;
    vh::Line l = vh::I("tree"); l.i((long long)cs.size());
    for (const Case& c : cs) { l.i(c.parent); putBody(l, c); }
    for (int i = 0; i < 3; ++i) l.d(station[i]);
    l.emit();
    bool unit = true; int nq = 0, nu = 0;
    for (size_t i = 0; i < cs.size(); ++i) {
        const MobilizedBody& m = S->mobods[i];
        outX("X_GB." + std::to_string(i + 1), m.getBodyTransform(s));
        outSV("V_GB." + std::to_string(i + 1), m.getBodyVelocity(s));
        { const SpatialVec V = m.getBodyVelocity(s), A = S->matter.getMobilizerCoriolisAcceleration(s, m.getMobilizedBodyIndex());
          vh::O("Vcor." + std::to_string(i + 1)).v(V[0], 3).v(V[1], 3).v(A[0], 3).v(A[1], 3).emit(); }
        unit = unit && (cs[i].unitQuat || !usesQuat(cs[i].type) || euler);
        nq += cs[i].nq(); nu += cs[i].nu();
    }
    { Vec3 v = S->mobods.back().findStationVelocityInGround(s, station); vh::O("vS").v(v, 3).emit(); }
    vh::D("tree.n" + std::to_string(cs.size()) + (euler ? ".euler" : ".quat"));
    for (const Case& c : cs) vh::D("tree." + std::string(typeName[c.type]) + (c.rev ? ".rev" : ".fwd"));
    // predicate keys are per BODY: a body is in the narrow class `reversedLine.quaternion` for velocity/Coriolis iff it
    // or one of its ancestors is a reversed LineOrientation/FreeLine in quaternion mode; the NDot block of a body is
    // in a narrow class iff the body itself is such a mobilizer.  All other bodies of the tree stay under `C03.tree`.
    std::vector<std::string> velKey(cs.size()), ndotKey(cs.size());
    std::vector<bool> tainted(cs.size(), false);
    for (size_t i = 0; i < cs.size(); ++i) {
        const bool line = (cs[i].type == LINEORIENTATION || cs[i].type == FREELINE) && !euler;
        tainted[i] = (line && cs[i].rev) || (cs[i].parent > 0 && tainted[cs[i].parent - 1]);
        velKey[i] = tainted[i] ? "C03.reversedLine.quaternion" : "C03.tree";
        ndotKey[i] = line ? (cs[i].rev ? "C03.reversedLine.quaternion" : "C03.forwardLine.quaternion") : "C03.tree";
    }
    const std::string tkey = "C03.tree";
    if (nq > 0) {
        fdPredicates(*S, velKey, cs, station);
        vh::Rng g(12345 + cs.size());
        Vector vu(s.getNU()), vq(s.getNQ(), 0.0), udot(s.getNU());
        for (int i = 0; i < s.getNU(); ++i) { vu[i] = g.signedMag(0.1, 2); udot[i] = g.signedMag(0.1, 2); }
        for (size_t b = 0; b < cs.size(); ++b) {            // only the q slots in use carry values
            const int q0 = S->mobods[b].getFirstQIndex(s);
            for (int k = 0; k < S->mobods[b].getNumQ(s); ++k) vq[q0 + k] = g.signedMag(0.1, 2);
        }
        nPredicates(*S, tkey, ndotKey, vu, vq, udot, unit);
    }
}

static void replay() {
    static char buf[1 << 18];
    while (std::fgets(buf, sizeof buf, stdin)) {
        std::istringstream is(buf); std::string k, fn; is >> k >> fn;
        if (k != "I") continue;
        if (fn == "mob") { Case c; if (getCase(is, c)) runCase(c); }
        else if (fn == "mobfb") { Case c; if (getCase(is, c)) runCase(c, true); }
        else if (fn == "tree") {
            int n; is >> n; std::vector<Case> cs; bool ok = true, euler = false;
            for (int i = 0; i < n && ok; ++i) { Case c; std::vector<double> v; size_t kk; is >> c.parent; ok = getBody(is, c, v, kk); euler = c.euler; cs.push_back(c); }
            Vec3 st(0); std::string t; for (int i = 0; i < 3 && ok; ++i) { if (is >> t) st[i] = vh::unhex(t); else ok = false; }
            if (ok) runTree(cs, euler, st);
        }
    }
}

int main(int argc, char** argv) {
    vh::Args args(argc, argv);
    if (args.mode == "replay") { replay(); return 0; }
    vh::Rng g(args.seed * 7919 + 3);
    long made = 0;
    const long nTrees = std::max<long>(1, args.n / 10);
    // ---- state-reuse stream (about a fifth of the budget, never less than one full sweep): every type x the four
    // named orders + a random order, alternating direction / option; FunctionBased mirrors (q-dependent cached H)
    {
        const int fbTypes[8] = {PIN, SLIDER, CYLINDER, PLANAR, UNIVERSAL, GIMBAL, BUSHING, TRANSLATION};
        const long reps = std::max<long>(1, args.n / (5 * ((NTYPES - 1) * 5 + 8 * 5)));
        for (long rep = 0; rep < reps; ++rep) {
            for (int t = 0; t < NTYPES; ++t) { if (t == WELD) continue;
                for (int order = 0; order < 5; ++order) {
                    bool rev = (rep + t + order) & 1, euler = ((rep + t / 2 + order / 2) & 1);
                    runReuse(g, randomCase(g, t, g.below(3), g.below(3), rev, euler), false, order); ++made; } }
            for (int k = 0; k < 8; ++k)
                for (int order = 0; order < 5; ++order) {
                    runReuse(g, randomCase(g, fbTypes[k], g.below(3), g.below(3), (rep + k + order) & 1, false), true, order); ++made; }
        }
        // fresh-state FunctionBased mirrors as well
        for (int k = 0; k < 8; ++k) { runCase(randomCase(g, fbTypes[k], g.below(3), g.below(3), k & 1, false), true); ++made; }
    }
    for (int round = 0; made < args.n - nTrees; ++round)
        for (int t = 0; t < NTYPES && made < args.n - nTrees; ++t)
            for (int fp = 0; fp < 9 && made < args.n - nTrees; ++fp) {
                if (round == 0 || g.below(3) == 0) {
                    bool rev = (round + fp + t) & 1, euler = ((round + fp / 3 + t / 2) & 1);
                    if (round > 0) { rev = g.coin(); euler = g.coin(); }
                    runCase(randomCase(g, t, fp / 3, fp % 3, rev, euler)); ++made;
                    if (round == 0 && made < args.n - nTrees) { runCase(randomCase(g, t, fp / 3, fp % 3, !rev, !euler)); ++made; }
                }
            }
    // small random trees: chains, stars and random branching; every body a random type / frames / direction
    for (long k = 0; k < nTrees; ++k) {
        int n = 2 + g.below(args.n > 2000 ? 11 : 5);
        bool euler = g.coin(); int shape = g.below(3);
        std::vector<Case> cs;
        for (int i = 0; i < n; ++i) {
            Case c = randomCase(g, g.below(NTYPES), g.below(3), g.below(3), g.coin(), euler);
            c.parent = (i == 0) ? 0 : (shape == 0 ? i : (shape == 1 ? (i == 1 ? 1 : 1) : 1 + g.below(i)));
            if (shape == 1 && i > 0) c.parent = 1;
            cs.push_back(c);
        }
        runTree(cs, euler, Vec3(g.signedMag(0.1, 2), g.signedMag(0.1, 2), g.signedMag(0.1, 2)));
    }
    return 0;
}
