// C10 correspondence harness (uses harness/ceq_tree.h, CEQ_TREE_VERSION 6).
// "Prescribed motion and locks are honoured exactly."
//
// Every I record starts with `<seed> <case#>` so a single record replays its whole case (`--mode replay`).
//
// Per case k (all random choices from vh::Rng streams derived from (seed,k)):
//   system A : random tree (ceq::buildTree, full v6 palette incl. reversed mobilizers, BendStretch, SphericalCoords,
//              LineOrientation, FreeLine, FunctionBased; Euler/quaternion), in 1/3 of the cases plus a guaranteed
//              RBNodeLoneParticle body (forward Translation on Ground, identity frames, no children); gravity + mobility
//              dampers + a Force::Custom that applies an externally supplied mobility-force vector, 0-2 random
//              constraints (ceq::addConstraint), a random subset of mobilizers carrying Motion::Steady /
//              Motion::Sinusoid(level) / a Motion::Custom (polynomial in t, or a unit-quaternion spin for position-level
//              motion of quaternion mobilizers; Prescribed, Zero, Discrete, Fast) / lockByDefault; then on the State:
//              lock(level), lockAt(values, level) (contiguous or STRIDED Vector, or the scalar signature), unlock,
//              Motion::disable/enable, Steady::setOneRate.
//   system B : the same tree/forces/constraints built again from the same streams WITHOUT any Motion or lock.
// Records:
//   I chk      implementation-only predicates (P lines, see below); evaluated at time t and again at a second instant t2
//   I presc    instance partition + pools (callback -> pool choice, u = N^-1 qdot done by the MODEL from the exported N^-1
//              block) + prescribeQ/prescribeU scatter + known udot                 (model: C10.partition / C10.prescribe)
//   I aba      the two ABA passes with prescribed nodes on exported tree data (getHCol, getBodySpatialInertiaInGround,
//              origins, Coriolis/gyroscopic terms, total applied forces) vs getUDot AND getMotionMultipliers
//                                                                          (model: TreeDyn.forwardDynamics, presc branch)
//   I elim     dense block elimination on calcM / calcResidualForce           (model: C10.elim, unpackTau, motionPower)
//   I sin      Motion::Sinusoid at the three levels on Pin mobilizers          (model: C10.Sinusoid.*)
//   I steady   Motion::Steady (+ setOneRate)                                   (model: C10.Steady.*)
//   I lockseq  lock / lockAt / unlock / setQ / setU sequences on one mobilizer (model: C10.Mob.*)
// Predicates (key = <callsite>.<inputclass>.<pred>; inputclass noCons|cons, lockAt input class contig|strided|scalar):
//   prescribe.*.q_exact / u_exact      prescribed q,u slots hold exactly the Motion's / lock's value after System::prescribe
//   prescribe.*.others_untouched       every other q,u is bitwise unchanged by prescribe
//   realize.*.udot_exact               known udot slots hold exactly the prescribed value after realize(Acceleration)
//   realize.*.qdot_matches / qdotdot_matches   position-level Motions: qdot, qdotdot equal the Motion's derivatives
//   motionErrors.*.zero                calcMotionErrors(Position|Velocity|Acceleration) == 0
//   multipliers.*.eom_residual         M udot + tau + ~G lambda + f_inertial - f_applied == 0 (inverse dynamics of the
//                                      result with the reported tau; evaluated for EVERY case, also degenerate ones)
//   multipliers.*.as_applied_force     disable all motions, unlock all, apply -tau as ordinary mobility forces: same udot
//   unlock.*.restores_free             disabled/unlocked system A has the udot of system B that never had a prescription
//   lockAt.<vecclass>.value_honoured   lockAt(state, value, level): getLockValueAsVector == value (exact)
//   lock.<kind>.value_recorded         lock(state, level) / lockByDefault: getLockValueAsVector == current q / u / 0 resp.
//                                      default q / 0 (exact)
#include "ceq_tree.h"
#include <map>
#include <memory>
static_assert(CEQ_TREE_VERSION == 6, "bump the version comment here when ceq_tree.h changes");
using namespace SimTK;
using namespace ceq;
using vh::hex;

// ---------------------------------------------------------------------------------------------- numeric helpers
static bool bitEq(double a, double b) { return std::memcmp(&a, &b, 8) == 0 || (a == b); }   // +0 == -0 accepted
// NaN-propagating max
static void upd(double& m, double v) { if (std::isnan(v) || std::isnan(m)) m = NAN; else if (v > m) m = v; }
static double absErr(double got, double want) {
    if (std::isnan(got) || std::isnan(want)) return (std::isnan(got) && std::isnan(want)) ? 0.0 : NAN;
    return std::abs(got - want);
}
static double relVecErr(const Vector& a, const Vector& b) {
    if (a.size() != b.size()) return NAN;
    double sc = 1, e = 0;
    for (int i = 0; i < a.size(); ++i) { upd(sc, std::abs(a[i])); upd(sc, std::abs(b[i])); upd(e, std::abs(a[i] - b[i])); }
    if (std::isnan(sc) || std::isnan(e)) return NAN;
    return e / sc;
}
static double exactVecErr(const Vector& got, const Vector& want) {
    if (got.size() != want.size()) return NAN;
    double e = 0;
    for (int j = 0; j < got.size() && !std::isnan(e); ++j) upd(e, bitEq(got[j], want[j]) ? 0.0 : std::max(absErr(got[j], want[j]), 1e-300));
    return e;
}

// ---------------------------------------------------------------------------------------------- custom motion / force
// q_i(t) (or u_i(t), udot_i(t)) = c0_i + c1_i t + c2_i t^2/2 with exact derivatives.
// quat == true (position level on a quaternion mobilizer): the first four coordinates are the unit quaternion
// (cos h, axis sin h), h = (qw t + qp)/2, whose derivative is tangent to the unit sphere; the rest polynomial.
class PolyMotion : public Motion::Custom::Implementation {
public:
    Motion::Level level; Motion::Method method; double c0[8], c1[8], c2[8];
    bool quat = false; double ax[3] = {0, 0, 1}, qw = 0, qp = 0;
    PolyMotion(vh::Rng& g, Motion::Level l, Motion::Method m) : level(l), method(m) {
        // |value| <= 0.3 + 0.2*2 + 0.2*2 = 1.1 for t in [0,2]: position-level Euler angles stay away from the singularity
        for (int i = 0; i < 8; ++i) { c0[i] = g.range(-0.3, 0.3); c1[i] = g.range(-0.2, 0.2); c2[i] = g.range(-0.2, 0.2); }
        UnitVec3 a = runit(g); for (int i = 0; i < 3; ++i) ax[i] = a[i];
        qw = g.signedMag(0.3, 2.0); qp = g.range(-2.0, 2.0);
    }
    double f(int i, double t) const {
        if (quat && i < 4) { const double h = (qw * t + qp) / 2; return i == 0 ? std::cos(h) : ax[i - 1] * std::sin(h); }
        return c0[i] + c1[i] * t + c2[i] * t * t / 2;
    }
    double df(int i, double t) const {
        if (quat && i < 4) { const double h = (qw * t + qp) / 2; return i == 0 ? -std::sin(h) * (qw / 2) : ax[i - 1] * std::cos(h) * (qw / 2); }
        return c1[i] + c2[i] * t;
    }
    double ddf(int i, double t) const {
        if (quat && i < 4) { const double h = (qw * t + qp) / 2; return i == 0 ? -std::cos(h) * (qw / 2) * (qw / 2) : -ax[i - 1] * std::sin(h) * (qw / 2) * (qw / 2); }
        return c2[i];
    }
    Implementation* clone() const override { return new PolyMotion(*this); }
    Motion::Level getLevel(const State&) const override { return level; }
    Motion::Method getLevelMethod(const State&) const override { return method; }
    void calcPrescribedPosition(const State& s, int nq, Real* q) const override { for (int i = 0; i < nq; ++i) q[i] = f(i, s.getTime()); }
    void calcPrescribedPositionDot(const State& s, int nq, Real* qd) const override { for (int i = 0; i < nq; ++i) qd[i] = df(i, s.getTime()); }
    void calcPrescribedPositionDotDot(const State& s, int nq, Real* qdd) const override { for (int i = 0; i < nq; ++i) qdd[i] = ddf(i, s.getTime()); }
    void calcPrescribedVelocity(const State& s, int nu, Real* u) const override { for (int i = 0; i < nu; ++i) u[i] = f(i, s.getTime()); }
    void calcPrescribedVelocityDot(const State& s, int nu, Real* ud) const override { for (int i = 0; i < nu; ++i) ud[i] = df(i, s.getTime()); }
    void calcPrescribedAcceleration(const State& s, int nu, Real* ud) const override { for (int i = 0; i < nu; ++i) ud[i] = f(i, s.getTime()); }
};

// applies *extra (if sized nu) as ordinary applied mobility forces
class ExtraMobilityForce : public Force::Custom::Implementation {
public:
    std::shared_ptr<Vector> extra;
    explicit ExtraMobilityForce(std::shared_ptr<Vector> e) : extra(e) {}
    void calcForce(const State& s, Vector_<SpatialVec>&, Vector_<Vec3>&, Vector& mobilityForces) const override {
        if (extra->size() == mobilityForces.size()) mobilityForces += *extra;
    }
    Real calcPotentialEnergy(const State&) const override { return 0; }
};

// ---------------------------------------------------------------------------------------------- plan of one mobilizer
enum MotionKind { kNone, kSteady, kSinusoid, kCustom };
struct Plan {
    int motion = kNone;
    Motion::Level level = Motion::NoLevel; Motion::Method method = Motion::Prescribed;
    double a = 0, w = 0, p = 0;          // sinusoid
    int nRates = 0; double rates[6] = {0, 0, 0, 0, 0, 0}; bool scalarRate = false;   // steady
    std::shared_ptr<PolyMotion> poly;    // copy of the custom implementation (the library owns its own clone)
    bool disabledByDefault = false;
    Motion::Level lockDefault = Motion::NoLevel;
    // state-level operations
    int stateLock = 0;                   // 0 none, 1 lock(level), 2 lockAt(values, level), 3 unlock
    Motion::Level stateLockLevel = Motion::Position;
    int lockAtVec = 0;                   // 0 contiguous Vector, 1 strided Vector view
    bool zeroLockValues = false;         // lockAt with all-zero values (exercises the Motion::Zero branch)
    int toggle = 0;                      // 0 none, 1 disable, 2 enable
    int setOne = -1; double setOneVal = 0;
    Motion handle;                       // set when built with prescription
};

static bool quatCapable(int t) { return t == mBall || t == mFree || t == mEllipsoid; }
static bool lineType(int t) { return t == mLineOrientation || t == mFreeLine; }            // nq != nu even with Euler angles
static bool singularAtZero(int t) { return t == mBendStretch || t == mSphericalCoords; }    // q = 0 is a singular configuration
static const char* levelName(Motion::Level l) { return l == Motion::Position ? "pos" : l == Motion::Velocity ? "vel" : l == Motion::Acceleration ? "acc" : "none"; }
static const char* methodName(Motion::Method m) { return m == Motion::Prescribed ? "prescribed" : m == Motion::Zero ? "zero" : m == Motion::Discrete ? "discrete" : m == Motion::Fast ? "fast" : "other"; }
static Motion::Level randLevel(vh::Rng& g) { int r = g.below(3); return r == 0 ? Motion::Acceleration : r == 1 ? Motion::Velocity : Motion::Position; }

struct Sys {
    Model M;
    std::shared_ptr<Vector> extra{new Vector()};
    std::vector<ConsInfo> cons;
    std::vector<Plan> plan;   // index = body index (0 = Ground unused)
    bool euler = false;
    int loneParticle = -1;    // body index of the guaranteed RBNodeLoneParticle body, if any
    Vector defaultQ;          // q right after realizeModel (what lockByDefault(Position) records)
};

// Build tree/forces/constraints from streams derived from `base`; attach Motions / default locks iff withPrescription.
static void buildSys(Sys& S, uint64_t base, bool withPrescription, int& nConsWanted) {
    vh::Rng gt(base + 11), gf(base + 23), gc(base + 37), gp(base + 41), go(base + 53);
    Model& M = S.M;
    const int nBodies = gt.below(10) == 0 ? 7 + gt.below(6) : 1 + gt.below(6);    // 1-6 bodies, one case in ten 7-12
    buildTree(M, gt, nBodies, fullPalette());
    // guaranteed share of RBNodeLoneParticle: forward Translation on Ground, identity frames, never a parent
    if (go.below(3) == 0) {
        MobilizedBody::Translation lp(M.matter.Ground(), Transform(), rbody(gt), Transform());
        M.bodies.push_back(lp); M.parent.push_back(0); M.mtype.push_back(mTranslation); M.reversed.push_back(false);
        S.loneParticle = M.nb() - 1;
    }
    // LineOrientation / FreeLine in quaternion mode have known kinematic defects of their own (C03/C04 findings): Euler there
    S.euler = go.below(3) == 0 || hasLineMobilizer(M);
    // forces
    Force::UniformGravity(M.forces, M.matter, Vec3(gf.range(-3, 3), -9.8, gf.range(-3, 3)));
    for (int i = 1; i < M.nb(); ++i) {
        int nu = nuOfType(M.mtype[i]);
        for (int k = 0; k < nu; ++k) if (gf.below(3) == 0) Force::MobilityLinearDamper(M.forces, M.bodies[i], MobilizerUIndex(k), gf.range(0.1, 2.0));
    }
    Force::Custom(M.forces, new ExtraMobilityForce(S.extra));
    // constraints
    nConsWanted = go.below(5) < 2 ? 0 : 1 + go.below(2);
    for (int c = 0; c < nConsWanted; ++c) {
        ConsInfo ci;
        int type = gc.below(cNumCons);
        if (type == cLineOnLineContact || type == cSphereOnSphereContact || type == cSphereOnPlaneContact) type = cRod;  // keep the acceleration-level problem well posed at arbitrary states
        if (addConstraint(M, gc, type, gc.below(4), ci)) S.cons.push_back(ci);
    }
    // plans
    S.plan.assign(M.nb(), Plan());
    for (int i = 1; i < M.nb(); ++i) {
        Plan& P = S.plan[i];
        const int t = M.mtype[i];
        const int nu = nuOfType(t);
        const bool quatMob = !S.euler && quatCapable(t);           // nq = nu + 1 (unit quaternion)
        // position-level Motions: where nq == nu and q = O(1) is regular, or (Custom only) the unit-quaternion spin class
        const bool posOk = !lineType(t) && !singularAtZero(t);
        int r = gp.below(16);
        if (i == S.loneParticle) r = gp.below(8);           // the lone particle is prescribed more often than not
        if (t == mWeld) r = gp.below(2) ? 15 : r;           // a Motion on a Weld is legal (no slots); mostly none
        if (r < 2) {                                        // Steady
            P.motion = kSteady; P.level = Motion::Velocity;
            P.scalarRate = gp.below(4) == 0;
            P.nRates = P.scalarRate ? 6 : std::max(1, std::min(6, nu == 0 ? 1 : (gp.below(3) == 0 ? 1 + gp.below(nu) : nu)));
            double s0 = gp.range(-1.5, 1.5);
            for (int k = 0; k < 6; ++k) P.rates[k] = P.scalarRate ? s0 : (k < P.nRates ? gp.range(-1.5, 1.5) : 0.0);
            if (gp.below(4) == 0 && nu > 0) { P.setOne = gp.below(nu); P.setOneVal = gp.range(-2, 2); }
        } else if (r < 5) {                                 // Sinusoid
            P.motion = kSinusoid; P.level = randLevel(gp);
            if (P.level == Motion::Position && (!posOk || quatMob)) P.level = Motion::Velocity;   // (all q equal is no quaternion)
            P.a = gp.range(0.1, 1.0); P.w = gp.signedMag(0.3, 3.0); P.p = gp.range(-3.0, 3.0);
        } else if (r < 8) {                                 // Custom
            P.motion = kCustom; P.level = randLevel(gp);
            if (quatMob && gp.below(2) == 0) P.level = Motion::Position;      // guaranteed share of the nq != nu position-level paths
            if (P.level == Motion::Position && !posOk) P.level = Motion::Acceleration;
            int mm = gp.below(8);
            P.method = mm < 4 ? Motion::Prescribed : mm == 4 ? Motion::Zero : mm == 5 ? Motion::Discrete : mm == 6 ? Motion::Fast : Motion::Prescribed;
            // Acceleration level: Discrete has no source of udot in the code, Fast is documented as not allowed
            if (P.level == Motion::Acceleration && (P.method == Motion::Discrete || P.method == Motion::Fast)) P.method = Motion::Zero;
            if (P.level == Motion::Position && quatMob && P.method == Motion::Zero) P.method = Motion::Prescribed;   // q = 0 is no quaternion
            P.poly.reset(new PolyMotion(gp, P.level, P.method));
            P.poly->quat = (P.level == Motion::Position && quatMob);
        }
        if (P.motion != kNone && gp.below(6) == 0) P.disabledByDefault = true;
        int ld = gp.below(10);
        if (ld < 1) P.lockDefault = randLevel(gp);
        // state-level ops
        int so = gp.below(16);
        if (so < 2) { P.stateLock = 1; P.stateLockLevel = randLevel(gp); }
        else if (so < 4) {
            P.stateLock = 2; P.stateLockLevel = randLevel(gp);
            P.lockAtVec = gp.below(3) == 0 ? 1 : 0;
            P.zeroLockValues = gp.below(5) == 0;
            if (P.stateLockLevel == Motion::Position && (quatMob || lineType(t) || singularAtZero(t))) P.zeroLockValues = false;
        } else if (so < 5) P.stateLock = 3;
        if (P.motion != kNone) { int tg = gp.below(6); P.toggle = tg == 0 ? 1 : tg == 1 ? 2 : 0; }
        if (!withPrescription) continue;
        MobilizedBody& mb = M.bodies[i];
        if (P.motion == kSteady) {
            if (P.scalarRate) P.handle = Motion::Steady(mb, P.rates[0]);
            else switch (P.nRates) {
                case 1: P.handle = Motion::Steady(mb, Vec<1>(P.rates[0])); break;
                case 2: P.handle = Motion::Steady(mb, Vec<2>(P.rates[0], P.rates[1])); break;
                case 3: P.handle = Motion::Steady(mb, Vec<3>(P.rates[0], P.rates[1], P.rates[2])); break;
                case 4: P.handle = Motion::Steady(mb, Vec<4>(P.rates[0], P.rates[1], P.rates[2], P.rates[3])); break;
                case 5: P.handle = Motion::Steady(mb, Vec<5>(P.rates[0], P.rates[1], P.rates[2], P.rates[3], P.rates[4])); break;
                default: P.handle = Motion::Steady(mb, Vec<6>(P.rates[0], P.rates[1], P.rates[2], P.rates[3], P.rates[4], P.rates[5])); break;
            }
        } else if (P.motion == kSinusoid) P.handle = Motion::Sinusoid(mb, P.level, P.a, P.w, P.p);
        else if (P.motion == kCustom) P.handle = Motion::Custom(mb, new PolyMotion(*P.poly));
        if (P.motion != kNone && P.disabledByDefault) P.handle.setDisabledByDefault(true);
        if (P.lockDefault != Motion::NoLevel) mb.lockByDefault(P.lockDefault);
    }
    M.state = M.system.realizeTopology();
    if (S.euler) M.matter.setUseEulerAngles(M.state, true);
    M.system.realizeModel(M.state);
    S.defaultQ = M.state.getQ();
}

// ---------------------------------------------------------------------------------------------- expectations
struct Expect {           // per body, in terms of the public API's documented behaviour
    int lockLevel = -1;   // effective lock level
    Vector lockVals;      // what the harness knows it locked (NOT read back from the implementation)
    bool motionActive = false;
    Motion::Level level = Motion::NoLevel; Motion::Method method = Motion::NoMethod;
    // which of q / u / udot are governed, and the governed values
    bool qGov = false, uGov = false, udGov = false;
    bool qdotGov = false;                // position-level Prescribed motion: qdot, qdotdot known instead of u, udot
    Vector qV, uV, udV, qdV, qddV;
    bool arithmetic = false;             // value produced by Motion arithmetic (bound 1e-15) vs copied (bound 0)
};

static void motionValues(const Plan& P, double t, int nq, int nu, Vector& pos, Vector& d1, Vector& d2) {
    // pos/d1/d2: value and derivatives at the Motion's own level (length nq for Position, nu otherwise)
    const int n = P.level == Motion::Position ? nq : nu;
    pos.resize(n); d1.resize(n); d2.resize(n);
    for (int i = 0; i < n; ++i) {
        if (P.motion == kSinusoid) {
            pos[i] = P.a * std::sin(P.w * t + P.p);
            d1[i] = P.a * P.w * std::cos(P.w * t + P.p);
            d2[i] = -P.a * P.w * P.w * std::sin(P.w * t + P.p);
        } else if (P.motion == kCustom) {
            pos[i] = P.poly->f(i, t); d1[i] = P.poly->df(i, t); d2[i] = P.poly->ddf(i, t);
        } else { // steady
            pos[i] = P.rates[i]; d1[i] = 0; d2[i] = 0;
        }
    }
}

// ---------------------------------------------------------------------------------------------- one full case
static void putVec(vh::Line& L, const Vector& v) { for (int i = 0; i < v.size(); ++i) L.d(v[i]); }
static void putV3(vh::Line& L, const Vec3& v) { for (int i = 0; i < 3; ++i) L.d(v[i]); }
static std::string idTok(uint64_t seed, long k) { return std::to_string(seed) + " " + std::to_string(k); }

static void treeCase(uint64_t seed, long k) {
    const uint64_t base = seed * 1000003ull + (uint64_t)k * 7919ull + 17;
    Sys A, B;
    int nConsWanted = 0, dummy = 0;
    buildSys(A, base, true, nConsWanted);
    buildSys(B, base, false, dummy);
    Model& M = A.M;
    State& s = M.state;
    const SimbodyMatterSubsystem& matter = M.matter;
    const std::string cls = A.cons.empty() ? "noCons" : "cons";
    vh::Rng gs(base + 67);
    randomState(M, gs);
    const double t = gs.range(0.0, 2.0);
    s.updTime() = t;
    const int nq = s.getNQ(), nu = s.getNU(), nb = M.nb();

    vh::I("chk").s(idTok(seed, k)).emit();
    vh::O("chk").i(1).emit();
    vh::D("chk." + cls + (A.euler ? ".euler" : ".quat"));
    tagBodies(M);
    vh::D(std::string("nb.") + (nb - 1 <= 3 ? "1-3" : nb - 1 <= 7 ? "4-7" : "8-13"));
    if (A.loneParticle >= 0) vh::D("node.LoneParticle");

    // ---- state-level operations; the harness keeps its own record of what every lock must hold
    std::vector<int> wantLevel(nb, -1); std::vector<Vector> wantVals(nb);
    for (int i = 1; i < nb; ++i) {
        Plan& P = A.plan[i];
        const MobilizedBody& mb = M.bodies[i];
        const int mnq = mb.getNumQ(s), mnu = mb.getNumU(s);
        const int q0 = mnq ? (int)mb.getFirstQIndex(s) : 0;
        if (P.motion != kNone) vh::D(std::string("plan.") + (P.motion == kSteady ? "steady" : P.motion == kSinusoid ? "sinusoid" : "custom") + "." +
                                     levelName(P.level) + (P.motion == kCustom ? std::string(".") + methodName(P.method) + (P.poly->quat ? ".quatSpin" : "") : ""));
        if (P.lockDefault != Motion::NoLevel) {
            vh::D(std::string("plan.lockByDefault.") + levelName(P.lockDefault));
            wantLevel[i] = (int)P.lockDefault;
            if (P.lockDefault == Motion::Position) { wantVals[i].resize(mnq); for (int j = 0; j < mnq; ++j) wantVals[i][j] = A.defaultQ[q0 + j]; }
            else wantVals[i] = Vector(mnu, 0.0);
            Vector got = mb.getLockValueAsVector(s);
            vh::P("lock_value_recorded", "lock.byDefault.value_recorded", (int)mb.getLockLevel(s) == wantLevel[i] ? exactVecErr(got, wantVals[i]) : NAN, 0);
        }
        if (P.toggle == 1 && P.motion != kNone) { P.handle.disable(s); vh::D("plan.disable"); }
        if (P.toggle == 2 && P.motion != kNone) { P.handle.enable(s); vh::D("plan.enable"); }
        if (P.setOne >= 0 && P.motion == kSteady && P.setOne < 6) {
            Motion::Steady::downcast(P.handle).setOneRate(s, MobilizerUIndex(P.setOne), P.setOneVal);
            P.rates[P.setOne] = P.setOneVal; vh::D("plan.steady.setOneRate");
        }
        if (P.stateLock == 1) {
            wantLevel[i] = (int)P.stateLockLevel;
            wantVals[i] = P.stateLockLevel == Motion::Position ? mb.getQAsVector(s) : P.stateLockLevel == Motion::Velocity ? mb.getUAsVector(s) : Vector(mnu, 0.0);
            mb.lock(s, P.stateLockLevel); vh::D(std::string("plan.lock.") + levelName(P.stateLockLevel));
            Vector got = mb.getLockValueAsVector(s);
            vh::P("lock_value_recorded", "lock.current.value_recorded", (int)mb.getLockLevel(s) == wantLevel[i] ? exactVecErr(got, wantVals[i]) : NAN, 0);
        } else if (P.stateLock == 2 && mnq > 0) {
            const int n = P.stateLockLevel == Motion::Position ? mnq : mnu;
            Vector v(n);
            if (P.stateLockLevel == Motion::Position) {
                v = mb.getQAsVector(s);
                for (int j = 0; j < n; ++j) v[j] += gs.range(-0.3, 0.3);
                if (matter.isUsingQuaternion(s, mb.getMobilizedBodyIndex())) {   // keep the first four q's a unit quaternion
                    double nn = 0; for (int j = 0; j < 4; ++j) nn += v[j] * v[j];
                    nn = std::sqrt(nn); for (int j = 0; j < 4; ++j) v[j] /= nn;
                }
                if (singularAtZero(M.mtype[i])) { v[1] = 0.4 + std::abs(v[1]); if (M.mtype[i] == mSphericalCoords) v[2] = 0.4 + std::abs(v[2]); }
            } else for (int j = 0; j < n; ++j) v[j] = gs.range(-1.0, 1.0);
            if (P.zeroLockValues) v = 0.0;
            std::string vc = "contig";
            if (n == 1 && gs.below(2) == 0) { mb.lockAt(s, v[0], P.stateLockLevel); vc = "scalar"; }
            else if (P.lockAtVec == 1 && n >= 2) {
                // a strided (non-contiguous) Vector view: row r of a column-major (3 x n) Matrix, transposed
                Matrix W(3, n); for (int a2 = 0; a2 < 3; ++a2) for (int j = 0; j < n; ++j) W(a2, j) = 100.0 + 10 * a2 + j;
                for (int j = 0; j < n; ++j) W(1, j) = v[j];
                mb.lockAt(s, ~W[1], P.stateLockLevel); vc = "strided";
            } else mb.lockAt(s, v, P.stateLockLevel);
            vh::D(std::string("plan.lockAt.") + levelName(P.stateLockLevel) + "." + vc + (P.zeroLockValues ? ".zero" : ""));
            // observation outside the property (MobilizedBody.h says lockAt at velocity level sets u in the state; the code
            // only records the value, u is set by the next prescribe): counted, not a predicate
            if (P.stateLockLevel == Motion::Velocity) {
                Vector un = mb.getUAsVector(s); bool same = true; for (int j = 0; j < n; ++j) same = same && bitEq(un[j], v[j]);
                if (!same) vh::D("obs.lockAt_velocity_leaves_u_until_prescribe");
            }
            // the explicit value must be what the lock holds
            Vector got = mb.getLockValueAsVector(s);
            const double e = exactVecErr(got, v);
            vh::P("lockAt_value_honoured", "lockAt." + vc + ".value_honoured", e, 0);
            // keep the rest of the case well scaled whatever happened above: re-issue with a contiguous Vector
            if (!(e <= 0)) mb.lockAt(s, v, P.stateLockLevel);
            wantLevel[i] = (int)P.stateLockLevel; wantVals[i] = v;
        } else if (P.stateLock == 3) { mb.unlock(s); vh::D("plan.unlock"); wantLevel[i] = -1; wantVals[i] = Vector(); }
    }

    // ---- expectations from the public API's documented behaviour, at time tt
    std::vector<Expect> E(nb);
    auto expectAt = [&](double tt) {
        for (int i = 1; i < nb; ++i) {
            const Plan& P = A.plan[i]; const MobilizedBody& mb = M.bodies[i]; Expect X;
            const int mnq = mb.getNumQ(s), mnu = mb.getNumU(s);
            X.lockLevel = wantLevel[i];
            X.lockVals = wantVals[i];
            if (mnq != 0) {
                if (X.lockLevel == Motion::Position) { X.qGov = X.uGov = X.udGov = true; X.qV = X.lockVals; X.uV = Vector(mnu, 0.0); X.udV = Vector(mnu, 0.0); }
                else if (X.lockLevel == Motion::Velocity) { X.uGov = X.udGov = true; X.uV = X.lockVals; X.udV = Vector(mnu, 0.0); }
                else if (X.lockLevel == Motion::Acceleration) { X.udGov = true; X.udV = X.lockVals; }
                else if (P.motion != kNone && !P.handle.isDisabled(s)) {
                    X.motionActive = true; X.level = P.level; X.method = P.method;
                    Vector v0, v1, v2; motionValues(P, tt, mnq, mnu, v0, v1, v2);
                    X.arithmetic = (P.motion != kSteady);
                    if (P.method == Motion::Prescribed) {
                        if (P.level == Motion::Position) { X.qGov = true; X.qV = v0; X.qdotGov = true; X.qdV = v1; X.qddV = v2; }
                        else if (P.level == Motion::Velocity) { X.uGov = X.udGov = true; X.uV = v0; X.udV = v1; }
                        else { X.udGov = true; X.udV = v0; }
                    } else if (P.method == Motion::Zero) {
                        X.arithmetic = false;
                        if (P.level == Motion::Position) { X.qGov = X.uGov = X.udGov = true; X.qV = Vector(mnq, 0.0); X.uV = Vector(mnu, 0.0); X.udV = Vector(mnu, 0.0); }
                        else if (P.level == Motion::Velocity) { X.uGov = X.udGov = true; X.uV = Vector(mnu, 0.0); X.udV = Vector(mnu, 0.0); }
                        else { X.udGov = true; X.udV = Vector(mnu, 0.0); }
                    } else if (P.method == Motion::Discrete || P.method == Motion::Fast) {   // the level itself is left alone, lower levels are zero
                        X.arithmetic = false;
                        if (P.level == Motion::Position) { X.uGov = X.udGov = true; X.uV = Vector(mnu, 0.0); X.udV = Vector(mnu, 0.0); }
                        else if (P.level == Motion::Velocity) { X.udGov = true; X.udV = Vector(mnu, 0.0); }
                    }
                }
            }
            E[i] = X;
        }
    };

    // ---- prescribe + realize + the exactness predicates (run at t, and again at a later instant)
    Vector qBefore, uBefore, qAfter, uAfter, udot;
    auto exactnessPass = [&](double tt) {
        expectAt(tt);
        qBefore = s.getQ(); uBefore = s.getU();
        M.system.prescribe(s);
        qAfter = s.getQ(); uAfter = s.getU();
        M.system.realize(s, Stage::Acceleration);
        udot = s.getUDot();
        const Vector qdot = s.getQDot(), qdotdot = s.getQDotDot();
        double eQ = 0, eU = 0, eUd = 0, eOther = 0, eQd = 0, eQdd = 0; bool anyQd = false;
        for (int i = 1; i < nb; ++i) {
            const MobilizedBody& mb = M.bodies[i]; const Expect& X = E[i];
            const int mnq = mb.getNumQ(s), mnu = mb.getNumU(s);
            const int q0 = mnq ? (int)mb.getFirstQIndex(s) : 0, u0 = mnu ? (int)mb.getFirstUIndex(s) : 0;
            const double tol = X.arithmetic ? 1e-15 : 0.0;
            for (int j = 0; j < mnq; ++j) {
                if (X.qGov) { double e = absErr(qAfter[q0 + j], X.qV[j]); upd(eQ, e <= tol * std::max(1.0, std::abs(X.qV[j])) ? 0.0 : e); }
                else upd(eOther, bitEq(qAfter[q0 + j], qBefore[q0 + j]) ? 0.0 : 1.0);
            }
            for (int j = 0; j < mnu; ++j) {
                if (X.uGov) { double e = absErr(uAfter[u0 + j], X.uV[j]); upd(eU, e <= tol * std::max(1.0, std::abs(X.uV[j])) ? 0.0 : e); }
                else if (!X.qdotGov) upd(eOther, bitEq(uAfter[u0 + j], uBefore[u0 + j]) ? 0.0 : 1.0);
                if (X.udGov) { double e = absErr(udot[u0 + j], X.udV[j]); upd(eUd, e <= tol * std::max(1.0, std::abs(X.udV[j])) ? 0.0 : e); }
            }
            if (X.qdotGov) {
                anyQd = true;
                // qdot = N u and qdotdot = N udot + NDot u go through N * N^-1: rounding of a well conditioned 3x3/4x3 product
                for (int j = 0; j < mnq; ++j) {
                    double e1 = absErr(qdot[q0 + j], X.qdV[j]), e2 = absErr(qdotdot[q0 + j], X.qddV[j]);
                    upd(eQd, e1 <= 1e-12 * std::max(1.0, std::abs(X.qdV[j])) ? 0.0 : e1);
                    upd(eQdd, e2 <= 1e-10 * std::max(1.0, std::abs(X.qddV[j])) ? 0.0 : e2);
                }
            }
        }
        vh::P("prescribed_q_exact", "prescribe." + cls + ".q_exact", eQ, 0);
        vh::P("prescribed_u_exact", "prescribe." + cls + ".u_exact", eU, 0);
        vh::P("others_untouched", "prescribe." + cls + ".others_untouched", eOther, 0);
        vh::P("known_udot_exact", "realize." + cls + ".udot_exact", eUd, 0);
        if (anyQd) { vh::P("qdot_matches_motion", "realize." + cls + ".qdot_matches", eQd, 0); vh::P("qdotdot_matches_motion", "realize." + cls + ".qdotdot_matches", eQdd, 0); }
        double e = 0;
        Vector ep = matter.calcMotionErrors(s, Stage::Position), ev = matter.calcMotionErrors(s, Stage::Velocity), ea = matter.calcMotionErrors(s, Stage::Acceleration);
        for (int i = 0; i < ep.size(); ++i) upd(e, std::abs(ep[i]));
        for (int i = 0; i < ev.size(); ++i) upd(e, std::abs(ev[i]));
        for (int i = 0; i < ea.size(); ++i) upd(e, std::abs(ea[i]));
        vh::P("motion_errors_zero", "motionErrors." + cls + ".zero", e, 0);
    };
    exactnessPass(t);
    for (int i = 1; i < nb; ++i) {   // node classes that run a prescribed (known-udot) branch
        const Motion::Method um = M.bodies[i].getUDotMotionMethod(s);
        if (M.bodies[i].getNumU(s) && um != Motion::Free)
            vh::D(std::string("known.") + (i == A.loneParticle ? "LoneParticle" : mobName(M.mtype[i])) + (M.reversed[i] ? ".rev" : "") + (um == Motion::Zero ? ".zero" : ".prescribed"));
    }

    // ---- quantities for the model records (taken now, before the state is modified below)
    const Array_<QIndex> freeQ = matter.getFreeQIndex(s);
    const Array_<UIndex> freeU = matter.getFreeUIndex(s), freeUDot = matter.getFreeUDotIndex(s), known = matter.getKnownUDotIndex(s);
    const Vector tau = matter.getMotionMultipliers(s);
    Vector tauFull; matter.findMotionForces(s, tauFull);
    const double power = matter.calcMotionPower(s);
    Matrix MM; matter.calcM(s, MM);
    const Vector lambda = s.getMultipliers();
    const Vector mobF = M.system.getMobilityForces(s, Stage::Dynamics);
    const Vector_<SpatialVec> bodyF = M.system.getRigidBodyForces(s, Stage::Dynamics);
    Vector resid0, residNoLambda; double fscale = 0;
    matter.calcResidualForce(s, mobF, bodyF, Vector(nu, 0.0), lambda, resid0);
    matter.calcResidualForceIgnoringConstraints(s, mobF, bodyF, Vector(nu, 0.0), residNoLambda);
    fscale = std::max(maxAbs(resid0), maxAbs(residNoLambda));   // size of the terms that make up f (before cancellation)
    const double udotErrNorm = s.getUDotErr().size() ? maxAbs(s.getUDotErr()) : 0.0;
    // ---- equation of motion with the reported tau, for EVERY case:  M udot + tau + ~G lambda + f_inertial - f_applied = 0
    // (only multipliers of absurd size are excluded: a constraint that cannot move anything - e.g. between two bodies
    // welded together - has G = 0 up to rounding and gets lambda ~ 1e16, so ~G*lambda is noise; that is C08's business)
    if (nu > 0 && lambda.size() && !(maxAbs(lambda) <= 1e6)) vh::D("eom.skipped.hugeMultipliers");
    else if (nu > 0) {
        Vector r; matter.calcResidualForce(s, mobF, bodyF, udot, lambda, r);
        Vector Mud; matter.multiplyByM(s, udot, Mud);
        double sc = 1; upd(sc, fscale); upd(sc, maxAbs(Mud)); upd(sc, maxAbs(tauFull));
        Vector eom = r + tauFull;
        vh::P("eom_with_reported_tau", "multipliers." + cls + ".eom_residual", maxAbs(eom) / sc, 1e-9);
    }
    // a constraint that cannot move anything (e.g. between two bodies welded together) has G = 0: its multipliers are
    // noise/0 (C08's business, not C10's); such systems are excluded from the force-equivalence records
    bool wellPosed = lambda.size() == 0 || maxAbs(lambda) <= 1e6;
    double condG = 1;
    if (lambda.size()) {   // rank of the constraint Jacobian (public calcG + SVD)
        Matrix G; matter.calcG(s, G);
        if (G.nrow() > 0 && G.ncol() > 0) {
            Vector sv; FactorSVD svd(G); svd.getSingularValues(sv);
            double smax = 0, smin = 1e300; bool nan = false;
            for (int i = 0; i < sv.size(); ++i) { if (std::isnan(sv[i])) nan = true; smax = std::max(smax, sv[i]); smin = std::min(smin, sv[i]); }
            if (nan || G.nrow() > G.ncol() || !(smin >= 1e-6 * std::max(1.0, smax))) wellPosed = false;
            else condG = std::max(1.0, smax) / smin;
        } else if (G.nrow() > 0) wellPosed = false;
    }
    double condM = 1;
    if (nu > 0) {
        Vector sv; FactorSVD svd(MM); svd.getSingularValues(sv);
        double smax = 0, smin = 1e300; for (int i = 0; i < sv.size(); ++i) { smax = std::max(smax, sv[i]); smin = std::min(smin, sv[i]); }
        condM = smin > 0 ? smax / smin : 1e300;
    }
    if (std::getenv("C10_DEBUG")) {
        std::fprintf(stderr, "case %ld euler=%d nq=%d nu=%d t=%g udotErr=%g condM=%g condG=%g bodies:", k, (int)A.euler, nq, nu, t, udotErrNorm, condM, condG);
        for (int i = 1; i < nb; ++i) std::fprintf(stderr, " %d:%s%s<-%d[lock=%d motion=%d lvl=%d mth=%d act=%d]", i, mobName(M.mtype[i]), M.reversed[i] ? ".rev" : "", M.parent[i], E[i].lockLevel, A.plan[i].motion, (int)A.plan[i].level, (int)A.plan[i].method, (int)E[i].motionActive);
        for (auto& ci : A.cons) { std::fprintf(stderr, " | %s cb:", consName(ci.type)); for (int b : ci.cbodies) std::fprintf(stderr, " %d", b); std::fprintf(stderr, " cm:"); for (int b : ci.cmobs) std::fprintf(stderr, " %d", b); }
        std::fprintf(stderr, "\n  lambda:");
        for (int i = 0; i < lambda.size(); ++i) std::fprintf(stderr, " %g", lambda[i]);
        std::fprintf(stderr, "  udotErr:"); for (int i = 0; i < s.getUDotErr().size(); ++i) std::fprintf(stderr, " %g", s.getUDotErr()[i]);
        std::fprintf(stderr, "\n");
    }
    std::vector<int> methods;
    for (int i = 1; i < nb; ++i) { methods.push_back((int)M.bodies[i].getQMotionMethod(s)); methods.push_back((int)M.bodies[i].getUMotionMethod(s)); methods.push_back((int)M.bodies[i].getUDotMotionMethod(s)); }

    // ---- metamorphic runs
    double eMeta = NAN, eFree = NAN; bool metaRun = false;
    {
        State sA = s;
        for (int i = 1; i < nb; ++i) { if (A.plan[i].motion != kNone) A.plan[i].handle.disable(sA); M.bodies[i].unlock(sA); }
        sA.updQ() = qAfter; sA.updU() = uAfter; sA.updTime() = t;
        // (i) free behaviour restored: same as system B which never had a Motion or lock
        *A.extra = Vector();
        M.system.realize(sA, Stage::Acceleration);
        const Vector udotA = sA.getUDot();
        State& sB = B.M.state;
        const bool sameShape = sB.getNQ() == nq && sB.getNU() == nu;
        if (sameShape) {
            sB.updQ() = qAfter; sB.updU() = uAfter; sB.updTime() = t;
            B.M.system.realize(sB, Stage::Acceleration);
            eFree = relVecErr(udotA, sB.getUDot());
            int nqInUse = 0; for (int i = 1; i < nb; ++i) nqInUse += M.bodies[i].getNumQ(sA);   // (Euler mode leaves allocated q slots unused)
            bool allFree = (int)matter.getFreeUDotIndex(sA).size() == nu && (int)matter.getFreeQIndex(sA).size() == nqInUse && (int)matter.getFreeUIndex(sA).size() == nu;
            if (!allFree) eFree = NAN;
        }
        if (wellPosed) vh::P("unlock_restores_free", "unlock." + cls + ".restores_free", eFree, 1e-12);
        else vh::D("unlock.skipped.degenerateConstraints");
        // (ii) -tau applied as ordinary mobility forces reproduces the prescribed system's udot
        const bool consistent = udotErrNorm <= 1e-8;     // constraints compatible with the prescription
        if (!wellPosed) vh::D("meta.skipped.degenerateConstraints");
        else if (consistent) {
            *A.extra = Vector(-1.0 * tauFull);
            sA.invalidateAllCacheAtOrAbove(Stage::Dynamics);
            M.system.realize(sA, Stage::Acceleration);
            eMeta = relVecErr(sA.getUDot(), udot);
            const double errB = sA.getUDotErr().size() ? maxAbs(sA.getUDotErr()) : 0.0;
            *A.extra = Vector();
            metaRun = true;
            if (!(errB <= 1e-8)) { metaRun = false; vh::D("meta.skipped.unprescribedInconsistent"); }
        } else vh::D("meta.skipped.constraintsConflictWithPrescription");
    }
    // bound scales with the conditioning of the two linear solves involved (mass matrix, constraint Jacobian)
    if (metaRun) vh::P("tau_as_applied_force", "multipliers." + cls + ".as_applied_force", eMeta, std::min(1e-6, std::max(1e-9, 1e-13 * condM * condG)));
    if (known.empty()) vh::D("chk.nothingPrescribed");

    // ---- model record: partition, pools (callback -> pool choice and u = N^-1 qdot are the MODEL's job), scatter
    {
        Vector ndu; matter.multiplyByNDot(s, false, s.getU(), ndu);
        vh::Line L = vh::I("presc"); L.s(idTok(seed, k)).i(nb - 1);
        for (int i = 1; i < nb; ++i) {
            const MobilizedBody& mb = M.bodies[i]; const Expect& X = E[i]; const Plan& P = A.plan[i];
            const int mnq = mb.getNumQ(s), mnu = mb.getNumU(s);
            const int q0 = mnq ? (int)mb.getFirstQIndex(s) : 0, u0 = mnu ? (int)mb.getFirstUIndex(s) : 0;
            L.i(q0).i(u0).i(mnq).i(mnu).i(X.lockLevel);
            Vector lq(mnq, 0.0), lu(mnu, 0.0);
            if (X.lockLevel == Motion::Position) lq = X.lockVals; else if (X.lockLevel != Motion::NoLevel) lu = X.lockVals;
            putVec(L, lq); putVec(L, lu);
            L.i(P.motion != kNone).i(P.motion != kNone && P.handle.isDisabled(s)).i((int)P.level).i((int)P.method);
            // raw callback results at this state: Position / PositionDot / PositionDotDot (nq), Velocity / VelocityDot / Acceleration (nu)
            Vector cb[6] = {Vector(mnq, 0.0), Vector(mnq, 0.0), Vector(mnq, 0.0), Vector(mnu, 0.0), Vector(mnu, 0.0), Vector(mnu, 0.0)};
            if (P.motion != kNone && mnq > 0) {
                Vector v0, v1, v2; motionValues(P, t, mnq, mnu, v0, v1, v2);
                if (P.level == Motion::Position) { cb[0] = v0; cb[1] = v1; cb[2] = v2; }
                else if (P.level == Motion::Velocity) { cb[3] = v0; cb[4] = v1; }
                else cb[5] = v0;
            }
            for (int c = 0; c < 6; ++c) putVec(L, cb[c]);
            // this mobilizer's block of N^-1 (nu x nq, row major; column j = N^-1 e_j through the public operator) and NDot*u
            Matrix NI(mnu, mnq);
            for (int j = 0; j < mnq; ++j) { Vector e(nq, 0.0), out; e[q0 + j] = 1; matter.multiplyByNInv(s, false, e, out); for (int r = 0; r < mnu; ++r) NI(r, j) = out[u0 + r]; }
            for (int r = 0; r < mnu; ++r) for (int j = 0; j < mnq; ++j) L.d(NI(r, j));
            for (int j = 0; j < mnq; ++j) L.d(ndu[q0 + j]);
        }
        L.i(nq); putVec(L, qBefore); L.i(nu); putVec(L, uBefore);
        L.emit();
        vh::Line o1 = vh::O("presc"); o1.s("q"); putVec(o1, qAfter); o1.emit();
        vh::Line o2 = vh::O("presc"); o2.s("u"); putVec(o2, uAfter); o2.emit();
        vh::Line o3 = vh::O("presc"); o3.s("methods"); for (int m : methods) o3.i(m); o3.emit();
        vh::Line o4 = vh::O("presc"); o4.s("freeQ"); for (QIndex x : freeQ) o4.i((int)x); o4.emit();
        vh::Line o5 = vh::O("presc"); o5.s("freeU"); for (UIndex x : freeU) o5.i((int)x); o5.emit();
        vh::Line o6 = vh::O("presc"); o6.s("freeUDot"); for (UIndex x : freeUDot) o6.i((int)x); o6.emit();
        vh::Line o7 = vh::O("presc"); o7.s("knownUDot"); for (UIndex x : known) o7.i((int)x); o7.emit();
        vh::Line o8 = vh::O("presc"); o8.s("udotKnown"); for (UIndex x : known) o8.d(udot[x]); o8.emit();
        vh::D(std::string("presc.") + cls);
    }
    // ---- model record: the two ABA passes with prescribed nodes on exported tree data
    if (nu > 0 && (lambda.size() == 0 || maxAbs(lambda) <= 1e6)) {
        // total forces seen by the tree passes: applied minus constraint forces
        Vector_<SpatialVec> cF(nb); Vector cf(nu); cF = SpatialVec(Vec3(0), Vec3(0)); cf = 0.0;
        if (lambda.size()) matter.findConstraintForces(s, cF, cf);
        vh::Line L = vh::I("aba"); L.s(idTok(seed, k)).i(0).i(nb - 1).i(nu);
        for (int i = 1; i < nb; ++i) {
            const MobilizedBody& mb = M.bodies[i]; const MobilizedBody& par = mb.getParentMobilizedBody();
            const int d = mb.getNumU(s);
            L.i((int)mb.getMobilizedBodyIndex()).i((int)par.getMobilizedBodyIndex()).i(d).i(d ? (int)mb.getFirstUIndex(s) : 0);
            putV3(L, mb.getBodyOriginLocation(s) - par.getBodyOriginLocation(s));
            const SpatialInertia& SI = mb.getBodySpatialInertiaInGround(s);
            L.d(SI.getMass()); putV3(L, SI.getMassCenter());
            const SymMat33& G = SI.getUnitInertia().asSymMat33();
            L.d(G(0, 0)).d(G(1, 1)).d(G(2, 2)).d(G(1, 0)).d(G(2, 0)).d(G(2, 1));
            for (int c = 0; c < d; ++c) { const SpatialVec h = mb.getHCol(s, MobilizerUIndex(c)); putV3(L, h[0]); putV3(L, h[1]); }
        }
        for (int i = 1; i < nb; ++i) L.i(M.bodies[i].getUDotMotionMethod(s) != Motion::Free ? 1 : 0);     // isUDotKnown
        for (int i = 1; i < nb; ++i) { const SpatialVec& a = matter.getMobilizerCoriolisAcceleration(s, MobilizedBodyIndex(i)); putV3(L, a[0]); putV3(L, a[1]); }
        for (int i = 1; i < nb; ++i) { const SpatialVec& b = matter.getGyroscopicForce(s, MobilizedBodyIndex(i)); putV3(L, b[0]); putV3(L, b[1]); }
        for (int i = 0; i < nb; ++i) { const SpatialVec F = bodyF[i] - cF[i]; putV3(L, F[0]); putV3(L, F[1]); }
        for (int i = 0; i < nu; ++i) L.d(mobF[i] - cf[i]);
        { Vector udp(nu, 0.0); for (UIndex x : known) udp[x] = udot[x]; putVec(L, udp); }   // prescribed accelerations at the known slots
        L.d(fscale);
        L.emit();
        std::printf("T 1e-8 1e-10\n");
        vh::Line o = vh::O("aba"); putVec(o, udot); putVec(o, tau); o.d(fscale); o.emit();
        vh::D(std::string("aba.") + cls + (known.empty() ? ".nothingKnown" : freeUDot.empty() ? ".allKnown" : ".mixed"));
    }

    // ---- model record: block elimination
    if (nu > 0 && !wellPosed) vh::D("elim.skipped.degenerateConstraints");
    if (nu > 0 && wellPosed) {
        vh::Line L = vh::I("elim"); L.s(idTok(seed, k)).i(nu).i((int)freeUDot.size()).i((int)known.size());
        for (UIndex x : freeUDot) L.i((int)x);
        for (UIndex x : known) L.i((int)x);
        for (int i = 0; i < nu; ++i) for (int j = 0; j < nu; ++j) L.d(MM(i, j));
        for (int i = 0; i < nu; ++i) L.d(-resid0[i]);
        putVec(L, uAfter);
        for (UIndex x : known) L.d(udot[x]);
        L.d(fscale);
        L.emit();
        std::printf("T 1e-8 1e-10\n");
        // one line = one comparison scale: quantities that are zero by cancellation (a free udot, a tau, the power)
        // are compared against the magnitude of the whole solution, not against their own rounding noise
        // last number: magnitude of the force terms making up f (comparison scale; the model echoes this input)
        vh::Line o1 = vh::O("elim"); putVec(o1, udot); putVec(o1, tau); putVec(o1, tauFull); o1.d(power).d(fscale); o1.emit();
        vh::D(std::string("elim.") + cls + (known.empty() ? ".nothingKnown" : freeUDot.empty() ? ".allKnown" : ".mixed"));
    }

    // ---- a second instant: advance time, prescribe again, realize again; the same exactness predicates must hold
    {
        const double t2 = t + gs.range(0.05, 1.0);
        s.updTime() = t2;
        vh::I("chk").s(idTok(seed, k)).i(2).emit();
        vh::O("chk").i(1).emit();
        vh::D("chk.secondInstant");
        exactnessPass(t2);
    }
}

// ---------------------------------------------------------------------------------------------- Sinusoid / Steady records
static void sinCase(uint64_t seed, long k) {
    vh::Rng g(seed * 1000003ull + (uint64_t)k * 7919ull + 101);
    const double a = g.range(0.1, 2.0), w = g.signedMag(0.2, 4.0), p = g.range(-3.1, 3.1), t = g.range(0.0, 3.0);
    MultibodySystem system; SimbodyMatterSubsystem matter(system); GeneralForceSubsystem forces(system);
    Body::Rigid body(MassProperties(1.0, Vec3(0.1, 0.2, 0), Inertia(1, 1, 1)));
    MobilizedBody::Pin b1(matter.Ground(), Transform(Vec3(0, 0, 0)), body, Transform(Vec3(0, 0.5, 0)));
    MobilizedBody::Pin b2(matter.Ground(), Transform(Vec3(1, 0, 0)), body, Transform(Vec3(0, 0.5, 0)));
    MobilizedBody::Slider b3(matter.Ground(), Transform(Vec3(2, 0, 0)), body, Transform(Vec3(0, 0.5, 0)));
    Motion::Sinusoid(b1, Motion::Position, a, w, p);
    Motion::Sinusoid(b2, Motion::Velocity, a, w, p);
    Motion::Sinusoid(b3, Motion::Acceleration, a, w, p);
    State s = system.realizeTopology(); system.realizeModel(s);
    s.updTime() = t; s.updQ() = Vector(3, 0.3); s.updU() = Vector(3, -0.2);
    system.prescribe(s); system.realize(s, Stage::Acceleration);
    const double ang = w * t + p;
    vh::I("sin").s(idTok(seed, k)).d(a).d(w).d(p).d(t).d(std::cos(ang)).d(std::sin(ang)).emit();
    vh::O("sin").d(b1.getOneQ(s, 0)).d(b1.getOneQDot(s, 0)).d(b1.getOneQDotDot(s, 0)).d(b2.getOneU(s, 0)).d(b2.getOneUDot(s, 0)).d(b3.getOneUDot(s, 0)).emit();
    vh::D("sin");
}

static void steadyCase(uint64_t seed, long k) {
    vh::Rng g(seed * 1000003ull + (uint64_t)k * 7919ull + 211);
    MultibodySystem system; SimbodyMatterSubsystem matter(system); GeneralForceSubsystem forces(system);
    Body::Rigid body(MassProperties(1.3, Vec3(0.1, 0.2, -0.1), Inertia(1, 1.2, 0.9)));
    const int kind = g.below(5);
    MobilizedBody mb;
    switch (kind) {
    case 0: mb = MobilizedBody::Pin(matter.Ground(), Transform(), body, Transform(Vec3(0, 0.5, 0))); break;
    case 1: mb = MobilizedBody::Cylinder(matter.Ground(), Transform(), body, Transform(Vec3(0, 0.5, 0))); break;
    case 2: mb = MobilizedBody::Translation(matter.Ground(), Transform(), body, Transform(Vec3(0, 0.5, 0))); break;
    case 3: mb = MobilizedBody::Ball(matter.Ground(), Transform(), body, Transform(Vec3(0, 0.5, 0))); break;
    default: mb = MobilizedBody::Free(matter.Ground(), Transform(), body, Transform(Vec3(0, 0.5, 0))); break;
    }
    const int nu = kind == 0 ? 1 : kind == 1 ? 2 : kind <= 3 ? 3 : 6;
    double r[6]; for (int i = 0; i < 6; ++i) r[i] = g.range(-2, 2);
    const int form = g.below(4);     // 0 scalar ctor; 1 Vec<nu>; 2 Vec<1> (rest zero); 3 Vec<6>
    Motion::Steady st; int nGiven;
    if (form == 0) { st = Motion::Steady(mb, r[0]); nGiven = 0; }
    else if (form == 2) { st = Motion::Steady(mb, Vec<1>(r[0])); nGiven = 1; }
    else if (form == 3 || nu == 6) { st = Motion::Steady(mb, Vec<6>(r[0], r[1], r[2], r[3], r[4], r[5])); nGiven = 6; }
    else if (nu == 1) { st = Motion::Steady(mb, Vec<1>(r[0])); nGiven = 1; }
    else if (nu == 2) { st = Motion::Steady(mb, Vec<2>(r[0], r[1])); nGiven = 2; }
    else { st = Motion::Steady(mb, Vec<3>(r[0], r[1], r[2])); nGiven = 3; }
    State s = system.realizeTopology(); system.realizeModel(s);
    int setIdx = -1; double setVal = 0;
    if (g.below(3) == 0) { setIdx = g.below(nu); setVal = g.range(-3, 3); st.setOneRate(s, MobilizerUIndex(setIdx), setVal); }
    s.updTime() = g.range(0, 2.0);
    for (int i = 0; i < s.getNU(); ++i) s.updU()[i] = g.range(-1, 1);
    system.prescribe(s); system.realize(s, Stage::Acceleration);
    vh::Line L = vh::I("steady"); L.s(idTok(seed, k)).i(nu).i(nGiven);
    for (int i = 0; i < 6; ++i) L.d(r[i]);
    L.i(setIdx).d(setVal); L.emit();
    vh::Line o = vh::O("steady"); putVec(o, mb.getUAsVector(s)); putVec(o, mb.getUDotAsVector(s)); o.emit();
    vh::D("steady.nu" + std::to_string(nu) + ".form" + std::to_string(form));
}

// ---------------------------------------------------------------------------------------------- lock bookkeeping sequences
static void lockSeqCase(uint64_t seed, long k) {
    const uint64_t base = seed * 1000003ull + (uint64_t)k * 7919ull + 307;
    vh::Rng g(base);
    Model M;
    buildTree(M, g, 1 + g.below(4), fullPalette());
    int target = pickMobilizer(M, g);
    if (target < 0) return;
    const int dl = g.below(5);
    const Motion::Level defLevel = dl == 0 ? Motion::Acceleration : dl == 1 ? Motion::Velocity : dl == 2 ? Motion::Position : Motion::NoLevel;
    if (defLevel != Motion::NoLevel) M.bodies[target].lockByDefault(defLevel);
    M.state = M.system.realizeTopology();
    const bool euler = g.below(3) == 0;
    if (euler) M.matter.setUseEulerAngles(M.state, true);
    M.system.realizeModel(M.state);
    State& s = M.state;
    const MobilizedBody& mb = M.bodies[target];
    const int nq = mb.getNumQ(s), nu = mb.getNumU(s);
    vh::Line L = vh::I("lockseq"); L.s(idTok(seed, k)).i(nq).i(nu).i((int)defLevel);
    putVec(L, mb.getQAsVector(s));
    const int nops = 3 + g.below(8);
    L.i(nops);
    std::vector<std::string> obs;
    const Vector qAll0 = s.getQ(), uAll0 = s.getU();
    auto observe = [&]() {
        std::ostringstream os; Vector lv = mb.getLockValueAsVector(s), q = mb.getQAsVector(s), u = mb.getUAsVector(s);
        os << "O lockseq " << (int)mb.getLockLevel(s) << ' ' << (mb.isLocked(s) ? 1 : 0) << ' ' << lv.size();
        for (int i = 0; i < lv.size(); ++i) os << ' ' << hex(lv[i]);
        for (int i = 0; i < q.size(); ++i) os << ' ' << hex(q[i]);
        for (int i = 0; i < u.size(); ++i) os << ' ' << hex(u[i]);
        obs.push_back(os.str());
    };
    observe();
    for (int o = 0; o < nops; ++o) {
        int op = g.below(10);
        Motion::Level lvl = randLevel(g);
        if (op < 3) { L.i(0).i((int)lvl).i(0); mb.lock(s, lvl); }
        else if (op < 6) {
            int n = lvl == Motion::Position ? nq : nu; Vector v(n); for (int i = 0; i < n; ++i) v[i] = g.range(-1, 1);
            if (g.below(6) == 0) v = 0.0;
            L.i(1).i((int)lvl).i(n); putVec(L, v); mb.lockAt(s, v, lvl);
        }
        else if (op < 7) { L.i(2).i(-1).i(0); mb.unlock(s); }
        else if (op < 9) { Vector v(nq); for (int i = 0; i < nq; ++i) v[i] = g.range(-1, 1); L.i(3).i(-1).i(nq); putVec(L, v); mb.setQFromVector(s, v); }
        else { Vector v(nu); for (int i = 0; i < nu; ++i) v[i] = g.range(-1, 1); L.i(4).i(-1).i(nu); putVec(L, v); mb.setUFromVector(s, v); }
        observe();
    }
    L.emit();
    for (auto& o : obs) std::puts(o.c_str());
    vh::D(std::string("lockseq.") + mobName(M.mtype[target]) + (euler ? ".euler" : ".quat") + ".default_" + levelName(defLevel));
    // observation outside the property: the other mobilizers' q,u are not touched by lock operations on this one
    bool others = true;
    const int q0 = (int)mb.getFirstQIndex(s), u0 = (int)mb.getFirstUIndex(s);
    for (int i = 0; i < s.getNQ(); ++i) if ((i < q0 || i >= q0 + nq) && !bitEq(s.getQ()[i], qAll0[i])) others = false;
    for (int i = 0; i < s.getNU(); ++i) if ((i < u0 || i >= u0 + nu) && !bitEq(s.getU()[i], uAll0[i])) others = false;
    if (!others) vh::D("obs.lock_touched_other_mobilizer");
}

static void oneCase(uint64_t seed, long k) {
    auto guard = [&](const char* what, void (*fn)(uint64_t, long)) {
        try { fn(seed, k); }
        catch (const std::exception& e) {
            vh::I(std::string("exc_") + what).s(idTok(seed, k)).emit();
            std::string w = e.what(); for (auto& ch : w) if (ch == ' ' || ch == '\n') ch = '_';
            std::printf("O exc_%s EXC:%s\n", what, w.substr(0, 300).c_str());
            vh::P("no_exception", std::string(what) + ".any.exception", 1, 0);
        }
    };
    guard("chk", treeCase);
    guard("sin", sinCase);
    guard("steady", steadyCase);
    guard("lockseq", lockSeqCase);
}

int main(int argc, char** argv) {
    vh::Args a(argc, argv);
    if (a.mode == "replay") {
        // every I line carries "<seed> <case#>" as its first two arguments; each distinct pair is re-run once
        char buf[1 << 20]; std::vector<std::pair<uint64_t, long>> todo;
        while (std::fgets(buf, sizeof buf, stdin)) {
            if (buf[0] != 'I' || buf[1] != ' ') continue;
            char fn[64]; unsigned long long sd; long kk;
            if (std::sscanf(buf + 2, "%63s %llu %ld", fn, &sd, &kk) != 3) continue;
            std::pair<uint64_t, long> pr((uint64_t)sd, kk);
            if (std::find(todo.begin(), todo.end(), pr) == todo.end()) todo.push_back(pr);
        }
        for (auto& pr : todo) oneCase(pr.first, pr.second);
        return 0;
    }
    for (long k = 0; k < a.n; ++k) oneCase(a.seed, k);
    return 0;
}
