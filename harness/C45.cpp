// C45 harness: cable paths (CableSpan, both algorithms; CablePath + CableSpring) on small random moving systems.
//
//  I span T nElem <origin: xB w vB p t> {<kind 1: xB w vB P tP Q tQ arc> | <kind 2: xB w vB p tin tout>}* <term: xB w vB p t>
//        -> O span L Ldot power <unit spatial force (moment,force) of origin, of each element, of termination> <sum of forces> <sum of moments about ground origin>
//     the Lean model (SimbodyModel/C45.lean) recomputes all of this from the exported path points / tangents / body kinematics
//     with the formulas of CableSpan.cpp (calcDataVel, calcUnitForce*, calcCablePower, calcCableSegmentLength).
//  I path T nPts <xB w vB p>*   (CablePath through via points only: the whole path is straight segments)
//        -> O path L Ldot power
// P lines: the property's predicates on the implementation (see below).  Only configurations where the path solver
// converged are used (smoothness <= tolerance and iterations < max), as the property says.
#include "Simbody.h"
#include "hcommon.h"
#include <memory>
#include <functional>
#include <sstream>
#include <iostream>
using namespace SimTK;

static Vec3 rvec(vh::Rng& g, double m) { return Vec3(g.range(-m, m), g.range(-m, m), g.range(-m, m)); }
static Rotation rrot(vh::Rng& g, double maxAngle) {
    Vec3 ax = rvec(g, 1); if (ax.norm() < 1e-3) ax = Vec3(0, 0, 1);
    return Rotation(g.range(-maxAngle, maxAngle), UnitVec3(ax));
}
static void putV(vh::Line& l, const Vec3& v) { l.d(v[0]).d(v[1]).d(v[2]); }

struct Obst { int type; Vec3 dims; int body; Transform X_BS; std::shared_ptr<const ContactGeometry> geo; };
// implicit surface function, negative inside
static double surfFn(const Obst& o, const Vec3& p) {
    switch (o.type) {
        case 0: return p.norm() - o.dims[0];
        case 1: return std::sqrt(p[0] * p[0] + p[1] * p[1]) - o.dims[0];
        case 2: return std::sqrt(square(p[0] / o.dims[0]) + square(p[1] / o.dims[1]) + square(p[2] / o.dims[2])) - 1;   // scaled
        case 3: { double rho = std::sqrt(p[0] * p[0] + p[1] * p[1]) - o.dims[0]; return std::sqrt(rho * rho + p[2] * p[2]) - o.dims[1]; }
    }
    return 0;
}
static const char* typeName(int t) { static const char* n[] = {"sphere", "cylinder", "ellipsoid", "torus"}; return n[t]; }

struct BodyKin { Vec3 x, w, v; };

// identity of the case being generated (goes into every I record so that --mode replay can rebuild and RE-RUN it)
static long long gSeed = 1, gCase = 0;
// floors (X1): how many cases reach the result predicates
static long gSpanTotal[2] = {0, 0}, gSpanConv[2] = {0, 0}, gSpanContact = 0, gSpanObstCases = 0, gSurfTotal = 0, gSurfConv = 0, gFdTotal = 0, gFdDone = 0;

// penetration depth (>0 = inside) of the open straight segment a->b into a convex quadric obstacle, closed form:
// in coordinates scaled so that the surface is the unit sphere / unit circle the squared distance along the segment is a
// quadratic in the parameter; its minimum over [0,1] is attained at the clamped vertex.
static double segPenetrationConvex(int type, const Vec3& dims, const Vec3& a, const Vec3& b) {
    Vec3 sc = type == 0 ? Vec3(dims[0]) : type == 1 ? Vec3(dims[0], dims[0], 1) : dims;
    Vec3 A(a[0] / sc[0], a[1] / sc[1], type == 1 ? 0.0 : a[2] / sc[2]), B(b[0] / sc[0], b[1] / sc[1], type == 1 ? 0.0 : b[2] / sc[2]);
    Vec3 d = B - A; double dd = ~d * d;
    double t = dd > 0 ? -(~A * d) / dd : 0.0; t = std::min(1.0, std::max(0.0, t));
    double m = (A + t * d).norm();                 // min of the scaled radius along the segment (1 = on the surface)
    double rmin = std::min(sc[0], std::min(sc[1], type == 1 ? sc[0] : sc[2]));
    return (1 - m) * rmin;                         // conservative conversion back to a length
}

static int spanCase(vh::Rng& g, int caseNo, bool thorough) {
    MultibodySystem system; SimbodyMatterSubsystem matter(system); CableSubsystem cables(system);
    Body::Rigid body(MassProperties(1.0, Vec3(0), Inertia(1)));
    int nB = 1 + g.below(3);
    std::vector<MobilizedBody> mob; mob.push_back(matter.Ground());
    std::vector<Transform> X_GB; X_GB.push_back(Transform());
    for (int b = 0; b < nB; ++b) {
        int parent = g.below(3) == 0 ? g.below((int)mob.size()) : 0;
        MobilizedBody::Free fb(mob[parent], Transform(), body, Transform());
        mob.push_back(fb);
        X_GB.push_back(Transform(rrot(g, 1.0), rvec(g, 1.5)));
    }
    auto pickBody = [&]() { return g.below(nB + 1); };
    auto station = [&](int b, const Vec3& pG) { return ~X_GB[b] * pG; };

    // path designed in ground, roughly along +x from O to T
    int nItems = g.below(thorough ? 6 : 5);                 // obstacles + via points, 0..4(5)
    if (g.below(6) == 0) nItems = 0;
    double span = 1.2 * (nItems + 1);
    Vec3 O_G(-span, g.range(-0.2, 0.2), g.range(-0.2, 0.2)), T_G(span, g.range(-0.2, 0.2), g.range(-0.2, 0.2));
    int bO = pickBody(), bT = pickBody();
    CableSpan cable(cables, mob[bO].getMobilizedBodyIndex(), station(bO, O_G), mob[bT].getMobilizedBodyIndex(), station(bT, T_G));
    std::vector<int> itemKind; std::vector<Obst> obst; std::vector<int> viaBody;
    std::string tag;
    for (int k = 0; k < nItems; ++k) {
        double xc = -span + (2 * span) * (k + 1) / (nItems + 1) + g.range(-0.1, 0.1);
        if (g.below(3) == 0) {                               // via point, slightly off the line
            Vec3 pG(xc, g.range(-0.1, 0.25), g.range(-0.3, 0.3));
            int b = pickBody();
            cable.addViaPoint(mob[b].getMobilizedBodyIndex(), station(b, pG));
            itemKind.push_back(2); viaBody.push_back(b); tag += "v";
        } else {
            Obst o; o.type = g.below(thorough ? 4 : 4); o.body = pickBody();
            double r = g.range(0.25, 0.5);
            bool lifted = g.below(8) == 0;                   // obstacle below the line: the cable misses it
            double top = lifted ? -g.range(0.15, 0.4) : g.range(0.25, 0.7) * r;   // height of the obstacle's top above y=0
            Rotation R_GS; Vec3 c_G;
            Vec3 hint;
            if (o.type == 0) { o.dims = Vec3(r, 0, 0); o.geo.reset(new ContactGeometry::Sphere(r)); R_GS = rrot(g, 3.0); c_G = Vec3(xc, top - r, g.range(-0.1, 0.1)); }
            else if (o.type == 1) { o.dims = Vec3(r, 0, 0); o.geo.reset(new ContactGeometry::Cylinder(r));
                R_GS = Rotation(g.range(-0.3, 0.3), UnitVec3(g.range(-1, 1), g.range(-1, 1), 0.2)); c_G = Vec3(xc, top - r, g.range(-0.1, 0.1)); }
            else if (o.type == 2) { Vec3 rad(r * g.range(0.7, 1.4), r, r * g.range(0.7, 1.4)); o.dims = rad; o.geo.reset(new ContactGeometry::Ellipsoid(rad));
                R_GS = Rotation(g.range(-0.3, 0.3), UnitVec3(g.range(-1, 1), g.range(-1, 1), g.range(-1, 1) + 1.5)); c_G = Vec3(xc, top - r, g.range(-0.1, 0.1)); }
            else { double R = g.range(0.5, 0.8), tr = g.range(0.12, 0.2); o.dims = Vec3(R, tr, 0); o.geo.reset(new ContactGeometry::Torus(R, tr));
                R_GS = Rotation(g.range(-0.15, 0.15), UnitVec3(g.range(-1, 1), g.range(-1, 1), 0.3)); c_G = Vec3(xc, top - (R + tr), g.range(-0.03, 0.03)); r = R + tr; }
            hint = ~R_GS * Vec3(0, r, 0);                     // the top of the obstacle, in surface coordinates
            if (o.type == 2) hint = ~R_GS * Vec3(0, 1, 0) * r;
            Transform X_GS(R_GS, c_G);
            o.X_BS = ~X_GB[o.body] * X_GS;
            cable.addObstacle(mob[o.body].getMobilizedBodyIndex(), o.X_BS, o.geo, hint);
            obst.push_back(o); itemKind.push_back(1); tag += std::string(1, typeName(o.type)[0]);
        }
    }
    bool minLen = g.coin();
    cable.setAlgorithm(minLen ? CableSpanAlgorithm::MinimumLength : CableSpanAlgorithm::Scholz2015);
    cable.setCurveSegmentAccuracy(1e-12);
    cable.setSmoothnessTolerance(1e-10);
    cable.setSolverMaxIterations(100);
    system.realizeTopology();
    State s = system.getDefaultState();
    for (int b = 1; b <= nB; ++b) {
        // parent may be another free body: fit relative transform
        const MobilizedBody& p = mob[b].getParentMobilizedBody();
        int pi = 0; for (int q = 0; q <= nB; ++q) if (mob[q].getMobilizedBodyIndex() == p.getMobilizedBodyIndex()) pi = q;
        mob[b].setQToFitTransform(s, ~X_GB[pi] * X_GB[b]);
    }
    for (int i = 0; i < s.getNU(); ++i) s.updU()[i] = g.range(-1, 1);
    std::string algTag = minLen ? "MinimumLength" : "Scholz2015";
    try {
        system.realize(s, Stage::Velocity);
        double L = cable.calcLength(s);
        bool conv = cable.getSmoothness(s) <= cable.getSmoothnessTolerance() && cable.getNumSolverIterations(s) < cable.getSolverMaxIterations() && std::isfinite(L);
        gSpanTotal[minLen ? 1 : 0]++;
        if (!conv) { vh::D("span." + algTag + ".notConverged"); return 0; }
        gSpanConv[minLen ? 1 : 0]++;
        double Ldot = cable.calcLengthDot(s);
        const double T = g.range(0.5, 20);
        auto kin = [&](int b) { BodyKin k; k.x = mob[b].getBodyOriginLocation(s); k.w = mob[b].getBodyAngularVelocity(s); k.v = mob[b].getBodyOriginVelocity(s); return k; };
        auto putKin = [&](vh::Line& l, int b) { BodyKin k = kin(b); putV(l, k.x); putV(l, k.w); putV(l, k.v); };
        // --- the I record + implementation outputs
        vh::Line in = vh::I("span"); in.i(gSeed).i(gCase).d(T);
        std::vector<SpatialVec> unitF; SpatialVec uf;
        std::vector<Vec3> pathPts;           // consecutive end points of straight segments: Q0=O, P1,Q1, ... , T
        std::vector<Vec3> pathTan;           // the cable tangent the implementation reports at each of those points
        std::vector<std::string> pathWhat;   // what each point belongs to
        std::vector<int> pathBody;           // body each point is fixed to
        std::vector<double> arcs; std::vector<std::pair<Vec3, Vec3> > chords;
        int nElem = 0; { CableSpanObstacleIndex oi(0); for (int k : itemKind) { if (k == 1) { if (cable.isInContactWithObstacle(s, oi)) ++nElem; ++oi; } else ++nElem; } }
        in.i(nElem);
        Vec3 Opt = mob[bO].findStationLocationInGround(s, cable.getOriginStation());
        putKin(in, bO); putV(in, Opt); putV(in, Vec3(cable.calcOriginTangentDirection(s)));
        cable.calcOriginUnitForce(s, uf); unitF.push_back(uf); pathPts.push_back(Opt); pathTan.push_back(Vec3(cable.calcOriginTangentDirection(s))); pathWhat.push_back("origin"); pathBody.push_back(bO);
        std::string contactTag;
        { CableSpanObstacleIndex oi(0); CableSpanViaPointIndex vi(0); int on = 0, vn = 0;
          for (int k : itemKind) {
            if (k == 1) {
                const Obst& o = obst[on++];
                if (cable.isInContactWithObstacle(s, oi)) {
                    Transform XP = cable.calcCurveSegmentInitialFrenetFrame(s, oi), XQ = cable.calcCurveSegmentFinalFrenetFrame(s, oi);
                    double arc = cable.calcCurveSegmentArcLength(s, oi);
                    in.i(1); putKin(in, o.body); putV(in, XP.p()); putV(in, XP.x()); putV(in, XQ.p()); putV(in, XQ.x()); in.d(arc);
                    cable.calcCurveSegmentUnitForce(s, oi, uf); unitF.push_back(uf);
                    pathPts.push_back(XP.p()); pathPts.push_back(XQ.p()); pathTan.push_back(Vec3(XP.x())); pathTan.push_back(Vec3(XQ.x())); pathWhat.push_back(typeName(o.type)); pathWhat.push_back(typeName(o.type)); pathBody.push_back(o.body); pathBody.push_back(o.body); arcs.push_back(arc); chords.push_back({XP.p(), XQ.p()});
                    contactTag += "c";
                } else contactTag += "-";
                ++oi;
            } else {
                int b = viaBody[vn++];
                Vec3 p = cable.calcViaPointLocation(s, vi);
                in.i(2); putKin(in, b); putV(in, p); putV(in, Vec3(cable.calcViaPointIncomingTangentDirection(s, vi))); putV(in, Vec3(cable.calcViaPointOutgoingTangentDirection(s, vi)));
                cable.calcViaPointUnitForce(s, vi, uf); unitF.push_back(uf);
                pathPts.push_back(p); pathPts.push_back(p); pathTan.push_back(Vec3(cable.calcViaPointIncomingTangentDirection(s, vi))); pathTan.push_back(Vec3(cable.calcViaPointOutgoingTangentDirection(s, vi))); pathWhat.push_back("via"); pathWhat.push_back("via"); pathBody.push_back(b); pathBody.push_back(b);
                ++vi;
            }
          } }
        Vec3 Tpt = mob[bT].findStationLocationInGround(s, cable.getTerminationStation());
        putKin(in, bT); putV(in, Tpt); putV(in, Vec3(cable.calcTerminationTangentDirection(s)));
        cable.calcTerminationUnitForce(s, uf); unitF.push_back(uf); pathPts.push_back(Tpt); pathTan.push_back(Vec3(cable.calcTerminationTangentDirection(s))); pathWhat.push_back("termination"); pathBody.push_back(bT);
        in.emit();
        double power = cable.calcCablePower(s, T);
        Vector_<SpatialVec> bf(matter.getNumBodies(), SpatialVec(Vec3(0), Vec3(0)));
        cable.applyBodyForces(s, T, bf);
        Vec3 fsum(0), msum(0);
        for (int b = 0; b <= nB; ++b) { const SpatialVec& F = bf[mob[b].getMobilizedBodyIndex()]; fsum += F[1]; msum += F[0] + mob[b].getBodyOriginLocation(s) % F[1]; }
        vh::Line out = vh::O("span"); out.d(L).d(Ldot).d(power);
        for (auto& F : unitF) { putV(out, F[0]); putV(out, F[1]); }
        putV(out, fsum / T); putV(out, msum / T);
        out.emit();
        vh::D("span." + algTag + ".items=" + (tag.empty() ? "none" : tag) );
        if (std::count(contactTag.begin(), contactTag.end(), 'c') > 0) gSpanContact++;
        vh::D("span.contacts=" + std::to_string(std::count(contactTag.begin(), contactTag.end(), 'c')) + ".lifted=" + std::to_string(std::count(contactTag.begin(), contactTag.end(), '-')));
        // tangent defects: at both ends of every straight segment the reported cable tangent should be the segment direction
        // (that is what "smooth" means); minAlign = smallest cosine between the two, defSum = sum of |tangent - direction|
        double minAlign = 1, defSum = 0, vmax = 0; std::string cuspAt = "none"; const int nSeg = (int)pathPts.size() / 2;
        for (size_t i = 0; i + 1 < pathPts.size(); i += 2) { Vec3 d = pathPts[i + 1] - pathPts[i]; double len = d.norm(); if (!(len > 0)) continue; Vec3 e = d / len;
            for (int side = 0; side < 2; ++side) { double al = ~pathTan[i + side] * e; defSum += (pathTan[i + side] - e).norm();
                if (al < minAlign) { minAlign = al; cuspAt = pathWhat[i + side]; } } }
        double armMax = 0;
        for (size_t i = 0; i < pathPts.size(); ++i) { const MobilizedBody& mb = mob[pathBody[i]];
            Vec3 v = mb.getBodyOriginVelocity(s) + mb.getBodyAngularVelocity(s) % (pathPts[i] - mb.getBodyOriginLocation(s));
            vmax = std::max(vmax, v.norm()); armMax = std::max(armMax, pathPts[i].norm()); }
        const double smooth = cable.getSmoothness(s);
        // Bounds DERIVED from the smoothness the solver reports (theorems totalForce_eq_defects / unitPower_add_lengthDot_eq_defects:
        // resultant force = sum of tangent defects, power + T*Ldot = T * sum defect.velocity; each defect <= sqrt2 * path error)
        const double fB = 3.0 * nSeg * std::max(smooth, 1e-13) + 1e-12;
        // a 180 degree cusp: the straight segment runs against the reported tangent
        const bool cusp = minAlign < -0.9;
        if (cusp) { vh::D("span." + algTag + ".cusp@" + cuspAt); if (std::getenv("C45_DEBUG")) std::printf("# dbg cusp align=%g at %s items=%s\n", minAlign, cuspAt.c_str(), tag.c_str()); }
        const std::string key = cusp ? "span." + algTag + ".cusp@" + cuspAt : "span." + algTag;
        if (std::getenv("C45_DEBUG")) std::printf("# dbg defect nSeg=%d smooth=%g defSum=%g fsum=%g msum=%g pw=%g vmax=%g\n", nSeg, smooth, defSum, fsum.norm() / T, msum.norm() / T, std::fabs(power + T * Ldot) / T, vmax);
        // every reported tangent is aligned with its straight segment (first-class predicate; a cusp is its grossest violation)
        vh::P("tangents_aligned_with_segments", key + ".align", 1 - minAlign, 1e-9);
        // --- predicates
        // (a) length = sum of straight and curved segment lengths
        double sumLen = 0; for (size_t i = 0; i + 1 < pathPts.size(); i += 2) sumLen += (pathPts[i + 1] - pathPts[i]).norm();
        for (double a : arcs) sumLen += a;
        vh::P("length_is_sum_of_segments", key + ".lensum", std::fabs(L - sumLen) / L, 1e-9);
        // (b) at least the straight-line distance between the end points; each arc at least its chord
        vh::P("length_ge_endpoint_distance", key + ".lenge", (Tpt - Opt).norm() - L, 1e-12 * L);
        double worstChord = -1; for (size_t i = 0; i < arcs.size(); ++i) worstChord = std::max(worstChord, (chords[i].second - chords[i].first).norm() - arcs[i]);
        if (!arcs.empty()) vh::P("arc_ge_chord", key + ".arcchord", worstChord, 1e-9);
        // (c) length rate = d/dt of the length along the motion (central finite difference with qdot = N u)
        { const double h = 1e-5; Vector qd = s.getQDot(); double Lpm[2];
          bool ok = true;
          for (int sgn = 0; sgn < 2; ++sgn) { State s2 = s; s2.updQ() = s.getQ() + (sgn ? -h : h) * qd; system.realize(s2, Stage::Position); Lpm[sgn] = cable.calcLength(s2);
              ok = ok && cable.getSmoothness(s2) <= cable.getSmoothnessTolerance();
              CableSpanObstacleIndex oi(0); for (int k : itemKind) if (k == 1) { ok = ok && cable.isInContactWithObstacle(s2, oi) == cable.isInContactWithObstacle(s, oi); ++oi; } }
          double fd = (Lpm[0] - Lpm[1]) / (2 * h);
          gFdTotal++; if (ok) gFdDone++;
          if (ok) vh::P("lengthdot_is_derivative", key + ".ldotfd", std::fabs(fd - Ldot), 1e-3 * (1 + std::fabs(Ldot)));   // measured: 1 of 20 000 above 2e-4 (8.9e-4), finite-difference noise near lift-off
          else vh::D("span.fd.skipped(contact change or non-converged neighbour)"); }
        // (d) curved segments lie on their obstacle surfaces
        { double worst = 0; CableSpanObstacleIndex oi(0); int on = 0;
          for (int k : itemKind) if (k == 1) { const Obst& o = obst[on++];
              if (cable.isInContactWithObstacle(s, oi)) { Transform X_GS = mob[o.body].getBodyTransform(s) * o.X_BS;
                  cable.calcCurveSegmentResampledPoints(s, oi, 7, [&](Vec3 p) { worst = std::max(worst, std::fabs(surfFn(o, ~X_GS * p))); }); }
              ++oi; }
          if (!arcs.empty()) vh::P("curve_points_on_surface", key + ".onsurf", worst, 1e-7); }
        // (e) straight segments do not penetrate the obstacles: closed-form line/quadric test for sphere, cylinder, ellipsoid
        //     (minimum of the scaled radius along the segment), 23 interior samples for the torus
        { double worstConvex = 0, worstTorus = 0; std::string where; int on = 0;
          CableSpanObstacleIndex oi(0);
          for (const Obst& o : obst) { Transform X_GS = mob[o.body].getBodyTransform(s) * o.X_BS; if (o.type != 3) gSpanObstCases++;
              for (size_t i = 0; i + 1 < pathPts.size(); i += 2) {
                  Vec3 a = ~X_GS * pathPts[i], b = ~X_GS * pathPts[i + 1];
                  if (o.type != 3) { double pen = segPenetrationConvex(o.type, o.dims, a, b);
                      if (pen > worstConvex) { worstConvex = pen; where = std::string(typeName(o.type)) + "#" + std::to_string(on) + (cable.isInContactWithObstacle(s, oi) ? ".contact" : ".lifted") + ".seg" + std::to_string(i / 2); } }
                  else for (int q = 1; q < 24; ++q) { double pen = -surfFn(o, a + (b - a) * (q / 24.0)); if (pen > worstTorus) worstTorus = pen; } }
              ++on; ++oi; }
          if (worstConvex > 1e-7) std::printf("# dbg nopenetration %s worst=%g items=%s contacts=%s\n", where.c_str(), worstConvex, tag.c_str(), contactTag.c_str());
          bool anyConvex = false, anyTorus = false; for (const Obst& o : obst) { if (o.type == 3) anyTorus = true; else anyConvex = true; }
          if (anyConvex) vh::P("straight_segments_outside_obstacles", key + ".nopenetration", worstConvex, 1e-7);
          if (anyTorus) vh::P("straight_segments_outside_obstacles", "span.torus.nopenetration", worstTorus, 1e-7); }
        // (f) power = -tension * length rate
        vh::P("power_eq_minus_tension_lengthdot", key + ".power", std::fabs(power + T * Ldot) / T, fB * vmax + 1e-12 * (1 + std::fabs(Ldot)));
        // (g) third law: the applied body forces sum to zero (force and moment about the ground origin)
        vh::P("forces_sum_to_zero", key + ".fsum", fsum.norm() / T, fB);
        vh::P("moments_sum_to_zero", key + ".msum", msum.norm() / T, fB * (1 + armMax));
        // (h) a slack cable (negative tension) applies nothing
        { Vector_<SpatialVec> z(matter.getNumBodies(), SpatialVec(Vec3(0), Vec3(0))); cable.applyBodyForces(s, -1.0, z);
          double m = 0; for (int b = 0; b < z.size(); ++b) m = std::max(m, std::max(z[b][0].norm(), z[b][1].norm()));
          vh::P("slack_applies_no_force", key + ".slack", m + std::fabs(cable.calcCablePower(s, -1.0)), 0); }
        return 1;
    } catch (const std::exception& e) {
        vh::D("span." + algTag + ".EXC"); return 0;
    }
}

// The legacy CablePath solver reports its convergence only on std::cout ("***PATH converged in ..", "PATH stalled ..",
// "==> Backwards geodesic ..") and silently accepts a stalled solve; capture that text around a realize to know whether
// "the path solver converged" for the state at hand.
struct CoutCapture {
    std::ostringstream ss; std::streambuf* old;
    CoutCapture() : old(std::cout.rdbuf(ss.rdbuf())) {}
    ~CoutCapture() { std::cout.rdbuf(old); }
    bool converged() const { const std::string t = ss.str();
        return t.find("PATH stalled") == std::string::npos && t.find("Backwards geodesic") == std::string::npos
            && t.rfind("***PATH converged") != std::string::npos; }
};

// CablePath (CableTrackerSubsystem) + CableSpring
static int pathCase(vh::Rng& g, bool withSurface) {
    MultibodySystem system; SimbodyMatterSubsystem matter(system); CableTrackerSubsystem cables(system); GeneralForceSubsystem forces(system);
    Body::Rigid body(MassProperties(1.0, Vec3(0), Inertia(1)));
    int nB = 1 + g.below(3);
    std::vector<MobilizedBody> mob; mob.push_back(matter.Ground());
    std::vector<Transform> X_GB; X_GB.push_back(Transform());
    for (int b = 0; b < nB; ++b) { MobilizedBody::Free fb(mob[0], Transform(), body, Transform()); mob.push_back(fb); X_GB.push_back(Transform(rrot(g, 1.0), rvec(g, 1.5))); }
    auto pickBody = [&]() { return g.below(nB + 1); };
    auto station = [&](int b, const Vec3& pG) { return ~X_GB[b] * pG; };
    int nItems = g.below(4);
    double span = 1.2 * (nItems + 1);
    Vec3 O_G(-span, g.range(-0.2, 0.2), g.range(-0.2, 0.2)), T_G(span, g.range(-0.2, 0.2), g.range(-0.2, 0.2));
    int bO = pickBody(), bT = pickBody();
    CablePath path(cables, mob[bO], station(bO, O_G), mob[bT], station(bT, T_G));
    std::vector<std::pair<int, Vec3> > pts;       // (body, station) of every point the cable passes through, when all are via points
    pts.push_back({bO, station(bO, O_G)});
    bool anySurface = false; std::vector<Obst> obst;
    for (int k = 0; k < nItems; ++k) {
        double xc = -span + (2 * span) * (k + 1) / (nItems + 1) + g.range(-0.1, 0.1);
        if (!withSurface || g.coin()) {
            Vec3 pG(xc, g.range(-0.1, 0.5), g.range(-0.3, 0.3)); int b = pickBody();
            CableObstacle::ViaPoint vp(path, mob[b], station(b, pG)); pts.push_back({b, station(b, pG)});
        } else {
            Obst o; o.type = 0; o.body = pickBody(); double r = g.range(0.25, 0.5); o.dims = Vec3(r, 0, 0);
            double top = g.range(0.2, 0.6) * r; Vec3 c_G(xc, top - r, g.range(-0.1, 0.1)); Rotation R_GS = rrot(g, 3.0);
            Transform X_GS(R_GS, c_G); o.X_BS = ~X_GB[o.body] * X_GS;
            CableObstacle::Surface surf(path, mob[o.body], o.X_BS, ContactGeometry::Sphere(r));
            double a = std::acos(std::min(1.0, (r - top) / r)) * 0.8;
            surf.setContactPointHints(~R_GS * Vec3(-r * std::sin(a), r * std::cos(a), 0), ~R_GS * Vec3(r * std::sin(a), r * std::cos(a), 0));
            obst.push_back(o); anySurface = true;
        }
    }
    pts.push_back({bT, station(bT, T_G)});
    double k = g.range(10, 200), x0 = g.range(0.5, 1.0) * (T_G - O_G).norm(), c = g.range(0, 0.3);
    CableSpring spring(forces, path, k, x0, c);
    { CoutCapture cap; system.realizeTopology(); }
    State s = system.getDefaultState();
    for (int b = 1; b <= nB; ++b) mob[b].setQToFitTransform(s, X_GB[b]);
    for (int i = 0; i < s.getNU(); ++i) s.updU()[i] = g.range(-1, 1);
    const std::string key = anySurface ? "path.surface" : "path.via";
    try {
        { CoutCapture cap; system.realize(s, Stage::Position); }
        path.solveForInitialCablePath(s);
        // CablePath re-solves from the previous path (an auto-update state variable) at every realize(Position); there is no
        // public convergence flag, so "the solver converged" is taken as: re-solving from its own result no longer moves the length
        bool settled = !anySurface; double Lprev = NAN;
        for (int it = 0; it < 60 && !settled; ++it) {
            CoutCapture cap;
            system.realize(s, Stage::Position);
            double Lc = path.getCableLength(s);
            if (std::fabs(Lc - Lprev) <= 1e-13 * Lc && cap.converged()) settled = true;
            Lprev = Lc;
            if (!settled) s.invalidateAllCacheAtOrAbove(Stage::Position);     // the cache entry keeps the last solution: next solve starts from it
        }
        if (anySurface) gSurfTotal++;
        if (!settled) { vh::D(key + ".notConverged"); return 0; }
        if (anySurface) gSurfConv++;
        { CoutCapture cap; system.realize(s, Stage::Dynamics); }
        double L = path.getCableLength(s), Ldot = path.getCableLengthDot(s);
        if (!std::isfinite(L) || !std::isfinite(Ldot)) { vh::D(key + ".nonfinite"); return 0; }
        const double T = g.range(0.5, 20);
        double power = path.calcCablePower(s, T);
        if (!anySurface) {
            vh::Line in = vh::I("path"); in.i(gSeed).i(gCase).d(T).i((long)pts.size());
            for (auto& bp : pts) { int b = bp.first; putV(in, mob[b].getBodyOriginLocation(s)); putV(in, mob[b].getBodyAngularVelocity(s)); putV(in, mob[b].getBodyOriginVelocity(s));
                                   putV(in, mob[b].findStationLocationInGround(s, bp.second)); }
            in.emit();
            vh::O("path").d(L).d(Ldot).d(power).emit();
        }
        vh::D(key + ".items=" + std::to_string(nItems));
        Vec3 Opt = mob[bO].findStationLocationInGround(s, pts.front().second), Tpt = mob[bT].findStationLocationInGround(s, pts.back().second);
        vh::P("length_ge_endpoint_distance", key + ".lenge", (Tpt - Opt).norm() - L, 1e-12 * L);
        { const double h = 1e-5; Vector qd = s.getQDot(); double Lpm[2];
          bool fdok = true;
          for (int sgn = 0; sgn < 2; ++sgn) { State s2 = s; s2.updQ() = s.getQ() + (sgn ? -h : h) * qd; CoutCapture cap; system.realize(s2, Stage::Position); Lpm[sgn] = path.getCableLength(s2);
              if (anySurface && !cap.converged()) fdok = false; }
          if (fdok) vh::P("lengthdot_is_derivative", key + ".ldotfd", std::fabs((Lpm[0] - Lpm[1]) / (2 * h) - Ldot), (anySurface ? 1e-3 : 2e-6) * (1 + std::fabs(Ldot)));
          else vh::D(key + ".fd.skipped(non-converged neighbour)");
          if (std::getenv("C45_DEBUG") && std::fabs((Lpm[0] - Lpm[1]) / (2 * h) - Ldot) > 1e-4 * (1 + std::fabs(Ldot))) {
              std::printf("# dbg path L=%.12g Ldot=%.12g\n", L, Ldot);
              for (double hh : {1e-3, 1e-4, 1e-5, 1e-6}) { double Lq[2]; for (int sgn = 0; sgn < 2; ++sgn) { State s2 = s; s2.updQ() = s.getQ() + (sgn ? -hh : hh) * qd; system.realize(s2, Stage::Position); Lq[sgn] = path.getCableLength(s2); }
                  std::printf("# dbg   h=%g L+=%.12g L-=%.12g fd=%.12g\n", hh, Lq[0], Lq[1], (Lq[0] - Lq[1]) / (2 * hh)); } } }
        vh::P("power_eq_minus_tension_lengthdot", key + ".power", std::fabs(power + T * Ldot), (anySurface ? 1e-5 : 1e-9) * T * (1 + std::fabs(Ldot)));
        // CableSpring: the body forces it applies deliver power -tension*Ldot and sum to zero
        double tension = spring.getTension(s);
        const Vector_<SpatialVec>& F = system.getRigidBodyForces(s, Stage::Dynamics);
        double pw = 0; Vec3 fsum(0), msum(0);
        for (int b = 0; b <= nB; ++b) { MobilizedBodyIndex bx = mob[b].getMobilizedBodyIndex(); pw += ~F[bx] * mob[b].getBodyVelocity(s); fsum += F[bx][1]; msum += F[bx][0] + mob[b].getBodyOriginLocation(s) % F[bx][1]; }
        double sc = std::max(tension, 1e-3);
        vh::P("spring_power_eq_minus_tension_lengthdot", key + ".springpower", std::fabs(pw + tension * Ldot), (anySurface ? 1e-5 : 1e-9) * sc * (1 + std::fabs(Ldot)));
        vh::P("forces_sum_to_zero", key + ".fsum", fsum.norm() / sc, 1e-8);
        vh::P("moments_sum_to_zero", key + ".msum", msum.norm() / sc, anySurface ? 1e-5 : 1e-8);
        vh::P("spring_tension_nonnegative", key + ".tension", -tension, 0);
        vh::D(std::string(key) + (tension > 0 ? ".taut" : ".slack"));
        return 1;
    } catch (const std::exception& e) { vh::D(key + ".EXC"); return 0; }
}

static void oneCase(long long seed, long long k, bool thorough) {
    gSeed = seed; gCase = k;
    vh::Rng g((uint64_t)(seed * 7919 + 45) * 1000003ull + (uint64_t)k);      // independent stream per case: a case is (seed, k)
    int stream = g.below(10);
    if (stream < 7) spanCase(g, (int)k, thorough);
    else if (stream < 9) pathCase(g, false);
    else pathCase(g, true);
}

// replay RE-RUNS the implementation: every I record carries (seed, case index); the case is rebuilt from them
static void replay() {
    static char buf[1 << 20]; std::vector<std::pair<long long, long long> > done;
    while (std::fgets(buf, sizeof buf, stdin)) {
        std::istringstream is(buf); std::string kind, fn; long long seed, k; is >> kind >> fn >> seed >> k;
        if (kind != "I" || !is || (fn != "span" && fn != "path")) continue;
        if (std::find(done.begin(), done.end(), std::make_pair(seed, k)) != done.end()) continue;
        done.push_back({seed, k});
        oneCase(seed, k, false);
    }
}

static void floorP(const char* what, long got, long total, double minShare) {
    if (total < 15) return;
    vh::I("floor").s(what).i(total).i(got).emit(); std::printf("O floor 1\n");
    vh::P("share_of_cases_reaching_result_predicates", std::string("floor.") + what, minShare - (double)got / total, 0.0);
}

int main(int argc, char** argv) {
    vh::Args args(argc, argv);
    if (args.mode == "replay") { replay(); return 0; }
    bool thorough = args.n > 2000;
    for (long k = 0; k < args.n; ++k) oneCase((long long)args.seed, k, thorough);
    // floors (measured shares on the clean tree in notes/C45.md; required: about half of them)
    floorP("span.Scholz2015.converged", gSpanConv[0], gSpanTotal[0], 0.80);
    floorP("span.MinimumLength.converged", gSpanConv[1], gSpanTotal[1], 0.80);
    floorP("span.withContact", gSpanContact, gSpanConv[0] + gSpanConv[1], 0.30);
    floorP("span.fdDone", gFdDone, gFdTotal, 0.80);
    floorP("path.surface.converged", gSurfConv, gSurfTotal, 0.15);
    return 0;
}
