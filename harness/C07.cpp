// C07 correspondence harness (uses harness/ceq_tree.h, CEQ_TREE_VERSION 6).
// For every case: random tree + ONE constraint of one built-in type on random bodies/mobilities, random VIOLATED state
// (q,u arbitrary), arbitrary udot.
//
// Model-compared records (answered by lean/Drivers/C07.lean running SimbodyModel/ConstraintEq.lean at Float):
//   I <Type> <params…> <kin(A)> <kin(B_i)…> <lambda…>
//       kin(X) = R_GX(9, row major) p_GX(3) w_GX(3) v_GX(3) b_GX(3) a_GX(3)   (all in Ground; the model converts to the
//       Ancestor frame exactly as ConstraintImpl does: ~X_GA*X_GB, findRelativeVelocity, findRelativeAcceleration)
//   O <Type> perr… pverr/verr… paerr/vaerr/aerr… bodyForcesInA(6 per constrained body)… mobilityForces…
//       (implementation: Constraint::getPositionErrorsAsVector / getVelocityErrorsAsVector,
//        SimbodyMatterSubsystem::calcConstraintAccelerationErrors(udot), Constraint::calcConstraintForcesFromMultipliers)
// Implementation-only records  `I chk <Type> <case#>` / `O chk 1`  carry the P lines (property predicates evaluated on
// the implementation's own numbers):
//   fd_pverr   central finite difference of perr along qdot=N u (and t)   vs  pverr
//   fd_aerr    central finite difference of [pverr;verr] along (qdot,udot,t) vs [paerr;vaerr]
//   pq_fd      calcPq  vs  finite difference d perr / d q  (column by column)
//   g_cols     calcG columns vs multiplyByG(e_j)
//   gt_rows    calcGTranspose vs ~calcG ; multiplyByGTranspose(lambda) vs ~G*lambda ;  adjoint <lambda,G u> = <~G lambda,u>
//   pq_mul     multiplyByPq(e_j) vs calcPq columns;  Pq*N == P block of G
//   aerr_affine  aerr(udot) = G udot + aerr(0)   (G really is the Jacobian of the acceleration errors)
//   vw         virtual work per constraint:  <lambda, G u> == sum_B <F_B, V_AB> + <f, u_c>   (forces from
//              calcConstraintForcesFromMultipliers, velocities ancestor-relative)
#include "ceq_tree.h"
#include <map>
using namespace SimTK;
using namespace ceq;
using vh::hex;

static void putV3(vh::Line& L, const Vec3& v) { for (int i = 0; i < 3; ++i) L.d(v[i]); }
static void putKin(vh::Line& L, const Transform& X, const SpatialVec& V, const SpatialVec& A) {
    for (int i = 0; i < 3; ++i) for (int j = 0; j < 3; ++j) L.d(X.R().asMat33()(i, j));
    putV3(L, X.p()); putV3(L, V[0]); putV3(L, V[1]); putV3(L, A[0]); putV3(L, A[1]);
}
static double relErr(const Vector& a, const Vector& b, double floorScale = 1.0) {
    double sc = std::max(floorScale, std::max(maxAbs(a), maxAbs(b)));
    if (a.size() != b.size()) return NAN;
    double e = 0; for (int i = 0; i < a.size(); ++i) { double d = std::abs(a[i] - b[i]); if (std::isnan(d)) return NAN; if (d > e) e = d; }   // NaN propagates
    return e / sc;
}
static double relErrM(const Matrix& a, const Matrix& b) {
    if (a.nrow() != b.nrow() || a.ncol() != b.ncol()) return NAN;
    double sc = 1, e = 0;
    for (int i = 0; i < a.nrow(); ++i) for (int j = 0; j < a.ncol(); ++j) { sc = std::max(sc, std::max(std::abs(a(i, j)), std::abs(b(i, j)))); double d = std::abs(a(i, j) - b(i, j)); if (std::isnan(d)) return NAN; if (d > e) e = d; }
    return e / sc;
}

struct Errs { Vector p, pv, pva; };
// errors of the single constraint at state s (realized as needed) and udot
static Errs errorsAt(Model& M, const ConsInfo& ci, State& s, const Vector& udot) {
    Errs e;
    M.system.realize(s, Stage::Velocity);
    e.p = ci.c.getPositionErrorsAsVector(s);
    e.pv = ci.c.getVelocityErrorsAsVector(s);
    M.matter.calcConstraintAccelerationErrors(s, udot, e.pva);
    return e;
}

// state at time offset dt along (qdot, udot):  q + dt*qdot, u + dt*udot, t + dt
static State shifted(Model& M, const State& s0, const Vector& qdot, const Vector& udot, double dt, bool shiftU) {
    State s = s0;
    s.updTime() = s0.getTime() + dt;
    s.updQ() = s0.getQ() + dt * qdot;
    if (shiftU) s.updU() = s0.getU() + dt * udot;
    return s;
}

static void implChecks(Model& M, const ConsInfo& ci, vh::Rng& g, long caseNo, const Vector& udot, const Vector& lambda, const std::string& icls) {
    const std::string T = consName(ci.type);
    State& s = M.state;
    const SimbodyMatterSubsystem& matter = M.matter;
    M.system.realize(s, Stage::Velocity);
    int mp, mv, ma; ci.c.getNumConstraintEquationsInUse(s, mp, mv, ma);
    const int m = mp + mv + ma, nu = s.getNU(), nq = s.getNQ();
    vh::I("chk").s(T).i(caseNo).emit();
    vh::O("chk").i(1).emit();
    vh::D("chk." + T + "." + ci.cls + "." + icls);
    // key prefix: <Type>.<input class: violated | onManifold>
    const std::string K = T + "." + icls;
    // trees containing a LineOrientation/FreeLine mobilizer: q (3 Euler angles) can express a twist about the line that no u
    // generates, so d perr/dq has a component that Pq = P*N^+ cannot have: the pq_fd predicate gets the single key `line.pq_fd`
    const bool lineTree = hasLineMobilizer(M);
    if (lineTree) vh::D("chk.lineTree." + icls);

    Errs e0 = errorsAt(M, ci, s, udot);
    const Vector qdot = s.getQDot();
    const double h = 1e-5;
    // ---- fd_pverr : d/dt perr == pverr
    if (mp) {
        State sp = shifted(M, s, qdot, udot, h, false), sm = shifted(M, s, qdot, udot, -h, false);
        M.system.realize(sp, Stage::Position); M.system.realize(sm, Stage::Position);
        Vector fd = (ci.c.getPositionErrorsAsVector(sp) - ci.c.getPositionErrorsAsVector(sm)) / (2 * h);
        Vector pv = e0.pv(0, mp);
        vh::P("fd_pverr", K + ".fd_pverr", relErr(fd, pv), 1e-6);
    }
    // ---- fd_aerr : d/dt [pverr; verr] == [paerr; vaerr]
    if (mp + mv) {
        State sp = shifted(M, s, qdot, udot, h, true), sm = shifted(M, s, qdot, udot, -h, true);
        M.system.realize(sp, Stage::Velocity); M.system.realize(sm, Stage::Velocity);
        Vector fd = (ci.c.getVelocityErrorsAsVector(sp) - ci.c.getVelocityErrorsAsVector(sm)) / (2 * h);
        if (mp) { Vector a = fd(0, mp), b = e0.pva(0, mp); vh::P("fd_paerr", K + ".fd_paerr", relErr(a, b), 1e-6); }
        if (mv) { Vector a = fd(mp, mv), b = e0.pva(mp, mv); vh::P("fd_vaerr", K + ".fd_vaerr", relErr(a, b), 1e-6); }
    }
    // ---- G explicit / O(n) / transpose
    Matrix G, Gt; matter.calcG(s, G); matter.calcGTranspose(s, Gt);
    {
        double w = 0;
        for (int j = 0; j < nu; ++j) { Vector ej(nu, 0.0); ej[j] = 1; Vector col; matter.multiplyByG(s, ej, col); Vector gc = G(j); w = std::max(w, relErr(col, gc)); }
        vh::P("g_cols", K + ".g_cols", (G.nrow() == m && G.ncol() == nu) ? w : NAN, 1e-10);
        Matrix GtT = ~Gt;
        vh::P("gt_is_transpose", K + ".gt_is_transpose", relErrM(G, GtT), 1e-10);
        Vector f; matter.multiplyByGTranspose(s, lambda, f);
        Vector f2 = ~G * lambda;
        vh::P("gt_mul", K + ".gt_mul", relErr(f, f2), 1e-10);
        Vector ul = rvector(g, nu), Gu; matter.multiplyByG(s, ul, Gu);
        double lhs = ~lambda * Gu, rhs = ~f * ul;
        vh::P("g_adjoint", K + ".g_adjoint", std::abs(lhs - rhs) / std::max(1.0, std::max(std::abs(lhs), std::abs(rhs))), 1e-10);
    }
    // ---- Pq
    if (mp) {
        Matrix Pq, Pqt; matter.calcPq(s, Pq); matter.calcPqTranspose(s, Pqt);
        double w = 0, wfd = 0;
        for (int j = 0; j < nq; ++j) {
            Vector ej(nq, 0.0); ej[j] = 1; Vector col; matter.multiplyByPq(s, ej, col); Vector pc = Pq(j); w = std::max(w, relErr(col, pc));
            State sp = s, sm = s; sp.updQ()[j] += h; sm.updQ()[j] -= h;
            M.system.realize(sp, Stage::Position); M.system.realize(sm, Stage::Position);
            Vector fd = (ci.c.getPositionErrorsAsVector(sp) - ci.c.getPositionErrorsAsVector(sm)) / (2 * h);
            wfd = std::max(wfd, relErr(fd, pc));
        }
        vh::P("pq_cols", K + ".pq_cols", w, 1e-10);
        Matrix PqtT = ~Pqt;
        // observed outside the property (coordinator's decision: calcPqTranspose is not among the property's operators):
        // calcPqTranspose != ~calcPq when a constrained q is a quaternion component (N*N^+ != 1); counted into the evidence only
        if (!(relErrM(Pq, PqtT) <= 1e-10)) vh::D("obs.pqt_ne_pq_transpose." + T);
        vh::P("pq_fd", lineTree ? std::string("line.pq_fd") : K + ".pq_fd", wfd, 1e-6);
        // Pq N == P (first mp rows of G)
        double wn = 0;
        for (int j = 0; j < nu; ++j) { Vector ej(nu, 0.0); ej[j] = 1; Vector Nej; matter.multiplyByN(s, false, ej, Nej); Vector c = Pq * Nej; Vector gc = G(j)(0, mp); wn = std::max(wn, relErr(c, gc)); }
        vh::P("pq_N_is_P", K + ".pq_N_is_P", wn, 1e-10);
    }
    // ---- bias
    {
        Vector bias; matter.calcBiasForAccelerationConstraints(s, bias);
        Vector z(nu, 0.0), a0; matter.calcConstraintAccelerationErrors(s, z, a0);
        // calcBiasForAccelerationConstraints is documented as aerr at udot=0.  For constraints with constrained q's (key class
        // `qcons`) on mobilizers with qdot != u it is not (it passes qdotdot=0 instead of NDot*u): known finding, single key
        // `qcons.bias_is_aerr0`; every other constraint type keeps its own key and must pass.
        {
            const bool qcons = ci.type == cConstantCoordinate || ci.type == cCoordinateCoupler || ci.type == cPrescribedMotion || ci.type == cCustom;
            vh::P("bias_is_aerr0", qcons ? std::string("qcons.bias_is_aerr0") : K + ".bias_is_aerr0", relErr(bias, a0), 1e-12);
        }
        Vector lin = G * udot + a0;
        vh::P("aerr_affine", K + ".aerr_affine", relErr(lin, e0.pva), 1e-10);
        // [pverr;verr] is affine in u with the same matrix for the holonomic+nonholonomic rows whose V is u-independent;
        // checked only for holonomic rows (P = P(t,q)):  pverr(u) - pverr(0) = P u
        if (mp) {
            State sz = s; sz.updU() = 0; M.system.realize(sz, Stage::Velocity);
            Vector pv0 = ci.c.getVelocityErrorsAsVector(sz)(0, mp);
            Vector Pu = G(0, 0, mp, nu) * s.getU();
            Vector d = e0.pv(0, mp) - pv0;
            vh::P("pverr_affine", K + ".pverr_affine", relErr(d, Pu), 1e-10);
        }
    }
    // ---- virtual work with the constraint's own forces, ancestor-relative velocities
    {
        Vector_<SpatialVec> F; Vector f; ci.c.calcConstraintForcesFromMultipliers(s, lambda, F, f);
        Vector ul = rvector(g, nu), Gu; matter.multiplyByG(s, ul, Gu);
        Vector_<SpatialVec> V_G; matter.multiplyBySystemJacobian(s, ul, V_G);
        double work = 0;
        const int ncb = ci.c.getNumConstrainedBodies();
        if (ncb) {
            const MobilizedBody& A = ci.c.getAncestorMobilizedBody();
            const Rotation& R_GA = A.getBodyRotation(s);
            for (ConstrainedBodyIndex b(0); b < ncb; ++b) {
                MobilizedBodyIndex mbx = ci.c.getMobilizedBodyFromConstrainedBody(b).getMobilizedBodyIndex();
                SpatialVec F_G = R_GA * F[b];
                work += ~F_G * V_G[mbx];       // power of a spatial force at Bo in Ground == ancestor-relative virtual work summed over the pair
            }
        }
        for (ConstrainedUIndex cu(0); cu < f.size(); ++cu) work += f[cu] * ul[ci.c.getUIndexOfConstrainedU(s, cu)];
        double lhs = ~lambda * Gu;
        vh::P("virtual_work", K + ".virtual_work", std::abs(lhs - work) / std::max(1.0, std::max(std::abs(lhs), std::abs(work))), 1e-10);
    }
}

// ancestor + constrained-body kinematics in Ground
static void putAllKin(vh::Line& L, Model& M, const ConsInfo& ci, const Vector_<SpatialVec>& A_G) {
    const State& s = M.state;
    const MobilizedBody& A = ci.c.getAncestorMobilizedBody();
    putKin(L, A.getBodyTransform(s), A.getBodyVelocity(s), A_G[A.getMobilizedBodyIndex()]);
    for (int b : ci.cbodies) {
        const MobilizedBody& B = M.bodies[b];
        putKin(L, B.getBodyTransform(s), B.getBodyVelocity(s), A_G[B.getMobilizedBodyIndex()]);
    }
}

static void modelRecord(Model& M, const ConsInfo& ci, const Vector& udot, const Vector& lambda) {
    const std::string T = consName(ci.type);
    State& s = M.state;
    const SimbodyMatterSubsystem& matter = M.matter;
    M.system.realize(s, Stage::Velocity);
    int mp, mv, ma; ci.c.getNumConstraintEquationsInUse(s, mp, mv, ma);
    Vector_<SpatialVec> A_G; matter.calcBodyAccelerationFromUDot(s, udot, A_G);
    Vector qdd; matter.calcQDotDot(s, udot, qdd);
    Errs e = errorsAt(M, ci, s, udot);
    Vector_<SpatialVec> F; Vector f; ci.c.calcConstraintForcesFromMultipliers(s, lambda, F, f);

    vh::Line L = vh::I(T);
    for (double p : ci.par) L.d(p);
    bool bodyType = !ci.cbodies.empty();
    if (bodyType) putAllKin(L, M, ci, A_G);
    else {
        // mobility-type constraints: per argument (q, qdot, qdotdot) or (u, udot); couplers add f, grad, hess
        const int nArgs = (int)(ci.cq.size() + ci.cu.size());
        Vector x(nArgs), xd(nArgs), xdd(nArgs);
        int k = 0;
        // speeds first (SpeedCoupler argument order), then coordinates
        for (size_t i = 0; i < ci.cu.size(); ++i, ++k) {
            const MobilizedBody& B = M.bodies[ci.cmobs[i]];
            UIndex ux(B.getFirstUIndex(s) + ci.cu[i]);
            x[k] = s.getU()[ux]; xd[k] = udot[ux]; xdd[k] = 0;
        }
        for (size_t i = 0; i < ci.cq.size(); ++i, ++k) {
            const MobilizedBody& B = M.bodies[ci.cmobs[ci.cu.size() + i]];
            QIndex qx(B.getFirstQIndex(s) + ci.cq[i]);
            x[k] = s.getQ()[qx]; xd[k] = s.getQDot()[qx]; xdd[k] = qdd[qx];
        }
        L.i(nArgs);
        // the mobility (u slot) each argument addresses: the implementation accumulates forces per mobility
        for (int i = 0; i < nArgs; ++i) {
            const MobilizedBody& B = M.bodies[ci.cmobs[i]];
            int idx = i < (int)ci.cu.size() ? ci.cu[i] : ci.cq[i - ci.cu.size()];
            L.i((int)B.getFirstUIndex(s) + idx);
        }
        for (int i = 0; i < nArgs; ++i) L.d(x[i]).d(xd[i]).d(xdd[i]);
        if (ci.fn) {
            Vector arg = x;
            if (ci.type == cPrescribedMotion) { arg.resize(1); arg[0] = s.getTime(); }
            L.d(ci.fn->calcValue(arg));
            for (int i = 0; i < ci.fn->n; ++i) L.d(ci.fn->grad(i, arg));
            for (int i = 0; i < ci.fn->n; ++i) for (int j = 0; j < ci.fn->n; ++j) L.d(ci.fn->hess(i, j));
        }
    }
    for (int i = 0; i < lambda.size(); ++i) L.d(lambda[i]);
    if (ci.type == cSpeedCoupler) L.d((double)ci.nSpeedArgs);   // number of leading speed arguments
    L.emit();
    vh::Line O = vh::O(T);
    for (int i = 0; i < e.p.size(); ++i) O.d(e.p[i]);
    for (int i = 0; i < e.pv.size(); ++i) O.d(e.pv[i]);
    for (int i = 0; i < e.pva.size(); ++i) O.d(e.pva[i]);
    for (int b = 0; b < F.size(); ++b) { putV3(O, F[b][0]); putV3(O, F[b][1]); }
    if (!bodyType) {
        // one mobility force per argument that is a constrained mobilizer coordinate/speed (in argument order)
        std::map<int, double> byU;
        for (ConstrainedUIndex cu(0); cu < f.size(); ++cu) byU[(int)ci.c.getUIndexOfConstrainedU(s, cu)] = f[cu];
        size_t nForceArgs = ci.type == cSpeedCoupler ? ci.cu.size() : ci.cmobs.size();
        double listed = 0, total = 0;
        for (auto& kv : byU) total += std::abs(kv.second);
        std::map<int, bool> seen;
        for (size_t i = 0; i < nForceArgs; ++i) {
            const MobilizedBody& B = M.bodies[ci.cmobs[i]];
            int idx = i < ci.cu.size() ? ci.cu[i] : ci.cq[i - ci.cu.size()];
            int ux = (int)B.getFirstUIndex(s) + idx;
            // several arguments may address the same mobility: the implementation accumulates; report the sum once,
            // later duplicates as 0 (the model does the same)
            if (seen[ux]) O.d(0.0); else { O.d(byU.count(ux) ? byU[ux] : 0.0); listed += std::abs(byU.count(ux) ? byU[ux] : 0.0); seen[ux] = true; }
        }
        // everything else must be zero
        vh::P("no_stray_mobility_force", T + ".mobility.stray", std::abs(total - listed), 1e-12);
        O.emit();
    } else O.emit();
    vh::D("model." + T + "." + ci.cls + (bodyType && ci.c.getAncestorMobilizedBody().getMobilizedBodyIndex() != 0 ? ".ancNotGround" : ""));
}

static bool modelled(int t) {
    switch (t) {
    case cRod: case cBall: case cWeld: case cPointInPlane: case cPointOnLine: case cConstantAngle: case cConstantOrientation:
    case cNoSlip1D: case cConstantCoordinate: case cConstantSpeed: case cConstantAcceleration: case cCoordinateCoupler:
    case cSpeedCoupler: case cPrescribedMotion: case cPointOnPlaneContact: return true;
    default: return false;
    }
}

static void oneCase(vh::Rng& g, long caseNo, int type, bool wantModel, bool wantChecks) {
    Model M;
    // mobility-type constraints compared with the model use mobilizers with qdot==u (N = identity) so that
    // q-space forces equal u-space forces; the implementation-only checks use every mobilizer type
    const bool mobilityType = (type == cConstantCoordinate || type == cCoordinateCoupler || type == cPrescribedMotion);
    const bool idN = wantModel && mobilityType;
    buildTree(M, g, 2 + g.below(5), idN ? qdotIsUPalette() : fullPalette());
    ConsInfo ci;
    if (!addConstraint(M, g, type, g.below(4), ci, idN)) return;
    // trees with LineOrientation/FreeLine are always modelled with Euler angles here: in quaternion mode those mobilizers'
    // own q-level kinematics is defective (known findings of C03/C04) which is not C07's subject
    finishTopology(M, g, !idN);
    randomState(M, g);
    M.state.updTime() = g.range(0.0, 2.0);
    M.system.realize(M.state, Stage::Velocity);
    int mp, mv, ma; ci.c.getNumConstraintEquationsInUse(M.state, mp, mv, ma);
    Vector udot = rvector(g, M.state.getNU()), lambda = rvector(g, mp + mv + ma);
    if (std::getenv("CEQ_DEBUG")) {
        std::fprintf(stderr, "case %ld %s euler=%d bodies:", caseNo, consName(type), (int)M.matter.getUseEulerAngles(M.state));
        for (int i = 1; i < M.nb(); ++i) std::fprintf(stderr, " %d:%s<-%d", i, mobName(M.mtype[i]), M.parent[i]);
        std::fprintf(stderr, " | cb:"); for (int b : ci.cbodies) std::fprintf(stderr, " %d", b);
        std::fprintf(stderr, " cm:"); for (int b : ci.cmobs) std::fprintf(stderr, " %d", b);
        std::fprintf(stderr, "\n");
    }
    if (wantModel && modelled(type)) modelRecord(M, ci, udot, lambda);
    if (wantChecks) tagBodies(M);
    if (wantChecks) implChecks(M, ci, g, caseNo, udot, lambda, "violated");
    if (wantChecks && mp + mv > 0) {
        // second input class: the same system projected onto the position and velocity manifolds (any method of
        // producing such a state will do; the predicates are evaluated afresh)
        bool ok = true;
        try { M.system.project(M.state, 1e-11); } catch (const std::exception&) { ok = false; }
        if (ok) {
            M.system.realize(M.state, Stage::Velocity);
            const double ep = mp ? maxAbs(ci.c.getPositionErrorsAsVector(M.state)) : 0.0;
            const double ev = maxAbs(ci.c.getVelocityErrorsAsVector(M.state));
            const double bq = maxAbs(M.state.getQ()), bu = maxAbs(M.state.getU());   // NaN fails every comparison below
            if (nearEulerSingularity(M)) vh::D("skip.onManifold.nearEulerSingularity");
            else if (ep < 1e-9 && ev < 1e-9 && bq < 1e3 && bu < 1e3) implChecks(M, ci, g, caseNo, udot, lambda, "onManifold");
        }
    }
}

int main(int argc, char** argv) {
    vh::Args a(argc, argv);
    if (a.mode == "replay") {
        // an I line identifies (type, case#); cases are regenerated from (seed, case#): I lines carry "seed" implicitly via
        // the corpus file's header line "S <seed> <n>"; without it nothing is replayed.
        // accepted inputs: a case file starting with "S <seed> <n>" (what this harness prints first), or a replay JSON written
        // by the pipeline (contains "seed": <s>): the whole run of that seed is regenerated (cases depend only on seed and index)
        static char buf[1 << 20]; unsigned long long seed = 1; long n = 0;
        while (std::fgets(buf, sizeof buf, stdin)) {
            if (buf[0] == 'S' && buf[1] == ' ') std::sscanf(buf + 1, "%llu %ld", &seed, &n);
            else if (const char* q = std::strstr(buf, "\"seed\":")) { std::sscanf(q + 7, "%llu", &seed); if (n == 0) n = 760; }
        }
        a.seed = seed; a.n = n;
    }
    std::printf("S %llu %ld\n", (unsigned long long)a.seed, a.n);
    for (long k = 0; k < a.n; ++k) {
        vh::Rng g(a.seed * 1000003ull + (uint64_t)k * 7919ull + 17);
        int type = (int)(k % cNumCons);
        const bool mobilityType = (type == cConstantCoordinate || type == cCoordinateCoupler || type == cPrescribedMotion);
        try {
            if (mobilityType) { oneCase(g, k, type, true, false); oneCase(g, k, type, false, true); }
            else oneCase(g, k, type, true, true);
        }
        catch (const std::exception& e) {
            vh::I("chk").s(consName(type)).i(k).emit();
            std::string w = e.what(); for (auto& ch : w) if (ch == ' ' || ch == '\n') ch = '_';
            std::printf("O chk EXC:%s\n", w.substr(0, 200).c_str());
            vh::P("no_exception", std::string(consName(type)) + ".exception", 1, 0);
        }
    }
    return 0;
}
