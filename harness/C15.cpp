// C15 correspondence harness: system mass / mass centre / momentum / central inertia / composite-body inertias
// equal the per-body sums (public API only).
//   I agg <caseSeed> <maxBodies> <flag> <tree export> pos[3nb] V[6nb] A[6nb]
//   O mass | com | comV | comA | inertiaO (Ground-origin inertia, a00 a11 a22 a10 a20 a21) | central | momO | momC | ke
//   O cbi  per body 1..nb: m p(3) G(6) of getCompositeBodyInertia
// P lines: every aggregate recomputed in long double from the per-body public API values in the BODY frames
// (getBodyTransform, getBodyVelocity, getBodyAcceleration, getBodyMassProperties) with parallel-axis shifts.
#include "treedyn_gen.h"
static_assert(TREEDYN_GEN_VERSION == 12, "bump the version here when treedyn_gen.h changes");
using namespace SimTK;
using td::TreeCase;
typedef long double LD;
struct L3 { LD x, y, z; };
static L3 l3(const Vec3& v) { return {v[0], v[1], v[2]}; }
static L3 operator+(L3 a, L3 b) { return {a.x + b.x, a.y + b.y, a.z + b.z}; }
static L3 operator-(L3 a, L3 b) { return {a.x - b.x, a.y - b.y, a.z - b.z}; }
static L3 operator*(LD s, L3 a) { return {s * a.x, s * a.y, s * a.z}; }
static L3 cross(L3 a, L3 b) { return {a.y * b.z - a.z * b.y, a.z * b.x - a.x * b.z, a.x * b.y - a.y * b.x}; }
static LD dot(L3 a, L3 b) { return a.x * b.x + a.y * b.y + a.z * b.z; }
struct LM { LD m[3][3]; };
static LM lzero() { LM r; for (int i = 0; i < 3; ++i) for (int j = 0; j < 3; ++j) r.m[i][j] = 0; return r; }
static LM operator+(LM a, LM b) { LM r; for (int i = 0; i < 3; ++i) for (int j = 0; j < 3; ++j) r.m[i][j] = a.m[i][j] + b.m[i][j]; return r; }
static LM operator-(LM a, LM b) { LM r; for (int i = 0; i < 3; ++i) for (int j = 0; j < 3; ++j) r.m[i][j] = a.m[i][j] - b.m[i][j]; return r; }
static LM scale(LD s, LM a) { LM r; for (int i = 0; i < 3; ++i) for (int j = 0; j < 3; ++j) r.m[i][j] = s * a.m[i][j]; return r; }
static L3 mul(LM a, L3 v) { return {a.m[0][0] * v.x + a.m[0][1] * v.y + a.m[0][2] * v.z, a.m[1][0] * v.x + a.m[1][1] * v.y + a.m[1][2] * v.z, a.m[2][0] * v.x + a.m[2][1] * v.y + a.m[2][2] * v.z}; }
// inertia of a unit point mass at p:  |p|^2 1 - p p'
static LM pointMass(L3 p) { LM r; LD q[3] = {p.x, p.y, p.z}; LD n2 = dot(p, p); for (int i = 0; i < 3; ++i) for (int j = 0; j < 3; ++j) r.m[i][j] = (i == j ? n2 : 0) - q[i] * q[j]; return r; }
// R I R'
static LM rotate(const Rotation& Rot, const SymMat33& I) {
    const Mat33 R = Rot.asMat33();
    LM r = lzero();
    for (int i = 0; i < 3; ++i) for (int j = 0; j < 3; ++j) { LD s = 0; for (int k = 0; k < 3; ++k) for (int l = 0; l < 3; ++l) s += (LD)R(i, k) * (LD)(k >= l ? I(k, l) : I(l, k)) * (LD)R(j, l); r.m[i][j] = s; }
    return r;
}
static double diffSym(const LM& a, const SymMat33& b) { double d = 0; for (int i = 0; i < 3; ++i) for (int j = 0; j <= i; ++j) d = std::max(d, (double)std::fabs(a.m[i][j] - (LD)b(i, j))); return d; }
static double maxSym(const SymMat33& b) { double d = 0; for (int i = 0; i < 3; ++i) for (int j = 0; j <= i; ++j) d = std::max(d, std::fabs(b(i, j))); return d; }
static double d3(L3 a, const Vec3& b) { return (double)std::max(std::fabs(a.x - b[0]), std::max(std::fabs(a.y - b[1]), std::fabs(a.z - b[2]))); }
static double m3(const Vec3& b) { return std::max(std::fabs(b[0]), std::max(std::fabs(b[1]), std::fabs(b[2]))); }
static void osym(vh::Line& o, const SymMat33& S) { o.d(S(0, 0)).d(S(1, 1)).d(S(2, 2)).d(S(1, 0)).d(S(2, 0)).d(S(2, 1)); }

static void runCase(uint64_t caseSeed, int code) {
    td::Options opt; td::applyGenCode(code, opt); opt.zeroUProb = 0.1; opt.allowMassless = true; opt.masslessOneIn = 2;
    std::unique_ptr<TreeCase> pc = td::buildCase(caseSeed, opt);
    TreeCase& c = *pc; State& s = c.state; const SimbodyMatterSubsystem& matter = *c.matter;
    const int nu = c.nu, nb = c.nb;
    vh::Rng& g = c.g;
    const Vector f = td::rvector(g, nu) * 3.0;
    Vector_<SpatialVec> F(nb + 1);
    for (int i = 0; i <= nb; ++i) F[i] = SpatialVec(td::rvec(g, 2.0), td::rvec(g, 2.0));
    c.discrete.setAllMobilityForces(s, f); c.discrete.setAllBodyForces(s, F);
    c.sys->realize(s, Stage::Acceleration);

    vh::Line in = vh::I("agg"); in.s(std::to_string(caseSeed)).i(code).i(0);
    td::exportTree(c, in);
    for (int i = 1; i <= nb; ++i) in.v(c.mobods[i].getBodyOriginLocation(s), 3);
    for (int i = 1; i <= nb; ++i) { const SpatialVec& V = c.mobods[i].getBodyVelocity(s); in.v(V[0], 3).v(V[1], 3); }
    for (int i = 1; i <= nb; ++i) { const SpatialVec& A = c.mobods[i].getBodyAcceleration(s); in.v(A[0], 3).v(A[1], 3); }
    in.emit();

    const Real mass = matter.calcSystemMass(s);
    const Vec3 com = matter.calcSystemMassCenterLocationInGround(s);
    const Vec3 comV = matter.calcSystemMassCenterVelocityInGround(s);
    const Vec3 comA = matter.calcSystemMassCenterAccelerationInGround(s);
    const MassProperties mp = matter.calcSystemMassPropertiesInGround(s);
    const Inertia central = matter.calcSystemCentralInertiaInGround(s);
    const SpatialVec momO = matter.calcSystemMomentumAboutGroundOrigin(s);
    const SpatialVec momC = matter.calcSystemCentralMomentum(s);
    const Real ke = matter.calcKineticEnergy(s);
    vh::O("mass").d(mass).emit();
    vh::O("com").v(com, 3).emit();
    vh::O("comV").v(comV, 3).emit();
    vh::O("comA").v(comA, 3).emit();
    { vh::Line o = vh::O("inertiaO"); osym(o, mp.calcInertia().asSymMat33()); o.emit(); }
    { vh::Line o = vh::O("central"); osym(o, central.asSymMat33()); o.emit(); }
    vh::O("momO").v(momO[0], 3).v(momO[1], 3).emit();
    vh::O("momC").v(momC[0], 3).v(momC[1], 3).emit();
    vh::O("ke").d(ke).emit();
    {
        vh::Line o = vh::O("cbi");
        for (int i = 1; i <= nb; ++i) {
            const SpatialInertia& R = matter.getCompositeBodyInertia(s, MobilizedBodyIndex(i));
            o.d(R.getMass()).v(R.getMassCenter(), 3); osym(o, R.getUnitInertia().asSymMat33());
        }
        o.emit();
    }
    td::emitTags(c);

    // ---- per-body sums from body-frame API values, in long double
    const std::string key = td::anyLoneParticle(c) ? "C15.loneparticle" : "C15.tree";
    // summation bounds scale with the number of terms: 8 n eps (a reordered / pairwise / fused sum stays inside)
    const double nEps = 8.0 * (nb + 2) * 2.220446049250313e-16;
    {   // with a massless intermediate body every aggregate must stay finite
        bool fin = std::isfinite(mass) && std::isfinite(ke);
        for (int k = 0; k < 3; ++k) fin = fin && std::isfinite(com[k]) && std::isfinite(comV[k]) && std::isfinite(comA[k]) && std::isfinite(momO[0][k]) && std::isfinite(momC[0][k]);
        for (int i = 1; i <= nb; ++i) { const SpatialInertia& R = matter.getCompositeBodyInertia(s, MobilizedBodyIndex(i)); fin = fin && std::isfinite(R.getMass()) && std::isfinite(R.getMassCenter()[0]) && std::isfinite(R.getUnitInertia().asSymMat33()(0, 0)); }
        vh::P("aggregates_finite", key + ".finite", fin ? 0 : 1, 0);
    }
    LD M = 0; L3 sr = {0, 0, 0}, sv = {0, 0, 0}, sa = {0, 0, 0}, L = {0, 0, 0}, P = {0, 0, 0}; LM IO = lzero(); LD KE = 0;
    std::vector<L3> rc(nb + 1), vc(nb + 1); std::vector<LM> Ic(nb + 1); std::vector<LD> mk(nb + 1);
    for (int i = 1; i <= nb; ++i) {
        const MobilizedBody& mb = c.mobods[i];
        const MassProperties& bp = mb.getBodyMassProperties(s);
        const Transform& X = mb.getBodyTransform(s);
        const SpatialVec& V = mb.getBodyVelocity(s); const SpatialVec& A = mb.getBodyAcceleration(s);
        const LD m = bp.getMass();
        const Vec3 rB = X.R() * bp.getMassCenter();                 // com offset in Ground
        const L3 r = l3(rB), w = l3(V[0]), al = l3(A[0]);
        const L3 rcom = l3(X.p()) + r;
        const L3 vcom = l3(V[1]) + cross(w, r);
        const L3 acom = l3(A[1]) + cross(al, r) + cross(w, cross(w, r));
        // central inertia in Ground:  R (m G_B) R' - m pointMass(r)
        const LM IcG = scale(m, rotate(X.R(), bp.getUnitInertia().asSymMat33())) - scale(m, pointMass(r));
        M += m; sr = sr + m * rcom; sv = sv + m * vcom; sa = sa + m * acom;
        IO = IO + IcG + scale(m, pointMass(rcom));
        L = L + mul(IcG, w) + cross(rcom, m * vcom); P = P + m * vcom;
        KE += 0.5L * (dot(w, mul(IcG, w)) + m * dot(vcom, vcom));
        rc[i] = rcom; vc[i] = vcom; Ic[i] = IcG; mk[i] = m;
    }
    const L3 C = (1 / M) * sr, CV = (1 / M) * sv, CA = (1 / M) * sa;
    vh::P("mass_is_sum", key + ".mass", std::fabs((double)(M - mass)) / mass, nEps);
    vh::P("com_is_weighted_sum", key + ".com", d3(C, com) / std::max(1.0, m3(com)), 4 * nEps);
    vh::P("com_velocity_is_weighted_sum", key + ".comV", d3(CV, comV) / std::max(1.0, m3(comV)), 4 * nEps);
    vh::P("com_acceleration_is_weighted_sum", key + ".comA", d3(CA, comA) / std::max(1.0, m3(comA)), 16 * nEps);
    vh::P("origin_inertia_is_sum", key + ".inertiaO", diffSym(IO, mp.calcInertia().asSymMat33()) / std::max(1.0, maxSym(mp.calcInertia().asSymMat33())), 8 * nEps);
    const LM IC = IO - scale(M, pointMass(C));
    vh::P("central_inertia_is_sum", key + ".central", diffSym(IC, central.asSymMat33()) / std::max(1.0, maxSym(mp.calcInertia().asSymMat33())), 32 * nEps);
    vh::P("momentum_about_origin_is_sum", key + ".momO", std::max(d3(L, momO[0]), d3(P, momO[1])) / std::max(1.0, std::max(m3(momO[0]), m3(momO[1]))), 8 * nEps);
    const L3 LC = L - cross(C, P);
    vh::P("central_momentum_is_sum", key + ".momC", std::max(d3(LC, momC[0]), d3(P, momC[1])) / std::max(1.0, std::max(m3(momO[0]), m3(momC[1]))), 32 * nEps);
    {   // linear momentum = total mass * mass-centre velocity (implementation's own numbers)
        const Vec3 mv = mass * comV;
        vh::P("linear_momentum_is_M_vcom", key + ".MV", (mv - momO[1]).norm() / std::max(1.0, momO[1].norm()), 8 * nEps);
    }
    vh::P("kinetic_energy_is_sum", key + ".ke", std::fabs((double)(KE - ke)) / std::max(1.0, std::fabs(ke)), 8 * nEps);
    {   // composite body inertia of body i = bodies of its subtree, about Bo_i
        double worst = 0;
        for (int i = 1; i <= nb; ++i) {
            std::vector<char> inSub(nb + 1, 0); inSub[i] = 1;
            for (int k = i + 1; k <= nb; ++k) if (inSub[c.parentOf[k]]) inSub[k] = 1;   // parents precede children
            LD m = 0; L3 mr = {0, 0, 0}; LM I = lzero();
            const L3 o = l3(c.mobods[i].getBodyOriginLocation(s));
            for (int k = i; k <= nb; ++k) if (inSub[k]) { m += mk[k]; mr = mr + mk[k] * (rc[k] - o); I = I + Ic[k] + scale(mk[k], pointMass(rc[k] - o)); }
            const SpatialInertia& R = matter.getCompositeBodyInertia(s, MobilizedBodyIndex(i));
            worst = std::max(worst, std::fabs((double)(m - R.getMass())) / (double)m);
            worst = std::max(worst, d3((1 / m) * mr, R.getMassCenter()) / std::max(1.0, m3(R.getMassCenter())));
            const SymMat33 RI = R.calcInertia().asSymMat33();
            worst = std::max(worst, diffSym(I, RI) / std::max(1.0, maxSym(RI)));
        }
        vh::P("composite_inertia_is_subtree_sum", key + ".cbi", worst, 64 * nEps);
    }
}

int main(int argc, char** argv) {
    vh::Args args(argc, argv);
    if (args.mode == "replay") {
        static char buf[1 << 24];
        while (std::fgets(buf, sizeof buf, stdin)) {
            if (std::strncmp(buf, "I agg ", 6) != 0) continue;
            unsigned long long cs; int code;
            if (std::sscanf(buf + 6, "%llu %d", &cs, &code) == 2) runCase(cs, code);
        }
        return 0;
    }
    vh::Rng master(args.seed * 1000003ull + 1515);
    const bool thorough = args.n > 2000;
    for (long k = 0; k < args.n; ++k) {
        const uint64_t cs = master.next() >> 1;
        int maxB = 12;
        if (thorough && master.below(5) == 0) maxB = 40;
        runCase(cs, td::genCode(maxB, td::flagsForCase(k)));
    }
    return 0;
}
