// C22 translator helper: prints the truth tables of the header-inline event classification functions of the CURRENT tree
// (Event::classifyTransition, Event::maskTransition, EventTriggerInfo::calcTransitionMask / calcTransitionToReport) over their
// whole finite domain.  checks/C22.py turns the output into lean/SimbodyModel/Gen/EventTables.lean on every run.
#include "SimTKcommon.h"
#include <cstdio>
using namespace SimTK;
int main() {
    for (int b = -1; b <= 1; ++b) for (int a = -1; a <= 1; ++a)
        std::printf("classify %d %d %d\n", b, a, (int)Event::classifyTransition(b, a));
    for (int t = 0; t <= 3; ++t) for (int m = 0; m <= 3; ++m)
        std::printf("mask %d %d %d\n", t, m, (int)Event::maskTransition(Event::Trigger(t), Event::Trigger(m)));
    for (int r = 0; r <= 1; ++r) for (int f = 0; f <= 1; ++f) {
        EventTriggerInfo info; info.setTriggerOnRisingSignTransition(r != 0); info.setTriggerOnFallingSignTransition(f != 0);
        std::printf("flags %d %d %d\n", r, f, (int)info.calcTransitionMask());
    }
    { EventTriggerInfo info;   // defaults
      std::printf("defaults %d %d %.17g\n", (int)info.shouldTriggerOnRisingSignTransition(), (int)info.shouldTriggerOnFallingSignTransition(),
                  (double)info.getRequiredLocalizationTimeWindow()); }
    for (int t = 1; t <= 3; ++t) {
        EventTriggerInfo info;
        std::printf("report %d %d\n", t, (int)info.calcTransitionToReport(Event::Trigger(t)));
    }
    std::printf("enum %d %d %d %d %d %d\n", (int)Event::NoEventTrigger, (int)Event::PositiveToNegative, (int)Event::NegativeToPositive,
                (int)Event::Falling, (int)Event::Rising, (int)Event::AnySignChange);
    return 0;
}
