// C19 correspondence harness: the step / report / final-time contract of Integrator::stepTo.
//
// One record = one *session*: a small MultibodySystem (1-dof oscillator or 2-link pendulum, optional
// witness functions), one integrator, one set of options, and a random LEGAL sequence of requests.
//
//   I sess <integ> <t0> <final|-> <retEvery> <stepLimit> <allowInterp> <sys...> | <op> <op> ...
//        op =  s <report> <sched> <nSteps> <tAdvAfter> <ev> <tLow>     one stepTo call; the last four tokens are the
//                                                 ORACLE data the implementation exhibited (how many internal
//                                                 steps takeOneStep took in this call, where the advanced state
//                                                 ended, whether the last internal step ended in an event and
//                                                 the window low end) -- all recovered through the PUBLIC API
//                                                 (getNumStepsTaken, getAdvancedTime, later getEventWindow)
//              r <lowered> <terminate>            Integrator::reinitialize(stage, terminate) after an event-type return
//   O c <status> <time> <tAdv> <interp> <over>    what the implementation returned / exposes after the call
//   O c EXC                                       the call threw (only legal after EndOfSimulation / termination)
//   O r <time> <tAdv> <interp> <over>             after a reinitialize
//   P ...                                         the property's predicates on the implementation's own outputs
//
// The Lean driver (Drivers/C19.lean) replays the status machine of SimbodyModel/C19.lean with the logged
// oracle and must reproduce every O line exactly (AbstractIntegratorRep family).  CPodes has its own
// stepTo; for it the driver checks the contract predicates only (O lines are answered by `O c -`).
#include "Simbody.h"
#include "hcommon.h"
#include <memory>
#include <iostream>
using namespace SimTK;
using vh::hex;

static const char* INTEG_NAMES[] = {"RungeKuttaMerson", "RungeKuttaFeldberg", "RungeKutta3", "RungeKutta2", "Verlet",
                                    "ExplicitEuler", "SemiExplicitEuler", "SemiExplicitEuler2", "CPodesBDF", "CPodesAdams"};
static const int NINTEG = 10;

// ------------------------------------------------------------------ witness functions
struct WSpec { int kind; double a, b; int mask; };   // kind 0: t-a   1: sin(a t + b)   2: q0 - a   3: (t-a)(t-b)
class Witness : public TriggeredEventHandler {
public:
    WSpec w;
    explicit Witness(const WSpec& ws) : TriggeredEventHandler(ws.kind == 2 ? Stage::Position : Stage::Time), w(ws) {
        getTriggerInfo().setTriggerOnRisingSignTransition((ws.mask & 2) != 0);
        getTriggerInfo().setTriggerOnFallingSignTransition((ws.mask & 1) != 0);
    }
    Real getValue(const State& s) const override {
        const Real t = s.getTime();
        switch (w.kind) {
            case 0: return t - w.a;
            case 1: return std::sin(w.a * t + w.b);
            case 2: return s.getQ()[0] - w.a;
            default: return (t - w.a) * (t - w.b);
        }
    }
    void handleEvent(State&, Real, bool&) const override {}
};

struct Session {
    int integ = 0; double t0 = 0; bool hasFinal = false; double fin = 0; bool retEvery = false; int stepLimit = 0;
    int allowInterp = -1;            // -1 not set, 0 false, 1 true
    double fixedStep = -1, acc = -1; // -1 = default
    int sysKind = 0; double k = 1, q0 = 1, u0 = 0;
    std::vector<WSpec> ws;
    bool directed = false;           // produced by the directed generator (selects the predicate key class)
};
struct Op { char kind; double report = 0, sched = 0; int lowered = 0, terminate = 0; bool viaStepBy = false; double iv = 0, lim = 0; bool replayed = false; };

struct Built {
    MultibodySystem system; SimbodyMatterSubsystem matter; GeneralForceSubsystem forces;
    std::unique_ptr<Integrator> integ;
    Built() : matter(system), forces(system) {}
};

static void buildSystem(const Session& S, Built& B) {
    Body::Rigid body(MassProperties(1.0, Vec3(0), Inertia(1)));
    if (S.sysKind == 0) {
        MobilizedBody::Slider sl(B.matter.Ground(), Transform(), body, Transform());
        Force::MobilityLinearSpring(B.forces, sl, MobilizerUIndex(0), S.k, 0.0);
    } else {
        Force::UniformGravity(B.forces, B.matter, Vec3(0, -S.k, 0));
        MobilizedBody::Pin p1(B.matter.Ground(), Transform(), body, Transform(Vec3(0, 1, 0)));
        MobilizedBody::Pin p2(p1, Transform(), body, Transform(Vec3(0, 1, 0)));
    }
    for (auto& w : S.ws) B.system.addEventHandler(new Witness(w));
}
static Integrator* makeInteg(int which, const System& sys) {
    switch (which) {
        case 0: return new RungeKuttaMersonIntegrator(sys);
        case 1: return new RungeKuttaFeldbergIntegrator(sys);
        case 2: return new RungeKutta3Integrator(sys);
        case 3: return new RungeKutta2Integrator(sys);
        case 4: return new VerletIntegrator(sys);
        case 5: return new ExplicitEulerIntegrator(sys);
        case 6: return new SemiExplicitEulerIntegrator(sys, 0.01);
        case 7: return new SemiExplicitEuler2Integrator(sys);
        case 8: return new CPodesIntegrator(sys, CPodes::BDF);
        default: return new CPodesIntegrator(sys, CPodes::Adams);
    }
}

struct CallLog {
    Op op; bool exc = false; int status = 0; double time = 0, tAdv = 0; bool interp = false, over = false;
    int nSteps = 0; int ev = -1; double tLow = 0;   // ev: -1 unknown yet
    bool hasWindow = false; double wLow = 0, wHigh = 0;
    double timeBefore = 0, tAdvBefore = 0;
};

static const double Inf = Infinity;

// Runs a session.  If `ops` is non-null they are replayed verbatim, otherwise generated from rng.
static void runSession(const Session& S, vh::Rng* rng, const std::vector<Op>* ops, int ncalls) {
    const bool directed = S.directed;
    Built B;
    buildSystem(S, B);
    State state = B.system.realizeTopology();
    state.updTime() = S.t0;
    state.updQ()[0] = S.q0; state.updU()[0] = S.u0;
    B.integ.reset(makeInteg(S.integ, B.system));
    Integrator& integ = *B.integ;
    if (S.hasFinal) integ.setFinalTime(S.fin);
    if (S.retEvery) integ.setReturnEveryInternalStep(true);
    if (S.stepLimit > 0) integ.setInternalStepLimit(S.stepLimit);
    if (S.allowInterp >= 0) integ.setAllowInterpolation(S.allowInterp == 1);
    if (S.acc > 0) integ.setAccuracy(S.acc);
    if (S.fixedStep > 0 && S.integ != 6) integ.setFixedStepSize(S.fixedStep);
    integ.initialize(state);
    const bool isCPodes = S.integ >= 8;
    const double fin = S.hasFinal ? S.fin : Inf;

    std::vector<CallLog> log;
    bool dead = false;          // EndOfSimulation returned or termination requested: next stepTo must be refused
    bool done = false;
    int lastStatus = 0;
    size_t ip = 0;
    int guard = 0;
    while (!done && guard++ < 400) {
        Op op;
        const double tNow = integ.getTime(), tAdv = integ.getAdvancedTime();
        if (ops) {
            if (ip >= ops->size()) break;
            op = (*ops)[ip++];
        } else {
            if ((int)log.size() >= ncalls) break;
            // after an event-type return, sometimes behave like the TimeStepper: reinitialize
            const bool evType = !dead && (lastStatus == Integrator::ReachedEventTrigger || lastStatus == Integrator::ReachedScheduledEvent
                                 || lastStatus == Integrator::TimeHasAdvanced);
            if (evType && !log.empty() && log.back().op.kind == 's' && rng->below(3) == 0) {
                op.kind = 'r'; op.lowered = rng->below(3) != 0; op.terminate = rng->below(12) == 0;
            } else {
                op.kind = 's';
                // ---- legal request: report >= time, sched >= max(time, advanced time)
                const double lo = tNow, loS = std::max(tNow, tAdv);
                double dt = (rng->below(4) == 0) ? rng->range(0.001, 0.02) : rng->range(0.02, 0.6);
                switch (rng->below(12)) {
                    case 0: op.report = lo; break;                       // report right now
                    case 1: op.report = tAdv >= lo ? tAdv : lo; break;     // exactly the advanced time
                    case 2: op.report = (tAdv > lo) ? lo + (tAdv - lo) * rng->unit() : lo + dt; break;   // inside the last step
                    case 3: op.report = S.hasFinal && fin >= lo ? fin : lo + dt; break;   // exactly the final time
                    case 4: op.report = S.hasFinal ? std::max(lo, fin) + dt : Inf; break;   // beyond the final time / infinity
                    default: op.report = lo + dt;
                }
                int schedCase = rng->below(10);
                if (tAdv > tNow && rng->below(4) == 0) {
                    // the state handed out is an interpolated one: schedule a time BEHIND the advanced state (the asserts allow it)
                    op.sched = tNow + (tAdv - tNow) * rng->unit();
                    if (rng->below(3) != 0) op.report = tNow + (op.sched - tNow) * (rng->coin() ? 1.0 : rng->unit());  // as TimeStepper::stepTo(t): report <= sched
                    else op.report = tAdv + dt;                                                                      // direct API: report beyond the advanced time
                    schedCase = -1;
                }
                switch (schedCase) {
                    case -1: break;
                    case 0: op.sched = loS; break;                       // scheduled right at the advanced time
                    case 1: op.sched = std::max(loS, op.report); break;  // coincident with the report time
                    case 2: op.sched = S.hasFinal ? std::max(loS, fin) : loS + dt; break;   // coincident with final
                    case 3: case 4: case 5: op.sched = loS + rng->range(0.001, 0.8); break;
                    default: op.sched = Inf;
                }
                // an infinite report time is only legal here if something else bounds the call
                if (!std::isfinite(op.report) && !std::isfinite(op.sched) && !S.hasFinal && !S.retEvery && S.stepLimit == 0)
                    op.report = lo + dt;
                if (isCPodes && !std::isfinite(op.report)) op.report = lo + dt;   // CPODES needs a finite tout
                op.viaStepBy = rng->below(8) == 0 && std::isfinite(op.report) && std::isfinite(op.sched);
                if (schedCase == -1) op.viaStepBy = false;
                if (op.viaStepBy) {   // stepBy(interval, limit) == stepTo(t+interval, t+limit): log what stepBy will compute
                    op.iv = op.report - tNow; op.lim = op.sched - tNow;
                    const double r2 = tNow + op.iv, s2 = tNow + op.lim;
                    if (r2 >= lo && s2 >= loS) { op.report = r2; op.sched = s2; } else op.viaStepBy = false;
                }
            }
        }
        CallLog c; c.op = op; c.timeBefore = tNow; c.tAdvBefore = tAdv;
        if (op.kind == 'r') {
            if (op.lowered) integ.updAdvancedState().updU()[0] *= 0.5;   // a real discontinuous change, as a handler would make
            integ.reinitialize(op.lowered ? Stage::Velocity : Stage::Report, op.terminate != 0);
            if (op.terminate) dead = true;
            c.time = integ.getTime(); c.tAdv = integ.getAdvancedTime(); c.interp = integ.isStateInterpolated();
            c.over = integ.isSimulationOver();
            lastStatus = 0;
            log.push_back(c);
            continue;
        }
        const int stepsBefore = integ.getNumStepsTaken();
        try {
            Integrator::SuccessfulStepStatus st;
            if (op.viaStepBy && !op.replayed) st = integ.stepBy(op.iv, op.lim);
            else st = integ.stepTo(op.report, op.sched);
            c.status = (int)st;
        } catch (const std::exception& e) {
            c.exc = true;
            if (!dead) std::fprintf(stderr, "unexpected exception: %s\n", e.what());
        }
        c.nSteps = integ.getNumStepsTaken() - stepsBefore;
        c.time = integ.getTime(); c.tAdv = integ.getAdvancedTime(); c.interp = integ.isStateInterpolated();
        c.over = integ.isSimulationOver();
        if (!c.exc && c.status == Integrator::ReachedEventTrigger) {
            Vec2 w = integ.getEventWindow(); c.hasWindow = true; c.wLow = w[0]; c.wHigh = w[1];
        }
        lastStatus = c.exc ? 0 : c.status;
        log.push_back(c);
        if (c.exc) { done = true; break; }
        if (dead) { done = true; break; }    // the refused call has been made
        if (c.status == Integrator::EndOfSimulation) dead = true;   // make exactly one more (refused) call
    }
    // flush: reveal a pending (not yet reported) event of the last internal step so the oracle data are complete
    if (!ops && !dead && !log.empty() && !isCPodes) {
        const CallLog& l = log.back();
        if (l.op.kind == 's' && !l.exc && l.status == Integrator::ReachedReportTime && l.interp) {
            Op op; op.kind = 's'; op.report = integ.getAdvancedTime(); op.sched = Inf;
            CallLog c; c.op = op; c.timeBefore = integ.getTime(); c.tAdvBefore = integ.getAdvancedTime();
            const int sb = integ.getNumStepsTaken();
            try { c.status = (int)integ.stepTo(op.report, op.sched); } catch (const std::exception&) { c.exc = true; }
            c.nSteps = integ.getNumStepsTaken() - sb;
            c.time = integ.getTime(); c.tAdv = integ.getAdvancedTime(); c.interp = integ.isStateInterpolated();
            c.over = integ.isSimulationOver();
            if (!c.exc && c.status == Integrator::ReachedEventTrigger) {
                Vec2 w = integ.getEventWindow(); c.hasWindow = true; c.wLow = w[0]; c.wHigh = w[1];
            }
            log.push_back(c);
        }
    }
    // ---- back-fill the oracle data: did the last internal step of a call end in an event?
    for (size_t i = 0; i < log.size(); ++i) {
        CallLog& c = log[i];
        if (c.op.kind != 's' || c.exc || c.nSteps == 0) { c.ev = 0; continue; }
        if (c.status == Integrator::ReachedEventTrigger) { c.ev = 1; c.tLow = c.wLow; continue; }
        if (c.status != Integrator::ReachedReportTime || !c.interp) { c.ev = 0; continue; }
        // interpolated report after a fresh step: the event (if any) shows up in a later call that takes no step
        c.ev = 0;
        for (size_t j = i + 1; j < log.size(); ++j) {
            const CallLog& d = log[j];
            if (d.op.kind != 's' || d.exc || d.nSteps != 0) break;
            if (d.status == Integrator::ReachedEventTrigger) { c.ev = 1; c.tLow = d.wLow; break; }
            if (!(d.status == Integrator::ReachedReportTime && d.interp)) break;
        }
    }
    // ---- emit the record
    {
        vh::Line L = vh::I("sess");
        L.s(INTEG_NAMES[S.integ]).d(S.t0);
        if (S.hasFinal) L.d(S.fin); else L.s("-");
        L.i(S.retEvery).i(S.stepLimit).i(S.allowInterp);
        L.d(S.fixedStep).d(S.acc).i(S.sysKind).d(S.k).d(S.q0).d(S.u0).i((long long)S.ws.size());
        for (auto& w : S.ws) L.i(w.kind).d(w.a).d(w.b).i(w.mask);
        L.s("dir").i(S.directed).s("|");
        for (auto& c : log) {
            if (c.op.kind == 'r') L.s("r").i(c.op.lowered).i(c.op.terminate);
            else L.s(c.op.viaStepBy ? "b" : "s").d(c.op.report).d(c.op.sched).i(c.nSteps).d(c.tAdv).i(c.ev).d(c.ev == 1 ? c.tLow : 0.0);
        }
        L.emit();
    }
    const std::string nm = INTEG_NAMES[S.integ];
    // predicate keys: <family>.stepTo.<inputclass>.<pred>; the two CPodes variants share CPodesIntegratorRep::stepTo
    // history class (CPodes only): a scheduled event exactly at the final time whose handler changed the state
    bool schedAtFinalReinit = false;
    for (size_t i = 0; i + 1 < log.size(); ++i)
        if (isCPodes && S.hasFinal && log[i].op.kind == 's' && !log[i].exc && log[i].status == Integrator::ReachedScheduledEvent
            && log[i].time == fin && log[i + 1].op.kind == 'r' && log[i + 1].op.lowered) schedAtFinalReinit = true;
    // history class: a scheduled time behind the advanced state together with a report time beyond it (direct API use that
    // violates the extra legality condition of the model, see `legalReq`)
    bool schedBehind = false;
    for (auto& c : log) if (c.op.kind == 's' && c.op.sched < c.tAdvBefore && c.op.report > c.op.sched) schedBehind = true;
    for (auto& c : log) if (c.op.kind == 's' && c.op.sched < c.tAdvBefore && c.op.report <= c.op.sched) vh::D(nm + ".path.sched_behind_advanced_benign");
    const std::string cls = (S.hasFinal && S.fin == S.t0) ? "finalAtStart" : (schedBehind && !isCPodes) ? "schedBehindAdvanced"
                            : S.allowInterp == 0 ? "noInterp"
                            : S.retEvery ? "retEvery" : schedAtFinalReinit ? "schedAtFinalReinit"
                            : schedBehind ? "schedBehindAdvanced" : "plain";
    const std::string fam = isCPodes ? "CPodes" : (directed || schedBehind) ? "AbstractIntegratorRep" : nm;
    const std::string kp = fam + ".stepTo." + ((directed && !isCPodes) ? "directed" : cls) + ".";
    double worstPending = 0, worstMono = 0, worstAdv = 0, worstExact = 0, worstWin = 0, worstEos = 0, worstRefuse = 0, worstRepWin = 0, worstLaterRepWin = 0;
    int nEos = 0; bool eosSeen = false;
    double prevTime = S.t0;
    if (isCPodes) vh::O("cp").i((long long)log.size()).emit();
    size_t idx = 0;
    for (auto& c : log) {
        ++idx;
        if (c.op.kind == 'r') {
            if (!isCPodes) vh::O("r").d(c.time).d(c.tAdv).i(c.interp).i(c.over).emit();
            else std::printf("# cp r %.17g %.17g %d %d\n", c.time, c.tAdv, (int)c.interp, (int)c.over);
            worstMono = std::max(worstMono, prevTime - c.time);
            prevTime = c.time;
            vh::D(nm + ".reinit");
            continue;
        }
        if (c.exc) {
            if (!isCPodes) vh::O("c").s("EXC").emit(); else std::printf("# cp EXC\n");
            // legal as the refusal after EndOfSimulation / requested termination; anything else is an unexpected
            // failure of a legal request (for the modelled family the model then disagrees; for CPodes it is counted)
            vh::D(nm + ((eosSeen || c.over) ? ".refused" : ".unexpected_exception." + cls));
            continue;
        }
        if (!isCPodes) vh::O("c").i(c.status).d(c.time).d(c.tAdv).i(c.interp).i(c.over).emit();
        else std::printf("# cp %d %.17g %.17g %d %d\n", c.status, c.time, c.tAdv, (int)c.interp, (int)c.over);
        vh::D(nm + ".status" + std::to_string(c.status) + (c.interp ? "i" : ""));
        if (c.nSteps >= 2) vh::D(nm + ".path.multistep");
        if (c.ev == 1 && c.status != Integrator::ReachedEventTrigger) vh::D(nm + ".path.event_hidden_behind_report");
        if (c.status == Integrator::ReachedReportTime && c.time != c.op.report) vh::D(nm + ".path.report_status_at_final");
        if (eosSeen) worstRefuse = 1;    // a call after EndOfSimulation returned normally instead of being refused
        const double pend = std::min(c.op.report, std::min(c.op.sched, fin));
        worstPending = std::max(worstPending, c.time - pend);
        worstMono = std::max(worstMono, prevTime - c.time);
        // the advanced state must not MOVE past the scheduled / final time (it may already be beyond a scheduled time the caller
        // placed behind it)
        if (c.tAdv != c.tAdvBefore) worstAdv = std::max(worstAdv, c.tAdv - std::min(c.op.sched, fin));
        else worstAdv = std::max(worstAdv, c.tAdv - fin);
        worstAdv = std::max(worstAdv, c.time - c.tAdv);
        if (c.status == Integrator::ReachedReportTime) worstExact = std::max(worstExact, std::fabs(c.time - std::min(c.op.report, fin)));
        if (c.status == Integrator::ReachedScheduledEvent) worstExact = std::max(worstExact, std::fabs(c.time - c.op.sched));
        if (c.status == Integrator::EndOfSimulation) {
            ++nEos; eosSeen = true;
            worstEos = std::max(worstEos, S.hasFinal ? std::fabs(c.time - fin) : 1.0);
            if (!c.over) worstEos = 1;
        }
        if (c.hasWindow) {
            if ((c.wLow < c.op.sched && c.op.sched < c.wHigh) || (c.wLow < fin && fin < c.wHigh)) worstWin = 1;
            if (!(c.wLow < c.wHigh) || c.time != c.wLow || c.tAdv != c.wHigh) worstWin = std::max(worstWin, 2.0);
            if (c.wLow < c.op.report && c.op.report < c.wHigh) { if (c.nSteps >= 1) worstRepWin = 1; else worstLaterRepWin = 1; }
        }
        prevTime = c.time;
    }
    if (nEos > 1) worstEos = 1;
    // CPODES computes its own output times: allow rounding-level slack there (the modelled family is compared exactly)
    const double cpSlack = isCPodes ? 1e-12 * std::max(1.0, std::fabs(prevTime)) : 0.0;
    vh::P("returned_time_le_pending", kp + "le_pending", worstPending, cpSlack);
    vh::P("time_monotone", kp + "monotone", worstMono, 0);
    vh::P("advanced_never_passes_sched_or_final", kp + "advanced_le_limits", worstAdv, cpSlack);
    vh::P("stop_is_exact", kp + "exact_stop", worstExact, 0);
    vh::P("eos_once_at_final", kp + "eos", worstEos, 0);
    vh::P("refused_after_eos", kp + "refused", worstRefuse, 0);
    vh::P("no_sched_or_final_inside_event_window", kp + "window", worstWin, 0);
    if (directed && !isCPodes) vh::P("no_report_inside_event_window", kp + "report_in_window", std::max(worstRepWin, worstLaterRepWin), 0);
    else {
        vh::P("no_report_inside_event_window", kp + "report_in_window", worstRepWin, 0);    // report time of the call that took the step (proved)
        if (worstLaterRepWin > 0)                                                             // a later call's report time: the known finding
            vh::P("no_report_inside_event_window", std::string(isCPodes ? "CPodes" : "AbstractIntegratorRep") + ".stepTo.directed.report_in_window", worstLaterRepWin, 0);
    }
}

static Session randomSession(vh::Rng& r, int integ) {
    Session S; S.integ = integ;
    S.t0 = r.below(3) == 0 ? r.range(0.0, 2.0) : 0.0;
    S.hasFinal = r.below(2) == 0;
    if (S.hasFinal) S.fin = S.t0 + (r.below(6) == 0 ? 0.0 : r.range(0.05, 3.0));
    S.retEvery = r.below(4) == 0;
    S.stepLimit = r.below(4) == 0 ? 1 + r.below(4) : 0;
    S.allowInterp = r.below(4) == 0 ? 0 : (r.below(3) == 0 ? 1 : -1);
    S.fixedStep = r.below(3) == 0 ? r.range(0.005, 0.2) : -1;
    S.acc = r.below(2) == 0 ? std::pow(10.0, -r.range(1.5, 6.0)) : -1;
    S.sysKind = r.below(4) == 0 ? 1 : 0;
    if (integ >= 8) S.fixedStep = -1;      // CPODES cannot run with min step == max step (cpodes->step() fails): option not supported
    S.k = r.range(0.5, 20.0); S.q0 = r.signedMag(0.2, 1.5); S.u0 = r.range(-1, 1);
    int nw = r.below(3) == 0 ? 0 : 1 + r.below(3);
    for (int i = 0; i < nw; ++i) {
        WSpec w; w.kind = r.below(4);
        w.mask = 1 + r.below(3);
        if (w.kind == 0) { w.a = S.t0 + r.range(0.01, 2.5); w.b = 0; }
        else if (w.kind == 1) { w.a = r.range(1.0, 9.0); w.b = r.range(0.3, 2.8); }
        else if (w.kind == 2) { w.a = r.range(-0.15, 0.15); w.b = 0; }
        else { w.a = S.t0 + r.range(0.05, 1.5); w.b = w.a + r.range(0.05, 1.0); }
        S.ws.push_back(w);
    }
    return S;
}

// ------------------------------------------------------------------ replay: parse an `I sess` line
static bool parseSession(const std::string& line, Session& S, std::vector<Op>& ops) {
    std::istringstream is(line);
    std::vector<std::string> t; std::string x;
    while (is >> x) t.push_back(x);
    if (t.size() < 16 || t[0] != "I" || t[1] != "sess") return false;
    size_t p = 2;
    S.integ = -1;
    for (int i = 0; i < NINTEG; ++i) if (t[p] == INTEG_NAMES[i]) S.integ = i;
    if (S.integ < 0) return false;
    ++p;
    S.t0 = vh::unhex(t[p++]);
    if (t[p] == "-") { S.hasFinal = false; ++p; } else { S.hasFinal = true; S.fin = vh::unhex(t[p++]); }
    S.retEvery = std::atoi(t[p++].c_str()) != 0;
    S.stepLimit = std::atoi(t[p++].c_str());
    S.allowInterp = std::atoi(t[p++].c_str());
    S.fixedStep = vh::unhex(t[p++]); S.acc = vh::unhex(t[p++]);
    S.sysKind = std::atoi(t[p++].c_str());
    S.k = vh::unhex(t[p++]); S.q0 = vh::unhex(t[p++]); S.u0 = vh::unhex(t[p++]);
    int nw = std::atoi(t[p++].c_str());
    for (int i = 0; i < nw; ++i) {
        WSpec w; w.kind = std::atoi(t[p++].c_str()); w.a = vh::unhex(t[p++]); w.b = vh::unhex(t[p++]); w.mask = std::atoi(t[p++].c_str());
        S.ws.push_back(w);
    }
    if (t[p] == "dir") { S.directed = std::atoi(t[p + 1].c_str()) != 0; p += 2; }
    if (t[p++] != "|") return false;
    while (p < t.size()) {
        Op op;
        if (t[p] == "r") { op.kind = 'r'; op.lowered = std::atoi(t[p + 1].c_str()); op.terminate = std::atoi(t[p + 2].c_str()); p += 3; }
        else { op.kind = 's'; op.replayed = true; op.viaStepBy = (t[p] == "b"); op.report = vh::unhex(t[p + 1]); op.sched = vh::unhex(t[p + 2]); p += 7; }
        ops.push_back(op);
    }
    return true;
}

// ------------------------------------------------------------------ directed scenario (finding, see notes/C19.md)
// A report time handed to a LATER stepTo call may fall strictly inside the event window the integrator then
// reports: the internal step that localised the event was taken while an earlier report (<= tLow) was pending.
// Pass A finds the window with a regular reporting loop; pass B repeats the same calls but asks for the
// mid-window time in the call that reveals the event.
static void directedSession(vh::Rng& r, int integ) {
    Session S; S.integ = integ; S.directed = true;
    S.acc = std::pow(10.0, -r.range(2.0, 5.0));
    S.k = r.range(0.5, 10.0); S.q0 = r.signedMag(0.2, 1.5); S.u0 = r.range(-1, 1);
    WSpec w; w.kind = 0; w.a = r.range(0.03, 0.4); w.b = 0; w.mask = 3; S.ws.push_back(w);
    const double dtr = r.range(0.001, 0.004);
    // pass A (silent)
    std::vector<Op> ops; double wl = 0, wh = 0; bool hidden = false;
    {
        Built B; buildSystem(S, B);
        State state = B.system.realizeTopology();
        state.updTime() = S.t0; state.updQ()[0] = S.q0; state.updU()[0] = S.u0;
        B.integ.reset(makeInteg(S.integ, B.system));
        B.integ->setAccuracy(S.acc);
        B.integ->initialize(state);
        double rep = dtr;
        for (int i = 0; i < 2000; ++i) {
            Op op; op.kind = 's'; op.report = rep; op.sched = Inf; op.replayed = true;
            const int sb = B.integ->getNumStepsTaken();
            Integrator::SuccessfulStepStatus st = B.integ->stepTo(op.report, op.sched);
            ops.push_back(op);
            if (st == Integrator::ReachedEventTrigger) {
                Vec2 win = B.integ->getEventWindow(); wl = win[0]; wh = win[1];
                hidden = (B.integ->getNumStepsTaken() == sb);
                break;
            }
            if (st == Integrator::ReachedReportTime) rep += dtr;
        }
    }
    if (!hidden || ops.size() < 2) return;
    const double mid = wl + 0.5 * (wh - wl);
    if (!(wl < mid && mid < wh) || !(mid >= ops[ops.size() - 2].report)) return;
    switch (r.below(3)) {
        case 0: ops.back().report = mid; break;                       // strictly inside the window (the finding)
        case 1: {                                                      // exactly tLow: must be served as a report first,
            ops.back().report = wl;                                   // then the trigger is returned by the next call
            Op more = ops.back(); more.report = wl + (r.coin() ? 0.0 : 0.01); ops.push_back(more);
            Op more2 = ops.back(); more2.report = wh + 0.01; ops.push_back(more2); break; }
        default: ops.back().report = wh; break;                       // exactly tHigh
    }
    runSession(S, nullptr, &ops, 0);
}

int main(int argc, char** argv) {
    vh::Args a(argc, argv);
    if (a.mode == "replay") {
        std::string line;
        while (std::getline(std::cin, line)) {
            Session S; std::vector<Op> ops;
            if (parseSession(line, S, ops)) runSession(S, nullptr, &ops, 0);
        }
        return 0;
    }
    vh::Rng rng(a.seed * 7919 + 17);
    if (a.mode == "directed") {
        for (long i = 0; i < a.n / 10 + 20; ++i) {
            if (i % 10 < 8) { directedSession(rng, (int)(i % 10)); continue; }
            // CPodes, interpolation off, final time set: a request beyond the final time after one before it
            Session S; S.integ = (int)(i % 10); S.directed = true; S.allowInterp = 0; S.hasFinal = true;
            S.fin = rng.range(0.8, 1.5); S.k = rng.range(0.5, 10.0); S.q0 = 1; S.u0 = 0;
            std::vector<Op> ops(4);
            const double r1 = rng.range(0.1, 0.6);
            for (auto& o : ops) { o.kind = 's'; o.replayed = true; o.sched = Inf; }
            ops[0].report = r1; ops[1].report = r1; ops[2].report = S.fin + rng.range(0.1, 1.0); ops[3].report = ops[2].report;
            if ((i / 10) % 2 == 1) {
                // CPodes (interpolation allowed): scheduled event exactly at the final time, handler changes the state
                S.allowInterp = -1;
                ops.assign(6, ops[0]);
                const double beyond = S.fin + rng.range(0.1, 1.0);
                for (auto& o : ops) { o.report = beyond; o.sched = Inf; }
                ops[0].sched = S.fin; ops[1].sched = S.fin;
                ops[2].kind = 'r'; ops[2].lowered = 1; ops[2].terminate = 0;
            }
            runSession(S, nullptr, &ops, 0);
        }
        return 0;
    }
    for (long i = 0; i < a.n; ++i) {
        int integ = (int)(i % NINTEG);
        Session S = randomSession(rng, integ);
        runSession(S, &rng, nullptr, 6 + rng.below(25));
    }
    return 0;
}
