// C42 correspondence harness: SimTK::MultibodyGraphMaker::generateGraph on generated body/joint graphs.
//
//   I graph T <nUser> (<nmob> <good>)*  B <nb> (<mass> <mustBeBase>)*  J <nj> (<type> <parent> <child> <mustBeLoop>)*
//        joint types: 0 = weld (0 mobilities, good loop joint), 1 = free (6, good), 2+k = k-th user type;
//        bodies: 0 = Ground, 1..nb = input bodies (masses are small non-negative integers);
//        joints: indices into the body list; parent == child (a self-joint, against the documentation but accepted by
//        addJoint, which has no check) is generated too so that model == code is tested there as well.
//   O graph OK <numBodies> <numJoints> <numMobilizers> <numLoopConstraints>   |   O graph EXC:<class>
//   O mob  k <joint|-1> <inboard> <outboard master> <level> <reversed> <isSlave> <isAddedBase> <numFragments> <typeName>
//   O loop k <typeName> <joint> <parent> <child>
//   O body b <level> <mobilizer> <master> <nslaves> <slave>*            (every body incl. Ground and slaves)
//   O joint j <type> <parent> <child> <mustBeLoop> <mobilizer> <loopConstraint> <isAddedBase>   (incl. added joints)
//   D <path tags>
//   P <pred> <key> <#violations> 0      the property's own predicates, evaluated on the implementation's
//                                       output through the public accessors only, independently of the model.
// The mob/loop lines are built from the *public accessor methods* (user reference pointers = index+1);
// the body/joint lines from the public data members of Body/Joint.
#include "SimTKmath.h"
#include "hcommon.h"
#include <algorithm>
#include <map>
#include <set>
#include <stdint.h>
using namespace SimTK;

struct JT { int nmob; int good; };
struct BD { int mass; int mustBase; };
struct JN { int type, parent, child, mustLoop; };
struct Graph {
    std::vector<JT> user;      // user joint types (type index 2+k)
    std::vector<BD> bodies;    // input bodies 1..nb
    std::vector<JN> joints;
};

static int nmobOfType(const Graph& g, int t) { return t == 0 ? 0 : t == 1 ? 6 : g.user[t - 2].nmob; }
static std::string typeName(int t) { return t == 0 ? "weld" : t == 1 ? "free" : "t" + std::to_string(t - 2); }
static void* ref(int idx) { return (void*)(intptr_t)(idx + 1); }
static long unref(void* p) { return (long)(intptr_t)p - 1; }

static void emitInput(const Graph& g) {
    vh::Line in = vh::I("graph");
    in.s("T").i((long)g.user.size());
    for (auto& t : g.user) in.i(t.nmob).i(t.good);
    in.s("B").i((long)g.bodies.size());
    for (auto& b : g.bodies) in.i(b.mass).i(b.mustBase);
    in.s("J").i((long)g.joints.size());
    for (auto& j : g.joints) in.i(j.type).i(j.parent).i(j.child).i(j.mustLoop);
    in.emit();
}

static const char* classify(const std::string& what) {
    if (what.find("massless but free") != std::string::npos) return "massless_free";
    if (what.find("massless but not internal") != std::string::npos) return "massless_notinternal";
    if (what.find("terminal massless body") != std::string::npos) return "terminal_massless";
    if (what.find("Duplicate") != std::string::npos) return "duplicate";
    return "other";
}

static void runCase(const Graph& g) {
    emitInput(g);
    const int nb = (int)g.bodies.size(), nj = (int)g.joints.size();
    MultibodyGraphMaker mgm;
    std::string exc;
    try {
        for (size_t k = 0; k < g.user.size(); ++k)
            mgm.addJointType(typeName((int)k + 2), g.user[k].nmob, g.user[k].good != 0, ref((int)k + 2));
        mgm.addBody("ground", 0, false, ref(0));
        for (int b = 1; b <= nb; ++b)
            mgm.addBody("b" + std::to_string(b), (double)g.bodies[b - 1].mass, g.bodies[b - 1].mustBase != 0, ref(b));
        auto bname = [](int b) { return b == 0 ? std::string("ground") : "b" + std::to_string(b); };
        for (int j = 0; j < nj; ++j)
            mgm.addJoint("j" + std::to_string(j), typeName(g.joints[j].type), bname(g.joints[j].parent),
                         bname(g.joints[j].child), g.joints[j].mustLoop != 0, ref(j));
        mgm.generateGraph();
    } catch (const std::exception& e) {
        exc = classify(e.what());
    }
    if (!exc.empty()) {
        std::printf("O graph EXC:%s\n", exc.c_str());
        vh::D("exc." + exc);
        // "either reports an error or ...": an error is an allowed outcome; nothing else to evaluate
        return;
    }
    const int NB = mgm.getNumBodies(), NJ = mgm.getNumJoints(), NM = mgm.getNumMobilizers(), NC = mgm.getNumLoopConstraints();
    std::printf("O graph OK %d %d %d %d\n", NB, NJ, NM, NC);
    for (int k = 0; k < NM; ++k) {
        const MultibodyGraphMaker::Mobilizer& m = mgm.getMobilizer(k);
        std::printf("O mob %d %ld %ld %ld %d %d %d %d %d %s\n", k, unref(m.getJointRef()), unref(m.getInboardBodyRef()),
                    unref(m.getOutboardMasterBodyRef()), m.getLevel(), (int)m.isReversedFromJoint(), (int)m.isSlaveMobilizer(),
                    (int)m.isAddedBaseMobilizer(), m.getNumFragments(), m.getJointTypeName().c_str());
    }
    for (int k = 0; k < NC; ++k) {
        const MultibodyGraphMaker::LoopConstraint& c = mgm.getLoopConstraint(k);
        std::printf("O loop %d %s %ld %ld %ld\n", k, c.getJointTypeName().c_str(), unref(c.getJointRef()),
                    unref(c.getParentBodyRef()), unref(c.getChildBodyRef()));
    }
    for (int b = 0; b < NB; ++b) {
        const MultibodyGraphMaker::Body& bd = mgm.getBody(b);
        std::printf("O body %d %d %d %d %d", b, bd.level, bd.mobilizer, bd.master, bd.getNumSlaves());
        for (int s : bd.slaves) std::printf(" %d", s);
        std::printf("\n");
    }
    for (int j = 0; j < NJ; ++j) {
        const MultibodyGraphMaker::Joint& jt = mgm.getJoint(j);
        std::printf("O joint %d %d %d %d %d %d %d %d\n", j, jt.jointTypeNum, jt.parentBodyNum, jt.childBodyNum,
                    (int)jt.mustBeLoopJoint, jt.mobilizer, jt.loopConstraint, (int)jt.isAddedBaseJoint);
    }

    // ---------------------------------------------------------------- predicates (independent of the model)
    // what each mobilizer says through the public accessors
    struct MV { long joint, inb, outbMaster; bool slave, rev, added; int nfrag; };
    std::vector<MV> mv(NM);
    for (int k = 0; k < NM; ++k) {
        const MultibodyGraphMaker::Mobilizer& m = mgm.getMobilizer(k);
        mv[k] = MV{unref(m.getJointRef()), unref(m.getInboardBodyRef()), unref(m.getOutboardMasterBodyRef()),
                   m.isSlaveMobilizer(), m.isReversedFromJoint(), m.isAddedBaseMobilizer(), m.getNumFragments()};
    }
    // (1) every input body mobilized exactly once (as a non-slave outboard body); Ground never; slaves once each
    int v_body = 0;
    for (int b = 1; b <= nb; ++b) {
        int cnt = 0;
        for (auto& m : mv) if (!m.slave && m.outbMaster == b) ++cnt;
        if (cnt != 1) ++v_body;
    }
    for (auto& m : mv) if (m.outbMaster == 0 && !m.slave) ++v_body;     // Ground itself must not be mobilized
    int nSlaveMobs = 0; for (auto& m : mv) if (m.slave) ++nSlaveMobs;
    int nSlaveBodies = NB - (nb + 1);
    if (nSlaveMobs != nSlaveBodies) ++v_body;
    {   std::set<int> used;
        for (int s = nb + 1; s < NB; ++s) {
            const MultibodyGraphMaker::Body& sb = mgm.getBody(s);
            if (!sb.isSlave() || sb.mobilizer < 0 || sb.mobilizer >= NM || !mv[sb.mobilizer].slave ||
                mv[sb.mobilizer].outbMaster != sb.master || !used.insert(sb.mobilizer).second) ++v_body;
        }
    }
    vh::P("bodies_once", "graph.bodies_once", v_body, 0);
    // (2) inboard-first from Ground: inboard body is Ground or the (non-slave) outboard body of an earlier mobilizer
    int v_order = 0;
    for (int k = 0; k < NM; ++k) {
        bool ok = mv[k].inb == 0;
        for (int e = 0; e < k && !ok; ++e) if (!mv[e].slave && mv[e].outbMaster == mv[k].inb) ok = true;
        if (!ok) ++v_order;
    }
    vh::P("inboard_first", "graph.inboard_first", v_order, 0);
    // (3) every input joint exactly once as a mobilizer or as a loop constraint
    int v_joint = 0;
    for (int j = 0; j < nj; ++j) {
        int cnt = 0;
        for (auto& m : mv) if (m.joint == j) ++cnt;
        for (int k = 0; k < NC; ++k) if (unref(mgm.getLoopConstraint(k).getJointRef()) == j) ++cnt;
        if (cnt != 1) ++v_joint;
    }
    vh::P("joints_once", "graph.joints_once", v_joint, 0);
    // (4) each slave is welded to its master: the slave mobilizer's master is the child body of its joint, the
    //     master lists the slave, the slave points to the master, fragments = 1 + #slaves
    int v_slave = 0;
    for (int k = 0; k < NM; ++k) if (mv[k].slave) {
        long j = mv[k].joint;
        if (j < 0 || j >= nj || mv[k].outbMaster != g.joints[j].child || mv[k].inb != g.joints[j].parent || mv[k].rev) { ++v_slave; continue; }
        const MultibodyGraphMaker::Body& master = mgm.getBody((int)mv[k].outbMaster);
        int listed = 0;
        for (int s : master.slaves) if (s > nb && s < NB && mgm.getBody(s).master == mv[k].outbMaster && mgm.getBody(s).mobilizer == k) ++listed;
        if (listed != 1 || mv[k].nfrag != 1 + master.getNumSlaves()) ++v_slave;
    }
    for (int s = nb + 1; s < NB; ++s) {
        const MultibodyGraphMaker::Body& sb = mgm.getBody(s);
        if (sb.master < 0 || sb.master > nb) { ++v_slave; continue; }
        const std::vector<int>& sl = mgm.getBody(sb.master).slaves;
        if (std::count(sl.begin(), sl.end(), s) != 1) ++v_slave;
    }
    vh::P("slaves_welded", "graph.slaves_welded", v_slave, 0);
    // (5) joints marked must-be-loop are never tree joints: loop constraint or slave mobilizer
    int v_loop = 0;
    for (int j = 0; j < nj; ++j) if (g.joints[j].mustLoop)
        for (auto& m : mv) if (m.joint == j && !m.slave) ++v_loop;
    vh::P("loop_flag", "graph.loop_flag", v_loop, 0);
    // (6) bodies marked must-be-base are base bodies: their mobilizer's inboard body is Ground.
    //     Input classes (stable keys): gj = the body also has an input joint to Ground (discouraged by the documentation);
    //     viaMassless = mobilized outboard of a massless body; plain = everything else
    //     Input classes (stable keys):
    //       gj          = the body also has an input joint to Ground: documented misuse ("you should not set this
    //                     flag" then, MultibodyGraphMaker.h) -> outside the property's domain, tagged only (D line);
    //       viaMassless = exactly the known situation: the body was attached by growTree's "extend past a mobile
    //                     massless body" loop, i.e. its inboard body is a massless input body whose own mobilizer
    //                     has mobilities and immediately precedes this body's mobilizer;
    //       plain       = everything else.
    auto jointTypeOfMob = [&](const MV& m) { return m.joint >= 0 && m.joint < nj ? g.joints[m.joint].type : 1; /* added base joint: free */ };
    std::map<std::string, int> v_base;
    int gjNotBase = 0;
    for (int b = 1; b <= nb; ++b) if (g.bodies[b - 1].mustBase) {
        bool hasGJ = false;
        for (auto& j : g.joints) if ((j.parent == b && j.child == 0) || (j.child == b && j.parent == 0)) hasGJ = true;
        for (int k = 0; k < NM; ++k) if (!mv[k].slave && mv[k].outbMaster == b) {
            const MV& m = mv[k];
            if (hasGJ) { gjNotBase += (m.inb != 0); continue; }
            bool via = m.inb > 0 && m.inb <= nb && g.bodies[m.inb - 1].mass == 0 && k > 0 && !mv[k - 1].slave &&
                       mv[k - 1].outbMaster == m.inb && nmobOfType(g, jointTypeOfMob(mv[k - 1])) > 0;
            v_base[via ? "viaMassless" : "plain"] += (m.inb != 0);
        }
    }
    for (const char* cls : {"plain", "viaMassless"})
        if (v_base.count(cls)) vh::P("base_flag", std::string("graph.") + cls + ".base_flag", v_base[cls], 0);
    if (gjNotBase) vh::D("obs.mustBeBase_with_ground_joint_not_base");
    // (7) no massless body with mobilities ends a branch: a mobilized body (or body fragment) of zero mass whose
    //     mobilizer has mobilities must be the inboard body of some mobilizer
    int v_mt_master = 0, v_mt_slave = 0;
    for (int k = 0; k < NM; ++k) {
        long ob = mv[k].outbMaster;
        if (ob < 1 || ob > nb || g.bodies[ob - 1].mass != 0) continue;
        if (nmobOfType(g, jointTypeOfMob(mv[k])) == 0) continue;
        if (mv[k].slave) { ++v_mt_slave; continue; }         // a slave fragment is never an inboard body
        bool hasOutboard = false;
        for (auto& m : mv) if (m.inb == ob) hasOutboard = true;
        if (!hasOutboard) ++v_mt_master;
    }
    vh::P("massless_terminal", "graph.master.massless_terminal", v_mt_master, 0);
    vh::P("massless_terminal", "graph.slave.massless_terminal", v_mt_slave, 0);

    // ---------------------------------------------------------------- distribution tags
    bool anyRev = false, anyAdded = false, anySlave = nSlaveMobs > 0, anyJump = false;
    for (int k = 0; k < NM; ++k) { anyRev |= mv[k].rev; anyAdded |= mv[k].added; }
    for (int k = 1; k < NM; ++k) if (mgm.getMobilizer(k).getLevel() < mgm.getMobilizer(k - 1).getLevel()) anyJump = true;
    std::string tag = "ok";
    bool anySelf = false; for (auto& j : g.joints) anySelf |= (j.parent == j.child);
    if (anySelf) vh::D("input.selfjoint");
    if (anyRev) tag += ".rev"; if (anyAdded) tag += ".addedbase"; if (anySlave) tag += ".slave";
    if (NC) tag += ".loopc"; if (anyJump) tag += ".masslessjump";
    vh::D(tag);
}

// ------------------------------------------------------------------------------------------ generators
// The four behaviourally distinct joint-type classes: (mobilities > 0 ?, good loop joint ?)
static const JT kUser4[] = {{1, 0} /*pin*/, {1, 0} /*slider*/, {3, 1} /*ball*/, {0, 0} /*fixed, no loop weld*/};
static Graph baseGraph() { Graph g; g.user.assign(kUser4, kUser4 + 4); return g; }

// Enumeration space: nb input bodies with (mass in {0,1}) x (mustBeBase in {0,1}); nj joints, each an ordered
// pair of distinct bodies (Ground included) x a type from `types` x mustBeLoop from {0..nml-1}.
struct Space {
    int nb, nj; std::vector<int> types; int nml; int nbaseopt;   // nbaseopt: 1 = never mustBeBase, 2 = both
    bool self = true;                                            // ordered pairs include parent == child (self-joints)
    uint64_t perBody() const { return 2ull * nbaseopt; }
    uint64_t perJoint() const { return (uint64_t)(nb + 1) * (self ? nb + 1 : nb) * types.size() * nml; }
    uint64_t size() const { uint64_t s = 1; for (int i = 0; i < nb; ++i) s *= perBody(); for (int j = 0; j < nj; ++j) s *= perJoint(); return s; }
    Graph decode(uint64_t idx) const {
        Graph g = baseGraph();
        for (int i = 0; i < nb; ++i) { uint64_t d = idx % perBody(); idx /= perBody(); g.bodies.push_back(BD{(int)(d & 1), (int)(d >> 1)}); }
        for (int j = 0; j < nj; ++j) {
            uint64_t d = idx % perJoint(); idx /= perJoint();
            int ml = (int)(d % nml); d /= nml;
            int t = types[d % types.size()]; d /= types.size();
            int p = (int)(d % (nb + 1)); d /= (nb + 1);
            int c = (int)d; if (!self && c >= p) ++c;        // c in 0..nb (c != p unless self-joints are enumerated)
            g.joints.push_back(JN{t, p, c, ml});
        }
        return g;
    }
};
// type indices: 0 weld, 1 free, 2 pin, 3 slider, 4 ball, 5 fixed
static std::vector<Space> exhaustiveSpaces(bool thorough) {
    std::vector<int> T4 = {0, 2, 4, 5};     // one representative per behaviour class
    std::vector<Space> v;
    for (int nb = 0; nb <= 2; ++nb)
        for (int nj = 0; nj <= 2; ++nj) {
            if (!thorough && nb == 2 && nj == 2) continue;   // quick: all graphs with (nb<=2,nj<=1) or (nb<=1,nj<=2)
            v.push_back(Space{nb, nj, T4, 2, 2, true});      // incl. self-joints (also Ground->Ground when nb == 0)
        }
    return v;
}
static std::vector<Space> sampledSpaces() {
    std::vector<int> T4 = {0, 2, 4, 5}, T3 = {0, 2, 4}, T6 = {0, 1, 2, 3, 4, 5};
    return { Space{2, 2, T4, 2, 2, false}, Space{2, 3, T4, 2, 2, true}, Space{3, 2, T4, 2, 2, false}, Space{3, 3, T4, 2, 2, true},
             Space{3, 4, T3, 2, 2, false}, Space{3, 4, T6, 2, 2, false}, Space{2, 4, T4, 2, 2, false}, Space{4, 4, T3, 2, 2, true},
             Space{4, 5, T3, 1, 1, false} };
}

// random larger graphs
static Graph randomGraph(vh::Rng& r, int maxBodies) {
    Graph g = baseGraph();
    g.user.push_back(JT{2, 0});   // universal
    g.user.push_back(JT{6, 0});   // a 6-dof type without loop constraint ("bushing")
    const int nT = 2 + (int)g.user.size();
    int nb = 1 + r.below(maxBodies);
    int shape = r.below(6);       // 0 chain, 1 star, 2 random tree, 3 tree + loops, 4 several components, 5 dense random
    int pMassless = r.below(4) == 0 ? 0 : r.below(40);       // percent
    int pBase = r.below(3) == 0 ? r.below(30) : 0;
    int pLoopFlag = r.below(3) == 0 ? r.below(30) : 0;
    int pReverse = r.below(3) == 0 ? 50 : r.below(25);
    int pWeld = r.below(20);
    for (int b = 1; b <= nb; ++b)
        g.bodies.push_back(BD{r.below(100) < pMassless ? 0 : 1 + r.below(4), r.below(100) < pBase ? 1 : 0});
    auto rtype = [&]() { return r.below(100) < pWeld ? 0 : r.below(nT); };
    auto addJ = [&](int p, int c) {
        if (p == c) return;
        if (r.below(100) < pReverse) std::swap(p, c);
        g.joints.push_back(JN{rtype(), p, c, r.below(100) < pLoopFlag ? 1 : 0});
    };
    int nroots = shape == 4 ? 1 + r.below(std::max(1, nb / 3)) : 1;
    for (int b = 1; b <= nb; ++b) {
        int parent;
        if (shape == 0) parent = b - 1;
        else if (shape == 1) parent = b <= 2 ? b - 1 : 1;
        else if (shape == 5) parent = -1;
        else parent = r.below(b);                       // 0..b-1 (0 = Ground)
        if (shape == 4 && b <= nroots) parent = -1;     // a floating component root: no joint to Ground
        else if (shape == 4 && parent == 0) parent = 1 + r.below(b - 1 > 0 ? b - 1 : 1);
        if (parent >= 0 && parent != b) addJ(parent, b);
    }
    int extra = shape == 3 || shape == 4 ? r.below(nb / 2 + 2) : shape == 5 ? r.below(2 * nb + 1) : r.below(4) == 0 ? r.below(3) : 0;
    for (int e = 0; e < extra; ++e) {
        int a = r.below(nb + 1), b = r.below(nb + 1);
        if (r.below(8) == 0 && !g.joints.empty()) { const JN& d = g.joints[r.below((int)g.joints.size())]; a = d.parent; b = d.child; if (r.coin()) std::swap(a, b); }  // duplicate connection
        if (a != b) g.joints.push_back(JN{rtype(), a, b, r.below(100) < pLoopFlag ? 1 : 0});
    }
    // a self-joint now and then (parent == child; accepted by addJoint)
    if (r.below(10) == 0) { int b = r.below(nb + 1); g.joints.push_back(JN{rtype(), b, b, r.below(100) < pLoopFlag ? 1 : 0}); }
    // shuffle the joint order sometimes (joint numbering drives tie-breaking)
    if (r.below(3) == 0)
        for (int i = (int)g.joints.size() - 1; i > 0; --i) std::swap(g.joints[i], g.joints[r.below(i + 1)]);
    return g;
}

static void replay() {
    std::string line; int ch;
    while (true) {
        line.clear();
        while ((ch = std::getchar()) != EOF && ch != '\n') line.push_back((char)ch);
        if (line.empty() && ch == EOF) break;
        std::istringstream is(line); std::string k, fn, tok;
        is >> k >> fn;
        if (k == "I" && fn == "graph") {
            Graph g; long n;
            bool ok = true;
            if (is >> tok >> n && tok == "T") { for (long i = 0; i < n; ++i) { JT t; ok = ok && (is >> t.nmob >> t.good); g.user.push_back(t); } } else ok = false;
            if (ok && is >> tok >> n && tok == "B") { for (long i = 0; i < n; ++i) { BD b; ok = ok && (is >> b.mass >> b.mustBase); g.bodies.push_back(b); } } else ok = false;
            if (ok && is >> tok >> n && tok == "J") { for (long i = 0; i < n; ++i) { JN j; ok = ok && (is >> j.type >> j.parent >> j.child >> j.mustLoop); g.joints.push_back(j); } } else ok = false;
            const int nb = (int)g.bodies.size(), nt = 2 + (int)g.user.size();
            for (auto& t : g.user) ok = ok && t.nmob >= 0 && t.nmob <= 6;
            for (auto& b : g.bodies) ok = ok && b.mass >= 0;
            for (auto& j : g.joints) ok = ok && j.type >= 0 && j.type < nt && j.parent >= 0 && j.parent <= nb && j.child >= 0 && j.child <= nb;
            if (ok) runCase(g);      // malformed / illegal records are skipped (never issue an illegal API call)
        }
        if (ch == EOF) break;
    }
}

int main(int argc, char** argv) {
    vh::Args args(argc, argv);
    if (args.mode == "replay") { replay(); return 0; }
    const bool thorough = args.n >= 20000;
    vh::Rng r(args.seed * 7919 + 42);
    if (args.mode == "exh") {
        // every graph of the bounded spaces, in enumeration order
        for (const Space& s : exhaustiveSpaces(thorough)) { uint64_t N = s.size(); for (uint64_t i = 0; i < N; ++i) runCase(s.decode(i)); }
        return 0;
    }
    if (args.mode == "sample") {
        // uniform samples from the larger bounded spaces (<= 4 input bodies, <= 5 joints)
        std::vector<Space> sp = sampledSpaces();
        for (long k = 0; k < args.n; ++k) { const Space& s = sp[r.below((int)sp.size())]; runCase(s.decode(r.next() % s.size())); }
        return 0;
    }
    // default: random larger graphs
    for (long k = 0; k < args.n; ++k) runCase(randomGraph(r, k % 5 == 0 ? 30 : 12));
    return 0;
}
