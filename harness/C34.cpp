// C34 correspondence harness: ContactGeometry surface queries (half space, sphere, cylinder, ellipsoid, torus,
// brick/Geo::Box, smooth height map) through the public API only.
//
// Records:  I <fn> <class> <hex>...   (class = input-class tag; it selects the predicate keys and is replayed verbatim)
//           O <fn> ...                what the implementation returned   (answered by Drivers/C34.lean from the model)
//           P <pred> <Shape>.<call>.<class>.<pred> value bound            the property's predicates on the implementation
// fn starting with "p." = predicates only (no model): height map, analytic-vs-implicit curvature.
// Modes: ""           generic well-scaled inputs (must be clean)
//        "degenerate" centre / axis / symmetry-plane / on-surface / parallel-ray witnesses, each with its own class
//        "replay"     re-run the I lines given on stdin
#include "SimTKmath.h"
#include "hcommon.h"
#include <algorithm>
#include <functional>
using namespace SimTK;
using vh::hex;

static const double PI = 3.14159265358979323846;

// ------------------------------------------------------------------------------------------------ shapes
enum Kind { HS, SPH, CYL, ELL, TOR, BOX };
struct Sh {
    Kind k; double a, b, c;     // SPH: a=r; CYL: a=r; ELL: radii; TOR: a=R, b=r; BOX: half lengths
    const char* name() const { static const char* n[] = {"HalfSpace", "Sphere", "Cylinder", "Ellipsoid", "Torus", "Brick"}; return n[k]; }
    // independent reference implicit function: >0 inside, 0 on the surface, in length units (approximately)
    double f(const Vec3& p) const {
        switch (k) {
        case HS:  return p[0];
        case SPH: return a - p.norm();
        case CYL: return a - std::hypot(p[0], p[1]);
        case ELL: { double s = std::sqrt(p[0]*p[0]/(a*a) + p[1]*p[1]/(b*b) + p[2]*p[2]/(c*c)); return (1 - s) * std::min(a, std::min(b, c)); }
        case TOR: { double rho = std::hypot(p[0], p[1]); return b - std::hypot(rho - a, p[2]); }
        case BOX: return std::min(a - std::abs(p[0]), std::min(b - std::abs(p[1]), c - std::abs(p[2])));
        }
        return NAN;
    }
    // independent reference outward unit normal at a surface point
    Vec3 outward(const Vec3& p) const {
        switch (k) {
        case HS:  return Vec3(-1, 0, 0);
        case SPH: return p / p.norm();
        case CYL: { Vec3 q(p[0], p[1], 0); return q / q.norm(); }
        case ELL: { Vec3 q(p[0]/(a*a), p[1]/(b*b), p[2]/(c*c)); return q / q.norm(); }
        case TOR: { double rho = std::hypot(p[0], p[1]); Vec3 cc(a*p[0]/rho, a*p[1]/rho, 0); Vec3 q = p - cc; return q / q.norm(); }
        case BOX: { Vec3 q(0); double h[3] = {a, b, c}; int best = 0; double bd = INFINITY; for (int i = 0; i < 3; ++i) { double dd = std::abs(std::abs(p[i]) - h[i]); if (dd < bd) { bd = dd; best = i; } } q[best] = p[best] < 0 ? -1 : 1; return q; }
        }
        return Vec3(NAN);
    }
    double scale() const { switch (k) { case HS: return 1; case SPH: case CYL: return a; case ELL: case BOX: return std::max(a, std::max(b, c)); case TOR: return a + b; } return 1; }
    // random surface point (near = a point whose neighbourhood is sampled preferentially for unbounded shapes)
    Vec3 sample(vh::Rng& g, const Vec3& nearp) const {
        switch (k) {
        case HS:  return Vec3(0, nearp[1] + g.range(-3, 3), nearp[2] + g.range(-3, 3));
        case SPH: { double z = g.range(-1, 1), ph = g.range(0, 2*PI), s = std::sqrt(1 - z*z); return a * Vec3(s*std::cos(ph), s*std::sin(ph), z); }
        case CYL: { double ph = g.range(0, 2*PI); return Vec3(a*std::cos(ph), a*std::sin(ph), nearp[2] + g.range(-3, 3)); }
        case ELL: { double z = g.range(-1, 1), ph = g.range(0, 2*PI), s = std::sqrt(1 - z*z); return Vec3(a*s*std::cos(ph), b*s*std::sin(ph), c*z); }
        case TOR: { double u = g.range(0, 2*PI), v = g.range(0, 2*PI); double rr = a + b*std::cos(v); return Vec3(rr*std::cos(u), rr*std::sin(u), b*std::sin(v)); }
        case BOX: { Vec3 p(g.range(-a, a), g.range(-b, b), g.range(-c, c)); int ax = g.below(3); double h[3] = {a, b, c}; p[ax] = g.coin() ? h[ax] : -h[ax]; return p; }
        }
        return Vec3(NAN);
    }
    // exact distance from p to the surface (closed forms; ellipsoid: all KKT candidates of the secular problem in long double)
    double exactDist(const Vec3& p) const {
        switch (k) {
        case HS:  return std::abs(p[0]);
        case SPH: return std::abs(p.norm() - a);
        case CYL: return std::abs(std::hypot(p[0], p[1]) - a);
        case TOR: { double rho = std::hypot(p[0], p[1]); return std::abs(std::hypot(rho - a, p[2]) - b); }
        case BOX: { double dx = std::abs(p[0]) - a, dy = std::abs(p[1]) - b, dz = std::abs(p[2]) - c;
                    if (dx <= 0 && dy <= 0 && dz <= 0) return std::min(-dx, std::min(-dy, -dz));
                    double ex = std::max(dx, 0.0), ey = std::max(dy, 0.0), ez = std::max(dz, 0.0); return std::sqrt(ex*ex + ey*ey + ez*ez); }
        case ELL: {
            // all KKT candidates in long double.  Coordinates that are exactly zero stay zero in the "regular" candidate
            // (largest root of the secular equation reduced to the non-zero coordinates); in addition, for every zero
            // coordinate i the multiplier t = -a_i^2 gives a candidate with x_i != 0 (inside the evolute).
            long double A[3] = {(long double)a*a, (long double)b*b, (long double)c*c}; bool nz[3] = {p[0] != 0, p[1] != 0, p[2] != 0};
            long double bestD2 = INFINITY;
            if (nz[0] || nz[1] || nz[2]) {
                long double m = INFINITY; for (int i = 0; i < 3; ++i) if (nz[i]) m = std::min(m, A[i]);
                auto F = [&](long double t) { long double q2 = 0; for (int i = 0; i < 3; ++i) if (nz[i]) { long double q = A[i]*p[i]/(t + A[i]); q2 += q*q/A[i]; } return q2 - 1; };
                long double lo = -m, hi = 1; while (F(hi) > 0) hi = 2*hi + 1;
                for (int it = 0; it < 300; ++it) { long double mid = 0.5L*(lo + hi); if (F(mid) > 0) lo = mid; else hi = mid; }
                long double t = 0.5L*(lo + hi), d2 = 0; for (int i = 0; i < 3; ++i) if (nz[i]) { long double q = p[i] - A[i]*p[i]/(t + A[i]); d2 += q*q; }
                bestD2 = d2;
            }
            for (int i = 0; i < 3; ++i) if (!nz[i]) {
                long double rest = 1, d2 = 0; bool ok = true;
                for (int j = 0; j < 3; ++j) if (j != i && nz[j]) { if (A[j] == A[i]) { ok = false; break; } long double x = A[j]*p[j]/(A[j] - A[i]); rest -= x*x/A[j]; d2 += (p[j] - x)*(p[j] - x); }
                if (!ok || rest < 0) continue;
                d2 += A[i] * rest;            // x_i^2 = a_i^2 * rest, p_i = 0
                bestD2 = std::min(bestD2, d2);
            }
            return (double)std::sqrt(bestD2);
        }
        }
        return NAN;
    }
};

static uint64_t hashDoubles(const std::vector<double>& v, uint64_t salt) {
    uint64_t h = 1469598103934665603ull ^ salt;
    for (double x : v) { uint64_t u; std::memcpy(&u, &x, 8); h ^= u; h *= 1099511628211ull; h ^= h >> 29; }
    return h;
}
static std::string key(const Sh& s, const char* call, const std::string& cls, const char* pred) {
    return std::string(s.name()) + "." + call + "." + cls + "." + pred;
}
static bool finite3(const Vec3& v) { return std::isfinite(v[0]) && std::isfinite(v[1]) && std::isfinite(v[2]); }
static vh::Line& v3(vh::Line& l, const Vec3& v) { return l.d(v[0]).d(v[1]).d(v[2]); }


// ---- "mutated object" stream (after a seeded stale-cache bug in Ellipsoid::setRadii went unseen): when the class name starts
// with "after_setter" the object is constructed with OTHER parameters, queried once (to warm any cache) and then brought to the
// record's parameters through its setter; everything downstream (tie with the Lean model at the record's parameters, all
// predicates) is unchanged.  Keys therefore read <Type>.<query>.after_setter....
static Vec3 V(const std::vector<double>& v, int i);
static bool mutatedCls(const std::string& cls) { return cls.rfind("after_setter", 0) == 0; }
static void warmUp(const ContactGeometry& g) {
    Vec3 q(0.31, -0.27, 0.43);
    try { g.calcSurfaceValue(q); g.calcSurfaceGradient(q); g.calcSurfaceHessian(q); } catch (const std::exception&) {}
    try { bool in; UnitVec3 n; g.findNearestPoint(q, in, n); } catch (const std::exception&) {}
    try { Vec3 c; Real r; g.getBoundingSphere(c, r); } catch (const std::exception&) {}
}
static std::unique_ptr<ContactGeometry> mk(Kind k, const std::string& cls, double a, double b, double c) {
    const bool mut = mutatedCls(cls); const double fa = 1.37 * a + 0.21, fb = 0.61 * b + 0.33, fc = 1.83 * c + 0.12;
    std::unique_ptr<ContactGeometry> g;
    switch (k) {
    case HS:  g.reset(new ContactGeometry::HalfSpace()); break;
    case SPH: { auto* o = new ContactGeometry::Sphere(mut ? fa : a); g.reset(o); if (mut) { warmUp(*o); o->setRadius(a); } break; }
    case CYL: { auto* o = new ContactGeometry::Cylinder(mut ? fa : a); g.reset(o); if (mut) { warmUp(*o); o->setRadius(a); } break; }
    case ELL: { auto* o = new ContactGeometry::Ellipsoid(mut ? Vec3(fa, fb, fc) : Vec3(a, b, c)); g.reset(o); if (mut) { warmUp(*o); o->setRadii(Vec3(a, b, c)); } break; }
    case TOR: { auto* o = new ContactGeometry::Torus(mut ? fa : a, mut ? std::min(fb, 0.8 * fa) : b); g.reset(o); if (mut) { warmUp(*o); o->setTorusRadius(a); o->setTubeRadius(b); } break; }
    case BOX: { auto* o = new ContactGeometry::Brick(mut ? Vec3(fa, fb, fc) : Vec3(a, b, c)); g.reset(o); if (mut) { warmUp(*o); o->setHalfLengths(Vec3(a, b, c)); } break; }
    }
    if (mut) vh::D(std::string("after_setter.") + Sh{k, 0, 0, 0}.name());
    return g;
}
// the same query set on the object brought to B by its setter and on a fresh object constructed with B: results must be equal
static void caseSetter(Kind k, const std::string&, const std::vector<double>& v) {
    Sh s{k, v[0], v[1], v[2]}; Vec3 p = V(v, 3), o = V(v, 6); UnitVec3 d(V(v, 9));
    std::string fn = std::string("p.setter.") + s.name();
    vh::Line in = vh::I(fn); in.s("after_setter"); for (double x : v) in.d(x); in.emit(); std::puts(("O " + fn + " -").c_str());
    std::unique_ptr<ContactGeometry> m = mk(k, "after_setter", v[0], v[1], v[2]), f = mk(k, "", v[0], v[1], v[2]);
    typedef std::function<std::vector<double>(const ContactGeometry&)> Q;
    auto run = [&](const Q& q, const ContactGeometry& g) { try { return q(g); } catch (const std::exception&) { return std::vector<double>{12345.678}; } };
    auto cmp = [&](const char* name, const Q& q) { std::vector<double> x = run(q, *m), y = run(q, *f); double worst = x.size() == y.size() ? 0 : 1;
        for (size_t i = 0; i < x.size() && i < y.size(); ++i) { if ((x[i] != x[i] && y[i] != y[i]) || x[i] == y[i]) continue; double e = std::abs(x[i] - y[i]) / std::max(1.0, std::abs(y[i])); worst = (e == e) ? std::max(worst, e) : 1; }
        vh::P("equals_fresh", std::string(s.name()) + ".after_setter." + name + ".equals_fresh", worst, 1e-13); };
    auto v3v = [](const Vec3& a) { return std::vector<double>{a[0], a[1], a[2]}; };
    cmp("calcSurfaceValue", [&](const ContactGeometry& g) { return std::vector<double>{g.calcSurfaceValue(p)}; });
    cmp("calcSurfaceGradient", [&](const ContactGeometry& g) { return v3v(g.calcSurfaceGradient(p)); });
    cmp("calcSurfaceHessian", [&](const ContactGeometry& g) { Mat33 H = g.calcSurfaceHessian(p); std::vector<double> r; for (int i = 0; i < 3; ++i) for (int j = 0; j < 3; ++j) r.push_back(H(i, j)); return r; });
    cmp("getImplicitFunction", [&](const ContactGeometry& g) { const Function& F = g.getImplicitFunction(); Vector x(3); for (int i = 0; i < 3; ++i) x[i] = p[i]; std::vector<double> r = {F.calcValue(x)};
        for (int i = 0; i < 3; ++i) { Array_<int> di(1, i); r.push_back(F.calcDerivative(di, x)); for (int j = 0; j < 3; ++j) { Array_<int> dj(2); dj[0] = i; dj[1] = j; r.push_back(F.calcDerivative(dj, x)); } } return r; });
    cmp("findNearestPoint", [&](const ContactGeometry& g) { bool in = false; UnitVec3 n(Vec3(1, 0, 0)); Vec3 q = g.findNearestPoint(p, in, n); return std::vector<double>{q[0], q[1], q[2], (double)in, n[0], n[1], n[2]}; });
    cmp("intersectsRay", [&](const ContactGeometry& g) { Real dist = -1; UnitVec3 n(Vec3(1, 0, 0)); bool hit = g.intersectsRay(o, d, dist, n); return hit ? std::vector<double>{1, dist, n[0], n[1], n[2]} : std::vector<double>{0}; });
    cmp("getBoundingSphere", [&](const ContactGeometry& g) { Vec3 c; Real r; g.getBoundingSphere(c, r); return std::vector<double>{c[0], c[1], c[2], r}; });
    cmp("calcSupportPoint", [&](const ContactGeometry& g) { return v3v(g.calcSupportPoint(d)); });
    cmp("calcSurfaceUnitNormal", [&](const ContactGeometry& g) { return v3v(Vec3(g.calcSurfaceUnitNormal(p))); });
    cmp("calcCurvature", [&](const ContactGeometry& g) { bool in; UnitVec3 n; Vec3 q = g.findNearestPoint(p, in, n); Vec2 kk; Rotation R; g.calcCurvature(q, kk, R); return std::vector<double>{kk[0], kk[1], R.asMat33()(0, 2), R.asMat33()(1, 2), R.asMat33()(2, 2)}; });
    cmp("calcGaussianCurvature", [&](const ContactGeometry& g) { return std::vector<double>{g.calcGaussianCurvature(p)}; });
    cmp("projectDownhillToNearestPoint", [&](const ContactGeometry& g) { return v3v(g.projectDownhillToNearestPoint(p)); });
    cmp("shootGeodesicInDirectionImplicitly", [&](const ContactGeometry& g) { bool in; UnitVec3 n; Vec3 q = g.findNearestPoint(p, in, n); Vec3 t = Vec3(d) - (~Vec3(d) * Vec3(n)) * Vec3(n);
        std::vector<double> r; g.shootGeodesicInDirectionImplicitly(q, t, 0.7 * s.scale(), 1e-3 * s.scale(), 1e-10, 1e-10, 10000, [&](const ContactGeometry::GeodesicKnotPoint& kp) { r.push_back(kp.arcLength); for (int i = 0; i < 3; ++i) r.push_back(kp.point[i]); for (int i = 0; i < 3; ++i) r.push_back(kp.tangent[i]); }); return r; });
}

// -------------------------------------------------------------------------------- predicates: nearest point
static void nearestPredicates(const Sh& s, const ContactGeometry* geo, const std::string& cls, const Vec3& p, const Vec3& pt,
                              bool haveFlag, bool inside, bool haveNormal, const Vec3& n, double surfTol) {
    const double L = s.scale();
    std::vector<double> hv = {p[0], p[1], p[2], s.a, s.b, s.c};
    vh::Rng g(hashDoubles(hv, 34));
    // (1) on the surface (a non-finite point fails here and nothing else is evaluated for it)
    vh::P("on_surface", key(s, "findNearestPoint", cls, "on_surface"), finite3(pt) ? std::abs(s.f(pt)) / L : NAN, surfTol);
    if (!finite3(pt)) return;
    const bool onSurf = std::abs(s.f(pt)) / L <= surfTol;
    // (2) no sampled surface point is nearer; and agrees with the exact distance where known
    double d = (p - pt).norm(), best = INFINITY;
    for (int i = 0; i < 600; ++i) best = std::min(best, (p - s.sample(g, p)).norm());
    vh::P("minimal_sampled", key(s, "findNearestPoint", cls, "minimal"), (d - best) / L, 1e-9);
    double ex = s.exactDist(p);
    if (std::isfinite(ex) && onSurf)       // (the distance of a point that is not on the surface says nothing: on_surface has failed already)
        vh::P("minimal_exact", key(s, "findNearestPoint", cls, "exact_distance"), std::abs(d - ex) / L, surfTol);
    // (3) inside flag = sign of the implicit function (outside a band around the surface)
    if (haveFlag && std::abs(s.f(p)) > 1e-9 * L)
        vh::P("inside_flag", key(s, "findNearestPoint", cls, "inside_flag"), (inside == (s.f(p) > 0)) ? 0 : 1, 0);
    // (4) unit normal, parallel to the outward gradient direction at the returned point
    if (haveNormal) {
        vh::P("unit_normal", key(s, "findNearestPoint", cls, "unit_normal"), finite3(n) ? std::abs(n.norm() - 1) : NAN, 1e-12);
        if (geo && s.k != BOX && finite3(n)) {
            Vec3 gr = geo->calcSurfaceGradient(pt);
            double gm = gr.norm();
            if (gm > 0)
                vh::P("normal_par_gradient", key(s, "findNearestPoint", cls, "normal_direction"), (n + gr / gm).norm(), 1e-7);
        }
    }
}

// -------------------------------------------------------------------------------- value / gradient / Hessian
static void fdPredicates(const Sh& s, const ContactGeometry& geo, const std::string& cls, const Vec3& p) {
    const double h = 1e-5 * std::max(1.0, s.scale());
    Vec3 g = geo.calcSurfaceGradient(p); Mat33 H = geo.calcSurfaceHessian(p);
    double gscale = std::max(g.norm(), 1e-3), hscale = 0;
    for (int i = 0; i < 3; ++i) for (int j = 0; j < 3; ++j) hscale = std::max(hscale, std::abs(H(i, j)));
    hscale = std::max(hscale, gscale);
    double eg = 0, eh = 0, es = 0;
    for (int i = 0; i < 3; ++i) {
        Vec3 e(0); e[i] = h;
        double fd = (geo.calcSurfaceValue(p + e) - geo.calcSurfaceValue(p - e)) / (2*h);
        eg = std::max(eg, std::abs(fd - g[i]));
        Vec3 gd = (geo.calcSurfaceGradient(p + e) - geo.calcSurfaceGradient(p - e)) / (2*h);
        for (int j = 0; j < 3; ++j) { eh = std::max(eh, std::abs(gd[j] - H(j, i))); es = std::max(es, std::abs(H(i, j) - H(j, i))); }
    }
    vh::P("gradient_fd", key(s, "calcSurfaceGradient", cls, "finite_difference"), eg / gscale, 1e-5);
    vh::P("hessian_fd", key(s, "calcSurfaceHessian", cls, "finite_difference"), eh / hscale, 1e-5);
    vh::P("hessian_symmetric", key(s, "calcSurfaceHessian", cls, "symmetric"), es / hscale, 1e-12);
    // the sign of the value agrees with the geometry (positive inside)
    double fv = geo.calcSurfaceValue(p);
    if (std::abs(s.f(p)) > 1e-9 * s.scale())
        vh::P("value_sign", key(s, "calcSurfaceValue", cls, "sign"), ((fv > 0) == (s.f(p) > 0)) ? 0 : 1, 0);
    // Function interface (getImplicitFunction): value/derivative mutually consistent too
    const Function& F = geo.getImplicitFunction();
    Vector x(3); double egF = 0, gsF = 1e-3;
    for (int i = 0; i < 3; ++i) {
        for (int j = 0; j < 3; ++j) x[j] = p[j];
        Array_<int> c1(1, i); double gi = F.calcDerivative(c1, x); gsF = std::max(gsF, std::abs(gi));
        x[i] = p[i] + h; double fp = F.calcValue(x); x[i] = p[i] - h; double fm = F.calcValue(x);
        egF = std::max(egF, std::abs((fp - fm) / (2*h) - gi));
    }
    vh::P("implicit_gradient_fd", key(s, "getImplicitFunction", cls, "finite_difference"), egF / gsF, 1e-5);
}

static void emitVal(const char* fn, const ContactGeometry& geo, const Vec3& p) {
    Vec3 g = geo.calcSurfaceGradient(p); Mat33 H = geo.calcSurfaceHessian(p);
    vh::Line o = vh::O(fn); o.d(geo.calcSurfaceValue(p)); v3(o, g);
    for (int i = 0; i < 3; ++i) for (int j = 0; j < 3; ++j) o.d(H(i, j));
    o.emit();
}
static void emitImp(const char* fn, const ContactGeometry& geo, const Vec3& p) {
    const Function& F = geo.getImplicitFunction();
    Vector x(3); for (int j = 0; j < 3; ++j) x[j] = p[j];
    vh::Line o = vh::O(fn); o.d(F.calcValue(x));
    for (int i = 0; i < 3; ++i) { Array_<int> c(1, i); o.d(F.calcDerivative(c, x)); }
    for (int i = 0; i < 3; ++i) for (int j = 0; j < 3; ++j) { Array_<int> c(2); c[0] = i; c[1] = j; o.d(F.calcDerivative(c, x)); }
    o.emit();
}

// -------------------------------------------------------------------------------- rays
// independent first crossing of the surface along the ray: dense sampling of the reference implicit function + bisection;
// returns NaN if no sign change is seen (a grazing double crossing between two samples is not resolved)
static double refFirstHit(const Sh& s, const Vec3& o, const Vec3& d, double far) {
    const int N = 6000; double fo = s.f(o), tp = 0;
    for (int i = 1; i <= N; ++i) {
        double t = far * i / N; double fv = s.f(o + t * d);
        if ((fv > 0) != (fo > 0)) { double lo = tp, hi = t; for (int it = 0; it < 100; ++it) { double m = 0.5 * (lo + hi); if ((s.f(o + m * d) > 0) != (fo > 0)) hi = m; else lo = m; } return 0.5 * (lo + hi); }
        tp = t;
    }
    return NAN;
}
static void rayPredicates(const Sh& s, const std::string& cls, const Vec3& o, const UnitVec3& d, bool hit, double dist, const UnitVec3& n) {
    const double L = s.scale();
    double fo = s.f(o);
    const bool offSurface = std::abs(fo) > 1e-9 * L;
    double ref = offSurface ? refFirstHit(s, o, Vec3(d), 12.0 * L + 2.0 * o.norm()) : NAN;
    if (hit) {
        // first hit: the implicit function keeps the sign it has at the origin strictly before the hit
        // (a non-finite distance fails here and nothing else is evaluated for it)
        double bad = 0;
        if (std::isfinite(dist) && offSurface)
            for (int i = 1; i < 400; ++i) { double t = dist * i / 400.0 * (1 - 1e-9); double fv = s.f(o + t * Vec3(d)); if ((fv > 0) != (fo > 0) && std::abs(fv) > 1e-9 * L) bad = 1; }
        vh::P("ray_first_hit", key(s, "intersectsRay", cls, "first_hit"), std::isfinite(dist) ? bad : NAN, 0);
        if (!std::isfinite(dist)) return;
        Vec3 hp = o + dist * Vec3(d);      // the API reports the distance along the unit direction: |hit - origin| = distance
        vh::P("ray_dist_nonneg", key(s, "intersectsRay", cls, "distance_nonneg"), -dist / L, 1e-12);
        vh::P("ray_hit_on_surface", key(s, "intersectsRay", cls, "hit_on_surface"), std::abs(s.f(hp)) / L, 1e-9);
        vh::P("ray_unit_normal", key(s, "intersectsRay", cls, "unit_normal"), finite3(Vec3(n)) ? std::abs(Vec3(n).norm() - 1) : NAN, 1e-12);
        // the reported normal is the outward unit normal of the surface at the hit point
        if (finite3(Vec3(n)) && std::abs(s.f(hp)) <= 1e-9 * L)
            vh::P("ray_normal_outward", key(s, "intersectsRay", cls, "normal_is_outward_normal"), (Vec3(n) - s.outward(hp)).norm(), 1e-7);
        // distance = independent first crossing (when the sampling resolves one)
        if (std::isfinite(ref)) vh::P("ray_distance_exact", key(s, "intersectsRay", cls, "distance_exact"), std::abs(dist - ref) / L, 1e-8);
    } else {
        // reported miss: the ray must not cross the surface
        vh::P("ray_miss_sound", key(s, "intersectsRay", cls, "miss_is_miss"), std::isfinite(ref) ? 1 : 0, 0);
    }
}
static void emitRay(const char* fn, bool hit, double dist, const UnitVec3& n) {
    vh::Line o = vh::O(fn);
    if (!hit) { o.i(0).emit(); return; }
    o.i(1).d(dist); v3(o, Vec3(n)); o.emit();
}

// -------------------------------------------------------------------------------- support / bounding
static void supportPredicates(const Sh& s, const std::string& cls, const UnitVec3& d, const Vec3& sp) {
    const double L = s.scale();
    std::vector<double> hv = {d[0], d[1], d[2], s.a, s.b, s.c};
    vh::Rng g(hashDoubles(hv, 35));
    double best = -INFINITY; for (int i = 0; i < 1500; ++i) best = std::max(best, ~Vec3(d) * s.sample(g, Vec3(0)));
    if (s.k == BOX) { for (int m = 0; m < 8; ++m) best = std::max(best, ~Vec3(d) * Vec3((m&1)?s.a:-s.a, (m&2)?s.b:-s.b, (m&4)?s.c:-s.c)); }
    vh::P("support_maximal", key(s, "calcSupportPoint", cls, "maximal"), finite3(sp) ? (best - ~Vec3(d) * sp) / L : NAN, 1e-9);
    vh::P("support_on_surface", key(s, "calcSupportPoint", cls, "on_surface"), finite3(sp) ? std::abs(s.f(sp)) / L : NAN, 1e-9);
}
static void boundPredicates(const Sh& s, const std::string& cls, const Vec3& ctr, double rad) {
    std::vector<double> hv = {s.a, s.b, s.c};
    vh::Rng g(hashDoubles(hv, 36));
    double worst = -INFINITY; for (int i = 0; i < 2000; ++i) worst = std::max(worst, (s.sample(g, Vec3(0)) - ctr).norm() - rad);
    if (s.k == BOX) worst = std::max(worst, (Vec3(s.a, s.b, s.c) - ctr).norm() - rad);
    vh::P("bounding_contains", key(s, "getBoundingSphere", cls, "contains"), std::isnan(rad) ? NAN : worst / s.scale(), 1e-12);
}

// -------------------------------------------------------------------------------- curvature
static void curvPredicates(const Sh& s, const ContactGeometry& geo, const std::string& cls, const Vec3& p, const UnitVec3& d) {
    // p is on the surface, d tangent there
    Vec3 g = geo.calcSurfaceGradient(p); Mat33 H = geo.calcSurfaceHessian(p);
    double kd = geo.calcSurfaceCurvatureInDirection(p, d);
    double kref = -(~Vec3(d) * (H * Vec3(d))) / g.norm();      // normal curvature of {f=0} with outward normal -g/|g|
    double ks = std::max(std::abs(kref), 1.0 / s.scale());
    vh::P("curvature_vs_hessian", key(s, "calcSurfaceCurvatureInDirection", cls, "vs_hessian"), std::abs(kd - kref) / ks, 1e-9);
    Vec2 kimp; Rotation R; geo.calcSurfacePrincipalCurvatures(p, kimp, R);
    double kg = geo.calcGaussianCurvature(p);
    vh::P("gauss_is_product", key(s, "calcGaussianCurvature", cls, "product_of_principal"), std::abs(kg - kimp[0]*kimp[1]) / (ks*ks), 1e-9);
    vh::P("principal_order", key(s, "calcSurfacePrincipalCurvatures", cls, "kmax_ge_kmin"), (kimp[1] - kimp[0]) / ks, 1e-12);
    // normal curvature in any tangent direction lies between the principal curvatures
    vh::P("euler_range", key(s, "calcSurfaceCurvatureInDirection", cls, "within_principal"),
          std::max(kd - kimp[0], kimp[1] - kd) / ks, 1e-9);
    if (s.k == SPH) vh::P("sphere_curvature", key(s, "calcSurfaceCurvatureInDirection", cls, "one_over_r"), std::abs(kd - 1 / s.a) * s.a, 1e-12);
    if (s.k == SPH || s.k == CYL || s.k == ELL) {
        Vec2 kan; Rotation Ra; geo.calcCurvature(p, kan, Ra);
        vh::P("analytic_vs_implicit", key(s, "calcCurvature", cls, "vs_implicit"), (kan - kimp).norm() / ks, 1e-8);
    }
}

// ================================================================================================= cases
static Vec3 V(const std::vector<double>& v, int i) { return Vec3(v[i], v[i+1], v[i+2]); }

static void caseConsts() {
    std::puts("I consts g");
    vh::O("consts").d(Eps).d(SignificantReal).d(TinyReal).d(SqrtEps).emit();
}
static void tol(double r, double a) { std::printf("T %.3g %.3g\n", r, a); }

// ---- nearest
static void caseNearest(Kind k, const std::string& cls, const std::vector<double>& v) {
    Sh s{k, 0, 0, 0}; Vec3 p; std::string fn;
    bool inside = false; UnitVec3 n(Vec3(NaN), true); Vec3 pt(NaN);
    bool haveFlag = true, haveNormal = true; double surfTol = 1e-10;
    std::unique_ptr<ContactGeometry> geo;
    try {
        switch (k) {
        case HS:  fn = "hs.nearest"; p = V(v, 0); geo = mk(HS, cls, 0, 0, 0); break;
        case SPH: fn = "sph.nearest"; s.a = v[0]; p = V(v, 1); geo = mk(SPH, cls, s.a, 0, 0); break;
        case CYL: fn = "cyl.nearest"; s.a = v[0]; p = V(v, 1); geo = mk(CYL, cls, s.a, 0, 0); break;
        case ELL: fn = "ell.nearest"; s.a = v[0]; s.b = v[1]; s.c = v[2]; p = V(v, 3); geo = mk(ELL, cls, s.a, s.b, s.c);
                  // accuracy of the vendored root finder: simple largest root 1e-13 (generic); coincident roots when a query
                  // coordinate is 0 (measured 3e-7) or radii coincide (measured 1.4e-6); realistic defects give >= 1e-3
                  surfTol = cls == "generic" ? 1e-7 : (cls.find("radii") != std::string::npos ? 1e-4 : 1e-5); break;
        case TOR: fn = "tor.nearest"; s.a = v[0]; s.b = v[1]; p = V(v, 2); geo = mk(TOR, cls, s.a, s.b, 0); break;
        case BOX: fn = "box.nearest"; s.a = v[0]; s.b = v[1]; s.c = v[2]; p = V(v, 3); break;
        }
        vh::Line in = vh::I(fn); in.s(cls); for (double x : v) in.d(x); in.emit();
        if (k == ELL) {   // comparison tolerance follows the conditioning of the largest root (see surfTol)
            if (cls == "generic") tol(1e-8, 1e-9); else if (cls.find("radii") != std::string::npos) tol(1e-3, 1e-4); else tol(1e-4, 1e-5); }
        if (k == BOX) {
            Geo::Box box(Vec3(s.a, s.b, s.c)); bool insb;
            pt = box.findClosestPointOnSurface(p, inside);
            Vec3 cb = box.findClosestPointOfSolidBox(p, insb);
            vh::Line o = vh::O(fn); v3(o, pt).i(inside); v3(o, cb).i(insb).i(box.containsPoint(p)).d(box.findDistanceSqrToPoint(p)); o.emit();
            haveNormal = false;
            double dsol = (p - cb).norm(), dref = s.f(p) >= 0 ? 0 : s.exactDist(p);
            vh::P("solid_distance", key(s, "findDistanceSqrToPoint", cls, "exact"), std::abs(std::sqrt(box.findDistanceSqrToPoint(p)) - dref) / s.scale(), 1e-12);
            vh::P("solid_closest", key(s, "findClosestPointOfSolidBox", cls, "exact"), std::abs(dsol - dref) / s.scale(), 1e-12);
        } else if (k == TOR) {
            // Torus::findNearestPoint assigns neither `inside` nor `normal`: call it twice with different presets
            bool in1 = false, in2 = true; UnitVec3 n1(Vec3(NaN), true), n2(Vec3(NaN), true);
            pt = geo->findNearestPoint(p, in1, n1);
            Vec3 pt2 = geo->findNearestPoint(p, in2, n2);
            (void)pt2;
            vh::Line o = vh::O(fn); v3(o, pt).emit();
            haveFlag = haveNormal = false;
            // the property demands an inside flag matching the sign of f and a unit normal: evaluate on what came back
            // (only in the dedicated class "any_input" of the degenerate stream: it fails for every input, finding F10)
            if (cls == "any_input") {
                vh::P("inside_flag", key(s, "findNearestPoint", cls, "inside_flag"),
                      (in1 == (s.f(p) > 0) && in2 == (s.f(p) > 0)) ? 0 : 1, 0);
                vh::P("unit_normal", key(s, "findNearestPoint", cls, "unit_normal"), finite3(Vec3(n1)) ? std::abs(Vec3(n1).norm() - 1) : NAN, 1e-12);
            }
        } else {
            pt = geo->findNearestPoint(p, inside, n);
            vh::Line o = vh::O(fn); v3(o, pt).i(inside); v3(o, Vec3(n)).emit();
        }
        vh::D(fn + "." + cls + (s.f(p) > 0 ? ".query_inside" : ".query_outside"));
        nearestPredicates(s, geo.get(), cls, p, pt, haveFlag, inside, haveNormal, Vec3(n), surfTol);
    } catch (const std::exception& e) {
        std::printf("O %s EXC:%s\n", fn.c_str(), "std::exception");
        vh::P("no_exception", key(s, "findNearestPoint", cls, "exception"), 1, 0);
    }
}

// ---- value / gradient / Hessian
static void caseVal(Kind k, const std::string& cls, const std::vector<double>& v) {
    Sh s{k, 0, 0, 0}; Vec3 p; std::string fn; std::unique_ptr<ContactGeometry> geo;
    switch (k) {
    case HS:  fn = "hs.val"; p = V(v, 0); geo = mk(HS, cls, 0, 0, 0); break;
    case SPH: fn = "sph.val"; s.a = v[0]; p = V(v, 1); geo = mk(SPH, cls, s.a, 0, 0); break;
    case CYL: fn = "cyl.val"; s.a = v[0]; p = V(v, 1); geo = mk(CYL, cls, s.a, 0, 0); break;
    case ELL: fn = "ell.val"; s.a = v[0]; s.b = v[1]; s.c = v[2]; p = V(v, 3); geo = mk(ELL, cls, s.a, s.b, s.c); break;
    case TOR: fn = "tor.val"; s.a = v[0]; s.b = v[1]; p = V(v, 2); geo = mk(TOR, cls, s.a, s.b, 0); break;
    default: return;
    }
    vh::Line in = vh::I(fn); in.s(cls); for (double x : v) in.d(x); in.emit();
    emitVal(fn.c_str(), *geo, p);
    if (k == SPH) emitImp("sph.imp", *geo, p);
    if (k == CYL) emitImp("cyl.imp", *geo, p);
    vh::D(fn + "." + cls);
    fdPredicates(s, *geo, cls, p);
}

// ---- rays
static void caseRay(Kind k, const std::string& cls, const std::vector<double>& v) {
    Sh s{k, 0, 0, 0}; Vec3 o, dv; std::string fn; std::unique_ptr<ContactGeometry> geo;
    switch (k) {
    case HS:  fn = "hs.ray"; o = V(v, 0); dv = V(v, 3); geo = mk(HS, cls, 0, 0, 0); break;
    case SPH: fn = "sph.ray"; s.a = v[0]; o = V(v, 1); dv = V(v, 4); geo = mk(SPH, cls, s.a, 0, 0); break;
    case CYL: fn = "cyl.ray"; s.a = v[0]; o = V(v, 1); dv = V(v, 4); geo = mk(CYL, cls, s.a, 0, 0); break;
    case ELL: fn = "ell.ray"; s.a = v[0]; s.b = v[1]; s.c = v[2]; o = V(v, 3); dv = V(v, 6); geo = mk(ELL, cls, s.a, s.b, s.c); break;
    default: return;
    }
    UnitVec3 d(dv, true);   // the record carries the already normalised direction
    vh::Line in = vh::I(fn); in.s(cls); for (double x : v) in.d(x); in.emit();
    double dist = NaN; UnitVec3 n(Vec3(NaN), true);
    bool hit = geo->intersectsRay(o, d, dist, n);
    emitRay(fn.c_str(), hit, dist, n);
    vh::D(fn + "." + cls + (hit ? ".hit" : ".miss"));
    rayPredicates(s, cls, o, d, hit, dist, n);
}

// ---- support, bounding sphere
static void caseSupport(Kind k, const std::string& cls, const std::vector<double>& v) {
    Sh s{k, 0, 0, 0}; Vec3 dv; std::string fn; std::unique_ptr<ContactGeometry> geo;
    switch (k) {
    case SPH: fn = "sph.support"; s.a = v[0]; dv = V(v, 1); geo = mk(SPH, cls, s.a, 0, 0); break;
    case ELL: fn = "ell.support"; s.a = v[0]; s.b = v[1]; s.c = v[2]; dv = V(v, 3); geo = mk(ELL, cls, s.a, s.b, s.c); break;
    case BOX: fn = "box.support"; s.a = v[0]; s.b = v[1]; s.c = v[2]; dv = V(v, 3); geo = mk(BOX, cls, s.a, s.b, s.c); break;
    default: return;
    }
    UnitVec3 d(dv, true);
    vh::Line in = vh::I(fn); in.s(cls); for (double x : v) in.d(x); in.emit();
    Vec3 sp = geo->calcSupportPoint(d);
    vh::Line o = vh::O(fn); v3(o, sp).emit();
    vh::D(fn + "." + cls);
    supportPredicates(s, cls, d, sp);
}
static void caseBound(Kind k, const std::string& cls, const std::vector<double>& v) {
    Sh s{k, 0, 0, 0}; std::string fn; std::unique_ptr<ContactGeometry> geo;
    switch (k) {
    case SPH: fn = "sph.bound"; s.a = v[0]; geo = mk(SPH, cls, s.a, 0, 0); break;
    case ELL: fn = "ell.bound"; s.a = v[0]; s.b = v[1]; s.c = v[2]; geo = mk(ELL, cls, s.a, s.b, s.c); break;
    case TOR: fn = "tor.bound"; s.a = v[0]; s.b = v[1]; geo = mk(TOR, cls, s.a, s.b, 0); break;
    case BOX: fn = "box.bound"; s.a = v[0]; s.b = v[1]; s.c = v[2]; geo = mk(BOX, cls, s.a, s.b, s.c); break;
    default: return;
    }
    vh::Line in = vh::I(fn); in.s(cls); for (double x : v) in.d(x); in.emit();
    Vec3 ctr; Real rad; geo->getBoundingSphere(ctr, rad);
    vh::Line o = vh::O(fn); v3(o, ctr).d(rad).emit();
    vh::D(fn + "." + cls);
    boundPredicates(s, cls, ctr, rad);
}

// ---- curvature (p must be on the surface; d tangent)
static void caseCurv(Kind k, const std::string& cls, const std::vector<double>& v) {
    Sh s{k, 0, 0, 0}; Vec3 p, dv; std::string fn; std::unique_ptr<ContactGeometry> geo;
    switch (k) {
    case SPH: fn = "sph.curv"; s.a = v[0]; p = V(v, 1); dv = V(v, 4); geo = mk(SPH, cls, s.a, 0, 0); break;
    case CYL: fn = "cyl.curv"; s.a = v[0]; p = V(v, 1); dv = V(v, 4); geo = mk(CYL, cls, s.a, 0, 0); break;
    case ELL: fn = "ell.curv"; s.a = v[0]; s.b = v[1]; s.c = v[2]; p = V(v, 3); dv = V(v, 6); geo = mk(ELL, cls, s.a, s.b, s.c); break;
    case TOR: fn = "tor.curv"; s.a = v[0]; s.b = v[1]; p = V(v, 2); dv = V(v, 5); geo = mk(TOR, cls, s.a, s.b, 0); break;
    default: return;
    }
    UnitVec3 d(dv, true);
    vh::Line in = vh::I(fn); in.s(cls); for (double x : v) in.d(x); in.emit();
    vh::O(fn).d(geo->calcSurfaceCurvatureInDirection(p, d)).d(geo->calcGaussianCurvature(p)).emit();
    vh::D(fn + "." + cls);
    curvPredicates(s, *geo, cls, p, d);
}

// ---- ellipsoid helpers findPointInSameDirection / findUnitNormalAtPoint
static void caseEllDir(const std::string& cls, const std::vector<double>& v) {
    Sh s{ELL, v[0], v[1], v[2]}; Vec3 q = V(v, 3);
    ContactGeometry::Ellipsoid e(mutatedCls(cls) ? Vec3(1.37 * s.a + 0.21, 0.61 * s.b + 0.33, 1.83 * s.c + 0.12) : Vec3(s.a, s.b, s.c));
    if (mutatedCls(cls)) { warmUp(e); e.setRadii(Vec3(s.a, s.b, s.c)); }
    vh::Line in = vh::I("ell.dir"); in.s(cls); for (double x : v) in.d(x); in.emit();
    Vec3 pd = e.findPointInSameDirection(q); UnitVec3 n = e.findUnitNormalAtPoint(q);
    vh::Line o = vh::O("ell.dir"); v3(o, pd); v3(o, Vec3(n)).emit();
    vh::D("ell.dir." + cls);
    vh::P("same_direction_on_surface", key(s, "findPointInSameDirection", cls, "on_surface"), std::abs(s.f(pd)) / s.scale(), 1e-12);
    vh::P("same_direction_parallel", key(s, "findPointInSameDirection", cls, "parallel"), (pd % q).norm() / (pd.norm() * q.norm()), 1e-12);
    vh::P("unit_normal", key(s, "findUnitNormalAtPoint", cls, "unit_normal"), std::abs(Vec3(n).norm() - 1), 1e-12);
    // the point with that normal is the radial projection
    Vec3 back = e.findPointWithThisUnitNormal(n);
    vh::P("normal_roundtrip", key(s, "findPointWithThisUnitNormal", cls, "roundtrip"), (back - pd).norm() / s.scale(), 1e-10);
}

// ---- smooth height map: predicates only (no closed-form model)
static void caseHeightMap(const std::string& cls, const std::vector<double>& v) {
    // v: 16 heights on a 4x4... we use a 6x6 grid of heights, spacing 1, origin (-2.5,-2.5); then a query (x,y,z)
    const int N = 6;
    Matrix f(N, N); for (int i = 0; i < N; ++i) for (int j = 0; j < N; ++j) f(i, j) = v[i*N + j];
    Vec3 p = V(v, N*N);
    vh::Line in = vh::I("p.hmap"); in.s(cls); for (double x : v) in.d(x); in.emit();
    std::puts("O p.hmap -");
    vh::D("p.hmap." + cls);
    BicubicSurface surf(Vec2(-2.5, -2.5), Vec2(1, 1), f, 0);
    ContactGeometry::SmoothHeightMap hm(surf);
    Sh s{HS, 0, 0, 0};
    const std::string nm = "SmoothHeightMap";
    auto K = [&](const char* call, const char* pred) { return nm + "." + call + "." + cls + "." + pred; };
    // value = height - z ; sign = inside iff below the surface
    BicubicSurface::PatchHint hint;
    double z = surf.calcValue(Vec2(p[0], p[1]), hint);
    vh::P("value_is_height_minus_z", K("calcSurfaceValue", "definition"), std::abs(hm.calcSurfaceValue(p) - (z - p[2])), 1e-12);
    // interpolation: smoothness 0 passes through the grid
    double eint = 0; for (int i = 0; i < N; ++i) for (int j = 0; j < N; ++j) eint = std::max(eint, std::abs(surf.calcValue(Vec2(-2.5 + i, -2.5 + j), hint) - f(i, j)));
    vh::P("interpolates_grid", K("BicubicSurface", "interpolation"), eint, 1e-10);
    // gradient / Hessian by finite differences
    const double h = 1e-5; Vec3 g = hm.calcSurfaceGradient(p); Mat33 H = hm.calcSurfaceHessian(p);
    double eg = 0, eh = 0, hs = 1;
    for (int i = 0; i < 3; ++i) for (int j = 0; j < 3; ++j) hs = std::max(hs, std::abs(H(i, j)));
    for (int i = 0; i < 3; ++i) {
        Vec3 e(0); e[i] = h;
        eg = std::max(eg, std::abs((hm.calcSurfaceValue(p + e) - hm.calcSurfaceValue(p - e)) / (2*h) - g[i]));
        Vec3 gd = (hm.calcSurfaceGradient(p + e) - hm.calcSurfaceGradient(p - e)) / (2*h);
        for (int j = 0; j < 3; ++j) eh = std::max(eh, std::abs(gd[j] - H(j, i)));
    }
    vh::P("gradient_fd", K("calcSurfaceGradient", "finite_difference"), eg / std::max(1.0, g.norm()), 1e-6);
    vh::P("hessian_fd", K("calcSurfaceHessian", "finite_difference"), eh / hs, 1e-5);
    // curvature: analytic paraboloid (calcCurvature) vs implicit principal curvatures at the surface point above (x,y)
    Vec3 ps(p[0], p[1], z); Vec2 kan, kimp; Rotation Ra, Ri;
    hm.calcCurvature(ps, kan, Ra); hm.calcSurfacePrincipalCurvatures(ps, kimp, Ri);
    vh::P("analytic_vs_implicit", K("calcCurvature", "vs_implicit"), (kan - kimp).norm() / std::max(1.0, kimp.norm()), 1e-8);
    // bounding sphere contains sampled surface points
    Vec3 ctr; Real rad; hm.getBoundingSphere(ctr, rad);
    std::vector<double> hv(v.begin(), v.begin() + 8); vh::Rng gg(hashDoubles(hv, 37)); double worst = -INFINITY;
    for (int i = 0; i < 1500; ++i) { double x = gg.range(-2.5, 2.5), y = gg.range(-2.5, 2.5); worst = std::max(worst, (Vec3(x, y, surf.calcValue(Vec2(x, y), hint)) - ctr).norm() - rad); }
    vh::P("bounding_contains", K("getBoundingSphere", "contains"), worst, 1e-12);
    // nearest point / ray queries: the property lists the height map; evaluate what comes back (class "any_input"
    // of the degenerate stream only: SmoothHeightMap::findNearestPoint / intersectsRay are stubs, finding F11)
    if (cls == "any_input") {
        bool inside = false; UnitVec3 n(Vec3(NaN), true);
        Vec3 pt = hm.findNearestPoint(p, inside, n);
        vh::P("on_surface", K("findNearestPoint", "on_surface"),
              finite3(pt) ? std::abs(surf.calcValue(Vec2(pt[0], pt[1]), hint) - pt[2]) : NAN, 1e-9);
        // a ray straight down from above the surface must hit it at distance (origin.z - height)
        Vec3 o(p[0], p[1], 5.0); double dist = NaN; UnitVec3 rn(Vec3(NaN), true);
        bool hit = hm.intersectsRay(o, UnitVec3(Vec3(0, 0, -1), true), dist, rn);
        vh::P("ray_first_hit", K("intersectsRay", "first_hit"), (hit && std::isfinite(dist)) ? std::abs(dist - (5.0 - z)) : NAN, 1e-9);
    }
}

// ---- ContactGeometry::Brick::findNearestPoint (the property names the brick among the shapes): predicates only
static void caseBrickStub(const std::string& cls, const std::vector<double>& v) {
    Sh s{BOX, v[0], v[1], v[2]}; Vec3 p = V(v, 3);
    vh::Line in = vh::I("p.brick"); in.s(cls); for (double x : v) in.d(x); in.emit();
    std::puts("O p.brick -");
    vh::D("p.brick." + cls);
    ContactGeometry::Brick br(Vec3(s.a, s.b, s.c));
    bool inside = false; UnitVec3 n(Vec3(NaN), true); Vec3 pt(NaN); bool threw = false;
    try { pt = br.findNearestPoint(p, inside, n); } catch (const std::exception&) { threw = true; }
    if (threw) { vh::D("unimplemented.Brick.findNearestPoint.throws"); vh::P("returns_point", key(s, "findNearestPoint", cls, "not_implemented_exception"), 1, 0); }
    else nearestPredicates(s, nullptr, cls, p, pt, true, inside, true, Vec3(n), 1e-10);
    // ray queries of shapes the code declares unimplemented (loud): recorded as observations only
    double dist; threw = false;
    try { br.intersectsRay(Vec3(2 * s.a, 0, 0), UnitVec3(Vec3(-1, 0, 0), true), dist, n); } catch (const std::exception&) { threw = true; }
    if (threw) vh::D("unimplemented.Brick.intersectsRay.throws");
    ContactGeometry::Torus tor(2, 0.5); threw = false;
    try { tor.intersectsRay(Vec3(5, 0, 0), UnitVec3(Vec3(-1, 0, 0), true), dist, n); } catch (const std::exception&) { threw = true; }
    if (threw) vh::D("unimplemented.Torus.intersectsRay.throws");
}

// ================================================================================================= generators
static Vec3 rndVec(vh::Rng& g, double lo, double hi) { return Vec3(g.signedMag(lo, hi), g.signedMag(lo, hi), g.signedMag(lo, hi)); }
static Vec3 rndUnit(vh::Rng& g) { double z = g.range(-1, 1), ph = g.range(0, 2*PI), s = std::sqrt(1 - z*z); return Vec3(UnitVec3(Vec3(s*std::cos(ph), s*std::sin(ph), z))); }
static std::vector<double> cat(std::initializer_list<double> a, const Vec3& p) { std::vector<double> v(a); v.push_back(p[0]); v.push_back(p[1]); v.push_back(p[2]); return v; }
static std::vector<double> cat(std::vector<double> v, const Vec3& p) { v.push_back(p[0]); v.push_back(p[1]); v.push_back(p[2]); return v; }
// a tangent unit vector at surface point p (gradient gr)
static Vec3 tangentAt(vh::Rng& g, const Vec3& gr) { Vec3 n = gr / gr.norm(); Vec3 t; do { Vec3 r = rndUnit(g); t = r - (~r * n) * n; } while (t.norm() < 0.2); return Vec3(UnitVec3(t)); }

// Stratified ray stream: every (shape with intersectsRay) x (origin class) x (heading class) combination is visited in turn,
// so that each quick run contains a guaranteed share of every class.  Origin classes: inside / outside / just inside /
// just outside the surface (1e-3 of the size); headings: inward / outward / tangential (relative to the surface normal at the
// nearby surface point) and the six axis directions.
static void stratifiedRay(vh::Rng& g, long counter) {
    static const Kind shapes[4] = {HS, SPH, CYL, ELL};
    static const char* oname[4] = {"inside", "outside", "just_inside", "just_outside"};
    static const char* hname[4] = {"inward", "outward", "tangential", "axis"};
    Kind k = shapes[counter % 4]; int oc = (counter / 4) % 4, hc = (counter / 16) % 4; int axis = (counter / 64) % 6;
    Sh s{k, 0, 0, 0}; std::vector<double> par;
    switch (k) { case HS: break; case SPH: case CYL: s.a = g.range(0.3, 3); par = {s.a}; break;
      default: s.a = g.range(0.5, 3); s.b = g.range(0.5, 3); s.c = g.range(0.5, 3); par = {s.a, s.b, s.c}; break; }
    const double L = s.scale(), minDim = k == ELL ? std::min(s.a, std::min(s.b, s.c)) : (k == HS ? 1.0 : s.a);
    Vec3 S = s.sample(g, Vec3(0)), N = s.outward(S);
    double delta = (oc == 0) ? g.range(0.15, 0.7) * minDim : (oc == 1) ? g.range(0.1, 2.0) * L : 1e-3 * L;
    Vec3 o = (oc == 0 || oc == 2) ? S - delta * N : S + delta * N;
    if ((oc == 0 || oc == 2) && !(s.f(o) > 0)) o = S - 0.05 * minDim * N;     // stay strictly inside
    Vec3 d;
    if (hc == 0) d = Vec3(UnitVec3(-N + 0.3 * rndUnit(g)));
    else if (hc == 1) d = Vec3(UnitVec3(N + 0.3 * rndUnit(g)));
    else if (hc == 2) { Vec3 t; do { Vec3 r = rndUnit(g); t = r - (~r * N) * N; } while (t.norm() < 0.3); d = Vec3(UnitVec3(t)); }
    else { d = Vec3(0); d[axis % 3] = axis < 3 ? 1 : -1; }
    // the two known degenerate directions live in the degenerate stream under their own keys
    if (k == CYL && std::hypot(d[0], d[1]) < 1e-3) { d = Vec3(UnitVec3(Vec3(0.6, 0, d[2] < 0 ? -0.8 : 0.8))); }
    caseRay(k, std::string(oname[oc]) + "." + hname[hc], cat(cat(par, o), d));
}

static void generic(vh::Rng& g, long n) {
    caseConsts();
    for (long it = 0; it < n; ++it) {
        int shape = g.below(6), what = g.below(6);
        double r = g.range(0.3, 3);
        Vec3 radii(g.range(0.5, 3), g.range(0.5, 3), g.range(0.5, 3));
        // keep the ellipsoid axes distinct (generic class): umbilic / spheroid cases live in the degenerate stream
        if (std::abs(radii[0] - radii[1]) < 0.05) radii[1] += 0.1;
        if (std::abs(radii[1] - radii[2]) < 0.05) radii[2] += 0.1;
        if (std::abs(radii[0] - radii[2]) < 0.05) radii[0] += 0.21;
        double R = g.range(1, 3), tr = g.range(0.2, 0.9) * R;
        Vec3 h(g.range(0.3, 3), g.range(0.3, 3), g.range(0.3, 3));
        Vec3 p = rndVec(g, 0.05, 4);   // every component well away from 0: generic position
        Vec3 o = rndVec(g, 0.05, 5), d = rndUnit(g);
        if (g.coin()) d = Vec3(UnitVec3(-o + rndVec(g, 0.01, 1.5)));   // aim roughly at the shape so that rays hit often
        Sh s{(Kind)shape, 0, 0, 0};
        std::vector<double> par;
        switch (shape) {
        case HS: par = {}; break;
        case SPH: par = {r}; s.a = r; break;
        case CYL: par = {r}; s.a = r; break;
        case ELL: par = {radii[0], radii[1], radii[2]}; s.a = radii[0]; s.b = radii[1]; s.c = radii[2]; break;
        case TOR: par = {R, tr}; s.a = R; s.b = tr; break;
        case BOX: par = {h[0], h[1], h[2]}; s.a = h[0]; s.b = h[1]; s.c = h[2]; break;
        }
        // one query in three is forced strictly inside the shape (a surface point moved inward along the normal)
        if (it % 3 == 1 && shape != HS) {
            vh::Rng gi(g.next()); Vec3 S = s.sample(gi, Vec3(0)), Nn = s.outward(S);
            double minDim = shape == ELL || shape == BOX ? std::min(s.a, std::min(s.b, s.c)) : (shape == TOR ? s.b : s.a);
            Vec3 q = S - g.range(0.05, 0.6) * minDim * Nn;
            if (s.f(q) > 0 && std::abs(q[0]) > 1e-3 && std::abs(q[1]) > 1e-3 && std::abs(q[2]) > 1e-3) p = q;
        }
        // keep generic queries away from the singular sets: surface itself (flag band), torus centre circle, axes
        if (std::abs(s.f(p)) < 1e-3 * s.scale()) p *= 1.01;
        if (shape == TOR && std::hypot(std::hypot(p[0], p[1]) - R, p[2]) < 0.05) p[2] += 0.1;
        switch (what) {
        case 0: caseNearest((Kind)shape, "generic", cat(par, p)); break;
        case 1: if (shape != BOX) caseVal((Kind)shape, "generic", cat(par, p)); else caseNearest(BOX, "generic", cat(par, p)); break;
        case 2: if (shape == HS || shape == SPH || shape == CYL || shape == ELL) {
                    if (shape == CYL && std::hypot(d[0], d[1]) < 0.05) d = Vec3(UnitVec3(d + Vec3(0.3, 0.2, 0)));
                    if (shape == HS && std::abs(d[0]) < 0.02) d = Vec3(UnitVec3(d + Vec3(0.2, 0, 0)));
                    if (std::abs(s.f(o)) < 1e-3 * s.scale()) o *= 1.01;
                    caseRay((Kind)shape, "generic", cat(cat(par, o), d));
                } else caseNearest((Kind)shape, "generic", cat(par, p));
                break;
        case 3: if (shape == SPH || shape == ELL || shape == BOX) caseSupport((Kind)shape, "generic", cat(par, rndUnit(g)));
                else caseNearest((Kind)shape, "generic", cat(par, p));
                break;
        case 4: if (shape == SPH || shape == ELL || shape == TOR || shape == BOX) caseBound((Kind)shape, "generic", par);
                else if (shape == HS) caseVal(HS, "generic", cat(par, p));
                else caseVal(CYL, "generic", cat(par, p));
                break;
        case 5: if (shape == SPH || shape == CYL || shape == ELL || shape == TOR) {
                    vh::Rng gs(g.next()); Vec3 ps = s.sample(gs, p);
                    // tangent from the reference gradient (finite differences of the reference f are not needed: use geometry)
                    std::unique_ptr<ContactGeometry> geo;
                    if (shape == SPH) geo.reset(new ContactGeometry::Sphere(r)); else if (shape == CYL) geo.reset(new ContactGeometry::Cylinder(r));
                    else if (shape == ELL) geo.reset(new ContactGeometry::Ellipsoid(radii)); else geo.reset(new ContactGeometry::Torus(R, tr));
                    Vec3 t = tangentAt(g, geo->calcSurfaceGradient(ps));
                    caseCurv((Kind)shape, "generic", cat(cat(par, ps), t));
                } else if (shape == HS) caseNearest(HS, "generic", cat(par, p));
                else caseSupport(BOX, "generic", cat(par, rndUnit(g)));
                break;
        }
        if (it % 3 == 0) stratifiedRay(g, it / 3);
        if (it % 7 == 0) caseEllDir("generic", cat({radii[0], radii[1], radii[2]}, p));
        if (it % 11 == 0) {
            std::vector<double> hv; for (int i = 0; i < 36; ++i) hv.push_back(g.range(-0.5, 0.5));
            caseHeightMap("generic", cat(hv, Vec3(g.range(-2, 2), g.range(-2, 2), g.range(-1, 1))));
        }
    }
}

// degenerate witnesses: every class is named; the same predicates are evaluated
static void degenerate(vh::Rng& g, long n) {
    caseConsts();
    long reps = std::max<long>(1, n / 200);
    for (long it = 0; it < reps; ++it) {
        double r = it == 0 ? 1.5 : g.range(0.3, 3);
        Vec3 a = it == 0 ? Vec3(3, 2, 1) : Vec3(g.range(2.2, 3), g.range(1.3, 2), g.range(0.5, 1.1));   // a > b > c
        double R = it == 0 ? 2 : g.range(1, 3), tr = it == 0 ? 0.5 : g.range(0.2, 0.9) * R;
        Vec3 h = it == 0 ? Vec3(1, 2, 3) : Vec3(g.range(0.3, 3), g.range(0.3, 3), g.range(0.3, 3));
        double z = g.range(-2, 2);
        // ---- sphere
        caseNearest(SPH, "center", {r, 0, 0, 0});
        caseNearest(SPH, "on_surface", cat({r}, r * rndUnit(g)));
        caseNearest(SPH, "on_axis", {r, 0, 0, 0.3 * r});
        caseRay(SPH, "from_center", cat({r, 0, 0, 0}, rndUnit(g)));
        caseRay(SPH, "tangent", {r, -2 * r, r, 0, 1, 0, 0});
        caseRay(SPH, "origin_on_surface_inward", {r, r, 0, 0, -1, 0, 0});
        caseRay(SPH, "origin_on_surface_outward", {r, r, 0, 0, 1, 0, 0});
        caseVal(SPH, "center", {r, 0, 0, 0});
        // ---- half space
        caseNearest(HS, "on_surface", {0, g.range(-2, 2), g.range(-2, 2)});
        caseRay(HS, "parallel", {-1, 0, 0, 0, 1, 0});
        caseRay(HS, "in_plane", {0, 0, 0, 0, 0, 1});
        caseRay(HS, "origin_on_surface_inward", {0, 1, 2, 1, 0, 0});
        caseRay(HS, "from_inside_outward", {2, 0, 0, -1, 0, 0});
        // ---- cylinder
        caseNearest(CYL, "on_axis", {r, 0, 0, z});
        caseNearest(CYL, "on_surface", {r, r, 0, z});
        caseRay(CYL, "parallel_axis_outside", {r, 2 * r, 0, 0, 0, 0, 1});
        caseRay(CYL, "parallel_axis_inside", {r, 0.5 * r, 0, 0, 0, 0, 1});
        caseRay(CYL, "from_axis", {r, 0, 0, z, 1, 0, 0});
        caseRay(CYL, "tangent", {r, -2 * r, r, 0, 1, 0, 0});
        caseVal(CYL, "on_axis", {r, 0, 0, z});
        // ---- ellipsoid (a > b > c): centre, axes and symmetry planes, inside / outside the evolute.
        // From the second parameter set on the axes are permuted at random (review D: "always a > b > c"): the class names
        // speak of the major / middle / minor axis, i.e. of the largest / middle / smallest radius, whichever coordinate it is.
        int perm[3] = {0, 1, 2};
        if (it > 0) { int k1 = g.below(3), k2 = g.below(2); std::swap(perm[2], perm[k1]); std::swap(perm[1], perm[k2]); vh::D(std::string("ell.degenerate.axis_permutation.") + char('0' + perm[0]) + char('0' + perm[1]) + char('0' + perm[2])); }
        auto ELLn = [&](const char* cls, std::vector<double> v) {     // v = radii(3) query(3) in the sorted frame
            std::vector<double> w(6); for (int i = 0; i < 3; ++i) { w[perm[i]] = v[i]; w[3 + perm[i]] = v[3 + i]; } caseNearest(ELL, cls, w); };
        #define caseNearestELL(cls, ...) ELLn(cls, std::vector<double>(__VA_ARGS__))
        caseNearestELL("center", {a[0], a[1], a[2], 0, 0, 0});
        caseNearestELL("major_axis_inside_evolute", {a[0], a[1], a[2], 0.1 * (a[0] - a[1]*a[1]/a[0]) * 0.3, 0, 0});
        caseNearestELL("major_axis_near_tip", {a[0], a[1], a[2], 0.98 * a[0], 0, 0});
        caseNearestELL("major_axis_outside", {a[0], a[1], a[2], 1.7 * a[0], 0, 0});
        caseNearestELL("minor_axis_inside", {a[0], a[1], a[2], 0, 0, 0.4 * a[2]});
        caseNearestELL("minor_axis_outside", {a[0], a[1], a[2], 0, 0, 1.9 * a[2]});
        caseNearestELL("middle_axis_inside", {a[0], a[1], a[2], 0, 0.3 * a[1], 0});
        caseNearestELL("symmetry_plane", {a[0], a[1], a[2], 0.1, 0.05, 0});
        caseNearestELL("symmetry_plane_xz_inside", {a[0], a[1], a[2], 0.2, 0, 0.1 * a[2]});
        caseNearestELL("symmetry_plane_outside", {a[0], a[1], a[2], 1.5 * a[0], 0.7 * a[1], 0});
        caseNearest(ELL, "on_surface", cat({a[0], a[1], a[2]}, [&] { Vec3 u = rndUnit(g); return Vec3(a[0]*u[0], a[1]*u[1], a[2]*u[2]); }()));
        caseNearest(ELL, "sphere_radii", cat({r, r, r}, rndVec(g, 0.1, 3)));
        caseNearest(ELL, "spheroid_radii", cat({a[0], a[0], a[2]}, rndVec(g, 0.1, 3)));
        // spheroids queried on the symmetry axis / in the equatorial plane (root of multiplicity 4 of the code's polynomial)
        { double e = a[0], pl = a[2];      // oblate: (e, e, pl) with e > pl; prolate: (pl, pl, e)
          caseNearestELL("oblate_spheroid_on_axis_inside", {e, e, pl, 0, 0, 0.5 * pl});
          caseNearestELL("oblate_spheroid_on_axis_outside", {e, e, pl, 0, 0, 1.8 * pl});
          caseNearestELL("oblate_spheroid_equatorial_plane_outside", {e, e, pl, 1.3 * e, 0.9 * e, 0});
          caseNearestELL("oblate_spheroid_equatorial_plane_near_rim", {e, e, pl, 0.69 * e, 0.7 * e, 0});
          caseNearestELL("prolate_spheroid_on_axis_outside", {pl, pl, e, 0, 0, 1.6 * e});
          // between the centre of curvature of the tip (z = e - pl^2/e, the cusp of the evolute, where the code's polynomial has a
          // root of multiplicity 6 and the root finder's accuracy drops to ~3e-4 L: observed, not flagged) and the tip
          caseNearestELL("prolate_spheroid_on_axis_near_tip", {pl, pl, e, 0, 0, e - 0.4 * pl * pl / e});
          caseNearestELL("prolate_spheroid_equatorial_plane_outside", {pl, pl, e, 1.4 * pl, -0.8 * pl, 0});
          caseNearestELL("prolate_spheroid_generic", {pl, pl, e, 0.3 * pl, -0.4 * pl, 0.5 * e}); }
        // rays nearly parallel to the half-space plane, on both sides of the code's threshold |d_x| < SignificantReal,
        // and nearly parallel to the cylinder axis (0 < |d_xy| < 1e-3, replaced in the generic stream)
        for (double dx : {3e-13, -3e-13, 1e-9, -1e-9, 1e-6}) { double dy = std::sqrt(1 - dx*dx); caseRay(HS, "nearly_parallel", {dx > 0 ? -1.0 : 1.0, 0.5, 0.2, dx, dy, 0}); }
        for (double dx : {1e-15, -1e-16}) { double dy = std::sqrt(1 - dx*dx); caseRay(HS, "below_parallel_threshold", {dx > 0 ? -1.0 : 1.0, 0.5, 0.2, dx, dy, 0}); }
        for (double e : {5e-4, 1e-5, 1e-7}) {
            caseRay(CYL, "nearly_parallel_axis_inside", cat({r, 0.4 * r, 0.1 * r, z}, Vec3(UnitVec3(Vec3(e, 0.3 * e, 1)))));
            caseRay(CYL, "nearly_parallel_axis_outside", cat({r, 1.5 * r, 0.2 * r, z}, Vec3(UnitVec3(Vec3(-e, -0.1 * e, -1))))); }
        caseRay(ELL, "from_center", cat({a[0], a[1], a[2], 0, 0, 0}, rndUnit(g)));
        caseRay(ELL, "along_axis", {a[0], a[1], a[2], -2 * a[0], 0, 0, 1, 0, 0});
        caseSupport(ELL, "axis_direction", {a[0], a[1], a[2], 0, 0, 1});
        caseVal(ELL, "center", {a[0], a[1], a[2], 0, 0, 0});
        // ---- torus
        caseNearest(TOR, "on_z_axis", {R, tr, 0, 0, 0.3});
        caseNearest(TOR, "center", {R, tr, 0, 0, 0});
        caseNearest(TOR, "on_center_circle", {R, tr, R, 0, 0});
        caseNearest(TOR, "on_surface", {R, tr, R + tr, 0, 0});
        caseVal(TOR, "on_center_circle", {R, tr, 0.6 * R, 0.8 * R, 0});
        // ---- brick
        caseNearest(BOX, "center", {h[0], h[1], h[2], 0, 0, 0});
        caseNearest(BOX, "on_face", {h[0], h[1], h[2], h[0], 0.3 * h[1], -0.2 * h[2]});
        caseNearest(BOX, "on_vertex", {h[0], h[1], h[2], h[0], -h[1], h[2]});
        caseNearest(BOX, "tie_inside", {1, 1, 1, 0.5, 0.5, 0.5});
        caseNearest(BOX, "outside_corner", {h[0], h[1], h[2], 2 * h[0], 2 * h[1], -3 * h[2]});
        caseSupport(BOX, "axis_direction", {h[0], h[1], h[2], 0, 1, 0});
        caseSupport(SPH, "axis_direction", {r, 0, 0, -1});
        // ---- height map on the boundary of its domain
        // ---- mutated objects: every type with a setter, the same query kinds under class "after_setter" + equality with a fresh object
        { Vec3 q = rndVec(g, 0.3, 2.5), oo = rndVec(g, 1.5, 4), dd = Vec3(UnitVec3(-oo + rndVec(g, 0.05, 0.5)));
          caseNearest(SPH, "after_setter", cat({r}, q)); caseVal(SPH, "after_setter", cat({r}, q)); caseRay(SPH, "after_setter", cat(cat({r}, oo), dd)); caseBound(SPH, "after_setter", {r}); caseSupport(SPH, "after_setter", cat({r}, dd));
          caseNearest(CYL, "after_setter", cat({r}, q)); caseVal(CYL, "after_setter", cat({r}, q)); caseRay(CYL, "after_setter", cat(cat({r}, oo), dd));
          caseNearest(ELL, "after_setter", cat({a[0], a[1], a[2]}, q)); caseVal(ELL, "after_setter", cat({a[0], a[1], a[2]}, q)); caseRay(ELL, "after_setter", cat(cat({a[0], a[1], a[2]}, oo), dd));
          caseBound(ELL, "after_setter", {a[0], a[1], a[2]}); caseSupport(ELL, "after_setter", cat({a[0], a[1], a[2]}, dd)); caseEllDir("after_setter", cat({a[0], a[1], a[2]}, q));
          caseNearest(TOR, "after_setter", {R, tr, R + 1.7 * tr, 0.3, 0.4}); caseVal(TOR, "after_setter", cat({R, tr}, q)); caseBound(TOR, "after_setter", {R, tr});
          caseSupport(BOX, "after_setter", cat({h[0], h[1], h[2]}, dd)); caseBound(BOX, "after_setter", {h[0], h[1], h[2]});
          for (Kind k : {SPH, CYL, ELL, TOR, BOX}) { std::vector<double> par = k == SPH || k == CYL ? std::vector<double>{r, 0, 0} : k == ELL ? std::vector<double>{a[0], a[1], a[2]} : k == TOR ? std::vector<double>{R, tr, 0} : std::vector<double>{h[0], h[1], h[2]};
              caseSetter(k, "after_setter", cat(cat(cat(par, q), oo), dd)); } }
        // ---- queries that fail for every input (unimplemented or partially implemented): one witness each
        caseNearest(TOR, "any_input", {R, tr, R + 2 * tr, 0.3, 0.2});
        std::vector<double> hv; for (int i = 0; i < 36; ++i) hv.push_back(g.range(-0.5, 0.5));
        caseHeightMap("any_input", cat(hv, Vec3(0.3, -0.7, 0.9)));
        caseBrickStub("any_input", {h[0], h[1], h[2], 2 * h[0], 0.1, 0.2});
    }
}

static Kind kindOf(const std::string& fn) {
    if (fn.rfind("hs.", 0) == 0) return HS; if (fn.rfind("sph.", 0) == 0) return SPH; if (fn.rfind("cyl.", 0) == 0) return CYL;
    if (fn.rfind("ell.", 0) == 0) return ELL; if (fn.rfind("tor.", 0) == 0) return TOR; return BOX;
}
static void replay() {
    static char buf[1 << 16];
    while (std::fgets(buf, sizeof buf, stdin)) {
        std::istringstream is(buf); std::string k, fn, cls; is >> k >> fn >> cls;
        if (k != "I") continue;
        std::vector<double> v; std::string t; while (is >> t) v.push_back(vh::unhex(t));
        std::string op = fn.substr(fn.find('.') + 1);
        if (fn == "consts") caseConsts();
        else if (fn == "p.hmap") caseHeightMap(cls, v);
        else if (fn == "p.brick") caseBrickStub(cls, v);
        else if (fn.rfind("p.setter.", 0) == 0) { static const char* nm[] = {"HalfSpace", "Sphere", "Cylinder", "Ellipsoid", "Torus", "Brick"}; for (int k = 0; k < 6; ++k) if (fn == std::string("p.setter.") + nm[k]) caseSetter((Kind)k, cls, v); }
        else if (fn == "ell.dir") caseEllDir(cls, v);
        else if (op == "nearest") caseNearest(kindOf(fn), cls, v);
        else if (op == "val") caseVal(kindOf(fn), cls, v);
        else if (op == "ray") caseRay(kindOf(fn), cls, v);
        else if (op == "support") caseSupport(kindOf(fn), cls, v);
        else if (op == "bound") caseBound(kindOf(fn), cls, v);
        else if (op == "curv") caseCurv(kindOf(fn), cls, v);
    }
}

int main(int argc, char** argv) {
    vh::Args args(argc, argv);
    if (args.mode == "replay") { replay(); return 0; }
    vh::Rng g(args.seed * 7919 + 34);
    if (args.mode == "degenerate") degenerate(g, args.n); else generic(g, args.n);
    return 0;
}
