// C47 correspondence harness: geodesics lie on their surfaces and agree across methods.
//  modelled records (Drivers/C47.lean, closed forms of SimbodyModel/C47.lean):
//    I geo.sph <cls> r p0(3) ta(3) L N     ContactGeometry::Sphere::shootGeodesicInDirectionAnalytically  -> one O line per knot
//    I geo.cyl <cls> R p0(3) ta(3) L N     ContactGeometry::Cylinder::shootGeodesicInDirectionAnalytically
//    I geo.sphPQ / geo.cylPQ <cls> r P Q tPhint tQhint    calcGeodesicAnalytical -> length
//  predicate-only records: p.geo.implicit <cls> shape params p0 ta L   (shootGeodesicInDirectionImplicitly on sphere, cylinder,
//    ellipsoid, torus; legacy shootGeodesicInDirectionUntilLengthReached; calcGeodesicUsingOrthogonalMethod)
//  P lines: knots on the surface, unit tangents orthogonal to the surface normal, zero geodesic curvature in exact form
//  (sphere: the curve stays in the plane through the centre spanned by start normal and tangent; cylinder: unrolled helix is
//  a straight line of the right length), equally spaced arc lengths ending at L, implicit vs an independent fine-step RK4
//  integration of the geodesic equation, implicit vs analytic end point / tangent / length, legacy vs sink interface.
#include "SimTKmath.h"
#include "hcommon.h"
#include <algorithm>
#include <functional>
using namespace SimTK;
typedef ContactGeometry::GeodesicKnotPoint Knot;

static const double PI = 3.14159265358979323846;
static Vec3 rndUnit(vh::Rng& g) { double z = g.range(-1, 1), ph = g.range(0, 2*PI), s = std::sqrt(1 - z*z); return Vec3(s*std::cos(ph), s*std::sin(ph), z); }
static Vec3 V(const std::vector<double>& v, int i) { return Vec3(v[i], v[i+1], v[i+2]); }
static void push3(std::vector<double>& v, const Vec3& p) { for (int i = 0; i < 3; ++i) v.push_back(p[i]); }
static void emitI(const char* fn, const std::string& cls, const std::vector<double>& v) { vh::Line in = vh::I(fn); in.s(cls); for (double x : v) in.d(x); in.emit(); }
static void emitKnot(const char* fn, const Knot& k) {
    vh::Line o = vh::O(fn); o.d(k.arcLength); for (int i = 0; i < 3; ++i) o.d(k.point[i]); for (int i = 0; i < 3; ++i) o.d(k.tangent[i]);
    o.d(k.jacobiRot).d(k.jacobiRotDot).d(k.jacobiTrans).d(k.jacobiTransDot).emit();
}

// predicates common to every list of knots on a smooth implicit surface
static void knotPredicates(const std::string& K, const ContactGeometry& geo, const std::vector<Knot>& ks, double L, double scale, double tolSurf) {
    double eSurf = 0, eUnit = 0, eOrth = 0, eMono = 0;
    for (size_t i = 0; i < ks.size(); ++i) {
        Vec3 g = geo.calcSurfaceGradient(ks[i].point);
        eSurf = std::max(eSurf, std::abs(geo.calcSurfaceValue(ks[i].point)) / (g.norm() * scale));   // first-order distance to the surface
        eUnit = std::max(eUnit, std::abs(Vec3(ks[i].tangent).norm() - 1));
        eOrth = std::max(eOrth, std::abs(~Vec3(ks[i].tangent) * g) / g.norm());
        if (i > 0 && !(L == 0 ? ks[i].arcLength >= ks[i-1].arcLength : ks[i].arcLength > ks[i-1].arcLength)) eMono = 1;
        if (i > 0) { double chord = (ks[i].point - ks[i-1].point).norm(), ds = ks[i].arcLength - ks[i-1].arcLength; if (chord > ds * (1 + 1e-9) + 1e-12) eMono = std::max(eMono, (chord - ds) / scale); }
    }
    vh::P("on_surface", K + ".on_surface", ks.empty() ? NAN : eSurf, tolSurf);
    vh::P("unit_tangent", K + ".unit_tangent", ks.empty() ? NAN : eUnit, 1e-10);
    vh::P("tangent_orthogonal_normal", K + ".tangent_orthogonal_normal", ks.empty() ? NAN : eOrth, std::max(tolSurf, 1e-9));
    vh::P("arclength_increasing_chord_le_arc", K + ".arclength", ks.empty() ? NAN : eMono, 1e-9);
    vh::P("starts_at_zero", K + ".first_arclength", ks.empty() ? NAN : std::abs(ks.front().arcLength), 0);
    vh::P("ends_at_length", K + ".final_arclength", ks.empty() ? NAN : std::abs(ks.back().arcLength - L) / scale, 1e-12);
}

// independent reference: RK4 on  x' = t,  t' = -(t^T H t / |g|^2) g   (geodesic of {f = 0}), with projection at the end
static void rk4Geodesic(const ContactGeometry& geo, Vec3 x, Vec3 t, double L, int steps, Vec3& xe, Vec3& te) {
    auto acc = [&](const Vec3& p, const Vec3& v) { Vec3 g = geo.calcSurfaceGradient(p); Mat33 H = geo.calcSurfaceHessian(p); return -((~v * (H * v)) / g.normSqr()) * g; };
    double h = L / steps;
    for (int i = 0; i < steps; ++i) {
        Vec3 k1x = t, k1v = acc(x, t);
        Vec3 k2x = t + 0.5*h*k1v, k2v = acc(x + 0.5*h*k1x, t + 0.5*h*k1v);
        Vec3 k3x = t + 0.5*h*k2v, k3v = acc(x + 0.5*h*k2x, t + 0.5*h*k2v);
        Vec3 k4x = t + h*k3v, k4v = acc(x + h*k3x, t + h*k3v);
        x += (h / 6) * (k1x + 2*k2x + 2*k3x + k4x); t += (h / 6) * (k1v + 2*k2v + 2*k3v + k4v);
    }
    xe = x; te = t / t.norm();
}

// ================================================================================================ analytic shooters
// knot-array bookkeeping of the legacy Geodesic object: all per-knot arrays have one entry per frame (or are unused), the
// arc lengths start at 0 and do not decrease, every frame is a surface point with unit tangent (y) in the tangent plane and
// z along the surface normal.  Returns the number of violated items.
static int geodesicBookkeeping(const Geodesic& gd, const ContactGeometry& geo, double scale, double tol) {
    int bad = 0; const int N = gd.getNumPoints();
    if ((int)gd.getArcLengths().size() != N) ++bad;
    auto sized = [&](size_t n) { if (n != 0 && (int)n != N) ++bad; };
    sized(gd.getCurvatures().size()); sized(gd.getDirectionalSensitivityPtoQ().size()); sized(gd.getDirectionalSensitivityQtoP().size());
    sized(gd.getPositionalSensitivityPtoQ().size()); sized(gd.getPositionalSensitivityQtoP().size());
    const Array_<Real>& s = gd.getArcLengths();
    if (!s.empty() && s.front() != 0) ++bad;
    for (int i = 1; i < (int)s.size(); ++i) if (!(s[i] >= s[i-1])) { ++bad; break; }
    for (auto& X : gd.getFrenetFrames()) { Vec3 g = geo.calcSurfaceGradient(X.p()); double gn = g.norm();
        if (!(std::abs(geo.calcSurfaceValue(X.p())) / (gn * scale) <= tol)) { ++bad; break; }
        if (!(std::abs(~Vec3(X.y()) * g) / gn <= tol)) { ++bad; break; }
        if (!((Vec3(X.z()) % g).norm() / gn <= tol)) { ++bad; break; } }
    return bad;
}

static std::unique_ptr<ContactGeometry> makeShape(int shape, const std::vector<double>& v, double& scale, const std::string& cls);
static void caseAnalytic(bool sphere, const std::string& cls, const std::vector<double>& v) {
    double r = v[0]; Vec3 p0 = V(v, 1), ta = V(v, 4); double L = v[7]; int N = (int)v[8];
    const char* fn = sphere ? "geo.sph" : "geo.cyl";
    emitI(fn, cls, v);
    double scl; std::unique_ptr<ContactGeometry> geo = makeShape(sphere ? 0 : 1, {r, 0, 0}, scl, cls);
    std::vector<Knot> ks;
    geo->shootGeodesicInDirectionAnalytically(p0, ta, L, N, [&](const Knot& k) { ks.push_back(k); });
    for (auto& k : ks) emitKnot(fn, k);
    vh::D(std::string(fn) + "." + cls);
    const std::string K = std::string(sphere ? "Sphere" : "Cylinder") + ".shootGeodesicInDirectionAnalytically." + cls;
    vh::P("knot_count", K + ".knot_count", std::abs((int)ks.size() - N), 0);
    knotPredicates(K, *geo, ks, L, r, 1e-12);
    if (ks.size() < 2) return;
    // equally spaced arc lengths
    double eSp = 0; for (size_t i = 0; i < ks.size(); ++i) eSp = std::max(eSp, std::abs(ks[i].arcLength - L * i / (N - 1.0)) / std::max(std::abs(L), 1e-12));
    vh::P("equally_spaced", K + ".equally_spaced", eSp, 1e-12);
    // zero geodesic curvature in exact form
    double eGeo = 0, eLen = 0;
    if (sphere) {
        Vec3 b = Vec3(UnitVec3(p0)) % Vec3(ks[0].tangent);          // normal of the great-circle plane
        for (auto& k : ks) { eGeo = std::max(eGeo, std::abs(~k.point * b) / r); eGeo = std::max(eGeo, std::abs(~Vec3(k.tangent) * b)); }
        // length = r * angle between start and knot (for angles below pi)
        for (auto& k : ks) if (std::abs(k.arcLength) < 3.0 * r) { double ang = std::atan2((ks[0].point % k.point).norm(), ~ks[0].point * k.point); eLen = std::max(eLen, std::abs(r * ang - std::abs(k.arcLength)) / r); }
    } else {
        // unrolled: (R*dphi, dz) proportional to (t_phi, t_z) of the start tangent; length^2 = R^2 dphi^2 + dz^2
        double ph0 = std::atan2(ks[0].point[1], ks[0].point[0]); Vec3 t0 = Vec3(ks[0].tangent); Vec3 ephi(-std::sin(ph0), std::cos(ph0), 0);
        double tphi = ~t0 * ephi, tz = t0[2];
        for (auto& k : ks) { double s = k.arcLength; double phExp = ph0 + tphi * s / r; Vec3 pe(r * std::cos(phExp), r * std::sin(phExp), ks[0].point[2] + tz * s);
            eGeo = std::max(eGeo, (k.point - pe).norm() / r);
            Vec3 te = tphi * Vec3(-std::sin(phExp), std::cos(phExp), 0) + Vec3(0, 0, tz); eGeo = std::max(eGeo, (Vec3(k.tangent) - te).norm()); }
        eLen = 0;
    }
    vh::P("geodesic_curvature_zero", K + ".geodesic_curvature_zero", eGeo, 1e-11);
    if (sphere) vh::P("length_closed_form", K + ".length_closed_form", eLen, 1e-11);
    // start point is the projection of the given point, start tangent the projection of the given tangent
    Vec3 n0 = sphere ? Vec3(UnitVec3(p0)) : Vec3(UnitVec3(Vec3(p0[0], p0[1], 0)));
    Vec3 tp = ta - (~ta * n0) * n0; tp = tp / tp.norm();
    vh::P("start_tangent_projected", K + ".start_tangent", (Vec3(ks[0].tangent) - tp).norm(), 1e-12);
    vh::P("start_point_projected", K + ".start_point", (ks[0].point - (sphere ? r * n0 : r * n0 + Vec3(0, 0, p0[2]))).norm() / r, 1e-12);
}

static void casePQ(bool sphere, const std::string& cls, const std::vector<double>& v) {
    double r = v[0]; Vec3 P = V(v, 1), Q = V(v, 4), tP = V(v, 7), tQ = V(v, 10);
    const char* fn = sphere ? "geo.sphPQ" : "geo.cylPQ";
    emitI(fn, cls, v);
    std::unique_ptr<ContactGeometry> geo; if (sphere) geo.reset(new ContactGeometry::Sphere(r)); else geo.reset(new ContactGeometry::Cylinder(r));
    Geodesic gd; geo->calcGeodesicAnalytical(P, Q, tP, tQ, gd);
    vh::O(fn).d(gd.getLength()).emit();
    vh::D(std::string(fn) + "." + cls);
    const std::string K = std::string(sphere ? "Sphere" : "Cylinder") + ".calcGeodesicAnalytical." + cls;
    // the sampled frames: points on the surface, end points are P and Q (projected), tangents unit and orthogonal to normals
    double eS = 0, eO = 0; const Array_<Transform>& fr = gd.getFrenetFrames();
    for (auto& X : fr) { Vec3 g = geo->calcSurfaceGradient(X.p()); eS = std::max(eS, std::abs(geo->calcSurfaceValue(X.p())) / (g.norm() * r)); eO = std::max(eO, std::abs(~Vec3(X.y()) * g) / g.norm()); }
    vh::P("on_surface", K + ".on_surface", fr.empty() ? NAN : eS, 1e-12);
    vh::P("tangent_orthogonal_normal", K + ".tangent_orthogonal_normal", fr.empty() ? NAN : eO, 1e-12);
    Vec3 Pp = sphere ? r * Vec3(UnitVec3(P)) : P, Qp = sphere ? r * Vec3(UnitVec3(Q)) : Q;
    vh::P("end_points", K + ".end_points", fr.empty() ? NAN : std::max((gd.getPointP() - Pp).norm(), (gd.getPointQ() - Qp).norm()) / r, 1e-11);
    vh::P("knot_bookkeeping", K + ".bookkeeping", geodesicBookkeeping(gd, *geo, r, 1e-11), 0);
    // agreement with shooting: shoot analytically from P along the returned tangent for the returned length: must arrive at Q
    std::vector<Knot> ks; geo->shootGeodesicInDirectionAnalytically(Pp, Vec3(gd.getTangentP()), gd.getLength(), 2, [&](const Knot& k) { ks.push_back(k); });
    vh::P("shoot_arrives_at_Q", K + ".shoot_arrives_at_Q", ks.size() == 2 ? (ks[1].point - Qp).norm() / r : NAN, 1e-10);
}

// ================================================================================================ implicit shooting
// class names starting with "after_setter": the object is constructed with OTHER parameters, queried once, and brought to the
// record's parameters through its setter (stale-cache defects in setters; the seeded C47-2 bug went unseen without this)
static bool mutatedCls(const std::string& cls) { return cls.rfind("after_setter", 0) == 0; }
static std::unique_ptr<ContactGeometry> makeShape(int shape, const std::vector<double>& v, double& scale, const std::string& cls) {
    const bool mut = mutatedCls(cls); const double fa = 1.37 * v[0] + 0.21, fb = 0.61 * v[1] + 0.33, fc = 1.83 * v[2] + 0.12;
    auto warm = [](const ContactGeometry& g) { Vec3 q(0.31, -0.27, 0.43); g.calcSurfaceValue(q); g.calcSurfaceGradient(q); g.calcSurfaceHessian(q); bool in; UnitVec3 n; g.findNearestPoint(q, in, n); };
    std::unique_ptr<ContactGeometry> g;
    static const char* nm[] = {"Sphere", "Cylinder", "Ellipsoid", "Torus"};
    if (mut) vh::D(std::string("after_setter.") + nm[shape > 3 ? 3 : shape]);
    switch (shape) {
    case 0: { scale = v[0]; auto* o = new ContactGeometry::Sphere(mut ? fa : v[0]); g.reset(o); if (mut) { warm(*o); o->setRadius(v[0]); } return g; }
    case 1: { scale = v[0]; auto* o = new ContactGeometry::Cylinder(mut ? fa : v[0]); g.reset(o); if (mut) { warm(*o); o->setRadius(v[0]); } return g; }
    case 2: { scale = std::max(v[0], std::max(v[1], v[2])); auto* o = new ContactGeometry::Ellipsoid(mut ? Vec3(fa, fb, fc) : Vec3(v[0], v[1], v[2])); g.reset(o); if (mut) { warm(*o); o->setRadii(Vec3(v[0], v[1], v[2])); } return g; }
    default: { scale = v[0] + v[1]; auto* o = new ContactGeometry::Torus(mut ? fa : v[0], mut ? std::min(fb, 0.8 * fa) : v[1]); g.reset(o); if (mut) { warm(*o); o->setTorusRadius(v[0]); o->setTubeRadius(v[1]); } return g; }
    }
}
static void caseImplicit(const std::string& cls, const std::vector<double>& v) {
    int shape = (int)v[0]; std::vector<double> par(v.begin() + 1, v.begin() + 4); Vec3 p0 = V(v, 4), ta = V(v, 7); double L = v[10];
    emitI("p.geo.implicit", cls, v); std::puts("O p.geo.implicit -");
    static const char* nm[] = {"Sphere", "Cylinder", "Ellipsoid", "Torus"};
    vh::D(std::string("p.geo.implicit.") + cls + "." + nm[shape]);
    double scale; std::unique_ptr<ContactGeometry> shot = makeShape(shape, par, scale, cls), geo = makeShape(shape, par, scale, "");   // geo = fresh reference object
    const std::string K = std::string(nm[shape]) + ".shootGeodesicInDirectionImplicitly." + cls;
    std::vector<Knot> ks; bool threw = false;
    try { shot->shootGeodesicInDirectionImplicitly(p0, ta, L, 1e-3 * scale, 1e-10, 1e-10, 10000, [&](const Knot& k) { ks.push_back(k); }); }
    catch (const std::exception&) { threw = true; }
    vh::P("no_exception", K + ".exception", threw ? 1 : 0, 0);
    if (mutatedCls(cls)) {     // the object brought to these parameters by its setter must behave like a fresh one
        std::vector<Knot> kf; bool threwF = false;
        try { geo->shootGeodesicInDirectionImplicitly(p0, ta, L, 1e-3 * scale, 1e-10, 1e-10, 10000, [&](const Knot& k) { kf.push_back(k); }); } catch (const std::exception&) { threwF = true; }
        double worst = (threw != threwF || ks.size() != kf.size()) ? 1 : 0;
        for (size_t i = 0; i < ks.size() && i < kf.size(); ++i) worst = std::max(worst, std::max((ks[i].point - kf[i].point).norm() / scale, (Vec3(ks[i].tangent) - Vec3(kf[i].tangent)).norm()));
        vh::P("equals_fresh", std::string(nm[shape]) + ".after_setter.shootGeodesicInDirectionImplicitly.equals_fresh", worst, 1e-13);
        Vec3 q(0.37, -0.21, 0.55); Mat33 Hm = shot->calcSurfaceHessian(q), Hf = geo->calcSurfaceHessian(q); double hd = 0; for (int i = 0; i < 3; ++i) for (int j = 0; j < 3; ++j) hd = std::max(hd, std::abs(Hm(i, j) - Hf(i, j)));
        vh::P("equals_fresh", std::string(nm[shape]) + ".after_setter.value_gradient_hessian.equals_fresh",
              std::max(std::abs(shot->calcSurfaceValue(q) - geo->calcSurfaceValue(q)), std::max((shot->calcSurfaceGradient(q) - geo->calcSurfaceGradient(q)).norm(), hd)), 1e-13);
    }
    if (threw) return;
    knotPredicates(K, *geo, ks, L, scale, 1e-9);
    if (ks.size() < 2) return;
    // independent fine RK4 from the first knot (which is on the surface with a tangent in the tangent plane)
    Vec3 xe, te; rk4Geodesic(*geo, ks[0].point, Vec3(ks[0].tangent), L, 4000, xe, te);
    vh::P("matches_geodesic_equation", K + ".negligible_geodesic_curvature",
          std::max((ks.back().point - xe).norm() / scale, (Vec3(ks.back().tangent) - te).norm()), 1e-7);   // integrator accuracy 1e-10, measured <= 4.3e-9
    // agreement with the analytic method where one exists
    if (geo->isAnalyticFormAvailable()) {
        std::vector<Knot> ka; geo->shootGeodesicInDirectionAnalytically(p0, ta, L, 2, [&](const Knot& k) { ka.push_back(k); });
        vh::P("implicit_vs_analytic_start", K + ".vs_analytic_start", std::max((ks[0].point - ka[0].point).norm() / scale, (Vec3(ks[0].tangent) - Vec3(ka[0].tangent)).norm()), 1e-9);
        vh::P("implicit_vs_analytic_end", K + ".vs_analytic_end", std::max((ks.back().point - ka[1].point).norm() / scale, (Vec3(ks.back().tangent) - Vec3(ka[1].tangent)).norm()), 1e-7);
        vh::P("implicit_vs_analytic_jacobi", K + ".vs_analytic_jacobi",
              std::max(std::abs(ks.back().jacobiRot - ka[1].jacobiRot) / scale, std::abs(ks.back().jacobiTrans - ka[1].jacobiTrans)), 1e-7);
    }
}
static Vec3 surfacePoint(vh::Rng& g, int shape, const std::vector<double>& par);
// legacy Geodesic-object interface shootGeodesicInDirectionUntilLengthReached: a batch of random shots in one record.  The
// returned geodesic must have the requested length (finding F13: in this build about a third of the shots stop early, exactly
// where the curve crosses the default terminating plane x = 0 of the plane-hit event that the function disables; which shots
// are affected depends on what ran before in the process, hence a batch instead of a single witness).
static void caseLegacyBatch(const std::string& cls, const std::vector<double>& v) {
    emitI("p.geo.legacy", cls, v); std::puts("O p.geo.legacy -");
    vh::Rng g((uint64_t)v[0]); int nshots = (int)v[1], shortOnes = 0, onPlane = 0, endWrong = 0, bookBad = 0;
    for (int k = 0; k < nshots; ++k) {
        int shape = g.below(4); double r = g.range(0.5, 2); std::vector<double> par;
        if (shape <= 1) par = {r, 0, 0}; else if (shape == 2) par = {g.range(0.5, 2), g.range(0.5, 2), g.range(0.5, 2)}; else { double R = g.range(1, 2); par = {R, g.range(0.25, 0.7) * R, 0}; }
        double scale; std::unique_ptr<ContactGeometry> geo = makeShape(shape, par, scale, "");
        Vec3 ps = surfacePoint(g, shape, par); Vec3 nrm = Vec3(geo->calcSurfaceUnitNormal(ps)); Vec3 t; do { t = rndUnit(g); } while ((t % nrm).norm() < 0.3);
        t = Vec3(UnitVec3(t - (~t * nrm) * nrm)); double L = g.range(0.5, 2.5) * scale;
        Geodesic gd; GeodesicOptions opts;
        try { geo->shootGeodesicInDirectionUntilLengthReached(ps, UnitVec3(t), L, opts, gd); } catch (const std::exception&) { ++shortOnes; continue; }
        bookBad += geodesicBookkeeping(gd, *geo, scale, 1e-6);
        if (std::abs(gd.getLength() - L) > 1e-9 * scale) { ++shortOnes; if (std::abs(gd.getPointQ()[0]) < 1e-6 * scale) ++onPlane; }
        else { Vec3 xe, te; rk4Geodesic(*geo, ps, t, L, 2000, xe, te); if ((gd.getPointQ() - xe).norm() > 1e-4 * scale) ++endWrong; }
    }
    vh::D("p.geo.legacy." + cls + ".short=" + std::to_string(shortOnes) + ".of=" + std::to_string(nshots) + ".stopped_on_plane_x0=" + std::to_string(onPlane));
    vh::P("legacy_length_reached", "ContactGeometry.shootGeodesicInDirectionUntilLengthReached." + cls + ".length_reached", shortOnes, 0);
    vh::P("legacy_end_point", "ContactGeometry.shootGeodesicInDirectionUntilLengthReached." + cls + ".end_point", endWrong, 0);
    vh::P("knot_bookkeeping", "ContactGeometry.shootGeodesicInDirectionUntilLengthReached." + cls + ".bookkeeping", bookBad, 0);
}
// two-point problem: analytic vs orthogonal (implicit Newton) method, sphere and cylinder, short geodesics
static void caseTwoPoint(const std::string& cls, const std::vector<double>& v) {
    int shape = (int)v[0]; double r = v[1]; Vec3 P = V(v, 2), Q = V(v, 5);
    emitI("p.geo.twopoint", cls, v); std::puts("O p.geo.twopoint -");
    vh::D(std::string("p.geo.twopoint.") + cls + (shape ? ".Cylinder" : ".Sphere"));
    std::unique_ptr<ContactGeometry> geo; if (shape == 0) geo.reset(new ContactGeometry::Sphere(r)); else geo.reset(new ContactGeometry::Cylinder(r));
    const std::string K = std::string(shape ? "Cylinder" : "Sphere") + ".calcGeodesicUsingOrthogonalMethod." + cls;
    UnitVec3 e(Q - P); Geodesic ga, gn;
    geo->calcGeodesicAnalytical(P, Q, Vec3(e), Vec3(e), ga);
    bool threw = false;
    try { geo->calcGeodesicUsingOrthogonalMethod(P, Q, Vec3(ga.getTangentP()), ga.getLength(), gn); } catch (const std::exception&) { threw = true; }
    vh::P("no_exception", K + ".exception", threw ? 1 : 0, 0);
    if (threw) return;
    // the orthogonal method converges to its own Newton tolerance (measured 1.3e-6); the test-suite uses 1e-5... here 1e-4
    vh::P("length_agrees", K + ".length", std::abs(gn.getLength() - ga.getLength()) / r, 1e-4);
    vh::P("tangentP_agrees", K + ".tangentP", (Vec3(gn.getTangentP()) - Vec3(ga.getTangentP())).norm(), 1e-4);
    vh::P("tangentQ_agrees", K + ".tangentQ", (Vec3(gn.getTangentQ()) - Vec3(ga.getTangentQ())).norm(), 1e-4);
    vh::P("endpointQ", K + ".end_point", (gn.getPointQ() - Q).norm() / r, 1e-4);
}

// ================================================================================================= generators
static Vec3 surfacePoint(vh::Rng& g, int shape, const std::vector<double>& par) {
    double u = g.range(0, 2*PI), w = g.range(0.3, PI - 0.3);
    switch (shape) {
    case 0: return par[0] * Vec3(std::sin(w)*std::cos(u), std::sin(w)*std::sin(u), std::cos(w));
    case 1: return Vec3(par[0]*std::cos(u), par[0]*std::sin(u), g.range(-2, 2));
    case 2: return Vec3(par[0]*std::sin(w)*std::cos(u), par[1]*std::sin(w)*std::sin(u), par[2]*std::cos(w));
    default: { double vv = g.range(0, 2*PI); double rr = par[0] + par[1]*std::cos(vv); return Vec3(rr*std::cos(u), rr*std::sin(u), par[1]*std::sin(vv)); }
    }
}
static void generic(vh::Rng& g, long n) {
    for (long it = 0; it < n; ++it) {
        int what = g.below(10);
        double r = g.range(0.3, 3);
        if (what <= 3) {
            bool sphere = what <= 1;
            // approximate start data: point off the surface by up to 20 %, tangent with a normal component
            Vec3 ps = sphere ? r * rndUnit(g) : Vec3(r * std::cos(1.0), r * std::sin(1.0), 0) ;
            if (!sphere) { double u = g.range(0, 2*PI); ps = Vec3(r*std::cos(u), r*std::sin(u), g.range(-2, 2)); }
            Vec3 nrm = sphere ? Vec3(UnitVec3(ps)) : Vec3(UnitVec3(Vec3(ps[0], ps[1], 0)));
            Vec3 p0 = ps + g.range(-0.2, 0.2) * r * nrm;
            Vec3 t; do { t = rndUnit(g); } while ((t % nrm).norm() < 0.3);
            if (!sphere && std::abs(~Vec3(UnitVec3(t - (~t*nrm)*nrm)) * Vec3(0, 0, 1)) > 0.98) t = Vec3(UnitVec3(t + Vec3(-nrm[1], nrm[0], 0)));   // keep some winding
            double L = g.range(0.1, 2.8) * r; int N = 2 + g.below(12);
            std::vector<double> v = {r}; push3(v, p0); push3(v, g.range(0.5, 2) * t); v.push_back(L); v.push_back(N);
            caseAnalytic(sphere, "generic", v);
        } else if (what == 4 || what == 5) {
            bool sphere = what == 4; Vec3 P, Q;
            if (sphere) { P = r * rndUnit(g); do { Q = r * rndUnit(g); } while ((P % Q).norm() < 0.2 * r * r); }
            else { double u = g.range(-PI, PI), du = g.range(0.2, 2.5) * (g.coin() ? 1 : -1); double u2 = u + du; if (u2 > PI) u2 -= 2*PI; if (u2 < -PI) u2 += 2*PI;
                   P = Vec3(r*std::cos(u), r*std::sin(u), g.range(-1, 1)); Q = Vec3(r*std::cos(u2), r*std::sin(u2), g.range(-1, 1)); }
            Vec3 e = Vec3(UnitVec3(Q - P)); Vec3 hP = g.coin() ? e : Vec3(-e), hQ = g.coin() ? hP : Vec3(UnitVec3(hP + 0.3 * rndUnit(g)));
            std::vector<double> v = {r}; push3(v, P); push3(v, Q); push3(v, hP); push3(v, hQ);
            casePQ(sphere, "generic", v);
        } else if (what <= 8) {
            int shape = g.below(4); std::vector<double> par;
            if (shape <= 1) par = {r, 0, 0}; else if (shape == 2) par = {g.range(0.5, 2), g.range(0.5, 2), g.range(0.5, 2)}; else { double R = g.range(1, 2); par = {R, g.range(0.25, 0.7) * R, 0}; }
            Vec3 ps = surfacePoint(g, shape, par);
            double scale; std::unique_ptr<ContactGeometry> geo = makeShape(shape, par, scale, "");
            Vec3 nrm = Vec3(geo->calcSurfaceUnitNormal(ps)); Vec3 t; do { t = rndUnit(g); } while ((t % nrm).norm() < 0.3);
            Vec3 p0 = ps + g.range(-0.05, 0.05) * scale * nrm;
            std::vector<double> v = {(double)shape, par[0], par[1], par[2]}; push3(v, p0); push3(v, t); v.push_back(g.range(0.2, 2.0) * scale);
            caseImplicit("generic", v);
        } else {
            int shape = g.below(2); Vec3 P, Q;
            if (shape == 0) { P = r * rndUnit(g); Vec3 d; do { d = rndUnit(g); } while ((d % P).norm() < 0.3 * r); Q = r * Vec3(UnitVec3(P + g.range(0.3, 1.0) * r * Vec3(UnitVec3(d - (~d * P) * P / (r*r))))); }
            else { double u = g.range(-2, 2), du = g.range(0.2, 1.0) * (g.coin() ? 1 : -1); P = Vec3(r*std::cos(u), r*std::sin(u), g.range(-1, 1)); Q = Vec3(r*std::cos(u + du), r*std::sin(u + du), P[2] + g.range(-1, 1)); }
            std::vector<double> v = {(double)shape, r}; push3(v, P); push3(v, Q); caseTwoPoint("generic", v);
        }
    }
}
static void degenerate(vh::Rng& g, long n) {
    long reps = std::max<long>(1, n / 50);
    for (long it = 0; it < reps; ++it) {
        double r = it == 0 ? 1.0 : g.range(0.3, 3);
        // exactly two knots; zero length; full turn; start point exactly on the surface with exact tangent
        caseAnalytic(true, "two_knots", {r, r, 0, 0, 0, 1, 0, 1.3 * r, 2});
        caseAnalytic(true, "zero_length", {r, 0, r, 0, 1, 0, 0, 0, 3});
        caseAnalytic(true, "full_turn", {r, 0, 0, r, 1, 0, 0, 2 * PI * r, 9});
        caseAnalytic(false, "along_axis", {r, r, 0, 0.5, 0, 0, 1, 2.0, 4});
        caseAnalytic(false, "circumferential", {r, 0, r, -0.3, 1, 0, 0, 1.5 * r, 6});
        caseAnalytic(false, "full_turn", {r, r, 0, 0, 0, 1, 0.5, 2 * PI * r * std::sqrt(1.25), 9});
        caseAnalytic(false, "zero_length", {r, r, 0, 0, 0, 1, 1, 0, 2});
        // two-point: antipodal-ish and same-generator cases
        { Vec3 P = r * rndUnit(g), d = rndUnit(g); Vec3 Q = r * Vec3(UnitVec3(-P + 0.05 * r * d)); Vec3 e = Vec3(UnitVec3(Q - P)); std::vector<double> v = {r}; push3(v, P); push3(v, Q); push3(v, e); push3(v, e); casePQ(true, "nearly_antipodal", v); }
        { std::vector<double> v = {r, r, 0, 0, r * std::cos(2.0), r * std::sin(2.0), 0, 0, 1, 0, 0, 1, 0}; casePQ(false, "same_height", v); }
        // implicit shooting on umbilic / symmetric data
        caseImplicit("equator", {2, 2, 1.5, 1, 2, 0, 0, 0, 1, 0, 3.0});
        caseImplicit("meridian", {2, 2, 1.5, 1, 2, 0, 0, 0, 0, 1, 3.0});
        caseImplicit("outer_equator", {3, 2, 0.6, 0, 2.6, 0, 0, 0, 1, 0, 4.0});
        caseImplicit("inner_equator", {3, 2, 0.6, 0, 1.4, 0, 0, 0, 1, 0, 2.0});
        // mutated objects (constructed with other parameters, then resized through the setter): implicit and analytic shooting
        { Vec3 u = rndUnit(g), t; do { t = rndUnit(g); } while ((t % u).norm() < 0.3);
          caseAnalytic(true, "after_setter", {r, r * u[0], r * u[1], r * u[2], t[0], t[1], t[2], 1.9 * r, 7});
          caseAnalytic(false, "after_setter", {r, r, 0, 0.2, 0.1, 1, 0.7, 2.2 * r, 6});
          caseImplicit("after_setter", {0, r, 0, 0, r * u[0], r * u[1], r * u[2], t[0], t[1], t[2], 1.5 * r});
          caseImplicit("after_setter", {1, r, 0, 0, r, 0, 0.3, 0.1, 1, 0.6, 1.8 * r});
          double ea = g.range(1.5, 2.5), eb = g.range(1.0, 1.4), ec = g.range(0.5, 0.9);
          caseImplicit("after_setter", {2, ea, eb, ec, ea * u[0], eb * u[1], ec * u[2], t[0], t[1], t[2], 2.0 * ea});
          caseImplicit("after_setter", {3, 2, 0.6, 0, 2.6, 0, 0, 0, 1, 0.5, 3.0}); }
        if (it == 0) caseLegacyBatch("legacy_batch", {4711, 60});
        // many knots, once per run (review E, C47 M1): the frame is the product of up to 999 incremental rotations and is never
        // re-orthogonalised; the knot predicates (on surface, unit tangent, tangent orthogonal to the normal) apply to every knot
        if (it == 0) { int N = 100 + g.below(901); Vec3 p0 = rndUnit(g), t; do { t = rndUnit(g); } while ((t % p0).norm() < 0.3);
            std::vector<double> v = {1.7}; push3(v, 1.7 * p0); push3(v, t); v.push_back(7.3 * 1.7); v.push_back(N); caseAnalytic(true, "many_knots", v);
            N = 100 + g.below(901); double u = g.range(-PI, PI); Vec3 q0(0.8 * std::cos(u), 0.8 * std::sin(u), 0.3), nq(std::cos(u), std::sin(u), 0); do { t = rndUnit(g); } while ((t % nq).norm() < 0.3);
            std::vector<double> w = {0.8}; push3(w, q0); push3(w, t); w.push_back(9.1); w.push_back(N); caseAnalytic(false, "many_knots", w); }
    }
}
static void replay() {
    static char buf[1 << 16];
    while (std::fgets(buf, sizeof buf, stdin)) {
        std::istringstream is(buf); std::string k, fn, cls; is >> k >> fn >> cls;
        if (k != "I") continue;
        std::vector<double> v; std::string t; while (is >> t) v.push_back(vh::unhex(t));
        if (fn == "geo.sph") caseAnalytic(true, cls, v); else if (fn == "geo.cyl") caseAnalytic(false, cls, v);
        else if (fn == "geo.sphPQ") casePQ(true, cls, v); else if (fn == "geo.cylPQ") casePQ(false, cls, v);
        else if (fn == "p.geo.implicit") caseImplicit(cls, v); else if (fn == "p.geo.twopoint") caseTwoPoint(cls, v);
        else if (fn == "p.geo.legacy") caseLegacyBatch(cls, v);
    }
}
int main(int argc, char** argv) {
    vh::Args args(argc, argv);
    if (args.mode == "replay") { replay(); return 0; }
    vh::Rng g(args.seed * 7919 + 47);
    if (args.mode == "degenerate") degenerate(g, args.n); else generic(g, args.n);
    return 0;
}
