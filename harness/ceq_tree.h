// Shared generator of the constraint-family harnesses C07, C08, C09, C10 (owner: ConstraintEq family).
//   * random rose trees (1..maxBodies bodies) with mobilizers drawn by name from the repo's own types,
//     random inboard/outboard frames (identity / translation-only / general), valid mass properties;
//   * one factory per built-in Constraint type, attaching to random body pairs
//     (Ground+body, ancestor/descendant, unrelated branches) or random mobilizer coordinates/speeds;
//   * small user Functions (quadratic polynomial with exact derivatives) for the coupler constraints.
// Everything derives from ONE vh::Rng.  Public API only.
// NOTE: tools/vlib.build_harness hashes only the .cpp and hcommon.h; when this header changes, bump
// CEQ_TREE_VERSION *and* the version comment at the top of each including .cpp.
#ifndef VERIF_CEQ_TREE_H
#define VERIF_CEQ_TREE_H
#define CEQ_TREE_VERSION 6
#include "Simbody.h"
#include "hcommon.h"
#include <memory>
#include <vector>
#include <string>
#include <algorithm>

namespace ceq {
using namespace SimTK;

inline Vec3 rvec(vh::Rng& g, double a = 1.0) { return Vec3(g.range(-a, a), g.range(-a, a), g.range(-a, a)); }
inline UnitVec3 runit(vh::Rng& g) {
    for (;;) { Vec3 v = rvec(g); double n = v.norm(); if (n > 0.2) return UnitVec3(v); }
}
inline Rotation rrot(vh::Rng& g) {
    Rotation R; R.setRotationFromAngleAboutNonUnitVector(g.range(-3.0, 3.0), Vec3(runit(g))); return R;
}
// kind 0 identity, 1 translation only, 2 general
inline Transform rframe(vh::Rng& g, int kind) {
    if (kind == 0) return Transform();
    if (kind == 1) return Transform(rvec(g, 0.7));
    return Transform(rrot(g), rvec(g, 0.7));
}

// ---- user function: f(x) = c + sum a_i x_i + sum_{i<=j} b_ij x_i x_j   (exact derivatives, order <= 2; higher = 0)
class QuadFunction : public Function {
public:
    int n; double c; std::vector<double> a; std::vector<double> b; // b is n*n symmetric
    QuadFunction(vh::Rng& g, int n_, bool linearOnly) : n(n_), a(n_), b(n_ * n_, 0.0) {
        c = g.range(-0.5, 0.5);
        for (int i = 0; i < n; ++i) a[i] = g.signedMag(0.3, 1.5);
        if (!linearOnly)
            for (int i = 0; i < n; ++i) for (int j = i; j < n; ++j) { double v = g.range(-0.6, 0.6); b[i * n + j] = v; b[j * n + i] = v; }
    }
    Real calcValue(const Vector& x) const override {
        Real v = c;
        for (int i = 0; i < n; ++i) v += a[i] * x[i];
        for (int i = 0; i < n; ++i) for (int j = 0; j < n; ++j) v += 0.5 * b[i * n + j] * x[i] * x[j];
        return v;
    }
    Real grad(int i, const Vector& x) const { Real v = a[i]; for (int j = 0; j < n; ++j) v += b[i * n + j] * x[j]; return v; }
    Real hess(int i, int j) const { return b[i * n + j]; }
    Real calcDerivative(const Array_<int>& d, const Vector& x) const override {
        if (d.size() == 1) return grad(d[0], x);
        if (d.size() == 2) return hess(d[0], d[1]);
        return 0;
    }
    int getArgumentSize() const override { return n; }
    int getMaxDerivativeOrder() const override { return 1000; }
    QuadFunction* clone() const override { return new QuadFunction(*this); }
};
// scalar function of time: f(t) = c + a t + b t^2/2  (QuadFunction with n=1)

// ---- a Custom constraint written against the documented Custom::Implementation interface:
// holonomic "point-on-sphere about a station of body 0":  perr = (|p|^2 - d^2)/2  (the tidy squared Rod form
// quoted in Constraint_RodImpl.h), plus one mobility-level term  + k*q  of a constrained mobilizer.
class CustomSquaredRod : public Constraint::Custom::Implementation {
public:
    CustomSquaredRod(SimbodyMatterSubsystem& m, MobilizedBody& b1, const Vec3& s1, MobilizedBody& b2, const Vec3& s2,
                     Real d, MobilizedBody& qmob, Real k)
        : Implementation(m, 1, 0, 0), s1(s1), s2(s2), d(d), k(k) {
        B1 = addConstrainedBody(b1); B2 = addConstrainedBody(b2); M = addConstrainedMobilizer(qmob);
    }
    Implementation* clone() const override { return new CustomSquaredRod(*this); }
    void calcPositionErrors(const State& s, const Array_<Transform, ConstrainedBodyIndex>& X_AB,
                            const Array_<Real, ConstrainedQIndex>& cq, Array_<Real>& perr) const override {
        const Vec3 p = X_AB[B2] * s2 - X_AB[B1] * s1;
        perr[0] = (dot(p, p) - d * d) / 2 + k * getOneQ(s, cq, M, MobilizerQIndex(0));
    }
    void calcPositionDotErrors(const State& s, const Array_<SpatialVec, ConstrainedBodyIndex>& V_AB,
                               const Array_<Real, ConstrainedQIndex>& cqd, Array_<Real>& pverr) const override {
        const Transform& X1 = getBodyTransformFromState(s, B1); const Transform& X2 = getBodyTransformFromState(s, B2);
        const Vec3 r1 = X1.R() * s1, r2 = X2.R() * s2;
        const Vec3 p = (X2.p() + r2) - (X1.p() + r1);
        const Vec3 v = (V_AB[B2][1] + V_AB[B2][0] % r2) - (V_AB[B1][1] + V_AB[B1][0] % r1);
        pverr[0] = dot(v, p) + k * getOneQDot(s, cqd, M, MobilizerQIndex(0));
    }
    void calcPositionDotDotErrors(const State& s, const Array_<SpatialVec, ConstrainedBodyIndex>& A_AB,
                                  const Array_<Real, ConstrainedQIndex>& cqdd, Array_<Real>& paerr) const override {
        const Transform& X1 = getBodyTransformFromState(s, B1); const Transform& X2 = getBodyTransformFromState(s, B2);
        const SpatialVec& V1 = getBodyVelocityFromState(s, B1); const SpatialVec& V2 = getBodyVelocityFromState(s, B2);
        const Vec3 r1 = X1.R() * s1, r2 = X2.R() * s2;
        const Vec3 p = (X2.p() + r2) - (X1.p() + r1);
        const Vec3 v = (V2[1] + V2[0] % r2) - (V1[1] + V1[0] % r1);
        const Vec3 a = (A_AB[B2][1] + A_AB[B2][0] % r2 + V2[0] % (V2[0] % r2))
                     - (A_AB[B1][1] + A_AB[B1][0] % r1 + V1[0] % (V1[0] % r1));
        paerr[0] = dot(a, p) + dot(v, v) + k * getOneQDotDot(s, cqdd, M, MobilizerQIndex(0));
    }
    void addInPositionConstraintForces(const State& s, const Array_<Real>& mult,
                                       Array_<SpatialVec, ConstrainedBodyIndex>& F, Array_<Real, ConstrainedQIndex>& qF) const override {
        const Transform& X1 = getBodyTransformFromState(s, B1); const Transform& X2 = getBodyTransformFromState(s, B2);
        const Vec3 p = X2 * s2 - X1 * s1;
        const Vec3 f = mult[0] * p;
        addInStationForce(s, B2, s2, f, F);
        addInStationForce(s, B1, s1, -f, F);
        addInOneQForce(s, M, MobilizerQIndex(0), k * mult[0], qF);
    }
    ConstrainedBodyIndex B1, B2; ConstrainedMobilizerIndex M; Vec3 s1, s2; Real d, k;
};

enum MobType { mPin, mSlider, mUniversal, mCylinder, mPlanar, mGimbal, mBushing, mTranslation, mBall, mFree, mScrew,
               mEllipsoid, mWeld, mBendStretch, mSphericalCoords, mLineOrientation, mFreeLine, mFunctionBased, mNumMob };
inline const char* mobName(int t) {
    static const char* n[] = {"Pin", "Slider", "Universal", "Cylinder", "Planar", "Gimbal", "Bushing", "Translation", "Ball",
                              "Free", "Screw", "Ellipsoid", "Weld", "BendStretch", "SphericalCoords", "LineOrientation",
                              "FreeLine", "FunctionBased"};
    return n[t];
}

struct Model {
    MultibodySystem system;
    SimbodyMatterSubsystem matter;
    GeneralForceSubsystem forces;
    std::vector<MobilizedBody> bodies;   // [0] = Ground
    std::vector<int> parent;             // index into bodies
    std::vector<int> mtype;
    std::vector<bool> reversed;          // mobilizer built with MobilizedBody::Reverse
    State state;
    Model() : matter(system), forces(system) {}
    int nb() const { return (int)bodies.size(); }
    bool isAncestor(int a, int b) const { // a is a proper ancestor of b (or a==b)
        while (b != 0) { if (b == a) return true; b = parent[b]; }
        return a == 0;
    }
    int depthOf(int b) const { int d = 0; while (b != 0) { b = parent[b]; ++d; } return d; }
    int commonAncestor(int a, int b) const {
        while (a != b) { if (depthOf(a) >= depthOf(b)) a = parent[a]; else b = parent[b]; }
        return a;
    }
};

inline Body::Rigid rbody(vh::Rng& g) {
    Real m = g.range(0.5, 3.0);
    Vec3 com = rvec(g, 0.3);
    Inertia I(0);
    for (int k = 0; k < 4; ++k) I += Inertia(rvec(g, 0.8) + Vec3(0.05, -0.03, 0.07), 0.25);
    return Body::Rigid(MassProperties(m, com, m * UnitInertia(I)));
}

// version 6: every mobilizer except Weld is built reversed with probability 1/4 (allowReverse), and the palette has
// BendStretch, SphericalCoords, LineOrientation, FreeLine and a 2-dof FunctionBased mobilizer (linear functions).
inline void addRandomBody(Model& M, vh::Rng& g, int parentIx, int type, bool allowReverse = true) {
    Body::Rigid b = rbody(g);
    Transform XPF = rframe(g, g.below(3)), XBM = rframe(g, g.below(3));
    MobilizedBody& p = M.bodies[parentIx];
    const bool rev = allowReverse && type != mWeld && g.below(4) == 0;
    const MobilizedBody::Direction dir = rev ? MobilizedBody::Reverse : MobilizedBody::Forward;
    MobilizedBody mb;
    switch (type) {
    case mPin: mb = MobilizedBody::Pin(p, XPF, b, XBM, dir); break;
    case mSlider: mb = MobilizedBody::Slider(p, XPF, b, XBM, dir); break;
    case mUniversal: mb = MobilizedBody::Universal(p, XPF, b, XBM, dir); break;
    case mCylinder: mb = MobilizedBody::Cylinder(p, XPF, b, XBM, dir); break;
    case mPlanar: mb = MobilizedBody::Planar(p, XPF, b, XBM, dir); break;
    case mGimbal: mb = MobilizedBody::Gimbal(p, XPF, b, XBM, dir); break;
    case mBushing: mb = MobilizedBody::Bushing(p, XPF, b, XBM, dir); break;
    case mTranslation: mb = MobilizedBody::Translation(p, XPF, b, XBM, dir); break;
    case mBall: mb = MobilizedBody::Ball(p, XPF, b, XBM, dir); break;
    case mFree: mb = MobilizedBody::Free(p, XPF, b, XBM, dir); break;
    case mScrew: mb = MobilizedBody::Screw(p, XPF, b, XBM, g.signedMag(0.2, 0.8), dir); break;
    case mEllipsoid: mb = MobilizedBody::Ellipsoid(p, XPF, b, XBM, Vec3(g.range(0.3, 0.8), g.range(0.3, 0.8), g.range(0.3, 0.8)), dir); break;
    case mBendStretch: mb = MobilizedBody::BendStretch(p, XPF, b, XBM, dir); break;
    case mSphericalCoords: mb = MobilizedBody::SphericalCoords(p, XPF, b, XBM, dir); break;
    case mLineOrientation: mb = MobilizedBody::LineOrientation(p, XPF, b, XBM, dir); break;
    case mFreeLine: mb = MobilizedBody::FreeLine(p, XPF, b, XBM, dir); break;
    case mFunctionBased: {
        // 2 mobilities; the six spatial coordinates (3 body-fixed XYZ angles, 3 translations) are linear in (q0,q1)
        std::vector<const Function*> fn; std::vector<std::vector<int> > ci;
        auto lin2 = [&](double a0, double a1, double c) { Vector co(3); co[0] = a0; co[1] = a1; co[2] = c; return new Function::Linear(co); };
        // rotation functions in the "diagonal" pattern theta_x(q0), theta_y(q1), theta_z = offset: the coupled patterns run
        // into the known FunctionBased HDot defects (known findings of C04: sysJ.bias.fd.FunctionBased.*)
        fn.push_back(lin2(1.0, 0.0, 0.0));  ci.push_back({0, 1});
        fn.push_back(lin2(0.0, g.signedMag(0.4, 1.2), 0.0)); ci.push_back({0, 1});
        fn.push_back(lin2(0.0, 0.0, g.range(-0.3, 0.3))); ci.push_back({0, 1});
        fn.push_back(lin2(0.0, 1.0, 0.0));  ci.push_back({0, 1});
        fn.push_back(lin2(g.range(-0.5, 0.5), 0.0, 0.2)); ci.push_back({0, 1});
        fn.push_back(lin2(0.2, g.range(-0.5, 0.5), 0.0)); ci.push_back({0, 1});
        mb = MobilizedBody::FunctionBased(p, XPF, b, XBM, 2, fn, ci, dir); break; }
    default: mb = MobilizedBody::Weld(p, XPF, b, XBM); break;
    }
    M.bodies.push_back(mb); M.parent.push_back(parentIx); M.mtype.push_back(type); M.reversed.push_back(rev);
}

// shape: 0 chain, 1 star, 2 random
inline void buildTree(Model& M, vh::Rng& g, int nBodies, const std::vector<int>& palette) {
    M.bodies.push_back(M.matter.Ground()); M.parent.push_back(0); M.mtype.push_back(-1); M.reversed.push_back(false);
    int shape = g.below(3);
    for (int i = 0; i < nBodies; ++i) {
        int p = shape == 0 ? (int)M.bodies.size() - 1 : shape == 1 ? (i == 0 ? 0 : 1 + g.below(std::min(i, 2))) : g.below((int)M.bodies.size());
        int type = palette[g.below((int)palette.size())];
        addRandomBody(M, g, p, type);
    }
}

inline std::vector<int> fullPalette() {
    return {mPin, mPin, mSlider, mUniversal, mCylinder, mPlanar, mGimbal, mBushing, mTranslation, mBall, mBall, mFree, mFree, mScrew, mEllipsoid, mWeld,
            mBendStretch, mSphericalCoords, mLineOrientation, mFreeLine, mFunctionBased};
}
inline std::vector<int> qdotIsUPalette() { // mobilizers whose N is the identity (qdot == u)
    return {mPin, mSlider, mUniversal, mCylinder, mPlanar, mTranslation, mScrew};
}

// choose two distinct bodies.  cls: 0 Ground+body, 1 ancestor/descendant (non-ground ancestor if possible), 2 unrelated, 3 any
inline void pickPair(const Model& M, vh::Rng& g, int cls, int& b1, int& b2) {
    int n = M.nb();
    for (int tries = 0; tries < 200; ++tries) {
        int x = g.below(n), y = g.below(n);
        if (x == y) continue;
        bool ok = false;
        if (cls == 0) ok = (x == 0 || y == 0);
        else if (cls == 1) ok = (x != 0 && y != 0) && (M.isAncestor(x, y) || M.isAncestor(y, x));
        else if (cls == 2) ok = (x != 0 && y != 0) && !M.isAncestor(x, y) && !M.isAncestor(y, x);
        else ok = true;
        if (ok) { b1 = x; b2 = y; return; }
    }
    // fall back: any distinct pair
    b1 = 0; b2 = 1 + g.below(n - 1);
}
inline std::string pairClass(const Model& M, int b1, int b2) {
    if (b1 == 0 || b2 == 0) return "ground";
    if (M.isAncestor(b1, b2) || M.isAncestor(b2, b1)) return "ancdesc";
    return M.commonAncestor(b1, b2) == 0 ? "unrelatedG" : "unrelatedA";
}

// a mobilizer with at least one q / u
inline int pickMobilizer(const Model& M, vh::Rng& g, bool needIdentityN = false) {
    std::vector<int> c;
    for (int i = 1; i < M.nb(); ++i) {
        int t = M.mtype[i];
        if (t == mWeld) continue;
        if (needIdentityN && !(t == mPin || t == mSlider || t == mUniversal || t == mCylinder || t == mPlanar || t == mTranslation || t == mScrew)) continue;
        c.push_back(i);
    }
    if (c.empty()) return -1;
    return c[g.below((int)c.size())];
}
inline int nuOfType(int t) {
    switch (t) { case mPin: case mSlider: case mScrew: return 1; case mUniversal: case mCylinder: case mBendStretch: case mLineOrientation: case mFunctionBased: return 2;
                 case mSphericalCoords: return 3; case mFreeLine: return 5;
                 case mPlanar: case mGimbal: case mTranslation: case mBall: case mEllipsoid: return 3;
                 case mBushing: case mFree: return 6; default: return 0; }
}

enum ConsType { cRod, cBall, cWeld, cPointInPlane, cPointOnLine, cConstantAngle, cConstantOrientation, cNoSlip1D,
                cConstantCoordinate, cConstantSpeed, cConstantAcceleration, cCoordinateCoupler, cSpeedCoupler,
                cPrescribedMotion, cPointOnPlaneContact, cSphereOnPlaneContact, cSphereOnSphereContact,
                cLineOnLineContact, cCustom, cNumCons };
inline const char* consName(int t) {
    static const char* n[] = {"Rod", "Ball", "Weld", "PointInPlane", "PointOnLine", "ConstantAngle", "ConstantOrientation",
                              "NoSlip1D", "ConstantCoordinate", "ConstantSpeed", "ConstantAcceleration", "CoordinateCoupler",
                              "SpeedCoupler", "PrescribedMotion", "PointOnPlaneContact", "SphereOnPlaneContact",
                              "SphereOnSphereContact", "LineOnLineContact", "Custom"};
    return n[t];
}

// description of what was attached (so the harness can export parameters to the model)
struct ConsInfo {
    int type = -1;
    Constraint c;
    std::vector<int> cbodies;            // constrained bodies (indices into Model::bodies) in ConstrainedBodyIndex order
    std::vector<int> cmobs;              // constrained mobilizers
    std::vector<int> cq, cu;             // MobilizerQIndex / MobilizerUIndex used
    std::vector<double> par;             // numeric parameters, type specific
    const QuadFunction* fn = nullptr;    // owned by the constraint
    int nSpeedArgs = 0;                  // SpeedCoupler: first nSpeedArgs args are speeds, rest are q's
    bool rolling = false;
    std::string cls;
};

inline void pushV(std::vector<double>& p, const Vec3& v) { for (int i = 0; i < 3; ++i) p.push_back(v[i]); }
inline void pushR(std::vector<double>& p, const Rotation& R) { for (int i = 0; i < 3; ++i) for (int j = 0; j < 3; ++j) p.push_back(R.asMat33()(i, j)); }
inline void pushX(std::vector<double>& p, const Transform& X) { pushR(p, X.R()); pushV(p, X.p()); }

// nq of a mobilizer type under the default (quaternion) modelling; used only for choosing coordinate indices < nq_min
inline int nqMinOfType(int t) { int n = nuOfType(t); return n; } // Euler option has nq==nu; quaternion has nq=nu+1: index < nu is always valid

// Attach one constraint of the given type.  pairCls as in pickPair.  Returns false if the tree cannot host it.
inline bool addConstraint(Model& M, vh::Rng& g, int type, int pairCls, ConsInfo& ci, bool identityNOnly = false) {
    ci = ConsInfo(); ci.type = type;
    int b1 = 0, b2 = 1;
    auto B = [&](int i) -> MobilizedBody& { return M.bodies[i]; };
    switch (type) {
    case cRod: {
        pickPair(M, g, pairCls, b1, b2); Vec3 s1 = rvec(g, 0.6), s2 = rvec(g, 0.6); Real d = g.range(0.4, 1.5);
        ci.c = Constraint::Rod(B(b1), s1, B(b2), s2, d); ci.cbodies = {b1, b2}; pushV(ci.par, s1); pushV(ci.par, s2); ci.par.push_back(d); break; }
    case cBall: {
        pickPair(M, g, pairCls, b1, b2); Vec3 s1 = rvec(g, 0.6), s2 = rvec(g, 0.6);
        ci.c = Constraint::Ball(B(b1), s1, B(b2), s2); ci.cbodies = {b1, b2}; pushV(ci.par, s1); pushV(ci.par, s2); break; }
    case cWeld: {
        pickPair(M, g, pairCls, b1, b2); Transform f1 = rframe(g, 2), f2 = rframe(g, 2);
        ci.c = Constraint::Weld(B(b1), f1, B(b2), f2); ci.cbodies = {b1, b2}; pushX(ci.par, f1); pushX(ci.par, f2); break; }
    case cPointInPlane: {
        pickPair(M, g, pairCls, b1, b2); UnitVec3 n = runit(g); Real h = g.range(-0.5, 0.5); Vec3 s = rvec(g, 0.6);
        ci.c = Constraint::PointInPlane(B(b1), n, h, B(b2), s); ci.cbodies = {b1, b2}; pushV(ci.par, Vec3(n)); ci.par.push_back(h); pushV(ci.par, s); break; }
    case cPointOnLine: {
        pickPair(M, g, pairCls, b1, b2); UnitVec3 z = runit(g); Vec3 P = rvec(g, 0.6), s = rvec(g, 0.6);
        ci.c = Constraint::PointOnLine(B(b1), z, P, B(b2), s); ci.cbodies = {b1, b2};
        // the two plane normals the Impl derives at realizeTopology via the public UnitVec3 API
        UnitVec3 x = z.perp(); UnitVec3 y(z % x);
        pushV(ci.par, Vec3(x)); pushV(ci.par, Vec3(y)); pushV(ci.par, P); pushV(ci.par, s); break; }
    case cConstantAngle: {
        pickPair(M, g, pairCls, b1, b2); UnitVec3 ab = runit(g), af = runit(g); Real ang = g.range(0.3, 2.8);
        ci.c = Constraint::ConstantAngle(B(b1), ab, B(b2), af, ang); ci.cbodies = {b1, b2};
        pushV(ci.par, Vec3(ab)); pushV(ci.par, Vec3(af)); ci.par.push_back(std::cos(ang)); break; }
    case cConstantOrientation: {
        pickPair(M, g, pairCls, b1, b2); Rotation rb = rrot(g), rf = rrot(g);
        ci.c = Constraint::ConstantOrientation(B(b1), rb, B(b2), rf); ci.cbodies = {b1, b2}; pushR(ci.par, rb); pushR(ci.par, rf); break; }
    case cNoSlip1D: {
        if (M.nb() < 3) return false;
        int c0, m0, m1; int tries = 0;
        do { c0 = g.below(M.nb()); m0 = g.below(M.nb()); m1 = g.below(M.nb()); } while ((c0 == m0 || c0 == m1 || m0 == m1) && ++tries < 500);
        if (c0 == m0 || c0 == m1 || m0 == m1) return false;
        Vec3 P = rvec(g, 0.6); UnitVec3 n = runit(g);
        ci.c = Constraint::NoSlip1D(B(c0), P, n, B(m0), B(m1)); ci.cbodies = {c0, m0, m1}; pushV(ci.par, P); pushV(ci.par, Vec3(n));
        b1 = m0; b2 = m1; break; }
    case cConstantCoordinate: {
        int m = pickMobilizer(M, g, identityNOnly); if (m < 0) return false; int k = g.below(nuOfType(M.mtype[m])); Real p = g.range(-0.5, 0.5);
        ci.c = Constraint::ConstantCoordinate(B(m), MobilizerQIndex(k), p); ci.cmobs = {m}; ci.cq = {k}; ci.par = {p}; b1 = b2 = m; break; }
    case cConstantSpeed: {
        int m = pickMobilizer(M, g); if (m < 0) return false; int k = g.below(nuOfType(M.mtype[m])); Real p = g.range(-0.5, 0.5);
        ci.c = Constraint::ConstantSpeed(B(m), MobilizerUIndex(k), p); ci.cmobs = {m}; ci.cu = {k}; ci.par = {p}; b1 = b2 = m; break; }
    case cConstantAcceleration: {
        int m = pickMobilizer(M, g); if (m < 0) return false; int k = g.below(nuOfType(M.mtype[m])); Real p = g.range(-0.5, 0.5);
        ci.c = Constraint::ConstantAcceleration(B(m), MobilizerUIndex(k), p); ci.cmobs = {m}; ci.cu = {k}; ci.par = {p}; b1 = b2 = m; break; }
    case cCoordinateCoupler: {
        int n = 1 + g.below(3); Array_<MobilizedBodyIndex> mb; Array_<MobilizerQIndex> qi;
        for (int i = 0; i < n; ++i) { int m = pickMobilizer(M, g, identityNOnly); if (m < 0) return false; int k = g.below(nuOfType(M.mtype[m]));
            mb.push_back(B(m).getMobilizedBodyIndex()); qi.push_back(MobilizerQIndex(k)); ci.cmobs.push_back(m); ci.cq.push_back(k); }
        QuadFunction* f = new QuadFunction(g, n, false); ci.fn = f;
        ci.c = Constraint::CoordinateCoupler(M.matter, f, mb, qi); b1 = b2 = ci.cmobs[0]; break; }
    case cSpeedCoupler: {
        int n = 1 + g.below(3), nqArgs = g.below(3); Array_<MobilizedBodyIndex> mb, qb; Array_<MobilizerUIndex> ui; Array_<MobilizerQIndex> qi;
        for (int i = 0; i < n; ++i) { int m = pickMobilizer(M, g); if (m < 0) return false; int k = g.below(nuOfType(M.mtype[m]));
            mb.push_back(B(m).getMobilizedBodyIndex()); ui.push_back(MobilizerUIndex(k)); ci.cmobs.push_back(m); ci.cu.push_back(k); }
        for (int i = 0; i < nqArgs; ++i) { int m = pickMobilizer(M, g); if (m < 0) return false; int k = g.below(nuOfType(M.mtype[m]));
            qb.push_back(B(m).getMobilizedBodyIndex()); qi.push_back(MobilizerQIndex(k)); ci.cmobs.push_back(m); ci.cq.push_back(k); }
        QuadFunction* f = new QuadFunction(g, n + nqArgs, false); ci.fn = f; ci.nSpeedArgs = n;
        ci.c = Constraint::SpeedCoupler(M.matter, f, mb, ui, qb, qi); b1 = b2 = ci.cmobs[0]; break; }
    case cPrescribedMotion: {
        int m = pickMobilizer(M, g, identityNOnly); if (m < 0) return false; int k = g.below(nuOfType(M.mtype[m]));
        QuadFunction* f = new QuadFunction(g, 1, false); ci.fn = f;
        ci.c = Constraint::PrescribedMotion(M.matter, f, B(m).getMobilizedBodyIndex(), MobilizerQIndex(k)); ci.cmobs = {m}; ci.cq = {k}; b1 = b2 = m; break; }
    case cPointOnPlaneContact: {
        pickPair(M, g, pairCls, b1, b2); Transform XP = rframe(g, 2); Vec3 s = rvec(g, 0.6);
        ci.c = Constraint::PointOnPlaneContact(B(b1), XP, B(b2), s); ci.cbodies = {b1, b2}; pushX(ci.par, XP); pushV(ci.par, s); break; }
    case cSphereOnPlaneContact: {
        pickPair(M, g, pairCls, b1, b2); Transform XP = rframe(g, 2); Vec3 s = rvec(g, 0.6); Real r = g.range(0.2, 0.8); ci.rolling = g.coin();
        ci.c = Constraint::SphereOnPlaneContact(B(b1), XP, B(b2), s, r, ci.rolling); ci.cbodies = {b1, b2}; pushX(ci.par, XP); pushV(ci.par, s); ci.par.push_back(r); break; }
    case cSphereOnSphereContact: {
        pickPair(M, g, pairCls, b1, b2); Vec3 s1 = rvec(g, 0.6), s2 = rvec(g, 0.6); Real r1 = g.range(0.2, 0.8), r2 = g.range(0.2, 0.8); ci.rolling = g.coin();
        ci.c = Constraint::SphereOnSphereContact(B(b1), s1, r1, B(b2), s2, r2, ci.rolling); ci.cbodies = {b1, b2};
        pushV(ci.par, s1); ci.par.push_back(r1); pushV(ci.par, s2); ci.par.push_back(r2); break; }
    case cLineOnLineContact: {
        pickPair(M, g, pairCls, b1, b2); Transform e1 = rframe(g, 2), e2 = rframe(g, 2); ci.rolling = g.coin();
        ci.c = Constraint::LineOnLineContact(B(b1), e1, g.range(0.5, 2.0), B(b2), e2, g.range(0.5, 2.0), ci.rolling); ci.cbodies = {b1, b2}; break; }
    case cCustom: {
        pickPair(M, g, pairCls, b1, b2); int m = pickMobilizer(M, g); if (m < 0) return false;
        Vec3 s1 = rvec(g, 0.6), s2 = rvec(g, 0.6);
        ci.c = Constraint::Custom(new CustomSquaredRod(M.matter, B(b1), s1, B(b2), s2, g.range(0.4, 1.5), B(m), g.range(-1.0, 1.0)));
        ci.cbodies = {b1, b2}; ci.cmobs = {m}; break; }
    default: return false;
    }
    ci.cls = ci.cbodies.size() >= 2 ? pairClass(M, b1, b2) : "mobility";
    return true;
}

// random state: q in [-qa,qa] (quaternions normalised), u in [-ua,ua]
inline void randomState(Model& M, vh::Rng& g, double qa = 1.0, double ua = 1.0) {
    State& s = M.state;
    Vector q(s.getNQ()), u(s.getNU());
    for (int i = 0; i < q.size(); ++i) q[i] = g.range(-qa, qa);
    for (int i = 0; i < u.size(); ++i) u[i] = g.range(-ua, ua);
    s.updQ() = q; s.updU() = u;
    // keep coordinates away from the mobilizers' own singular configurations
    for (int b = 1; b < M.nb(); ++b) {
        const int q0 = (int)M.bodies[b].getFirstQIndex(s);
        if (M.mtype[b] == mBendStretch) s.updQ()[q0 + 1] = 0.4 + std::abs(s.getQ()[q0 + 1]);         // stretch > 0
        if (M.mtype[b] == mSphericalCoords) { s.updQ()[q0 + 1] = 0.4 + std::abs(s.getQ()[q0 + 1]);   // zenith in [0.4,1.4]
                                              s.updQ()[q0 + 2] = 0.4 + std::abs(s.getQ()[q0 + 2]); } // radius > 0
    }
    M.system.realize(s, Stage::Position);
    M.matter.normalizeQuaternions(s);     // public API; only touches quaternion q's
}

inline bool hasLineMobilizer(const Model& M) { for (int t : M.mtype) if (t == mLineOrientation || t == mFreeLine) return true; return false; }
// LineOrientation / FreeLine in quaternion mode have known kinematic defects of their own (known findings C03.*Line.quaternion.*,
// C04 sysJ.bias.fd.reversedLine.quaternion): trees containing them are modelled with Euler angles unless the caller asks
// for the quaternion class explicitly (allowLineQuat), which it must then tag and key separately.
inline void finishTopology(Model& M, vh::Rng& g, bool allowEuler = true, bool allowLineQuat = false) {
    M.state = M.system.realizeTopology();
    bool euler = allowEuler && g.below(4) == 0;
    if (hasLineMobilizer(M) && !allowLineQuat) euler = true;
    if (euler) M.matter.setUseEulerAngles(M.state, true);
    M.system.realizeModel(M.state);
}

// true if some body-fixed-XYZ Euler sequence (Gimbal, Bushing always; Ball, Free, Ellipsoid, LineOrientation, FreeLine in Euler
// mode) is close to its singular configuration |cos q1| < 0.2 (DESIGN §4.1): finite differences and N^-1 are ill-conditioned there
inline bool nearEulerSingularity(const Model& M) {
    const State& s = M.state; const bool euler = M.matter.getUseEulerAngles(s);
    for (int b = 1; b < M.nb(); ++b) {
        const int t = M.mtype[b];
        const bool seq = t == mGimbal || t == mBushing || (euler && (t == mBall || t == mFree || t == mEllipsoid || t == mLineOrientation || t == mFreeLine));
        if (seq && std::abs(std::cos(s.getQ()[(int)M.bodies[b].getFirstQIndex(s) + 1])) < 0.2) return true;
    }
    return false;
}

// one D tag per body: mobilizer type and direction (counted into the evidence)
inline void tagBodies(const Model& M) { for (int b = 1; b < M.nb(); ++b) vh::D(std::string("mob.") + mobName(M.mtype[b]) + (M.reversed[b] ? ".rev" : "")); }

inline double maxAbs(const Vector& v) { double m = 0; for (int i = 0; i < v.size(); ++i) { double a = std::abs(v[i]); if (std::isnan(a)) return NAN; if (a > m) m = a; } return m; } // NaN propagates
inline Vector rvector(vh::Rng& g, int n, double a = 1.0) { Vector v(n); for (int i = 0; i < n; ++i) v[i] = g.range(-a, a); return v; }

} // namespace ceq
#endif
