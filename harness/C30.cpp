// C30 correspondence harness: PolynomialRootFinder::findRoots, all overloads, float and double.
//   I quadReal a b c            -> O quadReal r1re r1im r2re r2im         (model: SimbodyModel/C30.lean)
//   I quadRealF a b c           (float instantiation; compared at single-precision tolerance)
//   I quadCx ar ai br bi cr ci  -> O quadCx ...
//   I polyCheck n <re im of n+1 coeffs> <re im of n roots>  -> O polyCheck 1   (kind K: the exact-rational
//                                  contract of the Lean driver must accept what rpoly/cpoly returned)
// P lines: residual |p(r)| against the backward-error bound, Vieta sum/product, conjugate pairing, root count.
#include "SimTKcommon.h"
#include "hcommon.h"
#include <complex>
#include <algorithm>
using namespace SimTK;
using vh::hex;
typedef std::complex<long double> CL;

static long double polyScaleAt(const std::vector<CL>& a, CL z) {
    long double s = 0, p = 1, az = std::abs(z);
    int n = (int)a.size() - 1;
    for (int i = n; i >= 0; --i) { s += std::abs(a[i]) * p; p *= az; }
    return s;
}
static CL polyAt(const std::vector<CL>& a, CL z) {
    CL v = 0;
    for (size_t i = 0; i < a.size(); ++i) v = v * z + a[i];
    return v;
}
// evaluates all predicates of the property on the implementation's own output
static void predicates(const std::string& key, const std::vector<CL>& a, const std::vector<CL>& r, bool realCoef,
                       double eps, double C) {
    int n = (int)a.size() - 1;
    vh::P("root_count", key + ".count", std::abs((double)r.size() - n), 0);
    // "tolerance proportional to the coefficient scale and the root's conditioning": the residual of root z is
    // measured relative to S(z) = sum |a_i||z|^(n-i) and allowed C*n*eps*(1+kappa(z)), kappa(z) = S(z)/(|z||p'(z)|)
    // the relative condition number of z (infinite for a multiple root, O(1..100) for simple separated roots).
    double worst = 0; bool nan = false; long double kmax = 0;
    for (auto z : r) {
        if (std::isnan((double)z.real()) || std::isnan((double)z.imag())) { nan = true; continue; }
        long double res = std::abs(polyAt(a, z)), sc = polyScaleAt(a, z);
        CL dp = 0; for (int i = 0; i < n; ++i) dp = dp * z + a[i] * (long double)(n - i);
        long double den = std::abs(z) * std::abs(dp);
        long double kappa = den > 0 ? std::min<long double>(sc / den, 1e6L) : 1e6L;   // capped: even at a multiple root the residual must stay within C*n*eps*1e6*S
        kmax = std::max(kmax, kappa);
        worst = std::max(worst, (double)(res / (sc > 0 ? sc : 1) / (1 + kappa)));
    }
    vh::P("residual_rel", key + ".residual", nan ? NAN : worst, C * n * eps);
    C *= (double)(1 + kmax);   // Vieta bounds scale with the worst root conditioning
    // Vieta: sum of roots = -a1/a0, product = (-1)^n an/a0
    CL sum = 0, prod = 1; long double sabs = 0, pabs = 1;
    for (auto z : r) { sum += z; prod *= z; sabs += std::abs(z); pabs *= std::abs(z); }
    CL esum = -a[1] / a[0], eprod = ((n % 2) ? -a[n] : a[n]) / a[0];
    // conditioning-aware bounds: perturbing coefficient i by eps|a_i| moves the sum/product by at most these scales
    long double cs = 0; for (auto c : a) cs += std::abs(c);
    long double sumScale = std::max<long double>(sabs, cs / std::abs(a[0]));
    vh::P("vieta_sum", key + ".vieta_sum", (double)(std::abs(sum - esum) / (sumScale > 0 ? sumScale : 1)), C * n * eps);
    long double prodScale = std::max<long double>(pabs, std::abs(eprod));
    // the product is compared in the relative sense only when it is well conditioned (all roots away from 0)
    vh::P("vieta_prod", key + ".vieta_prod", (double)(std::abs(prod - eprod) / (prodScale > 0 ? prodScale : 1)),
          C * n * n * eps * 64);
    if (realCoef) {
        // non-real roots come in conjugate pairs
        double worstPair = 0;
        std::vector<bool> used(r.size(), false);
        for (size_t i = 0; i < r.size(); ++i) {
            if (used[i] || r[i].imag() == 0) continue;
            long double best = INFINITY; int bj = -1;
            for (size_t j = 0; j < r.size(); ++j)
                if (j != i && !used[j]) { long double d = std::abs(r[j] - std::conj(r[i])); if (d < best) { best = d; bj = (int)j; } }
            if (bj >= 0) { used[i] = used[bj] = true; }
            worstPair = std::max(worstPair, (double)(best / std::max<long double>(std::abs(r[i]), 1e-300L)));
        }
        vh::P("conj_pairs", key + ".conj", worstPair, 1e3 * eps);
    }
}

template <class T> static void quadRealCase(const char* fn, double a, double b, double c, const char* tag) {
    Vec<3, T> co((T)a, (T)b, (T)c); Vec<2, std::complex<T> > roots;
    PolynomialRootFinder::findRoots(co, roots);
    vh::I(fn).d((double)co[0]).d((double)co[1]).d((double)co[2]).emit();
    if (sizeof(T) == 4) std::printf("T 2e-4 1e-6\n");
    vh::O(fn).d(roots[0].real()).d(roots[0].imag()).d(roots[1].real()).d(roots[1].imag()).emit();
    vh::D(std::string(fn) + "." + tag);
    std::vector<CL> A = {CL(co[0]), CL(co[1]), CL(co[2])}, R = {CL(roots[0]), CL(roots[1])};
    predicates(std::string(fn) + "." + tag, A, R, true, NTraits<T>::getEps(), 64);
}
static void quadCxCase(std::complex<double> a, std::complex<double> b, std::complex<double> c, const char* tag) {
    Vec<3, std::complex<double> > co(a, b, c); Vec<2, std::complex<double> > roots;
    PolynomialRootFinder::findRoots(co, roots);
    vh::I("quadCx").d(a.real()).d(a.imag()).d(b.real()).d(b.imag()).d(c.real()).d(c.imag()).emit();
    vh::O("quadCx").d(roots[0].real()).d(roots[0].imag()).d(roots[1].real()).d(roots[1].imag()).emit();
    vh::D(std::string("quadCx.") + tag);
    std::vector<CL> A = {CL(a), CL(b), CL(c)}, R = {CL(roots[0]), CL(roots[1])};
    predicates(std::string("quadCx.") + tag, A, R, false, NTraits<double>::getEps(), 64);
}
// degree >= 3 (rpoly / cpoly): contract only
static void polyCase(vh::Rng& g, int n, bool cx, bool viaVec4, int scaleExp = 0) {
    std::vector<std::complex<double> > a(n + 1);
    // scaleExp != 0: all coefficients multiplied by 2^scaleExp (exact), exercising the solvers' overflow/underflow scaling
    for (auto& c : a) c = std::complex<double>(std::ldexp(g.signedMag(0.1, 10), scaleExp), cx ? std::ldexp(g.signedMag(0.1, 10), scaleExp) : 0.0);
    std::vector<std::complex<double> > r(n);
    if (viaVec4 && n == 3) {
        Vec<3, std::complex<double> > roots;
        if (cx) { Vec<4, std::complex<double> > co(a[0], a[1], a[2], a[3]); PolynomialRootFinder::findRoots(co, roots); }
        else { Vec<4, double> co(a[0].real(), a[1].real(), a[2].real(), a[3].real()); PolynomialRootFinder::findRoots(co, roots); }
        for (int i = 0; i < 3; ++i) r[i] = roots[i];
    } else {
        Vector_<std::complex<double> > roots(n);
        if (cx) { Vector_<std::complex<double> > co(n + 1); for (int i = 0; i <= n; ++i) co[i] = a[i]; PolynomialRootFinder::findRoots(co, roots); }
        else { Vector_<double> co(n + 1); for (int i = 0; i <= n; ++i) co[i] = a[i].real(); PolynomialRootFinder::findRoots(co, roots); }
        for (int i = 0; i < n; ++i) r[i] = roots[i];
    }
    vh::Line in = vh::I("polyCheck"); in.i(n);
    for (auto c : a) in.d(c.real()).d(c.imag());
    for (auto z : r) in.d(z.real()).d(z.imag());
    in.emit();
    std::printf("O polyCheck 1\n");
    std::string tag = std::string(cx ? "cpoly" : "rpoly") + (viaVec4 && n == 3 ? ".vec4" : ".vector") + (scaleExp > 0 ? ".huge" : scaleExp < 0 ? ".tiny" : "");
    vh::D(tag + ".deg" + std::to_string(n));
    std::vector<CL> A, R; for (auto c : a) A.push_back(CL(c)); for (auto z : r) R.push_back(CL(z));
    predicates(tag, A, R, !cx, NTraits<double>::getEps(), 1e4);
}

// polynomial built from known roots (multiple / clustered / zero / widely scaled); coefficients expanded in
// long double and rounded; the predicates are evaluated against the rounded polynomial actually given
template <class T> static void knownRootsCase(vh::Rng& g, int n, int kind) {
    std::vector<CL> roots; bool cx = (kind == 4);
    while ((int)roots.size() < n) {
        long double re, im = 0;
        switch (kind) {
          case 0: re = g.smallInt(-3, 3); break;                                   // multiple integer roots incl. 0
          case 1: re = 1.0 + 1e-3 * g.smallInt(-3, 3); break;                      // cluster near 1
          case 2: re = std::pow(10.0, g.smallInt(-3, 3)) * (g.coin() ? 1 : -1); break; // widely scaled
          case 3: re = g.signedMag(0.1, 3); im = g.coin() ? g.range(0.1, 3) : 0; break; // conjugate pairs
          default: re = g.signedMag(0.1, 3); im = g.signedMag(0.1, 3); break;      // complex coefficients
        }
        roots.push_back(CL(re, im));
        if (kind == 3 && im != 0 && (int)roots.size() < n) roots.push_back(CL(re, -im));
        else if (kind == 3 && im != 0) roots.back() = CL(re, 0);
    }
    std::vector<CL> a(1, CL(g.smallInt(1, 3), 0));
    for (auto r : roots) { a.push_back(0); for (int i = (int)a.size() - 1; i >= 1; --i) a[i] -= r * a[i - 1]; }
    std::vector<std::complex<T> > at(n + 1); for (int i = 0; i <= n; ++i) at[i] = std::complex<T>((T)a[i].real(), cx ? (T)a[i].imag() : (T)0);
    Vector_<std::complex<T> > out(n);
    if (cx) { Vector_<std::complex<T> > co(n + 1); for (int i = 0; i <= n; ++i) co[i] = at[i]; PolynomialRootFinder::findRoots(co, out); }
    else { Vector_<T> co(n + 1); for (int i = 0; i <= n; ++i) co[i] = at[i].real(); PolynomialRootFinder::findRoots(co, out); }
    const char* kn[] = {"multint", "cluster", "widescale", "conjpairs", "cxknown"};
    // input class: does the polynomial have a repeated / tightly clustered root?  (rpoly's deflation loses accuracy on
    // the remaining roots in that case: known finding, keyed separately from the simple-root class)
    long double minsep = INFINITY;
    for (size_t i = 0; i < roots.size(); ++i) for (size_t j = i + 1; j < roots.size(); ++j)
        minsep = std::min(minsep, std::abs(roots[i] - roots[j]) / std::max<long double>(std::max(std::abs(roots[i]), std::abs(roots[j])), 1e-300L));
    std::string tag = std::string(sizeof(T) == 4 ? "f." : "") + "known." + kn[kind] + (minsep < 0.05L ? ".multiple" : ".simple");
    std::vector<CL> A, R; for (auto c : at) A.push_back(CL(c)); for (int i = 0; i < n; ++i) R.push_back(CL(out[i]));
    if (sizeof(T) == 8) {
        vh::Line in = vh::I("polyCheck"); in.i(n);
        for (auto c : at) in.d((double)c.real()).d((double)c.imag());
        for (auto z : R) in.d((double)z.real()).d((double)z.imag());
        in.emit(); std::printf("O polyCheck 1\n");
    } else {   // float instantiation: implementation-side predicates only (the exact contract is for binary64 data)
        vh::Line in = vh::I("polyFloat"); in.i(n); for (auto c : at) in.d((double)c.real()).d((double)c.imag()); in.emit();
        std::printf("O polyFloat -\n");
    }
    vh::D(tag + ".deg" + std::to_string(n));
    predicates(tag, A, R, !cx, NTraits<T>::getEps(), 1e5);
}

static void replay() {
    char buf[1 << 16];
    while (std::fgets(buf, sizeof buf, stdin)) {
        std::istringstream is(buf); std::string k, fn; is >> k >> fn;
        if (k != "I") continue;
        std::vector<double> v; std::string t; while (is >> t) v.push_back(vh::unhex(t));
        if (fn == "quadReal" && v.size() == 3) quadRealCase<double>("quadReal", v[0], v[1], v[2], "replay");
        else if (fn == "quadRealF" && v.size() == 3) quadRealCase<float>("quadRealF", v[0], v[1], v[2], "replay");
        else if (fn == "quadCx" && v.size() == 6) quadCxCase({v[0], v[1]}, {v[2], v[3]}, {v[4], v[5]}, "replay");
    }
}

int main(int argc, char** argv) {
    vh::Args args(argc, argv);
    if (args.mode == "replay") { replay(); return 0; }
    vh::Rng g(args.seed * 7919 + 30);
    for (long k = 0; k < args.n; ++k) {
        int stream = g.below(10);
        double a = g.signedMag(0.1, 10), b = g.signedMag(0.1, 10), c = g.signedMag(0.1, 10);
        if (stream <= 2) quadRealCase<double>("quadReal", a, b, c, "generic");
        else if (stream == 3) quadRealCase<double>("quadReal", a, 0.0, c, "bzero");               // +-sqrt branch, both signs of disc
        else if (stream == 4) { double p = g.smallInt(1, 9), q = g.smallInt(1, 9);                // exact double root (p x + q)^2
            quadRealCase<double>("quadReal", p * p, 2 * p * q * (g.coin() ? 1 : -1), q * q, "double"); }
        else if (stream == 5) { int sub = g.below(4);
            if (sub == 0) quadRealCase<double>("quadReal", g.smallInt(1, 9) * (g.coin() ? 1 : -1), g.smallInt(-9, 9), g.smallInt(-9, 9), "smallint");
            else if (sub == 1) quadRealCase<double>("quadReal", a, b, 0.0, "czero");
            else if (sub == 2) quadRealCase<double>("quadReal", a * std::pow(10.0, g.smallInt(-6, 6)), b * std::pow(10.0, g.smallInt(-6, 6)), c * std::pow(10.0, g.smallInt(-6, 6)), "widescale");
            else quadCxCase({a * std::pow(10.0, g.smallInt(-6, 6)), g.signedMag(0.1, 10)}, {b, g.signedMag(0.1, 10) * std::pow(10.0, g.smallInt(-6, 6))}, {c, g.signedMag(0.1, 10)}, "widescale"); }
        else if (stream == 6) { if (g.coin()) quadRealCase<float>("quadRealF", a, b, c, "generic"); else quadRealCase<float>("quadRealF", a, 0.0, c, "bzero"); }
        else if (stream == 7) quadCxCase({a, g.signedMag(0.1, 10)}, {b, g.signedMag(0.1, 10)}, {c, g.signedMag(0.1, 10)}, "generic");
        else if (stream == 8) { if (g.coin()) quadCxCase({a, g.signedMag(0.1, 10)}, {0, 0}, {c, g.signedMag(0.1, 10)}, "bzero");
                                else quadCxCase({a, 0}, {b, 0}, {c, 0}, "realcoef"); }
        else if (g.coin()) { int n = 3 + g.below(args.n > 1000 ? 18 : 10);
                             int se = g.below(4) ? 0 : (g.coin() ? 1 : -1) * (500 + g.below(20)); polyCase(g, n, g.coin(), g.coin(), se); }
        else { int kind = g.below(5); int n = 2 + g.below(kind <= 1 ? 5 : 9);
               if (g.below(4) == 0) knownRootsCase<float>(g, std::min(n, 6), kind); else knownRootsCase<double>(g, n, kind); }
    }
    return 0;
}
