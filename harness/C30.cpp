// C30 correspondence harness: PolynomialRootFinder::findRoots, all overloads, float and double.
//   I quadReal a b c            -> O quadReal r1re r1im r2re r2im         (model: SimbodyModel/C30.lean)
//   I quadRealF a b c           (float instantiation; compared at single-precision tolerance)
//   I quadCx ar ai br bi cr ci  -> O quadCx ...
//   I polyCheck n <re im of n+1 coeffs> <re im of n roots>  -> O polyCheck 1   (kind K: the exact-rational
//                                  contract of the Lean driver must accept what rpoly/cpoly returned)
// P lines: residual |p(r)| against the backward-error bound, Vieta sum/product, conjugate pairing, root count.
#include "SimTKcommon.h"
#include "hcommon.h"
#include <complex>
#include <algorithm>
using namespace SimTK;
using vh::hex;
typedef std::complex<long double> CL;

static long double polyScaleAt(const std::vector<CL>& a, CL z) {
    long double s = 0, p = 1, az = std::abs(z);
    int n = (int)a.size() - 1;
    for (int i = n; i >= 0; --i) { s += std::abs(a[i]) * p; p *= az; }
    return s;
}
static CL polyAt(const std::vector<CL>& a, CL z) {
    CL v = 0;
    for (size_t i = 0; i < a.size(); ++i) v = v * z + a[i];
    return v;
}
// evaluates all predicates of the property on the implementation's own output
static void predicates(const std::string& key, const std::vector<CL>& a, const std::vector<CL>& r, bool realCoef,
                       double eps, double C) {
    int n = (int)a.size() - 1;
    vh::P("root_count", key + ".count", std::abs((double)r.size() - n), 0);
    double worst = 0; bool nan = false;
    for (auto z : r) {
        if (std::isnan((double)z.real()) || std::isnan((double)z.imag())) { nan = true; continue; }
        long double res = std::abs(polyAt(a, z)), sc = polyScaleAt(a, z);
        worst = std::max(worst, (double)(res / (sc > 0 ? sc : 1)));
    }
    vh::P("residual_rel", key + ".residual", nan ? NAN : worst, C * n * eps);
    // Vieta: sum of roots = -a1/a0, product = (-1)^n an/a0
    CL sum = 0, prod = 1; long double sabs = 0, pabs = 1;
    for (auto z : r) { sum += z; prod *= z; sabs += std::abs(z); pabs *= std::abs(z); }
    CL esum = -a[1] / a[0], eprod = ((n % 2) ? -a[n] : a[n]) / a[0];
    // conditioning-aware bounds: perturbing coefficient i by eps|a_i| moves the sum/product by at most these scales
    long double cs = 0; for (auto c : a) cs += std::abs(c);
    long double sumScale = std::max<long double>(sabs, cs / std::abs(a[0]));
    vh::P("vieta_sum", key + ".vieta_sum", (double)(std::abs(sum - esum) / (sumScale > 0 ? sumScale : 1)), C * n * eps);
    long double prodScale = std::max<long double>(pabs, std::abs(eprod));
    // the product is compared in the relative sense only when it is well conditioned (all roots away from 0)
    vh::P("vieta_prod", key + ".vieta_prod", (double)(std::abs(prod - eprod) / (prodScale > 0 ? prodScale : 1)),
          C * n * n * eps * 64);
    if (realCoef) {
        // non-real roots come in conjugate pairs
        double worstPair = 0;
        std::vector<bool> used(r.size(), false);
        for (size_t i = 0; i < r.size(); ++i) {
            if (used[i] || r[i].imag() == 0) continue;
            long double best = INFINITY; int bj = -1;
            for (size_t j = 0; j < r.size(); ++j)
                if (j != i && !used[j]) { long double d = std::abs(r[j] - std::conj(r[i])); if (d < best) { best = d; bj = (int)j; } }
            if (bj >= 0) { used[i] = used[bj] = true; }
            worstPair = std::max(worstPair, (double)(best / std::max<long double>(std::abs(r[i]), 1e-300L)));
        }
        vh::P("conj_pairs", key + ".conj", worstPair, 1e3 * eps);
    }
}

template <class T> static void quadRealCase(const char* fn, double a, double b, double c, const char* tag) {
    Vec<3, T> co((T)a, (T)b, (T)c); Vec<2, std::complex<T> > roots;
    PolynomialRootFinder::findRoots(co, roots);
    vh::I(fn).d((double)co[0]).d((double)co[1]).d((double)co[2]).emit();
    if (sizeof(T) == 4) std::printf("T 2e-4 1e-6\n");
    vh::O(fn).d(roots[0].real()).d(roots[0].imag()).d(roots[1].real()).d(roots[1].imag()).emit();
    vh::D(std::string(fn) + "." + tag);
    std::vector<CL> A = {CL(co[0]), CL(co[1]), CL(co[2])}, R = {CL(roots[0]), CL(roots[1])};
    predicates(std::string(fn) + "." + tag, A, R, true, NTraits<T>::getEps(), 64);
}
static void quadCxCase(std::complex<double> a, std::complex<double> b, std::complex<double> c, const char* tag) {
    Vec<3, std::complex<double> > co(a, b, c); Vec<2, std::complex<double> > roots;
    PolynomialRootFinder::findRoots(co, roots);
    vh::I("quadCx").d(a.real()).d(a.imag()).d(b.real()).d(b.imag()).d(c.real()).d(c.imag()).emit();
    vh::O("quadCx").d(roots[0].real()).d(roots[0].imag()).d(roots[1].real()).d(roots[1].imag()).emit();
    vh::D(std::string("quadCx.") + tag);
    std::vector<CL> A = {CL(a), CL(b), CL(c)}, R = {CL(roots[0]), CL(roots[1])};
    predicates(std::string("quadCx.") + tag, A, R, false, NTraits<double>::getEps(), 64);
}
// degree >= 3 (rpoly / cpoly): contract only
static void polyCase(vh::Rng& g, int n, bool cx, bool viaVec4) {
    std::vector<std::complex<double> > a(n + 1);
    for (auto& c : a) c = std::complex<double>(g.signedMag(0.1, 10), cx ? g.signedMag(0.1, 10) : 0.0);
    std::vector<std::complex<double> > r(n);
    if (viaVec4 && n == 3) {
        Vec<3, std::complex<double> > roots;
        if (cx) { Vec<4, std::complex<double> > co(a[0], a[1], a[2], a[3]); PolynomialRootFinder::findRoots(co, roots); }
        else { Vec<4, double> co(a[0].real(), a[1].real(), a[2].real(), a[3].real()); PolynomialRootFinder::findRoots(co, roots); }
        for (int i = 0; i < 3; ++i) r[i] = roots[i];
    } else {
        Vector_<std::complex<double> > roots(n);
        if (cx) { Vector_<std::complex<double> > co(n + 1); for (int i = 0; i <= n; ++i) co[i] = a[i]; PolynomialRootFinder::findRoots(co, roots); }
        else { Vector_<double> co(n + 1); for (int i = 0; i <= n; ++i) co[i] = a[i].real(); PolynomialRootFinder::findRoots(co, roots); }
        for (int i = 0; i < n; ++i) r[i] = roots[i];
    }
    vh::Line in = vh::I("polyCheck"); in.i(n);
    for (auto c : a) in.d(c.real()).d(c.imag());
    for (auto z : r) in.d(z.real()).d(z.imag());
    in.emit();
    std::printf("O polyCheck 1\n");
    std::string tag = std::string(cx ? "cpoly" : "rpoly") + (viaVec4 && n == 3 ? ".vec4" : ".vector") ;
    vh::D(tag + ".deg" + std::to_string(n));
    std::vector<CL> A, R; for (auto c : a) A.push_back(CL(c)); for (auto z : r) R.push_back(CL(z));
    predicates(tag, A, R, !cx, NTraits<double>::getEps(), 1e4);
}

static void replay() {
    char buf[1 << 16];
    while (std::fgets(buf, sizeof buf, stdin)) {
        std::istringstream is(buf); std::string k, fn; is >> k >> fn;
        if (k != "I") continue;
        std::vector<double> v; std::string t; while (is >> t) v.push_back(vh::unhex(t));
        if (fn == "quadReal" && v.size() == 3) quadRealCase<double>("quadReal", v[0], v[1], v[2], "replay");
        else if (fn == "quadRealF" && v.size() == 3) quadRealCase<float>("quadRealF", v[0], v[1], v[2], "replay");
        else if (fn == "quadCx" && v.size() == 6) quadCxCase({v[0], v[1]}, {v[2], v[3]}, {v[4], v[5]}, "replay");
    }
}

int main(int argc, char** argv) {
    vh::Args args(argc, argv);
    if (args.mode == "replay") { replay(); return 0; }
    vh::Rng g(args.seed * 7919 + 30);
    for (long k = 0; k < args.n; ++k) {
        int stream = g.below(10);
        double a = g.signedMag(0.1, 10), b = g.signedMag(0.1, 10), c = g.signedMag(0.1, 10);
        if (stream <= 2) quadRealCase<double>("quadReal", a, b, c, "generic");
        else if (stream == 3) quadRealCase<double>("quadReal", a, 0.0, c, "bzero");               // +-sqrt branch, both signs of disc
        else if (stream == 4) { double p = g.smallInt(1, 9), q = g.smallInt(1, 9);                // exact double root (p x + q)^2
            quadRealCase<double>("quadReal", p * p, 2 * p * q * (g.coin() ? 1 : -1), q * q, "double"); }
        else if (stream == 5) quadRealCase<double>("quadReal", g.smallInt(1, 9) * (g.coin() ? 1 : -1), g.smallInt(-9, 9), g.smallInt(-9, 9), "smallint");
        else if (stream == 6) { if (g.coin()) quadRealCase<float>("quadRealF", a, b, c, "generic"); else quadRealCase<float>("quadRealF", a, 0.0, c, "bzero"); }
        else if (stream == 7) quadCxCase({a, g.signedMag(0.1, 10)}, {b, g.signedMag(0.1, 10)}, {c, g.signedMag(0.1, 10)}, "generic");
        else if (stream == 8) { if (g.coin()) quadCxCase({a, g.signedMag(0.1, 10)}, {0, 0}, {c, g.signedMag(0.1, 10)}, "bzero");
                                else quadCxCase({a, 0}, {b, 0}, {c, 0}, "realcoef"); }
        else { int n = 3 + g.below(args.n > 1000 ? 18 : 10); polyCase(g, n, g.coin(), g.coin()); }
    }
    return 0;
}
