// C21 correspondence harness: integrators keep constrained states on the manifold.
//
// Random constrained multibody models (pendulum chains of Pin / Ball / Free mobilizers — the latter two use quaternions —
// closed by Rod and PointInPlane constraints, optionally a ConstantSpeed constraint and a prescribed Motion::Sinusoid),
// every integrator, random accuracy / constraint tolerance / norm / project-every-step / interpolation options, random
// report grid and time-based witness functions (so that step states, interpolated report states and event before-states
// are all handed out).  EVERY state returned by Integrator::stepTo is one record:
//
//   I st <tol> <inf> <must> <mHolo> {qerr_i w_i}* <nQuat> {quatErr}* <mU> {uerr_i w_i}*       (what the state exposes)
//   O st 1                 the Lean driver evaluates the acceptance contract of SimbodyModel/C21.lean in exact rationals
//   P ...                  the same predicate in floating point + prescribed-motion check, keyed by integrator family / kind
//
// must = 0 for interpolated states handed out with setProjectInterpolatedStates(false) (the property exempts them).
#include "Simbody.h"
#include "hcommon.h"
#include <memory>
#include <iostream>
using namespace SimTK;

static const char* INTEG_NAMES[] = {"RungeKuttaMerson", "RungeKuttaFeldberg", "RungeKutta3", "RungeKutta2", "Verlet",
                                    "ExplicitEuler", "SemiExplicitEuler", "SemiExplicitEuler2", "CPodesBDF", "CPodesAdams"};
static const double Inf = Infinity;

class TimeWitness : public TriggeredEventHandler {
public:
    double a;
    explicit TimeWitness(double a) : TriggeredEventHandler(Stage::Time), a(a) {}
    Real getValue(const State& s) const override { return s.getTime() - a; }
    void handleEvent(State&, Real, bool&) const override {}
};

struct Spec {
    int integ; int nb; std::vector<int> jt;   // joint type per body: 0 pin, 1 ball, 2 free
    bool rod, plane, cspeed, motion; int motionLevel = 0; double g; double amp, rate, phase; double fin = -1; bool sched = false;
    std::vector<double> q0seed;
    double fixedStep = -1; bool forceNewton = false, fixedStepBlock = false, ballc = false, infClass = false; double acc, ctol; int infNorm, projEvery, allowInterp, projInterp; double dtr, tEnd; std::vector<double> wit;
};
struct Model {
    MultibodySystem system; SimbodyMatterSubsystem matter; GeneralForceSubsystem forces;
    std::vector<MobilizedBody> bodies;
    Model() : matter(system), forces(system) {}
};
static void build(const Spec& S, Model& M, double rodLen, double planeH, const Vec3& ballG = Vec3(0)) {
    Force::UniformGravity(M.forces, M.matter, Vec3(0.3, -S.g, 0.2));
    Body::Rigid body(MassProperties(1.0, Vec3(0, -0.3, 0), Inertia(0.3, 0.2, 0.3)));
    MobilizedBody parent = M.matter.Ground();
    for (int i = 0; i < S.nb; ++i) {
        const Transform inb(Rotation(0.3 * i, ZAxis), Vec3(i == 0 ? 0.0 : 0.0, i == 0 ? 0.0 : -1.0, 0));
        const Transform outb(Vec3(0, 0.0, 0));
        MobilizedBody b;
        if (S.jt[i] == 0) b = MobilizedBody::Pin(parent, inb, body, outb);
        else if (S.jt[i] == 1) b = MobilizedBody::Ball(parent, inb, body, outb);
        else b = MobilizedBody::Free(parent, inb, body, outb);
        M.bodies.push_back(b); parent = b;
    }
    MobilizedBody last = M.bodies.back();
    if (S.ballc) Constraint::Ball(M.matter.Ground(), ballG, last, Vec3(0.2, -1, 0.1));     // 3 position + 3 velocity equations
    if (S.rod) Constraint::Rod(M.matter.Ground(), Vec3(1.5, 0.5, 0.3), last, Vec3(0, -1, 0), rodLen);
    if (S.plane) Constraint::PointInPlane(M.matter.Ground(), UnitVec3(0.2, 1, 0.1), planeH, M.bodies[S.nb > 1 ? S.nb - 2 : 0], Vec3(0.1, -0.7, 0.1));
    if (S.cspeed && S.jt[0] == 0 && !S.motion) Constraint::ConstantSpeed(M.bodies[0], 0.7);
    if (S.motion && S.jt[0] == 0) Motion::Sinusoid(M.bodies[0], S.motionLevel == 0 ? Motion::Position : Motion::Velocity, S.amp, S.rate, S.phase);
    for (double a : S.wit) M.system.addEventHandler(new TimeWitness(a));
}
static void setQ(const Spec& S, Model& M, State& s) {
    size_t k = 0;
    for (int i = 0; i < S.nb; ++i) {
        if (S.jt[i] == 0) M.bodies[i].setOneQ(s, 0, S.q0seed[k++ % S.q0seed.size()]);
        else if (S.jt[i] == 1) {
            Rotation R(BodyRotationSequence, S.q0seed[k % S.q0seed.size()], XAxis, S.q0seed[(k + 1) % S.q0seed.size()], YAxis,
                       S.q0seed[(k + 2) % S.q0seed.size()], ZAxis); k += 3;
            M.bodies[i].setQToFitRotation(s, R);
        } else {
            Rotation R(BodyRotationSequence, S.q0seed[k % S.q0seed.size()], XAxis, S.q0seed[(k + 1) % S.q0seed.size()], YAxis,
                       S.q0seed[(k + 2) % S.q0seed.size()], ZAxis); k += 3;
            M.bodies[i].setQToFitTransform(s, Transform(R, Vec3(0.1 * S.q0seed[k % S.q0seed.size()], -0.2, 0.1)));
        }
    }
}
static Integrator* makeInteg(int which, const System& sys) {
    switch (which) {
        case 0: return new RungeKuttaMersonIntegrator(sys);
        case 1: return new RungeKuttaFeldbergIntegrator(sys);
        case 2: return new RungeKutta3Integrator(sys);
        case 3: return new RungeKutta2Integrator(sys);
        case 4: return new VerletIntegrator(sys);
        case 5: return new ExplicitEulerIntegrator(sys);
        case 6: return new SemiExplicitEulerIntegrator(sys, 0.002);
        case 7: return new SemiExplicitEuler2Integrator(sys);
        case 8: return new CPodesIntegrator(sys, CPodes::BDF);
        default: return new CPodesIntegrator(sys, CPodes::Adams);
    }
}

static std::string g_tag;
struct Worst { double q = 0, quat = 0, u = 0, presc = 0; int n = 0; bool cascaded = false, diverged = false; };

// one record per returned state
static void emitState(const Spec& S, const Model& M, const Integrator& I, const State& st, int status, Worst* acc,
                      const std::string& fam, bool eventAfter = false) {
    M.system.realize(st, Stage::Velocity);
    const double tol = I.getConstraintToleranceInUse();
    const bool inf = S.infNorm == 1;
    const bool interp = !eventAfter && I.isStateInterpolated();
    const bool isEvent = status == Integrator::ReachedEventTrigger;
    // the rule of the property: step states and the states an event handler sees (before-state at tLow, advanced state at
    // tHigh) must ALWAYS be on the manifold; only interpolated REPORT states are exempt when projection of interpolated
    // states is off
    const int must = (interp && !isEvent && S.projInterp == 0) ? 0 : 1;
    const int nQuat = M.matter.getNumQuaternionsInUse(st);
    const Vector& qerr = st.getQErr(); const Vector& qw = st.getQErrWeights();
    const Vector& uerr = st.getUErr(); const Vector& uw = st.getUErrWeights();
    const int mHolo = qerr.size() - nQuat;
    vh::Line L = vh::I("st");
    L.d(tol).i(inf).i(must).i(mHolo);
    for (int i = 0; i < mHolo; ++i) L.d(qerr[i]).d(qw[i]);
    L.i(nQuat);
    for (int i = 0; i < nQuat; ++i) L.d(qerr[mHolo + i]);
    L.i(uerr.size());
    for (int i = 0; i < uerr.size(); ++i) L.d(uerr[i]).d(uw[i]);
    L.s(INTEG_NAMES[S.integ]).i(status).i(interp).s(eventAfter ? "after" : "ret").s(g_tag);
    L.emit();
    // the same norms in floating point
    auto norm = [&](const std::vector<double>& v) { double s2 = 0, m = 0; for (double x : v) { if (!(x == x)) return (double)NaN; s2 += x * x; m = std::max(m, std::fabs(x)); }
                                                    return v.empty() ? 0.0 : (inf ? m : std::sqrt(s2 / v.size())); };
    std::vector<double> a, b, c;
    for (int i = 0; i < mHolo; ++i) a.push_back(qerr[i] * qw[i]);
    for (int i = 0; i < nQuat; ++i) b.push_back(qerr[mHolo + i]);
    for (int i = 0; i < uerr.size(); ++i) c.push_back(uerr[i] * uw[i]);
    const char* kind = eventAfter ? "event_after_state" : isEvent ? "event_before_state" : interp ? "interpolated" : "step";
    vh::D(std::string(INTEG_NAMES[S.integ]) + "." + kind + (must ? "" : ".exempt"));
    // SemiExplicitEuler has no error control: takeOneStep accepts a trial step even if its projection did not converge (the TODO
    // in takeOneStep, theorem no_error_control_accepts_anything); such sessions get their own class
    const bool nonConv = S.integ == 6 && (I.getNumConvergenceTestFailures() + I.getNumProjectionFailures() > 0);
    const std::string fam2 = nonConv ? std::string("AbstractIntegratorRep.nonConvergedAccepted") : fam;
    // event before-states handed out with projection of interpolated states OFF come from createInterpolatedState, which honours
    // that option: own class (see notes)
    const std::string famk = (isEvent && !eventAfter && S.projInterp == 0)
        ? std::string(S.integ >= 8 ? "CPodes" : "AbstractIntegratorRep") + ".projInterpOff.event"
        : fam2 + "." + (eventAfter ? "event_after" : isEvent ? "event" : interp ? "interpolated" : "step");
    // classes whose defect hands out an UNPROJECTED state: every later state of the session starts from it, so the violation
    // accumulates without bound; only the states up to and including the first violating one are evaluated (bounded values)
    const bool unboundedClass = famk == "CPodes.step" || famk == "CPodes.event_after" || famk == "CPodes.projInterpOff.event"
                                || famk == "AbstractIntegratorRep.minStepForced.step"
                                || famk == "AbstractIntegratorRep.nonConvergedAccepted.step";
    const double slack = 1 + 1e-9;
    double rq = norm(a) / tol, rquat = norm(b) / tol, ru = norm(c) / tol;
    // O: the harness's own floating-point evaluation of the acceptance contract (the driver re-evaluates it exactly)
    vh::O("st").i((!must || (rq <= slack && rquat <= slack && ru <= slack)) ? 1 : 0).emit();
    // sessions of the three "unprojected state handed out" families can diverge to non-finite values; a non-finite state of ANY kind
    // in such a session is reported once, with the sentinel ratio 500, under the family's step key, and nothing after it is evaluated
    const bool contaminable = S.integ >= 8 || nonConv || fam == "AbstractIntegratorRep.minStepForced";
    const bool finite = std::isfinite(rq) && std::isfinite(rquat) && std::isfinite(ru);
    if (must && acc->diverged) { vh::D(fam2 + ".after_divergence"); return; }
    if (must && contaminable && !finite) {
        acc->diverged = true;
        vh::D(fam2 + ".nonfinite_state");
        const std::string k = fam2 + ".step";
        vh::P("returned_states_satisfy_position_constraints", k + ".qerr", 500.0, slack);
        vh::P("returned_states_satisfy_velocity_constraints", k + ".uerr", 500.0, slack);
        return;
    }
    if (must && acc->cascaded && unboundedClass) vh::D(famk + ".after_first_violation");
    if (must && !(acc->cascaded && unboundedClass)) {
        if (unboundedClass && (rq > slack || rquat > slack || ru > slack || !(rq == rq) || !(ru == ru))) acc->cascaded = true;
        acc->q = std::max(acc->q, rq); acc->quat = std::max(acc->quat, rquat); acc->u = std::max(acc->u, ru);
        vh::P("returned_states_satisfy_position_constraints", famk + ".qerr", rq, slack);
        vh::P("returned_states_have_normalised_quaternions", famk + ".quat", rquat, slack);
        vh::P("returned_states_satisfy_velocity_constraints", famk + ".uerr", ru, slack);
    }
    if (S.motion && S.jt[0] == 0) {
        const double t = st.getTime();
        const double want = S.amp * std::sin(S.rate * t + S.phase), wantU = S.amp * S.rate * std::cos(S.rate * t + S.phase);
        const double pe = S.motionLevel == 0 ? std::max(std::fabs(M.bodies[0].getOneQ(st, 0) - want), std::fabs(M.bodies[0].getOneU(st, 0) - wantU))
                                             : std::fabs(M.bodies[0].getOneU(st, 0) - want);   // velocity level: u = amp sin(rate t + phase), q is integrated
        acc->presc = std::max(acc->presc, pe);
        vh::P("prescribed_motion_honoured", famk + ".prescribed", pe, 1e-10);
    }
    acc->n++;
}

static void session(vh::Rng& r, int integ, bool optionClass = false, bool infClass = false) {
    Spec S; S.integ = integ; S.infClass = infClass;
    S.nb = 1 + r.below(3);
    for (int i = 0; i < S.nb; ++i) S.jt.push_back(r.below(5) == 0 ? 2 : r.below(2));
    S.rod = r.below(3) != 0; S.plane = r.below(3) == 0; if (!S.rod && !S.plane) S.rod = true;
    S.cspeed = r.below(4) == 0; S.motion = r.below(4) == 0;
    if (r.below(4) == 0) { S.jt[0] = 0; S.motion = true; if (S.nb < 2) { S.nb = 2; S.jt.push_back(r.below(2)); } }   // guaranteed share with prescribed motion
    {   // keep at least one free mobility: dofs - prescribed - constraint equations >= 1
        int dof = 0; for (int j : S.jt) dof += (j == 0 ? 1 : j == 1 ? 3 : 6);
        if (S.jt[0] != 0) S.cspeed = S.motion = false;
        if (S.motion) S.cspeed = false;
        auto ncons = [&]() { return (int)S.rod + (int)S.plane + (int)S.cspeed + (int)S.motion; };
        if (dof - ncons() < 1) S.cspeed = false;
        if (dof - ncons() < 1) S.motion = false;
        if (dof - ncons() < 1) S.plane = false;
        if (dof - ncons() < 1) { S.jt[0] = 1; }      // a lone pin with a rod: make it a ball joint
    }
    if (infClass) {
        // guaranteed class: infinity norm ON x >= 4 velocity-level constraint equations with uneven errors: a chain of 2-3 Ball/Free
        // joints whose tip is pinned by a Ball constraint (3 equations) plus a PointInPlane on an inner body (+1) and, half of the
        // time, a Rod on the tip (+1, nearly redundant direction -> very uneven error distribution)
        S.nb = 2 + r.below(2); S.jt.clear(); for (int i = 0; i < S.nb; ++i) S.jt.push_back(r.below(4) == 0 ? 2 : 1);
        S.ballc = true; S.plane = true; S.rod = r.below(2) == 0; S.cspeed = S.motion = false;
    }
    S.motionLevel = r.below(3) == 0 ? 1 : 0;
    S.g = r.range(2.0, 12.0); S.amp = r.range(0.2, 0.8); S.rate = r.range(0.5, 3.0); S.phase = r.range(0, 3);
    for (int i = 0; i < 8; ++i) S.q0seed.push_back(r.range(-0.7, 0.7));
    S.acc = std::pow(10.0, -r.range(2.0, 5.0));
    S.ctol = r.below(3) == 0 ? std::pow(10.0, -r.range(3.0, 7.0)) : -1;
    S.infNorm = r.below(4) == 0; S.projEvery = r.below(3) == 0; S.allowInterp = r.below(5) == 0 ? 0 : 1;
    S.projInterp = r.below(4) == 0 ? 0 : 1;
    S.fixedStep = (r.below(5) == 0 && integ != 6 && integ < 8) ? r.range(0.01, 0.08) : -1;
    S.dtr = r.range(0.01, 0.15); S.tEnd = r.range(0.3, 1.0);
    int nw = r.below(3); for (int i = 0; i < nw; ++i) S.wit.push_back(r.range(0.05, S.tEnd));
    S.forceNewton = r.below(5) == 0;
    if (optionClass) {
        // guaranteed share: the options that change WHICH states get projected, combined with witness-triggered events that must
        // be localised inside a step, loose accuracy and a tight constraint tolerance
        S.projInterp = 0;
        S.acc = std::pow(10.0, -r.range(2.0, 2.8));
        S.ctol = std::pow(10.0, -r.range(7.0, 9.0));
        S.wit.clear(); const int k = 4 + r.below(4);
        for (int i = 0; i < k; ++i) S.wit.push_back(S.tEnd * (i + r.range(0.2, 0.9)) / k);
        S.projEvery = r.below(2); S.infNorm = r.below(3) == 0; S.forceNewton = r.below(3) == 0; S.allowInterp = 1;
        S.fixedStepBlock = true;
    }
    if (r.below(4) == 0) S.fin = r.range(0.5, 1.0) * S.tEnd;
    S.sched = r.below(4) == 0;
    if (infClass) { S.infNorm = 1; S.fixedStepBlock = true; S.acc = std::pow(10.0, -r.range(2.0, 3.5)); S.ctol = std::pow(10.0, -r.range(3.0, 5.0));
                    S.projEvery = 0; S.tEnd = r.range(0.8, 1.5); }
    // pass 1: measure the geometry at the chosen configuration so that the constraints are satisfiable there
    double rodLen = 1, planeH = 0; Vec3 ballG(0);
    {
        Spec S0 = S; S0.rod = S0.plane = S0.cspeed = S0.ballc = false; S0.wit.clear();
        Model M0; build(S0, M0, 1, 0);
        State s0 = M0.system.realizeTopology();
        setQ(S0, M0, s0);
        if (S0.motion) { M0.system.realize(s0, Stage::Time); M0.system.prescribeQ(s0); }
        M0.system.realize(s0, Stage::Position);
        const Vec3 p = M0.bodies.back().findStationLocationInGround(s0, Vec3(0, -1, 0));
        rodLen = (p - Vec3(1.5, 0.5, 0.3)).norm();
        ballG = M0.bodies.back().findStationLocationInGround(s0, Vec3(0.2, -1, 0.1));
        const Vec3 p2 = M0.bodies[S.nb > 1 ? S.nb - 2 : 0].findStationLocationInGround(s0, Vec3(0.1, -0.7, 0.1));
        planeH = dot(UnitVec3(0.2, 1, 0.1), p2);
        if (rodLen < 0.2) S.rod = false, S.plane = true;
    }
    Model M; build(S, M, rodLen, planeH, ballG);
    State state = M.system.realizeTopology();
    setQ(S, M, state);
    for (int i = 0; i < state.getNU(); ++i) state.updU()[i] = r.range(-0.5, 0.5);
    std::unique_ptr<Integrator> IP(makeInteg(S.integ, M.system));
    Integrator& I = *IP;
    const bool isCP = S.integ >= 8;
    I.setAccuracy(S.acc);
    if (S.ctol > 0) I.setConstraintTolerance(S.ctol);
    if (S.fixedStepBlock) S.fixedStep = -1;
    if (S.fixedStep > 0) I.setFixedStepSize(S.fixedStep);
    if (S.fin > 0) I.setFinalTime(S.fin);
    if (S.infNorm) I.setUseInfinityNorm(true);
    if (S.projEvery) I.setProjectEveryStep(true);
    if (S.allowInterp == 0) I.setAllowInterpolation(false);
    if (S.projInterp == 0) I.setProjectInterpolatedStates(false);
    if (S.forceNewton) I.setForceFullNewton(true);
    if (r.below(4) == 0 && !isCP) I.setReturnEveryInternalStep(true);
    // key classes: CPodes (own stepTo around CPODES dense output); error-controlled integrators run with a user minimum step
    // size (setFixedStepSize) that forces acceptance of inaccurate steps; everything else by integrator name
    const bool errCtl = S.integ != 6;   // every AbstractIntegratorRep method except SemiExplicitEuler has error control
    const std::string fam = isCP ? "CPodes" : (S.fixedStep > 0 && errCtl) ? "AbstractIntegratorRep.minStepForced"
                            : S.infClass ? std::string(INTEG_NAMES[S.integ]) + ".infnorm" : INTEG_NAMES[S.integ];
    Worst W;
    bool failed = false;
    try {
        I.initialize(state);
        double rep = S.dtr; int guard = 0;
        while (I.getTime() < S.tEnd && guard++ < 5000) {
            const double schedT = S.sched ? std::max(I.getAdvancedTime(), std::min(rep, S.tEnd)) + 0.37 * S.dtr : Inf;
            Integrator::SuccessfulStepStatus st = I.stepTo(std::min(rep, S.tEnd), schedT);
            emitState(S, M, I, I.getState(), (int)st, &W, fam);
            // the state the event handler gets to modify: the advanced state at tHigh
            if (st == Integrator::ReachedEventTrigger) emitState(S, M, I, I.getAdvancedState(), (int)st, &W, fam, true);
            if (st == Integrator::ReachedReportTime && I.getTime() >= std::min(rep, S.tEnd)) { if (rep >= S.tEnd) break; rep += S.dtr; }
            if (st == Integrator::EndOfSimulation) break;
        }
    } catch (const std::exception& e) {
        failed = true;
        vh::D(std::string(INTEG_NAMES[S.integ]) + ".exception"); std::fprintf(stderr, "EXC %s: %.300s\n", INTEG_NAMES[S.integ], e.what());
    }
    vh::Line L = vh::I("sess"); L.s(INTEG_NAMES[S.integ]).i(W.n).i(failed).s(g_tag); L.emit();
    vh::O("sess").i(1).emit();
    vh::D(std::string(INTEG_NAMES[S.integ]) + (S.fixedStep > 0 ? ".session.fixedStep" : ".session"));
    if (S.motion) vh::D(S.motionLevel ? "class.motion.velocity_level" : "class.motion.position_level");
    if (S.infClass) vh::D(std::string("class.infnorm_multi_velocity_constraints.") + INTEG_NAMES[S.integ]);
    if (optionClass) vh::D("class.projInterpOff_events_tightTol"); if (S.forceNewton) vh::D("class.force_full_newton");
    if (S.fin > 0) vh::D("class.final_time"); if (S.sched) vh::D("class.scheduled_times");
    std::fprintf(stderr, "MAXRATIO %s %.17g %.17g %.17g\n", fam.c_str(), W.q, W.quat, W.u);
}


// =====================================================================================================================
// mode "oracle": the DECISION STRUCTURE of attemptDAEStep / takeOneStep / createInterpolatedState /
// backUpAdvancedStateByInterpolation is driven on a harness-defined System (point mass on a circle: q=(x,y), u=(vx,vy),
// perr=(r^2-d^2)/2, verr=q.u) whose projectQImpl / projectUImpl are an ORACLE under harness control: they log every call
// (kind, time, DontThrow?, outcome), really project when they succeed, and fail on demand.  Per Integrator::stepTo call:
//   I orc <hasErrCtl> <forced> <projInterp> <status|EXC> <interp> <nSteps> | {Q|U <dontThrow> <ok> <sameTimeAsReturned>}*
//   O orc <status|EXC> <provenance P|R|X> <dConvFail> <uCallsConsistent>
// provenance (observed) = the handed-out (t,q,u) is bit-for-bit the output of the last successful projectU call (P), is
// something else (R), or nothing was handed out (X: stepTo threw).  The Lean driver PREDICTS the O line from the call trace
// with attemptDAECore / stepLoop / handOut of SimbodyModel/C21.lean.
#include "SimTKcommon/internal/SystemGuts.h"
namespace orc {
struct Call { char kind; double t; bool dontThrow, ok; double q0, q1, u0, u1; bool inf = false, force = false; };
struct Ctl { std::vector<Call> log; vh::Rng* rng = nullptr; double pFailStep = 0, pFailThrow = 0; bool armed = false; };
static Ctl* g = nullptr;

class OGuts : public System::Guts {
public:
    SubsystemIndex sub; double grav = 9.8, d = 1.0;
    mutable QIndex q0; mutable UIndex u0; mutable QErrIndex qe; mutable UErrIndex ue; mutable UDotErrIndex ae;
    OGuts* cloneImpl() const override { return new OGuts(*this); }
    int realizeTopologyImpl(State& s) const override {
        const Vector init(2, Real(0));
        q0 = s.allocateQ(sub, init); u0 = s.allocateU(sub, init);
        System::Guts::realizeTopologyImpl(s); return 0; }
    int realizeModelImpl(State& s) const override { System::Guts::realizeModelImpl(s); return 0; }
    int realizeInstanceImpl(const State& s) const override {
        qe = s.allocateQErr(sub, 1); ue = s.allocateUErr(sub, 1); ae = s.allocateUDotErr(sub, 1);
        System::Guts::realizeInstanceImpl(s); return 0; }
    int realizePositionImpl(const State& s) const override {
        const Vector& q = s.getQ(sub);
        s.updQErr(sub)[0] = (q[0] * q[0] + q[1] * q[1] - d * d) / 2;
        System::Guts::realizePositionImpl(s); return 0; }
    int realizeVelocityImpl(const State& s) const override {
        const Vector& q = s.getQ(sub); const Vector& u = s.getU(sub);
        s.updQDot(sub)[0] = u[0]; s.updQDot(sub)[1] = u[1];
        s.updUErr(sub)[0] = q[0] * u[0] + q[1] * u[1];
        System::Guts::realizeVelocityImpl(s); return 0; }
    int realizeDynamicsImpl(const State& s) const override { System::Guts::realizeDynamicsImpl(s); return 0; }
    int realizeAccelerationImpl(const State& s) const override {
        const Vector& q = s.getQ(sub); const Vector& u = s.getU(sub); Vector& ud = s.updUDot(sub);
        const Real r2 = q[0] * q[0] + q[1] * q[1], v2 = u[0] * u[0] + u[1] * u[1];
        const Real L = (v2 - grav * q[1]) / r2;
        ud[0] = -q[0] * L; ud[1] = -q[1] * L - grav;
        s.updQDotDot() = ud;
        s.updMultipliers(sub)[0] = L;
        s.updUDotErr(sub)[0] = q[0] * ud[0] + q[1] * ud[1] + v2;
        System::Guts::realizeAccelerationImpl(s); return 0; }
    void multiplyByNImpl(const State&, const Vector& u, Vector& dq) const override { dq = u; }
    void multiplyByNTransposeImpl(const State&, const Vector& fq, Vector& fu) const override { fu = fq; }
    void multiplyByNPInvImpl(const State&, const Vector& dq, Vector& u) const override { u = dq; }
    void multiplyByNPInvTransposeImpl(const State&, const Vector& fu, Vector& fq) const override { fq = fu; }
    bool prescribeQImpl(State&) const override { return false; }
    bool prescribeUImpl(State&) const override { return false; }

    bool decideFail(bool dontThrow) const {
        if (!g || !g->armed || !g->rng) return false;
        return g->rng->unit() < (dontThrow ? g->pFailStep : g->pFailThrow);
    }
    void projectQImpl(State& s, Vector& qErrEst, const ProjectOptions& o, ProjectResults& res) const override {
        const bool dontThrow = o.isOptionSet(ProjectOptions::DontThrow);
        const Real w = s.getQErrWeights(sub)[0];
        const Real normIn = std::abs(w * s.getQErr(sub)[0]);
        bool ok = true;
        if (normIn > o.getProjectionLimit()) { res.setProjectionLimitExceeded(true); ok = false; }
        if (ok && decideFail(dontThrow)) ok = false;
        bool changed = false;
        if (ok && (normIn > o.getRequiredAccuracy() || o.isOptionSet(ProjectOptions::ForceProjection))) {
            Vector& q = s.updQ(sub);
            const Real r = std::sqrt(q[0] * q[0] + q[1] * q[1]);
            q[0] *= d / r; q[1] *= d / r; changed = true;
            realize(s, Stage::Position);
            if (qErrEst.size()) {   // remove the radial component of the error estimate
                const Vector& qq = s.getQ(sub); const Real dotp = (qq[0] * qErrEst[0] + qq[1] * qErrEst[1]) / (d * d);
                qErrEst[0] -= dotp * qq[0]; qErrEst[1] -= dotp * qq[1];
            }
        }
        if (g && g->armed) g->log.push_back({'Q', s.getTime(), dontThrow, ok, s.getQ(sub)[0], s.getQ(sub)[1], 0, 0,
                                             o.isOptionSet(ProjectOptions::UseInfinityNorm), o.isOptionSet(ProjectOptions::ForceProjection)});
        if (!ok) {
            res.setExitStatus(ProjectResults::FailedToConverge);
            if (!dontThrow) SimTK_THROW1(Exception::Cant, "oracle: projectQ refused");
            return;
        }
        res.setAnyChangeMade(changed); res.setExitStatus(ProjectResults::Succeeded);
    }
    void projectUImpl(State& s, Vector& uErrEst, const ProjectOptions& o, ProjectResults& res) const override {
        const bool dontThrow = o.isOptionSet(ProjectOptions::DontThrow);
        realize(s, Stage::Velocity);
        const Real w = s.getUErrWeights(sub)[0];
        const Real normIn = std::abs(w * s.getUErr(sub)[0]);
        bool ok = true;
        if (normIn > o.getProjectionLimit()) { res.setProjectionLimitExceeded(true); ok = false; }
        if (ok && decideFail(dontThrow)) ok = false;
        bool changed = false;
        if (ok && (normIn > o.getRequiredAccuracy() || o.isOptionSet(ProjectOptions::ForceProjection))) {
            const Vector& q = s.getQ(sub); Vector& u = s.updU(sub);
            const Real r2 = q[0] * q[0] + q[1] * q[1], c = (q[0] * u[0] + q[1] * u[1]) / r2;
            u[0] -= c * q[0]; u[1] -= c * q[1]; changed = true;
            realize(s, Stage::Velocity);
            if (uErrEst.size()) { const Real c2 = (q[0] * uErrEst[0] + q[1] * uErrEst[1]) / r2; uErrEst[0] -= c2 * q[0]; uErrEst[1] -= c2 * q[1]; }
        }
        if (g && g->armed) g->log.push_back({'U', s.getTime(), dontThrow, ok, s.getQ(sub)[0], s.getQ(sub)[1], s.getU(sub)[0], s.getU(sub)[1],
                                             o.isOptionSet(ProjectOptions::UseInfinityNorm), o.isOptionSet(ProjectOptions::ForceProjection)});
        if (!ok) {
            res.setExitStatus(ProjectResults::FailedToConverge);
            if (!dontThrow) SimTK_THROW1(Exception::Cant, "oracle: projectU refused");
            return;
        }
        res.setAnyChangeMade(changed); res.setExitStatus(ProjectResults::Succeeded);
    }
};
class Sys : public System {
public:
    Sys() { adoptSystemGuts(new OGuts()); DefaultSystemSubsystem defsub(*this);
            dynamic_cast<OGuts&>(updSystemGuts()).sub = defsub.getMySubsystemIndex(); setHasTimeAdvancedEvents(false); }
    OGuts& guts() { return dynamic_cast<OGuts&>(updSystemGuts()); }
};

static void session(vh::Rng& r, int integ /*0..3: RK family with the default attemptDAEStep*/) {
    Ctl ctl; ctl.rng = &r; g = &ctl;
    Sys sys; sys.guts().grav = r.range(2.0, 12.0);
    const int projInterpPre = r.below(2);          // half of the oracle sessions run with projection of interpolated states OFF
    const int nw = projInterpPre == 0 ? 2 + r.below(2) : r.below(3);
    for (int i = 0; i < nw; ++i) sys.addEventHandler(new TimeWitness(r.range(0.05, 0.8)));
    State state = sys.realizeTopology();
    const double th = r.range(-2.5, 2.5);
    state.updQ()[0] = std::sin(th); state.updQ()[1] = -std::cos(th);
    const double w0 = r.range(-2, 2);
    state.updU()[0] = w0 * std::cos(th); state.updU()[1] = w0 * std::sin(th);
    std::unique_ptr<Integrator> IP(makeInteg(integ, sys));
    Integrator& I = *IP;
    const bool forced = r.below(3) == 0;
    const int projInterp = projInterpPre;
    if (projInterp == 0) vh::D("class.oracle.projInterpOff_events");
    I.setAccuracy(std::pow(10.0, -r.range(1.0, 5.0)));
    if (r.below(2)) I.setConstraintTolerance(std::pow(10.0, -r.range(3.0, 9.0)));
    if (forced) I.setFixedStepSize(r.range(0.01, 0.2));
    const bool projEvery = r.below(3) == 0, infNorm = r.below(2) == 0;
    if (projEvery) I.setProjectEveryStep(true);
    if (infNorm) I.setUseInfinityNorm(true);
    if (projInterp == 0) I.setProjectInterpolatedStates(false);
    I.setReturnEveryInternalStep(true);      // one takeOneStep per call at most
    ctl.pFailStep = r.below(2) ? r.range(0.05, 0.4) : 0.0;
    ctl.pFailThrow = r.below(6) == 0 ? 0.05 : 0.0;
    { const double ps = ctl.pFailStep, pt = ctl.pFailThrow; ctl.pFailStep = ctl.pFailThrow = 0; ctl.armed = true;
      try { I.initialize(state); } catch (const std::exception&) { g = nullptr; return; }
      ctl.pFailStep = ps; ctl.pFailThrow = pt; }
    std::vector<Call> initLog = ctl.log;
    const double dtr = r.range(0.01, 0.2), tEnd = r.range(0.3, 1.0);
    double rep = dtr; int guard = 0;
    std::vector<Call> okU;     // every successful projectU output of the session
    for (auto& c : initLog) if (c.kind == 'U' && c.ok) okU.push_back(c);
    while (I.getTime() < tEnd && guard++ < 400) {
        ctl.log.clear();
        const int s0 = I.getNumStepsTaken(), c0 = I.getNumConvergenceTestFailures(), e0 = I.getNumErrorTestFailures();
        bool exc = false, otherExc = false; int status = 0;
        try { status = (int)I.stepTo(std::min(rep, tEnd), Inf); } catch (const std::exception& e) { exc = true; otherExc = std::string(e.what()).find("oracle:") == std::string::npos; if (std::getenv("C21_DEBUG")) std::fprintf(stderr, "ORC EXC: %.400s\n", e.what()); }
        // exceptions that do not come from a refused projection (e.g. step size collapse "Unable to advance time") are outside the
        // decision structure modelled here: the session just ends
        if (otherExc) { vh::D("oracle.other_exception"); break; }
        const int nSteps = I.getNumStepsTaken() - s0, dConv = I.getNumConvergenceTestFailures() - c0, dErr = I.getNumErrorTestFailures() - e0;
        vh::Line L = vh::I("orc");
        L.i(1).i(forced).i(projInterp);
        if (exc) L.s("EXC"); else L.i(status);
        const bool interp = !exc && I.isStateInterpolated();
        L.i(interp).i(nSteps).i(dErr).i(infNorm).i(projEvery).s("|");
        const State* st = exc ? nullptr : &I.getState();
        for (auto& c : ctl.log) { L.s(std::string(1, c.kind)).i(c.dontThrow).i(c.ok).i(st && c.t == st->getTime()).i(c.t == I.getAdvancedTime());
                                  if (c.kind == 'U' && c.ok) okU.push_back(c); }
        L.s(INTEG_NAMES[integ]).s(g_tag);
        L.emit();
        // observed provenance of the handed-out state
        char prov = 'X';
        if (!exc) {
            prov = 'R';
            // an interpolated state is projected (if at all) by createInterpolatedState in THIS call; the advanced state may have been
            // projected in any earlier call (an unprojected interpolation at d=0 reproduces the previous projected state bit for bit)
            const std::vector<Call>& pool = interp ? ctl.log : okU;
            for (const Call& c : pool)
                if (c.kind == 'U' && c.ok && c.t == st->getTime() && c.q0 == st->getQ()[0] && c.q1 == st->getQ()[1] && c.u0 == st->getU()[0] && c.u1 == st->getU()[1]) prov = 'P';
        }
        // structural consistency seen by the harness itself: every Q(ok) is followed by a U of the same kind, every Q(fail) is not
        // provenance of the ADVANCED state after the call (what an event handler gets / what is propagated)
        char advProv = 'X';
        if (!exc) {
            advProv = 'R';
            const State& as = I.getAdvancedState();
            for (const Call& c : okU)
                if (c.t == as.getTime() && c.q0 == as.getQ()[0] && c.q1 == as.getQ()[1] && c.u0 == as.getU()[0] && c.u1 == as.getU()[1]) advProv = 'P';
        }
        vh::Line O = vh::O("orc");
        if (exc) O.s("EXC"); else O.i(status);
        // the ProjectOptions every projectQ / projectU call of this stepTo actually received: (UseInfinityNorm, ForceProjection) per call
        std::string optBits = "o";
        for (auto& c : ctl.log) { optBits += char('0' + (int)c.inf); optBits += char('0' + (int)c.force); }
        O.s(std::string(1, prov)).i(dConv).s(std::string(1, advProv)).s(optBits);
        O.emit();
        vh::D(std::string("oracle.") + (exc ? "exception" : interp ? (status == 2 ? "event_before_state" : "interpolated") : nSteps ? "step" : "nostep")
              + (forced ? ".forced" : "") + "." + std::string(1, prov));
        if (exc) break;
        if (status == Integrator::ReachedReportTime && I.getTime() >= std::min(rep, tEnd)) { if (rep >= tEnd) break; rep += dtr; }
    }
    g = nullptr;
}
} // namespace orc

static std::string g_mode;
static void runOne(unsigned long long seed, long idx) {
    vh::Rng rng(seed * 15485863 + 29);
    for (long i = 0; i <= idx; ++i) {
        vh::Rng sub(rng.next());
        if (i < idx) continue;
        g_tag = "seed " + g_mode + " " + std::to_string(seed) + " " + std::to_string(idx);
        if (g_mode == "oracle") orc::session(sub, (int)(i % 4)); else session(sub, (int)(i % 10), (i / 10) % 3 == 1, (i / 10) % 3 == 2);
    }
}

int main(int argc, char** argv) {
    vh::Args a(argc, argv);
    if (a.mode == "replay") {
        std::string line, last;
        while (std::getline(std::cin, line)) {
            std::istringstream is(line); std::vector<std::string> t; std::string x;
            while (is >> x) t.push_back(x);
            if (t.size() < 3 || t[0] != "I") continue;
            for (size_t i = 2; i + 3 < t.size(); ++i)
                if (t[i] == "seed") {
                    const std::string key = t[i + 1] + " " + t[i + 2] + " " + t[i + 3];
                    if (key != last) { last = key; g_mode = t[i + 1]; runOne(std::strtoull(t[i + 2].c_str(), nullptr, 10), std::atol(t[i + 3].c_str())); }
                }
        }
        return 0;
    }
    g_mode = a.mode.empty() ? "mb" : a.mode;
    for (long i = 0; i < a.n; ++i) runOne(a.seed, i);
    return 0;
}
