// C18 — replay of model-generated operation sequences on real SimTK::State objects.
// flow = driver_first: the Lean driver (lean/Drivers/C18.lean) generates legal operation sequences
// (`I …` lines) and the model's expected observations; this harness (`--mode replay`, the only mode)
// applies every `I` line to real State objects through the public State API and prints the result token
// and the canonical observation of every State object in exactly the driver's format.
#include "SimTKcommon.h"
#include "hcommon.h"
#include <iostream>
#include <memory>
#include <sstream>
#include <typeinfo>

using namespace SimTK;

namespace {

struct World {
    std::vector<std::unique_ptr<State>> sts;   // a moved-from State (null impl) is "dead"
    std::vector<bool> dead;
    Array_<StageVersion> snap;
};

std::string keysStr(const ListOfDependents& l) {
    if (l.empty()) return "-";
    std::ostringstream os; bool first = true;
    for (auto p = l.cbegin(); p != l.cend(); ++p) {
        if (!first) os << '+';
        first = false;
        os << (int)p->first << '.' << (int)p->second;
    }
    return os.str();
}

std::string realStr(Real x) {
    if (isNaN(x)) return "nan";
    std::ostringstream os; os << (long long)x; return os.str();
}

std::string vecStr(const Vector& v) {
    if (v.size() == 0) return "-";
    std::ostringstream os;
    for (int i = 0; i < v.size(); ++i) { if (i) os << ','; os << (long long)v[i]; }
    return os.str();
}

int ival(const AbstractValue& v) { return Value<int>::downcast(v).get(); }

std::string obsState(const State& s) {
    std::ostringstream os;
    const int sys = (int)s.getSystemStage();
    os << "sys=" << sys << " sv=";
    Array_<StageVersion> sv; s.getSystemStageVersions(sv);
    for (unsigned i = 0; i < sv.size(); ++i) { if (i) os << ','; os << sv[i]; }
    os << " topo=" << s.getSystemTopologyStageVersion();
    os << " ver=" << s.getQValueVersion() << ',' << s.getUValueVersion() << ',' << s.getZValueVersion();
    os << " qd=" << keysStr(s.getQDependents()) << " ud=" << keysStr(s.getUDependents())
       << " zd=" << keysStr(s.getZDependents());
    if (sys >= Stage::Topology) os << " t=" << realStr(s.getTime()); else os << " t=-";
    if (sys >= Stage::Model) os << " y=" << vecStr(s.getQ()) << '/' << vecStr(s.getU()) << '/' << vecStr(s.getZ());
    if (sys >= Stage::Instance)
        os << " ie=" << s.getNQErr() << ',' << s.getNUErr() << ',' << s.getNUDotErr() << ',' << s.getNEventTriggers();
    const int ns = s.getNumSubsystems();
    os << " ns=" << ns;
    for (SubsystemIndex sx(0); sx < ns; ++sx) {
        const PerSubsystemInfo& info = s.getPerSubsystemInfo(sx);
        os << " | " << (int)s.getSubsystemStage(sx) << " v=";
        for (int g = 0; g < Stage::NValid; ++g) { if (g) os << ','; os << info.getStageVersion(Stage(g)); }
        if (sys >= Stage::Model)
            os << " n=" << s.getNQ(sx) << '@' << (int)s.getQStart(sx) << ',' << s.getNU(sx) << '@' << (int)s.getUStart(sx)
               << ',' << s.getNZ(sx) << '@' << (int)s.getZStart(sx);
        if (sys >= Stage::Instance) {
            os << " e=" << s.getNQErr(sx) << ',' << s.getNUErr(sx) << ',' << s.getNUDotErr(sx) << " tr=";
            for (int g = 0; g < 10; ++g) { if (g) os << ','; os << s.getNEventTriggersByStage(sx, Stage(g)); }
        }
        os << " D ";
        int nd = 0;
        while (s.hasDiscreteVar(DiscreteVarKey(sx, DiscreteVariableIndex(nd)))) ++nd;
        if (nd == 0) os << '-';
        for (DiscreteVariableIndex dx(0); dx < nd; ++dx) {
            if (dx) os << ';';
            const DiscreteVarInfo& dv = s.getDiscreteVarInfo(DiscreteVarKey(sx, dx));
            os << 'a' << (int)s.getDiscreteVarAllocationStage(sx, dx) << 'i' << (int)s.getDiscreteVarInvalidatesStage(sx, dx)
               << 'v' << ival(s.getDiscreteVariable(sx, dx)) << 'n' << dv.getValueVersion()
               << 't' << realStr(s.getDiscreteVarLastUpdateTime(sx, dx)) << 'u';
            const CacheEntryIndex cx = s.getDiscreteVarUpdateIndex(sx, dx);
            if (cx.isValid()) os << (int)cx; else os << '-';
            os << 'd' << keysStr(dv.getDependents());
        }
        os << " C ";
        int nc = 0;
        while (s.hasCacheEntry(CacheEntryKey(sx, CacheEntryIndex(nc)))) ++nc;
        if (nc == 0) os << '-';
        for (CacheEntryIndex cx(0); cx < nc; ++cx) {
            if (cx) os << ';';
            const CacheEntryInfo& ce = s.getCacheEntryInfo(CacheEntryKey(sx, cx));
            os << 'a' << (int)s.getCacheEntryAllocationStage(sx, cx) << 'd' << (int)ce.getDependsOnStage()
               << 'c' << (int)ce.getComputedByStage() << 'r' << (s.isCacheValueRealized(sx, cx) ? 1 : 0)
               << 'v' << ival(s.updCacheEntry(sx, cx)) << 'n' << ce.getValueVersion()
               << 's' << ce.getDependsOnVersionWhenLastComputed()
               << 'p' << (ce.isQPrerequisite() ? 1 : 0) << (ce.isUPrerequisite() ? 1 : 0) << (ce.isZPrerequisite() ? 1 : 0)
               << 'd' << keysStr(ce.getDependents());
        }
    }
    return os.str();
}

std::string digest(const std::string& s) {
    uint64_t h = 0xcbf29ce484222325ull;
    for (unsigned char c : s) { h ^= c; h *= 0x100000001b3ull; }
    char buf[24]; std::snprintf(buf, sizeof buf, "h%016llx", (unsigned long long)h);
    return buf;
}

std::string excClass(const std::exception& e) {
    if (dynamic_cast<const Exception::StageTooLow*>(&e)) return "StageTooLow";
    if (dynamic_cast<const Exception::StageTooHigh*>(&e)) return "StageTooHigh";
    if (dynamic_cast<const Exception::StageOutOfRange*>(&e)) return "StageOutOfRange";
    if (dynamic_cast<const Exception::StageIsWrong*>(&e)) return "StageIsWrong";
    if (dynamic_cast<const Exception::CacheEntryOutOfDate*>(&e)) return "CacheEntryOutOfDate";
    if (dynamic_cast<const Exception::ErrorCheck*>(&e)) return "ErrorCheck";
    if (dynamic_cast<const Exception::Assert*>(&e)) return "Assert";
    if (dynamic_cast<const Exception::IndexOutOfRange*>(&e)) return "IndexOutOfRange";
    if (dynamic_cast<const Exception::Base*>(&e)) return "SimTKBase";
    return "std";
}

Vector readVec(std::istringstream& is) {
    int n; is >> n; Vector v(n);
    for (int i = 0; i < n; ++i) { long long x; is >> x; v[i] = (Real)x; }
    return v;
}

// apply one single-State operation; returns the result token
std::string applyS(State& s, const std::string& op, std::istringstream& is) {
    std::ostringstream r;
    int a, b, c;
    long long v;
    auto sub = [](int i) { return SubsystemIndex(i); };
    if (op == "advSub") { is >> a >> b; s.advanceSubsystemToStage(sub(a), Stage(b)); return "ok"; }
    if (op == "advSys") { is >> a; s.advanceSystemToStage(Stage(a)); return "ok"; }
    if (op == "invalAll") { is >> a; s.invalidateAll(Stage(a)); return "ok"; }
    if (op == "invalCache") { is >> a; s.invalidateAllCacheAtOrAbove(Stage(a)); return "ok"; }
    if (op == "allocQ") { is >> a; Vector x = readVec(is); r << "idx:" << (int)s.allocateQ(sub(a), x); return r.str(); }
    if (op == "allocU") { is >> a; Vector x = readVec(is); r << "idx:" << (int)s.allocateU(sub(a), x); return r.str(); }
    if (op == "allocZ") { is >> a; Vector x = readVec(is); r << "idx:" << (int)s.allocateZ(sub(a), x); return r.str(); }
    if (op == "allocQErr") { is >> a >> b; r << "idx:" << (int)s.allocateQErr(sub(a), b); return r.str(); }
    if (op == "allocUErr") { is >> a >> b; r << "idx:" << (int)s.allocateUErr(sub(a), b); return r.str(); }
    if (op == "allocUDotErr") { is >> a >> b; r << "idx:" << (int)s.allocateUDotErr(sub(a), b); return r.str(); }
    if (op == "allocTrig") { is >> a >> b >> c; r << "idx:" << (int)s.allocateEventTrigger(sub(a), Stage(b), c); return r.str(); }
    if (op == "allocDV") {
        is >> a >> b >> v;
        std::unique_ptr<AbstractValue> val(new Value<int>((int)v));     // the State takes ownership only on success
        DiscreteVariableIndex dx = s.allocateDiscreteVariable(sub(a), Stage(b), val.get());
        val.release();
        r << "idx:" << (int)dx; return r.str();
    }
    if (op == "allocAutoDV") {
        int ud; is >> a >> b >> v >> ud;
        std::unique_ptr<AbstractValue> val(new Value<int>((int)v));
        DiscreteVariableIndex dx = s.allocateAutoUpdateDiscreteVariable(sub(a), Stage(b), val.get(), Stage(ud));
        val.release();
        r << "idx:" << (int)dx; return r.str();
    }
    if (op == "allocCE") {
        is >> a >> b >> c >> v;
        std::unique_ptr<AbstractValue> val(new Value<int>((int)v));
        CacheEntryIndex cx = s.allocateCacheEntry(sub(a), Stage(b), Stage(c), val.get());
        val.release();
        r << "idx:" << (int)cx; return r.str();
    }
    if (op == "allocCEpre") {
        int q, u, z, nd, nc;
        is >> a >> b >> c >> q >> u >> z >> nd;
        Array_<DiscreteVarKey> dvs; Array_<CacheEntryKey> ces;
        for (int i = 0; i < nd; ++i) { int x, y; is >> x >> y; dvs.push_back(DiscreteVarKey(sub(x), DiscreteVariableIndex(y))); }
        is >> nc;
        for (int i = 0; i < nc; ++i) { int x, y; is >> x >> y; ces.push_back(CacheEntryKey(sub(x), CacheEntryIndex(y))); }
        is >> v;
        std::unique_ptr<AbstractValue> val(new Value<int>((int)v));
        CacheEntryIndex cx = s.allocateCacheEntryWithPrerequisites(sub(a), Stage(b), Stage(c), q != 0, u != 0, z != 0,
                                                                   dvs, ces, val.get());
        val.release();
        r << "idx:" << (int)cx; return r.str();
    }
    if (op == "mark") { is >> a >> b; s.markCacheValueRealized(sub(a), CacheEntryIndex(b)); return "ok"; }
    if (op == "unmark") { is >> a >> b; s.markCacheValueNotRealized(sub(a), CacheEntryIndex(b)); return "ok"; }
    if (op == "markDVUpd") { is >> a >> b; s.markDiscreteVarUpdateValueRealized(sub(a), DiscreteVariableIndex(b)); return "ok"; }
    if (op == "setCE") { is >> a >> b >> v; Value<int>::updDowncast(s.updCacheEntry(sub(a), CacheEntryIndex(b))) = (int)v; return "ok"; }
    if (op == "getCE") { is >> a >> b; r << "val:" << ival(s.getCacheEntry(sub(a), CacheEntryIndex(b))); return r.str(); }
    if (op == "setDV") {
        is >> a >> b >> v;
        if (v % 2) s.setDiscreteVariable(sub(a), DiscreteVariableIndex(b), Value<int>((int)v));
        else Value<int>::updDowncast(s.updDiscreteVariable(sub(a), DiscreteVariableIndex(b))) = (int)v;
        return "ok";
    }
    auto wr = [&](Vector& x) { is >> a >> v; if (a >= 0) x[a] = (Real)v; };
    if (op == "updQ") { wr(s.updQ()); return "ok"; }
    if (op == "updU") { wr(s.updU()); return "ok"; }
    if (op == "updZ") { wr(s.updZ()); return "ok"; }
    if (op == "updQsub") { is >> b; wr(s.updQ(sub(b))); return "ok"; }
    if (op == "updUsub") { is >> b; wr(s.updU(sub(b))); return "ok"; }
    if (op == "updZsub") { is >> b; wr(s.updZ(sub(b))); return "ok"; }
    if (op == "updY") { s.updY(); return "ok"; }
    if (op == "setTime") { is >> v; s.setTime((Real)v); return "ok"; }
    if (op == "updUW") { s.updUWeights(); return "ok"; }
    if (op == "updZW") { s.updZWeights(); return "ok"; }
    if (op == "updUWsub") { is >> a; s.updUWeights(sub(a)); return "ok"; }
    if (op == "updZWsub") { is >> a; s.updZWeights(sub(a)); return "ok"; }
    if (op == "updQErrW") { s.updQErrWeights(); return "ok"; }
    if (op == "updUErrW") { s.updUErrWeights(); return "ok"; }
    if (op == "updQErrWsub") { is >> a; s.updQErrWeights(sub(a)); return "ok"; }
    if (op == "updUErrWsub") { is >> a; s.updUErrWeights(sub(a)); return "ok"; }
    if (op == "autoUpdate") { s.autoUpdateDiscreteVariables(); return "ok"; }
    if (op == "setTopoVer") { is >> a; s.setSystemTopologyStageVersion(a); return "ok"; }
    throw std::runtime_error("harness: unknown operation " + op);
}

} // namespace

int main(int argc, char** argv) {
    vh::Args args(argc, argv);
    bool full = false;
    for (auto& r : args.rest) if (r == "full") full = true;
    if (args.mode != "replay") {
        std::fprintf(stderr, "C18 harness: only --mode replay (flow=driver_first)\n");
        return 2;
    }
    World w;
    std::string line;
    while (std::getline(std::cin, line)) {
        if (line.size() < 2 || line[0] != 'I' || line[1] != ' ') continue;
        while (!line.empty() && (line.back() == '\r' || line.back() == ' ')) line.pop_back();
        std::puts(line.c_str());
        std::istringstream is(line.substr(2));
        std::string op; is >> op;
        std::string res = "ok";
        std::vector<int> touched;
        double pline = 0; bool havePline = false;
        try {
            if (op == "reset") {
                int ns; is >> ns;
                std::string fm; if (is >> fm) full = (fm == "full");
                w.sts.clear(); w.dead.clear(); w.snap.clear();
                w.sts.emplace_back(new State()); w.dead.push_back(false);
                w.sts[0]->setNumSubsystems(ns);
                touched = {0};
            } else if (op == "on") {
                int k; std::string sop; is >> k >> sop; touched = {k};
                res = applyS(*w.sts.at(k), sop, is);
            } else if (op == "copyNew") {
                int k; is >> k; touched = {k, (int)w.sts.size()};
                w.sts.emplace_back(new State(*w.sts.at(k))); w.dead.push_back(false);
            } else if (op == "copyAssign") {
                int a, b; is >> a >> b; touched = {a, b};
                *w.sts.at(b) = *w.sts.at(a);
                w.dead[b] = w.dead[a];
            } else if (op == "moveNew") {
                int k; is >> k; touched = {k, (int)w.sts.size()};
                w.sts.emplace_back(new State(std::move(*w.sts.at(k))));
                w.dead.push_back(w.dead[k]); w.dead[k] = true;
            } else if (op == "moveAssign") {
                int a, b; is >> a >> b; touched = {a, b};
                *w.sts.at(b) = std::move(*w.sts.at(a));
                bool t = w.dead[a]; w.dead[a] = w.dead[b]; w.dead[b] = t;
            } else if (op == "clear") {
                int k; is >> k; touched = {k};
                w.sts.at(k)->clear(); w.dead[k] = false;
            } else if (op == "setNumSubs") {
                int k, n; is >> k >> n; touched = {k};
                w.sts.at(k)->setNumSubsystems(n);
            } else if (op == "addSub") {
                int k; is >> k; touched = {k};
                SubsystemIndex sx = w.sts.at(k)->addSubsystem("s", "1");
                res = "idx:" + std::to_string((int)sx);
            } else if (op == "snap") {
                int k; is >> k; touched = {k};
                w.sts.at(k)->getSystemStageVersions(w.snap);
            } else if (op == "probeStale") {
                // end of a copy scenario: the entry was never marked in this State object since it was copied
                int k, a, b; is >> k >> a >> b; touched = {k};
                bool r = w.sts.at(k)->isCacheValueRealized(SubsystemIndex(a), CacheEntryIndex(b));
                res = std::string("idx:") + (r ? "1" : "0");
                pline = r ? 1.0 : 0.0; havePline = true;
            } else if (op == "diff") {
                int k; is >> k; touched = {k};
                res = "idx:" + std::to_string((int)w.sts.at(k)->getLowestSystemStageDifference(w.snap));
            } else {
                std::fprintf(stderr, "C18 harness: unknown record '%s'\n", line.c_str());
                return 3;
            }
        } catch (const std::exception& e) {
            res = "EXC:" + excClass(e);
        }
        std::printf("O res %s\n", res.c_str());
        if (havePline)   // property predicate: a cache entry reads valid only if it was marked valid since ...
            vh::P("neverMarkedInCopy_notValid", "copy.stale_stamp.cache_valid", pline, 0.5);
        for (size_t k = 0; k < w.sts.size(); ++k) {
            std::string o = w.dead[k] ? std::string("dead") : obsState(*w.sts[k]);
            bool t = full;
            for (int x : touched) if (x == (int)k) t = true;
            std::printf("O S%zu %s\n", k, (t ? o : digest(o)).c_str());
        }
    }
    return 0;
}
