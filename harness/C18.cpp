// C18 — replay of model-generated operation sequences on real SimTK::State objects.
// flow = driver_first: the Lean driver (lean/Drivers/C18.lean) generates legal operation sequences
// (`I …` lines) and the model's expected observations; this harness (`--mode replay`, the only mode)
// applies every `I` line to real State objects through the public State API and prints the result token
// and the canonical observation of every State object in exactly the driver's format.
#include "SimTKcommon.h"
#include "hcommon.h"
#include <iostream>
#include <memory>
#include <sstream>
#include <typeinfo>
#include <map>
#include <sys/wait.h>
#include <unistd.h>

using namespace SimTK;

namespace {

struct World {
    std::vector<std::unique_ptr<State>> sts;   // a moved-from State (null impl) is "dead"
    std::vector<bool> dead;
    Array_<StageVersion> snap;
};

std::string keysStr(const ListOfDependents& l) {
    if (l.empty()) return "-";
    std::ostringstream os; bool first = true;
    for (auto p = l.cbegin(); p != l.cend(); ++p) {
        if (!first) os << '+';
        first = false;
        os << (int)p->first << '.' << (int)p->second;
    }
    return os.str();
}

std::string realStr(Real x) {
    if (isNaN(x)) return "nan";
    std::ostringstream os; os << (long long)x; return os.str();
}

std::string vecStr(const Vector& v) {
    if (v.size() == 0) return "-";
    std::ostringstream os;
    for (int i = 0; i < v.size(); ++i) { if (i) os << ','; os << (long long)v[i]; }
    return os.str();
}

int ival(const AbstractValue& v) { return Value<int>::downcast(v).get(); }

std::string obsState(const State& s) {
    std::ostringstream os;
    const int sys = (int)s.getSystemStage();
    os << "sys=" << sys << " sv=";
    Array_<StageVersion> sv; s.getSystemStageVersions(sv);
    for (unsigned i = 0; i < sv.size(); ++i) { if (i) os << ','; os << sv[i]; }
    os << " topo=" << s.getSystemTopologyStageVersion();
    os << " ver=" << s.getQValueVersion() << ',' << s.getUValueVersion() << ',' << s.getZValueVersion();
    os << " qd=" << keysStr(s.getQDependents()) << " ud=" << keysStr(s.getUDependents())
       << " zd=" << keysStr(s.getZDependents());
    if (sys >= Stage::Topology) os << " t=" << realStr(s.getTime()); else os << " t=-";
    if (sys >= Stage::Model) os << " y=" << vecStr(s.getQ()) << '/' << vecStr(s.getU()) << '/' << vecStr(s.getZ());
    if (sys >= Stage::Instance)
        os << " ie=" << s.getNQErr() << ',' << s.getNUErr() << ',' << s.getNUDotErr() << ',' << s.getNEventTriggers();
    const int ns = s.getNumSubsystems();
    os << " ns=" << ns;
    for (SubsystemIndex sx(0); sx < ns; ++sx) {
        const PerSubsystemInfo& info = s.getPerSubsystemInfo(sx);
        os << " | " << (int)s.getSubsystemStage(sx) << " v=";
        for (int g = 0; g < Stage::NValid; ++g) { if (g) os << ','; os << info.getStageVersion(Stage(g)); }
        if (sys >= Stage::Model)
            os << " n=" << s.getNQ(sx) << '@' << (int)s.getQStart(sx) << ',' << s.getNU(sx) << '@' << (int)s.getUStart(sx)
               << ',' << s.getNZ(sx) << '@' << (int)s.getZStart(sx);
        if (sys >= Stage::Instance) {
            os << " e=" << s.getNQErr(sx) << ',' << s.getNUErr(sx) << ',' << s.getNUDotErr(sx) << " tr=";
            for (int g = 0; g < 10; ++g) { if (g) os << ','; os << s.getNEventTriggersByStage(sx, Stage(g)); }
        }
        os << " D ";
        int nd = 0;
        while (s.hasDiscreteVar(DiscreteVarKey(sx, DiscreteVariableIndex(nd)))) ++nd;
        if (nd == 0) os << '-';
        for (DiscreteVariableIndex dx(0); dx < nd; ++dx) {
            if (dx) os << ';';
            const DiscreteVarInfo& dv = s.getDiscreteVarInfo(DiscreteVarKey(sx, dx));
            os << 'a' << (int)s.getDiscreteVarAllocationStage(sx, dx) << 'i' << (int)s.getDiscreteVarInvalidatesStage(sx, dx)
               << 'v' << ival(s.getDiscreteVariable(sx, dx)) << 'n' << dv.getValueVersion()
               << 't' << realStr(s.getDiscreteVarLastUpdateTime(sx, dx)) << 'u';
            const CacheEntryIndex cx = s.getDiscreteVarUpdateIndex(sx, dx);
            if (cx.isValid()) os << (int)cx; else os << '-';
            os << 'd' << keysStr(dv.getDependents());
        }
        os << " C ";
        int nc = 0;
        while (s.hasCacheEntry(CacheEntryKey(sx, CacheEntryIndex(nc)))) ++nc;
        if (nc == 0) os << '-';
        for (CacheEntryIndex cx(0); cx < nc; ++cx) {
            if (cx) os << ';';
            const CacheEntryInfo& ce = s.getCacheEntryInfo(CacheEntryKey(sx, cx));
            os << 'a' << (int)s.getCacheEntryAllocationStage(sx, cx) << 'd' << (int)ce.getDependsOnStage()
               << 'c' << (int)ce.getComputedByStage() << 'r' << (s.isCacheValueRealized(sx, cx) ? 1 : 0)
               << 'v' << ival(s.updCacheEntry(sx, cx)) << 'n' << ce.getValueVersion()
               << 's' << ce.getDependsOnVersionWhenLastComputed()
               << 'p' << (ce.isQPrerequisite() ? 1 : 0) << (ce.isUPrerequisite() ? 1 : 0) << (ce.isZPrerequisite() ? 1 : 0)
               << 'd' << keysStr(ce.getDependents());
        }
    }
    return os.str();
}

std::string digest(const std::string& s) {
    uint64_t h = 0xcbf29ce484222325ull;
    for (unsigned char c : s) { h ^= c; h *= 0x100000001b3ull; }
    char buf[24]; std::snprintf(buf, sizeof buf, "h%016llx", (unsigned long long)h);
    return buf;
}

std::string excClass(const std::exception& e) {
    if (dynamic_cast<const Exception::StageTooLow*>(&e)) return "StageTooLow";
    if (dynamic_cast<const Exception::StageTooHigh*>(&e)) return "StageTooHigh";
    if (dynamic_cast<const Exception::StageOutOfRange*>(&e)) return "StageOutOfRange";
    if (dynamic_cast<const Exception::StageIsWrong*>(&e)) return "StageIsWrong";
    if (dynamic_cast<const Exception::CacheEntryOutOfDate*>(&e)) return "CacheEntryOutOfDate";
    if (dynamic_cast<const Exception::ErrorCheck*>(&e)) return "ErrorCheck";
    if (dynamic_cast<const Exception::Assert*>(&e)) return "Assert";
    if (dynamic_cast<const Exception::IndexOutOfRange*>(&e)) return "IndexOutOfRange";
    if (dynamic_cast<const Exception::Base*>(&e)) return "SimTKBase";
    return "std";
}

Vector readVec(std::istringstream& is) {
    int n; is >> n; Vector v(n);
    for (int i = 0; i < n; ++i) { long long x; is >> x; v[i] = (Real)x; }
    return v;
}

// apply one single-State operation; returns the result token
std::string applyS(State& s, const std::string& op, std::istringstream& is) {
    std::ostringstream r;
    int a, b, c;
    long long v;
    auto sub = [](int i) { return SubsystemIndex(i); };
    if (op == "advSub") { is >> a >> b; s.advanceSubsystemToStage(sub(a), Stage(b)); return "ok"; }
    if (op == "advSys") { is >> a; s.advanceSystemToStage(Stage(a)); return "ok"; }
    if (op == "invalAll") { is >> a; s.invalidateAll(Stage(a)); return "ok"; }
    if (op == "invalCache") { is >> a; s.invalidateAllCacheAtOrAbove(Stage(a)); return "ok"; }
    if (op == "allocQ") { is >> a; Vector x = readVec(is); r << "idx:" << (int)s.allocateQ(sub(a), x); return r.str(); }
    if (op == "allocU") { is >> a; Vector x = readVec(is); r << "idx:" << (int)s.allocateU(sub(a), x); return r.str(); }
    if (op == "allocZ") { is >> a; Vector x = readVec(is); r << "idx:" << (int)s.allocateZ(sub(a), x); return r.str(); }
    if (op == "allocQErr") { is >> a >> b; r << "idx:" << (int)s.allocateQErr(sub(a), b); return r.str(); }
    if (op == "allocUErr") { is >> a >> b; r << "idx:" << (int)s.allocateUErr(sub(a), b); return r.str(); }
    if (op == "allocUDotErr") { is >> a >> b; r << "idx:" << (int)s.allocateUDotErr(sub(a), b); return r.str(); }
    if (op == "allocTrig") { is >> a >> b >> c; r << "idx:" << (int)s.allocateEventTrigger(sub(a), Stage(b), c); return r.str(); }
    if (op == "allocDV") {
        is >> a >> b >> v;
        std::unique_ptr<AbstractValue> val(new Value<int>((int)v));     // the State takes ownership only on success
        DiscreteVariableIndex dx = s.allocateDiscreteVariable(sub(a), Stage(b), val.get());
        val.release();
        r << "idx:" << (int)dx; return r.str();
    }
    if (op == "allocAutoDV") {
        int ud; is >> a >> b >> v >> ud;
        std::unique_ptr<AbstractValue> val(new Value<int>((int)v));
        DiscreteVariableIndex dx = s.allocateAutoUpdateDiscreteVariable(sub(a), Stage(b), val.get(), Stage(ud));
        val.release();
        r << "idx:" << (int)dx; return r.str();
    }
    if (op == "allocCE") {
        is >> a >> b >> c >> v;
        std::unique_ptr<AbstractValue> val(new Value<int>((int)v));
        CacheEntryIndex cx = s.allocateCacheEntry(sub(a), Stage(b), Stage(c), val.get());
        val.release();
        r << "idx:" << (int)cx; return r.str();
    }
    if (op == "allocCEpre") {
        int q, u, z, nd, nc;
        is >> a >> b >> c >> q >> u >> z >> nd;
        Array_<DiscreteVarKey> dvs; Array_<CacheEntryKey> ces;
        for (int i = 0; i < nd; ++i) { int x, y; is >> x >> y; dvs.push_back(DiscreteVarKey(sub(x), DiscreteVariableIndex(y))); }
        is >> nc;
        for (int i = 0; i < nc; ++i) { int x, y; is >> x >> y; ces.push_back(CacheEntryKey(sub(x), CacheEntryIndex(y))); }
        is >> v;
        std::unique_ptr<AbstractValue> val(new Value<int>((int)v));
        CacheEntryIndex cx = s.allocateCacheEntryWithPrerequisites(sub(a), Stage(b), Stage(c), q != 0, u != 0, z != 0,
                                                                   dvs, ces, val.get());
        val.release();
        r << "idx:" << (int)cx; return r.str();
    }
    if (op == "mark") { is >> a >> b; s.markCacheValueRealized(sub(a), CacheEntryIndex(b)); return "ok"; }
    if (op == "unmark") { is >> a >> b; s.markCacheValueNotRealized(sub(a), CacheEntryIndex(b)); return "ok"; }
    if (op == "markDVUpd") { is >> a >> b; s.markDiscreteVarUpdateValueRealized(sub(a), DiscreteVariableIndex(b)); return "ok"; }
    if (op == "setCE") { is >> a >> b >> v; Value<int>::updDowncast(s.updCacheEntry(sub(a), CacheEntryIndex(b))) = (int)v; return "ok"; }
    if (op == "getCE") { is >> a >> b; r << "val:" << ival(s.getCacheEntry(sub(a), CacheEntryIndex(b))); return r.str(); }
    if (op == "setDV") {
        is >> a >> b >> v;
        if (v % 2) s.setDiscreteVariable(sub(a), DiscreteVariableIndex(b), Value<int>((int)v));
        else Value<int>::updDowncast(s.updDiscreteVariable(sub(a), DiscreteVariableIndex(b))) = (int)v;
        return "ok";
    }
    auto wr = [&](Vector& x) { is >> a >> v; if (a >= 0) x[a] = (Real)v; };
    // the same model operation through the two public routes: upd…() reference, or set…(Vector) (odd values)
    auto wrSet = [&](int which) {
        is >> a >> v;
        const bool viaSet = (a >= 0 && v % 2 != 0);
        if (!viaSet) { Vector& x = which == 0 ? s.updQ() : which == 1 ? s.updU() : s.updZ(); if (a >= 0) x[a] = (Real)v; return; }
        Vector x = which == 0 ? s.getQ() : which == 1 ? s.getU() : s.getZ();
        x[a] = (Real)v;
        if (which == 0) s.setQ(x); else if (which == 1) s.setU(x); else s.setZ(x);
    };
    if (op == "updQ") { wrSet(0); return "ok"; }
    if (op == "updU") { wrSet(1); return "ok"; }
    if (op == "updZ") { wrSet(2); return "ok"; }
    if (op == "updQsub") { is >> b; wr(s.updQ(sub(b))); return "ok"; }
    if (op == "updUsub") { is >> b; wr(s.updU(sub(b))); return "ok"; }
    if (op == "updZsub") { is >> b; wr(s.updZ(sub(b))); return "ok"; }
    if (op == "updY") { static long flip = 0; if (++flip % 2) s.updY(); else { const Vector y = s.getY(); s.setY(y); } return "ok"; }
    if (op == "setTime") { is >> v; if (v % 2) s.updTime() = (Real)v; else s.setTime((Real)v); return "ok"; }
    if (op == "updUW") { s.updUWeights(); return "ok"; }
    if (op == "updZW") { s.updZWeights(); return "ok"; }
    if (op == "updUWsub") { is >> a; s.updUWeights(sub(a)); return "ok"; }
    if (op == "updZWsub") { is >> a; s.updZWeights(sub(a)); return "ok"; }
    if (op == "updQErrW") { s.updQErrWeights(); return "ok"; }
    if (op == "updUErrW") { s.updUErrWeights(); return "ok"; }
    if (op == "updQErrWsub") { is >> a; s.updQErrWeights(sub(a)); return "ok"; }
    if (op == "updUErrWsub") { is >> a; s.updUErrWeights(sub(a)); return "ok"; }
    if (op == "autoUpdate") { s.autoUpdateDiscreteVariables(); return "ok"; }
    if (op == "setTopoVer") { is >> a; s.setSystemTopologyStageVersion(a); return "ok"; }
    throw std::runtime_error("harness: unknown operation " + op);
}


// ---------------------------------------------------------------------------------------------------------
// Model-independent shadow oracle (specification level, derived from the operation names and the documented
// meaning of each call only): when was each cache entry last marked, when was each thing it depends on last
// changed.  After every operation:
//   validOnlyIfMarkedSince : isCacheValueRealized(e) and stage < computedBy(e)  ==>  e was marked after the last
//        change of a variable of a stage <= dependsOn(e) and after the last change of each declared prerequisite
//   valueChangeBumpsVersion: a discrete variable / cache entry / q,u,z whose value changed has a new value version
//   stageAsDocumented      : a variable change leaves the system stage at min(old, documented invalidated stage - 1)
struct EntryShadow {
    int dep = 0, comp = 0; bool q = false, u = false, z = false;
    std::vector<std::pair<int,int>> dvs, ces;
    long lastMark = -1; int stageAtMark = 0;
};
struct Shadow {
    std::map<std::pair<int,int>, EntryShadow> ce;
    std::map<std::pair<int,int>, std::pair<long,std::string>> dvChange, ceChange;   // time, cause
    long stageChange[11] = {0,0,0,0,0,0,0,0,0,0,0};
    long lastQ = 0, lastU = 0, lastZ = 0;
};
struct Snap {            // values and value versions before an operation
    bool live = false; int sys = 0; std::vector<long long> q, u, z; long long qv = 0, uv = 0, zv = 0;
    std::map<std::pair<int,int>, std::pair<int,long long>> dv, ce;
};

int countCE(const State& s, int sx) { int n = 0; while (s.hasCacheEntry(CacheEntryKey(SubsystemIndex(sx), CacheEntryIndex(n)))) ++n; return n; }
int countDV(const State& s, int sx) { int n = 0; while (s.hasDiscreteVar(DiscreteVarKey(SubsystemIndex(sx), DiscreteVariableIndex(n)))) ++n; return n; }

Snap takeSnap(const State& s) {
    Snap p; p.live = true; p.sys = (int)s.getSystemStage();
    p.qv = s.getQValueVersion(); p.uv = s.getUValueVersion(); p.zv = s.getZValueVersion();
    if (p.sys >= Stage::Model) {
        for (int i = 0; i < s.getNQ(); ++i) p.q.push_back((long long)s.getQ()[i]);
        for (int i = 0; i < s.getNU(); ++i) p.u.push_back((long long)s.getU()[i]);
        for (int i = 0; i < s.getNZ(); ++i) p.z.push_back((long long)s.getZ()[i]);
    }
    for (int sx = 0; sx < s.getNumSubsystems(); ++sx) {
        const int nd = countDV(s, sx), nc = countCE(s, sx);
        for (int d = 0; d < nd; ++d)
            p.dv[{sx, d}] = { ival(s.getDiscreteVariable(SubsystemIndex(sx), DiscreteVariableIndex(d))),
                              s.getDiscreteVarInfo(DiscreteVarKey(SubsystemIndex(sx), DiscreteVariableIndex(d))).getValueVersion() };
        for (int c = 0; c < nc; ++c)
            p.ce[{sx, c}] = { ival(s.updCacheEntry(SubsystemIndex(sx), CacheEntryIndex(c))),
                              s.getCacheEntryInfo(CacheEntryKey(SubsystemIndex(sx), CacheEntryIndex(c))).getValueVersion() };
    }
    return p;
}

// a copy "copies only state variables and not the cache" (State.h); cache entries whose depends-on stage was copied
// (<= the copy's stage <= Instance) and that have no prerequisites may stay valid, all others count as never marked
void copiedShadow(Shadow& S, const State& copy) {
    for (auto it = S.ce.begin(); it != S.ce.end();) {
        const int sx = it->first.first;
        if (sx >= copy.getNumSubsystems() || it->first.second >= countCE(copy, sx)) { it = S.ce.erase(it); continue; }
        EntryShadow& e = it->second;
        if (e.dep > (int)copy.getSubsystemStage(SubsystemIndex(sx)) || e.q || e.u || e.z || !e.dvs.empty() || !e.ces.empty())
            e.lastMark = -1;
        ++it;
    }
}

// documented stage invalidated by a variable-changing operation (State.h), 0 = not a variable change
int docStage(const std::string& sop) {
    if (sop == "updQ" || sop == "updQsub" || sop == "updY" || sop == "updQErrW" || sop == "updQErrWsub") return Stage::Position;
    if (sop == "updU" || sop == "updUsub" || sop == "updUErrW" || sop == "updUErrWsub") return Stage::Velocity;
    if (sop == "updZ" || sop == "updZsub") return Stage::Dynamics;
    if (sop == "setTime") return Stage::Time;
    if (sop == "updUW" || sop == "updUWsub" || sop == "updZW" || sop == "updZWsub") return Stage::Report;   // "will invalidate just Report stage"
    return 0;
}
} // namespace

// ---- subsystem back pointer probe --------------------------------------------------------------------------
// PerSubsystemInfo keeps a pointer to the StateImpl that contains it; popping an allocation stack that holds a
// cache entry with prerequisites goes through that pointer. The probe builds States with nlo..nhi subsystems
// (by setNumSubsystems and by addSubsystem), gives each subsystem in turn such an entry and pops it. It runs in
// a forked child so that a crash becomes a predicate value instead of an abort of the whole replay.
static int backPointerProbe(int nlo, int nhi) {
    std::fflush(stdout); std::fflush(stderr);
    pid_t pid = fork();
    if (pid < 0) return 0;
    if (pid == 0) {
        for (int viaAdd = 0; viaAdd < 2; ++viaAdd)
            for (int n = nlo; n <= nhi; ++n)
                for (int sub = 0; sub < n; ++sub) {
                    State s;
                    if (viaAdd) for (int i = 0; i < n; ++i) s.addSubsystem("s", "1"); else s.setNumSubsystems(n);
                    Array_<DiscreteVarKey> dv; Array_<CacheEntryKey> ce;
                    s.allocateCacheEntryWithPrerequisites(SubsystemIndex(sub), Stage::Position, Stage::Infinity,
                                                          true, false, false, dv, ce, new Value<int>(0));
                    for (int i = 0; i < n; ++i) s.advanceSubsystemToStage(SubsystemIndex(i), Stage::Topology);
                    s.advanceSystemToStage(Stage::Topology);
                    s.invalidateAll(Stage::Topology);
                }
        _exit(0);
    }
    int status = 0;
    if (waitpid(pid, &status, 0) < 0) return 0;
    return (WIFEXITED(status) && WEXITSTATUS(status) == 0) ? 0 : 1;
}
// Work-around used only when the probe failed, so that the rest of the replay can still run: copying a State
// re-points the back pointers of the copy (StateImpl::copyFrom); the States repaired here are pristine.
static void repairBackPointers(State& s) { State t(s); s = t; }

int main(int argc, char** argv) {
    vh::Args args(argc, argv);
    bool full = false;
    for (auto& r : args.rest) if (r == "full") full = true;
    if (args.mode != "replay") {
        std::fprintf(stderr, "C18 harness: only --mode replay (flow=driver_first)\n");
        return 2;
    }
    World w;
    std::vector<Shadow> sh;          // one per State object
    int probe14 = -1, probe58 = -1;  // results of the back pointer probes (run with the first record)
    bool firstRecord = true;
    long now = 0;
    std::string line;
    while (std::getline(std::cin, line)) {
        if (line.size() < 2 || line[0] != 'I' || line[1] != ' ') continue;
        while (!line.empty() && (line.back() == '\r' || line.back() == ' ')) line.pop_back();
        std::puts(line.c_str());
        std::istringstream is(line.substr(2));
        std::string op; is >> op;
        std::string res = "ok";
        std::vector<int> touched;
        double pline = 0; bool havePline = false;
        ++now;
        // ---- shadow: what is known before the call
        std::string sop0; int k0 = -1; std::vector<long long> av;      // single-State operation, its numeric arguments
        Snap before; int dvInval = 0; int sysBefore = -1;
        {
            std::istringstream ps(line.substr(2)); std::string o; ps >> o;
            if (o == "on") { ps >> k0 >> sop0; long long x; while (ps >> x) av.push_back(x); }
            if (k0 >= 0 && k0 < (int)w.sts.size() && !w.dead[k0]) {
                const State& st = *w.sts[k0];
                before = takeSnap(st); sysBefore = (int)st.getSystemStage();
                if (sop0 == "setDV" && av.size() >= 2 && av[0] < st.getNumSubsystems() && av[1] < countDV(st, (int)av[0]))
                    dvInval = (int)st.getDiscreteVarInvalidatesStage(SubsystemIndex((int)av[0]), DiscreteVariableIndex((int)av[1]));
            }
        }
        try {
            if (op == "reset") {
                int ns; is >> ns;
                std::string fm; if (is >> fm) full = (fm == "full");
                w.sts.clear(); w.dead.clear(); w.snap.clear();
                w.sts.emplace_back(new State()); w.dead.push_back(false);
                w.sts[0]->setNumSubsystems(ns);
                if (probe14 < 0) { probe14 = backPointerProbe(1, 4); probe58 = backPointerProbe(5, 8); }
                if (probe14) repairBackPointers(*w.sts[0]);
                touched = {0};
                sh.assign(1, Shadow());
            } else if (op == "on") {
                int k; std::string sop; is >> k >> sop; touched = {k};
                res = applyS(*w.sts.at(k), sop, is);
            } else if (op == "copyNew") {
                int k; is >> k; touched = {k, (int)w.sts.size()};
                w.sts.emplace_back(new State(*w.sts.at(k))); w.dead.push_back(false);
                sh.push_back(sh.at(k)); copiedShadow(sh.back(), *w.sts.back());
            } else if (op == "copyAssign") {
                int a, b; is >> a >> b; touched = {a, b};
                *w.sts.at(b) = *w.sts.at(a);
                w.dead[b] = w.dead[a];
                sh.at(b) = sh.at(a); if (!w.dead[b]) copiedShadow(sh.at(b), *w.sts.at(b));
            } else if (op == "moveNew") {
                int k; is >> k; touched = {k, (int)w.sts.size()};
                w.sts.emplace_back(new State(std::move(*w.sts.at(k))));
                w.dead.push_back(w.dead[k]); w.dead[k] = true;
                sh.push_back(sh.at(k)); sh.at(k) = Shadow();
            } else if (op == "moveAssign") {
                int a, b; is >> a >> b; touched = {a, b};
                *w.sts.at(b) = std::move(*w.sts.at(a));
                bool t = w.dead[a]; w.dead[a] = w.dead[b]; w.dead[b] = t;
                std::swap(sh.at(a), sh.at(b));
            } else if (op == "clear") {
                int k; is >> k; touched = {k};
                w.sts.at(k)->clear(); w.dead[k] = false; sh.at(k) = Shadow();
            } else if (op == "setNumSubs") {
                int k, n; is >> k >> n; touched = {k};
                w.sts.at(k)->setNumSubsystems(n);
                if (probe14 > 0) repairBackPointers(*w.sts.at(k));
            } else if (op == "addSub") {
                int k; is >> k; touched = {k};
                SubsystemIndex sx = w.sts.at(k)->addSubsystem("s", "1");
                res = "idx:" + std::to_string((int)sx);
                if (probe14 > 0) repairBackPointers(*w.sts.at(k));
            } else if (op == "snap") {
                int k; is >> k; touched = {k};
                w.sts.at(k)->getSystemStageVersions(w.snap);
            } else if (op == "probeStale") {
                // end of a copy scenario: the entry was never marked in this State object since it was copied
                int k, a, b; is >> k >> a >> b; touched = {k};
                bool r = w.sts.at(k)->isCacheValueRealized(SubsystemIndex(a), CacheEntryIndex(b));
                res = std::string("idx:") + (r ? "1" : "0");
                pline = r ? 1.0 : 0.0; havePline = true;
            } else if (op == "diff") {
                int k; is >> k; touched = {k};
                res = "idx:" + std::to_string((int)w.sts.at(k)->getLowestSystemStageDifference(w.snap));
            } else {
                std::fprintf(stderr, "C18 harness: unknown record '%s'\n", line.c_str());
                return 3;
            }
        } catch (const std::exception& e) {
            res = "EXC:" + excClass(e);
        }
        std::printf("O res %s\n", res.c_str());
        // ---- shadow: update from the documented meaning of the call, then evaluate the predicates
        if (k0 >= 0 && k0 < (int)w.sts.size() && !w.dead[k0] && before.live) {
            const State& st = *w.sts[k0];
            Shadow& S = sh.at(k0);
            const bool ok = res.compare(0, 4, "EXC:") != 0;
            auto key2 = [&](size_t i) { return std::make_pair((int)av.at(i), (int)av.at(i + 1)); };
            int g = ok ? docStage(sop0) : 0;
            if (ok && (sop0 == "invalAll" || sop0 == "invalCache")) g = (int)av.at(0);
            if (ok && sop0 == "setDV") { g = dvInval; S.dvChange[key2(0)] = { now, "setDV" }; }
            if (g > 0) S.stageChange[g] = now;
            if (ok && (sop0 == "updQ" || sop0 == "updQsub" || sop0 == "updY")) S.lastQ = now;
            if (ok && (sop0 == "updU" || sop0 == "updUsub" || sop0 == "updY")) S.lastU = now;
            if (ok && (sop0 == "updZ" || sop0 == "updZsub" || sop0 == "updY")) S.lastZ = now;
            if (ok && sop0 == "advSys" && av.at(0) == Stage::Model) S.lastQ = S.lastU = S.lastZ = now;   // pools come into existence
            if (ok && sop0 == "setCE") S.ceChange[key2(0)] = { now, "updCacheEntry" };
            if (ok && (sop0 == "allocCE" || sop0 == "allocCEpre" || sop0 == "allocAutoDV")) {
                const int sx = (int)av.at(0);
                EntryShadow e;
                if (sop0 == "allocAutoDV") { e.dep = (int)av.at(3); e.comp = Stage::Infinity; }
                else { e.dep = (int)av.at(1); e.comp = (int)av.at(2); }
                if (sop0 == "allocCEpre") {
                    e.q = av.at(3) != 0; e.u = av.at(4) != 0; e.z = av.at(5) != 0;
                    size_t i = 6; const int nd = (int)av.at(i++);
                    for (int j = 0; j < nd; ++j, i += 2) e.dvs.push_back(key2(i));
                    const int nc = (int)av.at(i++);
                    for (int j = 0; j < nc; ++j, i += 2) e.ces.push_back(key2(i));
                }
                const int cx = countCE(st, sx) - 1;
                S.ce[{sx, cx}] = e; S.ceChange.erase({sx, cx});
                if (sop0 == "allocAutoDV") S.dvChange.erase({sx, countDV(st, sx) - 1});
                if (sop0 != "allocAutoDV") {}     // plain discrete variables need no shadow until they change
            }
            if (ok && sop0 == "allocDV") S.dvChange.erase({(int)av.at(0), countDV(st, (int)av.at(0)) - 1});
            if (ok && (sop0 == "mark" || sop0 == "markDVUpd")) {
                std::pair<int,int> k = key2(0);
                if (sop0 == "markDVUpd") k.second = (int)st.getDiscreteVarUpdateIndex(SubsystemIndex(k.first), DiscreteVariableIndex(k.second));
                auto it = S.ce.find(k);
                if (it != S.ce.end()) { it->second.lastMark = now; it->second.stageAtMark = (int)st.getSubsystemStage(SubsystemIndex(k.first)); }
            }
            if (ok && sop0 == "unmark") { auto it = S.ce.find(key2(0)); if (it != S.ce.end()) it->second.lastMark = -1; }
            // forget entries that no longer exist (allocation stacks popped)
            for (auto it = S.ce.begin(); it != S.ce.end();)
                if (it->first.first >= st.getNumSubsystems() || it->first.second >= countCE(st, it->first.first)) it = S.ce.erase(it); else ++it;
            // values and value versions
            Snap after = takeSnap(st);
            int nver = 0; std::string vkey = "value_version.bumps";
            auto flag = [&](const std::string& what) { if (!nver++) vkey = "value_version." + what + "." + sop0; };
            for (auto& kv : before.dv) { auto it = after.dv.find(kv.first);
                if (it != after.dv.end() && it->second.first != kv.second.first) {
                    if (it->second.second == kv.second.second) flag("dv");
                    if (sop0 == "autoUpdate") S.dvChange[kv.first] = { now, "autoupdate_swap" }; } }
            for (auto& kv : before.ce) { auto it = after.ce.find(kv.first);
                if (it != after.ce.end() && it->second.first != kv.second.first) {
                    if (it->second.second == kv.second.second) flag("ce");
                    if (sop0 == "autoUpdate") { S.ceChange[kv.first] = { now, "autoupdate_swap" };
                        auto e = S.ce.find(kv.first); if (e != S.ce.end()) e->second.lastMark = -1; } } }
            if (before.sys >= Stage::Model && after.sys >= Stage::Model) {
                if (before.q != after.q && before.qv == after.qv) flag("q");
                if (before.u != after.u && before.uv == after.uv) flag("u");
                if (before.z != after.z && before.zv == after.zv) flag("z");
            }
            vh::P("valueChangeBumpsVersion", vkey, nver, 0.5);
            // stage as documented
            if (ok && docStage(sop0) > 0) {
                const int want = std::min(sysBefore, docStage(sop0) - 1), got = (int)st.getSystemStage();
                vh::P("stageAsDocumented", got == want ? "upd_lowers_stage.documented" : sop0 + ".invalidated_stage_differs_from_documentation",
                      std::abs(got - want), 0.5);
            }
            // validity
            int nbad = 0; std::string ckey = "cache_valid.marked_since";
            for (auto& kv : S.ce) {
                const EntryShadow& e = kv.second;
                const SubsystemIndex sx(kv.first.first); const CacheEntryIndex cx(kv.first.second);
                const int cur = (int)st.getSubsystemStage(sx);
                if (!st.isCacheValueRealized(sx, cx) || cur >= e.comp) continue;
                long last = 0; std::string cause = "stage";
                for (int gg = 1; gg <= e.dep && gg <= 10; ++gg) last = std::max(last, S.stageChange[gg]);
                auto upd = [&](long t, const std::string& c) { if (t > last) { last = t; cause = c; } };
                if (e.q) upd(S.lastQ, "q"); if (e.u) upd(S.lastU, "u"); if (e.z) upd(S.lastZ, "z");
                for (auto& dk : e.dvs) { auto it = S.dvChange.find(dk); if (it != S.dvChange.end()) upd(it->second.first, "dv_" + it->second.second); }
                for (auto& ck : e.ces) { auto it = S.ceChange.find(ck); if (it != S.ceChange.end()) upd(it->second.first, "ce_" + it->second.second); }
                if (e.lastMark > last) continue;
                if (!nbad++) {
                    if (e.lastMark < 0) ckey = "cache_valid.never_marked_or_unmarked";
                    else if (cause == "stage") ckey = e.stageAtMark < e.dep ? "cache_valid.marked_one_stage_early_then_variable_changed"
                                                                             : "cache_valid.stage_variable_changed_after_mark";
                    else ckey = "cache_valid.prerequisite_" + cause + "_changed_after_mark";
                }
            }
            vh::P("validOnlyIfMarkedSince", ckey, nbad, 0.5);
        }
        if (firstRecord && probe14 >= 0) {
            firstRecord = false;
            vh::P("subsystemKeepsBackPointer", "subsystem_back_pointer.setNumSubsystems_1_to_4", probe14, 0.5);
            vh::P("subsystemKeepsBackPointer", "subsystem_back_pointer.lost_on_array_growth_5_plus", probe58, 0.5);
        }
        if (havePline)   // property predicate: a cache entry reads valid only if it was marked valid since ...
            vh::P("neverMarkedInCopy_notValid", "copy.stale_stamp.cache_valid", pline, 0.5);
        for (size_t k = 0; k < w.sts.size(); ++k) {
            std::string o = w.dead[k] ? std::string("dead") : obsState(*w.sts[k]);
            bool t = full;
            for (int x : touched) if (x == (int)k) t = true;
            std::printf("O S%zu %s\n", k, (t ? o : digest(o)).c_str());
        }
    }
    return 0;
}
