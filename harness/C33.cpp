// C33 correspondence harness: the REAL ParallelExecutor / Parallel2DExecutor / ParallelWorkQueue run with
// instrumented user tasks (public API only).  Every callback appends (kind, worker, a, b) to a lock-free global log
// (atomic sequence numbers) and maintains atomic in-flight counters, so overlap is detected directly.
//
//   I pe <threads> <yseed> <times_1> ... <times_k>         one executor, k execute() calls (repeated use)
//       O pe <round> <ninit> <nfinish> <runs of the sorted executed indices, "a-b">      (one line per round)
//   I p2d own <grid> <numProcessors> <rt> <yseed>          Parallel2DExecutor(grid, numProcessors)
//   I p2d ext <grid> <executorThreads> <rt> <yseed> <ncpu> Parallel2DExecutor(grid, ParallelExecutor&), ncpu =
//                                                          ParallelExecutor::getNumProcessors() as seen by the library
//       O p2d <ninit> <nfinish> <runs of the sorted executed pair codes i*grid+j>
//   I wq <queueSize> <threads> <yseed> <op>...             op = a<k> (add k tasks) | f (flush); destructor at the end
//       O wq <executed> <deleted> <completed at each flush return>...
//   I petrace <threads> <times...> | <events...>         the callback-level trace of a `pe` case (callbacks and the caller's
//       O petrace ok                                       execute() calls/returns in atomic-sequence order, workers named by
//                                                          their model index = executed index mod threads): the Lean driver must
//                                                          accept it as a run of the ParallelExecutor transition system WITHOUT
//                                                          spurious wake-ups (trace inclusion implementation -> model)
//   I p2dplan <grid> <numProcessors>                      ONLY when the library was built with notes/C33_trace_hook.patch
//       O p2dplan bins <binStart[0..bins]>                 applied (weak symbol SimTK_verif_parallelTraceHook present): the
//       O p2dplan pass <p> <x:y>...                        internal partition reported by the hook vs. the model's plan
// P lines (the property's own predicates on the implementation): see each case.  Every record's I line is printed and
// flushed BEFORE the executor runs; a watchdog thread turns a hang (no progress for 30 s) into `P no_deadlock <key> 1 0`.
// rt: 0 FullMatrix, 1 HalfMatrix, 2 HalfPlusDiagonal.
#include "SimTKcommon.h"
#include "hcommon.h"
#include <atomic>
#include <thread>
#include <chrono>
#include <algorithm>
#include <map>
#include <dlfcn.h>
#include <unistd.h>
using namespace SimTK;

// ---------------------------------------------------------------------------------------------------------------
// simulated processor count: ParallelExecutor::getNumProcessors() asks sysconf(_SC_NPROCESSORS_ONLN); the harness
// interposes sysconf so that the one-processor configuration of Parallel2DExecutor(grid, ParallelExecutor&) can be
// exercised on any machine (0 = pass through).
static std::atomic<long> g_fakeCpus{0};
extern "C" long sysconf(int name) noexcept {
    typedef long (*fn_t)(int);
    static fn_t real = (fn_t)dlsym(RTLD_NEXT, "sysconf");
    if (name == _SC_NPROCESSORS_ONLN && g_fakeCpus.load() > 0) return g_fakeCpus.load();
    return real ? real(name) : -1;
}

// ---------------------------------------------------------------------------------------------------------------
enum Kind { K_INIT = 0, K_EXEC_B, K_EXEC_E, K_FIN_B, K_FIN_E, K_CALL, K_RET };
struct Ev { int kind, worker, round, a, b; };
static std::vector<Ev> g_log;
static std::atomic<size_t> g_seq{0};
static std::atomic<int> g_inFlight{0};       // callbacks currently running
static std::atomic<int> g_finInFlight{0}, g_finMax{0};
static std::atomic<int> g_epoch{0}, g_nextWorker{0};
static std::atomic<int> g_round{0};
static std::atomic<long> g_shareViolations{0};
static std::vector<std::atomic<int> > g_busy(0);
static uint64_t g_yseed = 0;

struct Local { int epoch = -1; int id = -1; uint64_t rng = 0; };
static thread_local Local tl;
static int workerId() {
    int e = g_epoch.load();
    if (tl.epoch != e) { tl.epoch = e; tl.id = g_nextWorker.fetch_add(1); tl.rng = g_yseed * 0x9E3779B97F4A7C15ull + 77 * (uint64_t)(tl.id + 1); }
    return tl.id;
}
// seeded schedule perturbation inside callbacks
static void perturb() {
    workerId();
    tl.rng ^= tl.rng << 13; tl.rng ^= tl.rng >> 7; tl.rng ^= tl.rng << 17;
    unsigned r = (unsigned)(tl.rng >> 40) & 63u;
    if (r < 12) std::this_thread::yield();
    else if (r == 63) std::this_thread::sleep_for(std::chrono::microseconds(20));
}
static void logEv(int kind, int a, int b) {
    size_t k = g_seq.fetch_add(1);
    if (k < g_log.size()) g_log[k] = Ev{kind, workerId(), g_round.load(), a, b};
}
static void logMain(int kind, int round) {          // events of the calling thread (not a worker)
    size_t k = g_seq.fetch_add(1);
    if (k < g_log.size()) g_log[k] = Ev{kind, -1, round, 0, 0};
}
// watchdog: a record whose executor call does not come back is reported instead of hanging the check
static std::atomic<bool> g_caseBusy{false};
static std::atomic<long long> g_caseStartMs{0};
static std::string g_caseKey;
static long long nowMs() { return std::chrono::duration_cast<std::chrono::milliseconds>(std::chrono::steady_clock::now().time_since_epoch()).count(); }
static void caseBegin(const std::string& key) { g_caseKey = key; g_caseStartMs = nowMs(); g_caseBusy = true; std::fflush(stdout); }
static void caseEnd() { g_caseBusy = false; vh::P("no_deadlock", g_caseKey, 0, 0); }
static void watchdog() {
    for (;;) {
        std::this_thread::sleep_for(std::chrono::milliseconds(500));
        if (g_caseBusy.load() && nowMs() - g_caseStartMs.load() > 30000) {
            std::printf("P no_deadlock %s 1 0\n", g_caseKey.c_str()); std::fflush(stdout); _exit(0);
        }
    }
}
static void updMax(std::atomic<int>& m, int v) { int cur = m.load(); while (v > cur && !m.compare_exchange_weak(cur, v)) {} }
static void newCase(uint64_t yseed, size_t cap) {
    g_log.assign(cap, Ev{-1, -1, -1, -1, -1}); g_seq = 0; g_inFlight = 0; g_finInFlight = 0; g_finMax = 0;
    g_epoch.fetch_add(1); g_nextWorker = 0; g_round = 0; g_shareViolations = 0; g_yseed = yseed;
}
static void cbInit() { g_inFlight++; perturb(); logEv(K_INIT, 0, 0); g_inFlight--; }
static void cbFinish() {
    g_inFlight++; logEv(K_FIN_B, 0, 0);
    int c = ++g_finInFlight; updMax(g_finMax, c);
    perturb();
    --g_finInFlight; logEv(K_FIN_E, 0, 0); g_inFlight--;
}

// runs "a-b" of a sorted vector (duplicates start a new run)
static void emitRuns(vh::Line& L, std::vector<long>& v) {
    std::sort(v.begin(), v.end());
    size_t i = 0;
    while (i < v.size()) {
        size_t j = i;
        while (j + 1 < v.size() && v[j + 1] == v[j] + 1) ++j;
        L.s(std::to_string(v[i]) + "-" + std::to_string(v[j]));
        i = j + 1;
    }
}

// per worker and round: init precedes the worker's executions precede its finish (counts violations);
// also returns the numbers of init / finish events of the round
struct OrderStats { long viol = 0; int ninit = 0, nfin = 0; };
static OrderStats orderCheck(int round, size_t nEvents) {
    OrderStats st;
    std::map<int, int> state;   // worker -> 0 nothing yet, 1 after init, 2 after finish began, 3 after finish ended
    for (size_t k = 0; k < nEvents; ++k) {
        const Ev& e = g_log[k];
        if (e.round != round || e.worker < 0) continue;
        int& s = state[e.worker];
        switch (e.kind) {
        case K_INIT: if (s != 0) st.viol++; s = 1; st.ninit++; break;
        case K_EXEC_B: case K_EXEC_E: if (s != 1) st.viol++; break;
        case K_FIN_B: if (s != 1) st.viol++; s = 2; st.nfin++; break;
        case K_FIN_E: if (s != 2) st.viol++; s = 3; break;
        }
    }
    for (auto& kv : state) if (kv.second != 3) st.viol++;
    return st;
}

// ---------------------------------------------------------------------------------------------------------------
struct PETask : public ParallelExecutor::Task {
    void initialize() override { cbInit(); }
    void finish() override { cbFinish(); }
    void execute(int index) override {
        g_inFlight++; logEv(K_EXEC_B, index, 0); perturb(); logEv(K_EXEC_E, index, 0); g_inFlight--;
    }
};

static void peCase(int threads, uint64_t yseed, const std::vector<int>& times, const char* tag) {
    long total = 0; for (int t : times) total += t;
    newCase(yseed, (size_t)(2 * total + (5 * (size_t)std::max(threads, 1) + 10) * times.size() + 64));
    std::vector<size_t> retSeq; std::vector<int> inflightAtReturn;
    { vh::Line in = vh::I("pe"); in.i(threads).i((long long)yseed); for (int t : times) in.i(t); in.emit(); }
    caseBegin("pe.execute.no_deadlock");
    {
        ParallelExecutor ex(threads);
        for (size_t r = 0; r < times.size(); ++r) {
            g_round = (int)r;
            PETask task;
            logMain(K_CALL, (int)r);
            ex.execute(task, times[r]);
            inflightAtReturn.push_back(g_inFlight.load());
            retSeq.push_back(g_seq.load());
            logMain(K_RET, (int)r);
        }
    }
    size_t nEv = std::min(g_seq.load(), g_log.size());
    long onceViol = 0, orderViol = 0, retViol = 0; bool striped = true;
    for (size_t r = 0; r < times.size(); ++r) {
        std::vector<long> idx; std::vector<int> cnt(times[r] > 0 ? times[r] : 0, 0);
        std::map<int, std::vector<int> > perWorker;
        for (size_t k = 0; k < nEv; ++k) {
            const Ev& e = g_log[k];
            if (e.round != (int)r || e.worker < 0) continue;
            if (k >= retSeq[r]) retViol++;                    // a callback of round r logged after execute() returned
            if (e.kind == K_EXEC_E) {
                idx.push_back(e.a); perWorker[e.worker].push_back(e.a);
                if (e.a >= 0 && e.a < times[r]) cnt[e.a]++; else onceViol++;
            }
        }
        for (int c : cnt) if (c != 1) onceViol++;
        OrderStats st = orderCheck((int)r, nEv);
        orderViol += st.viol;
        retViol += inflightAtReturn[r];
        vh::Line out = vh::O("pe"); out.i((long long)r).i(st.ninit).i(st.nfin); emitRuns(out, idx); out.emit();
        int T = threads < 2 ? 1 : threads;
        for (auto& kv : perWorker) {                            // distribution info only: is the assignment the striping?
            const std::vector<int>& v = kv.second;
            for (size_t q = 1; q < v.size(); ++q) if (v[q] != v[q - 1] + T) striped = false;
        }
    }
    vh::D(std::string("pe.") + tag + ".threads" + std::to_string(threads));
    vh::D(striped ? "pe.assignment.striped" : "pe.assignment.other");
    vh::P("each_index_once", "pe.execute.index_once", (double)onceViol, 0);
    vh::P("init_before_finish_after", "pe.execute.order", (double)orderViol, 0);
    vh::P("finish_mutually_exclusive", "pe.finish.overlap", (double)(g_finMax.load() > 1 ? g_finMax.load() - 1 : 0), 0);
    vh::P("execute_returns_after_all", "pe.execute.return", (double)retViol, 0);
    vh::P("log_capacity", "pe.harness.log", g_seq.load() > g_log.size() ? 1 : 0, 0);
    caseEnd();
    // ---- the callback-level trace, to be validated by the Lean driver as a run of the transition system
    if (threads >= 2 && total <= 400 && g_seq.load() <= g_log.size()) {
        // name the worker threads by their model index: a thread that executed index i is worker i mod threads; threads
        // that never executed anything are interchangeable and get the unused indices
        std::map<int, int> modelId; std::vector<bool> used(threads, false);
        for (size_t k = 0; k < nEv; ++k) { const Ev& e = g_log[k];
            if (e.kind == K_EXEC_B && e.worker >= 0 && !modelId.count(e.worker)) { modelId[e.worker] = e.a % threads; used[e.a % threads] = true; } }
        int nextFree = 0;
        for (size_t k = 0; k < nEv; ++k) { const Ev& e = g_log[k];
            if (e.worker >= 0 && !modelId.count(e.worker)) { while (nextFree < threads && used[nextFree]) ++nextFree;
                                                            modelId[e.worker] = nextFree < threads ? nextFree : 0; if (nextFree < threads) used[nextFree] = true; } }
        vh::Line tr = vh::I("petrace"); tr.i(threads); for (int t : times) tr.i(t); tr.s("|");
        for (size_t k = 0; k < nEv; ++k) { const Ev& e = g_log[k]; std::string w = e.worker >= 0 ? std::to_string(modelId[e.worker]) : "";
            switch (e.kind) {
            case K_CALL: tr.s("C" + std::to_string(e.round)); break;
            case K_RET: tr.s("R" + std::to_string(e.round)); break;
            case K_INIT: tr.s("i" + w); break;
            case K_EXEC_B: tr.s("b" + w + ":" + std::to_string(e.a)); break;
            case K_EXEC_E: tr.s("e" + w + ":" + std::to_string(e.a)); break;
            case K_FIN_B: tr.s("f" + w); break;
            case K_FIN_E: tr.s("g" + w); break; } }
        tr.s("X");                                  // destructor ran to completion
        tr.emit();
        std::printf("O petrace ok\n");
        vh::D("pe.trace_validated");
    }
}

// ---------------------------------------------------------------------------------------------------------------
struct P2DTask : public Parallel2DExecutor::Task {
    void initialize() override { cbInit(); }
    void finish() override { cbFinish(); }
    void execute(int i, int j) override {
        g_inFlight++; logEv(K_EXEC_B, i, j);
        bool okI = i >= 0 && i < (int)g_busy.size(), okJ = j >= 0 && j < (int)g_busy.size();
        if (okI && ++g_busy[i] > 1) g_shareViolations++;
        if (okJ && j != i && ++g_busy[j] > 1) g_shareViolations++;
        perturb();
        if (g_busy.size() <= 12) std::this_thread::sleep_for(std::chrono::microseconds(20));   // small grids: make overlap observable
        if (okJ && j != i) --g_busy[j];
        if (okI) --g_busy[i];
        logEv(K_EXEC_E, i, j); g_inFlight--;
    }
};

static bool inRange(int rt, int g, int i, int j) {
    if (i < 0 || j < 0 || i >= g || j >= g) return false;
    return rt == 0 ? true : rt == 1 ? j < i : j <= i;
}

static void p2dCase(bool ext, int grid, int np, int rt, uint64_t yseed, long fakeCpus, const char* tag) {
    newCase(yseed, (size_t)(2 * (size_t)grid * grid + 2 * (size_t)grid + 5 * 64 + 64));
    { std::vector<std::atomic<int> > fresh(grid > 0 ? grid : 0); g_busy.swap(fresh); for (auto& b : g_busy) b = 0; }
    g_fakeCpus = fakeCpus;
    int ncpu = ParallelExecutor::getNumProcessors();
    size_t retSeq; int inflightAtReturn;
    { vh::Line in = vh::I("p2d"); in.s(ext ? "ext" : "own").i(grid).i(np).i(rt).i((long long)yseed); if (ext) in.i(ncpu); in.emit(); }
    caseBegin(std::string("p2d.") + (ext ? "ext_ctor" : "own_ctor") + ".no_deadlock");
    Parallel2DExecutor::RangeType R = rt == 0 ? Parallel2DExecutor::FullMatrix : rt == 1 ? Parallel2DExecutor::HalfMatrix
                                                                                     : Parallel2DExecutor::HalfPlusDiagonal;
    {
        P2DTask task;
        if (ext) {
            ParallelExecutor pe(np);
            Parallel2DExecutor ex(grid, pe);
            ex.execute(task, R);
            inflightAtReturn = g_inFlight.load(); retSeq = g_seq.load();
        } else {
            Parallel2DExecutor ex(grid, np);
            ex.execute(task, R);
            inflightAtReturn = g_inFlight.load(); retSeq = g_seq.load();
        }
    }
    g_fakeCpus = 0;
    size_t nEv = std::min(g_seq.load(), g_log.size());
    std::vector<long> codes; std::map<std::pair<int, int>, int> cnt; long onceViol = 0, retViol = inflightAtReturn;
    for (size_t k = 0; k < nEv; ++k) {
        const Ev& e = g_log[k];
        if (k >= retSeq) retViol++;
        if (e.kind == K_EXEC_E) {
            codes.push_back((long)e.a * (grid > 0 ? grid : 1) + e.b); cnt[{e.a, e.b}]++;
            if (!inRange(rt, grid, e.a, e.b)) onceViol++;
        }
    }
    for (int i = 0; i < grid; ++i) for (int j = 0; j < grid; ++j)
        if (inRange(rt, grid, i, j)) { auto it = cnt.find({i, j}); if (it == cnt.end() || it->second != 1) onceViol++; }
    // every worker: initialize before its first execute, finish after its last (here initialize and finish belong to
    // different internal passes, so the rule is per worker over the whole call; finish is required of every worker that ran)
    long orderViol = 0; int ninit = 0, nfin = 0;
    { std::map<int, int> st;
      for (size_t k = 0; k < nEv; ++k) { const Ev& e = g_log[k]; int& s = st[e.worker];
        switch (e.kind) {
        case K_INIT: if (s != 0) orderViol++; s = 1; ninit++; break;
        case K_EXEC_B: case K_EXEC_E: if (s != 1) orderViol++; break;
        case K_FIN_B: if (s != 1) orderViol++; s = 2; nfin++; break;
        case K_FIN_E: if (s != 2) orderViol++; s = 3; break; } }
      for (auto& kv : st) if (kv.second != 3) orderViol++; }
    vh::Line out = vh::O("p2d"); out.i(ninit).i(nfin); emitRuns(out, codes); out.emit();
    std::string key = std::string("p2d.") + (ext ? "ext_ctor" : "own_ctor") + (fakeCpus == 1 ? ".onecpu" : "");
    vh::D(std::string("p2d.") + tag + (ext ? ".ext" : ".own") + ".rt" + std::to_string(rt));
    vh::P("pairs_covered_once", key + ".pairs_once", (double)onceViol, 0);
    vh::P("no_concurrent_shared_index", key + ".shared_index", (double)g_shareViolations.load(), 0);
    vh::P("init_before_finish_after", key + ".order", (double)orderViol, 0);
    vh::P("finish_mutually_exclusive", key + ".finish_overlap", (double)(g_finMax.load() > 1 ? g_finMax.load() - 1 : 0), 0);
    vh::P("execute_returns_after_all", key + ".return", (double)retViol, 0);
    vh::P("log_capacity", "p2d.harness.log", g_seq.load() > g_log.size() ? 1 : 0, 0);
    caseEnd();
}

// optional: the add-only trace hook of notes/C33_trace_hook.patch (weak reference: null when the patch is not applied)
extern "C" { extern void (*SimTK_verif_parallelTraceHook)(const char* where, int a, int b) __attribute__((weak)); }
static std::vector<int> g_planBins; static std::vector<std::vector<std::pair<int,int> > > g_planPasses; static int g_planLastX = 0;
static void planHook(const char* where, int a, int b) {
    std::string w(where);
    if (w == "p2d.binStart") { if ((int)g_planBins.size() <= a) g_planBins.resize(a + 1); g_planBins[a] = b; }
    else if (w == "p2d.square.pass_x") { if ((int)g_planPasses.size() <= a) g_planPasses.resize(a + 1); g_planLastX = b; }
    else if (w == "p2d.square.pass_y") { if ((int)g_planPasses.size() <= a) g_planPasses.resize(a + 1); g_planPasses[a].push_back({g_planLastX, b}); }
}
static void p2dPlanCase(int grid, int np) {
    if (&SimTK_verif_parallelTraceHook == nullptr) return;
    g_planBins.clear(); g_planPasses.clear();
    SimTK_verif_parallelTraceHook = planHook;
    { Parallel2DExecutor ex(grid, np); }
    SimTK_verif_parallelTraceHook = nullptr;
    vh::I("p2dplan").i(grid).i(np).emit();
    { vh::Line o = vh::O("p2dplan"); o.s("bins"); for (int b : g_planBins) o.i(b); o.emit(); }
    for (size_t p = 0; p < g_planPasses.size(); ++p) {
        if (g_planPasses[p].empty()) continue;                       // empty passes (the last one always is) are not listed
        vh::Line o = vh::O("p2dplan"); o.s("pass").i((long long)p);
        for (auto& sq : g_planPasses[p]) o.s(std::to_string(sq.first) + ":" + std::to_string(sq.second));
        o.emit();
    }
    vh::D("p2d.partition_compared_via_hook");
}

// ---------------------------------------------------------------------------------------------------------------
static std::vector<std::atomic<int> > g_execCount(0), g_delCount(0);
static std::atomic<long> g_completed{0};
struct WQTask : public ParallelWorkQueue::Task {
    int id;
    explicit WQTask(int id) : id(id) {}
    ~WQTask() override { g_delCount[id]++; }
    void execute() override { perturb(); g_execCount[id]++; perturb(); g_completed++; }
};

static void wqCase(int queueSize, int threads, uint64_t yseed, const std::vector<std::string>& ops, const char* tag) {
    long total = 0;
    for (auto& o : ops) if (o[0] == 'a') total += std::atol(o.c_str() + 1);
    newCase(yseed, 16);
    { std::vector<std::atomic<int> > a(total), b(total); g_execCount.swap(a); g_delCount.swap(b);
      for (auto& x : g_execCount) x = 0; for (auto& x : g_delCount) x = 0; }
    g_completed = 0;
    std::vector<long> atFlush; long added = 0, flushViol = 0;
    { vh::Line in = vh::I("wq"); in.i(queueSize).i(threads).i((long long)yseed); for (auto& o : ops) in.s(o); in.emit(); }
    caseBegin("wq.no_deadlock");
    {
        ParallelWorkQueue q(queueSize, threads);
        for (auto& o : ops) {
            if (o[0] == 'a') { long k = std::atol(o.c_str() + 1); for (long t = 0; t < k; ++t) q.addTask(new WQTask((int)added++)); }
            else if (o[0] == 'f') {
                q.flush();
                long c = g_completed.load(); atFlush.push_back(c); flushViol += added - c;
                for (long t = 0; t < added; ++t) if (g_delCount[t].load() != 1) flushViol++;
            }
        }
    }   // destructor: must complete the pending work
    long execViol = 0, delViol = 0, nexec = 0, ndel = 0;
    for (long t = 0; t < total; ++t) {
        nexec += g_execCount[t]; ndel += g_delCount[t];
        if (g_execCount[t] != 1) execViol++;
        if (g_delCount[t] != 1) delViol++;
    }
    vh::Line out = vh::O("wq"); out.i(nexec).i(ndel); for (long c : atFlush) out.i(c); out.emit();
    vh::D(std::string("wq.") + tag + ".threads" + std::to_string(threads));
    vh::P("task_executed_once", "wq.task.executed_once", (double)execViol, 0);
    vh::P("task_deleted_once", "wq.task.deleted_once", (double)delViol, 0);
    vh::P("flush_waits_for_all_prior", "wq.flush.prior_done", (double)flushViol, 0);
    vh::P("destructor_drains", "wq.dtor.drains", (double)(total - g_completed.load()), 0);
    caseEnd();
}

// ---------------------------------------------------------------------------------------------------------------
static void replay() {
    char* buf = new char[1 << 20];
    while (std::fgets(buf, 1 << 20, stdin)) {
        std::istringstream is(buf); std::string k, fn; is >> k >> fn;
        if (k != "I") continue;
        std::vector<std::string> t; std::string x; while (is >> x) t.push_back(x);
        if (fn == "pe" && t.size() >= 2) {
            std::vector<int> times; for (size_t q = 2; q < t.size(); ++q) times.push_back(std::atoi(t[q].c_str()));
            peCase(std::atoi(t[0].c_str()), std::strtoull(t[1].c_str(), nullptr, 10), times, "replay");
        } else if (fn == "p2d" && t.size() >= 5) {
            bool ext = t[0] == "ext";
            long fake = 0;
            if (ext && t.size() >= 6) { long want = std::atol(t[5].c_str()); g_fakeCpus = 0;
                                        if (want != ParallelExecutor::getNumProcessors()) fake = want; }
            p2dCase(ext, std::atoi(t[1].c_str()), std::atoi(t[2].c_str()), std::atoi(t[3].c_str()),
                    std::strtoull(t[4].c_str(), nullptr, 10), fake, "replay");
        } else if (fn == "p2dplan" && t.size() >= 2) {
            p2dPlanCase(std::atoi(t[0].c_str()), std::atoi(t[1].c_str()));
        } else if (fn == "wq" && t.size() >= 3) {
            std::vector<std::string> ops(t.begin() + 3, t.end());
            wqCase(std::atoi(t[0].c_str()), std::atoi(t[1].c_str()), std::strtoull(t[2].c_str(), nullptr, 10), ops, "replay");
        }
    }
}

int main(int argc, char** argv) {
    vh::Args args(argc, argv);
    std::thread(watchdog).detach();
    if (args.mode == "replay") { replay(); return 0; }
    vh::Rng g(args.seed * 7919 + 33);
    static const int TH[] = {1, 2, 3, 4, 8, 16};
    if (args.mode == "onecpu") {
        // Parallel2DExecutor(grid, ParallelExecutor&) on a machine that reports one processor
        for (long k = 0; k < std::max<long>(4, args.n / 50); ++k)
            p2dCase(true, 1 + g.below(24), 2 + g.below(3), g.below(3), g.next() % 1000000, 1, "onecpu");
        return 0;
    }
    for (long k = 0; k < args.n; ++k) {
        int stream = g.below(20);
        uint64_t ys = g.next() % 1000000;
        int th = TH[g.below(5)];                                   // 1..8 threads
        if (stream == 0) th = g.below(6) == 0 ? 32 : 16;           // small dedicated 16/32-thread stream (all three executors)
        if (stream == 8 && g.coin()) th = 16;
        if (stream == 15 && g.coin()) th = 16;
        if (stream <= 7) {                                         // ParallelExecutor
            int rounds = 1 + g.below(3);
            std::vector<int> times;
            for (int r = 0; r < rounds; ++r) {
                int c = g.below(10);
                times.push_back(c == 0 ? 0 : c == 1 ? g.below(th + 2) : c == 2 ? (args.n > 1000 && g.below(8) == 0 ? 5000 + g.below(5001) : 1000 + g.below(1001)) : g.below(200));
            }
            if (th == 32) for (int& t : times) t = t % 300;            // 32 threads: short runs only
            peCase(th, ys, times, stream == 0 ? "t16" : "mix");
        } else if (stream <= 14) {                                 // Parallel2DExecutor
            int c = g.below(8);
            int grid = c == 0 ? g.below(4) : c == 1 ? (g.below(4) == 0 ? 128 : 64) : c == 2 ? 1 + g.below(12) : g.below(65);
            int rt = g.below(3);
            if (g.below(3) == 0) p2dCase(true, grid, th, rt, ys, 0, "mix");
            else { int np = g.coin() ? th : 1 + g.below(40); p2dCase(false, grid, np, rt, ys, 0, "mix"); p2dPlanCase(grid, np); }
        } else {                                                   // ParallelWorkQueue, one producer
            int qs = 1 + g.below(g.coin() ? 4 : 64);
            int nops = 1 + g.below(6);
            std::vector<std::string> ops;
            for (int o = 0; o < nops; ++o) {
                if (g.below(3) == 0) ops.push_back("f");
                else ops.push_back("a" + std::to_string(g.below(g.coin() ? 8 : 120)));
            }
            wqCase(qs, th, ys, ops, "mix");
        }
    }
    return 0;
}
