// Shared helpers of every correspondence harness (see DESIGN.md §2.3).
//  * all random choices derive from one SplitMix64 state seeded by argv (VERIF_SEED);
//  * doubles are printed as 16-hex-digit bit patterns;
//  * records:  I <fn> <tok>...   input (answered by the Lean driver)
//              O <fn> <tok>...   what the implementation returned for the preceding I
//              P <pred> <key> <value> <bound>   property predicate evaluated on the implementation's own
//                                               outputs for the preceding I: holds iff value <= bound
//              D <tag>           code path / distribution tag of the preceding I (counted into the evidence)
#ifndef VERIF_HCOMMON_H
#define VERIF_HCOMMON_H
#include <cstdint>
#include <cstdio>
#include <cstdlib>
#include <cstring>
#include <cmath>
#include <string>
#include <vector>
#include <sstream>

namespace vh {

struct Rng {
    uint64_t s;
    explicit Rng(uint64_t seed) : s(seed) {}
    uint64_t next() {
        s += 0x9E3779B97F4A7C15ull;
        uint64_t z = s;
        z = (z ^ (z >> 30)) * 0xBF58476D1CE4E5B9ull;
        z = (z ^ (z >> 27)) * 0x94D049BB133111EBull;
        return z ^ (z >> 31);
    }
    int below(int n) { return (int)(next() % (uint64_t)(n <= 0 ? 1 : n)); }
    bool coin() { return next() & 1; }
    double unit() { return (double)(next() >> 11) * (1.0 / 9007199254740992.0); }   // [0,1)
    double range(double a, double b) { return a + (b - a) * unit(); }
    // well-scaled magnitude in [lo,hi] with random sign
    double signedMag(double lo, double hi) { double m = range(lo, hi); return coin() ? m : -m; }
    // small integers as doubles (exact arithmetic)
    double smallInt(int lo, int hi) { return (double)(lo + below(hi - lo + 1)); }
};

inline std::string hex(double x) {
    uint64_t u; std::memcpy(&u, &x, 8);
    char buf[17]; std::snprintf(buf, sizeof buf, "%016llx", (unsigned long long)u);
    return std::string(buf);
}
inline double unhex(const std::string& s) {
    uint64_t u = std::strtoull(s.c_str(), nullptr, 16);
    double x; std::memcpy(&x, &u, 8); return x;
}

struct Line {
    std::ostringstream os;
    explicit Line(const char* kind, const std::string& fn) { os << kind << ' ' << fn; }
    Line& d(double x) { os << ' ' << hex(x); return *this; }
    Line& i(long long x) { os << ' ' << x; return *this; }
    Line& s(const std::string& t) { os << ' ' << t; return *this; }
    template <class V> Line& v(const V& vec, int n) { for (int k = 0; k < n; ++k) d((double)vec[k]); return *this; }
    void emit() { std::puts(os.str().c_str()); }
};
inline Line I(const std::string& fn) { return Line("I", fn); }
inline Line O(const std::string& fn) { return Line("O", fn); }
inline void D(const std::string& tag) { std::printf("D %s\n", tag.c_str()); }
// predicate on the implementation's own outputs: holds iff value <= bound (NaN value fails)
inline void P(const std::string& pred, const std::string& key, double value, double bound) {
    std::printf("P %s %s %.17g %.17g\n", pred.c_str(), key.c_str(), value, bound);
}

struct Args {
    uint64_t seed = 1; long n = 100; std::string mode; std::vector<std::string> rest;
    Args(int argc, char** argv) {
        for (int k = 1; k < argc; ++k) {
            std::string a = argv[k];
            if (a == "--seed" && k + 1 < argc) seed = std::strtoull(argv[++k], nullptr, 10);
            else if (a == "--n" && k + 1 < argc) n = std::strtol(argv[++k], nullptr, 10);
            else if (a == "--mode" && k + 1 < argc) mode = argv[++k];
            else rest.push_back(a);
        }
    }
};

} // namespace vh
#endif
