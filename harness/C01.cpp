// C01 correspondence harness: mass-matrix operators of random trees (public API only).
//   I tree <caseSeed> <maxBodies> <full> <tree export> v[nu] f[nu] u[nu]
//   O mulM    M v            (multiplyByM)
//   O mulMInv M^-1 f         (multiplyByMInv)
//   O ke      KE             (calcKineticEnergy, state speeds u)
//   O abi     per body: M(6) J(6) F(9) of getArticulatedBodyInertia
//   O wf 1                   (model side: 1 iff every D*DI is the identity to 1e-8 -- the WF hypothesis of the theorems)
//   O calcM / O calcMInv     column major (only when full==1)
// P lines: the property's predicates evaluated on the implementation's own outputs.
#include "treedyn_gen.h"
static_assert(TREEDYN_GEN_VERSION == 12, "bump the version here when treedyn_gen.h changes");
using namespace SimTK;
using td::TreeCase;

static void runCase(uint64_t caseSeed, int code) {
    td::Options opt; td::applyGenCode(code, opt);
    std::unique_ptr<TreeCase> pc = td::buildCase(caseSeed, opt);
    TreeCase& c = *pc; const State& s = c.state; const SimbodyMatterSubsystem& matter = *c.matter;
    const int nu = c.nu, nb = c.nb;
    const bool full = nu <= 40 || c.g.below(8) == 0;
    const Vector v = td::rvector(c.g, nu), f = td::rvector(c.g, nu);
    const Vector u = s.getU();

    vh::Line in = vh::I("tree"); in.s(std::to_string(caseSeed)).i(code).i(full ? 1 : 0);
    td::exportTree(c, in); in.v(v, nu).v(f, nu).v(u, nu); in.emit();
    // comparison tolerance of this family: M^-1 amplifies rounding by cond(M); measured worst model/implementation difference
    // 1.4e-10 (one ill-conditioned 10-body case among 20000, second worst 4e-11), so rtol 1e-8 instead of the default 1e-9
    std::printf("T 1e-8 1e-11\n");

    Vector Mv, MIf;
    matter.multiplyByM(s, v, Mv); matter.multiplyByMInv(s, f, MIf);
    const Real ke = matter.calcKineticEnergy(s);
    vh::O("mulM").v(Mv, nu).emit();
    vh::O("mulMInv").v(MIf, nu).emit();
    vh::O("ke").d(ke).emit();
    {
        vh::Line o = vh::O("abi");
        for (int i = 1; i <= nb; ++i) {
            const ArticulatedInertia& P = matter.getArticulatedBodyInertia(s, c.mobods[i].getMobilizedBodyIndex());
            const SymMat33& M = P.getMass(); const SymMat33& J = P.getInertia(); const Mat33& F = P.getMassMoment();
            o.d(M(0, 0)).d(M(1, 1)).d(M(2, 2)).d(M(1, 0)).d(M(2, 0)).d(M(2, 1));
            o.d(J(0, 0)).d(J(1, 1)).d(J(2, 2)).d(J(1, 0)).d(J(2, 0)).d(J(2, 1));
            for (int r = 0; r < 3; ++r) for (int q = 0; q < 3; ++q) o.d(F(r, q));
        }
        o.emit();
    }
    std::printf("O wf 1\n");
    Matrix M, MInv;
    if (full) {
        matter.calcM(s, M); matter.calcMInv(s, MInv);
        vh::Line o1 = vh::O("calcM"), o2 = vh::O("calcMInv");
        for (int j = 0; j < nu; ++j) for (int i = 0; i < nu; ++i) { o1.d(M(i, j)); o2.d(MInv(i, j)); }
        o1.emit(); o2.emit();
    }
    td::emitTags(c);
    vh::D(full ? "full" : "ops-only");

    // ---- predicates on the implementation's own outputs
    // cases containing a body served by the special lone-particle node class get their own key prefix
    const std::string key = td::anyLoneParticle(c) ? "C01.loneparticle" : "C01.tree";
    if (nu == 0) return;
    if (td::hasReversedLineQuat(c)) vh::D("fd.skipped.reversedLine.quaternion");
    else {   // from-q validation of the exported hinge columns: J e_i (recursion over getHCol / Phi) against central differences of the
        // body poses along qdot = N e_i  -- this is what makes the (type x direction x frames x option) classes matter here
        const int ncol = std::min(nu, 8);
        double worst = 0;
        for (int kcol = 0; kcol < ncol; ++kcol) {
            const int i = nu <= 8 ? kcol : c.g.below(nu);
            Vector e(nu); e = 0; e[i] = 1;
            Vector_<SpatialVec> Je; matter.multiplyBySystemJacobian(s, e, Je);
            std::vector<SpatialVec> Vfd; td::fdBodyVelocities(c, e, 1e-5, Vfd);
            for (int b = 1; b <= nb; ++b) {
                double sc = 1; for (int r = 0; r < 2; ++r) for (int q = 0; q < 3; ++q) sc = std::max(sc, std::fabs(Je[b][r][q]));
                for (int r = 0; r < 2; ++r) for (int q = 0; q < 3; ++q) worst = std::max(worst, std::fabs(Je[b][r][q] - Vfd[b][r][q]) / sc);
            }
        }
        vh::P("hinge_columns_match_finite_differences_of_pose", key + ".hcol_fd", worst, 1e-6);
        // KE from finite-difference body velocities (no H involved) = calcKineticEnergy
        std::vector<SpatialVec> Vu; td::fdBodyVelocities(c, u, 1e-5, Vu);
        double kefd = 0;
        for (int b = 1; b <= nb; ++b) { const SpatialVec MV = c.mobods[b].getBodySpatialInertiaInGround(s) * Vu[b]; kefd += 0.5 * (~Vu[b][0] * MV[0] + ~Vu[b][1] * MV[1]); }
        vh::P("ke_from_finite_difference_velocities", key + ".ke_fd", std::fabs(kefd - ke) / std::max(1.0, std::fabs(ke)), 1e-6);
    }
    const double eps = 2.220446049250313e-16;
    {   // M (M^-1 f) = f  and  M^-1 (M v) = v
        Vector t1, t2; matter.multiplyByM(s, MIf, t1); matter.multiplyByMInv(s, Mv, t2);
        vh::P("M_MInv_identity", key + ".mulM_mulMInv", td::vmaxabs(t1 - f) / std::max(td::vmaxabs(f), 1e-300), 1e-6);
        vh::P("MInv_M_identity", key + ".mulMInv_mulM", td::vmaxabs(t2 - v) / std::max(td::vmaxabs(v), 1e-300), 1e-6);
    }
    {   // v' M v > 0  (value = -v'Mv / (|v|^2 max|Mv|/|v|) must be clearly negative)
        const double vMv = ~v * Mv, vv = ~v * v;
        vh::P("posdef_vMv", key + ".posdef", -vMv / (vv > 0 ? vv : 1), -1e-10);
        // KE = 1/2 u' M u
        Vector Mu; matter.multiplyByM(s, u, Mu);
        const double half = 0.5 * (~u * Mu);
        vh::P("ke_half_uMu", key + ".ke", std::fabs(ke - half) / std::max(std::fabs(ke), 1e-300) * (ke == 0 && half == 0 ? 0 : 1), 1e-9);
        vh::P("ke_nonneg", key + ".ke_nonneg", -ke, 0);
    }
    if (full) {
        double mmax = 0, asym = 0, colerr = 0, iderr = 0, mverr = 0;
        for (int i = 0; i < nu; ++i) for (int j = 0; j < nu; ++j) { mmax = std::max(mmax, std::fabs(M(i, j))); asym = std::max(asym, std::fabs(M(i, j) - M(j, i))); }
        vh::P("calcM_symmetric", key + ".symm", asym / mmax, 1e-10);
        double imax = 0, iasym = 0;
        for (int i = 0; i < nu; ++i) for (int j = 0; j < nu; ++j) { imax = std::max(imax, std::fabs(MInv(i, j))); iasym = std::max(iasym, std::fabs(MInv(i, j) - MInv(j, i))); }
        vh::P("calcMInv_symmetric", key + ".symmInv", iasym / imax, 1e-7);
        // calcM e_i = multiplyByM(e_i) (a few columns), calcM v = multiplyByM(v)
        Vector e(nu); e = 0;
        for (int k = 0; k < std::min(nu, 4); ++k) {
            const int i = c.g.below(nu); e[i] = 1; Vector col; matter.multiplyByM(s, e, col); e[i] = 0;
            for (int r = 0; r < nu; ++r) colerr = std::max(colerr, std::fabs(col[r] - M(r, i)));
            Vector coli; e[i] = 1; matter.multiplyByMInv(s, e, coli); e[i] = 0;
            for (int r = 0; r < nu; ++r) colerr = std::max(colerr, std::fabs(coli[r] - MInv(r, i)) / imax * mmax);
        }
        vh::P("calcM_columns", key + ".columns", colerr / mmax, 1e-12);
        const Vector Mv2 = M * v;
        mverr = td::vmaxabs(Mv2 - Mv) / std::max(td::vmaxabs(Mv), 1e-300);
        vh::P("calcM_times_v", key + ".Mv", mverr, 1e-10);
        const Matrix Id = MInv * M;
        for (int i = 0; i < nu; ++i) for (int j = 0; j < nu; ++j) iderr = std::max(iderr, std::fabs(Id(i, j) - (i == j ? 1.0 : 0.0)));
        vh::P("calcMInv_calcM_identity", key + ".MInvM", iderr, 1e-6);
        // positive definiteness of the explicit matrix: Cholesky pivots all > 0
        std::vector<std::vector<double> > L(nu, std::vector<double>(nu, 0.0));
        double minPivot = INFINITY;
        for (int j = 0; j < nu && minPivot > 0; ++j) {
            double d = M(j, j); for (int k = 0; k < j; ++k) d -= L[j][k] * L[j][k];
            minPivot = std::min(minPivot, d / mmax);
            if (d <= 0) break;
            L[j][j] = std::sqrt(d);
            for (int i = j + 1; i < nu; ++i) { double x = M(i, j); for (int k = 0; k < j; ++k) x -= L[i][k] * L[j][k]; L[i][j] = x / L[j][j]; }
        }
        vh::P("calcM_cholesky_pivots_positive", key + ".chol", -minPivot, -1e-13);
    }
    (void)eps;
}

int main(int argc, char** argv) {
    vh::Args args(argc, argv);
    if (args.mode == "replay") {
        static char buf[1 << 24];
        while (std::fgets(buf, sizeof buf, stdin)) {
            if (std::strncmp(buf, "I tree ", 7) != 0) continue;
            unsigned long long cs; int code;
            if (std::sscanf(buf + 7, "%llu %d", &cs, &code) == 2) runCase(cs, code);
        }
        return 0;
    }
    vh::Rng master(args.seed * 1000003ull + 101);
    const bool thorough = args.n > 2000;
    for (long k = 0; k < args.n; ++k) {
        const uint64_t cs = master.next() >> 1;
        int maxB = 12;
        if (thorough && master.below(5) == 0) maxB = 40;
        runCase(cs, td::genCode(maxB, td::flagsForCase(k)));
    }
    return 0;
}
