#include "Simbody.h"
#include <iostream>
using namespace SimTK;
// two balls penetrating a half-space; ball A separating fast (f<=0), ball B at rest.
static Vector_<SpatialVec> run(bool fastFirst){
  MultibodySystem sys; SimbodyMatterSubsystem m(sys); GeneralForceSubsystem forces(sys);
  GeneralContactSubsystem contacts(sys); ContactSetIndex set = contacts.createContactSet();
  HuntCrossleyForce hc(forces, contacts, set);
  Body::Rigid ball(MassProperties(1,Vec3(0),Inertia(1)));
  MobilizedBody::Free b1(m.Ground(),Transform(),ball,Transform());
  MobilizedBody::Free b2(m.Ground(),Transform(),ball,Transform());
  // half space: x>0 is inside by default; rotate so that y<0 is inside
  Rotation R(-Pi/2, ZAxis);
  contacts.addBody(set, m.Ground(), ContactGeometry::HalfSpace(), Transform(R,Vec3(0)));
  contacts.addBody(set, b1, ContactGeometry::Sphere(1.0), Transform());
  contacts.addBody(set, b2, ContactGeometry::Sphere(1.0), Transform());
  hc.setBodyParameters(ContactSurfaceIndex(0), 1e4, 1.0, 0,0,0);
  hc.setBodyParameters(ContactSurfaceIndex(1), 1e4, 1.0, 0,0,0);
  hc.setBodyParameters(ContactSurfaceIndex(2), 1e4, 1.0, 0,0,0);
  State s = sys.realizeTopology(); sys.realizeModel(s);
  b1.setQToFitTranslation(s, Vec3(0,0.9,0)); b2.setQToFitTranslation(s, Vec3(5,0.9,0));
  (fastFirst? b1:b2).setUToFitLinearVelocity(s, Vec3(0,10,0)); // separating fast
  sys.realize(s,Stage::Dynamics);
  return sys.getRigidBodyForces(s,Stage::Dynamics);
}
int main(){ std::cout<<"fast=b1: "<<run(true)<<"\nfast=b2: "<<run(false)<<"\n"; }
