#include "SimTKcommon.h"
#include <iostream>
#include <sstream>
using namespace SimTK;
int main(){
  std::string line; State s; int nsub=0; long mism=0, n=0;
  std::vector<int> ncache;
  while (std::getline(std::cin,line)) {
    std::istringstream is(line); std::string op; is>>op;
    if (op=="subs") { is>>nsub; s.setNumSubsystems(nsub); ncache.assign(nsub,0); continue; }
    auto pos=line.find("=>"); std::string expect=line.substr(pos+3);
    int a,b,c;
    if (op=="advSub"){ is>>a>>b; s.advanceSubsystemToStage(SubsystemIndex(a),Stage(b)); }
    else if (op=="advSys"){ is>>a; s.advanceSystemToStage(Stage(a)); }
    else if (op=="inval"){ is>>a; s.invalidateAll(Stage(a)); }
    else if (op=="alloc"){ is>>a>>b>>c; s.allocateCacheEntry(SubsystemIndex(a),Stage(b),Stage(c),new Value<int>(0)); }
    else if (op=="mark"){ is>>a>>b; s.markCacheValueRealized(SubsystemIndex(a),CacheEntryIndex(b)); }
    else if (op=="unmark"){ is>>a>>b; s.markCacheValueNotRealized(SubsystemIndex(a),CacheEntryIndex(b)); }
    // count entries per subsystem from the expectation (no public count accessor)
    std::ostringstream os; os<<(int)s.getSystemStage()<<" | ";
    std::istringstream es(expect.substr(expect.find('|')+1)); std::string seg; int i=0;
    std::vector<std::string> segs; while(std::getline(es,seg,';')) segs.push_back(seg);
    for (int k=0;k<nsub;k++){ 
      std::string sg = k<(int)segs.size()?segs[k]:""; auto cp=sg.find(':'); std::string flags = cp==std::string::npos?"":sg.substr(cp+1);
      int cnt=0; for(char ch:flags) if(ch=='0'||ch=='1') cnt++;
      os<<(int)s.getSubsystemStage(SubsystemIndex(k))<<":";
      for(int e=0;e<cnt;e++){ if(e) os<<","; os<<(s.isCacheValueRealized(SubsystemIndex(k),CacheEntryIndex(e))?"1":"0"); }
      if (k+1<nsub) os<<" ; ";
    }
    std::string got=os.str();
    // normalise spaces
    auto norm=[](std::string x){ std::string y; for(char ch:x) if(ch!=' ') y+=ch; return y; };
    n++; if (norm(got)!=norm(expect)) { mism++; if (mism<5) std::cout<<"MISMATCH at op "<<n<<": "<<line<<"\n   impl: "<<got<<"\n"; }
  }
  std::cout<<"ops="<<n<<" mismatches="<<mism<<"\n";
}
