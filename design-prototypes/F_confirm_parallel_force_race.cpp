#include "Simbody.h"
#include <iostream>
using namespace SimTK;
// Non-parallel, velocity-dependent: many small increments on mobility force 0 (thread 0 writes shared array directly in cached modes)
struct Slow : Force::Custom::Implementation {
  int n; Slow(int n):n(n){}
  void calcForce(const State&, Vector_<SpatialVec>&, Vector_<Vec3>&, Vector& mob) const override {
    for (int i=0;i<n;i++) { volatile double one=1.0; mob[0] += one; } }
  Real calcPotentialEnergy(const State&) const override {return 0;}
  bool dependsOnlyOnPositions() const override {return false;}
};
// Parallel force: adds 1000 to mobility force 0
struct Par : Force::Custom::Implementation {
  void calcForce(const State&, Vector_<SpatialVec>&, Vector_<Vec3>&, Vector& mob) const override { mob[0] += 1000.0; }
  Real calcPotentialEnergy(const State&) const override {return 0;}
  bool shouldBeParallelIfPossible() const override {return true;}
};
// position-only force to switch the subsystem into caching modes
struct PosOnly : Force::Custom::Implementation {
  void calcForce(const State&, Vector_<SpatialVec>&, Vector_<Vec3>&, Vector& mob) const override { mob[0] += 0.5; }
  Real calcPotentialEnergy(const State&) const override {return 0;}
  bool dependsOnlyOnPositions() const override {return true;}
};
int main(int argc,char**argv){
  int n=2000000, npar=6, threads= argc>1?atoi(argv[1]):8;
  MultibodySystem sys; SimbodyMatterSubsystem m(sys); GeneralForceSubsystem f(sys);
  MobilizedBody::Pin pin(m.Ground(),Transform(),Body::Rigid(MassProperties(1,Vec3(0,-1,0),Inertia(1))),Transform());
  Force::Custom(f,new Slow(n)); for(int i=0;i<npar;i++) Force::Custom(f,new Par()); Force::Custom(f,new PosOnly());
  f.setNumberOfThreads(threads);
  State s=sys.realizeTopology(); sys.realizeModel(s);
  double expect = n + 1000.0*npar + 0.5; int bad=0;
  for (int rep=0; rep<20; rep++){
    pin.setOneU(s,0,0.1*rep);               // invalidates Velocity stage only -> NonCached mode after first time
    sys.realize(s,Stage::Dynamics);
    double got = sys.getMobilityForces(s,Stage::Dynamics)[0];
    if (got!=expect){ bad++; if(bad<4) std::cout<<"rep "<<rep<<": total="<<std::setprecision(12)<<got<<" expected "<<expect<<" (lost "<<expect-got<<")\n"; }
  }
  std::cout<<"threads="<<threads<<" bad="<<bad<<"/20\n";
}
