#include "SimTKcommon.h"
#include <iostream>
#include <string>
using namespace SimTK;
int main(){
  Array_<std::string> a;
  a.push_back(std::string(40,'x')); a.push_back(std::string(40,'y')); a.shrink_to_fit();
  while (a.size() < a.capacity()) a.push_back(std::string(40,'z'));
  std::cout<<"size="<<a.size()<<" cap="<<a.capacity()<<"\n";
  a.push_back(a[0]);            // aliasing + reallocation
  std::cout<<"last="<<a.back().substr(0,5)<<" expect xxxxx\n";
  Array_<std::string> b; for(int i=0;i<4;i++) b.push_back(std::string(40,'a'+i)); b.reserve(16);
  b.insert(b.begin(), b[2]);    // aliasing, no reallocation: b[2] is moved-from before copy
  std::cout<<"front="<<b.front().substr(0,5)<<" expect ccccc\n";
}
