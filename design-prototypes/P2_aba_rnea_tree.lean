import Mathlib.LinearAlgebra.Matrix.NonsingularInverse
import Mathlib.Data.Matrix.Mul
import Mathlib.Tactic.Ring
import Mathlib.Tactic.Abel
import Mathlib.Tactic.NoncommRing

open Matrix

variable {K : Type} [Field K] {ι : Type} [Fintype ι] [DecidableEq ι]

/-- One mobilized body: hinge matrix, shift, spatial inertia, applied forces. -/
structure Bd (K : Type) (ι : Type) where
  d   : ℕ
  H   : Matrix ι (Fin d) K
  phi : Matrix ι ι K
  M   : Matrix ι ι K
  f   : Fin d → K
  F   : ι → K
  DI  : Matrix (Fin d) (Fin d) K   -- claimed inverse of D (checked by hypothesis)

inductive MBT (K : Type) (ι : Type) where
  | mk (n : Bd K ι) (cs : List (MBT K ι)) : MBT K ι

namespace MBT

def bd : MBT K ι → Bd K ι | mk n _ => n
def kids : MBT K ι → List (MBT K ι) | mk _ cs => cs

mutual
/-- articulated body inertia P of subtree root -/
def P : MBT K ι → Matrix ι ι K
  | mk n cs => n.M + Pkids cs
def Pkids : List (MBT K ι) → Matrix ι ι K
  | [] => 0
  | c :: cs =>
      (bd c).phi * (P c - P c * (bd c).H * (bd c).DI * (bd c).Hᵀ * P c) * (bd c).phiᵀ + Pkids cs
end

end MBT

namespace MBT

/-- Bias data (coriolis accel `a`, gyroscopic force `b`) are folded into `F` and a
separate accel bias. For this prototype: A = A⁺ + H u + a, z includes P a. -/
structure Bias (K ι : Type) where
  a : ι → K

variable (abias : Bd K ι → ι → K)  -- coriolis acceleration per body

/-- PPlus: inertia felt through the joint -/
def PP (t : MBT K ι) : Matrix ι ι K :=
  P t - P t * (bd t).H * (bd t).DI * (bd t).Hᵀ * P t

def G (t : MBT K ι) : Matrix ι (Fin (bd t).d) K := P t * (bd t).H * (bd t).DI

mutual
def z : MBT K ι → ι → K
  | mk n cs => (P (mk n cs)) *ᵥ (abias n) - n.F + zkids cs
def zkids : List (MBT K ι) → ι → K
  | [] => 0
  | c :: cs =>
      (bd c).phi *ᵥ (z c + G c *ᵥ ((bd c).f - (bd c).Hᵀ *ᵥ z c)) + zkids cs
end

def eps (t : MBT K ι) : Fin (bd t).d → K := (bd t).f - (bd t).Hᵀ *ᵥ z abias t
def zP (t : MBT K ι) : ι → K := z abias t + G t *ᵥ eps abias t

/-- ABA outward: joint acceleration given inboard-shifted parent acceleration -/
def udot (t : MBT K ι) (Ap : ι → K) : Fin (bd t).d → K :=
  (bd t).DI *ᵥ eps abias t - (G t)ᵀ *ᵥ Ap
def acc (t : MBT K ι) (Ap : ι → K) : ι → K :=
  Ap + (bd t).H *ᵥ udot abias t Ap + abias (bd t)

mutual
/-- RNEA force through the inboard joint of `t`, given A⁺, using ABA's udot. -/
def Fr : MBT K ι → (ι → K) → ι → K
  | mk n cs, Ap =>
      n.M *ᵥ (acc abias (mk n cs) Ap) - n.F + Frkids cs (acc abias (mk n cs) Ap)
def Frkids : List (MBT K ι) → (ι → K) → ι → K
  | [], _ => 0
  | c :: cs, A => (bd c).phi *ᵥ Fr c ((bd c).phiᵀ *ᵥ A) + Frkids cs A
end

/-- well-formedness: symmetric inertias and DI really inverts D, everywhere -/
inductive WF : MBT K ι → Prop
  | mk (n : Bd K ι) (cs : List (MBT K ι))
      (hM : n.Mᵀ = n.M)
      (hcs : ∀ c ∈ cs, WF c)
      (hD1 : (n.Hᵀ * P (mk n cs) * n.H) * n.DI = 1)
      (hD2 : n.DI * (n.Hᵀ * P (mk n cs) * n.H) = 1) : WF (mk n cs)

end MBT


theorem inv_symm_of_symm {n : Type} [Fintype n] [DecidableEq n] (D DI : Matrix n n K)
    (hs : Dᵀ = D) (h : D * DI = 1) : DIᵀ = DI := by
  have h1 : DI = D⁻¹ := (Matrix.inv_eq_right_inv h).symm
  rw [h1, Matrix.transpose_nonsing_inv, hs]

namespace MBT
variable (abias : Bd K ι → ι → K)

mutual
theorem P_symm : ∀ (t : MBT K ι), WF t → (P t)ᵀ = P t
  | mk n cs, h => by
      cases h with
      | mk _ _ hM hcs hD1 hD2 =>
        simp only [P, transpose_add, hM, Pkids_symm cs hcs]
theorem Pkids_symm : ∀ (cs : List (MBT K ι)), (∀ c ∈ cs, WF c) → (Pkids cs)ᵀ = Pkids cs
  | [], _ => by simp [Pkids]
  | c :: cs, h => by
      have hc : WF c := h c (by simp)
      have hcs : ∀ c' ∈ cs, WF c' := fun c' hc' => h c' (by simp [hc'])
      have hP := P_symm c hc
      have hDI : ((bd c).DI)ᵀ = (bd c).DI := by
        cases c with
        | mk n cs' =>
          cases hc with
          | mk _ _ hM hcs' hD1 hD2 =>
            simp only [bd] at *
            refine inv_symm_of_symm _ _ ?_ hD1
            simp [transpose_mul, hP, Matrix.mul_assoc]
      simp only [Pkids, transpose_add, transpose_mul, transpose_sub, transpose_transpose,
        Pkids_symm cs hcs, hP, hDI, Matrix.mul_assoc]
end

end MBT

section local_algebra
variable {d : ℕ} (P : Matrix ι ι K) (H : Matrix ι (Fin d) K) (DI : Matrix (Fin d) (Fin d) K)

theorem node_step (hP : Pᵀ = P) (hDI : DIᵀ = DI) (z Ap : ι → K) (f : Fin d → K) :
    P *ᵥ (Ap + H *ᵥ (DI *ᵥ (f - Hᵀ *ᵥ z) - (P * H * DI)ᵀ *ᵥ Ap)) + z
      = (P - P * H * DI * Hᵀ * P) *ᵥ Ap + (z + (P * H * DI) *ᵥ (f - Hᵀ *ᵥ z)) := by
  simp only [transpose_mul, hP, hDI, mulVec_add, mulVec_sub, mulVec_mulVec, sub_mulVec,
    Matrix.mul_assoc]
  abel

theorem node_residual (hD1 : (Hᵀ * P * H) * DI = 1) (z Ap : ι → K) (f : Fin d → K) :
    Hᵀ *ᵥ ((P - P * H * DI * Hᵀ * P) *ᵥ Ap + (z + (P * H * DI) *ᵥ (f - Hᵀ *ᵥ z))) = f := by
  have h1 : Hᵀ * (P - P * H * DI * Hᵀ * P) = 0 := by
    have : Hᵀ * (P * H * DI * Hᵀ * P) = ((Hᵀ * P * H) * DI) * (Hᵀ * P) := by
      simp only [Matrix.mul_assoc]
    rw [Matrix.mul_sub, this, hD1, Matrix.one_mul, sub_self]
  have h2 : Hᵀ * (P * H * DI) = 1 := by
    rw [← hD1]; simp only [Matrix.mul_assoc]
  rw [mulVec_add, mulVec_add, mulVec_mulVec, h1, zero_mulVec, mulVec_mulVec, h2, one_mulVec]
  abel
end local_algebra

theorem aux_split (M Pk Pm : Matrix ι ι K) (hPe : Pm = M + Pk) (w a F zk : ι → K) :
    M *ᵥ (w + a) - F + (Pk *ᵥ (w + a) + zk) = Pm *ᵥ w + (Pm *ᵥ a - F + zk) := by
  subst hPe
  simp only [mulVec_add, add_mulVec]
  abel

namespace MBT
variable (abias : Bd K ι → ι → K)

mutual
/-- Articulated-body equation: the RNEA force through the inboard joint of `t`
 equals `P⁺ A⁺ + z⁺` when the joint acceleration is the one ABA computes. -/
theorem Fr_eq : ∀ (t : MBT K ι) (Ap : ι → K), WF t →
    Fr abias t Ap = PP t *ᵥ Ap + zP abias t
  | mk n cs, Ap, h => by
      have hP := P_symm (mk n cs) h
      cases h with
      | mk _ _ hM hcs hD1 hD2 =>
        have hDs : (n.Hᵀ * P (mk n cs) * n.H)ᵀ = n.Hᵀ * P (mk n cs) * n.H := by
          simp [transpose_mul, hP, Matrix.mul_assoc]
        have hDI : (n.DI)ᵀ = n.DI := inv_symm_of_symm _ _ hDs hD1
        have hk := Frkids_eq cs (acc abias (mk n cs) Ap) hcs
        have hstep := node_step (P (mk n cs)) n.H n.DI hP hDI (z abias (mk n cs)) Ap n.f
        -- unfold one level
        simp only [Fr, hk]
        simp only [PP, zP, eps, G, bd] at hstep ⊢
        refine Eq.trans ?_ hstep
        have hz : z abias (mk n cs) = P (mk n cs) *ᵥ abias n - n.F + zkids abias cs := by
          simp only [z]
        have hPe : P (mk n cs) = n.M + Pkids cs := by simp only [P]
        have hacc : acc abias (mk n cs) Ap
            = (Ap + n.H *ᵥ (n.DI *ᵥ (n.f - n.Hᵀ *ᵥ z abias (mk n cs))
                - (P (mk n cs) * n.H * n.DI)ᵀ *ᵥ Ap)) + abias n := by
          rfl
        rw [hacc, aux_split _ _ _ hPe, ← hz]
theorem Frkids_eq : ∀ (cs : List (MBT K ι)) (A : ι → K), (∀ c ∈ cs, WF c) →
    Frkids abias cs A = Pkids cs *ᵥ A + zkids abias cs
  | [], A, _ => by simp [Frkids, Pkids, zkids]
  | c :: cs, A, h => by
      have hc : WF c := h c (by simp)
      have hcs : ∀ c' ∈ cs, WF c' := fun c' hc' => h c' (by simp [hc'])
      simp only [Frkids, Pkids, zkids, Fr_eq c _ hc, Frkids_eq cs A hcs]
      simp only [PP, zP, eps, mulVec_add, add_mulVec, mulVec_mulVec, Matrix.mul_assoc]
      abel
end

/-- ABA ∘ RNEA: the inverse-dynamics residual at every joint is zero. -/
theorem residual_root (t : MBT K ι) (Ap : ι → K) (h : WF t) :
    (bd t).Hᵀ *ᵥ Fr abias t Ap = (bd t).f := by
  rw [Fr_eq abias t Ap h]
  cases t with
  | mk n cs =>
    cases h with
    | mk _ _ hM hcs hD1 hD2 =>
      simp only [PP, zP, eps, G, bd]
      exact node_residual (P (mk n cs)) n.H n.DI hD1 _ _ _

end MBT
#print axioms MBT.residual_root
