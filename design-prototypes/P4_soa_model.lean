/-! Prototype executable SOA model, Mathlib-free, polymorphic in the scalar. -/
namespace SOA
variable {K : Type} [Add K] [Sub K] [Mul K] [Neg K] [Div K] [OfNat K 0] [OfNat K 1]

abbrev V (K : Type) := List K
abbrev Mt (K : Type) := List (List K)   -- rows

def vzero (n : Nat) : V K := List.replicate n 0
def vadd (a b : V K) : V K := List.zipWith (· + ·) a b
def vsub (a b : V K) : V K := List.zipWith (· - ·) a b
def dot (a b : V K) : K := (List.zipWith (· * ·) a b).foldl (· + ·) 0
def mvec (m : Mt K) (v : V K) : V K := m.map (fun r => dot r v)
def transpose (m : Mt K) (ncols : Nat) : Mt K :=
  (List.range ncols).map (fun j => m.map (fun r => r.getD j 0))
def mmul (a b : Mt K) (bcols : Nat) : Mt K :=
  let bt := transpose b bcols
  a.map (fun r => bt.map (fun c => dot r c))
def madd (a b : Mt K) : Mt K := List.zipWith vadd a b
def msub (a b : Mt K) : Mt K := List.zipWith vsub a b
def ident (n : Nat) : Mt K :=
  (List.range n).map (fun i => (List.range n).map (fun j => if i = j then 1 else 0))
def vscale (s : K) (v : V K) : V K := v.map (s * ·)

/-- Gauss-Jordan inverse without pivoting (fine for SPD). -/
def ginv (m : Mt K) (n : Nat) : Mt K :=
  let aug : Mt K := List.zipWith (· ++ ·) m (ident n)
  let step (a : Mt K) (k : Nat) : Mt K :=
    let rk := a.getD k []
    let p := rk.getD k 1
    let rk' := rk.map (· / p)
    (List.range n).map (fun i =>
      if i = k then rk' else
        let ri := a.getD i []
        let f := ri.getD k 0
        vsub ri (vscale f rk'))
  let r := (List.range n).foldl step aug
  r.map (fun row => row.drop n)

/-- spatial cross-shift matrix: phi(l) = [[I, l×],[0, I]] acting on (torque, force). -/
def crossMat (l : V K) : Mt K :=
  let x := l.getD 0 0; let y := l.getD 1 0; let z := l.getD 2 0
  [[0, -z, y],[z, 0, -x],[-y, x, 0]]

def phi (l : V K) : Mt K :=
  let c : Mt K := crossMat l
  let i3 : Mt K := ident 3
  let z3 : Mt K := [[0,0,0],[0,0,0],[0,0,0]]
  (List.zipWith (· ++ ·) i3 c) ++ (List.zipWith (· ++ ·) z3 i3)

/-- spatial inertia 6x6 from mass, com p, unit inertia G (about body origin):
   [[m G, m p×],[-m p×, m I]] -/
def spatialInertia (m : K) (p : V K) (g : Mt K) : Mt K :=
  let px : Mt K := crossMat p
  let mpx := px.map (vscale m)
  let nmpx := mpx.map (fun r => r.map (fun x => -x))
  let mg := g.map (vscale m)
  let mi : Mt K := (ident 3).map (vscale m)
  (List.zipWith (· ++ ·) mg mpx) ++ (List.zipWith (· ++ ·) nmpx mi)

structure Body (K : Type) where
  idx : Nat
  parent : Nat
  d : Nat
  u0 : Nat
  l : V K
  M : Mt K           -- 6x6
  H : Mt K           -- 6 x d  (rows)

inductive Tr (K : Type) where
  | mk (b : Body K) (cs : List (Tr K)) : Tr K

/-- build rose tree of children of node `p` from flat list (fuel = depth bound). -/
def build (bs : List (Body K)) : Nat → Nat → List (Tr K)
  | 0, _ => []
  | fuel+1, p => (bs.filter (fun b => b.parent == p)).map (fun b => Tr.mk b (build bs fuel b.idx))

def sliceU (v : V K) (b : Body K) : V K := (v.drop b.u0).take b.d

mutual
/-- multiplyByM: outward accel then inward force; returns (F through joint shifted to parent, list of (u0, tau)) -/
def mulM (v : V K) : Tr K → V K → V K × List (Nat × V K)
  | Tr.mk b cs, Aparent =>
    let ph : Mt K := phi b.l
    let Ap := mvec (transpose ph 6) Aparent
    let A := vadd Ap (mvec b.H (sliceU v b))
    let (Fk, taus) := mulMkids v cs A
    let F := vadd (mvec b.M A) Fk
    let tau := mvec (transpose b.H b.d) F
    (mvec ph F, (b.u0, tau) :: taus)
def mulMkids (v : V K) : List (Tr K) → V K → V K × List (Nat × V K)
  | [], _ => (vzero 6, [])
  | c :: cs, A =>
    let (f1, t1) := mulM v c A
    let (f2, t2) := mulMkids v cs A
    (vadd f1 f2, t1 ++ t2)
end

/-- annotated ABA data per node -/
structure AB (K : Type) where
  P : Mt K
  DI : Mt K
  G : Mt K       -- 6 x d
  eps : V K
mutual
/-- inward pass: returns (PPlus shifted to parent, zPlus shifted to parent, annotated tree) -/
def abaIn (f : V K) : Tr K → (Mt K × V K × (AB K × List (Tr K) × Body K)) × List (Nat × AB K)
  | Tr.mk b cs =>
    let (Pk, zk, ann) := abaInKids f cs
    let P := madd b.M Pk
    let z := zk
    let Ht := transpose b.H b.d
    let PH := mmul P b.H b.d
    let D := mmul Ht PH b.d
    let DI := ginv D b.d
    let G := mmul PH DI b.d
    let eps := vsub (sliceU f b) (mvec Ht z)
    let PP := msub P (mmul G (transpose PH b.d) 6)
    let zP := vadd z (mvec G eps)
    let ph : Mt K := phi b.l
    let PPs := mmul (mmul ph PP 6) (transpose ph 6) 6
    let ab : AB K := ⟨P, DI, G, eps⟩
    ((PPs, mvec ph zP, (ab, cs, b)), (b.idx, ab) :: ann)
def abaInKids (f : V K) : List (Tr K) → Mt K × V K × List (Nat × AB K)
  | [] => ((List.replicate 6 (vzero 6)), vzero 6, [])
  | c :: cs =>
    let ((P1, z1, _), a1) := abaIn f c
    let (P2, z2, a2) := abaInKids f cs
    (madd P1 P2, vadd z1 z2, a1 ++ a2)
end

mutual
def abaOut (ann : List (Nat × AB K)) : Tr K → V K → List (Nat × V K)
  | Tr.mk b cs, Aparent =>
    match ann.find? (fun x => x.1 == b.idx) with
    | none => []
    | some (_, ab) =>
      let ph : Mt K := phi b.l
      let Ap := mvec (transpose ph 6) Aparent
      let ud := vsub (mvec ab.DI ab.eps) (mvec (transpose ab.G b.d) Ap)
      let A := vadd Ap (mvec b.H ud)
      (b.u0, ud) :: abaOutKids ann cs A
def abaOutKids (ann : List (Nat × AB K)) : List (Tr K) → V K → List (Nat × V K)
  | [], _ => []
  | c :: cs, A => abaOut ann c A ++ abaOutKids ann cs A
end

def scatter (n : Nat) (parts : List (Nat × V K)) : V K :=
  (List.range n).map (fun i =>
    match parts.find? (fun p => p.1 ≤ i ∧ i < p.1 + p.2.length) with
    | some p => p.2.getD (i - p.1) 0
    | none => 0)

def multiplyByM (roots : List (Tr K)) (nu : Nat) (v : V K) : V K :=
  scatter nu (mulMkids v roots (vzero 6)).2
def multiplyByMInv (roots : List (Tr K)) (nu : Nat) (f : V K) : V K :=
  let (_, _, ann) := abaInKids f roots
  scatter nu (abaOutKids ann roots (vzero 6))

end SOA
