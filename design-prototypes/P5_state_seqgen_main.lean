import Sm.Model
open SM
/-- xorshift PRNG -/
def nextR (s : UInt64) : UInt64 := let a := s ^^^ (s <<< 13); let b := a ^^^ (a >>> 7); b ^^^ (b <<< 17)
def pick (r : UInt64) (n : Nat) : Nat := (r.toNat / 7) % n

def genOp (r : UInt64) (st : St) : Op :=
  let ns := st.subs.length
  let k := pick r 10
  let r2 := nextR r; let r3 := nextR r2; let r4 := nextR r3
  let s := pick r2 ns
  match k with
  | 0 | 1 | 2 => .advSub s ((st.subs.getD s {}).cur + 1)
  | 3 | 4 => .advSys (st.sys + 1)
  | 5 => .inval (1 + pick r2 9)
  | 6 => let dep := 1 + pick r3 9; .alloc s dep (dep + pick r4 (11 - dep))
  | 7 | 8 => .mark s (pick r3 (max 1 (st.subs.getD s {}).cache.length))
  | _ => .unmark s (pick r3 (max 1 (st.subs.getD s {}).cache.length))

def opStr : Op → String
  | .advSub s g => s!"advSub {s} {g}" | .advSys g => s!"advSys {g}" | .inval g => s!"inval {g}"
  | .alloc s d c => s!"alloc {s} {d} {c}" | .mark s c => s!"mark {s} {c}" | .unmark s c => s!"unmark {s} {c}"

def main (args : List String) : IO Unit := do
  let seed := (args.getD 0 "1").toNat!
  let nops := (args.getD 1 "60").toNat!
  let nsub := 1 + seed % 3
  let mut st : St := { subs := List.replicate nsub {} }
  let mut r : UInt64 := UInt64.ofNat (seed * 2654435761 + 12345)
  IO.println s!"subs {nsub}"
  let mut done := 0
  let mut tries := 0
  while done < nops && tries < 50 * nops do
    tries := tries + 1
    r := nextR r
    let op := genOp r st
    if legal st op then
      st := step st op
      IO.println s!"{opStr op} => {observe st}"
      done := done + 1
