import Sm.Model
namespace SM

theorem restore_cur_le (s : Sub) (g : Stage) : (s.restore g).cur ≤ g := by
  unfold Sub.restore
  split
  · assumption
  · split
    · simp
    · simp

theorem restore_cur_eq_of_gt (s : Sub) (g : Stage) (h : g < s.cur) : (s.restore g).cur = g := by
  unfold Sub.restore
  have : ¬ s.cur ≤ g := Nat.not_le.mpr h
  simp only [this, if_false]
  split
  · subst_vars; rfl
  · rfl

/-- changing a variable that invalidates stage g (g ≥ 1) lowers the system and every
    subsystem to at most g-1, and to exactly g-1 if they were at or above g. -/
theorem inval_lowers (st : St) (g : Stage) (hg : 1 ≤ g) :
    (step st (.inval g)).sys ≤ g - 1 ∨ (step st (.inval g)).sys = st.sys ∧ st.sys < g := by
  simp only [step, St.invalSys]
  by_cases h : st.sys < g
  · right; simp [h]
  · left; simp [h]

theorem inval_lowers_subs (st : St) (g : Stage) :
    ∀ sb ∈ (step st (.inval g)).subs, sb.cur ≤ g - 1 := by
  intro sb hsb
  simp only [step, St.invalSys] at hsb
  have : sb ∈ st.subs.map (fun sb => sb.restore (g-1)) := by
    exact hsb
  obtain ⟨s0, _, rfl⟩ := List.mem_map.mp this
  exact restore_cur_le s0 (g-1)

end SM
