import Mathlib.Tactic.Ring
import Mathlib.Tactic.FieldSimp
import Mathlib.Tactic.LinearCombination
import Mathlib.Algebra.Field.Defs

/-! Feasibility: body-fixed XYZ Euler kinematics. R = Rx(q0) Ry(q1) Rz(q2) as coded in
setRotationToBodyFixedXYZ(c,s); qdot = multiplyByBodyXYZ_N_P(w). Claim: Rdot = [w]x R
where Rdot is the formal time derivative (dc_i = -s_i qdot_i, ds_i = c_i qdot_i). -/

variable {K : Type} [Field K]

structure M33 (K : Type) where
  (a00 a01 a02 a10 a11 a12 a20 a21 a22 : K)

def rotXYZ (c0 c1 c2 s0 s1 s2 : K) : M33 K :=
  let s0s1 := s0*s1; let s2c0 := s2*c0; let c0c2 := c0*c2; let nc1 := -c1
  ⟨c1*c2, s2*nc1, s1,
   s2c0 + s0s1*c2, c0c2 - s0s1*s2, s0*nc1,
   s0*s2 - s1*c0c2, s0*c2 + s1*s2c0, c0*c1⟩

/-- formal derivative of rotXYZ along (qd0,qd1,qd2): product rule with dc=-s qd, ds = c qd.
 Written as the first-order coefficient of rotXYZ evaluated on dual numbers. -/
structure Dual (K : Type) where
  (re eps : K)
instance : Add (Dual K) := ⟨fun a b => ⟨a.re+b.re, a.eps+b.eps⟩⟩
instance : Sub (Dual K) := ⟨fun a b => ⟨a.re-b.re, a.eps-b.eps⟩⟩
instance : Mul (Dual K) := ⟨fun a b => ⟨a.re*b.re, a.re*b.eps + a.eps*b.re⟩⟩
instance : Neg (Dual K) := ⟨fun a => ⟨-a.re, -a.eps⟩⟩
@[simp] theorem Dual.add_re (a b : Dual K) : (a+b).re = a.re+b.re := rfl
@[simp] theorem Dual.add_eps (a b : Dual K) : (a+b).eps = a.eps+b.eps := rfl
@[simp] theorem Dual.sub_re (a b : Dual K) : (a-b).re = a.re-b.re := rfl
@[simp] theorem Dual.sub_eps (a b : Dual K) : (a-b).eps = a.eps-b.eps := rfl
@[simp] theorem Dual.mul_re (a b : Dual K) : (a*b).re = a.re*b.re := rfl
@[simp] theorem Dual.mul_eps (a b : Dual K) : (a*b).eps = a.re*b.eps + a.eps*b.re := rfl
@[simp] theorem Dual.neg_re (a : Dual K) : (-a).re = -a.re := rfl
@[simp] theorem Dual.neg_eps (a : Dual K) : (-a).eps = -a.eps := rfl

/-- the same code, polymorphic -/
def rotXYZ' {R : Type} [Add R] [Sub R] [Mul R] [Neg R] (c0 c1 c2 s0 s1 s2 : R) : M33 R :=
  let s0s1 := s0*s1; let s2c0 := s2*c0; let c0c2 := c0*c2; let nc1 := -c1
  ⟨c1*c2, s2*nc1, s1,
   s2c0 + s0s1*c2, c0c2 - s0s1*s2, s0*nc1,
   s0*s2 - s1*c0c2, s0*c2 + s1*s2c0, c0*c1⟩

def nP (c0 c1 s0 s1 ooc1 w0 w1 w2 : K) : K × K × K :=
  let t := (s0*w1 - c0*w2)*ooc1
  (w0 + t*s1, c0*w1 + s0*w2, -t)

theorem eulerXYZ_kinematics (c0 c1 c2 s0 s1 s2 w0 w1 w2 : K)
    (h0 : c0^2 + s0^2 = 1) (h1 : c1^2 + s1^2 = 1) (h2 : c2^2+s2^2 = 1) (hc1 : c1 ≠ 0) :
    let qd := nP c0 c1 s0 s1 (1/c1) w0 w1 w2
    let Rd := rotXYZ' (⟨c0, -s0*qd.1⟩ : Dual K) ⟨c1, -s1*qd.2.1⟩ ⟨c2, -s2*qd.2.2⟩
                      ⟨s0, c0*qd.1⟩ ⟨s1, c1*qd.2.1⟩ ⟨s2, c2*qd.2.2⟩
    let R := rotXYZ' c0 c1 c2 s0 s1 s2
    -- first column of Rdot equals w × (first column of R), etc.
    Rd.a00.eps = w1*R.a20 - w2*R.a10 ∧ Rd.a10.eps = w2*R.a00 - w0*R.a20 ∧ Rd.a20.eps = w0*R.a10 - w1*R.a00 ∧
    Rd.a01.eps = w1*R.a21 - w2*R.a11 ∧ Rd.a11.eps = w2*R.a01 - w0*R.a21 ∧ Rd.a21.eps = w0*R.a11 - w1*R.a01 ∧
    Rd.a02.eps = w1*R.a22 - w2*R.a12 ∧ Rd.a12.eps = w2*R.a02 - w0*R.a22 ∧ Rd.a22.eps = w0*R.a12 - w1*R.a02 := by
  simp only [nP, rotXYZ', Dual.add_re, Dual.add_eps, Dual.sub_re, Dual.sub_eps, Dual.mul_re,
    Dual.mul_eps, Dual.neg_re, Dual.neg_eps]
  have e0 : c0^2 = 1 - s0^2 := by linear_combination h0
  have e1 : c1^2 = 1 - s1^2 := by linear_combination h1
  have _e2 : c2^2 = 1 - s2^2 := by linear_combination h2
  refine ⟨?_, ?_, ?_, ?_, ?_, ?_, ?_, ?_, ?_⟩ <;> field_simp <;> ring_nf <;>
    (try simp only [e0, e1]) <;> ring
#print axioms eulerXYZ_kinematics
