#include "SimTKcommon.h"
#include <iostream>
using namespace SimTK;
int main(){ Vec<2,std::complex<double>> r; PolynomialRootFinder::findRoots(Vec3(2,0,-8), r); std::cout<<r[0]<<" "<<r[1]<<"\n";
  Vec<2,std::complex<double>> r2; PolynomialRootFinder::findRoots(Vec3(2,1e-300,-8), r2); std::cout<<r2[0]<<" "<<r2[1]<<"\n";
  String s("1.5abc"); double d=0; bool ok=s.tryConvertToDouble(d); std::cout<<ok<<" "<<d<<"\n";
  bool ok2 = String("1.5abc").tryConvertTo<double>(d); std::cout<<ok2<<"\n";
  int i=0; bool ok3 = String("15abc").tryConvertTo<int>(i); std::cout<<ok3<<" "<<i<<"\n";
  Array_<std::string> a; a.push_back("hello world this is a long string to defeat SSO"); a.shrink_to_fit(); 
  std::cout<<a.capacity()<<"\n";
}
