import sys,struct,subprocess
def h2f(h): return struct.unpack('>d',bytes.fromhex(h))[0]
worst=0
for seed in range(1,41):
    nb = 1 + seed%12
    out=subprocess.run(['./h1',str(seed),str(nb)],capture_output=True,text=True).stdout
    mod=subprocess.run(['lp/.lake/build/bin/drv'],input=out,capture_output=True,text=True).stdout
    impl={l.split()[0]:[h2f(x) for x in l.split()[1:]] for l in out.splitlines() if l.split()[0] in('MV','MIV','KE')}
    m={l.split()[0]:[h2f(x) for x in l.split()[1:]] for l in mod.splitlines()}
    for k in ('MV','MIV','KE'):
        a,b=impl[k],m.get(k,[])
        if len(a)!=len(b): print('LEN',seed,k,len(a),len(b)); continue
        sc=max(1e-300,max(abs(x) for x in a)) if a else 1
        err=max((abs(x-y) for x,y in zip(a,b)),default=0)/sc
        worst=max(worst,err)
        if err>1e-9: print('DIFF',seed,nb,k,err)
print('worst rel err',worst)
