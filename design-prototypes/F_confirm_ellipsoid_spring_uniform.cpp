#include "Simbody.h"
#include <iostream>
using namespace SimTK;
int main(){
  // (5) ellipsoid nearest point at centre / on symmetry plane
  { ContactGeometry::Ellipsoid e(Vec3(3,2,1)); bool inside; UnitVec3 n;
    Vec3 p=e.findNearestPoint(Vec3(0,0,0),inside,n); std::cout<<"ell centre: "<<p<<" n="<<n<<" inside="<<inside<<"\n";
    p=e.findNearestPoint(Vec3(0.1,0,0),inside,n); std::cout<<"ell (0.1,0,0): "<<p<<" n="<<n<<"\n";
    p=e.findNearestPoint(Vec3(0.1,0.05,0.02),inside,n); std::cout<<"ell generic: "<<p<<" n="<<n<<"\n"; }
  // (3) MobilityLinearSpring stale cache
  { MultibodySystem sys; SimbodyMatterSubsystem m(sys); GeneralForceSubsystem f(sys);
    MobilizedBody::Pin pin(m.Ground(),Transform(),Body::Rigid(MassProperties(1,Vec3(0,-1,0),Inertia(1))),Transform());
    Force::MobilityLinearSpring sp(f,pin,MobilizerQIndex(0),10.0,0.0);
    State s=sys.realizeTopology(); sys.realizeModel(s); pin.setOneQ(s,0,0.5);
    sys.realize(s,Stage::Acceleration); std::cout<<"udot k=10: "<<s.getUDot()<<"\n";
    sp.setStiffness(s,100.0); sys.realize(s,Stage::Acceleration); std::cout<<"udot k=100 (same state): "<<s.getUDot()<<"\n";
    State s2=sys.realizeTopology(); sys.realizeModel(s2); pin.setOneQ(s2,0,0.5); sp.setStiffness(s2,100.0);
    sys.realize(s2,Stage::Acceleration); std::cout<<"udot k=100 (fresh state): "<<s2.getUDot()<<"\n"; }
  // (6) uniform boundary arithmetic
  { volatile double u = 1.0 - std::ldexp(1.0,-53); volatile double v = 1.0 + u*1.0; std::cout<<"1+(1-2^-53)*1 == 2 ? "<<(v==2.0)<<"\n"; }
}
