// Prototype harness: random tree -> export SOA data + impl outputs.
#include "Simbody.h"
#include <cstdio>
#include <cstring>
#include <cstdint>
using namespace SimTK;
static void pd(double x){ uint64_t b; std::memcpy(&b,&x,8); printf(" %016llx",(unsigned long long)b); }
static void pv3(const Vec3& v){ for(int i=0;i<3;i++) pd(v[i]); }
int main(int argc,char**argv){
  int seed = argc>1?atoi(argv[1]):1; int nb = argc>2?atoi(argv[2]):6;
  Random::Uniform R(-1,1); R.setSeed(seed);
  MultibodySystem sys; SimbodyMatterSubsystem matter(sys); GeneralForceSubsystem forces(sys);
  std::vector<MobilizedBody> bodies; bodies.push_back(matter.Ground());
  auto rv=[&](){return Vec3(R.getValue(),R.getValue(),R.getValue());};
  auto rX=[&](int kind){ if(kind==0) return Transform(); if(kind==1) return Transform(rv());
     Rotation r; r.setRotationToBodyFixedXYZ(rv()*2.0); return Transform(r,rv()); };
  for(int i=0;i<nb;i++){
    int p = (int)floor((R.getValue()+1)/2*bodies.size()); if(p>=(int)bodies.size()) p=bodies.size()-1;
    Real m = 0.5+ (R.getValue()+1);
    Vec3 com=rv()*0.3; 
    // valid inertia: from random point masses
    Inertia I(0); for(int k=0;k<4;k++){ Vec3 r=rv(); I += Inertia(r, 0.25); }
    Body::Rigid b(MassProperties(m, com, m*UnitInertia(I)));
    int fk=(int)floor((R.getValue()+1)/2*3), mk=(int)floor((R.getValue()+1)/2*3);
    Transform XPF=rX(fk%3), XBM=rX(mk%3);
    int type=(int)floor((R.getValue()+1)/2*8);
    MobilizedBody mb;
    switch(type){
      case 0: mb=MobilizedBody::Pin(bodies[p],XPF,b,XBM); break;
      case 1: mb=MobilizedBody::Slider(bodies[p],XPF,b,XBM); break;
      case 2: mb=MobilizedBody::Ball(bodies[p],XPF,b,XBM); break;
      case 3: mb=MobilizedBody::Free(bodies[p],XPF,b,XBM); break;
      case 4: mb=MobilizedBody::Universal(bodies[p],XPF,b,XBM); break;
      case 5: mb=MobilizedBody::Gimbal(bodies[p],XPF,b,XBM); break;
      case 6: mb=MobilizedBody::Planar(bodies[p],XPF,b,XBM); break;
      default: mb=MobilizedBody::Cylinder(bodies[p],XPF,b,XBM); break;
    }
    bodies.push_back(mb);
  }
  State s = sys.realizeTopology(); sys.realizeModel(s);
  Vector q(s.getNQ()), u(s.getNU());
  for(int i=0;i<q.size();i++) q[i]=R.getValue(); for(int i=0;i<u.size();i++) u[i]=R.getValue();
  s.updQ()=q; s.updU()=u;
  // normalize quaternions via project
  sys.realize(s,Stage::Position); 
  matter.normalizeQuaternions(s);
  sys.realize(s,Stage::Velocity);
  int nu=s.getNU();
  printf("N %d %d\n",(int)bodies.size()-1,nu);
  for(size_t i=1;i<bodies.size();i++){
    const MobilizedBody& mb=bodies[i];
    int par=mb.getParentMobilizedBody().getMobilizedBodyIndex();
    int d=mb.getNumU(s);
    printf("B %d %d %d %d",(int)mb.getMobilizedBodyIndex(),par,d,(int)mb.getFirstUIndex(s));
    Vec3 l = mb.getBodyOriginLocation(s) - mb.getParentMobilizedBody().getBodyOriginLocation(s);
    pv3(l);
    const SpatialInertia& M=mb.getBodySpatialInertiaInGround(s);
    pd(M.getMass()); pv3(M.getMassCenter()); 
    const SymMat33& G=M.getUnitInertia().asSymMat33();
    pd(G(0,0));pd(G(1,1));pd(G(2,2));pd(G(1,0));pd(G(2,0));pd(G(2,1));
    for(int k=0;k<d;k++){ SpatialVec h=mb.getHCol(s,MobilizerUIndex(k)); pv3(h[0]); pv3(h[1]); }
    printf("\n");
  }
  Vector v(nu); for(int i=0;i<nu;i++) v[i]=R.getValue();
  printf("V"); for(int i=0;i<nu;i++) pd(v[i]); printf("\n");
  Vector Mv, MIv; matter.multiplyByM(s,v,Mv); matter.multiplyByMInv(s,v,MIv);
  printf("MV"); for(int i=0;i<nu;i++) pd(Mv[i]); printf("\n");
  printf("MIV"); for(int i=0;i<nu;i++) pd(MIv[i]); printf("\n");
  printf("U"); for(int i=0;i<nu;i++) pd(s.getU()[i]); printf("\n");
  printf("KE"); pd(matter.calcKineticEnergy(s)); printf("\n");
  return 0;
}
