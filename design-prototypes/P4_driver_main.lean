import Lp.Model
open SOA

def hexDigit (c : Char) : Nat :=
  if c.isDigit then c.toNat - '0'.toNat
  else if 'a' ≤ c ∧ c ≤ 'f' then c.toNat - 'a'.toNat + 10 else 0
def parseHexF (s : String) : Float :=
  Float.ofBits (UInt64.ofNat (s.foldl (fun acc c => acc*16 + hexDigit c) 0))
def toHex (x : Float) : String :=
  let n := x.toBits.toNat
  let ds := (List.range 16).map (fun i => (n / (16^(15-i))) % 16)
  String.mk (ds.map (fun d => if d < 10 then Char.ofNat (d + 48) else Char.ofNat (d - 10 + 97)))

def chunk3 (l : List Float) : List (List Float) :=
  match l with
  | a::b::c::rest => [a,b,c] :: chunk3 rest
  | _ => []

def parseBody (toks : List String) : Option (Body Float) :=
  match toks with
  | idx :: par :: d :: u0 :: rest =>
    let fs := rest.map parseHexF
    let l := fs.take 3
    let m := fs.getD 3 0
    let p := (fs.drop 4).take 3
    let g := (fs.drop 7).take 6
    let G : Mt Float := [[g.getD 0 0, g.getD 3 0, g.getD 4 0],[g.getD 3 0, g.getD 1 0, g.getD 5 0],[g.getD 4 0, g.getD 5 0, g.getD 2 0]]
    let dn := d.toNat!
    let hcols := ((fs.drop 13).take (6*dn))
    let cols : List (List Float) := (List.range dn).map (fun k => (hcols.drop (6*k)).take 6)
    let H : Mt Float := (List.range 6).map (fun i => cols.map (fun c => c.getD i 0))
    some { idx := idx.toNat!, parent := par.toNat!, d := dn, u0 := u0.toNat!, l := l,
           M := spatialInertia m p G, H := H }
  | _ => none

partial def readAll (h : IO.FS.Stream) (acc : List String) : IO (List String) := do
  let line ← h.getLine
  if line.isEmpty then return acc.reverse else readAll h (line :: acc)

def main : IO Unit := do
  let lines ← readAll (← IO.getStdin) []
  let mut bodies : List (Body Float) := []
  let mut nu := 0
  let mut v : List Float := []
  let mut u : List Float := []
  for ln in lines do
    let toks := (ln.trimAscii.toString.splitOn " ").filter (· ≠ "")
    match toks with
    | "N" :: _ :: n :: _ => nu := n.toNat!
    | "B" :: rest => match parseBody rest with
        | some b => bodies := bodies ++ [b]
        | none => pure ()
    | "V" :: rest => v := rest.map parseHexF
    | "U" :: rest => u := rest.map parseHexF
    | _ => pure ()
  let roots := build bodies (bodies.length + 1) 0
  let mv := multiplyByM roots nu v
  let miv := multiplyByMInv roots nu v
  let ke := 0.5 * dot u (multiplyByM roots nu u)
  IO.println ("MV " ++ " ".intercalate (mv.map toHex))
  IO.println ("MIV " ++ " ".intercalate (miv.map toHex))
  IO.println ("KE " ++ toHex ke)
