/-! Prototype: exact model of State stage/cache bookkeeping (subset). Mathlib-free. -/
namespace SM

/-- stages 0..9: Empty Topology Model Instance Time Position Velocity Dynamics Acceleration Report; 10 = Infinity -/
abbrev Stage := Nat
def nStages : Nat := 10
def infinityStage : Nat := 10

structure CE where
  alloc : Stage
  dependsOn : Stage
  computedBy : Stage
  verWhenComputed : Nat := 0
  upToDate : Bool := true
deriving Repr

structure Sub where
  cur : Stage := 0
  vers : List Nat := List.replicate 10 1
  cache : List CE := []
deriving Repr

structure St where
  sys : Stage := 0
  sysVers : List Nat := List.replicate 10 1
  subs : List Sub := []
deriving Repr

inductive Op where
  | advSub (s : Nat) (g : Stage)          -- advanceSubsystemToStage
  | advSys (g : Stage)                    -- advanceSystemToStage
  | inval (g : Stage)                     -- invalidateAll(g)  (what updQ/updU/... do)
  | alloc (s : Nat) (dep comp : Stage)    -- allocateCacheEntry
  | mark (s c : Nat)                      -- markCacheValueRealized
  | unmark (s c : Nat)                    -- markCacheValueNotRealized
deriving Repr

def bump (vs : List Nat) (lo hi : Nat) : List Nat :=   -- ++ versions for stages lo..hi inclusive
  (List.range vs.length).map (fun i => if lo ≤ i ∧ i ≤ hi then vs.getD i 0 + 1 else vs.getD i 0)

/-- restoreToStage(g): invalidate all stages > g for one subsystem -/
def Sub.restore (s : Sub) (g : Stage) : Sub :=
  if s.cur ≤ g then s else
  if g = 0 then {}   -- initialize(): everything thrown out, versions reset to 1
  else { s with cur := g, vers := bump s.vers (g+1) s.cur,
                cache := s.cache.filter (fun c => c.alloc ≤ g) }   -- allocation stack pop (stack is stage-sorted)

def St.invalSys (st : St) (g : Stage) : St :=
  if st.sys < g then st else { st with sysVers := bump st.sysVers g st.sys, sys := g - 1 }

def CE.isUpToDate (c : CE) (s : Sub) : Bool :=
  if s.cur ≥ c.computedBy then true
  else if s.cur < c.dependsOn then false
  else s.vers.getD c.dependsOn 0 == c.verWhenComputed && c.upToDate

def legal (st : St) : Op → Bool
  | .advSub s g => match st.subs[s]? with
      | some sb => g ≥ 1 && g ≤ 9 && sb.cur + 1 == g
      | none => false
  | .advSys g => g ≥ 1 && g ≤ 9 && st.sys + 1 == g && st.subs.all (fun sb => sb.cur ≥ g)
  | .inval g => g ≥ 1 && g ≤ 9
  | .alloc s dep comp => match st.subs[s]? with
      | some sb => sb.cur < 3 && dep ≥ 1 && dep ≤ 9 && comp ≥ dep && comp ≤ 10
      | none => false
  | .mark s c => match st.subs[s]? with
      | some sb => match sb.cache[c]? with
          | some ce => sb.cur + 1 ≥ ce.dependsOn
          | none => false
      | none => false
  | .unmark s c => match st.subs[s]? with
      | some sb => c < sb.cache.length
      | none => false

def modifyNth {α} (l : List α) (n : Nat) (f : α → α) : List α :=
  (List.range l.length).filterMap (fun i => (l[i]?).map (fun a => if i = n then f a else a))

def step (st : St) : Op → St
  | .advSub s g => { st with subs := modifyNth st.subs s (fun sb => { sb with cur := g }) }
  | .advSys g => { st with sys := g }
  | .inval g => { (st.invalSys g) with subs := st.subs.map (fun sb => sb.restore (g-1)) }
  | .alloc s dep comp => { st with subs := modifyNth st.subs s (fun sb =>
        { sb with cache := sb.cache ++ [{ alloc := sb.cur + 1, dependsOn := dep, computedBy := comp }] }) }
  | .mark s c => { st with subs := modifyNth st.subs s (fun sb =>
        { sb with cache := modifyNth sb.cache c (fun ce =>
            { ce with verWhenComputed := sb.vers.getD ce.dependsOn 0, upToDate := true }) }) }
  | .unmark s c => { st with subs := modifyNth st.subs s (fun sb =>
        { sb with cache := modifyNth sb.cache c (fun ce => { ce with verWhenComputed := 0, upToDate := false }) }) }

/-- canonical observation string -/
def observe (st : St) : String :=
  let subsS := st.subs.map (fun sb =>
    s!"{sb.cur}:" ++ String.intercalate "," (sb.cache.map (fun c => if c.isUpToDate sb then "1" else "0")))
  s!"{st.sys} | " ++ String.intercalate " ; " subsS

end SM
