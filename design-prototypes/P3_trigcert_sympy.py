import sympy as sp
c0,c1,c2,s0,s1,s2,w0,w1,w2=sp.symbols('c0 c1 c2 s0 s1 s2 w0 w1 w2')
def rot(c0,c1,c2,s0,s1,s2):
    s0s1=s0*s1; s2c0=s2*c0; c0c2=c0*c2; nc1=-c1
    return sp.Matrix([[c1*c2, s2*nc1, s1],[s2c0+s0s1*c2, c0c2-s0s1*s2, s0*nc1],[s0*s2-s1*c0c2, s0*c2+s1*s2c0, c0*c1]])
R=rot(c0,c1,c2,s0,s1,s2)
t=(s0*w1-c0*w2)/c1
qd=[w0+t*s1, c0*w1+s0*w2, -t]
# derivative
e=sp.symbols('e')
Rd=rot(c0-e*s0*qd[0], c1-e*s1*qd[1], c2-e*s2*qd[2], s0+e*c0*qd[0], s1+e*c1*qd[1], s2+e*c2*qd[2])
Rd=Rd.applyfunc(lambda x: sp.diff(sp.expand(x),e).subs(e,0))
W=sp.Matrix([[0,-w2,w1],[w2,0,-w0],[-w1,w0,0]])
D=(Rd-W*R).applyfunc(lambda x: sp.numer(sp.together(x)))
G=[c0**2+s0**2-1,c1**2+s1**2-1,c2**2+s2**2-1]
for i in range(3):
  for j in range(3):
    q,r=sp.reduced(sp.expand(D[i,j]),G,c0,c1,c2,s0,s1,s2,w0,w1,w2)
    print(i,j,'rem',r,'cof',[sp.factor(x) for x in q])
