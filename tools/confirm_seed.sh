#!/bin/sh
# tools/confirm_seed.sh <seeded dir with patch.diff + demo.cpp>  — confirm in the full-build scratch worktree
# (/var/tmp/seedfull): patch applies, builds, full ctest matches baseline, demo FAILS with / PASSES without the change.
set -u
D=$(realpath "$1"); W=${SEEDFULL:-/var/tmp/seedfull}; B=$W/_build
git -C $W checkout -q -- . ; git -C $W merge -q --ff-only $(git -C /repo rev-parse HEAD) 2>/dev/null || git -C $W checkout -q --detach $(git -C /repo rev-parse HEAD)
INC=$(grep "INCLUDES = " $B/build.ninja | tr ' ' '\n' | grep '^-I' | sort -u)
demo() { g++ -std=c++17 -O2 -DNDEBUG $INC $D/demo.cpp -L$B -lSimTKsimbody -lSimTKmath -lSimTKcommon -lpthread -Wl,-rpath,$B -o $W/../seed_demo_$(basename $W) 2>&1 | tail -3; $W/../seed_demo_$(basename $W) > $W/../seed_demo_$(basename $W).out 2>&1; echo "demo rc=$? $(tail -1 $W/../seed_demo_$(basename $W).out)"; }
git -C $W apply $D/patch.diff || { echo "PATCH DOES NOT APPLY"; exit 3; }
nice cmake --build $B -j10 2>&1 | grep -E "error|FAILED" | head -5
echo "--- with change:"; ctest --test-dir $B -j8 --timeout 900 2>&1 | grep -E "tests passed|Failed|\(Failed\)" ; demo
git -C $W checkout -q -- .
nice cmake --build $B -j10 2>&1 | grep -E "error|FAILED" | head -5
echo "--- without change:"; demo
