#!/usr/bin/env python3
"""print the seeding prompt for a property:  tools/seed_prompt.py C30 [k] [extra text]"""
import json, os, sys
ROOT = os.path.dirname(os.path.dirname(os.path.abspath(__file__)))
pid = sys.argv[1]; k = sys.argv[2] if len(sys.argv) > 2 else "1"; extra = sys.argv[3] if len(sys.argv) > 3 else ""
p = next(json.loads(l) for l in open(os.path.join(ROOT, "properties.jsonl")) if json.loads(l)["id"] == pid)
t = open(os.path.join(ROOT, "tools", "SEED_PROMPT.md")).read()
text = p["title"] + ". " + p["statement"] + " (Quantified over: " + p["quantifier"]["text"] + ")"
print(t.replace("{ID}", pid + "-" + k).replace("{PID}", pid).replace("{PROPERTY_TEXT}", text)
       .replace("{FILES}", ", ".join(p["anchors"]["files"][:8])).replace("{EXTRA}", extra))
