#!/usr/bin/env python3
"""Rewrites the generated tables of DESIGN.md §8 (between the AUTOGEN markers) from known_findings.json,
seeded/*/meta.json, notes/*.md headers and the evidence files."""
import glob, json, os, re
ROOT = os.path.dirname(os.path.dirname(os.path.abspath(__file__)))
kf = json.load(open(os.path.join(ROOT, "known_findings.json")))["findings"]
out = ["<!-- AUTOGEN-BEGIN (tools/gen_design_tables.py) -->", "",
       "### 8.2 Genuine defects found (generated from known_findings.json)", "",
       "Fixed in /repo by `fix:` commits (each shown first by the named check on the then-unchanged tree; a fixed entry suppresses nothing):", "",
       "| property | commit | what failed |", "|---|---|---|"]
for f in kf:
    if f["status"] == "fixed":
        out.append("| %s | %s | %s |" % (f["property"], f.get("commit", ""), f.get("line", f["what"]).replace("|", "\\|")))
out += ["", "Recorded as known findings (not repaired: no small safe patch, or a documented design decision that contradicts the property as worded); the check prints `KNOWN-FINDING` for exactly these keys:", "",
        "| property | key | what fails |", "|---|---|---|"]
for f in kf:
    if f["status"] == "known":
        out.append("| %s | `%s` | %s |" % (f["property"], f["key"], f["what"].replace("|", "\\|")[:400]))
out += ["", "### 8.3 Seeded changes (written by independent sub-agents from the property text only) and which checks catch them", "",
        "| seeded id | property | change | needs | confirmed (tests pass, demo fails/passes) | detected by |", "|---|---|---|---|---|---|"]
for d in sorted(glob.glob(os.path.join(ROOT, "seeded", "*"))):
    mp = os.path.join(d, "meta.json")
    if not os.path.exists(mp):
        continue
    m = json.load(open(mp))
    out.append("| %s | %s | %s | %s | %s | %s |" % (os.path.basename(d), m.get("property"), str(m.get("summary", ""))[:300].replace("|", "\\|").replace("\n", " "),
               str(m.get("needs", ""))[:250].replace("|", "\\|").replace("\n", " "), str(m.get("confirmed", "pending"))[:160].replace("|", "\\|"),
               str(m.get("detected_by") or (("as first written — " + m["detected_by_auto"]) if m.get("detected_by_auto") else "pending")).replace("|", "\\|")[:300]))
out += ["", "### 8.4 Per-property status (generated from checks/*.py, evidence/*.json; details in notes/Cnn.md)", "",
        "| property | theorems (discharged/obligations) | correspondence cases (quick) | max rel diff | partial clause (what is carried by contract / correspondence only) |", "|---|---|---|---|---|"]
import importlib, sys
sys.path.insert(0, ROOT)
for pid in ["C%02d" % i for i in range(1, 48)]:
    cp = os.path.join(ROOT, "checks", pid + ".py")
    if not os.path.exists(cp):
        out.append("| %s | not built | | | |" % pid); continue
    try:
        spec = getattr(importlib.import_module("checks." + pid), "SPEC")
    except Exception as e:
        spec = {}
    ev = {}
    ep = os.path.join(ROOT, "evidence", pid + ".json")
    if os.path.exists(ep):
        try: ev = json.load(open(ep)).get("coverage", {})
        except Exception: ev = {}
    out.append("| %s | %s/%s | %s | %s | %s |" % (pid, ev.get("discharged", "?"), ev.get("obligations", "?"), ev.get("evaluations", "?"),
               ("%.1e" % ev["max_rel_diff_seen"]) if isinstance(ev.get("max_rel_diff_seen"), float) else ev.get("max_rel_diff_seen", "?"),
               str(spec.get("partial") or "—").replace("|", "\\|").replace("\n", " ")[:500]))
out += ["", "<!-- AUTOGEN-END -->"]
p = os.path.join(ROOT, "DESIGN.md")
s = open(p).read()
block = "\n".join(out)
if "<!-- AUTOGEN-BEGIN" in s:
    s = re.sub(r"<!-- AUTOGEN-BEGIN.*?<!-- AUTOGEN-END -->", lambda m: block, s, flags=re.S)
else:
    i = s.index("### 8.2 Findings shown by the checks")
    s = s[:i] + block + "\n"
open(p, "w").write(s)
print("ok")
