#!/usr/bin/env python3
"""fills seeded/*/meta.json 'confirmed' from /tmp/coord/confirm_<id>.log and 'detected_by' from mutation logs when not set by hand"""
import glob, json, os, re
for d in sorted(glob.glob('/verif/seeded/*')):
    sid = os.path.basename(d); mp = os.path.join(d, 'meta.json')
    if not os.path.exists(mp): continue
    m = json.load(open(mp))
    m.setdefault('property', sid.split('-')[0])
    lg = '/tmp/coord/confirm_%s.log' % sid
    if os.path.exists(lg):
        t = open(lg).read()
        tp = re.search(r'(\d+)% tests passed, (\d+) tests failed out of (\d+)', t)
        demos = re.findall(r'demo rc=(\d+)', t)
        extra = [l.strip() for l in t.split('\n') if '(Failed)' in l and 'TestCustomConstraints' not in l and 'Test ' not in l]
        if tp and len(demos) == 2:
            ok = demos[0] != '0' and demos[1] == '0'
            m['confirmed'] = "tools/confirm_seed.sh: patch applies and builds; full ctest %s/%s pass%s; demo %s with the change / %s without" % (
                int(tp.group(3)) - int(tp.group(2)), tp.group(3),
                " (only the baseline-failing TestCustomConstraints fails)" if tp.group(2) == '1' else " (besides TestCustomConstraints also failing here: %s — timing-based test under machine load)" % ", ".join(extra),
                "FAILS" if demos[0] != '0' else "passes(!)", "PASSES" if demos[1] == '0' else "fails(!)")
            m['confirmed_ok'] = ok
    if 'detected_by' not in m or 'pending' in str(m.get('detected_by')):
        res = []
        for lgname in sorted(glob.glob('/tmp/coord/mut*_%s*.log' % sid)):
            t = open(lgname).read()
            for blk in re.split(r'^== ', t, flags=re.M)[1:]:
                prop = blk.split('\n')[0].strip()
                if 'VIOLATION' in blk:
                    res.append("%s: VIOLATION%s" % (prop, " (no-failing-input-found)" if 'no-failing-input-found' in blk and 'replay' in blk and blk.count('VIOLATION') == 1 else " with concrete input"))
                elif '\nOK ' in blk:
                    res.append("%s: not detected" % prop)
        if res:
            m['detected_by_auto'] = "; ".join(res)
    json.dump(m, open(mp, 'w'), indent=1)
print("ok")
