#!/bin/bash
# usage: tools/store_seed.sh Cnn-k   — copy a finished seed agent's deliverables into seeded/<id>/ and remove its scratch
set -e
s=$1
out=/tmp/seed-$s-out
[ -f $out/patch.diff ] || { echo "no $out/patch.diff"; exit 1; }
mkdir -p /verif/seeded/$s
cp $out/patch.diff $out/meta.json /verif/seeded/$s/
for f in $out/demo* $out/*.cpp $out/*.sh; do [ -f "$f" ] && [ ! -x "$f" -o "${f##*.}" != "" ] && case "$f" in *.cpp|*.sh|*.txt|*.md) cp "$f" /verif/seeded/$s/;; esac; done
git -C /repo worktree remove --force /tmp/seed-$s 2>/dev/null || rm -rf /tmp/seed-$s
rm -rf /tmp/seed-$s-build /tmp/seed-$s-out /tmp/seed-$s-fast /tmp/seed-$s-*.log
git -C /repo worktree prune
ls /verif/seeded/$s
