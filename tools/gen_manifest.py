#!/usr/bin/env python3
"""Regenerates MANIFEST.json from checks/*.py (each has SPEC or META) and tools/not_applicable.json."""
import importlib, json, os, sys
ROOT = os.path.dirname(os.path.dirname(os.path.abspath(__file__)))
sys.path.insert(0, ROOT)
props = [json.loads(l) for l in open(os.path.join(ROOT, "properties.jsonl"))]
checks, na = [], []
na_reasons = json.load(open(os.path.join(ROOT, "tools", "not_applicable.json")))
claimed = set(json.load(open(os.path.join(ROOT, "tools", "claimed.json"))))   # checks reviewed and accepted by the coordinator
for p in props:
    pid = p["id"]
    path = os.path.join(ROOT, "checks", pid + ".py")
    if not os.path.exists(path) or pid not in claimed:
        na.append(dict(property_id=pid, reason=na_reasons.get(pid, "not yet covered by a model + theorems + tie in this framework (work in progress, see DESIGN.md §7.2); not claimed")))
        continue
    mod = importlib.import_module("checks." + pid)
    spec = getattr(mod, "SPEC", None) or getattr(mod, "META")
    level = spec.get("level_text") or ("Lean 4 theorems about an executable model of the anchored code (all inputs/histories the property quantifies over), "
                                         "tied to /repo's current tree on every run by a differential correspondence check; "
                                         + ("PARTIAL: " + spec["partial"] if spec.get("partial") else "full"))
    checks.append(dict(
        property_id=pid,
        quick_cmd="bin/check %s --tier quick" % pid,
        thorough_cmd="bin/check %s --tier thorough" % pid,
        evidence_file="/verif/evidence/%s.json" % pid,
        replay_cmd_template="bin/check %s --replay {path}" % pid,
        engine="lean4-proof+correspondence",
        level_claimed=dict(category="proof", text=level, design_ref="DESIGN.md §5 " + pid),
        level_note=spec.get("level_note") or ("Trusted: Lean 4.33 kernel (axioms propext, Classical.choice, Quot.sound only; audited each run), the C++ harness + "
                    "native Lean driver + comparator, Float execution of the field-polymorphic model; " + "; ".join(spec.get("assumptions", []))),
        technique=spec.get("technique") or "Lean 4 machine-checked proof over an executable model + differential correspondence with the rebuilt libraries",
    ))
man = dict(
    version=1,
    setup_cmd="python3 tools/setup.py",
    hooks=dict(guard="SIMBODY_VERIF",
               enable="cmake -DCMAKE_CXX_FLAGS='-Wno-error -DSIMBODY_VERIF' (tools/vlib.py build_repo builds /repo's working tree into $VERIF_CACHE/build)",
               baseline_off_cmd="cmake --build /repo/_build -j8 && ctest --test-dir /repo/_build -j8 --timeout 900",
               source_commits=json.load(open(os.path.join(ROOT, "tools", "hook_commits.json"))),
               add_only=True),
    engines=[dict(name="lean4-proof+correspondence", path="/verif/bin/check",
                  serves_properties=[c["property_id"] for c in checks],
                  kind_free_text="Lean 4 proofs (lean/SimbodyProofs) about Mathlib-free executable models (lean/SimbodyModel) + C++ correspondence harnesses (harness/) + translator-generated tables")],
    checks=checks,
    notes="See DESIGN.md. known_findings.json lists genuine defects (fixed / known).",
    not_applicable=na,
)
json.dump(man, open(os.path.join(ROOT, "MANIFEST.json"), "w"), indent=1)
print("checks:", len(checks), "not claimed:", len(na))
