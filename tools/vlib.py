#!/usr/bin/env python3
"""Shared machinery of every check (see DESIGN.md §2.5).

Pipeline stages offered here:
  S0 build_repo()        incremental ninja of /repo's working tree (hooks on) into $VERIF_CACHE/build
  S2 lake_build()        compile the property's theorems and its native driver
  S3 audit()             forbidden-token grep + `#print axioms` for every property theorem
  S4 run_harness()/run_driver()/compare_*()   correspondence
  S6 Verdict             evidence file, KNOWN-FINDING / VIOLATION lines, exit code
Python stdlib only.
"""
import fcntl, hashlib, json, os, re, struct, subprocess, sys, time

VERIF = os.path.dirname(os.path.dirname(os.path.abspath(__file__)))
REPO = os.environ.get("VERIF_REPO", "/repo")
CACHE = os.environ.get("VERIF_CACHE", "/var/tmp/simbody-verif")
BUILD = os.path.join(CACHE, "build")
LEAN = os.path.join(VERIF, "lean")
GUARD = "SIMBODY_VERIF"
ALLOWED_AXIOMS = {"propext", "Classical.choice", "Quot.sound"}
FORBIDDEN = re.compile(r"\bsorry\b|\badmit\b|^\s*axiom\s|\bnative_decide\b|\bbv_decide\b|"
                       r"\bimplemented_by\b|\bunsafe\s|maxHeartbeats\s+0\b", re.M)
NCPU = os.cpu_count() or 4


def log(*a):
    print(*a, file=sys.stderr, flush=True)


class Lock:
    def __init__(self, name, shared=False, global_=False):
        # global_: the resource is shared by every cache (the one lake project in /verif/lean), so the lock must be too
        d = "/var/tmp/simbody-verif" if global_ else CACHE
        os.makedirs(d, exist_ok=True)
        self.path = os.path.join(d, name + ".lock")
        self.shared = shared

    def __enter__(self):
        self.f = open(self.path, "a")
        fcntl.flock(self.f, fcntl.LOCK_SH if self.shared else fcntl.LOCK_EX)
        return self

    def __exit__(self, *a):
        fcntl.flock(self.f, fcntl.LOCK_UN)
        self.f.close()


def sh(cmd, cwd=None, timeout=None, input=None, env=None):
    """run, return (rc, stdout, stderr)"""
    p = subprocess.run(cmd, cwd=cwd, shell=isinstance(cmd, str), capture_output=True, text=True,
                       timeout=timeout, input=input, env=env)
    return p.returncode, p.stdout, p.stderr


# --------------------------------------------------------------------------- S0
class BuildError(Exception):
    pass


def build_repo(targets=("SimTKcommon", "SimTKmath", "SimTKsimbody")):
    """Incremental hooks-on build of /repo's *current working tree*. Returns seconds spent."""
    t0 = time.time()
    # fast path: when the build is already up to date for the current working tree (ninja dry run says so), a shared lock
    # is enough, so one long-running check (which holds the lock shared while its harness runs) does not block the others
    if os.path.exists(os.path.join(BUILD, "build.ninja")):
        with Lock("build", shared=True):
            rc, o, e = sh(["ninja", "-C", BUILD, "-n", *targets])
            if rc == 0 and "no work to do" in o:
                return time.time() - t0
    with Lock("build"):
        if not os.path.exists(os.path.join(BUILD, "build.ninja")):
            os.makedirs(BUILD, exist_ok=True)
            rc, o, e = sh(["cmake", "-G", "Ninja", "-S", REPO, "-B", BUILD,
                           "-DCMAKE_BUILD_TYPE=RelWithDebInfo", "-DBUILD_TESTING=OFF",
                           "-DBUILD_EXAMPLES=OFF", "-DBUILD_VISUALIZER=OFF",
                           "-DCMAKE_CXX_FLAGS=-Wno-error -D" + GUARD])
            if rc != 0:
                raise BuildError("cmake configure failed:\n" + o[-2000:] + e[-2000:])
        rc, o, e = sh(["cmake", "--build", BUILD, "-j", str(NCPU), "--target", *targets])
        if rc != 0:
            raise BuildError("/repo does not build (hooks on):\n" + o[-4000:] + e[-2000:])
    return time.time() - t0


_flags_cache = None


def harness_flags():
    """include flags of the library build (read from build.ninja) + link flags"""
    global _flags_cache
    if _flags_cache is None:
        incs = set()
        with open(os.path.join(BUILD, "build.ninja")) as f:
            for line in f:
                if line.lstrip().startswith("INCLUDES = "):
                    for tok in line.split():
                        if tok.startswith("-I"):
                            incs.add(tok)
        _flags_cache = sorted(incs)
    return _flags_cache


def lib_stamp():
    s = ""
    for lib in ("libSimTKcommon.so", "libSimTKmath.so", "libSimTKsimbody.so"):
        p = os.path.realpath(os.path.join(BUILD, lib))
        st = os.stat(p)
        s += "%s:%d:%d;" % (lib, st.st_mtime_ns, st.st_size)
    return s


def header_stamp():
    """hash of mtimes+sizes of every header under /repo's include trees (harnesses inline header code)"""
    h = hashlib.sha256()
    for top in ("SimTKcommon", "SimTKmath", "Simbody"):
        for root, dirs, files in os.walk(os.path.join(REPO, top)):
            dirs.sort()
            for fn in sorted(files):
                if fn.endswith((".h", ".hpp")):
                    st = os.stat(os.path.join(root, fn))
                    h.update(("%s/%s:%d:%d;" % (root, fn, st.st_mtime_ns, st.st_size)).encode())
    return h.hexdigest()


def build_harness(name, extra=(), sanitize=False, opt="-O2"):
    """compile harness/<name>.cpp against the freshly built libraries; cached on source hash,
    header stamp and library stamp.  Uses the library's own NDEBUG/-std settings."""
    src = os.path.join(VERIF, "harness", name + ".cpp")
    hdir = os.path.join(VERIF, "harness")
    h = hashlib.sha256()
    for p in [src] + sorted(os.path.join(hdir, f) for f in os.listdir(hdir) if f.endswith(".h")):
        if os.path.exists(p):
            h.update(open(p, "rb").read())
    h.update(header_stamp().encode())
    h.update(lib_stamp().encode())
    h.update(repr((extra, sanitize, opt)).encode())
    outdir = os.path.join(CACHE, "harness")
    os.makedirs(outdir, exist_ok=True)
    exe = os.path.join(outdir, name + ("_san" if sanitize else ""))
    stamp = exe + ".stamp"
    key = h.hexdigest()
    with Lock("harness_" + name):
        if os.path.exists(exe) and os.path.exists(stamp) and open(stamp).read() == key:
            return exe
        cmd = ["g++", "-std=c++17", opt, "-g", "-DNDEBUG", "-D" + GUARD, "-Wno-deprecated-declarations",
               "-I" + os.path.join(VERIF, "harness"), *harness_flags(), *extra]
        if sanitize:
            cmd += ["-fsanitize=address,undefined", "-fno-sanitize-recover=all", "-fno-omit-frame-pointer"]
        cmd += [src, "-o", exe, "-L" + BUILD, "-lSimTKsimbody", "-lSimTKmath", "-lSimTKcommon",
                "-lpthread", "-Wl,-rpath," + BUILD]
        with Lock("build", shared=True):
            rc, o, e = sh(cmd, timeout=1800)
        if rc != 0:
            raise BuildError("harness %s does not compile against the current tree:\n%s" % (name, (o + e)[-6000:]))
        open(stamp, "w").write(key)
    return exe


# --------------------------------------------------------------------------- S2
def lake_build(targets, timeout=3000):
    with Lock("lake", global_=True):  # same lock file as tools/lk
        rc, o, e = sh(["lake", "build", *targets], cwd=LEAN, timeout=timeout)
    return rc == 0, (o + e)


def driver_path(prop):
    return os.path.join(LEAN, ".lake", "build", "bin", "drv_" + prop)


# --------------------------------------------------------------------------- S3
def strip_comments(src):
    # remove nested /- -/ comments and -- line comments (string literals with '--' are rare enough to ignore)
    out, i, depth = [], 0, 0
    n = len(src)
    while i < n:
        if src.startswith("/-", i):
            depth += 1; i += 2; continue
        if depth and src.startswith("-/", i):
            depth -= 1; i += 2; continue
        if depth:
            if src[i] == "\n":
                out.append("\n")
            i += 1; continue
        if src.startswith("--", i):
            while i < n and src[i] != "\n":
                i += 1
            continue
        out.append(src[i]); i += 1
    return "".join(out)


THEOREM_RE = re.compile(r"^\s*(?:@\[[^\]]*\]\s*)?(?:private\s+|protected\s+)?theorem\s+([A-Za-z_][\w.']*)", re.M)
NAMESPACE_RE = re.compile(r"^\s*(namespace|end)\s+([\w.]+)\s*$", re.M)


def theorems_in(path):
    """fully qualified names of the theorems stated in a Lean file (namespace tracking)."""
    src = strip_comments(open(path).read())
    names, stack = [], []
    for line in src.split("\n"):
        m = re.match(r"^\s*namespace\s+([\w.]+)\s*$", line)
        if m:
            stack.append(m.group(1)); continue
        m = re.match(r"^\s*end\s+([\w.]+)\s*$", line)
        if m and stack and stack[-1] == m.group(1):
            stack.pop(); continue
        m = THEOREM_RE.match(line)
        if m:
            nm = m.group(1)
            names.append(".".join(stack + [nm]) if not nm.startswith("_root_.") else nm[7:])
    return names


def lean_sources_of(module_files):
    return [os.path.join(LEAN, f) for f in module_files]


def audit(prop, prop_module, source_files):
    """Returns dict(obligations, discharged, axioms{thm: [...]}, problems[...]).
    prop_module: e.g. 'SimbodyProofs.C30' (its file holds the property theorems);
    source_files: every Lean file (relative to lean/) the property's proofs and model consist of."""
    problems = []
    for f in source_files:
        p = os.path.join(LEAN, f)
        if not os.path.exists(p):
            problems.append("missing source " + f); continue
        txt = strip_comments(open(p).read())
        for m in FORBIDDEN.finditer(txt):
            line = txt.count("\n", 0, m.start()) + 1
            problems.append("forbidden token %r in %s:%d" % (m.group(0).strip(), f, line))
    pfile = os.path.join(LEAN, prop_module.replace(".", "/") + ".lean")
    thms = theorems_in(pfile)
    audit_dir = os.path.join(CACHE, "audit")
    os.makedirs(audit_dir, exist_ok=True)
    af = os.path.join(audit_dir, prop + ".lean")
    with open(af, "w") as f:
        f.write("import %s\n" % prop_module)
        for t in thms:
            f.write("#print axioms %s\n" % t)
    rc, o, e = sh(["lake", "env", "lean", af], cwd=LEAN, timeout=1200)
    axioms, cur = {}, None
    text = o + e
    # output forms: "'X' depends on axioms: [a, b]" (may wrap lines) / "'X' does not depend on any axioms"
    for m in re.finditer(r"'(\S+?)' (does not depend on any axioms|depends on axioms: \[([^\]]*)\])", text, re.S):
        name = m.group(1)
        axs = [] if m.group(3) is None else [a.strip() for a in m.group(3).replace("\n", " ").split(",") if a.strip()]
        axioms[name] = axs
    discharged = 0
    for t in thms:
        if t not in axioms:
            problems.append("theorem %s: no axiom report (did not compile?)" % t); continue
        bad = [a for a in axioms[t] if a not in ALLOWED_AXIOMS]
        if bad:
            problems.append("theorem %s depends on non-whitelisted axioms %s" % (t, bad)); continue
        discharged += 1
    if rc != 0:
        problems.append("audit file failed to elaborate: " + text[-1500:])
    return dict(obligations=len(thms), discharged=discharged, axioms=axioms, problems=problems, theorems=thms)


def leanchecker(module):
    rc, o, e = sh(["lake", "env", "leanchecker", module], cwd=LEAN, timeout=3000)
    return rc == 0, (o + e)[-2000:]


# --------------------------------------------------------------------------- S4 helpers
def hex2f(s):
    return struct.unpack(">d", bytes.fromhex(s))[0]


def f2hex(x):
    return struct.pack(">d", x).hex()


def run_prog(cmd, input=None, timeout=3000, env=None):
    """run a harness / driver; holds the build lock in SHARED mode so that a concurrent relink of the
    libraries (build_repo takes it exclusively) cannot be observed half-written"""
    t0 = time.time()
    with Lock("build", shared=True):
        rc, o, e = sh(cmd, input=input, timeout=timeout, env=env)
    return rc, o, e, time.time() - t0


def io_records(text):
    """split a case file into [(input_line, [output_lines], [pred_lines], tol)]; an optional line
    `T <rtol> <atol>` after an I line overrides the comparison tolerance of that record"""
    recs, cur = [], None
    for ln in text.split("\n"):
        if ln.startswith("I "):
            cur = [ln, [], [], None]; recs.append(cur)
        elif ln.startswith("T ") and cur is not None:
            t = ln.split(); cur[3] = (float(t[1]), float(t[2]))
        elif ln.startswith("O ") and cur is not None:
            cur[1].append(ln)
        elif ln.startswith("P ") and cur is not None:
            cur[2].append(ln)
    return recs


def is_hex16(t):
    return len(t) == 16 and all(c in "0123456789abcdef" for c in t)


def compare_outputs(impl_line, model_line, rtol=1e-9, atol=1e-12):
    """compare two 'O fn tok...' lines: hex16 tokens as doubles within tolerance (scale = max magnitude
    in the record, NaN compared as a class), other tokens exactly.  Returns (ok, worst_rel)."""
    import math
    a, b = impl_line.split(), model_line.split()
    if len(a) != len(b):
        return False, float("inf")
    va, vb, pos = [], [], []
    for i, (x, y) in enumerate(zip(a, b)):
        if is_hex16(x) and is_hex16(y):
            va.append(hex2f(x)); vb.append(hex2f(y)); pos.append(i)
        elif x != y:
            return False, float("inf")
    scale = max([abs(v) for v in va + vb if math.isfinite(v)] + [0.0])
    worst = 0.0
    for x, y in zip(va, vb):
        if math.isnan(x) or math.isnan(y):
            if math.isnan(x) != math.isnan(y):
                return False, float("inf")
            continue
        if math.isinf(x) or math.isinf(y):
            if x != y:
                return False, float("inf")
            continue
        d = abs(x - y)
        tol = atol * max(scale, 1.0) + rtol * scale
        rel = d / scale if scale > 0 else d
        worst = max(worst, rel)
        if d > tol:
            return False, rel
    return True, worst


# --------------------------------------------------------------------------- known findings
def load_known():
    p = os.path.join(VERIF, "known_findings.json")
    if not os.path.exists(p):
        return []
    return json.load(open(p)).get("findings", [])


# --------------------------------------------------------------------------- S6
class Verdict:
    """collects what a run found and produces evidence, output lines and the exit code."""

    def __init__(self, prop, tier, seed):
        self.prop, self.tier, self.seed = prop, tier, seed
        self.t0 = time.time()
        self.violations = []      # dict(kind, what, key, replay{...})
        self.coverage = {}
        self.assumptions = []
        self.notes = []

    def violation(self, kind, what, key=None, replay=None, found_input=True, value=None):
        """kind: 'impl' (the implementation fails the property's predicate on a concrete input),
        'proof' (obligation no longer checks), 'corr' (model and implementation differ)"""
        self.violations.append(dict(kind=kind, what=what, key=key, replay=replay or {}, found_input=found_input, value=value))

    def finish(self):
        known = [k for k in load_known() if k.get("property") == self.prop and k.get("status") == "known"]
        out_dir = os.environ.get("VERIF_EVIDENCE_DIR") or os.path.join(VERIF, "evidence")
        os.makedirs(out_dir, exist_ok=True)
        replay_dir = os.path.join(out_dir, "replay")
        os.makedirs(replay_dir, exist_ok=True)
        exit_code, nviol, lines = 0, 0, []
        seen_known = set()
        # concrete implementation failures first (they are the replay for a broken obligation, if any)
        concrete = [v for v in self.violations if v["found_input"]]
        abstract = [v for v in self.violations if not v["found_input"]]
        unmatched = []
        known_vals = {}
        for v in concrete:
            k = next((k for k in known if v["key"] is not None and k.get("key") == v["key"]), None)
            if k is not None and k.get("cap") is not None:
                # a listed finding is identified by its key AND its magnitude: a failure of the same class that is
                # worse than anything seen when the finding was recorded (cap = 10x the clean-tree maximum) is reported
                val = v.get("value")
                if val is None or not (val == val) or val > k["cap"]:
                    if not (k.get("cap_allows_nonfinite") and (val is None or val != val or val == float("inf"))):
                        k = None
            if k is not None:
                val = v.get("value")
                if isinstance(val, float) and val == val and val != float("inf"):
                    known_vals[k["key"]] = max(known_vals.get(k["key"], 0.0), val)
                if k["key"] not in seen_known:
                    seen_known.add(k["key"])
                    lines.append("KNOWN-FINDING: property=%s %s" % (self.prop, k.get("what", v["what"])))
            else:
                unmatched.append(v)
        idx = 0
        for v in unmatched:
            idx += 1
            rp = os.path.join(replay_dir, "%s_%s_%d_%d.json" % (self.prop, self.tier, self.seed, idx))
            json.dump(dict(property=self.prop, tier=self.tier, seed=self.seed, kind=v["kind"], what=v["what"],
                           key=v["key"], case=v["replay"]), open(rp, "w"), indent=1)
            lines.append("VIOLATION property=%s replay=%s" % (self.prop, rp))
            nviol += 1
            if idx >= 5:
                break
        if abstract and not unmatched:
            # An obligation / the correspondence broke and no unlisted failing input exists.  If every
            # concrete failure is a listed finding AND the break is fully explained by them the caller must
            # not have raised an abstract violation; what is left here is unexplained.
            v = abstract[0]
            rp = os.path.join(replay_dir, "%s_%s_%d_nofail.json" % (self.prop, self.tier, self.seed))
            json.dump(dict(property=self.prop, tier=self.tier, seed=self.seed, kind=v["kind"],
                           no_longer_checks=v["what"], details=[a["what"] for a in abstract],
                           case=v["replay"]), open(rp, "w"), indent=1)
            lines.append("VIOLATION property=%s replay=%s no-failing-input-found" % (self.prop, rp))
            nviol += 1
        if nviol:
            exit_code = 1
        cov = dict(self.coverage)
        ev = dict(property_id=self.prop, tier=self.tier, seed=self.seed, level="proof", coverage=cov,
                  assumptions=self.assumptions, wall_s=round(time.time() - self.t0, 2), violations=nviol,
                  known_findings_reported=sorted(seen_known), known_finding_max_values=known_vals, notes=self.notes)
        json.dump(ev, open(os.path.join(out_dir, self.prop + ".json"), "w"), indent=1, default=str)
        for ln in lines:
            print(ln, flush=True)
        if not nviol:
            print("OK property=%s tier=%s seed=%d obligations=%s/%s evaluations=%s wall=%.1fs" % (
                self.prop, self.tier, self.seed, cov.get("discharged"), cov.get("obligations"),
                cov.get("evaluations"), time.time() - self.t0), flush=True)
        return exit_code


TRUSTED_BASE = [
    "Lean 4.33.0 kernel; axioms allowed in property theorems: propext, Classical.choice, Quot.sound (audited by #print axioms on every run; no native_decide/bv_decide/sorry/admit/custom axioms)",
    "Mathlib v4.33.0 modules imported individually by the proof files",
    "correspondence harness (harness/*.cpp, harness/hcommon.h), the native Lean driver's I/O, tools/vlib.py comparator",
    "Float execution of the model (IEEE binary64, libm) is compared within tolerance; theorems are over arbitrary (ordered) fields",
]
