#!/bin/sh
# tools/mutrun.sh <patch.diff> <Cnn> [Cnn...]   — run checks against a seeded change in the private mutation sandbox
# (worktree /var/tmp/mutrepo + build cache /var/tmp/mutcache), leaving /repo and the shared build untouched.
set -u
# one mutation run at a time (the sandbox worktree is shared)
exec 9>/var/tmp/mutrun.lock; flock 9
PATCH=$(realpath "$1"); shift
git -C /var/tmp/mutrepo checkout -q -- . && git -C /var/tmp/mutrepo checkout -q --detach $(git -C /repo rev-parse HEAD) && git -C /var/tmp/mutrepo apply "$PATCH" || { echo "patch does not apply"; exit 3; }
export VERIF_REPO=/var/tmp/mutrepo VERIF_CACHE=/var/tmp/mutcache VERIF_EVIDENCE_DIR=/var/tmp/mutcache/evidence
for p in "$@"; do
  echo "== $p"; /verif/bin/check "$p" 2>/dev/null | grep -E "^(VIOLATION|OK|ERROR)" | head -6
done
git -C /var/tmp/mutrepo checkout -q -- .
