#!/bin/sh
# tools/mutrun.sh <patch.diff> <Cnn> [Cnn...]   — run checks against a seeded change in the private mutation sandbox
# (worktree $MR + build cache $MC), leaving /repo and the shared build untouched.
set -u
# one mutation run at a time (the sandbox worktree is shared)
L=${MUTLANE:-}; MR=/var/tmp/mutrepo$L; MC=/var/tmp/mutcache$L
exec 9>/var/tmp/mutrun$L.lock; flock 9
PATCH=$(realpath "$1"); shift
git -C $MR checkout -q -- . && git -C $MR checkout -q --detach $(git -C /repo rev-parse HEAD) && git -C $MR apply "$PATCH" || { echo "patch does not apply"; exit 3; }
export VERIF_REPO=$MR VERIF_CACHE=$MC VERIF_EVIDENCE_DIR=$MC/evidence
for p in "$@"; do
  echo "== $p"; /verif/bin/check "$p" 2>/dev/null | grep -E "^(VIOLATION|OK|ERROR)" | head -6
done
git -C $MR checkout -q -- .
