#!/usr/bin/env python3
"""The standard S0..S6 pipeline (DESIGN.md §2.5) parameterised by a per-property spec.

A spec (checks/Cnn.py: SPEC) is a dict:
  prop            'C30'
  proof_module    'SimbodyProofs.C30'        file with the property theorems
  sources         [lean files, relative to lean/] making up model + proofs + driver (for the token audit)
  lake_targets    extra lake targets (the proof module and drv_<prop> are always built)
  harness         name of harness/<name>.cpp (default prop)
  flow            'harness_first' (harness generates inputs, driver answers)   [default]
                  'driver_first'  (Lean driver generates legal op sequences + expected observations,
                                   harness replays them on the implementation)
  n               {'quick': N, 'thorough': N}   cases (passed as --n)
  modes           list of --mode values to run (default [''])
  rtol, atol      float comparison tolerances (kind A); 0,0 for exact (kind D)
  gen             optional callable(ctx) run before the lake build (translator: regenerates Gen/*.lean)
  post            optional callable(ctx, verdict) for extra property-specific stages
  trusted         extra trusted-base strings;  assumptions: list;  partial: str or None
  sanitize        build the harness with ASan/UBSan (container properties)
"""
import collections, json, os, sys, time
from . import vlib
from .vlib import Verdict, log


def run(spec, tier, seed, replay=None):
    prop = spec["prop"]
    V = Verdict(prop, tier, seed)
    ctx = dict(spec=spec, tier=tier, seed=seed, replay=replay)
    # ---- S0 build /repo
    try:
        tb = vlib.build_repo()
    except vlib.BuildError as e:
        log(str(e))
        print("ERROR property=%s /repo working tree does not build with hooks on; nothing checked" % prop)
        return 2
    log("[%s] S0 repo build %.1fs" % (prop, tb))
    # ---- S1 translator
    gen_info = None
    if spec.get("gen"):
        gen_info = spec["gen"](ctx)
        log("[%s] S1 tables regenerated: %s" % (prop, gen_info))
    # ---- S2 obligations compile?
    targets = [spec["proof_module"], "drv_" + prop] + list(spec.get("lake_targets", []))
    t0 = time.time()
    ok_proofs, out = vlib.lake_build([spec["proof_module"]] + list(spec.get("lake_targets", [])))
    ok_drv, out2 = vlib.lake_build(["drv_" + prop])
    log("[%s] S2 lake build proofs=%s driver=%s %.1fs" % (prop, ok_proofs, ok_drv, time.time() - t0))
    if not ok_drv:
        log(out2[-3000:])
        print("ERROR property=%s the Lean driver does not build" % prop)
        return 2
    # ---- S3 audit
    aud = vlib.audit(prop, spec["proof_module"], spec["sources"]) if ok_proofs else \
        dict(obligations=len(vlib.theorems_in(os.path.join(vlib.LEAN, spec["proof_module"].replace(".", "/") + ".lean"))),
             discharged=0, axioms={}, problems=["lake build of %s failed:\n%s" % (spec["proof_module"], out[-3000:])], theorems=[])
    if tier == "thorough" and ok_proofs:
        okc, outc = vlib.leanchecker(spec["proof_module"])
        V.coverage["leanchecker"] = "ok" if okc else "FAILED"
        if not okc:
            aud["problems"].append("leanchecker rejected %s: %s" % (spec["proof_module"], outc))
    proof_broken = bool(aud["problems"]) or aud["discharged"] != aud["obligations"] or aud["obligations"] == 0
    # ---- S4 correspondence
    corr = correspondence(ctx, V)
    # ---- S5 verdict assembly
    if proof_broken:
        V.violation("proof", "proof obligations of %s no longer check: %s" % (spec["proof_module"], "; ".join(aud["problems"])[:3000]),
                    found_input=False, replay=dict(problems=aud["problems"], gen=gen_info))
    if spec.get("post"):
        spec["post"](ctx, V)
    axs = sorted({a for l in aud["axioms"].values() for a in l})
    V.coverage.update(dict(
        obligations=aud["obligations"], discharged=aud["discharged"],
        checker_cmd="cd /verif/lean && lake build %s && lake env lean <audit file with #print axioms for each theorem>%s" % (
            spec["proof_module"], " && lake env leanchecker " + spec["proof_module"] if tier == "thorough" else ""),
        trusted_base=vlib.TRUSTED_BASE + list(spec.get("trusted", [])) + ["axioms actually used by the property theorems this run: %s" % axs],
        theorems=aud.get("theorems", []),
        translator=gen_info,
    ))
    V.coverage.update(corr)
    V.assumptions = list(spec.get("assumptions", []))
    if spec.get("partial"):
        V.assumptions.append("PARTIAL: " + spec["partial"])
    return V.finish()


def correspondence(ctx, V):
    spec, tier, seed = ctx["spec"], ctx["tier"], ctx["seed"]
    prop = spec["prop"]
    hname = spec.get("harness", prop)
    try:
        hexe = vlib.build_harness(hname, sanitize=spec.get("sanitize", False))
    except vlib.BuildError as e:
        # the harness uses only the public API; if it no longer compiles the tie cannot be established
        V.violation("corr", "correspondence harness no longer compiles against the current tree: " + str(e)[-1500:], found_input=False)
        return dict(evaluations=0, distinct_nontrivial=0, rule="harness did not compile", samples=[])
    drv = vlib.driver_path(prop)
    n = spec.get("n", {}).get(tier, 200 if tier == "quick" else 5000)
    rtol, atol = spec.get("rtol", 1e-9), spec.get("atol", 1e-12)
    modes = spec.get("modes", [""])
    flow = spec.get("flow", "harness_first")
    evals, mism, predfail, worst = 0, 0, 0, 0.0
    dist = collections.Counter()
    distinct = set()
    samples = []
    first_mismatch = None
    corpus_dir = os.path.join(vlib.VERIF, "corpus", prop)
    corpus = sorted(os.listdir(corpus_dir)) if os.path.isdir(corpus_dir) else []
    runs = [("corpus", os.path.join(corpus_dir, c)) for c in corpus if c.endswith(".case")] + [("gen", m) for m in modes]
    if ctx.get("replay"):
        rp = ctx["replay"]
        try:    # a replay JSON written by Verdict.finish: extract the input record(s) into a case file
            j = json.load(open(rp))
            case = j.get("case", {})
            lines = [case["input"]] if "input" in case else case.get("ops", "").split("\n")
            rp = os.path.join(vlib.CACHE, "replay_%s.case" % prop)
            open(rp, "w").write("\n".join(lines) + "\n")
        except (ValueError, KeyError):
            pass
        runs = [("corpus", rp)]
    for kind, m in runs:
        margs = ["--seed", str(seed), "--n", str(n)] + (["--mode", m] if (kind == "gen" and m) else [])
        if flow == "harness_first":
            if kind == "corpus":
                # a corpus case is a list of I-lines; the harness re-runs exactly those
                rc, impl_txt, err, dt = vlib.run_prog([hexe, "--mode", "replay"], input=open(m).read())
            else:
                rc, impl_txt, err, dt = vlib.run_prog([hexe] + margs)
            if rc != 0:
                V.violation("impl", "harness aborted (rc=%d) mode=%s: %s" % (rc, m, err[-1500:]), key="%s.abort.%s" % (prop, m),
                            replay=dict(cmd=[hexe] + margs, stderr=err[-3000:]))
                continue
            rc2, model_txt, err2, dt2 = vlib.run_prog([drv], input=impl_txt)
        else:
            if kind == "corpus":
                model_txt = open(m).read(); rc2, err2 = 0, ""
            else:
                rc2, model_txt, err2, dt2 = vlib.run_prog([drv, "gen", str(seed), str(n)] + ([m] if m else []))
            if rc2 == 0:
                rc, impl_txt, err, dt = vlib.run_prog([hexe, "--mode", "replay"], input=model_txt)
                if rc != 0:
                    V.violation("impl", "harness aborted (rc=%d) replaying model-generated ops mode=%s: %s" % (rc, m, err[-1500:]),
                                key="%s.abort.%s" % (prop, m), replay=dict(stderr=err[-3000:], ops=model_txt[:20000]))
                    continue
        if rc2 != 0:
            V.violation("corr", "Lean driver failed (rc=%d): %s" % (rc2, err2[-1500:]), found_input=False)
            continue
        ri, rm = vlib.io_records(impl_txt), vlib.io_records(model_txt)
        for ln in impl_txt.split("\n"):
            if ln.startswith("D "):
                dist[ln[2:].strip()] += 1
        if len(ri) != len(rm):
            V.violation("corr", "record count differs (impl %d, model %d) mode=%s" % (len(ri), len(rm), m), found_input=False)
            continue
        for (iin, iout, ipred, itol), (min_, mout, _, _) in zip(ri, rm):
            evals += 1
            distinct.add(iin)
            if len(samples) < 3:
                samples.append(dict(input=iin, impl=iout[:4], model=mout[:4], predicates=ipred[:4]))
            bad_known_or_not = []
            for pl in ipred:
                t = pl.split()
                # P pred key value bound
                val = None
                try:
                    val, bound = float(t[3]), float(t[4])
                    okp = val <= bound
                except Exception:
                    okp = False
                if not okp:
                    predfail += 1
                    bad_known_or_not.append(t[2])
                    V.violation("impl", "implementation violates predicate %s on a concrete input (value %s > bound %s)" % (t[1], t[3], t[4]),
                                key=t[2], replay=dict(input=iin, impl_output=iout, model_output=mout, predicate=pl, mode=m, seed=seed),
                                value=val)
            if iin != min_:
                V.violation("corr", "driver/harness input echo differs", found_input=False); break
            okrec = len(iout) == len(mout)
            if okrec:
                for a, b in zip(iout, mout):
                    okl, w = vlib.compare_outputs(a, b, *(itol or (rtol, atol)))
                    if w != float("inf"):
                        worst = max(worst, w)
                    okrec = okrec and okl
            if not okrec:
                mism += 1
                if not bad_known_or_not:
                    if first_mismatch is None:
                        first_mismatch = dict(input=iin, impl_output=iout, model_output=mout, mode=m, seed=seed)
                    V.violation("corr", "model and implementation differ on %s" % iin[:200], found_input=False,
                                replay=first_mismatch)
    return dict(evaluations=evals, distinct_nontrivial=len(distinct),
                rule=spec.get("rule", "cases are generated from VERIF_SEED by the harness/driver generator; distinct = distinct input records"),
                samples=samples, mismatches=mism, predicate_failures=predfail, max_rel_diff_seen=worst,
                path_distribution=dict(dist), corpus_cases=len(corpus), rtol=rtol, atol=atol, flow=flow)
