#!/bin/bash
# tools/verify_all.sh <tier> <seed> [jobs] [Cnn ...]  — run the registered check of every claimed property (or the listed ones)
# against /repo itself; prints one line per property and a summary; log per property under $VERIF_CACHE/verify/.
# Seed 1 writes /verif/evidence (the committed evidence); other seeds write to $VERIF_CACHE/evidence_s<seed>.
tier=${1:-quick}; seed=${2:-1}; jobs=${3:-4}; shift 3 2>/dev/null
cd "$(dirname "$0")/.."
cache=${VERIF_CACHE:-/var/tmp/simbody-verif}
out=$cache/verify/${tier}_s$seed; mkdir -p "$out"
props=("$@"); [ ${#props[@]} -eq 0 ] && props=($(python3 -c "import json;print(' '.join(json.load(open('tools/claimed.json'))))"))
[ "$seed" != 1 ] && export VERIF_EVIDENCE_DIR=$cache/evidence_s$seed
[ "$tier" = thorough ] && export VERIF_EVIDENCE_DIR=$cache/evidence_thorough
export VERIF_SEED=$seed
run1() { p=$1; s=$(date +%s); bin/check $p --tier $tier > $out/$p.log 2>&1; rc=$?; e=$(date +%s)
  echo "$p rc=$rc $((e-s))s $(grep -cE '^KNOWN-FINDING' $out/$p.log) known; $(grep -E '^(VIOLATION|OK|ERROR)' $out/$p.log | head -2 | tr '\n' ' ' | cut -c1-160)"; }
export -f run1; export tier out
printf "%s\n" "${props[@]}" | xargs -P $jobs -I{} bash -c 'run1 {}' | tee $out/SUMMARY.txt
echo "== not ok:"; grep -v "rc=0" $out/SUMMARY.txt || echo none
