#!/usr/bin/env python3
"""setup_cmd: build the hooks-on libraries of /repo into $VERIF_CACHE and the whole Lean project (offline)."""
import os, sys, subprocess, time
ROOT = os.path.dirname(os.path.dirname(os.path.abspath(__file__)))
sys.path.insert(0, ROOT)
from tools import vlib
t0 = time.time()
print("building /repo (hooks on) ...", flush=True)
print("  %.0fs" % vlib.build_repo(), flush=True)
print("lake build (models, proofs, drivers) ...", flush=True)
drivers = ["drv_" + f[:-3] for f in sorted(os.listdir(os.path.join(ROOT, "checks"))) if f.startswith("C") and f.endswith(".py")]
ok, out = vlib.lake_build(["SimbodyModel", "SimbodyProofs"] + drivers, timeout=7200)
print(out[-3000:] if not ok else "  ok", flush=True)
print("setup done in %.0fs" % (time.time() - t0))
sys.exit(0 if ok else 1)
