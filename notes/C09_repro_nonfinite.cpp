// C09 finding "projectQ.nonfinite.success_sound": projection reports SUCCESS while the state is NaN.
// Every accept/reject decision of projectQ/projectU is written as `norm > accuracy` (reject) — a NaN norm compares
// false and falls through to `Succeeded`; with UseInfinityNorm, VectorBase::normInf even DROPS NaN elements
// (`if (a > maxabs)`) and reports exit norm 0.
// Deterministic trigger on the current tree: a Ball whose quaternion has length zero (normalisation = 0/0).
// (Before /repo commit 00d38aae "FactorQTZ::solve left the solution uninitialized for a rank 0 matrix" the same
//  outcome — Succeeded, q = inf, qerr = NaN, also through System::project(state, acc) without any exception — was
//  reached from perfectly finite input: Slider along x, Constraint::Rod(Ground,(0,5,0), body,(0,0,0), 0.1) at q = 0.)
// Build: g++ -std=c++17 -O2 -DNDEBUG <simbody include flags> C09_repro_nonfinite.cpp -lSimTKsimbody -lSimTKmath -lSimTKcommon
#include "Simbody.h"
#include <cstdio>
using namespace SimTK;
int main() {
    MultibodySystem system; SimbodyMatterSubsystem matter(system);
    Body::Rigid body(MassProperties(1, Vec3(0), UnitInertia(1)));
    MobilizedBody::Ball b1(matter.Ground(), Transform(), body, Transform());
    State s0 = system.realizeTopology(); system.realizeModel(s0);
    for (int inf = 0; inf < 2; ++inf) {
        State s = s0; s.updQ() = Vector(4, 0.0);                 // zero-length quaternion
        system.realize(s, Stage::Position);
        ProjectOptions o(1e-6); o.setOption(ProjectOptions::DontThrow); if (inf) o.setOption(ProjectOptions::UseInfinityNorm);
        ProjectResults r; Vector none;
        system.projectQ(s, none, o, r);
        std::printf("projectQ(%s norm): status=%d (0=Succeeded) anyChange=%d normOnEntrance=%g normOnExit=%g  q = %g %g %g %g  qerr = %g\n",
                    inf ? "infinity" : "RMS", (int)r.getExitStatus(), (int)r.getAnyChangeMade(), r.getNormOnEntrance(), r.getNormOnExit(),
                    s.getQ()[0], s.getQ()[1], s.getQ()[2], s.getQ()[3], s.getQErr()[0]);
    }
    { State s = s0; s.updQ() = Vector(4, 0.0);
      try { system.project(s, 1e-6); std::printf("System::project(s,1e-6) returned normally (no exception); q[0] = %g\n", s.getQ()[0]); }
      catch (const std::exception& e) { std::printf("System::project threw\n"); } }

    // Second trigger, FINITE ordinary input, velocity level: a Pin with the nonholonomic constraint 1 + u^2/2 = 0 (no real
    // solution).  projectU's fixed-Jacobian Newton iteration started at u = 1e-7 grows super-exponentially, u overflows within
    // its 7 iterations, the error norm becomes NaN and the call reports Succeeded.
    {
        MultibodySystem sys2; SimbodyMatterSubsystem m2(sys2);
        MobilizedBody::Pin p1(m2.Ground(), Transform(), body, Transform());
        Vector coef(3); coef[0] = 0.5; coef[1] = 0; coef[2] = 1;            // 0.5 u^2 + 0 u + 1
        Array_<MobilizedBodyIndex> mb; Array_<MobilizerUIndex> ui; mb.push_back(p1.getMobilizedBodyIndex()); ui.push_back(MobilizerUIndex(0));
        Constraint::SpeedCoupler(m2, new Function::Polynomial(coef), mb, ui);
        State s = sys2.realizeTopology(); sys2.realizeModel(s);
        s.updU()[0] = 1e-7;
        sys2.realize(s, Stage::Velocity);
        ProjectOptions o(1e-6); o.setOption(ProjectOptions::DontThrow);
        ProjectResults r; Vector none;
        sys2.projectU(s, none, o, r);
        std::printf("projectU: status=%d (0=Succeeded) iterations=%d normOnEntrance=%g normOnExit=%g  u = %g  uerr = %g\n",
                    (int)r.getExitStatus(), r.getNumIterations(), r.getNormOnEntrance(), r.getNormOnExit(), s.getU()[0], s.getUErr()[0]);
        State t = sys2.realizeTopology(); sys2.realizeModel(t); t.updU()[0] = 1e-7;
        try { sys2.project(t, 1e-6); std::printf("System::project(t,1e-6) returned normally (no exception); u = %g\n", t.getU()[0]); }
        catch (const std::exception& e) { std::printf("System::project threw\n"); }
    }
    return 0;
}
