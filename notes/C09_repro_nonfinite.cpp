// C09 finding "projectQ.nonfiniteNewton.success_sound": projection reports SUCCESS with q = inf, qerr = NaN.
// Slider along x; Rod of length 0.1 from the Ground point (0,5,0) to the body origin.  At q = 0 the Rod's Jacobian
// d|p|/dq = q/|p| vanishes and the Rod cannot be satisfied at all (distance to the line is 5 > 0.1).
// Build: g++ -std=c++17 -O2 -DNDEBUG <simbody include flags> C09_repro_nonfinite.cpp -lSimTKsimbody -lSimTKmath -lSimTKcommon
#include "Simbody.h"
#include <cstdio>
using namespace SimTK;
int main() {
    MultibodySystem system; SimbodyMatterSubsystem matter(system);
    Body::Rigid body(MassProperties(1, Vec3(0), UnitInertia(1)));
    MobilizedBody::Slider b1(matter.Ground(), Transform(), body, Transform());
    Constraint::Rod(matter.Ground(), Vec3(0, 5, 0), b1, Vec3(0), 0.1);
    State s0 = system.realizeTopology(); system.realizeModel(s0);
    { State s = s0;
      try { system.project(s, 1e-6); std::printf("System::project(s,1e-6) returned normally (no exception)\n"); }
      catch (const std::exception& e) { std::printf("System::project threw: %s\n", e.what()); }
      system.realize(s, Stage::Position);
      std::printf("  q = %g   qerr = %g\n", s.getQ()[0], s.getQErr()[0]); }
    for (int inf = 0; inf < 2; ++inf) {
        State s = s0; system.realize(s, Stage::Position);
        ProjectOptions o(1e-6); o.setOption(ProjectOptions::DontThrow); if (inf) o.setOption(ProjectOptions::UseInfinityNorm);
        ProjectResults r; Vector none;
        system.projectQ(s, none, o, r);
        std::printf("projectQ(%s norm): status=%d (0=Succeeded) iterations=%d normOnEntrance=%g normOnExit=%g   q = %g   qerr = %g\n",
                    inf ? "infinity" : "RMS", (int)r.getExitStatus(), r.getNumIterations(), r.getNormOnEntrance(), r.getNormOnExit(),
                    s.getQ()[0], s.getQErr()[0]);
    }
    return 0;
}
