// Repro for C11 finding `traj.contact.account.highDissipation`:
// CompliantContactSubsystem, Hertz sphere contact with Hunt-Crossley dissipation c (CompliantContactSubsystem.cpp:787-805):
// when fNormal = fH*(1 + 1.5*c*xdot) <= 0 (fast separation, "yanking") the force is set to 0 AND the stored elastic potential
// energy 2/5*fH*x is reported as 0 AND the power loss as 0.  The reported potential energy therefore depends on the VELOCITY,
// and KE + PE + getDissipatedEnergy() drops by the stored PE when a trajectory crosses xdot = -1/(1.5 c) while still compressed.
// (The mesh/brick variant at line 1345 accounts for it: "powerLoss = -fK*xdot".)
// Here: a sphere compressed 2 cm against the plane, at rest, pulled away by a strong uniform field (conservative, its PE is
// counted); E + dissipated must stay constant.   usage: repro <c>      (c = 0.8: loss of ~5.8 J;  c = 0.01: constant)
#include "Simbody.h"
#include <cstdio>
using namespace SimTK;
int main(int argc, char** argv) {
    double c = argc > 1 ? atof(argv[1]) : 0.8;
    MultibodySystem sys; SimbodyMatterSubsystem matter(sys); GeneralForceSubsystem forces(sys);
    ContactTrackerSubsystem tracker(sys); CompliantContactSubsystem contact(sys, tracker);
    contact.setTrackDissipatedEnergy(true);
    Force::UniformGravity(forces, matter, Vec3(0, +2000, 0));
    matter.Ground().updBody().addContactSurface(Transform(Rotation(-Pi / 2, ZAxis), Vec3(0)),
        ContactSurface(ContactGeometry::HalfSpace(), ContactMaterial(1e6, c, 0, 0, 0)));
    Body::Rigid body(MassProperties(1.0, Vec3(0), Inertia(0.04)));
    body.addContactSurface(Transform(), ContactSurface(ContactGeometry::Sphere(0.3), ContactMaterial(1e6, c, 0, 0, 0)));
    MobilizedBody::Free ball(matter.Ground(), Transform(), body, Transform());
    State s = sys.realizeTopology(); sys.realizeModel(s);
    ball.setQToFitTranslation(s, Vec3(0, 0.3 - 0.02, 0));
    RungeKuttaMersonIntegrator integ(sys); integ.setAccuracy(1e-9);
    integ.initialize(s);
    double E0 = 0;
    for (int i = 0; i <= 12; ++i) {
        integ.stepTo(i * 1e-4 + 1e-15);
        const State& st = integ.getState(); sys.realize(st, Stage::Dynamics);
        double E = sys.calcEnergy(st), D = contact.getDissipatedEnergy(st);
        if (i == 0) E0 = E + D;
        std::printf("t=%.4f x=%.5f xdot=%+.3f  contactPE=%.4f dissipated=%.4f  E+dissipated-(E+D)(0)=%+.4f\n", st.getTime(),
                    0.3 - ball.getBodyOriginLocation(st)[1], -ball.getBodyOriginVelocity(st)[1], sys.calcPotentialEnergy(st) + 2000.0 * ball.getBodyOriginLocation(st)[1], D, E + D - E0);
    }
}
