// minimal repro: Translation mobilizer on Ground, identity frames, no children, body with offset mass centre
#include "Simbody.h"
#include <iostream>
using namespace SimTK;
int main(){
  for (int variant = 0; variant < 2; ++variant) {
    MultibodySystem sys; SimbodyMatterSubsystem matter(sys); GeneralForceSubsystem forces(sys);
    Force::DiscreteForces discrete(forces, matter);
    Body::Rigid body(MassProperties(2.0, Vec3(0.5,0,0), UnitInertia(1,1,1)));
    // variant 0: identity frames -> RBNodeLoneParticle ; variant 1: a tiny inboard translation -> general RBNodeTranslate
    MobilizedBody::Translation mb(matter.Ground(), variant ? Transform(Vec3(1e-300,0,0)) : Transform(), body, Transform());
    State s = sys.realizeTopology(); sys.realizeModel(s);
    Vector f(3); f[0]=0; f[1]=3; f[2]=0;           // push along y: the offset mass centre needs a reaction torque about z
    discrete.setAllMobilityForces(s, f);
    sys.realize(s, Stage::Acceleration);
    Vector_<SpatialVec> R, Rfree;
    matter.calcMobilizerReactionForces(s, R); matter.calcMobilizerReactionForcesUsingFreebodyMethod(s, Rfree);
    std::cout << (variant? "general node  ":"lone particle ") << "udot=" << s.getUDot() << " A_GB=" << mb.getBodyAcceleration(s)
              << "\n   calcMobilizerReactionForces      = " << R[1]
              << "\n   ...UsingFreebodyMethod           = " << Rfree[1]
              << "\n   M*A + b - F_applied (Newton-Euler)= " << mb.getBodySpatialInertiaInGround(s)*mb.getBodyAcceleration(s) << "\n";
  }
}
