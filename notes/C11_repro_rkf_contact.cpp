// Repro: RungeKuttaFeldbergIntegrator accepts grossly wrong steps when a compliant contact begins shortly after the start
// (sphere 5 cm above a half-space, approaching at 1.5 m/s, Hertz/Hunt-Crossley contact, c = 0.02): total energy goes from 7 to
// > 1e4 at accuracy 1e-7; RungeKuttaMerson, RungeKutta3, Verlet, CPodes conserve E + dissipated to 1e-6 on the same problem.
//   usage: repro <0 RKM | 1 RKF> [accuracy]
#include "Simbody.h"
#include <cstdio>
using namespace SimTK;
int main(int argc, char** argv) {
    int which = argc > 1 ? atoi(argv[1]) : 1; double acc = argc > 2 ? atof(argv[2]) : 1e-7;
    MultibodySystem sys; SimbodyMatterSubsystem matter(sys); GeneralForceSubsystem forces(sys);
    ContactTrackerSubsystem tracker(sys); CompliantContactSubsystem contact(sys, tracker);
    contact.setTrackDissipatedEnergy(true);
    Force::UniformGravity(forces, matter, Vec3(0, -9.8, 0));
    matter.Ground().updBody().addContactSurface(Transform(Rotation(-Pi / 2, ZAxis), Vec3(0)),
        ContactSurface(ContactGeometry::HalfSpace(), ContactMaterial(1e6, 0.02, 0, 0, 0)));
    Body::Rigid body(MassProperties(1.0, Vec3(0), UnitInertia::sphere(0.3)));
    body.addContactSurface(Transform(), ContactSurface(ContactGeometry::Sphere(0.3), ContactMaterial(1e6, 0.02, 0, 0, 0)));
    MobilizedBody::Free ball(matter.Ground(), Transform(), body, Transform());
    State s = sys.realizeTopology(); sys.realizeModel(s);
    ball.setQToFitTranslation(s, Vec3(0, 0.35, 0)); ball.setUToFitLinearVelocity(s, Vec3(0, -1.5, 0));
    Integrator* integ = which ? (Integrator*)new RungeKuttaFeldbergIntegrator(sys) : (Integrator*)new RungeKuttaMersonIntegrator(sys);
    integ->setAccuracy(acc); integ->initialize(s);
    double E0 = 0;
    for (int i = 0; i <= 60; ++i) {
        while (integ->stepTo(i * 0.02) != Integrator::ReachedReportTime) {}
        const State& st = integ->getState(); sys.realize(st, Stage::Dynamics);
        double E = sys.calcEnergy(st), D = contact.getDissipatedEnergy(st);
        if (i == 0) E0 = E + D;
        std::printf("t=%.2f y=%+.4f vy=%+.3f E=%.6g dissipated=%.4g  E+D-(E+D)(0)=%+.3e  steps=%d\n", st.getTime(), ball.getBodyOriginLocation(st)[1],
                    ball.getBodyOriginVelocity(st)[1], E, D, E + D - E0, integ->getNumStepsTaken());
    }
}
