#include "Simbody.h"
#include <cstdio>
using namespace SimTK;
// single body, type: 0 LineOrientation, 1 FreeLine, 2 Ball ; rev flag; euler flag
int main(int argc,char**argv){
  int type=atoi(argv[1]); bool rev=atoi(argv[2]); bool euler=atoi(argv[3]); int seed=atoi(argv[4]);
  Random::Uniform R(-1,1); R.setSeed(seed);
  auto rv=[&](){return Vec3(R.getValue(),R.getValue(),R.getValue());};
  MultibodySystem sys; SimbodyMatterSubsystem matter(sys);
  Rotation r1; r1.setRotationToBodyFixedXYZ(rv()*2.0); Rotation r2; r2.setRotationToBodyFixedXYZ(rv()*2.0);
  Transform XPF(r1,rv()), XBM(r2,rv());
  Body::Rigid body(MassProperties(1.3, rv()*0.3, Inertia(1,1.2,1.4)));
  MobilizedBody::Direction d = rev?MobilizedBody::Reverse:MobilizedBody::Forward;
  MobilizedBody mb;
  if(type==0) mb=MobilizedBody::LineOrientation(matter.Ground(),XPF,body,XBM,d);
  else if(type==1) mb=MobilizedBody::FreeLine(matter.Ground(),XPF,body,XBM,d);
  else mb=MobilizedBody::Ball(matter.Ground(),XPF,body,XBM,d);
  State s=sys.realizeTopology(); matter.setUseEulerAngles(s,euler); sys.realizeModel(s);
  Vector q(s.getNQ()); for(int i=0;i<q.size();i++) q[i]=R.getValue();
  if(!euler){ Vec4 e(q[0],q[1],q[2],q[3]); e/=e.norm(); for(int i=0;i<4;i++) q[i]=e[i]; }
  Vector u(s.getNU()); for(int i=0;i<u.size();i++) u[i]=R.getValue();
  s.updQ()=q; s.updU()=u; sys.realize(s,Stage::Velocity);
  double h=1e-6; Vector qd=s.getQDot();
  State sp=s, sm=s; sp.updQ()=q+h*qd; sm.updQ()=q-h*qd; sys.realize(sp,Stage::Position); sys.realize(sm,Stage::Position);
  // position-level: v = d/dt p_GB ; omega from R
  Vec3 vfd=(mb.getBodyOriginLocation(sp)-mb.getBodyOriginLocation(sm))/(2*h);
  Mat33 Rd=(mb.getBodyRotation(sp).asMat33()-mb.getBodyRotation(sm).asMat33())/(2*h);
  Mat33 Wx=Rd*~mb.getBodyRotation(s).asMat33(); Vec3 wfd(Wx(2,1),Wx(0,2),Wx(1,0));
  SpatialVec V=mb.getBodyVelocity(s);
  printf("vel: |w_fd-w|=%.3e |v_fd-v|=%.3e   (|w|=%.2f |v|=%.2f)\n",(wfd-V[0]).norm(),(vfd-V[1]).norm(),V[0].norm(),V[1].norm());
  // H fd
  Vector_<SpatialVec> Jp,Jm,bias; matter.multiplyBySystemJacobian(sp,u,Jp); matter.multiplyBySystemJacobian(sm,u,Jm);
  matter.calcBiasForSystemJacobian(s,bias);
  SpatialVec fd=(Jp[1]-Jm[1])/(2*h);
  printf("bias: fd=(%g %g %g | %g %g %g)\n      rep=(%g %g %g | %g %g %g)\n",fd[0][0],fd[0][1],fd[0][2],fd[1][0],fd[1][1],fd[1][2],bias[1][0][0],bias[1][0][1],bias[1][0][2],bias[1][1][0],bias[1][1][1],bias[1][1][2]);
  // quaternion norm rate
  if(!euler){ double nd=0; for(int i=0;i<4;i++) nd+=q[i]*qd[i]; printf("q.qdot=%.3e\n",nd);}
  // mobilizer velocity V_FM and its fd
  Transform Xp=mb.getMobilizerTransform(sp), Xm=mb.getMobilizerTransform(sm), X0=mb.getMobilizerTransform(s);
  Mat33 Rd2=(Xp.R().asMat33()-Xm.R().asMat33())/(2*h); Mat33 W2=Rd2*~X0.R().asMat33(); Vec3 wfm(W2(2,1),W2(0,2),W2(1,0));
  SpatialVec VFM=mb.getMobilizerVelocity(s);
  printf("V_FM: w=(%g %g %g) wfd=(%g %g %g)\n",VFM[0][0],VFM[0][1],VFM[0][2],wfm[0],wfm[1],wfm[2]);
  Vec3 wM=~X0.R()*VFM[0]; printf(" w_FM in M: (%g %g %g)\n",wM[0],wM[1],wM[2]);
}
