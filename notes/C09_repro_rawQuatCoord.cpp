// C09 finding "projectQ.rawQuatCoord.perr_le_acc": projectQ normalises the quaternions AFTER the Newton loop and does
// not re-evaluate the position errors; a constraint that reads a quaternion component as a coordinate
// (Constraint::ConstantCoordinate / CoordinateCoupler / PrescribedMotion / Custom::getOneQ on a Ball, Free or Ellipsoid
// mobilizer in quaternion mode) is violated by that normalisation although Succeeded (norm on exit ~1e-17) is reported.
#include "Simbody.h"
#include <cstdio>
using namespace SimTK;
int main() {
    MultibodySystem system; SimbodyMatterSubsystem matter(system);
    Body::Rigid body(MassProperties(1, Vec3(0), UnitInertia(1)));
    MobilizedBody::Ball b1(matter.Ground(), Transform(), body, Transform());
    Constraint::ConstantCoordinate(b1, MobilizerQIndex(1), 0.3);       // quaternion component x = 0.3
    State s = system.realizeTopology(); system.realizeModel(s);        // q = (1,0,0,0)
    system.realize(s, Stage::Position);
    ProjectOptions o(1e-8); o.setOption(ProjectOptions::DontThrow);
    ProjectResults r; Vector none;
    system.projectQ(s, none, o, r);
    std::printf("status=%d (0=Succeeded) iterations=%d normOnEntrance=%g normOnExit=%g\n", (int)r.getExitStatus(), r.getNumIterations(),
                r.getNormOnEntrance(), r.getNormOnExit());
    std::printf("q = %g %g %g %g   perr = %g (required <= 1e-8)\n", s.getQ()[0], s.getQ()[1], s.getQ()[2], s.getQ()[3], s.getQErr()[0]);
    return 0;
}
