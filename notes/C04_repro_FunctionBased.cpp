#include "Simbody.h"
#include <cstdio>
using namespace SimTK;
int main(int argc,char**argv){
  int pattern=atoi(argv[1]); int seed=atoi(argv[2]);
  Random::Uniform R(-1,1); R.setSeed(seed);
  auto rv=[&](){return Vec3(R.getValue(),R.getValue(),R.getValue());};
  MultibodySystem sys; SimbodyMatterSubsystem matter(sys);
  Body::Rigid body(MassProperties(1.3, rv()*0.3, Inertia(1,1.2,1.4)));
  std::vector<const Function*> fn; std::vector<std::vector<int> > idx;
  int perm[3]={0,1,2}; if(pattern==1){perm[0]=1;perm[1]=0;} if(pattern==2){perm[0]=2;perm[1]=1;perm[2]=0;}
  if(pattern==3){ fn.push_back(new Function::Constant(0.5,0)); idx.push_back(std::vector<int>()); for(int k=1;k<3;k++){ Vector c(2); c[0]=1; c[1]=0; fn.push_back(new Function::Linear(c)); idx.push_back(std::vector<int>(1,k)); } } else for(int k=0;k<3;k++){ Vector c(2); c[0]=1; c[1]=0; fn.push_back(new Function::Linear(c)); idx.push_back(std::vector<int>(1,perm[k])); }
  for(int k=0;k<3;k++){ fn.push_back(new Function::Constant(0.1*k,0)); idx.push_back(std::vector<int>()); }
  MobilizedBody mb=MobilizedBody::FunctionBased(matter.Ground(),Transform(),body,Transform(Vec3(0.3,0.2,0.1)),3,fn,idx);
  State s=sys.realizeTopology(); sys.realizeModel(s);
  Vector q(3),u(3); for(int i=0;i<3;i++){q[i]=R.getValue();u[i]=R.getValue();}
  s.updQ()=q; s.updU()=u; sys.realize(s,Stage::Velocity);
  double h=1e-6; Vector qd=s.getQDot();
  State sp=s, sm=s; sp.updQ()=q+h*qd; sm.updQ()=q-h*qd; sys.realize(sp,Stage::Position); sys.realize(sm,Stage::Position);
  Vec3 vfd=(mb.getBodyOriginLocation(sp)-mb.getBodyOriginLocation(sm))/(2*h);
  SpatialVec V=mb.getBodyVelocity(s);
  Vector_<SpatialVec> Jp,Jm,bias; matter.multiplyBySystemJacobian(sp,u,Jp); matter.multiplyBySystemJacobian(sm,u,Jm);
  matter.calcBiasForSystemJacobian(s,bias);
  SpatialVec fd=(Jp[1]-Jm[1])/(2*h);
  printf("pattern %d: |v_fd-v|=%.2e  |bias_fd - bias|: ang %.3e lin %.3e  (|bias| %.3f)\n",pattern,(vfd-V[1]).norm(),(fd[0]-bias[1][0]).norm(),(fd[1]-bias[1][1]).norm(), bias[1][0].norm()+bias[1][1].norm());
}
