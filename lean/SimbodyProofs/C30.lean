import SimbodyModel.C30
import Mathlib.Tactic.Ring
import Mathlib.Tactic.FieldSimp
import Mathlib.Tactic.Linarith
import Mathlib.Tactic.LinearCombination
import Mathlib.Tactic.Positivity
import Mathlib.Tactic.NormNum
import Mathlib.Algebra.Order.Field.Basic

/-!
# C30 — property theorems (polynomial roots are roots)

Statements are over an arbitrary linear ordered field `K`; `sqrt` is any function satisfying
`SqrtSpec`.  The model (`SimbodyModel/C30.lean`) mirrors `PolynomialRootFinder::findRoots`.
-/
namespace C30
variable {K : Type} [Field K] [LinearOrder K] [IsStrictOrderedRing K]

/-- the algebraic specification assumed of the square-root routine -/
structure SqrtSpec (sqrt : K → K) : Prop where
  sq : ∀ x, 0 ≤ x → sqrt x * sqrt x = x
  nonneg : ∀ x, 0 ≤ x → 0 ≤ sqrt x

def IsZero (z : Cx K) : Prop := z.re = 0 ∧ z.im = 0

/-- the complex identity `q² + b q + a c = 0`, written in components -/
def Key (a b c : K) (q : Cx K) : Prop :=
  q.re * q.re - q.im * q.im + b * q.re + a * c = 0 ∧ 2 * q.re * q.im + b * q.im = 0

omit [LinearOrder K] [IsStrictOrderedRing K] in
/-- if `q² + bq + ac = 0` then `q/a` is a root -/
theorem root_q_div_a (a b c : K) (q : Cx K) (ha : a ≠ 0) (hk : Key a b c q) :
    IsZero (evalReal a b c (Cx.divReal q a)) := by
  obtain ⟨k1, k2⟩ := hk
  simp only [IsZero, evalReal, Cx.add, Cx.smul, Cx.mul, Cx.divReal, ofReal]
  constructor
  · have e : a * (q.re / a * (q.re / a) - q.im / a * (q.im / a)) + b * (q.re / a) + c
        = (q.re * q.re - q.im * q.im + b * q.re + a * c) / a := by field_simp
    rw [e, k1, zero_div]
  · have e : a * (q.re / a * (q.im / a) + q.im / a * (q.re / a)) + b * (q.im / a) + 0
        = (2 * q.re * q.im + b * q.im) / a := by field_simp; ring
    rw [e, k2, zero_div]

omit [LinearOrder K] [IsStrictOrderedRing K] in
/-- if `q² + bq + ac = 0` and `q ≠ 0` then `c/q` is a root -/
theorem root_c_div_q (a b c : K) (q : Cx K) (hq : Cx.normSq q ≠ 0) (hk : Key a b c q) :
    IsZero (evalReal a b c (Cx.div (ofReal c) q)) := by
  obtain ⟨k1, k2⟩ := hk
  obtain ⟨x, y⟩ := q
  simp only [Cx.normSq] at hq
  simp only at k1 k2
  simp only [IsZero, evalReal, Cx.add, Cx.smul, Cx.mul, Cx.div, Cx.normSq, ofReal]
  -- pure field identities with the denominator as an atom
  have idRe : ∀ A B N : K, N ≠ 0 →
      a * (A / N * (A / N) - B / N * (B / N)) + b * (A / N) + c = (a * (A * A - B * B) + b * A * N + c * N * N) / (N * N) := by
    intro A B N hN; field_simp
  have idIm : ∀ A B N : K, N ≠ 0 →
      a * (A / N * (B / N) + B / N * (A / N)) + b * (B / N) + 0 = (a * (2 * A * B) + b * B * N) / (N * N) := by
    intro A B N hN; field_simp; ring
  constructor
  · rw [idRe _ _ _ hq]
    have num : a * ((c * x + 0 * y) * (c * x + 0 * y) - (0 * x - c * y) * (0 * x - c * y)) + b * (c * x + 0 * y) * (x * x + y * y)
          + c * (x * x + y * y) * (x * x + y * y)
        = c * ((x * x - y * y + b * x + a * c) * (x * x - y * y) + (2 * x * y + b * y) * (2 * x * y)) := by ring
    rw [num, k1, k2]; simp
  · rw [idIm _ _ _ hq]
    have num : a * (2 * (c * x + 0 * y) * (0 * x - c * y)) + b * (0 * x - c * y) * (x * x + y * y)
        = c * ((2 * x * y + b * y) * (x * x - y * y) - (x * x - y * y + b * x + a * c) * (2 * x * y)) := by ring
    rw [num, k1, k2]; simp

omit [IsStrictOrderedRing K] in
/-- what each branch of the routine knows about its inputs -/
theorem branchOf_spec (eps a b c : K) :
    match branchOf eps a b c with
    | .doubleRoot => True
    | .bZeroReal => b = 0 ∧ 0 ≤ discriminant a b c
    | .bZeroImag => b = 0 ∧ discriminant a b c < 0
    | .general => b ≠ 0 := by
  unfold branchOf
  simp only
  split_ifs with h1 h2 h3
  · trivial
  · rcases h2 with h | h
    · exact ne_of_lt h
    · exact ne_of_gt h
  · push Not at h2; exact ⟨le_antisymm h2.2 h2.1, h3⟩
  · push Not at h2; exact ⟨le_antisymm h2.2 h2.1, not_lt.mp h3⟩

/-- **Roots are roots** (real coefficients, every branch except the near-double-root one): both values
returned by the quadratic routine make `a z² + b z + c` vanish exactly. -/
theorem quadReal_roots (sqrt : K → K) (hs : SqrtSpec sqrt) (eps a b c : K) (ha : a ≠ 0)
    (hb : branchOf eps a b c ≠ .doubleRoot) :
    IsZero (evalReal a b c (quadReal sqrt eps a b c).1) ∧
    IsZero (evalReal a b c (quadReal sqrt eps a b c).2) := by
  have hspec := branchOf_spec eps a b c
  unfold quadReal
  cases hbr : branchOf eps a b c with
  | doubleRoot => exact absurd hbr hb
  | bZeroReal =>
    rw [hbr] at hspec
    obtain ⟨hb0, hd⟩ := hspec
    subst hb0
    have hsq := hs.sq _ hd
    simp only [IsZero, evalReal, Cx.add, Cx.smul, Cx.mul, ofReal]
    generalize sqrt (discriminant a 0 c) = s at hsq ⊢
    simp only [discriminant] at hsq
    have e : a * (s / (2 * a) * (s / (2 * a)) - 0 * 0) + 0 * (s / (2 * a)) + c = (s * s + 4 * a * c) / (4 * a) := by
      field_simp; ring
    have e' : a * (-(s / (2 * a)) * -(s / (2 * a)) - 0 * 0) + 0 * -(s / (2 * a)) + c = (s * s + 4 * a * c) / (4 * a) := by
      field_simp; ring
    have z : s * s + 4 * a * c = 0 := by linear_combination hsq
    refine ⟨⟨?_, by ring⟩, ⟨?_, by ring⟩⟩
    · rw [e, z, zero_div]
    · rw [e', z, zero_div]
  | bZeroImag =>
    rw [hbr] at hspec
    obtain ⟨hb0, hd⟩ := hspec
    subst hb0
    have hsq := hs.sq (-discriminant a 0 c) (by linarith)
    simp only [IsZero, evalReal, Cx.add, Cx.smul, Cx.mul, ofReal]
    generalize sqrt (-discriminant a 0 c) = s at hsq ⊢
    simp only [discriminant] at hsq
    have e : a * (0 * 0 - s / (2 * a) * (s / (2 * a))) + 0 * 0 + c = (4 * a * c - s * s) / (4 * a) := by
      field_simp; ring
    have e' : a * (0 * 0 - -(s / (2 * a)) * -(s / (2 * a))) + 0 * 0 + c = (4 * a * c - s * s) / (4 * a) := by
      field_simp; ring
    have z : 4 * a * c - s * s = 0 := by linear_combination -hsq
    refine ⟨⟨?_, by ring⟩, ⟨?_, by ring⟩⟩
    · rw [e, z, zero_div]
    · rw [e', z, zero_div]
  | general =>
    rw [hbr] at hspec
    have hbne : b ≠ 0 := hspec
    simp only
    -- the two returned values are q/a and c/q; it suffices to show Key and q ≠ 0
    suffices h : ∀ q : Cx K, q = (⟨-((if 0 < b then Cx.add (ofReal b) (sqrtOfReal sqrt (discriminant a b c))
          else Cx.sub (ofReal b) (sqrtOfReal sqrt (discriminant a b c))).re / 2),
          -((if 0 < b then Cx.add (ofReal b) (sqrtOfReal sqrt (discriminant a b c))
          else Cx.sub (ofReal b) (sqrtOfReal sqrt (discriminant a b c))).im / 2)⟩ : Cx K) →
          Key a b c q ∧ Cx.normSq q ≠ 0 by
      obtain ⟨hk, hq⟩ := h _ rfl
      exact ⟨root_q_div_a a b c _ ha hk, root_c_div_q a b c _ hq hk⟩
    intro q hqdef
    simp only [sqrtOfReal] at hqdef
    by_cases hd : discriminant a b c < 0
    · have hsq := hs.sq (-discriminant a b c) (by linarith)
      generalize sqrt (-discriminant a b c) = s at hsq hqdef
      simp only [discriminant] at hsq
      by_cases hbp : 0 < b
      · simp only [hd, hbp, if_true, Cx.add, ofReal] at hqdef
        subst hqdef
        refine ⟨⟨?_, ?_⟩, ?_⟩
        · simp only; linear_combination (-1 / 4 : K) * hsq
        · simp only; ring
        · simp only [Cx.normSq]
          have : 0 < b * b := mul_pos hbp hbp
          have : 0 ≤ s * s := mul_self_nonneg s
          have e : (-((b + 0) / 2)) * (-((b + 0) / 2)) + (-((0 + s) / 2)) * (-((0 + s) / 2)) = (b * b + s * s) / 4 := by ring
          rw [e]; positivity
      · have hbn : b < 0 := lt_of_le_of_ne (not_lt.mp hbp) hbne
        simp only [hd, hbp, if_true, if_false, Cx.sub, ofReal] at hqdef
        subst hqdef
        refine ⟨⟨?_, ?_⟩, ?_⟩
        · simp only; linear_combination (-1 / 4 : K) * hsq
        · simp only; ring
        · simp only [Cx.normSq]
          have : 0 < b * b := mul_pos_of_neg_of_neg hbn hbn
          have : 0 ≤ s * s := mul_self_nonneg s
          have e : (-((b - 0) / 2)) * (-((b - 0) / 2)) + (-((0 - s) / 2)) * (-((0 - s) / 2)) = (b * b + s * s) / 4 := by ring
          rw [e]; positivity
    · have hd' : 0 ≤ discriminant a b c := not_lt.mp hd
      have hsq := hs.sq _ hd'
      have hnn := hs.nonneg _ hd'
      generalize sqrt (discriminant a b c) = s at hsq hnn hqdef
      simp only [discriminant] at hsq
      by_cases hbp : 0 < b
      · simp only [hd, hbp, if_true, if_false, Cx.add, ofReal] at hqdef
        subst hqdef
        refine ⟨⟨?_, ?_⟩, ?_⟩
        · simp only; linear_combination (1 / 4 : K) * hsq
        · simp only; ring
        · simp only [Cx.normSq]
          have hbs : 0 < b + s := by linarith
          have e : (-((b + s) / 2)) * (-((b + s) / 2)) + (-((0 + 0 : K) / 2)) * (-((0 + 0) / 2)) = ((b + s) / 2) ^ 2 := by ring
          rw [e]; positivity
      · have hbn : b < 0 := lt_of_le_of_ne (not_lt.mp hbp) hbne
        simp only [hd, hbp, if_true, if_false, Cx.sub, ofReal] at hqdef
        subst hqdef
        refine ⟨⟨?_, ?_⟩, ?_⟩
        · simp only; linear_combination (1 / 4 : K) * hsq
        · simp only; ring
        · simp only [Cx.normSq]
          have hbs : 0 < s - b := by linarith
          have e : (-((b - s) / 2)) * (-((b - s) / 2)) + (-((0 - 0 : K) / 2)) * (-((0 - 0) / 2)) = ((s - b) / 2) ^ 2 := by ring
          rw [e]; positivity

/-! ### Complex coefficients -/

/-- the complex identity `q² + b q + a c = 0` for complex `a b c q`, in components -/
def KeyCx (a b c q : Cx K) : Prop :=
  q.re * q.re - q.im * q.im + (b.re * q.re - b.im * q.im) + (a.re * c.re - a.im * c.im) = 0 ∧
  q.re * q.im + q.im * q.re + (b.re * q.im + b.im * q.re) + (a.re * c.im + a.im * c.re) = 0

omit [LinearOrder K] [IsStrictOrderedRing K] in
/-- complex coefficients: if `q² + bq + ac = 0` and `a ≠ 0` then `q/a` is a root -/
theorem root_q_div_a_cx (a b c q : Cx K) (ha : Cx.normSq a ≠ 0) (hk : KeyCx a b c q) :
    IsZero (evalCx a b c (Cx.div q a)) := by
  obtain ⟨k1, k2⟩ := hk
  obtain ⟨ar, ai⟩ := a; obtain ⟨br, bi⟩ := b; obtain ⟨cr, ci⟩ := c; obtain ⟨qr, qi⟩ := q
  simp only [Cx.normSq] at ha
  simp only at k1 k2
  have hN2 : ar ^ 2 + ai ^ 2 ≠ 0 := by rw [sq, sq]; exact ha
  simp only [IsZero, evalCx, Cx.add, Cx.mul, Cx.div, Cx.normSq]
  constructor
  · have e : ar * ((qr * ar + qi * ai) / (ar * ar + ai * ai) * ((qr * ar + qi * ai) / (ar * ar + ai * ai))
            - (qi * ar - qr * ai) / (ar * ar + ai * ai) * ((qi * ar - qr * ai) / (ar * ar + ai * ai)))
          - ai * ((qr * ar + qi * ai) / (ar * ar + ai * ai) * ((qi * ar - qr * ai) / (ar * ar + ai * ai))
            + (qi * ar - qr * ai) / (ar * ar + ai * ai) * ((qr * ar + qi * ai) / (ar * ar + ai * ai)))
          + (br * ((qr * ar + qi * ai) / (ar * ar + ai * ai)) - bi * ((qi * ar - qr * ai) / (ar * ar + ai * ai))) + cr
        = ((qr * qr - qi * qi + (br * qr - bi * qi) + (ar * cr - ai * ci)) * ar
            + (qr * qi + qi * qr + (br * qi + bi * qr) + (ar * ci + ai * cr)) * ai) / (ar * ar + ai * ai) := by
      field_simp; ring
    rw [e, k1, k2]; simp
  · have e : ar * ((qr * ar + qi * ai) / (ar * ar + ai * ai) * ((qi * ar - qr * ai) / (ar * ar + ai * ai))
            + (qi * ar - qr * ai) / (ar * ar + ai * ai) * ((qr * ar + qi * ai) / (ar * ar + ai * ai)))
          + ai * ((qr * ar + qi * ai) / (ar * ar + ai * ai) * ((qr * ar + qi * ai) / (ar * ar + ai * ai))
            - (qi * ar - qr * ai) / (ar * ar + ai * ai) * ((qi * ar - qr * ai) / (ar * ar + ai * ai)))
          + (br * ((qi * ar - qr * ai) / (ar * ar + ai * ai)) + bi * ((qr * ar + qi * ai) / (ar * ar + ai * ai))) + ci
        = ((qr * qi + qi * qr + (br * qi + bi * qr) + (ar * ci + ai * cr)) * ar
            - (qr * qr - qi * qi + (br * qr - bi * qi) + (ar * cr - ai * ci)) * ai) / (ar * ar + ai * ai) := by
      field_simp; ring
    rw [e, k1, k2]; simp

omit [LinearOrder K] [IsStrictOrderedRing K] in
/-- complex coefficients: if `q² + bq + ac = 0` and `q ≠ 0` then `c/q` is a root -/
theorem root_c_div_q_cx (a b c q : Cx K) (hq : Cx.normSq q ≠ 0) (hk : KeyCx a b c q) :
    IsZero (evalCx a b c (Cx.div c q)) := by
  obtain ⟨k1, k2⟩ := hk
  obtain ⟨ar, ai⟩ := a; obtain ⟨br, bi⟩ := b; obtain ⟨cr, ci⟩ := c; obtain ⟨qr, qi⟩ := q
  simp only [Cx.normSq] at hq
  simp only at k1 k2
  have hN2 : qr ^ 2 + qi ^ 2 ≠ 0 := by rw [sq, sq]; exact hq
  simp only [IsZero, evalCx, Cx.add, Cx.mul, Cx.div, Cx.normSq]
  -- p(c/q) = c·k·conj(q)² / |q|⁴ with k = q² + bq + ac
  constructor
  · have e : ar * ((cr * qr + ci * qi) / (qr * qr + qi * qi) * ((cr * qr + ci * qi) / (qr * qr + qi * qi))
            - (ci * qr - cr * qi) / (qr * qr + qi * qi) * ((ci * qr - cr * qi) / (qr * qr + qi * qi)))
          - ai * ((cr * qr + ci * qi) / (qr * qr + qi * qi) * ((ci * qr - cr * qi) / (qr * qr + qi * qi))
            + (ci * qr - cr * qi) / (qr * qr + qi * qi) * ((cr * qr + ci * qi) / (qr * qr + qi * qi)))
          + (br * ((cr * qr + ci * qi) / (qr * qr + qi * qi)) - bi * ((ci * qr - cr * qi) / (qr * qr + qi * qi))) + cr
        = ((cr * (qr * qr - qi * qi + (br * qr - bi * qi) + (ar * cr - ai * ci))
             - ci * (qr * qi + qi * qr + (br * qi + bi * qr) + (ar * ci + ai * cr))) * (qr * qr - qi * qi)
            + (cr * (qr * qi + qi * qr + (br * qi + bi * qr) + (ar * ci + ai * cr))
             + ci * (qr * qr - qi * qi + (br * qr - bi * qi) + (ar * cr - ai * ci))) * (2 * qr * qi))
          / ((qr * qr + qi * qi) * (qr * qr + qi * qi)) := by
      field_simp; ring
    rw [e, k1, k2]; simp
  · have e : ar * ((cr * qr + ci * qi) / (qr * qr + qi * qi) * ((ci * qr - cr * qi) / (qr * qr + qi * qi))
            + (ci * qr - cr * qi) / (qr * qr + qi * qi) * ((cr * qr + ci * qi) / (qr * qr + qi * qi)))
          + ai * ((cr * qr + ci * qi) / (qr * qr + qi * qi) * ((cr * qr + ci * qi) / (qr * qr + qi * qi))
            - (ci * qr - cr * qi) / (qr * qr + qi * qi) * ((ci * qr - cr * qi) / (qr * qr + qi * qi)))
          + (br * ((ci * qr - cr * qi) / (qr * qr + qi * qi)) + bi * ((cr * qr + ci * qi) / (qr * qr + qi * qi))) + ci
        = ((cr * (qr * qi + qi * qr + (br * qi + bi * qr) + (ar * ci + ai * cr))
             + ci * (qr * qr - qi * qi + (br * qr - bi * qi) + (ar * cr - ai * ci))) * (qr * qr - qi * qi)
            - (cr * (qr * qr - qi * qi + (br * qr - bi * qi) + (ar * cr - ai * ci))
             - ci * (qr * qi + qi * qr + (br * qi + bi * qr) + (ar * ci + ai * cr))) * (2 * qr * qi))
          / ((qr * qr + qi * qi) * (qr * qr + qi * qi)) := by
      field_simp; ring
    rw [e, k1, k2]; simp

/-- **Roots are roots, complex coefficients, `b ≠ 0` branch**: for any `csqrt` with `csqrt(d)² = d`, both
returned values of the complex quadratic routine are roots. -/
theorem quadCx_roots_general (csqrt : Cx K → Cx K) (a b c : Cx K)
    (hs : ∀ d, Cx.mul (csqrt d) (csqrt d) = d) (ha : Cx.normSq a ≠ 0) (hb : Cx.normSq b ≠ 0) :
    IsZero (evalCx a b c (quadCx csqrt false a b c).1) ∧
    IsZero (evalCx a b c (quadCx csqrt false a b c).2) := by
  unfold quadCx
  simp only [Bool.false_eq_true, if_false]
  have hsd := hs (Cx.sub (Cx.mul b b) (Cx.smul 4 (Cx.mul a c)))
  generalize csqrt (Cx.sub (Cx.mul b b) (Cx.smul 4 (Cx.mul a c))) = s at hsd ⊢
  obtain ⟨ar, ai⟩ := a; obtain ⟨br, bi⟩ := b; obtain ⟨cr, ci⟩ := c; obtain ⟨sr, si⟩ := s
  simp only [Cx.mul, Cx.sub, Cx.smul, Cx.mk.injEq] at hsd
  obtain ⟨h1, h2⟩ := hsd
  simp only [Cx.normSq] at hb
  have hb2 : 0 < br * br + bi * bi := lt_of_le_of_ne (add_nonneg (mul_self_nonneg _) (mul_self_nonneg _)) (Ne.symm hb)
  suffices h : ∀ q : Cx K, q = (⟨-((if 0 < (Cx.mul (Cx.conj ⟨br, bi⟩) ⟨sr, si⟩).re then Cx.add ⟨br, bi⟩ ⟨sr, si⟩ else Cx.sub ⟨br, bi⟩ ⟨sr, si⟩).re / 2),
        -((if 0 < (Cx.mul (Cx.conj ⟨br, bi⟩) ⟨sr, si⟩).re then Cx.add ⟨br, bi⟩ ⟨sr, si⟩ else Cx.sub ⟨br, bi⟩ ⟨sr, si⟩).im / 2)⟩ : Cx K) →
        KeyCx ⟨ar, ai⟩ ⟨br, bi⟩ ⟨cr, ci⟩ q ∧ Cx.normSq q ≠ 0 by
    obtain ⟨hk, hq⟩ := h _ rfl
    exact ⟨root_q_div_a_cx _ _ _ _ ha hk, root_c_div_q_cx _ _ _ _ hq hk⟩
  intro q hqdef
  simp only [Cx.mul, Cx.conj] at hqdef
  by_cases ht : 0 < br * sr - -bi * si
  · simp only [ht, if_true, Cx.add] at hqdef
    subst hqdef
    refine ⟨⟨?_, ?_⟩, ?_⟩
    · simp only; linear_combination (1 / 4 : K) * h1
    · simp only; linear_combination (1 / 4 : K) * h2
    · simp only [Cx.normSq]
      have e : (-((br + sr) / 2)) * (-((br + sr) / 2)) + (-((bi + si) / 2)) * (-((bi + si) / 2))
          = ((br * br + bi * bi) + (sr * sr + si * si) + 2 * (br * sr - -bi * si)) / 4 := by ring
      rw [e]
      have : 0 ≤ sr * sr + si * si := add_nonneg (mul_self_nonneg _) (mul_self_nonneg _)
      have : 0 < (br * br + bi * bi) + (sr * sr + si * si) + 2 * (br * sr - -bi * si) := by linarith
      positivity
  · simp only [ht, if_false, Cx.sub] at hqdef
    subst hqdef
    refine ⟨⟨?_, ?_⟩, ?_⟩
    · simp only; linear_combination (1 / 4 : K) * h1
    · simp only; linear_combination (1 / 4 : K) * h2
    · simp only [Cx.normSq]
      have e : (-((br - sr) / 2)) * (-((br - sr) / 2)) + (-((bi - si) / 2)) * (-((bi - si) / 2))
          = ((br * br + bi * bi) + (sr * sr + si * si) - 2 * (br * sr - -bi * si)) / 4 := by ring
      rw [e]
      have : 0 ≤ sr * sr + si * si := add_nonneg (mul_self_nonneg _) (mul_self_nonneg _)
      have hle : br * sr - -bi * si ≤ 0 := not_lt.mp ht
      have : 0 < (br * br + bi * bi) + (sr * sr + si * si) - 2 * (br * sr - -bi * si) := by linarith
      positivity

/-- near-double-root branch: the returned value `r = -b/(2a)` has residual exactly `-disc/(4a)`, which the
branch condition bounds by `2·eps·b²/(4|a|)` (tolerance proportional to the coefficient scale). -/
theorem quadReal_doubleRoot_residual (a b c : K) (ha : a ≠ 0) :
    a * (-b / (2 * a)) * (-b / (2 * a)) + b * (-b / (2 * a)) + c = -(discriminant a b c) / (4 * a) := by
  unfold discriminant; field_simp; ring

/-- Vieta for the general branch: `q/a + c/q = -b/a` and `(q/a)(c/q) = c/a` follow from `Key`; stated
on the real axis (disc ≥ 0) where the roots are real numbers `x₁ = q/a`, `x₂ = c/q`. -/
theorem vieta_real (a b c q : K) (ha : a ≠ 0) (hq : q ≠ 0) (hk : q * q + b * q + a * c = 0) :
    q / a + c / q = -b / a ∧ (q / a) * (c / q) = c / a := by
  constructor
  · field_simp; linear_combination hk
  · field_simp

omit [IsStrictOrderedRing K] in
/-- for real coefficients the non-real roots returned are complex conjugates of each other -/
theorem quadReal_bZeroImag_conj (sqrt : K → K) (eps a b c : K) (h : branchOf eps a b c = .bZeroImag) :
    (quadReal sqrt eps a b c).2 = Cx.conj (quadReal sqrt eps a b c).1 := by
  unfold quadReal; rw [h]; simp [Cx.conj]

/-- kind-K contract soundness: whatever list of roots the vendored solver returns, if the exact-rational
acceptance predicate says yes then there are exactly degree-many roots and each satisfies the (conditioning-capped)
residual bound `rootAccept` computes. -/
theorem polyAccept_sound (tol : Rat) (coeffs roots : List (Cx Rat)) (h : polyAccept tol coeffs roots = true) :
    roots.length + 1 = coeffs.length ∧ ∀ z ∈ roots, rootAccept tol coeffs z = true := by
  unfold polyAccept at h
  simp only [Bool.and_eq_true, beq_iff_eq, List.all_eq_true] at h
  exact ⟨h.1, h.2⟩

/-- what acceptance of a root means when the conditioning denominator vanishes (multiple root or `z = 0`): the residual is
still bounded by the capped tolerance — in particular `[0,0,0]` is NOT accepted for `(x−1)(x−2)(x−3)` -/
theorem rootAccept_degenerate (tol : Rat) (coeffs : List (Cx Rat)) (z : Cx Rat) (hD : condDen coeffs z ≤ 0)
    (h : rootAccept tol coeffs z = true) :
    Cx.normSq (hornerCx coeffs z) ≤ (tol * scaleAt coeffs z * 1000001) * (tol * scaleAt coeffs z * 1000001) := by
  unfold rootAccept at h
  simp only [hD, if_true, decide_eq_true_eq] at h
  exact h

/-- non-vacuity: a concrete `sqrt` specification instance is satisfiable on the inputs used (2x² − 8 has
disc = 64 = 8·8), and its hypotheses select the `bZeroReal` branch -/
example : branchOf (1 / 1000000 : Rat) 2 0 (-8) = .bZeroReal := by
  norm_num [branchOf, discriminant]

end C30
