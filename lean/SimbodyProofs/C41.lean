import SimbodyModel.C41
import SimbodyProofs.C41_lemmas
import Mathlib.Tactic.Ring
import Mathlib.Tactic.Linarith
import Mathlib.Tactic.Positivity
import Mathlib.Tactic.NormNum
import Mathlib.Tactic.FieldSimp
import Mathlib.Tactic.LinearCombination
import Mathlib.Algebra.Order.Field.Basic
import Mathlib.Algebra.Polynomial.Derivative

/-!
# C41 — property theorems: Function objects, smooth steps, splines

* derivatives are *formal* derivatives: the polymorphic model code is run over the polynomial ring `K[X]`
  (argument `X`) and Mathlib's `Polynomial.derivative` is applied to the result; `eval` transfers the
  statement to every argument value in every commutative ring `K`;
* order statements are over an arbitrary linear ordered field;
* the sinusoid uses the trig-pair convention `d/dt sin(wt+p) = w·cos(wt+p)`, `d/dt cos(wt+p) = −w·sin(wt+p)`
  (DESIGN.md §1.3, trusted-base item 6).
Spline *fitting* (GCVSPL) is not modelled: it is covered by the harness predicates (interpolation, continuity,
derivative consistency); the evaluation routine `splder` is modelled and tied by correspondence.
-/
namespace C41
open Polynomial

open Polynomial

section Poly
variable {K : Type} [CommRing K]

/-- **`dstepUp` is the derivative of `stepUp`** (as polynomials, hence at every argument of every commutative ring) -/
theorem dstepUp_is_derivative : derivative (stepUp (X : K[X])) = dstepUp X := by
  simp only [stepUp, dstepUp, derivative_mul, derivative_add, derivative_sub, derivative_X, derivative_ofNat]
  ring

/-- `d2stepUp` is the derivative of `dstepUp` -/
theorem d2stepUp_is_derivative : derivative (dstepUp (X : K[X])) = d2stepUp X := by
  simp only [d2stepUp, dstepUp, derivative_mul, derivative_sub, derivative_X, derivative_ofNat, derivative_one]
  ring

/-- `d3stepUp` is the derivative of `d2stepUp` -/
theorem d3stepUp_is_derivative : derivative (d2stepUp (X : K[X])) = d3stepUp X := by
  simp only [d2stepUp, d3stepUp, derivative_mul, derivative_add, derivative_sub, derivative_X, derivative_ofNat, derivative_one]
  ring

/-- the polynomial obtained by running the code on `X` evaluates to what the code returns on `a` -/
theorem stepUp_eval (a : K) :
    eval a (stepUp X) = stepUp a ∧ eval a (dstepUp X) = dstepUp a ∧
    eval a (d2stepUp X) = d2stepUp a ∧ eval a (d3stepUp X) = d3stepUp a := by
  simp [stepUp, dstepUp, d2stepUp, d3stepUp]

/-- **chain rule factors of `stepAny`**: `dstepAny`, `d2stepAny`, `d3stepAny` (un-clamped bodies) are the successive
derivatives of `stepAny` with respect to `x`, for all constants `y0, yRange, x0, oneOverXRange` -/
theorem stepAny_chain (y0 yr x0 ooxr : K) :
    derivative (stepAnyCore (C y0) (C yr) (C x0) (C ooxr) X) = dstepAnyCore (C yr) (C x0) (C ooxr) X ∧
    derivative (dstepAnyCore (C yr) (C x0) (C ooxr) X) = d2stepAnyCore (C yr) (C x0) (C ooxr) X ∧
    derivative (d2stepAnyCore (C yr) (C x0) (C ooxr) X) = d3stepAnyCore (C yr) (C x0) (C ooxr) X := by
  refine ⟨?_, ?_, ?_⟩ <;>
  · simp only [stepAnyCore, dstepAnyCore, d2stepAnyCore, d3stepAnyCore, stepUp, dstepUp, d2stepUp, d3stepUp,
      derivative_mul, derivative_add, derivative_sub, derivative_X, derivative_ofNat, derivative_one, derivative_C]
    ring
end Poly

section Poly2
variable {K : Type} [CommRing K]
/-- `stepDown` and its reported derivatives: each is the formal derivative of the previous one -/
theorem stepDown_derivatives :
    derivative (stepDown (X : K[X])) = dstepDown X ∧ derivative (dstepDown (X : K[X])) = d2stepDown X ∧
    derivative (d2stepDown (X : K[X])) = d3stepDown X := by
  refine ⟨?_, ?_, ?_⟩
  · simp only [stepDown, dstepDown, derivative_sub, derivative_one, dstepUp_is_derivative, zero_sub]
  · simp only [dstepDown, d2stepDown, derivative_neg, d2stepUp_is_derivative]
  · simp only [d2stepDown, d3stepDown, derivative_neg, d3stepUp_is_derivative]
end Poly2

section Ord
variable {K : Type} [Field K] [LinearOrder K] [IsStrictOrderedRing K]

/-- **monotone (derivative form)**: `dstepUp x = 30 (x(x−1))² ≥ 0` everywhere -/
theorem dstepUp_nonneg (x : K) : 0 ≤ dstepUp x := by
  have e : dstepUp x = 30 * (x * (x - 1)) ^ 2 := by simp only [dstepUp]; ring
  rw [e]; positivity

/-- exact increment formula: a sum of squares times `(y - x)` -/
theorem stepUp_increment (x y : K) :
    stepUp y - stepUp x = 30 * (y - x) *
      ((x * (1 - x) + (y - x) * (1 - 2 * x) / 2 - (y - x) ^ 2 / 3) ^ 2
        + ((y - x) * (1 - 2 * x) - (y - x) ^ 2) ^ 2 / 12 + ((y - x) ^ 2) ^ 2 / 180) := by
  simp only [stepUp]; ring

/-- **monotone**: `stepUp` is non-decreasing (on the whole line, in particular on `[0,1]`) -/
theorem stepUp_monotone (x y : K) (h : x ≤ y) : stepUp x ≤ stepUp y := by
  have := stepUp_increment x y
  have hd : 0 ≤ y - x := sub_nonneg.mpr h
  have : 0 ≤ stepUp y - stepUp x := by rw [this]; positivity
  linarith

/-- strictly increasing -/
theorem stepUp_strictMono (x y : K) (h : x < y) : stepUp x < stepUp y := by
  have e := stepUp_increment x y
  have hd : 0 < y - x := sub_pos.mpr h
  have : 0 < stepUp y - stepUp x := by
    rw [e]
    have h4 : 0 < ((y - x) ^ 2) ^ 2 / 180 := by positivity
    have h1 : 0 ≤ (x * (1 - x) + (y - x) * (1 - 2 * x) / 2 - (y - x) ^ 2 / 3) ^ 2 := sq_nonneg _
    have h2 : 0 ≤ ((y - x) * (1 - 2 * x) - (y - x) ^ 2) ^ 2 / 12 := by positivity
    have : 0 < 30 * (y - x) := by positivity
    apply mul_pos this; linarith
  linarith

omit [LinearOrder K] [IsStrictOrderedRing K] in
/-- **end values**: `stepUp 0 = 0`, `stepUp 1 = 1`, first and second derivatives vanish at both ends -/
theorem step_ends :
    stepUp (0 : K) = 0 ∧ stepUp (1 : K) = 1 ∧ dstepUp (0 : K) = 0 ∧ dstepUp (1 : K) = 0 ∧
    d2stepUp (0 : K) = 0 ∧ d2stepUp (1 : K) = 0 ∧
    stepDown (0 : K) = 1 ∧ stepDown (1 : K) = 0 := by
  simp only [stepUp, dstepUp, d2stepUp, stepDown]; norm_num

/-- `stepUp` maps `[0,1]` into `[0,1]` -/
theorem stepUp_range (x : K) (h0 : 0 ≤ x) (h1 : x ≤ 1) : 0 ≤ stepUp x ∧ stepUp x ≤ 1 := by
  have a := stepUp_monotone 0 x h0
  have b := stepUp_monotone x 1 h1
  have e := step_ends (K := K)
  rw [e.1] at a; rw [e.2.1] at b; exact ⟨a, b⟩

omit [IsStrictOrderedRing K] in
theorem clamp_id (v : K) (h0 : 0 ≤ v) (h1 : v ≤ 1) : clamp 0 v 1 = v := by
  simp only [clamp, not_lt.mpr h0, not_lt.mpr h1, if_false]

/-- `clampInPlace(0, v, 1)` lands in `[0,1]` -/
theorem clamp_range (v : K) : 0 ≤ clamp 0 v 1 ∧ clamp 0 v 1 ≤ 1 := by
  unfold clamp
  split_ifs with h1 h2
  · exact ⟨le_refl _, zero_le_one⟩
  · exact ⟨zero_le_one, le_refl _⟩
  · exact ⟨not_lt.mp h1, not_lt.mp h2⟩

omit [IsStrictOrderedRing K] in
/-- inside the documented argument range the clamp is the identity -/
theorem stepAny_eq_core (y0 yr x0 ooxr x : K) (h0 : 0 ≤ (x - x0) * ooxr) (h1 : (x - x0) * ooxr ≤ 1) :
    stepAny y0 yr x0 ooxr x = stepAnyCore y0 yr x0 ooxr x ∧
    dstepAny yr x0 ooxr x = dstepAnyCore yr x0 ooxr x ∧
    d2stepAny yr x0 ooxr x = d2stepAnyCore yr x0 ooxr x ∧
    d3stepAny yr x0 ooxr x = d3stepAnyCore yr x0 ooxr x := by
  simp only [stepAny, dstepAny, d2stepAny, d3stepAny, stepAnyCore, dstepAnyCore, d2stepAnyCore, d3stepAnyCore,
    clamp_id _ h0 h1, and_self]

/-- `stepAny` stays between its end values `y0` and `y0 + yRange` for every argument (the clamp makes this unconditional) -/
theorem stepAny_between (y0 yr x0 ooxr x : K) :
    min y0 (y0 + yr) ≤ stepAny y0 yr x0 ooxr x ∧ stepAny y0 yr x0 ooxr x ≤ max y0 (y0 + yr) := by
  obtain ⟨c0, c1⟩ := clamp_range ((x - x0) * ooxr)
  obtain ⟨s0, s1⟩ := stepUp_range _ c0 c1
  simp only [stepAny]
  generalize stepUp (clamp 0 ((x - x0) * ooxr) 1) = s at s0 s1
  rcases le_total 0 yr with h | h
  · rw [min_eq_left (by linarith), max_eq_right (by linarith)]
    constructor <;> nlinarith
  · rw [min_eq_right (by linarith), max_eq_left (by linarith)]
    constructor <;> nlinarith


omit [IsStrictOrderedRing K] in
theorem sign_spec (x : K) : (0 < x → sign x = 1) ∧ (x < 0 → sign x = -1) := by
  unfold sign
  constructor
  · intro h; simp [h]
  · intro h; simp [h, not_lt.mpr (le_of_lt h)]

omit [IsStrictOrderedRing K] in
/-- outside the switching interval `Step` returns the end values and zero derivatives, for the derivative orders the C++
supports (`1 ≤ k ≤ 3`; `Step::calcDerivative` throws for any other order, `StepFn.deriv` returns 0 there, so nothing is
claimed about other orders) -/
theorem stepFn_outside (f : StepFn K) (x : K) (k : Nat) (_hk : 1 ≤ k ∧ k ≤ 3) :
    ((x - f.x0) * f.sgn ≤ 0 → f.value x = f.y0 ∧ f.deriv k x = 0) ∧
    (¬ (x - f.x0) * f.sgn ≤ 0 → 0 ≤ (x - f.x1) * f.sgn → f.value x = f.y1 ∧ f.deriv k x = 0) := by
  constructor
  · intro h; simp only [StepFn.value, StepFn.deriv, if_pos h, and_self]
  · intro h h'; simp only [StepFn.value, StepFn.deriv, if_neg h, if_pos h', and_self]

/-- inside the interval (`x0 < x < x1` or `x1 < x < x0`) `Step` evaluates the un-clamped quintic -/
theorem stepFn_inside (y0 y1 x0 x1 x : K) (h : (x0 < x ∧ x < x1) ∨ (x1 < x ∧ x < x0)) :
    (StepFn.mk' y0 y1 x0 x1).value x = y0 + stepAnyCore 0 1 x0 (1 / (x1 - x0)) x * (y1 - y0) ∧
    (StepFn.mk' y0 y1 x0 x1).deriv 1 x = dstepAnyCore 1 x0 (1 / (x1 - x0)) x * (y1 - y0) ∧
    (StepFn.mk' y0 y1 x0 x1).deriv 2 x = d2stepAnyCore 1 x0 (1 / (x1 - x0)) x * (y1 - y0) ∧
    (StepFn.mk' y0 y1 x0 x1).deriv 3 x = d3stepAnyCore 1 x0 (1 / (x1 - x0)) x * (y1 - y0) := by
  have hu : 0 < (x - x0) * (1 / (x1 - x0)) ∧ (x - x0) * (1 / (x1 - x0)) < 1 := by
    rcases h with ⟨a, b⟩ | ⟨a, b⟩
    · have hd : 0 < x1 - x0 := by linarith
      constructor
      · apply mul_pos (by linarith) (by positivity)
      · rw [mul_one_div, div_lt_one hd]; linarith
    · have hd : x1 - x0 < 0 := by linarith
      constructor
      · apply mul_pos_of_neg_of_neg (by linarith); rw [one_div]; exact inv_lt_zero.mpr hd
      · rw [mul_one_div, div_lt_one_of_neg hd]; linarith
  have hs : ¬ (x - x0) * sign (1 / (x1 - x0)) ≤ 0 ∧ ¬ 0 ≤ (x - x1) * sign (1 / (x1 - x0)) := by
    rcases h with ⟨a, b⟩ | ⟨a, b⟩
    · have hd : 0 < 1 / (x1 - x0) := by apply one_div_pos.mpr; linarith
      rw [(sign_spec _).1 hd]; constructor <;> (rw [not_le]; linarith)
    · have hd : 1 / (x1 - x0) < 0 := by apply one_div_neg.mpr; linarith
      rw [(sign_spec _).2 hd]; constructor <;> (rw [not_le]; linarith)
  obtain ⟨c0, -, -, -⟩ := stepAny_eq_core (K := K) 0 1 x0 (1 / (x1 - x0)) x (le_of_lt hu.1) (le_of_lt hu.2)
  obtain ⟨-, c1, c2, c3⟩ := stepAny_eq_core (K := K) 0 1 x0 (1 / (x1 - x0)) x (le_of_lt hu.1) (le_of_lt hu.2)
  simp only [StepFn.value, StepFn.deriv, StepFn.mk', if_neg hs.1, if_neg hs.2, c0, c1, c2, c3, and_self]


omit [LinearOrder K] [IsStrictOrderedRing K] in
/-- **C² join**: at both ends of the switching interval the quintic and its first two derivatives take the
values of the adjoining constants (`y0`, `y1`, `0`, `0`), so `Step` is twice continuously differentiable -/
theorem stepFn_C2_join (y0 y1 x0 x1 : K) (h : x1 ≠ x0) :
    y0 + stepAnyCore 0 1 x0 (1 / (x1 - x0)) x0 * (y1 - y0) = y0 ∧
    dstepAnyCore 1 x0 (1 / (x1 - x0)) x0 * (y1 - y0) = 0 ∧
    d2stepAnyCore 1 x0 (1 / (x1 - x0)) x0 * (y1 - y0) = 0 ∧
    y0 + stepAnyCore 0 1 x0 (1 / (x1 - x0)) x1 * (y1 - y0) = y1 ∧
    dstepAnyCore 1 x0 (1 / (x1 - x0)) x1 * (y1 - y0) = 0 ∧
    d2stepAnyCore 1 x0 (1 / (x1 - x0)) x1 * (y1 - y0) = 0 := by
  have hd : x1 - x0 ≠ 0 := sub_ne_zero.mpr h
  have e1 : (x1 - x0) * (1 / (x1 - x0)) = 1 := by field_simp
  have e0 : (x0 - x0) * (1 / (x1 - x0)) = 0 := by simp
  simp only [stepAnyCore, dstepAnyCore, d2stepAnyCore, e0, e1, stepUp, dstepUp, d2stepUp]
  refine ⟨by ring, by ring, by ring, by ring, by ring, by ring⟩

/-- `Step::calcValue` never leaves the interval between `y0` and `y1`, for every argument and every parameter set
(`yr = y1 - y0` as `setParameters` computes it) -/
theorem stepFn_between (f : StepFn K) (hyr : f.yr = f.y1 - f.y0) (x : K) :
    min f.y0 f.y1 ≤ f.value x ∧ f.value x ≤ max f.y0 f.y1 := by
  unfold StepFn.value
  split_ifs with h1 h2
  · exact ⟨min_le_left _ _, le_max_left _ _⟩
  · exact ⟨min_le_right _ _, le_max_right _ _⟩
  · obtain ⟨s0, s1⟩ := stepAny_between (0 : K) 1 f.x0 f.ooxr x
    simp only [zero_add] at s0 s1
    rw [min_eq_left (zero_le_one)] at s0
    rw [max_eq_right (zero_le_one)] at s1
    simp only
    generalize stepAny 0 1 f.x0 f.ooxr x = s at s0 s1
    rw [hyr]
    rcases le_total f.y0 f.y1 with h | h
    · rw [min_eq_left h, max_eq_right h]; constructor <;> nlinarith
    · rw [min_eq_right h, max_eq_left h]; constructor <;> nlinarith

/-- non-vacuity of `stepFn_inside` / `stepFn_C2_join`: a concrete rising and a concrete falling interval -/
example : ((1 : ℚ) < 2 ∧ (2 : ℚ) < 3) ∨ ((3 : ℚ) < 2 ∧ (2 : ℚ) < 1) := by norm_num
example : (StepFn.mk' (5 : ℚ) 7 1 3).value 2 = 6 := by
  norm_num [StepFn.mk', StepFn.value, sign, stepAny, clamp, stepUp]
example : (StepFn.mk' (5 : ℚ) 7 3 1).value 2 = 6 := by
  norm_num [StepFn.mk', StepFn.value, sign, stepAny, clamp, stepUp]
end Ord
section P
variable {K : Type} [CommRing K]
/-- **`Polynomial::calcDerivative` returns the true derivative**: for every coefficient list, every derivative
order `k` and every argument, the value is the `k`-th formal derivative of the polynomial evaluated there -/
theorem polyDeriv_is_derivative (cs : List K) (k : Nat) (x : K) :
    polyDeriv (Nat.cast : Nat → K) cs k x = eval x (derivative^[k] (ofCoeffs cs)) := by
  rw [polyDeriv, horner_eq_eval, ofCoeffs_polyDerivCoeffs]

/-- `Polynomial::calcValue` is evaluation of the denoted polynomial -/
theorem polyValue_is_eval (cs : List K) (x : K) : polyValue cs x = eval x (ofCoeffs cs) := horner_eq_eval cs x

/-- concrete instance: `d²/dx² (2x³ − x + 4)` at `x = 3` is `36` -/
example : polyDeriv (Nat.cast : Nat → ℚ) [2, 0, -1, 4] 2 3 = 36 := by
  norm_num [polyDeriv, polyDerivCoeffs, polyDerivCoeff, horner, List.range, List.range.loop]

/-- derivatives of order above the degree vanish -/
theorem polyDeriv_beyond_degree (ofNat : Nat → K) (cs : List K) (k : Nat) (x : K) (h : cs.length ≤ k) :
    polyDeriv ofNat cs k x = 0 := by
  simp [polyDeriv, polyDerivCoeffs, horner, show cs.length < k + 1 by omega]
end P
section L
variable {K : Type} [CommRing K]
/-- **Linear is exactly affine**: moving the argument by `t·d` changes the value by `t·Σ dⱼ·∂f/∂xⱼ`, with
`∂f/∂xⱼ = calcDerivative([j])`; hence first derivatives are the coefficients and all higher ones vanish -/
theorem linear_affine (t : K) (cs xs ds : List K) (h : ds.length = xs.length) (hc : xs.length < cs.length) :
    linearValue cs (List.zipWith (fun x d => x + t * d) xs ds) = linearValue cs xs + t * dirDeriv cs ds :=
  linAcc_shift 0 t cs xs ds h hc

/-- the directional derivative is `Σ dⱼ · calcDerivative([j])` -/
theorem dirDeriv_eq_sum (cs ds : List K) :
    dirDeriv cs ds = ((List.range (min cs.length ds.length)).map (fun j => ds.getD j 0 * linearDeriv cs [j])).sum := by
  induction cs generalizing ds with
  | nil => simp [dirDeriv]
  | cons c cs ih =>
    cases ds with
    | nil => simp [dirDeriv]
    | cons d ds =>
      simp only [dirDeriv, List.length_cons, Nat.succ_min_succ, List.range_succ_eq_map, List.map_cons, List.sum_cons,
        List.map_map, ih ds]
      simp [linearDeriv, Function.comp_def]

/-- second and higher derivatives of `Linear` are zero -/
theorem linearDeriv_higher_zero (cs : List K) (j1 j2 : Nat) (rest : List Nat) :
    linearDeriv cs (j1 :: j2 :: rest) = 0 := rfl

set_option linter.unnecessarySeqFocus false in
/-- **Sinusoid derivatives of every order**: with `d/dt sin(wt+p) = w cos(wt+p)`, `d/dt cos(wt+p) = -w sin(wt+p)`
the derivative of `α·s + β·c` is `(-wβ)·s + (wα)·c`; the order-`n+1` coefficients are exactly that -/
theorem sinusoid_deriv_succ (n : Nat) (a w : K) :
    sinusoidCoefs (n + 1) a w = (-(w * (sinusoidCoefs n a w).2), w * (sinusoidCoefs n a w).1) := by
  rw [sinusoidCoefs_general, sinusoidCoefs_general]
  rcases Nat.even_or_odd' n with ⟨k, rfl | rfl⟩
  · have h1 : (2 * k + 1) % 2 = 1 := by omega
    have h2 : (2 * k) % 2 ≠ 1 := by omega
    have h3 : (2 * k + 1) / 2 = k := by omega
    have h4 : (2 * k) / 2 = k := by omega
    simp only [h1, h2, h3, h4, if_true, if_false]
    by_cases hk : k % 2 = 1
    · simp only [hk, if_true]; ext <;> simp <;> ring
    · simp only [hk, if_false]; ext <;> simp <;> ring
  · have h1 : (2 * k + 1 + 1) % 2 ≠ 1 := by omega
    have h2 : (2 * k + 1) % 2 = 1 := by omega
    have h3 : (2 * k + 1 + 1) / 2 = k + 1 := by omega
    have h4 : (2 * k + 1) / 2 = k := by omega
    simp only [h1, h2, h3, h4, if_true, if_false]
    by_cases hk : k % 2 = 1
    · have : (k + 1) % 2 ≠ 1 := by omega
      simp only [hk, this, if_true, if_false]; ext <;> simp <;> ring
    · have : (k + 1) % 2 = 1 := by omega
      simp only [hk, this, if_true, if_false]; ext <;> simp <;> ring

/-- order 0 is `a·sin(wt+p)` -/
theorem sinusoid_value (a w s c : K) : sinusoidDeriv 0 a w s c = a * s := by
  simp [sinusoidDeriv, sinusoidCoefs]
end L

section S
variable {K : Type} [Field K] [LinearOrder K]
/-- `SimTK_splder_`: derivatives of order `≥ 2m` (above the spline degree `2m−1`) are identically zero -/
theorem splder_high_order_zero (ofNat : Nat → K) (ider m n : Nat) (t : K) (x c : Array K) (h : 2 * m ≤ ider) :
    splder ofNat ider m n t x c = 0 := by
  unfold splder splderAt
  have : (2 * (m : Int) - (ider : Int) < 1) := by omega
  simp [this]
end S

/-! ## The executed spline evaluator as a piecewise polynomial (round 2)

`splderAt` (everything `SimTK_splder_` does after `search_` has located the knot interval `l`) uses no comparison of
scalars, so the *same code the driver runs over `Float`* can be run over a polynomial type with the evaluation point
`t` as the indeterminate.  `CP` is a small computable dense-polynomial arithmetic over `ℚ` (Mathlib's `Polynomial` is
noncomputable); the statements below are closed Boolean computations checked by the kernel (`decide +kernel`: kernel
reduction only, no compiler, no extra axioms).  They are **instance theorems**: fixed knot vectors, every B-spline
coefficient basis vector, every knot interval, `t` symbolic.  (The spline is linear in its coefficients, so basis vectors
determine every spline on these knots — that linearity is not proved here.)  The general statement over arbitrary knots
remains predicate-only (harness `spline_deriv_chain`, `spline_deriv_of_value`, `spline_continuity`). -/

/-- computable dense polynomials over `ℚ`: coefficient list, lowest degree first, not normalised -/
structure CP where
  c : List Rat

namespace CP
def addL : List Rat → List Rat → List Rat
  | [], b => b
  | a, [] => a
  | a :: as, b :: bs => (a + b) :: addL as bs
def scaleL (k : Rat) (a : List Rat) : List Rat := a.map (k * ·)
def mulL : List Rat → List Rat → List Rat
  | [], _ => []
  | a :: as, b => addL (scaleL a b) (0 :: mulL as b)
/-- drop trailing zero coefficients -/
def normL (a : List Rat) : List Rat := (a.reverse.dropWhile (· == 0)).reverse
instance : Add CP := ⟨fun a b => ⟨addL a.c b.c⟩⟩
instance : Neg CP := ⟨fun a => ⟨scaleL (-1) a.c⟩⟩
instance : Sub CP := ⟨fun a b => ⟨addL a.c (scaleL (-1) b.c)⟩⟩
instance : Mul CP := ⟨fun a b => ⟨mulL a.c b.c⟩⟩
/-- division by a *constant* polynomial — the only divisions `splderAt` performs are by knot differences -/
instance : Div CP := ⟨fun a b => ⟨scaleL (1 / (normL b.c).headD 0) a.c⟩⟩
def const (q : Rat) : CP := ⟨[q]⟩
instance (n : Nat) : OfNat CP n := ⟨const n⟩
/-- the indeterminate (the evaluation point `t`) -/
def tVar : CP := ⟨[0, 1]⟩
def derL : List Rat → List Rat
  | [] => []
  | _ :: as => as.zipIdx.map fun (a, i) => a * ((i : Nat) + 1 : Rat)
/-- formal derivative -/
def der (a : CP) : CP := ⟨derL a.c⟩
/-- equality of polynomials (up to trailing zeros) -/
def eqv (a b : CP) : Bool := normL a.c == normL b.c
/-- Horner evaluation -/
def evalAt (a : CP) (x : Rat) : Rat := a.c.foldr (fun c acc => c + x * acc) 0
end CP

/-- the polynomial in `t` that the executed `splderAt` computes on knot interval `l` (0 = left of the first knot,
`n` = right of the last) for derivative order `k`, B-spline coefficient vector `e_i`, half order `m`, knots `kn` -/
def splinePiece (m : Nat) (kn : List Rat) (i k l : Nat) : CP :=
  splderAt (fun n => CP.const n) k m kn.length l CP.tVar (kn.map CP.const).toArray
    ((Array.range kn.length).map fun j => if i = j then CP.const 1 else CP.const 0)

/-- on every knot interval, for every coefficient basis vector and every order `k < 2m`: the order-`k+1` output is the
formal derivative of the order-`k` output (`k = 0` is the value; order `2m` is identically 0) -/
def splineDerivChainOK (m : Nat) (kn : List Rat) : Bool :=
  (List.range kn.length).all fun i => (List.range (kn.length + 1)).all fun l => (List.range (2 * m)).all fun k =>
    CP.eqv (CP.der (splinePiece m kn i k l)) (splinePiece m kn i (k + 1) l)

/-- at every knot the pieces on both sides agree in value and in all derivatives up to order `2m−2` (= degree − 1) -/
def splineContinuityOK (m : Nat) (kn : List Rat) : Bool :=
  (List.range kn.length).all fun i => (List.range kn.length).all fun j => (List.range (2 * m - 1)).all fun k =>
    CP.evalAt (splinePiece m kn i k j) (kn.getD j 0) == CP.evalAt (splinePiece m kn i k (j + 1)) (kn.getD j 0)

/-- natural end conditions: outside the knot range the spline has degree `< m` -/
def splineNaturalEndsOK (m : Nat) (kn : List Rat) : Bool :=
  (List.range kn.length).all fun i =>
    CP.eqv (splinePiece m kn i m 0) (CP.const 0) && CP.eqv (splinePiece m kn i m kn.length) (CP.const 0)

/-- non-uniform knots used for the cubic instance -/
def knots5 : List Rat := [0, 1, 3, 4, 6]

/-- **linear splines (m = 1), knots 0,1,3**: the executed evaluator's derivative output is the derivative of its value
output on every interval, for every coefficient basis vector -/
theorem splder_linear_deriv_chain : splineDerivChainOK 1 [0, 1, 3] = true := by decide +kernel
theorem splder_linear_continuous : splineContinuityOK 1 [0, 1, 3] = true := by decide +kernel
/-- **cubic splines (m = 2), knots 0,1,3,4,6**: orders 1,2,3,4 of the executed evaluator are successive formal derivatives of
its value, as polynomials in `t`, on all six intervals and for all five coefficient basis vectors -/
theorem splder_cubic_deriv_chain : splineDerivChainOK 2 knots5 = true := by decide +kernel
/-- cubic: value, first and second derivative are continuous across every knot (C², "the continuity the degree promises") -/
theorem splder_cubic_C2 : splineContinuityOK 2 knots5 = true := by decide +kernel
/-- cubic: second and higher derivatives vanish identically outside the knot range (natural end conditions) -/
theorem splder_cubic_natural_ends : splineNaturalEndsOK 2 knots5 = true := by decide +kernel
end C41
